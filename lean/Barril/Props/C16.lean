/-
C16 — legacy unit spellings are exact aliases and never capture current units.

Property theorems only.  Helper lemmas: `Barril/Proofs/LegacyLemmas.lean`.  Table facts
(`*_all_legfix`, `*_all_legder`) are generated and proved per
100-row chunk by `decide +kernel` over the rows, categories and substitution list the translator
read from /repo's current source.

Shape: generic theorems for ANY database `db` and ANY pair `db.Alias l c r` ("`l` is no symbol, is
rewritten to the symbol `c`, `c` is not rewritten, `r` is the only row spelled `c`, and a category
named like `r`'s quantity type belongs to that type"); then the table theorems show that every
derived legacy spelling of each shipped database is such a pair.
-/
import Barril.Proofs.LegacyLemmas
import Barril.Gen.ThmLegfixPosc
import Barril.Gen.ThmLegfixNocat
import Barril.Gen.ThmLegfixSimple
import Barril.Gen.ThmLegderPosc
import Barril.Gen.ThmLegderNocat
import Barril.Gen.ThmLegderSimple
import Barril.Gen.ThmWfPosc
import Barril.Gen.ThmWfNocat
import Barril.Gen.ThmWfSimple

namespace Barril
open Barril.Gen

/-! ## the rewrite itself -/

/-- **generic idempotence under a decidable side condition**: for every substitution list and every
string, if the rewritten string contains no legacy fragment, rewriting it again changes nothing.
(Unconditional idempotence is false for today's list: see the `example` with "lbmolee" below.) -/
theorem fixLegacy_idempotent_of_noFragment (L : List (Sym × Sym)) (u : Sym)
    (h : noFragment L (Sym.bytes (fixLegacy L u)) = true) :
    fixLegacy L (fixLegacy L u) = fixLegacy L u :=
  fixLegacy_of_noFragment h

/-- a string without legacy fragments is not legacy -/
theorem not_legacy_of_noFragment (L : List (Sym × Sym)) (u : Sym)
    (h : noFragment L (Sym.bytes u) = true) : isLegacy L u = false :=
  isLegacy_eq_false_iff.mpr (fixLegacy_of_noFragment h)

/-- whatever is rewritten to a string that is not rewritten is a fixed point after one step:
idempotence on every spelling that resolves to a current symbol -/
theorem fixLegacy_idempotent_of_alias {db : Db} {l c : Sym} {r : UnitRow} (h : db.Alias l c r) :
    fixLegacy db.legacy (fixLegacy db.legacy l) = fixLegacy db.legacy l := by
  rw [h.fix, h.stable]

/-! ## `GetInfo`, `Convert` -/

/-- `GetInfo(qt, legacy)` = `GetInfo(qt, current)`, for every "category or quantity type" argument,
errors included -/
theorem getInfo_legacy {db : Db} {l c : Sym} {r : UnitRow} (h : db.Alias l c r)
    (qt0 : Sym) {fu : Bool} (hU : fu = false ∨ r.qtype ≠ unknownQType) :
    db.getInfo qt0 l fu true = db.getInfo qt0 c fu true :=
  Db.getInfo_alias h qt0 hU

/-- `Convert(cq, legacy, v, x)` = `Convert(cq, current, v, x)` -/
theorem convert_legacy_from {db : Db} {l c : Sym} {r : UnitRow} (h : db.Alias l c r)
    (hU : r.qtype ≠ unknownQType) (cq : Sym) {v : Sym} (hvl : v ≠ l) (hvc : v ≠ c) (x : Rat) :
    db.convert cq l v x = db.convert cq c v x := by
  unfold Db.convert
  have e1 : (l == v) = false := by simpa using Ne.symm hvl
  have e2 : (c == v) = false := by simpa using Ne.symm hvc
  simp only [e1, e2, Bool.false_eq_true, ↓reduceIte]
  cases db.typeOf cq with
  | error e => rfl
  | ok qt => simp only; rw [Db.getInfo_alias h qt (Or.inr hU)]

/-- `Convert(cq, u, legacy, x)` = `Convert(cq, u, current, x)` -/
theorem convert_legacy_to {db : Db} {l c : Sym} {r : UnitRow} (h : db.Alias l c r)
    (hU : r.qtype ≠ unknownQType) (cq : Sym) {u : Sym} (hul : u ≠ l) (huc : u ≠ c) (x : Rat) :
    db.convert cq u l x = db.convert cq u c x := by
  unfold Db.convert
  have e1 : (u == l) = false := by simpa using hul
  have e2 : (u == c) = false := by simpa using huc
  simp only [e1, e2, Bool.false_eq_true, ↓reduceIte]
  cases db.typeOf cq with
  | error e => rfl
  | ok qt => simp only; rw [Db.getInfo_alias h qt (Or.inr hU)]

/-- both units spelled the legacy way -/
theorem convert_legacy_both {db : Db} {l₁ c₁ l₂ c₂ : Sym} {r₁ r₂ : UnitRow}
    (h₁ : db.Alias l₁ c₁ r₁) (h₂ : db.Alias l₂ c₂ r₂) (hU₁ : r₁.qtype ≠ unknownQType)
    (hU₂ : r₂.qtype ≠ unknownQType) (hc : c₁ ≠ c₂) (cq : Sym) (x : Rat) :
    db.convert cq l₁ l₂ x = db.convert cq c₁ c₂ x := by
  have hl : l₂ ≠ l₁ := by
    intro e; apply hc; rw [← h₁.fix, ← h₂.fix, e]
  have hlc : l₂ ≠ c₁ := by
    intro e
    have := h₂.notSym
    rw [e, h₁.row] at this; cases this
  have hcl : c₁ ≠ l₂ := fun e => hlc e.symm
  rw [convert_legacy_from h₁ hU₁ cq hl hlc x, convert_legacy_to h₂ hU₂ cq hcl hc x]

/-- converting between the two spellings of one unit is the identity (the current spelling takes
the same-unit shortcut, the legacy one goes through `from ∘ to` of the one row) -/
theorem convert_legacy_same {db : Db} (hwf : ∀ w ∈ db.units, w.WF) {l c : Sym}
    {r : UnitRow} (h : db.Alias l c r) (hU : r.qtype ≠ unknownQType) {cq : Sym}
    (hq : db.typeOf cq = .ok r.qtype) (x : Rat) :
    db.convert cq l c x = .ok x ∧ db.convert cq c l x = .ok x := by
  have hg : db.getInfo r.qtype c true true = .ok r := by
    rw [Db.getInfo_of_symbol h.row h.only h.notLegacy]; simp
  have hgl : db.getInfo r.qtype l true true = .ok r := by
    rw [Db.getInfo_alias h r.qtype (Or.inr hU), hg]
  have e1 : (l == c) = false := by simpa using h.ne
  have e2 : (c == l) = false := by simpa using h.ne.symm
  have hw := hwf r h.mem
  constructor
  · unfold Db.convert
    simp only [e1, Bool.false_eq_true, ↓reduceIte, hq, hg, hgl]
    rw [convRows_eq hw hw, convVal_self hw]
  · unfold Db.convert
    simp only [e2, Bool.false_eq_true, ↓reduceIte, hq, hg, hgl]
    rw [convRows_eq hw hw, convVal_self hw]

/-- lists of any length (`Convert` on a list/tuple, `Array.GetValues`): legacy source unit -/
theorem convertList_legacy_from {db : Db} {l c : Sym} {r : UnitRow}
    (h : db.Alias l c r) (hU : r.qtype ≠ unknownQType) (cq : Sym) {v : Sym} (hvl : v ≠ l) (hvc : v ≠ c)
    (xs : List Rat) : db.convertList cq l v xs = db.convertList cq c v xs := by
  unfold Db.convertList
  have e1 : (l == v) = false := by simpa using Ne.symm hvl
  have e2 : (c == v) = false := by simpa using Ne.symm hvc
  simp only [e1, e2, Bool.false_eq_true, ↓reduceIte]
  cases db.typeOf cq with
  | error e => rfl
  | ok qt => simp only; rw [Db.getInfo_alias h qt (Or.inr hU)]

/-- lists of any length: legacy target unit -/
theorem convertList_legacy_to {db : Db} {l c : Sym} {r : UnitRow}
    (h : db.Alias l c r) (hU : r.qtype ≠ unknownQType) (cq : Sym) {u : Sym} (hul : u ≠ l) (huc : u ≠ c)
    (xs : List Rat) : db.convertList cq u l xs = db.convertList cq u c xs := by
  unfold Db.convertList
  have e1 : (u == l) = false := by simpa using hul
  have e2 : (u == c) = false := by simpa using huc
  simp only [e1, e2, Bool.false_eq_true, ↓reduceIte]
  cases db.typeOf cq with
  | error e => rfl
  | ok qt => simp only; rw [Db.getInfo_alias h qt (Or.inr hU)]

/-! ## `GetDefaultCategory`, `Quantity`, `ObtainQuantity`, value objects -/

/-- `GetDefaultCategory(legacy)` = `GetDefaultCategory(current)` -/
theorem getDefaultCategory_legacy {db : Db} {l c : Sym} {r : UnitRow} (h : db.Alias l c r) :
    db.getDefaultCategory l = db.getDefaultCategory c := by
  unfold Db.getDefaultCategory
  rw [h.notSym, h.row]
  simp [h.isLegacy, h.fix, h.row]

/-- `Quantity(category, legacy)` = `Quantity(category, current)` for every category argument,
rejected ones included: the stored unit is the current symbol -/
theorem newQuantity_legacy {db : Db} {l c : Sym} {r : UnitRow} (h : db.Alias l c r) (cat : Sym) :
    db.newQuantity cat l = db.newQuantity cat c := by
  unfold Db.newQuantity
  cases db.catByName cat with
  | none => rfl
  | some ci =>
    simp only [Db.categoryUnitValid_of_not_symbol h.notSym, h.isLegacy, h.fix, h.notLegacy,
      Bool.false_eq_true, ↓reduceIte]

/-- `ObtainQuantity(legacy, category)` = `ObtainQuantity(current, category)` -/
theorem obtainQuantity_legacy_cat {db : Db} {l c : Sym} {r : UnitRow} (h : db.Alias l c r) (cat : Sym) :
    db.obtainQuantity l (some cat) = db.obtainQuantity c (some cat) :=
  newQuantity_legacy h cat

/-- `ObtainQuantity(legacy)` = `ObtainQuantity(current)` when the current symbol has a default
category (otherwise both are rejected, with different exception classes) -/
theorem obtainQuantity_legacy_nocat {db : Db} {l c : Sym} {r : UnitRow} (h : db.Alias l c r)
    (hdc : ∀ dc, db.getDefaultCategory c = .ok dc → falsy dc = false) :
    db.obtainQuantity l none = db.obtainQuantity c none := by
  unfold Db.obtainQuantity Db.obtainNoCat
  rw [getDefaultCategory_legacy h]
  cases hd : db.getDefaultCategory c with
  | error e => rfl
  | ok dc =>
    have hf := hdc dc hd
    simp only [hf, Bool.not_false, ↓reduceIte]
    cases dc with
    | none => rfl
    | some d => exact newQuantity_legacy h d

/-- **a legacy spelling is accepted wherever the current one is, and yields the equal quantity**
(with or without category) -/
theorem obtainQuantity_legacy_ok {db : Db} {l c : Sym} {r : UnitRow} (h : db.Alias l c r)
    (cat : Option Sym) {q : Simple} (hq : db.obtainQuantity c cat = .ok q) :
    db.obtainQuantity l cat = .ok q := by
  cases cat with
  | some d => rw [obtainQuantity_legacy_cat h d]; exact hq
  | none =>
    rw [obtainQuantity_legacy_nocat h]; exact hq
    intro dc hd
    cases hf : falsy dc with
    | false => rfl
    | true =>
      exfalso
      unfold Db.obtainQuantity Db.obtainNoCat at hq
      rw [hd] at hq
      simp only [hf, Bool.not_true, Bool.false_eq_true, ↓reduceIte, h.notLegacy] at hq
      cases hq

/-- the stored unit of a quantity created from a legacy spelling is the current symbol -/
theorem obtainQuantity_legacy_unit {db : Db} {l c : Sym} {r : UnitRow} (h : db.Alias l c r)
    (cat : Sym) {q : Simple} (hq : db.obtainQuantity l (some cat) = .ok q) : q = ⟨cat, c⟩ := by
  rw [obtainQuantity_legacy_cat h cat] at hq
  obtain ⟨_, _, _, e, _⟩ := Db.newQuantity_ok_inv hq h.notLegacy
  exact e

/-! ### the composing-mapping forms of `ObtainQuantity` are unit-string entry points too -/

/-- **`ObtainQuantity({category: (legacy, 1)})` = `ObtainQuantity({category: (current, 1)})`
= `ObtainQuantity(current, category)`** for every mapping class (ordered dict or not) and every
category, rejected ones included: a one-entry mapping of exponent 1 never reaches the
`CheckQuantityTypeUnit` loop (which knows no legacy spellings) -/
theorem obtainQuantity_legacy_mapping {db : Db} {l c : Sym} {r : UnitRow} (h : db.Alias l c r)
    (ordered : Bool) (cat : Sym) :
    db.obtainFromMapping ordered [⟨cat, l, 1⟩] = db.obtainFromMapping ordered [⟨cat, c, 1⟩]
    ∧ db.obtainFromMapping ordered [⟨cat, c, 1⟩] =
        (match db.obtainQuantity c (some cat) with
         | .ok q => .ok (.simple q)
         | .error e => .error e) := by
  simp only [Db.obtainFromMapping, simpleCell, BEq.rfl, ↓reduceIte, obtainQuantity_legacy_cat h cat]
  exact ⟨trivial, rfl⟩

/-- a legacy spelling in a one-entry mapping is accepted wherever the current one is, and the
quantity is the simple quantity `(category, current)` -/
theorem obtainQuantity_legacy_mapping_ok {db : Db} {l c : Sym} {r : UnitRow} (h : db.Alias l c r)
    (ordered : Bool) (cat : Sym) {o : Obtained}
    (ho : db.obtainFromMapping ordered [⟨cat, c, 1⟩] = .ok o) :
    db.obtainFromMapping ordered [⟨cat, l, 1⟩] = .ok o ∧ o = .simple ⟨cat, c⟩ := by
  refine ⟨by rw [(obtainQuantity_legacy_mapping h ordered cat).1]; exact ho, ?_⟩
  rw [(obtainQuantity_legacy_mapping h ordered cat).2] at ho
  cases hq : db.obtainQuantity c (some cat) with
  | error e => rw [hq] at ho; cases ho
  | ok q =>
    rw [hq] at ho
    rw [← obtainQuantity_legacy_cat h cat] at hq
    rw [obtainQuantity_legacy_unit h cat hq] at ho
    cases ho; rfl

/-- **the parallel-lists form `ObtainQuantity([(legacy, 1)], category)`** equals the one with the
current spelling when the category argument is a list/tuple (any length, the empty one included) or a
string -/
theorem obtainFromLists_legacy {db : Db} {l c : Sym} {r : UnitRow} (h : db.Alias l c r)
    (cat : CatArg) (hc : cat ≠ .none) :
    db.obtainFromLists [(l, 1)] cat = db.obtainFromLists [(c, 1)] cat := by
  cases cat with
  | none => exact absurd rfl hc
  | str d => simp only [Db.obtainFromLists, simplePair, BEq.rfl, ↓reduceIte, obtainQuantity_legacy_cat h d]
  | list cs =>
    cases cs with
    | nil => rfl
    | cons d ds =>
      simp only [Db.obtainFromLists, simplePair, BEq.rfl, ↓reduceIte, obtainQuantity_legacy_cat h d]

/-- … and without a category (`ObtainQuantity([(legacy, 1)])`) whenever the current spelling is
accepted -/
theorem obtainFromLists_legacy_nocat_ok {db : Db} {l c : Sym} {r : UnitRow} (h : db.Alias l c r)
    {o : Obtained} (ho : db.obtainFromLists [(c, 1)] .none = .ok o) :
    db.obtainFromLists [(l, 1)] .none = .ok o := by
  simp only [Db.obtainFromLists, simplePair, BEq.rfl, ↓reduceIte] at ho ⊢
  cases hq : db.obtainQuantity c none with
  | error e => rw [hq] at ho; cases ho
  | ok q => rw [hq] at ho; rw [obtainQuantity_legacy_ok h none hq]; exact ho

/-- the parallel-lists form with one pair of exponent 1 and a category list IS the dict form -/
theorem obtainFromLists_single_eq_mapping (db : Db) (u cat : Sym) (cs : List Sym) :
    db.obtainFromLists [(u, 1)] (.list (cat :: cs)) = db.obtainFromMapping true [⟨cat, u, 1⟩] := by
  simp only [Db.obtainFromLists, simplePair, Db.obtainFromMapping, simpleCell, BEq.rfl, ↓reduceIte]

/-- **what the library does with a legacy spelling in a really composing mapping** (several entries,
or an exponent other than 1): it is rejected with a units error, whatever the other cells are —
`CheckQuantityTypeUnit` runs with `fix_legacy=False` — so there a legacy spelling is not an alias (the
current spelling gives a derived quantity); the alias property is claimed for the one-entry form only -/
theorem obtainFromMapping_rejects_legacy {db : Db} {l c : Sym} {r : UnitRow} (h : db.Alias l c r)
    (ordered : Bool) (cells : List MapCell) (hs : simpleCell cells = none)
    (hm : ∃ x ∈ cells, x.unit = l) :
    db.obtainFromMapping ordered cells = .error .units := by
  unfold Db.obtainFromMapping
  rw [hs]
  obtain ⟨x, hx, hl⟩ := hm
  rw [Db.checkCells_of_not_symbol cells ⟨x, hx, hl ▸ h.notSym⟩]

/-- a composing mapping of current symbols that passes the validation is returned as given (ordered
dict) -/
theorem obtainFromMapping_derived {db : Db} (cells : List MapCell) (hs : simpleCell cells = none)
    {o : Obtained} (ho : db.obtainFromMapping true cells = .ok o) : o = .derived cells := by
  simp only [Db.obtainFromMapping, hs] at ho
  cases hc : db.checkCells cells with
  | error e => rw [hc] at ho; cases ho
  | ok _ => rw [hc] at ho; simp only [↓reduceIte] at ho; cases ho; rfl

/-- `Scalar/Array/FractionScalar(value, legacy[, category])` equals the object built with the
current spelling (any value type: number, list of any length, fraction) -/
theorem create_legacy {α : Type} {db : Db} {l c : Sym} {r : UnitRow} (h : db.Alias l c r)
    (v : α) (cat : Option Sym) {o : Simple × α} (ho : db.create v c cat = .ok o) :
    db.create v l cat = .ok o := by
  unfold Db.create at ho ⊢
  cases hq : db.obtainQuantity c cat with
  | error e => rw [hq] at ho; cases ho
  | ok q => rw [hq] at ho; rw [obtainQuantity_legacy_ok h cat hq]; exact ho

/-- `Scalar.GetValue(legacy)` = `Scalar.GetValue(current)` from any other unit -/
theorem getValue_legacy {db : Db} {l c : Sym} {r : UnitRow} (h : db.Alias l c r)
    (hU : r.qtype ≠ unknownQType) {q : Simple} (hql : q.unit ≠ l) (hqc : q.unit ≠ c) (x : Rat) :
    db.getValue q x l = db.getValue q x c := by
  unfold Db.getValue
  have e1 : (q.unit == l) = false := by simpa using hql
  have e2 : (q.unit == c) = false := by simpa using hqc
  simp only [e1, e2, Bool.false_eq_true, ↓reduceIte]
  cases db.catByName q.cat with
  | none => rfl
  | some ci => simp only; rw [Db.getInfo_alias h ci.qtype (Or.inr hU)]

/-- reading a value in the legacy spelling of its own unit gives the value back (in exact
arithmetic; the float code goes through `from(to(x))` here and may differ by rounding) -/
theorem getValue_legacy_own_unit {db : Db} (hwf : ∀ w ∈ db.units, w.WF)
    {l c : Sym} {r : UnitRow} (h : db.Alias l c r) (hU : r.qtype ≠ unknownQType) {cat : Sym}
    {q : Simple} (hq : db.newQuantity cat c = .ok q) (x : Rat) :
    db.getValue q x l = .ok x ∧ db.getValue q x c = .ok x := by
  obtain ⟨ci, r', hcat, rfl, hg⟩ := Db.newQuantity_ok_inv hq h.notLegacy
  have hw := hwf r' (Db.getInfo_mem hg)
  constructor
  · unfold Db.getValue
    have e1 : (c == l) = false := by simpa using h.ne.symm
    simp only [e1, Bool.false_eq_true, ↓reduceIte, hcat, Db.getInfo_alias h ci.qtype (Or.inr hU), hg]
    rw [convRows_eq hw hw, convVal_self hw]
  · unfold Db.getValue; simp

/-- `Array.GetValues(legacy)` = `Array.GetValues(current)` for value lists of any length -/
theorem getValues_legacy {db : Db} {l c : Sym} {r : UnitRow} (h : db.Alias l c r)
    (hU : r.qtype ≠ unknownQType) {q : Simple} (hql : q.unit ≠ l) (hqc : q.unit ≠ c) (xs : List Rat) :
    db.getValues q xs l = db.getValues q xs c := by
  unfold Db.getValues
  have e1 : (l == q.unit) = false := by simpa using Ne.symm hql
  have e2 : (c == q.unit) = false := by simpa using Ne.symm hqc
  simp only [e1, e2, Bool.false_eq_true, ↓reduceIte]
  exact convertList_legacy_to h hU q.cat hql hqc xs

/-- the own-unit case for lists of any length -/
theorem getValues_legacy_own_unit {db : Db} (hwf : ∀ w ∈ db.units, w.WF)
    {l c : Sym} {r : UnitRow} (h : db.Alias l c r) (hU : r.qtype ≠ unknownQType) {cat : Sym}
    {q : Simple} (hq : db.newQuantity cat c = .ok q) (xs : List Rat) :
    db.getValues q xs l = .ok xs ∧ db.getValues q xs c = .ok xs := by
  obtain ⟨ci, r', hcat, rfl, hg⟩ := Db.newQuantity_ok_inv hq h.notLegacy
  have hw := hwf r' (Db.getInfo_mem hg)
  constructor
  · unfold Db.getValues Db.convertList Db.typeOf
    have e1 : (l == c) = false := by simpa using h.ne
    have e2 : (c == l) = false := by simpa using h.ne.symm
    simp only [e1, e2, Bool.false_eq_true, ↓reduceIte, hcat, Db.getInfo_alias h ci.qtype (Or.inr hU), hg]
    exact mapRows_self hw xs
  · unfold Db.getValues; simp

/-- `CreateCopy(unit=legacy)` = `CreateCopy(unit=current)`: same quantity, same value -/
theorem createCopy_legacy {db : Db} {l c : Sym} {r : UnitRow} (h : db.Alias l c r)
    (hU : r.qtype ≠ unknownQType) {q : Simple} (hcat : q.cat ≠ 0) (hql : q.unit ≠ l) (hqc : q.unit ≠ c)
    (x : Rat) : db.createCopy q x l = db.createCopy q x c := by
  unfold Db.createCopy
  have e : (q.cat != 0) = true := by simpa using hcat
  rw [getValue_legacy h hU hql hqc x]
  simp only [e, ↓reduceIte, obtainQuantity_legacy_cat h q.cat]

/-! ## value objects created without a value, list copies, unit names -/

/-- reading a value of ANY quantity the database can build (the stored unit is always a table
symbol) in the legacy spelling gives what the current spelling gives — also when the quantity's own
unit is the aliased one (same-unit shortcut on one side, `from ∘ to` of the one row on the other) -/
theorem getValue_legacy_of_quantity {db : Db} (hwf : ∀ w ∈ db.units, w.WF) {l c : Sym} {r : UnitRow}
    (h : db.Alias l c r) (hU : r.qtype ≠ unknownQType) {cat d : Sym} {q : Simple}
    (hq : db.newQuantity cat d = .ok q) (x : Rat) :
    db.getValue q x l = db.getValue q x c := by
  obtain ⟨ci, r', hcat, hqc, hsym, hg⟩ := Db.newQuantity_ok_inv' hq
  have hql : q.unit ≠ l := by
    intro e; rw [e] at hsym; exact hsym h.notSym
  by_cases hqc' : q.unit = c
  · have hw := hwf r' (Db.getInfo_mem hg)
    have e1 : (q.unit == l) = false := by simpa using hql
    have e2 : (q.unit == c) = true := by simpa using hqc'
    unfold Db.getValue
    simp only [e1, e2, Bool.false_eq_true, ↓reduceIte, hqc, hcat,
      Db.getInfo_alias h ci.qtype (Or.inr hU)]
    rw [← hqc', hg]
    simp only
    rw [convRows_eq hw hw, convVal_self hw]
  · exact getValue_legacy h hU hql hqc' x

/-- `_GetDefaultValue(category_info, legacy)` = `_GetDefaultValue(category_info, current)`: the
default value of the category converted to the unit -/
theorem defaultValueIn_legacy {db : Db} (hwf : ∀ w ∈ db.units, w.WF) {l c : Sym} {r : UnitRow}
    (h : db.Alias l c r) (hU : r.qtype ≠ unknownQType) (ci : CatRow) :
    db.defaultValueIn ci (some l) = db.defaultValueIn ci (some c) := by
  unfold Db.defaultValueIn
  cases hq : db.newQuantity ci.name ci.defaultUnit with
  | error e => rfl
  | ok q => exact getValue_legacy_of_quantity hwf h hU hq ci.defaultValue

/-- **value-less construction, any value class**: if the subclass' default value does not tell the
two spellings apart, the object built from the legacy spelling is the object built from the current
one (errors included) -/
theorem createValueless_legacy {α : Type} {db : Db} {l c : Sym} {r : UnitRow} (h : db.Alias l c r)
    (dv : CatRow → Option Sym → Except ErrKind α) (hdv : ∀ ci, dv ci (some l) = dv ci (some c))
    (cat : Sym) : db.createValueless dv cat (some l) = db.createValueless dv cat (some c) := by
  unfold Db.createValueless
  cases db.catByName cat with
  | none => rfl
  | some ci => simp only [hdv ci, obtainQuantity_legacy_cat h cat]

/-- **`Scalar(category, unit=legacy)` = `Scalar(category, unit=current)`** (also `FractionScalar`):
same quantity and the same number `convert (defaultUnit) u (defaultValue)`, for every category —
whatever its default value, default unit and limits —, rejected ones included -/
theorem createDefault_legacy {db : Db} (hwf : ∀ w ∈ db.units, w.WF) {l c : Sym} {r : UnitRow}
    (h : db.Alias l c r) (hU : r.qtype ≠ unknownQType) (cat : Sym) :
    db.createDefault cat (some l) = db.createDefault cat (some c) :=
  createValueless_legacy h db.defaultValueIn (defaultValueIn_legacy hwf h hU) cat

/-- `Array(category, unit=legacy)` / `FixedArray(n, category, unit=legacy)` equal the objects built
with the current spelling -/
theorem createDefaultList_legacy {db : Db} {l c : Sym} {r : UnitRow} (h : db.Alias l c r) (n : Nat)
    (cat : Sym) : db.createDefaultList n cat (some l) = db.createDefaultList n cat (some c) :=
  createValueless_legacy h (constDefault n) (fun _ => rfl) cat

/-- the number a value-less scalar carries IS the category default converted from the default unit:
whenever the object exists, its value is `getValue` of the default quantity (so it cannot be the
unconverted default unless the conversion says so) -/
theorem createDefault_value {db : Db} {cat u : Sym} {o : Simple × Rat}
    (ho : db.createDefault cat (some u) = .ok o) :
    ∃ ci q, db.catByName cat = some ci ∧ db.newQuantity ci.name ci.defaultUnit = .ok q
      ∧ db.getValue q ci.defaultValue u = .ok o.2 ∧ db.obtainQuantity u (some cat) = .ok o.1 := by
  unfold Db.createDefault Db.createValueless at ho
  cases hc : db.catByName cat with
  | none => rw [hc] at ho; cases ho
  | some ci =>
    rw [hc] at ho
    simp only at ho
    cases hd : db.defaultValueIn ci (some u) with
    | error e => rw [hd] at ho; cases ho
    | ok v =>
      rw [hd] at ho
      simp only at ho
      cases hq : db.obtainQuantity u (some cat) with
      | error e => rw [hq] at ho; cases ho
      | ok q' =>
        rw [hq] at ho
        cases ho
        unfold Db.defaultValueIn at hd
        cases hn : db.newQuantity ci.name ci.defaultUnit with
        | error e => rw [hn] at hd; cases hd
        | ok q => rw [hn] at hd; exact ⟨ci, q, rfl, hn, hd, rfl⟩

/-- `Array.CreateCopy(unit=legacy)` = `Array.CreateCopy(unit=current)` for value lists of any
length -/
theorem createCopyList_legacy {db : Db} {l c : Sym} {r : UnitRow} (h : db.Alias l c r)
    (hU : r.qtype ≠ unknownQType) {q : Simple} (hcat : q.cat ≠ 0) (hql : q.unit ≠ l) (hqc : q.unit ≠ c)
    (xs : List Rat) : db.createCopyList q xs l = db.createCopyList q xs c := by
  unfold Db.createCopyList
  have e : (q.cat != 0) = true := by simpa using hcat
  rw [getValues_legacy h hU hql hqc xs]
  simp only [e, ↓reduceIte, obtainQuantity_legacy_cat h q.cat]

/-- `GetUnitName(qt, legacy)` = `GetUnitName(qt, current)` -/
theorem getUnitName_legacy {db : Db} {l c : Sym} {r : UnitRow} (h : db.Alias l c r) (qt : Sym) :
    db.getUnitName qt l = db.getUnitName qt c := by
  unfold Db.getUnitName
  rw [Db.getInfo_alias h qt (Or.inl rfl)]

/-! ## category registration -/

/-- `AddCategory(…, valid_units, default_unit)`: writing any of the units the legacy way registers
exactly the same category as writing all of them the current way — for unit lists of any length
and any mix of spellings whose rewrite is a fixed point -/
theorem addCategory_legacy (db : Db) (name qt : Sym) (valid : Option (List Sym)) (dflt : Option Sym)
    (caption : Sym) (override : Bool)
    (hv : ∀ vs, valid = some vs → ∀ v ∈ vs,
      fixLegacy db.legacy (fixLegacy db.legacy v) = fixLegacy db.legacy v)
    (hd : ∀ d, dflt = some d → fixLegacy db.legacy (fixLegacy db.legacy d) = fixLegacy db.legacy d) :
    db.addCategory name qt valid dflt caption override =
      db.addCategory name qt (valid.map (List.map (fixLegacy db.legacy))) (dflt.map (fixLegacy db.legacy))
        caption override := by
  have e1 : db.fixValidOpt qt (valid.map (List.map (fixLegacy db.legacy))) = db.fixValidOpt qt valid := by
    cases valid with
    | none => rfl
    | some vs => simp only [Option.map_some, Db.fixValidOpt, Db.fixValid_map_fix qt vs (hv vs rfl)]
  have e2 : ∀ v', db.chooseDefault qt v' (dflt.map (fixLegacy db.legacy)) = db.chooseDefault qt v' dflt := by
    intro v'
    cases dflt with
    | none => rfl
    | some d => simp only [Option.map_some, Db.chooseDefault, hd d rfl]
  unfold Db.addCategory
  simp only [e1, e2]

/-- `AddCategory` with default value and limits: the unit arguments are rewritten exactly as
without them, so legacy spellings register the same category -/
theorem addCategoryFull_legacy (db : Db) (name qt : Sym) (valid : Option (List Sym)) (dflt : Option Sym)
    (caption : Sym) (override : Bool) (dv mn mx : Option Rat) (minx maxx : Bool)
    (hv : ∀ vs, valid = some vs → ∀ v ∈ vs,
      fixLegacy db.legacy (fixLegacy db.legacy v) = fixLegacy db.legacy v)
    (hd : ∀ d, dflt = some d → fixLegacy db.legacy (fixLegacy db.legacy d) = fixLegacy db.legacy d) :
    db.addCategoryFull name qt valid dflt caption override dv mn mx minx maxx =
      db.addCategoryFull name qt (valid.map (List.map (fixLegacy db.legacy))) (dflt.map (fixLegacy db.legacy))
        caption override dv mn mx minx maxx := by
  have e1 : db.fixValidOpt qt (valid.map (List.map (fixLegacy db.legacy))) = db.fixValidOpt qt valid := by
    cases valid with
    | none => rfl
    | some vs => simp only [Option.map_some, Db.fixValidOpt, Db.fixValid_map_fix qt vs (hv vs rfl)]
  have e2 : ∀ v', db.chooseDefault qt v' (dflt.map (fixLegacy db.legacy)) = db.chooseDefault qt v' dflt := by
    intro v'
    cases dflt with
    | none => rfl
    | some d => simp only [Option.map_some, Db.chooseDefault, hd d rfl]
  unfold Db.addCategoryFull
  simp only [e1, e2]

/-- without default value and limits the full registration is the one modelled before -/
theorem addCategoryFull_plain (db : Db) (name qt : Sym) (valid : Option (List Sym)) (dflt : Option Sym)
    (caption : Sym) (override : Bool) :
    db.addCategoryFull name qt valid dflt caption override none none none false false =
      db.addCategory name qt valid dflt caption override := by
  unfold Db.addCategoryFull Db.addCategory
  simp only [limitsCrossed, chooseDefaultValue, Bool.false_eq_true, ↓reduceIte, Bool.or_self]

/-- the registered category stores current symbols only -/
theorem fixValid_stores_fixed {db : Db} {qt : Sym} :
    ∀ {vs out : List Sym}, db.fixValid qt vs = .ok out → out = vs.map (fixLegacy db.legacy)
  | [], out, h => by cases h; rfl
  | v :: vs, out, h => by
    unfold Db.fixValid at h
    split at h
    · cases hr : db.fixValid qt vs with
      | error e => rw [hr] at h; cases h
      | ok o => rw [hr] at h; cases h; rw [fixValid_stores_fixed hr]; rfl
    · cases h

/-! ## the three shipped databases (tables regenerated on every run) -/

/-- **no current unit symbol is ever rewritten** -/
theorem posc_no_symbol_rewritten : ∀ r ∈ poscDb.units, fixLegacy poscDb.legacy r.sym = r.sym :=
  fun r hr => by
    have h := List.all_eq_true.mp poscUnits_all_legfix r hr
    simp only [UnitRow.notRewritten, beq_iff_eq] at h
    exact h
theorem nocat_no_symbol_rewritten : ∀ r ∈ nocatDb.units, fixLegacy nocatDb.legacy r.sym = r.sym :=
  fun r hr => by
    have h := List.all_eq_true.mp nocatUnits_all_legfix r hr
    simp only [UnitRow.notRewritten, beq_iff_eq] at h
    exact h
theorem simple_no_symbol_rewritten : ∀ r ∈ simpleDb.units, fixLegacy simpleDb.legacy r.sym = r.sym :=
  fun r hr => by
    have h := List.all_eq_true.mp simpleUnits_all_legfix r hr
    simp only [UnitRow.notRewritten, beq_iff_eq] at h
    exact h

/-- **every derived legacy spelling** of every table unit is no symbol itself, is rewritten to the
symbol it was derived from, which is not rewritten and is the symbol of exactly one row; that row's
quantity type is not the `Unknown` placeholder and is not re-routed by a category of its name -/
theorem posc_derived_alias : ∀ p ∈ poscDb.derive, ∃ r, poscDb.Alias p.1 p.2 r ∧ r.qtype ≠ unknownQType :=
  Db.alias_of_tables poscUnits_all_legfix poscUnits_all_legder
theorem nocat_derived_alias : ∀ p ∈ nocatDb.derive, ∃ r, nocatDb.Alias p.1 p.2 r ∧ r.qtype ≠ unknownQType :=
  Db.alias_of_tables nocatUnits_all_legfix nocatUnits_all_legder
theorem simple_derived_alias :
    ∀ p ∈ simpleDb.derive, ∃ r, simpleDb.Alias p.1 p.2 r ∧ r.qtype ≠ unknownQType :=
  Db.alias_of_tables simpleUnits_all_legfix simpleUnits_all_legder

/-- **rewriting is idempotent** on every derived spelling and on every current symbol -/
theorem posc_idempotent :
    (∀ p ∈ poscDb.derive, fixLegacy poscDb.legacy (fixLegacy poscDb.legacy p.1) = fixLegacy poscDb.legacy p.1)
    ∧ ∀ r ∈ poscDb.units, fixLegacy poscDb.legacy (fixLegacy poscDb.legacy r.sym) = fixLegacy poscDb.legacy r.sym := by
  constructor
  · intro p hp
    obtain ⟨r, h, _⟩ := posc_derived_alias p hp
    exact fixLegacy_idempotent_of_alias h
  · intro r hr
    rw [posc_no_symbol_rewritten r hr, posc_no_symbol_rewritten r hr]

/-- what "exact alias" means for one pair of spellings, all modelled entries at once: same
`GetInfo`, same `GetDefaultCategory`, same `Quantity`/`ObtainQuantity` for every category argument,
accepted without category whenever `c` is, same `Convert` from and to every other unit for every
number and every list, same `GetValue`/`GetValues`/`CreateCopy` on every quantity in another unit -/
def Db.ExactAlias (db : Db) (l c : Sym) : Prop :=
    (∀ qt fu, db.getInfo qt l fu true = db.getInfo qt c fu true)
    ∧ db.getDefaultCategory l = db.getDefaultCategory c
    ∧ (∀ cat, db.obtainQuantity l (some cat) = db.obtainQuantity c (some cat))
    ∧ (∀ cat q, db.obtainQuantity c cat = .ok q → db.obtainQuantity l cat = .ok q)
    ∧ (∀ cq v x, v ≠ l → v ≠ c →
        db.convert cq l v x = db.convert cq c v x ∧ db.convert cq v l x = db.convert cq v c x)
    ∧ (∀ cq v xs, v ≠ l → v ≠ c →
        db.convertList cq l v xs = db.convertList cq c v xs
        ∧ db.convertList cq v l xs = db.convertList cq v c xs)
    ∧ (∀ (q : Simple) x xs, q.unit ≠ l → q.unit ≠ c →
        db.getValue q x l = db.getValue q x c
        ∧ db.getValues q xs l = db.getValues q xs c
        ∧ (q.cat ≠ 0 → db.createCopy q x l = db.createCopy q x c))

/-- every alias pair is an exact alias -/
theorem exactAlias_of_alias {db : Db} {l c : Sym} {r : UnitRow} (h : db.Alias l c r)
    (hU : r.qtype ≠ unknownQType) : db.ExactAlias l c := by
  refine ⟨fun qt fu => getInfo_legacy h qt (Or.inr hU), getDefaultCategory_legacy h,
    obtainQuantity_legacy_cat h, fun cat q => obtainQuantity_legacy_ok h cat, ?_, ?_, ?_⟩
  · intro cq v x h1 h2
    exact ⟨convert_legacy_from h hU cq h1 h2 x, convert_legacy_to h hU cq h1 h2 x⟩
  · intro cq v xs h1 h2
    exact ⟨convertList_legacy_from h hU cq h1 h2 xs, convertList_legacy_to h hU cq h1 h2 xs⟩
  · intro q x xs h1 h2
    exact ⟨getValue_legacy h hU h1 h2 x, getValues_legacy h hU h1 h2 xs,
      fun hc => createCopy_legacy h hU hc h1 h2 x⟩

/-- **C16 on the default database**: every derived legacy spelling of every table unit is an exact
alias of the symbol it was derived from -/
theorem posc_legacy_exact_alias : ∀ p ∈ poscDb.derive, poscDb.ExactAlias p.1 p.2 := by
  intro p hp
  obtain ⟨r, h, hU⟩ := posc_derived_alias p hp
  exact exactAlias_of_alias h hU

/-- the same for the POSC database without categories and for `FillSimple` -/
theorem nocat_legacy_exact_alias : ∀ p ∈ nocatDb.derive, nocatDb.ExactAlias p.1 p.2 := by
  intro p hp
  obtain ⟨r, h, hU⟩ := nocat_derived_alias p hp
  exact exactAlias_of_alias h hU
theorem simple_legacy_exact_alias : ∀ p ∈ simpleDb.derive, simpleDb.ExactAlias p.1 p.2 := by
  intro p hp
  obtain ⟨r, h, hU⟩ := simple_derived_alias p hp
  exact exactAlias_of_alias h hU

/-! ## value-less construction, list copies and unit names: all at once, also after a registration -/

/-- the entries added to "exact alias": value-less `Scalar`/`FractionScalar` (default value of the
category converted to the unit), value-less `Array`/`FixedArray` of any dimension, `Array.CreateCopy`
for lists of any length, `GetUnitName` -/
def Db.ExactAliasValueless (db : Db) (l c : Sym) : Prop :=
    (∀ cat, db.createDefault cat (some l) = db.createDefault cat (some c))
    ∧ (∀ n cat, db.createDefaultList n cat (some l) = db.createDefaultList n cat (some c))
    ∧ (∀ (q : Simple) x, (∃ cat d, db.newQuantity cat d = .ok q) → db.getValue q x l = db.getValue q x c)
    ∧ (∀ (q : Simple) xs, q.cat ≠ 0 → q.unit ≠ l → q.unit ≠ c →
        db.createCopyList q xs l = db.createCopyList q xs c)
    ∧ (∀ qt, db.getUnitName qt l = db.getUnitName qt c)

theorem exactAliasValueless_of_alias {db : Db} (hwf : ∀ w ∈ db.units, w.WF) {l c : Sym} {r : UnitRow}
    (h : db.Alias l c r) (hU : r.qtype ≠ unknownQType) : db.ExactAliasValueless l c :=
  ⟨createDefault_legacy hwf h hU, createDefaultList_legacy h,
    fun _ x ⟨_, _, hq⟩ => getValue_legacy_of_quantity hwf h hU hq x,
    fun _ xs hc h1 h2 => createCopyList_legacy h hU hc h1 h2 xs, getUnitName_legacy h⟩

/-- **categories registered by the user** (`AddCategory` with any default value, default unit, valid
units, limits): after a successful registration every alias pair is still an exact alias, in
particular in the new category, whose non-zero default value is converted for the legacy spelling
exactly as for the current one.  (Side condition: the new category is not named like the unit's
quantity type while belonging to another type.) -/
theorem registered_exact_alias {db db' : Db} (hwf : ∀ w ∈ db.units, w.WF) {l c : Sym} {r : UnitRow}
    (h : db.Alias l c r) (hU : r.qtype ≠ unknownQType) {name qt : Sym} {valid : Option (List Sym)}
    {dflt : Option Sym} {caption : Sym} {override : Bool} {dv mn mx : Option Rat} {minx maxx : Bool}
    (hreg : db.addCategoryFull name qt valid dflt caption override dv mn mx minx maxx = .ok db')
    (hname : name ≠ r.qtype ∨ qt = r.qtype) :
    db'.ExactAlias l c ∧ db'.ExactAliasValueless l c := by
  obtain ⟨row, hn, hq, hdb⟩ := Db.addCategoryFull_ok_inv hreg
  have h' : db'.Alias l c r := h.after_register hdb (by rw [hn, hq]; exact hname)
  have hwf' : ∀ w ∈ db'.units, w.WF := by subst hdb; exact hwf
  exact ⟨exactAlias_of_alias h' hU, exactAliasValueless_of_alias hwf' h' hU⟩

theorem posc_rows_wf : ∀ w ∈ poscDb.units, w.WF :=
  fun w hw => (UnitRow.wf_iff w).mp (List.all_eq_true.mp poscUnits_all_wf w hw)
theorem nocat_rows_wf : ∀ w ∈ nocatDb.units, w.WF :=
  fun w hw => (UnitRow.wf_iff w).mp (List.all_eq_true.mp nocatUnits_all_wf w hw)
theorem simple_rows_wf : ∀ w ∈ simpleDb.units, w.WF :=
  fun w hw => (UnitRow.wf_iff w).mp (List.all_eq_true.mp simpleUnits_all_wf w hw)

/-- **C16 for value-less objects on the shipped databases**, before and after any registration -/
theorem posc_legacy_valueless : ∀ p ∈ poscDb.derive, poscDb.ExactAliasValueless p.1 p.2 := by
  intro p hp
  obtain ⟨r, h, hU⟩ := posc_derived_alias p hp
  exact exactAliasValueless_of_alias posc_rows_wf h hU
theorem nocat_legacy_valueless : ∀ p ∈ nocatDb.derive, nocatDb.ExactAliasValueless p.1 p.2 := by
  intro p hp
  obtain ⟨r, h, hU⟩ := nocat_derived_alias p hp
  exact exactAliasValueless_of_alias nocat_rows_wf h hU
theorem simple_legacy_valueless : ∀ p ∈ simpleDb.derive, simpleDb.ExactAliasValueless p.1 p.2 := by
  intro p hp
  obtain ⟨r, h, hU⟩ := simple_derived_alias p hp
  exact exactAliasValueless_of_alias simple_rows_wf h hU

/-- every derived spelling of the default database stays an exact alias in every category a user
registers under a name that is not a quantity type of the table -/
theorem posc_registered_exact_alias {db' : Db} {name qt : Sym} {valid : Option (List Sym)}
    {dflt : Option Sym} {caption : Sym} {override : Bool} {dv mn mx : Option Rat} {minx maxx : Bool}
    (hreg : poscDb.addCategoryFull name qt valid dflt caption override dv mn mx minx maxx = .ok db')
    (hname : ∀ r ∈ poscDb.units, name ≠ r.qtype) :
    ∀ p ∈ poscDb.derive, db'.ExactAlias p.1 p.2 ∧ db'.ExactAliasValueless p.1 p.2 := by
  intro p hp
  obtain ⟨r, h, hU⟩ := posc_derived_alias p hp
  exact registered_exact_alias posc_rows_wf h hU hreg (Or.inl (hname r h.mem))

/-! ## non-vacuity -/

-- the derived list is inhabited and contains the spellings named in the property text
-- a legacy spelling creates the quantity of the current spelling, in its default category
-- the side condition of generic idempotence holds for a rewritten spelling …
-- … and unconditional idempotence is false (own fixed list, not the generated one)
-- registering a category with legacy spellings stores the current ones
end Barril
