/- Non-vacuity examples of C11 (moved out of Props/C11.lean by tools/split_examples.py: they evaluate
concrete instances, many over the regenerated tables, and must not be able to stop the theorem module from
building).  Not property theorems: the check builds this module separately and only records the outcome. -/
import Barril.Props.C11
import Barril.Proofs.FixedLemmas
import Barril.Gen.Dbs

namespace Barril.Fixed
open Barril

section Examples

private def uM : Sym := Sym.ofBytes [109]
private def uCm : Sym := Sym.ofBytes [99, 109]
private def cLength : Sym := Sym.ofBytes [108, 101, 110, 103, 116, 104]
private def cDepth : Sym := Sym.ofBytes [100, 101, 112, 116, 104]
private def db0 : Db := ⟨[], [], []⟩

/-- `FixedArray(3, [1, 2, 3], 'm')` -/
example : runRoute Gen.poscDb (.init .none 3 (.valFirst (some (.sized ⟨.list, [1, 2, 3]⟩)) (some uM) none))
    = .ok ⟨.none, ⟨3, ⟨.list, [1, 2, 3]⟩, .simple cLength uM⟩⟩ := by decide +kernel

/-- `FixedArray(3, [1, 2], 'm')`, `FixedArray(1, [1], 'm')`: `ValueError` -/
example : runRoute Gen.poscDb (.init .none 3 (.valFirst (some (.sized ⟨.list, [1, 2]⟩)) (some uM) none))
    = .error .value := by decide +kernel
example : runRoute Gen.poscDb (.init .none 1 (.valFirst (some (.sized ⟨.list, [1]⟩)) (some uM) none))
    = .error .value := by decide +kernel

/-- `FixedArray(2, 'depth')`: the default value `[0.0, 0.0]` in the default unit of the category -/
example : (runRoute Gen.poscDb (.init .none 2 (.catFirst (.str cDepth) none none))).toOption.map (·.st.vals)
    = some ⟨.list, [0, 0]⟩ := by decide +kernel

/-- `CreateWithQuantity` on the base class takes the dimension from the values; a subclass pinning 3
rejects two values; one value is rejected everywhere; the hypotheses of `internalCreate_spec` hold -/
example : runRoute db0 (.cwq .none .empty (some (.sized ⟨.tuple, [1, 2]⟩)) none none)
    = .ok ⟨.none, ⟨2, ⟨.tuple, [1, 2]⟩, .empty⟩⟩ := by decide +kernel
example : runRoute db0 (.cwq (.val 3) .empty (some (.sized ⟨.tuple, [1, 2]⟩)) none none) = .error .value := by
  decide +kernel
example : runRoute db0 (.cwq .none .empty (some (.sized ⟨.tuple, [1]⟩)) none none) = .error .value := by
  decide +kernel
example : runRoute db0 (.cea .none 1 none) = .error .value := by decide +kernel
example : mergeValue none (some (.sized ⟨.list, [1, 2]⟩)) = .ok (.sized ⟨.list, [1, 2]⟩) := by decide +kernel
example : accepts (lookupDim (.val 3) none) (some 3) 3 = true ∧ accepts (lookupDim .none none) (some 3) 2 = false := by
  decide

/-- a class without the attribute and no keyword: `AttributeError`, not `ValueError` (why
`internalCreate_spec` needs its second hypothesis) -/
example : runRoute db0 (.internal .missing none .empty (some (.sized ⟨.list, [1, 2]⟩)) none none)
    = .error .other := by decide +kernel

/-- a chain: build `[1, 2, 3] m`; `ChangingIndex(-1, Scalar(50 cm))` with `use_value_unit`; add the
first array to the result; `CreateCopy` with two values is rejected and changes nothing -/
example : run Gen.poscDb (opFuncSimple Gen.poscDb) []
      [.make (.init .none 3 (.valFirst (some (.sized ⟨.list, [1, 2, 3]⟩)) (some uM) none)),
       .op 0 (.changingIndex (-1) (.scalar ⟨.simple cLength uCm, 50⟩) true),
       .op 1 (.arith .sum (.other 0)),
       .op 2 (.createCopy (some (.sized ⟨.list, [1, 2]⟩)) none none)]
    = [⟨.none, ⟨3, ⟨.list, [1, 2, 3]⟩, .simple cLength uM⟩⟩,
       ⟨.none, ⟨3, ⟨.tuple, [100, 200, 50]⟩, .simple cLength uCm⟩⟩,
       ⟨.none, ⟨3, ⟨.list, [200, 400, 350]⟩, .simple cLength uCm⟩⟩] := by decide +kernel

/-- `IndexAsScalar(-3)` in centimetres; index 3 is out of range -/
example : indexAsScalar Gen.poscDb ⟨.none, ⟨3, ⟨.list, [1, 2, 3]⟩, .simple cLength uM⟩⟩ (-3)
    (some (.simple cLength uCm)) = .ok ⟨.simple cLength uCm, 100⟩ := by decide +kernel
example : indexAsScalar Gen.poscDb ⟨.none, ⟨3, ⟨.list, [1, 2, 3]⟩, .simple cLength uM⟩⟩ 3 none
    = .error .index := by decide +kernel
example : normIndex 3 (-3) = some 0 ∧ normIndex 3 (-4) = none ∧ normIndex 3 2 = some 2 ∧ normIndex 3 3 = none := by
  decide

/-- a curve over arrays of length 3, 3, 2: the shorter image is rejected and the curve keeps what it had -/
example : (Curve.new ⟨0, .flat 3⟩ ⟨1, .flat 3⟩).toOption.map
      (·.runSetters [.image ⟨2, .flat 2⟩, .domain ⟨0, .flat 3⟩])
    = some ⟨⟨0, .flat 3⟩, ⟨0, .flat 3⟩⟩ := by decide
example : Curve.new ⟨0, .flat 3⟩ ⟨1, .flat 2⟩ = .error .value := by decide

/-- 4 flat values against 2 pairs: the same number of scalars but 4 points against 2 — rejected, by
the constructor and by both setters of a valid 4-point curve; 2 flat values against 2 triples: accepted -/
example : Shape.size (.flat 4) = Shape.size (.points 2 2) ∧
    Curve.new ⟨0, .flat 4⟩ ⟨1, .points 2 2⟩ = .error .value ∧
    Curve.new ⟨0, .points 2 2⟩ ⟨1, .flat 4⟩ = .error .value := by decide
example : (Curve.new ⟨0, .flat 4⟩ ⟨1, .flat 4⟩).toOption.map
      (·.runSetters [.domain ⟨2, .points 2 2⟩, .image ⟨2, .points 2 2⟩, .domain ⟨3, .points 4 3⟩])
    = some ⟨⟨0, .flat 4⟩, ⟨3, .points 4 3⟩⟩ := by decide
example : Curve.new ⟨0, .flat 2⟩ ⟨1, .points 2 3⟩ = .ok ⟨⟨0, .flat 2⟩, ⟨1, .points 2 3⟩⟩ := by decide

/-- `[7, -7, 9] m // 2` is `[3, -4, 4] m` (floor, not truncation); assigning to `dimension` is refused and
nothing is appended to the store -/
example : run Gen.poscDb (opFuncSimple Gen.poscDb) []
      [.make (.init .none 3 (.valFirst (some (.sized ⟨.list, [7, -7, 9]⟩)) (some uM) none)),
       .op 0 (.arith .floordiv (.operand (.num 2) true)),
       .op 0 (.assign .dimension)]
    = [⟨.none, ⟨3, ⟨.list, [7, -7, 9]⟩, .simple cLength uM⟩⟩,
       ⟨.none, ⟨3, ⟨.list, [3, -4, 4]⟩, .simple cLength uM⟩⟩] := by decide +kernel

/-! #### the rest of the public surface -/

/-- Python slices of `[10, 11, 12, 13, 14]`: `[::-2]`, `[-3:10]`, `[4:0:-1]`, `[1:1]`, `[::0]` -/
example : pySlice [10, 11, 12, 13, 14] ⟨none, none, some (-2)⟩ = .ok [14, 12, 10] ∧
    pySlice [10, 11, 12, 13, 14] ⟨some (-3), some 10, none⟩ = .ok [12, 13, 14] ∧
    pySlice [10, 11, 12, 13, 14] ⟨some 4, some 0, some (-1)⟩ = .ok [14, 13, 12, 11] ∧
    pySlice [10, 11, 12, 13, 14] ⟨some 1, some 1, none⟩ = .ok ([] : List Nat) ∧
    pySlice [10, 11, 12, 13, 14] ⟨none, none, some 0⟩ = (.error .value : Except ErrKind (List Nat)) := by decide +kernel

/-- `len`, `array[-1]`, `array[3]`, `array[::2]` (a tuple, not a FixedArray), `CheckValues`, `==` on `(1, 2, 3) m` -/
example :
    let a : Obj := ⟨.none, ⟨3, ⟨.tuple, [1, 2, 3]⟩, .simple cLength uM⟩⟩
    let b : Obj := ⟨.none, ⟨3, ⟨.list, [1, 2, 3]⟩, .simple cLength uM⟩⟩
    let F := opFuncSimple db0
    runOp db0 F [] a .len = .ok (.int 3) ∧
    runOp db0 F [] a (.getItem (-1)) = .ok (.num 3) ∧
    runOp db0 F [] a (.getItem 3) = .error .index ∧
    runOp db0 F [] a (.getSlice ⟨none, none, some 2⟩) = .ok (.vals ⟨.tuple, [1, 3]⟩) ∧
    runOp db0 F [] a (.checkValues (.sized ⟨.list, [7, 8, 9]⟩) none) = .ok .unit ∧
    runOp db0 F [] a (.checkValues (.sized ⟨.list, [7, 8]⟩) none) = .error .value ∧
    runOp db0 F [] a (.checkValues (.sized ⟨.list, [7, 8]⟩) (some 2)) = .ok .unit ∧
    runOp db0 F [b] a (.eq (.store 0)) = .ok (.bool true) ∧
    runOp db0 F [b] a (.eq .foreign) = .ok (.bool false) ∧
    runOp db0 F [] a (.createCopyKw none none none .dimension) = .error .type ∧
    runOp db0 F [] a (.createCopyKw none none none .unitDatabase) = .ok (.obj a) := by decide +kernel

/-- `FixedArray.FromScalars([Scalar(1, 'm'), Scalar(50, 'cm')])`: `TypeError`; with `unit='kg'`: the units error of
the first value comes first; without scalars and with both keywords: the failed `assert` -/
example : fromScalars Gen.poscDb .none [⟨.simple cLength uM, 1⟩, ⟨.simple cLength uCm, 50⟩] none none = .error .type ∧
    fromScalars Gen.poscDb .none [] (some uM) (some cLength) = .error .assertion ∧
    fromScalars Gen.poscDb .none [] none none = .error .type := by decide +kernel

/-- the size-only `operation_func`: `(1, 2, 3) m * [4, 5, 6] m` is a list of 3, against two values `ValueError` -/
example :
    let a : Obj := ⟨.none, ⟨3, ⟨.tuple, [1, 2, 3]⟩, .simple cLength uM⟩⟩
    (doOperation opFuncShape a .mul (.arr ⟨.list, [4, 5, 6]⟩ (.simple cLength uM)) true).toOption.map
        (fun r => (r.cls, r.st.dim, r.st.vals.kind, r.st.vals.xs.length)) = some (.none, 3, .list, 3) ∧
    doOperation opFuncShape a .mul (.arr ⟨.list, [4, 5]⟩ (.simple cLength uM)) true = .error .value := by decide +kernel

/-- a faithful content for the references `⟨0, flat 3⟩` (image, a list in m) and `⟨1, points 3 2⟩` (domain, an ndarray) -/
private def h0 : Content := fun a =>
  if a.id = 0 then ⟨.list, (List.range a.len).map (fun (k : Nat) => .num ((k : Rat) + 1)), uM⟩
  else ⟨.ndarray, (List.range a.len).map (fun (k : Nat) => .point [(k : Rat), 10 * (k : Rat)]), 0⟩

example : Faithful h0 := by
  intro a
  unfold h0
  split <;> simp

private def c0 : Curve := ⟨⟨0, .flat 3⟩, ⟨1, .points 3 2⟩⟩

/-- `curve[-1]` is `(domain[2], image[2])`, `curve[3]` is `IndexError`, `curve[::-2]` slices both containers on their
own, `repr` shows `(image[k], domain[k])`; a rejected `SetImage` in between changes nothing -/
example : Curve.new c0.image c0.domain = .ok c0 ∧
    c0.getItem h0 (-1) = .ok (.point [2, 20], .num 3) ∧
    c0.getItem h0 3 = .error .index ∧
    c0.getSlice h0 ⟨none, none, some (-2)⟩ =
      .ok ((.ndarray, [.point [2, 20], .point [0, 0]]), (.list, [.num 3, .num 1])) ∧
    c0.getSlice h0 ⟨none, none, some 0⟩ = .error .value ∧
    c0.repr h0 = ⟨uM, 0, [(.num 1, .point [0, 0]), (.num 2, .point [1, 10]), (.num 3, .point [2, 20])], false⟩ ∧
    c0.answers h0 [.set (.image ⟨2, .flat 2⟩), .length, .getItem 0] =
      [.error .value, .ok (.length 3), .ok (.item (.point [0, 0]) (.num 1))] ∧
    c0.runOps [.set (.image ⟨2, .flat 2⟩), .length, .getItem 0, .repr] = c0 := by decide +kernel

/-- 25 points: the repr shows 21 pairs and the ellipsis; 21 points: all of them, no ellipsis -/
example :
    ((⟨⟨0, .flat 25⟩, ⟨0, .flat 25⟩⟩ : Curve).repr h0).items.length = 21 ∧
    ((⟨⟨0, .flat 25⟩, ⟨0, .flat 25⟩⟩ : Curve).repr h0).ellipsis = true ∧
    ((⟨⟨0, .flat 21⟩, ⟨0, .flat 21⟩⟩ : Curve).repr h0).items.length = 21 ∧
    ((⟨⟨0, .flat 21⟩, ⟨0, .flat 21⟩⟩ : Curve).repr h0).ellipsis = false := by decide +kernel

end Examples

end Barril.Fixed
