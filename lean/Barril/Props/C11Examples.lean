/- Non-vacuity examples of C11 (moved out of Props/C11.lean by tools/split_examples.py: they evaluate
concrete instances, many over the regenerated tables, and must not be able to stop the theorem module from
building).  Not property theorems: the check builds this module separately and only records the outcome. -/
import Barril.Props.C11
import Barril.Proofs.FixedLemmas
import Barril.Gen.Dbs

namespace Barril.Fixed
open Barril

section Examples

private def uM : Sym := Sym.ofBytes [109]
private def uCm : Sym := Sym.ofBytes [99, 109]
private def cLength : Sym := Sym.ofBytes [108, 101, 110, 103, 116, 104]
private def cDepth : Sym := Sym.ofBytes [100, 101, 112, 116, 104]
private def db0 : Db := ⟨[], [], []⟩

/-- `FixedArray(3, [1, 2, 3], 'm')` -/
example : runRoute Gen.poscDb (.init .none 3 (.valFirst (some (.sized ⟨.list, [1, 2, 3]⟩)) (some uM) none))
    = .ok ⟨.none, ⟨3, ⟨.list, [1, 2, 3]⟩, .simple cLength uM⟩⟩ := by decide +kernel

/-- `FixedArray(3, [1, 2], 'm')`, `FixedArray(1, [1], 'm')`: `ValueError` -/
example : runRoute Gen.poscDb (.init .none 3 (.valFirst (some (.sized ⟨.list, [1, 2]⟩)) (some uM) none))
    = .error .value := by decide +kernel
example : runRoute Gen.poscDb (.init .none 1 (.valFirst (some (.sized ⟨.list, [1]⟩)) (some uM) none))
    = .error .value := by decide +kernel

/-- `FixedArray(2, 'depth')`: the default value `[0.0, 0.0]` in the default unit of the category -/
example : (runRoute Gen.poscDb (.init .none 2 (.catFirst (.str cDepth) none none))).toOption.map (·.st.vals)
    = some ⟨.list, [0, 0]⟩ := by decide +kernel

/-- `CreateWithQuantity` on the base class takes the dimension from the values; a subclass pinning 3
rejects two values; one value is rejected everywhere; the hypotheses of `internalCreate_spec` hold -/
example : runRoute db0 (.cwq .none .empty (some (.sized ⟨.tuple, [1, 2]⟩)) none none)
    = .ok ⟨.none, ⟨2, ⟨.tuple, [1, 2]⟩, .empty⟩⟩ := by decide +kernel
example : runRoute db0 (.cwq (.val 3) .empty (some (.sized ⟨.tuple, [1, 2]⟩)) none none) = .error .value := by
  decide +kernel
example : runRoute db0 (.cwq .none .empty (some (.sized ⟨.tuple, [1]⟩)) none none) = .error .value := by
  decide +kernel
example : runRoute db0 (.cea .none 1 none) = .error .value := by decide +kernel
example : mergeValue none (some (.sized ⟨.list, [1, 2]⟩)) = .ok (.sized ⟨.list, [1, 2]⟩) := by decide +kernel
example : accepts (lookupDim (.val 3) none) (some 3) 3 = true ∧ accepts (lookupDim .none none) (some 3) 2 = false := by
  decide

/-- a class without the attribute and no keyword: `AttributeError`, not `ValueError` (why
`internalCreate_spec` needs its second hypothesis) -/
example : runRoute db0 (.internal .missing none .empty (some (.sized ⟨.list, [1, 2]⟩)) none none)
    = .error .other := by decide +kernel

/-- a chain: build `[1, 2, 3] m`; `ChangingIndex(-1, Scalar(50 cm))` with `use_value_unit`; add the
first array to the result; `CreateCopy` with two values is rejected and changes nothing -/
example : run Gen.poscDb (opFuncSimple Gen.poscDb) []
      [.make (.init .none 3 (.valFirst (some (.sized ⟨.list, [1, 2, 3]⟩)) (some uM) none)),
       .op 0 (.changingIndex (-1) (.scalar ⟨.simple cLength uCm, 50⟩) true),
       .op 1 (.arith .sum (.other 0)),
       .op 2 (.createCopy (some (.sized ⟨.list, [1, 2]⟩)) none none)]
    = [⟨.none, ⟨3, ⟨.list, [1, 2, 3]⟩, .simple cLength uM⟩⟩,
       ⟨.none, ⟨3, ⟨.tuple, [100, 200, 50]⟩, .simple cLength uCm⟩⟩,
       ⟨.none, ⟨3, ⟨.list, [200, 400, 350]⟩, .simple cLength uCm⟩⟩] := by decide +kernel

/-- `IndexAsScalar(-3)` in centimetres; index 3 is out of range -/
example : indexAsScalar Gen.poscDb ⟨.none, ⟨3, ⟨.list, [1, 2, 3]⟩, .simple cLength uM⟩⟩ (-3)
    (some (.simple cLength uCm)) = .ok ⟨.simple cLength uCm, 100⟩ := by decide +kernel
example : indexAsScalar Gen.poscDb ⟨.none, ⟨3, ⟨.list, [1, 2, 3]⟩, .simple cLength uM⟩⟩ 3 none
    = .error .index := by decide +kernel
example : normIndex 3 (-3) = some 0 ∧ normIndex 3 (-4) = none ∧ normIndex 3 2 = some 2 ∧ normIndex 3 3 = none := by
  decide

/-- a curve over arrays of length 3, 3, 2: the shorter image is rejected and the curve keeps what it had -/
example : (Curve.new ⟨0, .flat 3⟩ ⟨1, .flat 3⟩).toOption.map
      (·.runSetters [.image ⟨2, .flat 2⟩, .domain ⟨0, .flat 3⟩])
    = some ⟨⟨0, .flat 3⟩, ⟨0, .flat 3⟩⟩ := by decide
example : Curve.new ⟨0, .flat 3⟩ ⟨1, .flat 2⟩ = .error .value := by decide

/-- 4 flat values against 2 pairs: the same number of scalars but 4 points against 2 — rejected, by
the constructor and by both setters of a valid 4-point curve; 2 flat values against 2 triples: accepted -/
example : Shape.size (.flat 4) = Shape.size (.points 2 2) ∧
    Curve.new ⟨0, .flat 4⟩ ⟨1, .points 2 2⟩ = .error .value ∧
    Curve.new ⟨0, .points 2 2⟩ ⟨1, .flat 4⟩ = .error .value := by decide
example : (Curve.new ⟨0, .flat 4⟩ ⟨1, .flat 4⟩).toOption.map
      (·.runSetters [.domain ⟨2, .points 2 2⟩, .image ⟨2, .points 2 2⟩, .domain ⟨3, .points 4 3⟩])
    = some ⟨⟨0, .flat 4⟩, ⟨3, .points 4 3⟩⟩ := by decide
example : Curve.new ⟨0, .flat 2⟩ ⟨1, .points 2 3⟩ = .ok ⟨⟨0, .flat 2⟩, ⟨1, .points 2 3⟩⟩ := by decide

/-- `[7, -7, 9] m // 2` is `[3, -4, 4] m` (floor, not truncation); assigning to `dimension` is refused and
nothing is appended to the store -/
example : run Gen.poscDb (opFuncSimple Gen.poscDb) []
      [.make (.init .none 3 (.valFirst (some (.sized ⟨.list, [7, -7, 9]⟩)) (some uM) none)),
       .op 0 (.arith .floordiv (.operand (.num 2) true)),
       .op 0 (.assign .dimension)]
    = [⟨.none, ⟨3, ⟨.list, [7, -7, 9]⟩, .simple cLength uM⟩⟩,
       ⟨.none, ⟨3, ⟨.list, [3, -4, 4]⟩, .simple cLength uM⟩⟩] := by decide +kernel

end Examples

end Barril.Fixed
