/- Non-vacuity examples of C10 (moved out of Props/C10.lean by tools/split_examples.py: they evaluate
concrete instances, many over the regenerated tables, and must not be able to stop the theorem module from
building).  Not property theorems: the check builds this module separately and only records the outcome. -/
import Barril.Props.C10
import Barril.Proofs.OpsLemmas
import Barril.Props.C09

namespace Barril.Ops
open Barril

example : binop exEnv true .sum (.array [⟨101, 11, 1⟩] .tuple [1, 2, 3]) (.array [⟨102, 12, 1⟩] .list [100, 200, 300])
    = .ok (.array [⟨101, 11, 1⟩] .list [2, 4, 6]) := by decide +kernel

example : binop exEnv true .sum (.scalar [⟨101, 11, 1⟩] 2) (.scalar [⟨102, 12, 1⟩] 200) = .ok (.scalar [⟨101, 11, 1⟩] 4) := by
  decide +kernel

example : binop exEnv true .mul (.array [⟨101, 11, 1⟩] .nd [1, 2]) (.array [⟨103, 22, -1⟩] .tuple [5, 7])
    = .ok (.array [⟨101, 11, 1⟩, ⟨103, 22, -1⟩] .nd [5, 14]) := by decide +kernel

example : binop exEnv true .sum (.array [⟨101, 11, 1⟩] .list [1, 2, 3]) (.array [⟨101, 11, 1⟩] .list [1, 2]) = .error .value := by
  decide +kernel

example : binop exEnv true .sum (.array [⟨101, 11, 1⟩] .nd [1, 2, 3]) (.array [⟨101, 11, 1⟩] .nd [1]) = .error .value := by
  decide +kernel

example : binop exEnv true .div (.array [⟨101, 11, 1⟩] .tuple []) (.array [⟨103, 21, 1⟩] .tuple [])
    = .ok (.array [⟨101, 11, 1⟩, ⟨103, 21, -1⟩] .tuple []) := by decide +kernel

example : binop exEnv true .sum (.array [⟨101, 11, 1⟩] .list [1]) (.array [⟨103, 21, 1⟩] .list [1]) = .error .units := by
  decide +kernel

example : binop exEnv true .sum (.array [⟨101, 11, 1⟩] .nd [1, 2]) (.array [⟨101, 13, 1⟩] .list [40, 50])
    = .ok (.array [⟨101, 11, 1⟩] .nd [314, 325]) := by decide +kernel

example : binop exEnv true .sum (.array [⟨101, 11, 1⟩, ⟨103, 21, 1⟩] .nd [1, 2]) (.array [⟨101, 13, 1⟩, ⟨103, 21, 1⟩] .list [40, 50])
    = .ok (.array [⟨101, 11, 1⟩, ⟨103, 21, 1⟩] .nd [41, 52]) := by decide +kernel

example : binop exEnv true .sum (.array [⟨101, 11, 1⟩, ⟨103, 21, 1⟩] .tuple [1, 2]) (.array [⟨101, 13, 1⟩, ⟨103, 21, 1⟩] .tuple [40, 50])
    = .ok (.array [⟨101, 11, 1⟩, ⟨103, 21, 1⟩] .tuple [41, 52]) := by decide +kernel

example : binop exEnv true .sum (.scalar [⟨101, 11, 1⟩, ⟨103, 21, 1⟩] 2) (.scalar [⟨101, 13, 1⟩, ⟨103, 21, 1⟩] 50)
    = .ok (.scalar [⟨101, 11, 1⟩, ⟨103, 21, 1⟩] 52) := by decide +kernel

example : binop exEnv true .mul (.array [⟨101, 11, 2⟩] .list [3]) (.array [⟨101, 13, 2⟩] .nd [5])
    = .ok (.array [⟨101, 11, 4⟩] .nd [15]) := by decide +kernel

example : fromScalars exEnv [⟨101, 11, 2⟩, ⟨102, 12, 50⟩] = .ok (.array [⟨101, 11, 1⟩] .list [2, 1 / 2]) := by
  decide +kernel

example : arrayGetValues exEnv 101 11 .tuple [1, 2] 12 = .ok (.tuple, [100, 200]) := by decide +kernel

end Barril.Ops
