/- Non-vacuity examples of C10 (moved out of Props/C10.lean by tools/split_examples.py: they evaluate
concrete instances, many over the regenerated tables, and must not be able to stop the theorem module from
building).  Not property theorems: the check builds this module separately and only records the outcome. -/
import Barril.Props.C10
import Barril.Proofs.OpsLemmas
import Barril.Props.C09

namespace Barril.Ops
open Barril

example : binop exEnv true .sum (.array [⟨101, 11, 1⟩] .tuple [1, 2, 3]) (.array [⟨102, 12, 1⟩] .list [100, 200, 300])
    = .ok (.array [⟨101, 11, 1⟩] .list [2, 4, 6]) := by decide +kernel

example : binop exEnv true .sum (.scalar [⟨101, 11, 1⟩] 2) (.scalar [⟨102, 12, 1⟩] 200) = .ok (.scalar [⟨101, 11, 1⟩] 4) := by
  decide +kernel

example : binop exEnv true .mul (.array [⟨101, 11, 1⟩] .nd [1, 2]) (.array [⟨103, 22, -1⟩] .tuple [5, 7])
    = .ok (.array [⟨101, 11, 1⟩, ⟨103, 22, -1⟩] .nd [5, 14]) := by decide +kernel

example : binop exEnv true .sum (.array [⟨101, 11, 1⟩] .list [1, 2, 3]) (.array [⟨101, 11, 1⟩] .list [1, 2]) = .error .value := by
  decide +kernel

example : binop exEnv true .sum (.array [⟨101, 11, 1⟩] .nd [1, 2, 3]) (.array [⟨101, 11, 1⟩] .nd [1]) = .error .value := by
  decide +kernel

example : binop exEnv true .div (.array [⟨101, 11, 1⟩] .tuple []) (.array [⟨103, 21, 1⟩] .tuple [])
    = .ok (.array [⟨101, 11, 1⟩, ⟨103, 21, -1⟩] .tuple []) := by decide +kernel

example : binop exEnv true .sum (.array [⟨101, 11, 1⟩] .list [1]) (.array [⟨103, 21, 1⟩] .list [1]) = .error .units := by
  decide +kernel

example : binop exEnv true .sum (.array [⟨101, 11, 1⟩] .nd [1, 2]) (.array [⟨101, 13, 1⟩] .list [40, 50])
    = .ok (.array [⟨101, 11, 1⟩] .nd [314, 325]) := by decide +kernel

example : binop exEnv true .sum (.array [⟨101, 11, 1⟩, ⟨103, 21, 1⟩] .nd [1, 2]) (.array [⟨101, 13, 1⟩, ⟨103, 21, 1⟩] .list [40, 50])
    = .ok (.array [⟨101, 11, 1⟩, ⟨103, 21, 1⟩] .nd [41, 52]) := by decide +kernel

example : binop exEnv true .sum (.array [⟨101, 11, 1⟩, ⟨103, 21, 1⟩] .tuple [1, 2]) (.array [⟨101, 13, 1⟩, ⟨103, 21, 1⟩] .tuple [40, 50])
    = .ok (.array [⟨101, 11, 1⟩, ⟨103, 21, 1⟩] .tuple [41, 52]) := by decide +kernel

example : binop exEnv true .sum (.scalar [⟨101, 11, 1⟩, ⟨103, 21, 1⟩] 2) (.scalar [⟨101, 13, 1⟩, ⟨103, 21, 1⟩] 50)
    = .ok (.scalar [⟨101, 11, 1⟩, ⟨103, 21, 1⟩] 52) := by decide +kernel

example : binop exEnv true .mul (.array [⟨101, 11, 2⟩] .list [3]) (.array [⟨101, 13, 2⟩] .nd [5])
    = .ok (.array [⟨101, 11, 4⟩] .nd [15]) := by decide +kernel

example : fromScalars exEnv [⟨101, 11, 2⟩, ⟨102, 12, 50⟩] = .ok (.array [⟨101, 11, 1⟩] .list [2, 1 / 2]) := by
  decide +kernel

example : arrayGetValues exEnv 101 11 .tuple [1, 2] 12 = .ok (.tuple, [100, 200]) := by decide +kernel

/-! `FromScalars` with keywords, derived quantities, rows of tuples, `__str__` -/

example : fromScalarsKw exEnv [⟨[⟨101, 11, 1⟩], 2⟩, ⟨[⟨102, 12, 1⟩], 50⟩] none none
    = .ok (.array [⟨101, 11, 1⟩] .list [2, 1 / 2]) := by decide +kernel

example : fromScalarsKw exEnv [⟨[⟨101, 11, 1⟩], 2⟩, ⟨[⟨102, 12, 1⟩], 50⟩] (some 12) (some 102)
    = .ok (.array [⟨102, 12, 1⟩] .list [200, 50]) := by decide +kernel

-- the empty string is falsy: the unit of the first Scalar is used
example : fromScalarsKw exEnv [⟨[⟨101, 12, 1⟩], 2⟩] (some 0) none = .ok (.array [⟨101, 12, 1⟩] .list [2]) := by decide +kernel

example : fromScalarsKw exEnv [⟨[⟨101, 11, 1⟩], 2⟩] (some 21) none = .error .units := by decide +kernel

/-- the example database with a default category for unit 11, and a quantity type 3 whose unit is NAMED like the
unit string of `11/21` (bytes 11, '/', 21), with category 104 -/
def exDb2 : Db :=
  { exDb with
    units := { exRow 1 11 1 with defaultCat := 101 } :: exRow 3 (Sym.ofBytes [11, 47, 21]) 1 :: exDb.units.tail,
    cats := exCat 104 3 (Sym.ofBytes [11, 47, 21]) :: exDb.cats }

def exEnv2 : Env := Env.ofDb exDb2

example : fromScalarsKw exEnv2 [] (some 11) none = .ok (.array [⟨101, 11, 1⟩] .list []) := by decide +kernel
example : fromScalarsKw exEnv2 [] (some 12) none = .error .units := by decide +kernel   -- no default category, not a category
example : fromScalarsKw exEnv2 [] (some 101) none = .error .assertion := by decide +kernel -- a category name as the unit
example : fromScalarsKw exEnv2 [] (some 11) (some 101) = .error .assertion := by decide +kernel

example : quantityUnit [⟨101, 11, 1⟩, ⟨103, 21, -1⟩] = Sym.ofBytes [11, 47, 21] := by decide +kernel

-- a Scalar of a derived quantity: refused under its own (composed) category string, accepted under a registered
-- category whose unit has its unit string, never converted
example : ∃ e, fromScalarsKw exEnv2 [⟨[⟨101, 11, 1⟩, ⟨103, 21, -1⟩], 5⟩] none none = .error e := ⟨.units, by decide +kernel⟩

example : fromScalarsKw exEnv2 [⟨[⟨101, 11, 1⟩, ⟨103, 21, -1⟩], 5⟩, ⟨[⟨104, Sym.ofBytes [11, 47, 21], 1⟩], 7⟩] none (some 104)
    = .ok (.array [⟨104, Sym.ofBytes [11, 47, 21], 1⟩] .list [5, 7]) := by decide +kernel

example : fromScalarsKw exEnv2 [⟨[⟨101, 11, 1⟩, ⟨103, 21, -1⟩], 5⟩] (some 11) (some 104) = .error .units := by decide +kernel

example : fromScalarsKw exEnv2 [⟨[⟨101, 11, 2⟩], 5⟩] (some 11) (some 101) = .error .value := by decide +kernel

-- a Scalar of the empty quantity is taken as it is
example : fromScalarsKw exEnv [⟨[⟨101, 11, 1⟩], 2⟩, ⟨[], 3⟩] none none = .ok (.array [⟨101, 11, 1⟩] .list [2, 3]) := by
  decide +kernel

example : arrayGetValuesRows exEnv 101 11 [[1, 2], [], [3]] 12 = .ok [[100, 200], [], [300]] := by decide +kernel

-- "(1, 2) (3,) [\v]" (unit 11 is the byte 11)
example : arrayStr [⟨101, 11, 1⟩] [⟨true, [40, 49, 44, 32, 50, 41], []⟩, ⟨true, [40, 51, 44, 41], []⟩]
    = [40, 49, 44, 32, 50, 41, 32, 40, 51, 44, 41, 32, 91, 11, 93] := by decide +kernel

example : arrayStr [⟨101, 11, 1⟩] [⟨false, [49, 46, 48], [49]⟩, ⟨false, [50, 46, 53], [50, 46, 53]⟩]
    = [49, 32, 50, 46, 53, 32, 91, 11, 93] := by decide +kernel

/-! repair 4829052: the dummy amounts (1.0, 1.0) are evaluated only for operands without values.  Unit 14 is unit 11
shifted by one (`1.0 [14] = 0 [11]`, like `1 atm = 0 Pa(g)`). -/

def exEnv3 : Env := Env.ofDb { exDb with units := exRowOff 1 14 1 (-1) :: exDb.units }

example : binop exEnv3 true .div (.array [⟨101, 11, 1⟩] .list [2]) (.array [⟨101, 14, 1⟩] .tuple [3])
    = .ok (.array [] .list [1]) := by decide +kernel

example : binop exEnv3 true .div (.scalar [⟨101, 11, 1⟩] 2) (.scalar [⟨101, 14, 1⟩] 3) = .ok (.scalar [] 1) := by
  decide +kernel

-- still: value-less list / tuple operands are computed on the dummy amounts (candidate known finding) ...
example : binop exEnv3 true .div (.array [⟨101, 11, 1⟩] .list []) (.array [⟨101, 14, 1⟩] .tuple []) = .error .other := by
  decide +kernel

-- ... the vectorised branch is not
example : binop exEnv3 true .div (.array [⟨101, 11, 1⟩] .nd []) (.array [⟨101, 14, 1⟩] .tuple []) = .ok (.array [] .nd []) := by
  decide +kernel

/-! ### the registry of additional conversion types: `numpy.ndarray` ↦ `ConvertNumpyArray` (import), then an unrelated
class (100), an ndarray subclass (10, base classes 4 and 0) whose function doubles, a list subclass (11) -/

def exReg : Registry := [⟨4, .std⟩, ⟨100, .scaled 3⟩, ⟨10, .scaled 2⟩, ⟨11, .scaled 5⟩]

example : exReg.Invisible ndClass ∧ exReg.Invisible listClass ∧ exReg.Invisible tupleClass ∧ exReg.Invisible numClass := by
  unfold Registry.Invisible
  decide

-- registering through the API: a new class is appended, a second function for a class is refused
example : Registry.register [⟨4, .std⟩] 10 (.scaled 2) = .ok [⟨4, .std⟩, ⟨10, .scaled 2⟩] := by decide
example : Registry.register exReg 10 (.scaled 7) = .error .assertion := by decide
example : ndClass.isSub 10 = false ∧ numClass.isSub 10 = false ∧ listClass.isSub 10 = false := by decide

-- an instance of the subclass is served by the first registered base class (`numpy.ndarray`), a plain ndarray never
-- by the subclass's function; were the subclass registered alone, only its instances would see it
example : exReg.dispatch ⟨10, [4, 0]⟩ = some .std := by decide
example : Registry.dispatch [⟨10, .scaled 2⟩] ndClass = none := by decide
example : Registry.dispatch [⟨10, .scaled 2⟩] ⟨10, [4, 0]⟩ = some (.scaled 2) := by decide

-- m + cm with ndarray operands on the database with registrations: as without them
example : arrayOpArrayReg exEnv exReg ndClass .sum [⟨101, 11, 1⟩] .nd [1, 2, 3] [⟨102, 12, 1⟩] .list [100, 200, 300]
    = .ok (.array [⟨101, 11, 1⟩] .nd [2, 4, 6]) := by decide +kernel
example : arrayGetValuesReg exEnv exReg ndClass 101 11 .nd [1, 2] 12 = .ok (.nd, [100, 200]) := by decide +kernel
-- the registry IS consulted: an entry for `numpy.ndarray` itself with another function changes ndarray results
-- (and only those)
example : arrayGetValuesReg exEnv [⟨4, .scaled 2⟩] ndClass 101 11 .nd [1, 2] 12 = .ok (.nd, [200, 400]) := by decide +kernel
example : arrayGetValuesReg exEnv [⟨4, .scaled 2⟩] listClass 101 11 .list [1, 2] 12 = .ok (.list, [100, 200]) := by
  decide +kernel
example : arrayOpArrayReg exEnv [⟨4, .scaled 2⟩] ndClass .sum [⟨101, 11, 1⟩] .list [1, 2] [⟨102, 12, 1⟩] .nd [100, 200]
    = .ok (.array [⟨101, 11, 1⟩] .nd [3, 6]) := by decide +kernel

end Barril.Ops
