/- Non-vacuity examples of C12 (moved out of Props/C12.lean by tools/split_examples.py: they evaluate
concrete instances, many over the regenerated tables, and must not be able to stop the theorem module from
building).  Not property theorems: the check builds this module separately and only records the outcome. -/
import Barril.Props.C12
import Barril.Proofs.ValidLemmas
import Barril.Gen.ThmWfPosc
import Barril.Gen.ThmWfNocat
import Barril.Gen.ThmValshapePosc
import Barril.Gen.ThmValshapeNocat

namespace Barril.Valid
open Barril

namespace Example

example : (addCategory reg0 args).toOption.map (·.2) = some cat := by decide +kernel
example : check km (.fin 2) = some (some (.validation .lt 2000 (.fin 2000))) := by decide +kernel
example : check km (.fin (R 1999 1000)) = some none := by decide +kernel
example : check cm (.fin 0) = some none := by decide +kernel
example : check cm (.fin (-1)) = some (some (.validation .ge 0 (.fin (R (-1) 100)))) := by decide +kernel
example : check m .nan = some (some (.validation .ge 0 .nan)) := by decide +kernel
example : checkArr cm [.fin 5, .nan, .fin 100] = some none := by decide +kernel
example : checkArr cm [.fin 5, .nan, .fin (-3), .fin 300000] =
    some (some (.validation .ge 0 (.fin (R (-3) 100)))) := by decide +kernel
example : checkArr cm [.fin 300000, .fin (-3), .fin 5, .nan] =
    some (some (.validation .ge 0 (.fin (R (-3) 100)))) := by decide +kernel
example : checkArr cm [.nan, .nan] = some none := by decide +kernel
example : (addCategory reg0 { args with defaultValue := some (.fin 2000) }).toOption = none := by
  decide +kernel
example : (addCategory reg0 { args with defaultValue := none }).toOption = none := by decide +kernel
example : (addCategory reg0 argsMin).toOption.map (·.2) = some catMin := by decide +kernel

end Example

example : Example.checkMinOnly Example.m .posInf = some none := by decide +kernel
example : Example.checkMinOnly Example.cm .posInf = some none := by decide +kernel
example : Example.checkMinOnly Example.cm .negInf = some (some (.validation .ge 0 .negInf)) := by
  decide +kernel
example : Example.check Example.km .posInf = some (some (.validation .lt 2000 .posInf)) := by
  decide +kernel

end Barril.Valid
