/- Non-vacuity examples of C12 (moved out of Props/C12.lean by tools/split_examples.py: they evaluate
concrete instances, many over the regenerated tables, and must not be able to stop the theorem module from
building).  Not property theorems: the check builds this module separately and only records the outcome. -/
import Barril.Props.C12
import Barril.Proofs.ValidLemmas
import Barril.Gen.ThmWfPosc
import Barril.Gen.ThmWfNocat
import Barril.Gen.ThmValshapePosc
import Barril.Gen.ThmValshapeNocat

namespace Barril.Valid
open Barril

namespace Example

example : (addCategory reg0 args).toOption.map (·.2) = some cat := by decide +kernel
example : check km (.fin 2) = some (some (.validation .lt 2000 (.fin 2000))) := by decide +kernel
example : check km (.fin (R 1999 1000)) = some none := by decide +kernel
example : check cm (.fin 0) = some none := by decide +kernel
example : check cm (.fin (-1)) = some (some (.validation .ge 0 (.fin (R (-1) 100)))) := by decide +kernel
example : check m .nan = some (some (.validation .ge 0 .nan)) := by decide +kernel
example : checkArr cm [.fin 5, .nan, .fin 100] = some none := by decide +kernel
example : checkArr cm [.fin 5, .nan, .fin (-3), .fin 300000] =
    some (some (.validation .ge 0 (.fin (R (-3) 100)))) := by decide +kernel
example : checkArr cm [.fin 300000, .fin (-3), .fin 5, .nan] =
    some (some (.validation .ge 0 (.fin (R (-3) 100)))) := by decide +kernel
example : checkArr cm [.nan, .nan] = some none := by decide +kernel
example : (addCategory reg0 { args with defaultValue := some (.fin 2000) }).toOption = none := by
  decide +kernel
example : (addCategory reg0 { args with defaultValue := none }).toOption = none := by decide +kernel
example : (addCategory reg0 argsMin).toOption.map (·.2) = some catMin := by decide +kernel

/-! produced objects: the hypotheses of `validity_independent_of_provenance` / `produced_checked_by_amount`
are met by non-trivial production paths, and the produced object is rejected like the direct one -/

/-- what the first `CheckValidity()` on a produced object answers (`none` when it cannot be produced,
`some none` when its quantity is derived) -/
def producedCheck (p : Prov) : Option (Option (Sym × Sym × List Val × Option VErr)) :=
  match build reg1 p with
  | .error _ => none
  | .ok (.derived, _) => some none
  | .ok (.simple c u r, s) =>
    some (some (c.name, u, elemsOfShape s, answer (checkValidity reg1 (.simple c u r) s.obj).2))
where elemsOfShape : Shape → List Val
  | .scalar v => [v]
  | .fraction v => [v]
  | .array (.flat _ vs) => vs
  | .array (.nested _ f _) => f

def depth : Sym := Sym.ofString "depth"
def thickness : Sym := Sym.ofString "thickness"
def base : Prov := .direct depth m (.array (.flat .list [.fin 1000, .fin 1500]))

-- Array('depth', [1000, 1500], 'm') * 2 = [2000, 3000] m: rejected (`< 2000`, the smallest amount is checked first)
example : producedCheck (.opNumber base .mul (.fin 2) false) =
    some (some (depth, m, [.fin 2000, .fin 3000], some (.validation .lt 2000 (.fin 2000)))) := by decide +kernel
-- … * 1 stays inside
example : producedCheck (.opNumber base .mul (.fin 1) true) =
    some (some (depth, m, [.fin 1000, .fin 1500], none)) := by decide +kernel
-- 1500 m + 60000 cm (another category of the quantity type) = 2100 m of 'depth': rejected
example : producedCheck (.opObjects (.direct depth m (.scalar (.fin 1500))) (.direct thickness cm (.scalar (.fin 60000))) .add) =
    some (some (depth, m, [.fin 2100], some (.validation .lt 2000 (.fin 2100)))) := by decide +kernel
-- the mapping and list forms and a pickle round trip of a product
example : producedCheck (.viaMapping [(depth, km, 1)] (.scalar (.fin 2))) =
    some (some (depth, km, [.fin 2], some (.validation .lt 2000 (.fin 2000)))) := by decide +kernel
example : producedCheck (.viaList [(km, 1)] (.many [depth]) (.scalar (.fin 1))) =
    some (some (depth, km, [.fin 1], none)) := by decide +kernel
example : producedCheck (.pickle (.opNumber (.validated base [.isValid]) .sub (.fin 1001) false)) =
    some (some (depth, m, [.fin (-1), .fin 499], some (.validation .ge 0 (.fin (-1))))) := by decide +kernel
-- exponent 2, two categories, number / object: derived quantities
example : producedCheck (.viaMapping [(depth, km, 2)] (.scalar (.fin 2))) = some none := by decide +kernel
example : producedCheck (.opNumber base .div (.fin 2) true) = some none := by decide +kernel
-- the hypothesis of `provenance_calls_agree`: two different paths, one object
example : producedCheck (.opNumber (.direct depth m (.scalar (.fin 5))) .mul (.fin 2) false) =
    producedCheck (.pickle (.viaMapping [(depth, m, 1)] (.scalar (.fin 10)))) := by decide +kernel

/-! `AddCategory` with `None` flags, `GetDefaultValue`, `CheckValueForCategory`, `ScalarMinMaxValidator` -/

/-- `AddCategory("child", from_category="depth", is_min_exclusive=None, is_max_exclusive=None, caption=None)` -/
def childRaw : AddArgsRaw :=
  { base := { category := Sym.ofString "child", fromCategory := some depth },
    minExcl := none, maxExcl := none, caption := none }

-- the exclusive maximum of 'depth' is inherited (and its limits, default unit and default value)
example : (addCategoryRaw reg1 childRaw).toOption.map (fun r => (r.2.minExcl, r.2.maxExcl, r.2.maxV, r.2.defaultValue)) =
    some (false, true, some 2000, .fin 10) := by decide +kernel
-- a given flag wins over the source
example : (addCategoryRaw reg1 { childRaw with maxExcl := some false }).toOption.map (fun r => r.2.maxExcl) =
    some false := by decide +kernel
example : (getDefaultValue reg1 depth).toOption = some (.fin 10) := by decide +kernel
example : (getDefaultValue reg1 (Sym.ofString "missing")).toOption = none := by decide +kernel
-- CheckValueForCategory('depth', 2000.0) (default unit) and ('depth', 2.0, 'km'): the exclusive maximum
example : answer (checkValueForCategory reg1 depth (.fin 2000) none) = some (.validation .lt 2000 (.fin 2000)) := by
  decide +kernel
example : answer (checkValueForCategory reg1 depth (.fin 2) (some km)) = some (.validation .lt 2000 (.fin 2000)) := by
  decide +kernel
example : answer (checkValueForCategory reg1 depth (.fin 1) (some km)) = none := by decide +kernel

/-- the validator's complaint about `Scalar('depth', v, u)` -/
def complaint (u : Sym) (v : Val) : Option (Option VErr) :=
  match mkQuant reg1 depth u with
  | .ok q => (validatorPredicate reg1 q v).toOption
  | .error _ => none

example : complaint km (.fin 2) = some (some (.validation .lt 2000 (.fin 2000))) := by decide +kernel
example : complaint cm (.fin (-1)) = some (some (.validation .ge 0 (.fin (R (-1) 100)))) := by decide +kernel
example : complaint km (.fin 1) = some none := by decide +kernel

end Example

example : Example.checkMinOnly Example.m .posInf = some none := by decide +kernel
example : Example.checkMinOnly Example.cm .posInf = some none := by decide +kernel
example : Example.checkMinOnly Example.cm .negInf = some (some (.validation .ge 0 .negInf)) := by
  decide +kernel
example : Example.check Example.km .posInf = some (some (.validation .lt 2000 .posInf)) := by
  decide +kernel

end Barril.Valid
