/-
C15 — queries are pure and caches are semantically invisible.

Model: `Barril/Model/RegCache.lean` — a session `(registry, _category_unit_valid, quantities_cache)`
over the registry state machine of `Barril/Model/Reg.lean`; an accepted registration empties both
memo tables, a rejected one leaves everything as it was.  Helper lemmas, `SInv` (cache invariant),
`NoLegacySyms`, `regClean`: `Barril/Proofs/RegCacheLemmas.lean`.

Property theorems only.  `query_pure` holds without any hypothesis.  The refinement ("the answer in
any reachable state is the answer of a freshly built database") is FALSE at full strength on the
real code — `warm_fresh_counterexample`: when units are registered under legacy spellings
(`lbmolee`, `lbmole`, `lbmol`), `Scalar(1.0, 'lbmolee')` raises on a fresh database and returns a
quantity after `Scalar(1.0, 'lbmole')` — so it is proved in the `_partial` form "for registries
none of whose unit symbols is itself a legacy spelling" (true of every shipped database).
-/
import Barril.Proofs.RegCacheLemmas

namespace Barril.Reg
open Barril

variable (lg : List (Sym × Sym))

/-! ### queries are pure -/

/-- **no query, in any state, changes the registry** (units, base units, categories with their
valid and default units, limits): lookups, conversions, validity checks, arithmetic and object
construction only ever add entries to the two memo tables -/
theorem query_pure (s : CState) (q : Query) : (answer lg s q).1.reg = s.reg := answer_reg lg s q

/-- … so the registry after any interleaving of queries, failing operations and registrations is
the registry built by the registrations alone -/
theorem registry_after_history (s : CState) (ops : List COp) :
    (crun lg s ops).reg = run lg s.reg (registrations ops) := by
  induction ops generalizing s with
  | nil => rfl
  | cons op ops ih =>
    cases op with
    | query q =>
      simp only [crun, registrations]
      rw [ih]
      simp only [cstep, answer_reg]
    | reg op =>
      simp only [crun, registrations, run]
      rw [ih]
      simp only [cstep]
      cases (step lg s.reg op).2 <;> rfl

/-- object-level `GetValidUnits` (the old defect: it appended the object's unit to the database's
own list) leaves the database's list for the category as it was -/
theorem objValidUnits_leaves_database_list (s : CState) (c u c' : Sym) :
    getValidUnits (answer lg s (.objValidUnits c u)).1.reg c' = getValidUnits s.reg c' := by
  rw [query_pure]

/-! ### the cache invariant -/

/-- **every step — query, accepted registration, rejected registration — keeps the invariant**
(after an accepted registration trivially, because both tables are emptied: without fix 94d655e
this is the obligation that fails) -/
theorem cstep_preserves_Inv {s : CState} (h : Inv lg s) {op : COp} (hc : opClean lg op = true) :
    Inv lg (cstep lg s op).1 := by
  obtain ⟨hr, hs, hn, hd⟩ := h
  cases op with
  | query q =>
    obtain ⟨_, i, r⟩ := answer_refines lg q hs hn hd
    simp only [cstep]
    exact ⟨by rw [r]; exact hr, i, by rw [r]; exact hn, dext_dinv lg (answer_dext lg s q) hd⟩
  | reg op =>
    simp only [cstep]
    have hr' := step_inv lg hr op
    have hn' := step_noLegacy lg hr hn (op := op) hc
    cases ho : (step lg s.reg op).2 with
    | ok o => exact ⟨hr', sinv_fresh lg _, hn', dinv_fresh lg _⟩
    | error e =>
      have : (step lg s.reg op).1 = s.reg :=
        rejected_id lg hr (show step lg s.reg op = ((step lg s.reg op).1, .error e) by rw [← ho])
      simp only
      rw [this]
      exact ⟨hr, hs, hn, hd⟩

/-- … hence every history -/
theorem crun_preserves_Inv {s : CState} (h : Inv lg s) (ops : List COp) (hc : ops.all (opClean lg) = true) :
    Inv lg (crun lg s ops) := by
  induction ops generalizing s with
  | nil => exact h
  | cons op ops ih =>
    simp only [List.all_cons, Bool.and_eq_true] at hc
    exact ih (cstep_preserves_Inv lg h hc.1) hc.2

/-! ### refinement: caches are semantically invisible -/

/- full statement (false, see `warm_fresh_counterexample`):
   theorem refinement {s} (h : RegInv s.reg ∧ SInv lg s) (q) : (answer lg s q).2 = spec lg s.reg q -/
/-- **the answer to any query in a state that satisfies the invariant is the answer of a freshly
built database over the same registry** (`spec` = empty memo tables).  Partial: for registries
without units registered under legacy spellings. -/
theorem refinement_partial {s : CState} (h : Inv lg s) (q : Query) : (answer lg s q).2 = spec lg s.reg q :=
  (answer_refines lg q h.2.1 h.2.2.1 h.2.2.2).1

/-- **warm = fresh for every history**: each step of any interleaving of queries, failing
operations and registrations (over symbols that are not legacy spellings) has the outcome it has on
a database freshly built from the registrations made before it -/
theorem warm_eq_fresh_partial {s : CState} (h : Inv lg s) (ops : List COp) (hc : ops.all (opClean lg) = true) :
    coutputs lg s ops = freshOutputs lg s.reg ops := by
  induction ops generalizing s with
  | nil => rfl
  | cons op ops ih =>
    simp only [List.all_cons, Bool.and_eq_true] at hc
    have hi := cstep_preserves_Inv lg h hc.1
    cases op with
    | query q =>
      simp only [coutputs, freshOutputs]
      rw [ih hi hc.2]
      simp only [cstep, refinement_partial lg h q, answer_reg]
    | reg op =>
      simp only [coutputs, freshOutputs]
      rw [ih hi hc.2, (cstep_reg_out lg s op).1, (cstep_reg_out lg s op).2]

/-- … from a new database -/
theorem warm_eq_fresh_from_empty_partial (ops : List COp) (hc : ops.all (opClean lg) = true) :
    coutputs lg (CState.fresh Registry.empty) ops = freshOutputs lg Registry.empty ops :=
  warm_eq_fresh_partial lg (inv_fresh_empty lg) ops hc

/-- a failed lookup is invisible: whatever was asked (and failed, or not) before, later steps
answer the same -/
theorem earlier_queries_invisible {s : CState} (h : Inv lg s) (q : Query) (later : List COp)
    (hc : later.all (opClean lg) = true) :
    coutputs lg (answer lg s q).1 later = coutputs lg s later := by
  have hi : Inv lg (cstep lg s (.query q)).1 := cstep_preserves_Inv lg h (op := .query q) rfl
  have e : (cstep lg s (.query q)).1 = (answer lg s q).1 := rfl
  rw [e] at hi
  rw [warm_eq_fresh_partial lg hi later hc, warm_eq_fresh_partial lg h later hc, answer_reg]

/-! ### derived quantities: the composition order of a request is never taken from an earlier one -/

/-- **a product, quotient or `ObtainQuantity(OrderedDict)`/`CreateDerived` request answers with its
own composing map** (categories and units in the order of THIS request), whatever compositions,
in whatever order, were asked for before: the derived part of `quantities_cache` is keyed by the
entries in request order, so it is invisible too (instance of `refinement_partial`, spelled out) -/
theorem derived_request_order_independent {s : CState} (h : Inv lg s) (entries : List (Sym × Sym × Int)) :
    (answer lg s (.derived entries)).2 = spec lg s.reg (.derived entries)
    ∧ (answer lg s (.createDerived entries)).2 = spec lg s.reg (.createDerived entries) :=
  ⟨refinement_partial lg h _, refinement_partial lg h _⟩

/-- a derived quantity that is created keeps exactly the composing map it was asked with -/
theorem derived_keeps_request_order (r : Registry) (entries : List (Sym × Sym × Int)) (d : DObj)
    (hns : simpleCase entries = none) (h : spec lg r (.derived entries) = .ok (.desc d)) : d.entries = entries := by
  unfold spec answer obtainDict at h
  simp only [hns, CState.fresh, dcacheGet] at h
  unfold newDerivedChecked at h
  cases hv : validateEntries lg r entries with
  | error e => rw [hv] at h; simp [exMap] at h
  | ok _ =>
    rw [hv] at h
    simp only at h
    unfold newDerived at h
    cases ht : typePairs r entries [] with
    | error e => rw [ht] at h; simp [exMap] at h
    | ok qts =>
      rw [ht] at h
      simp only [exMap, Except.ok.injEq, Ans.desc.injEq] at h
      rw [← h]

/-! ### the counterexample to the unrestricted refinement, and non-vacuity -/

/-- `_LEGACY_TO_CURRENT` restricted to the pair that matters here -/
def lgMole : List (Sym × Sym) := [(Sym.ofString "lbmole", Sym.ofString "lbmol")]

/-- a database with units registered under the spellings `lbmol` (default category `depth`),
`lbmole` and `lbmolee`, then `Scalar(1.0, 'lbmole')` -/
def legacyNamedHistory : List COp :=
  [.reg (.addUnitBase (.str 1) 2 (.str 3)),
   .reg (.addUnit (.str 1) 2 (.str (Sym.ofString "lbmol")) (.mob ⟨0, 3, 1, 0⟩) (.mob ⟨0, 1, 3, 0⟩) (Sym.ofString "depth")),
   .reg (.addUnit (.str 1) 2 (.str (Sym.ofString "lbmole")) (.mob ⟨0, 2, 1, 0⟩) (.mob ⟨0, 1, 2, 0⟩) 0),
   .reg (.addUnit (.str 1) 2 (.str (Sym.ofString "lbmolee")) (.mob ⟨0, 4, 1, 0⟩) (.mob ⟨0, 1, 4, 0⟩) 0),
   .reg (.addCategory ⟨.str (Sym.ofString "depth"), some 1, none, false, none, none, none, none, false, false, 0, none⟩),
   .query (.createU (Sym.ofString "lbmole"))]

/-- **the unrestricted refinement is false** (the model reproduces the real code here): after
`Scalar(1.0, 'lbmole')` the query `Scalar(1.0, 'lbmolee')` returns the quantity `(depth, lbmol)`,
on a freshly built database it raises `TypeError` -/
theorem warm_fresh_counterexample :
    (answer lgMole (crun lgMole (CState.fresh Registry.empty) legacyNamedHistory) (.createU (Sym.ofString "lbmolee"))).2
      = .ok (.quantity (Sym.ofString "depth") (Sym.ofString "lbmol"))
    ∧ spec lgMole (crun lgMole (CState.fresh Registry.empty) legacyNamedHistory).reg (.createU (Sym.ofString "lbmolee"))
      = .error .type := by
  constructor <;> decide +kernel

/-- the history of the old defect: a failing lookup, then the registration that makes it valid,
then the same lookup (symbols 1 = length, 2 = m, 3 = cm, 5 = depth) -/
def negativeVerdictHistory : List COp :=
  [.reg (.addUnitBase (.str 1) 10 (.str 2)),
   .reg (.addUnit (.str 1) 11 (.str 3) (.mob ⟨0, 100, 1, 0⟩) (.mob ⟨0, 1, 100, 0⟩) 0),
   .query (.check 5 3),
   .query (.create 5 3),
   .reg (.addCategory ⟨.str 5, some 1, none, false, none, none, none, none, false, false, 0, none⟩),
   .query (.check 5 3),
   .query (.create 5 3),
   .query (.objValidUnits 5 3),
   .query (.validUnits 5)]

/-- the same composition in both orders inside one history (1 = length, 2 = m, 5 = depth,
7 = second category of the same type): each product reports its own order -/
def bothOrdersHistory : List COp :=
  [.reg (.addUnitBase (.str 1) 10 (.str 2)),
   .reg (.addCategory ⟨.str 5, some 1, none, false, none, none, none, none, false, false, 0, none⟩),
   .reg (.addCategory ⟨.str 7, some 1, none, false, none, none, none, none, false, false, 0, none⟩),
   .query (.prod .mul 5 2 7 2 2 3),
   .query (.prod .mul 7 2 5 2 3 2),
   .query (.derived [(7, 2, 1), (5, 2, -1)]),
   .query (.derived [(5, 2, -1), (7, 2, 1)]),
   .query (.prod .div 5 2 7 2 6 3)]

/-- a sum whose first operand is a derived quantity with two categories of one quantity type in
different units (1 = length, 2 = m, 3 = cm = m/100, 5 and 7 categories of length), asked twice,
then the subtraction: `1 [m.cm] + 2 [m.m]`, the same again, `5 [m.cm] - 1 [m.m]` -/
def repeatedSumHistory : List COp :=
  [.reg (.addUnitBase (.str 1) 10 (.str 2)),
   .reg (.addUnit (.str 1) 11 (.str 3) (.mob ⟨0, 100, 1, 0⟩) (.mob ⟨0, 1, 100, 0⟩) 0),
   .reg (.addCategory ⟨.str 5, some 1, none, false, none, none, none, none, false, false, 0, none⟩),
   .reg (.addCategory ⟨.str 7, some 1, none, false, none, none, none, none, false, false, 0, none⟩),
   .query (.sumd .add [(7, 2, 1), (5, 3, 1)] [(7, 2, 1), (5, 2, 1)] 1 2),
   .query (.sumd .add [(7, 2, 1), (5, 3, 1)] [(7, 2, 1), (5, 2, 1)] 1 2),
   .query (.sumd .sub [(7, 2, 1), (5, 3, 1)] [(7, 2, 1), (5, 2, 1)] 5 1),
   .query (.derived [(7, 2, 1), (5, 3, 1)])]

/-! ### value-bearing arithmetic on derived operands: an uninterpreted function of (registry, expression) -/

/-- **an arithmetic question is answered from the registry alone**: for EVERY function `ar` giving the
meaning of expressions over a registry, two sessions over the same registry — whatever their memo
tables hold — give the same answer, and the step leaves the registry as it was -/
theorem arith_answer_ignores_caches {α : Type} (ar : Registry → VExpr → α) (s s' : CState) (h : s.reg = s'.reg)
    (e : VExpr) :
    (xstep lg ar s (.arith e)).2 = (xstep lg ar s' (.arith e)).2 ∧ (xstep lg ar s (.arith e)).1.reg = s.reg := by
  simp only [xstep, h, and_self]

/-- every step of a session with arithmetic questions keeps the session invariant -/
theorem xstep_preserves_Inv {α : Type} (ar : Registry → VExpr → α) {s : CState} (h : Inv lg s) {op : XOp}
    (hc : xopClean lg op = true) : Inv lg (xstep lg ar s op).1 := by
  cases op with
  | base op => exact cstep_preserves_Inv lg h (op := op) hc
  | arith e => exact h

/-- **warm = fresh for every history with arithmetic questions, for every meaning `ar` of the
arithmetic**: each step of any interleaving of registrations, queries, failing operations and
value-bearing expressions (products, quotients, sums of derived operands, asked repeatedly and in any
order) has the outcome it has on a database freshly built from the registrations made before it.
(The correspondence check evaluates `ar` on the real code: a new database, the same registrations.) -/
theorem xwarm_eq_fresh_partial {α : Type} (ar : Registry → VExpr → α) {s : CState} (h : Inv lg s) (ops : List XOp)
    (hc : ops.all (xopClean lg) = true) :
    xoutputs lg ar s ops = xfreshOutputs lg ar s.reg ops := by
  induction ops generalizing s with
  | nil => rfl
  | cons op ops ih =>
    simp only [List.all_cons, Bool.and_eq_true] at hc
    have hi := xstep_preserves_Inv lg ar h hc.1
    cases op with
    | arith e =>
      simp only [xoutputs, xfreshOutputs]
      rw [ih hi hc.2]
      simp only [xstep]
    | base op =>
      cases op with
      | query q =>
        simp only [xoutputs, xfreshOutputs]
        rw [ih hi hc.2]
        simp only [xstep, cstep, refinement_partial lg h q, answer_reg]
      | reg op =>
        simp only [xoutputs, xfreshOutputs]
        rw [ih hi hc.2]
        simp only [xstep, (cstep_reg_out lg s op).1, (cstep_reg_out lg s op).2]

/-! ### several private databases alive at the same time -/

/-- **every database answers as if it were alone, and as a fresh one**: in any interleaving of
histories addressed to a family of private databases, the outcomes of the steps addressed to
database `i` are those of a database freshly built from the registrations addressed to `i` — what
was asked of, or registered in, the other databases is invisible (for every meaning `ar` of the
arithmetic) -/
theorem warm_eq_fresh_many_partial {α : Type} (ar : Registry → VExpr → α) (s : Nat → CState) (i : Nat)
    (h : Inv lg (s i)) (ops : List (Nat × XOp)) (hc : (partOf i ops).all (xopClean lg) = true) :
    partOf i (outputsN (xstep lg ar) s ops) = xfreshOutputs lg ar (s i).reg (partOf i ops) := by
  rw [outputsN_part, fouts_xstep, xwarm_eq_fresh_partial lg ar h _ hc]

/-! ### WHICH exception a failing query raises: an uninterpreted function of (registry, query) -/

/-- **the exception a failing query raises is decided by the registry alone**: for EVERY function `ed`
giving the detail of a failure (the exception class) over a registry, a query asked in any state that
satisfies the invariant — whatever its memo tables hold: the same failing question asked before, once or
many times, other questions in between — fails exactly when it fails on a freshly built database over the
same registry, and with the same detail; the step leaves the registry as it was -/
theorem error_detail_ignores_caches {α δ : Type} (ar : Registry → VExpr → α) (ed : Registry → Query → δ)
    {s : CState} (h : Inv lg s) (q : Query) :
    (ystep lg ar ed s (.base (.query q))).2 = (ystep lg ar ed (CState.fresh s.reg) (.base (.query q))).2
    ∧ (ystep lg ar ed s (.base (.query q))).1.reg = s.reg := by
  have hf : (answer lg (CState.fresh s.reg) q).2 = spec lg s.reg q := rfl
  refine ⟨?_, by simp only [ystep, xstep, cstep, answer_reg]⟩
  simp only [ystep, xstep, cstep, detailOf, refinement_partial lg h q, hf]
  rfl

/-- … so two sessions over the same registry report the same failure, with the same detail, to the same
question — a memo hit and a memo miss cannot be told apart -/
theorem error_detail_same_registry {α δ : Type} (ar : Registry → VExpr → α) (ed : Registry → Query → δ)
    {s s' : CState} (h : Inv lg s) (h' : Inv lg s') (hr : s.reg = s'.reg) (q : Query) :
    (ystep lg ar ed s (.base (.query q))).2 = (ystep lg ar ed s' (.base (.query q))).2 := by
  rw [(error_detail_ignores_caches lg ar ed h q).1, (error_detail_ignores_caches lg ar ed h' q).1, hr]

/-- **warm = fresh for every history, failure details included, for every meaning of `ar` and `ed`**:
each step of any interleaving of registrations, queries (asked repeatedly, failing or not) and arithmetic
questions has the outcome — and, when it is a failing query, the failure detail — it has on a database
freshly built from the registrations made before it -/
theorem ywarm_eq_fresh_partial {α δ : Type} (ar : Registry → VExpr → α) (ed : Registry → Query → δ) {s : CState}
    (h : Inv lg s) (ops : List XOp) (hc : ops.all (xopClean lg) = true) :
    youtputs lg ar ed s ops = yfreshOutputs lg ar ed s.reg ops := by
  induction ops generalizing s with
  | nil => rfl
  | cons op ops ih =>
    simp only [List.all_cons, Bool.and_eq_true] at hc
    have hi := xstep_preserves_Inv lg ar h hc.1
    simp only [youtputs, yfreshOutputs]
    have e1 : (ystep lg ar ed s op).1 = (xstep lg ar s op).1 := rfl
    rw [e1, ih hi hc.2, xstep_reg_fresh]
    congr 1
    cases op with
    | arith e => rfl
    | base op =>
      cases op with
      | query q => exact (error_detail_ignores_caches lg ar ed h q).1
      | reg op =>
        simp only [ystep, xstep, detailOf, (cstep_reg_out lg s op).1, (cstep_reg_out lg (CState.fresh s.reg) op).1]
        rfl

/-- … and in a family of private databases alive at the same time: the outcomes and failure details of
the steps addressed to database `i` are those of a database freshly built from the registrations
addressed to `i` -/
theorem ywarm_eq_fresh_many_partial {α δ : Type} (ar : Registry → VExpr → α) (ed : Registry → Query → δ)
    (s : Nat → CState) (i : Nat) (h : Inv lg (s i)) (ops : List (Nat × XOp))
    (hc : (partOf i ops).all (xopClean lg) = true) :
    partOf i (outputsN (ystep lg ar ed) s ops) = yfreshOutputs lg ar ed (s i).reg (partOf i ops) := by
  rw [outputsN_part, fouts_ystep, ywarm_eq_fresh_partial lg ar ed h _ hc]

/-- a history with three arithmetic questions (1 = length, 2 = m, 3 = cm, 5 = category): `2 m * (3 cm)^2`,
`2 m * (3 cm)^3`, then the first again -/
def arithHistory : List XOp :=
  [.base (.reg (.addUnitBase (.str 1) 10 (.str 2))),
   .base (.reg (.addUnit (.str 1) 11 (.str 3) (.mob ⟨0, 100, 1, 0⟩) (.mob ⟨0, 1, 100, 0⟩) 0)),
   .base (.reg (.addCategory ⟨.str 5, some 1, none, false, none, none, none, none, false, false, 0, none⟩)),
   .arith (.bin .mul (.scalar 5 2 2) (.bin .mul (.scalar 5 3 3) (.scalar 5 3 3))),
   .arith (.bin .mul (.scalar 5 2 2) (.bin .mul (.scalar 5 3 3) (.bin .mul (.scalar 5 3 3) (.scalar 5 3 3)))),
   .base (.query (.check 5 3)),
   .arith (.bin .mul (.scalar 5 2 2) (.bin .mul (.scalar 5 3 3) (.scalar 5 3 3)))]

end Barril.Reg
