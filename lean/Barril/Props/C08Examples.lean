/- Non-vacuity examples of C08 (moved out of Props/C08.lean by tools/split_examples.py: they evaluate
concrete instances, many over the regenerated tables, and must not be able to stop the theorem module from
building).  Not property theorems: the check builds this module separately and only records the outcome. -/
import Barril.Props.C08
import Barril.Proofs.CmpLemmas
import Barril.Props.C01

namespace Barril
open Barril.Gen

section examples
open Barril.Gen

private def sq (c u : String) : Except ErrKind SimpleQ := poscDb.simpleQuantity (Sym.ofString c) (Sym.ofString u)

/-- quantities are built (so `Built` is inhabited), affine and gauge units included -/
example : (sq "length" "m").toBool ∧ (sq "length" "cm").toBool ∧ (sq "temperature" "degC").toBool
    ∧ (sq "temperature" "K").toBool ∧ (sq "pressure" "psig").toBool ∧ (sq "depth" "ft").toBool := by
  decide +kernel

/-- 1 m against 100 cm, both directions: no `>`, both `<=` (the defect the property text quotes) -/
example : (match sq "length" "m", sq "length" "cm" with
    | .ok qm, .ok qc =>
      some ((Sc.mk 1 qm).order poscDb .gt ⟨100, qc⟩, (Sc.mk 100 qc).order poscDb .gt ⟨1, qm⟩,
            (Sc.mk 1 qm).order poscDb .le ⟨100, qc⟩, (Sc.mk 100 qc).order poscDb .le ⟨1, qm⟩)
    | _, _ => none) = some (.ok false, .ok false, .ok true, .ok true) := by decide +kernel

/-- an affine pair: 0 degC < 274 K, and 0 degC >= 273.15 K -/
example : (match sq "temperature" "degC", sq "temperature" "K" with
    | .ok qc, .ok qk =>
      some ((Sc.mk 0 qc).order poscDb .lt ⟨274, qk⟩, (Sc.mk 0 qc).order poscDb .ge ⟨R 27315 100, qk⟩)
    | _, _ => none) = some (.ok true, .ok true) := by decide +kernel

/-- different quantity types: TypeError -/
example : (match sq "length" "m", sq "time" "s" with
    | .ok qm, .ok qs => some ((Sc.mk 1 qm).order poscDb .lt ⟨1, qs⟩)
    | _, _ => none) = some (.error .type) := by decide +kernel

/-- a FractionScalar pair whose numerator is kept: 1 1/2 m against 150 cm is a tie -/
example : (match sq "length" "m", sq "length" "cm" with
    | .ok qm, .ok qc =>
      some ((FSc.mk ⟨1, 1 / 2⟩ qm).order poscDb (1 / 100000000) .le ⟨⟨150, 0⟩, qc⟩,
            (FSc.mk ⟨150, 0⟩ qc).order poscDb (1 / 100000000) .le ⟨⟨1, 1 / 2⟩, qm⟩,
            (FSc.mk ⟨1, 1 / 2⟩ qm).order poscDb (1 / 100000000) .lt ⟨⟨150, 0⟩, qc⟩)
    | _, _ => none) = some (.ok true, .ok true, .ok false) := by decide +kernel

private def qM : Qty := ⟨[⟨Sym.ofString "length", Sym.ofString "m", 1, false⟩], 0, Sym.ofString "m"⟩
private def qMtuple : Qty := ⟨[⟨Sym.ofString "length", Sym.ofString "m", 1, true⟩], 0, Sym.ofString "m"⟩

/-- FixedArray against Array with equal content: `False` both ways (reflected method first one way) -/
example : pyEq 0 (.arr ⟨[1, 2], .list, qM, some 2⟩) (.arr ⟨[1, 2], .tuple, qM, none⟩) false = .ok false
    ∧ pyEq 0 (.arr ⟨[1, 2], .tuple, qM, none⟩) (.arr ⟨[1, 2], .list, qM, some 2⟩) false = .ok false
    ∧ pyEq 0 (.arr ⟨[1, 2], .tuple, qM, none⟩) (.arr ⟨[1, 2], .ndarray, qM, none⟩) false = .ok true := by
  decide +kernel

/-- the guards are what keeps `==` from raising: the unguarded attribute reads do fail -/
example : Obj.dimension (.arr ⟨[1, 2], .tuple, qM, none⟩) = .error .other
    ∧ fractionOldCmp 0 (1 / 2) .none = .error .other := by decide +kernel

/-- `Fraction(1, 2) == None` is False, `Fraction(1, 2) == 0.5` and `0.5 == Fraction(1, 2)` are True -/
example : pyEq (1 / 100000000) (.fraction (1 / 2)) .none false = .ok false
    ∧ pyEq (1 / 100000000) (.fraction (1 / 2)) (.num (1 / 2)) false = .ok true
    ∧ pyEq (1 / 100000000) (.num (1 / 2)) (.fraction (1 / 2)) false = .ok true := by decide +kernel

/-- equal Scalars (int 1 and float 1.0) hash alike; list- and tuple-valued quantities are unequal
yet hash alike; containers are unhashable -/
example : pyEq 0 (.scalar 1 qM) (.scalar 1 qM) false = .ok true
    ∧ pyHash (.scalar 1 qM) = .ok (.scalar 1 [(Sym.ofString "length", Sym.ofString "m", 1)] 0)
    ∧ pyEq 0 (.quantity qM) (.quantity qMtuple) false = .ok false
    ∧ pyHash (.quantity qM) = pyHash (.quantity qMtuple)
    ∧ pyHash (.arr ⟨[1, 2], .tuple, qM, none⟩) = .error .type
    ∧ pyHash (.list [1]) = .error .type := by decide +kernel

/-- the quantity type `Unknown` and the empty quantity in the cross-type guard: `1.5 m < 2.5 <unknown>`
raises `TypeError` for a FractionScalar, a Scalar and a mixed pair, both operand orders (although
`GetInfo(…, fix_unknown=True)` would convert `<unknown>` to `m` as the identity); two `<unknown>` operands
compare their numbers; a Scalar against the empty quantity raises -/
example : (match sq "length" "m", sq "Unknown" "<unknown>" with
    | .ok qm, .ok qu =>
      some (Operand.order poscDb 0 .lt (.fsc ⟨3 / 2, 0⟩ (.simple qm)) (.fsc ⟨5 / 2, 0⟩ (.simple qu)),
            Operand.order poscDb 0 .lt (.fsc ⟨5 / 2, 0⟩ (.simple qu)) (.fsc ⟨3 / 2, 0⟩ (.simple qm)),
            Operand.order poscDb 0 .ge (.sc (3 / 2) (.simple qm)) (.fsc ⟨5 / 2, 0⟩ (.simple qu)),
            Operand.order poscDb 0 .lt (.sc (3 / 2) (.simple qu)) (.fsc ⟨2, 1 / 2⟩ (.simple qu)))
    | _, _ => none)
    = some (.error .type, .error .type, .error .type, .ok true) := by
  decide +kernel

example : (match sq "length" "m" with
    | .ok qm =>
      some (Operand.order poscDb 0 .le (.sc 1 (.simple qm)) (.sc 1 .empty),
            Operand.order poscDb 0 .le (.sc 1 .empty) (.sc 2 .empty),
            Operand.order poscDb 0 .le (.sc 1 .empty) (.fsc ⟨2, 0⟩ .empty))
    | _ => none) = some (.error .type, .ok true, .error .type) := by decide +kernel

/-- what the guard prevents: the conversion of `2.5 <unknown>` to `m` succeeds as the identity -/
example : (match sq "length" "m", sq "Unknown" "<unknown>" with
    | .ok qm, .ok qu => some (Operand.valueIn poscDb 0 (.sc (5 / 2) (.simple qu)) qm.unit)
    | _, _ => none) = some (.ok (5 / 2)) := by decide +kernel

/-! ### pooled objects and histories (the hypotheses of the `stir_*` / `stirred_*` theorems are met) -/

private def qMCm : Qty :=
  ⟨[⟨Sym.ofString "length", Sym.ofString "m", 1, false⟩, ⟨Sym.ofString "depth", Sym.ofString "cm", 1, false⟩], 0,
    Sym.ofString "m.cm"⟩
private def qMM : Qty :=
  ⟨[⟨Sym.ofString "length", Sym.ofString "m", 1, false⟩, ⟨Sym.ofString "depth", Sym.ofString "m", 1, false⟩], 0,
    Sym.ofString "m2"⟩

/-- the quantity `m.cm` (a quantity type twice, two units), two Scalars on it (one Quantity object: one `qid`),
the look-alike `m2` and a Scalar on it, an Array, `None` -/
private def pool1 : List PObj :=
  [⟨.quantity qMCm, 0, 1⟩, ⟨.scalar 2 qMCm, 1, 1⟩, ⟨.scalar 2 qMCm, 2, 1⟩, ⟨.quantity qMM, 3, 2⟩, ⟨.scalar 2 qMM, 4, 2⟩,
   ⟨.arr ⟨[1, 2], .list, qMCm, none⟩, 5, 1⟩, ⟨.none, 6, 0⟩]

/-- the Scalar is hashed first (memoising `_hash` of the shared Quantity object), then it is the left operand of
sums and products, compared, converted -/
private def hist1 : List StirOp :=
  [.hash 1, .hash 5, .arith 1 4, .arith 4 1, .arith 0 3, .cmp 1 4, .read 1, .hash 0, .hash 4, .arith 2 1]

example : poolWF pool1 = true := by decide +kernel

/-- the history did memoise: two Quantity objects have their `_hash` set, through a Scalar and directly -/
example : ((Session.fresh pool1).run hist1).memo.length = 2 := by decide +kernel

/-- after the history: 2 m.cm == 2 m.cm (another object, equal hashes through the memo), 2 m.cm != 2 m2, the
quantity m.cm != the quantity m2, an Array is unhashable, an index outside the pool is an error -/
example :
    let s := (Session.fresh pool1).run hist1
    s.eq 0 1 2 = .ok true ∧ (s.hash 1).1 = (s.hash 2).1 ∧ (s.hash 1).1 = pyHash (.scalar 2 qMCm)
    ∧ s.eq 0 1 4 = .ok false ∧ s.ne 0 1 4 = .ok true ∧ s.eq 0 0 3 = .ok false
    ∧ (s.hash 5).1 = .error .type ∧ s.eq 0 6 6 = .ok true ∧ s.eq 0 1 7 = .error .index := by decide +kernel

/-- what the hypothesis `poolWF` excludes: one Quantity object (`qid` 1) with two contents, which is what a
composing map rewritten in place after `_hash` was taken amounts to.  There the memoised hash of the first
holder is served to the second, whose own key differs: `stir_invisible_hash` needs the hypothesis. -/
example :
    let bad : List PObj := [⟨.scalar 2 qMCm, 0, 1⟩, ⟨.scalar 2 qMM, 1, 1⟩]
    poolWF bad = false
    ∧ (((Session.fresh bad).run [.hash 0]).hash 1).1 = pyHash (.scalar 2 qMCm)
    ∧ (((Session.fresh bad).run [.hash 0]).hash 1).1 ≠ (Session.fresh bad).pureHash 1 := by decide +kernel

/-- `AbstractValueWithQuantityObject.__hash__(o)` raises NotImplementedError when called explicitly, while
`hash(o)` of an Array is the TypeError of an unhashable class and a Scalar hashes -/
example : absBaseHash (.arr ⟨[1, 2], .list, qMCm, none⟩) = .error .readonly
    ∧ pyHash (.arr ⟨[1, 2], .list, qMCm, none⟩) = .error .type
    ∧ (pyHash (.scalar 2 qMCm)).toBool = true := by decide +kernel

end examples


/-! ### witnesses over the shipped table (machine-checked on the tree they were written for; a changed table
value can change them without touching a property theorem, hence here and not in the theorem module) -/

/-- order after a history: a = 3 5/8 in (9.2075 cm), b = 8 3/4 cm; after `float(b.value)`, `a > b`, a copy of `b`,
`str(a)` and `b.GetValue('in')`: `a > b` is true, `b > a` and `copy(b) > a` are false, `a <= b` is false, `b <= a` true
(`i`, `j` below the pool length: the hypotheses of `stir_invisible_order` are met) -/
example : (match poscDb.simpleQuantity (Sym.ofString "length") (Sym.ofString "in"),
           poscDb.simpleQuantity (Sym.ofString "length") (Sym.ofString "cm") with
     | .ok qa, .ok qb =>
       let a : FSc := ⟨⟨3, R 5 8⟩, qa⟩
       let b : FSc := ⟨⟨8, R 3 4⟩, qb⟩
       let small : Rat := 1 / 100000000
       let s := (OSession.mk [a.toOperand, b.toOperand]).run
         [.float 1, .order .gt 0 1, .copy 1, .show 0, .getValue 1 (Sym.ofString "in")]
       some (s.pool.length == 3, [s.order poscDb small .gt 0 1, s.order poscDb small .gt 1 0, s.order poscDb small .gt 2 0,
             s.order poscDb small .le 0 1, s.order poscDb small .le 1 0])
     | _, _ => none) = some (true, [.ok true, .ok false, .ok false, .ok false, .ok true]) := by decide +kernel

/-- a Scalar against a FractionScalar of another unit after a history, and a cross-type pair (TypeError) -/
example : (match poscDb.simpleQuantity (Sym.ofString "length") (Sym.ofString "m"),
           poscDb.simpleQuantity (Sym.ofString "length") (Sym.ofString "cm"),
           poscDb.simpleQuantity (Sym.ofString "time") (Sym.ofString "s") with
     | .ok qm, .ok qc, .ok qs =>
       let small : Rat := 1 / 100000000
       let s := (OSession.mk [.sc 1 (.simple qm), .fsc ⟨99, R 1 2⟩ (.simple qc), .sc 1 (.simple qs)]).run
         [.order .lt 1 0, .copy 0, .eq 0 1, .hash 0, .arith 0 1]
       some (s.order poscDb small .gt 0 1, s.order poscDb small .lt 1 3, s.order poscDb small .lt 0 2)
     | _, _, _ => none) = some (.ok true, .ok true, .error .type) := by decide +kernel

/-- witness that the hypothesis `NumeratorKept` cannot be dropped on the current code (posc database,
`SMALL = 1e-8`): with a = FractionScalar(FractionValue(1e-9), 'm') and
b = FractionScalar(FractionValue(0, (3, 1)), 'nm') (1 nm and 3 nm) both `a > b` and `b > a` are true,
and neither `a <= b` nor `b <= a`: the 3e-9 m numerator of b becomes 0 inside `Fraction(number)` -/
theorem fscalar_order_counterexample :
    (match poscDb.simpleQuantity (Sym.ofString "length") (Sym.ofString "m"),
           poscDb.simpleQuantity (Sym.ofString "length") (Sym.ofString "nm") with
     | .ok qa, .ok qb =>
       let a : FSc := ⟨⟨1 / 1000000000, 0⟩, qa⟩
       let b : FSc := ⟨⟨0, 3⟩, qb⟩
       let small : Rat := 1 / 100000000
       some (a.order poscDb small .gt b, b.order poscDb small .gt a,
             a.order poscDb small .le b, b.order poscDb small .le a)
     | _, _ => none) = some (.ok true, .ok true, .ok false, .ok false) := by decide +kernel

end Barril
