/- Non-vacuity examples of C04 (moved out of Props/C04.lean by tools/split_examples.py: they evaluate
concrete instances, many over the regenerated tables, and must not be able to stop the theorem module from
building).  Not property theorems: the check builds this module separately and only records the outcome. -/
import Barril.Props.C04
import Barril.Proofs.AlgLemmas
import Barril.Props.C01

namespace Barril.Alg
open Barril Barril.Gen

section examples
private def S (s : String) : Sym := Sym.ofString s
private def qM : Quantity := ⟨[⟨S "length", S "m", 1⟩], 0, false⟩
private def qCm : Quantity := ⟨[⟨S "length", S "cm", 1⟩], 0, false⟩
private def qM2 : Quantity := ⟨[⟨S "length", S "m", 2⟩], 0, true⟩
private def qDepthFt : Quantity := ⟨[⟨S "depth", S "ft", 1⟩], 0, false⟩
private def qS : Quantity := ⟨[⟨S "time", S "s", 1⟩], 0, false⟩

example : Known poscDb qM := known_of_b (by decide +kernel)
example : Known poscDb qM2 ∧ ScaleOnlyQ poscDb qM2 := ⟨known_of_b (by decide +kernel), scaleOnlyQ_of_b (by decide +kernel)⟩
example : Known poscDb qDepthFt ∧ ScaleOnlyQ poscDb qDepthFt :=
  ⟨known_of_b (by decide +kernel), scaleOnlyQ_of_b (by decide +kernel)⟩
example : opNew poscDb .mul qM qM 1 1 = .ok (qM2, 1) := by decide +kernel
example : opNew poscDb .mul qCm qM2 1 1 = .ok (⟨[⟨S "length", S "cm", 3⟩], 0, true⟩, 10000) := by decide +kernel
example : opNew poscDb .mul qM2 qCm 1 1 = .ok (⟨[⟨S "length", S "m", 3⟩], 0, true⟩, R 1 100) := by decide +kernel
example : opNew poscDb .mul qM qDepthFt 2 1
    = .ok (⟨[⟨S "length", S "m", 1⟩, ⟨S "depth", S "m", 1⟩], 0, true⟩, R 6096 10000) := by decide +kernel
example : opNew poscDb .div qM2 qM 6 2 = .ok (qM, 3) := by decide +kernel
example : opNew poscDb .div qM qM 5 5 = .ok (⟨[], 0, true⟩, 1) := by decide +kernel
example : opNew poscDb .floordiv qM qCm (R 75 10) 200 = .ok (⟨[], 0, true⟩, 3) := by decide +kernel
example : opNew poscDb .div qM qS 1 0 = .error .other := by decide +kernel
example : pow poscDb qM 2 3 = .ok (⟨[⟨S "length", S "m", 3⟩], 0, true⟩, 8) := by decide +kernel
-- n − 1 successive products for every n: a**5, a**6 (exponent n, value v^n); n ≤ 1 returns the operand itself
example : pow poscDb qM 2 5 = .ok (⟨[⟨S "length", S "m", 5⟩], 0, true⟩, 32) := by decide +kernel
example : pow poscDb qS (-1) 6 = .ok (⟨[⟨S "time", S "s", 6⟩], 0, true⟩, 1) := by decide +kernel
example : pow poscDb qM 2 0 = .ok (qM, 2) ∧ pow poscDb qM 2 (-3) = .ok (qM, 2) := ⟨by decide +kernel, by decide +kernel⟩
-- the general theorem instantiated: dims of a**11 are 11·dims a, base magnitude the 11th power
example {q' : Quantity} {v' : Rat} (h : pow poscDb qM2 3 11 = .ok (q', v')) :
    (∀ qt, dim poscDb qt q'.entries = 11 * dim poscDb qt qM2.entries) ∧ baseMag poscDb q' v' = baseMag poscDb qM2 3 ^ 11 :=
  pow_dim_mag posc_allWF (by decide) (known_of_b (by decide +kernel)) (Or.inl (by decide)) h
example : opNew poscDb .mul ⟨[⟨S "temperature", S "degC", 1⟩], 0, false⟩
    ⟨[⟨S "length", S "m", 1⟩, ⟨S "temperature", S "K", 1⟩], 0, true⟩ 2 3
    = .ok (⟨[⟨S "temperature", S "degC", 2⟩, ⟨S "length", S "m", 1⟩], 0, true⟩, 6) := by decide +kernel
-- the reported quantity type: two categories of one quantity type are ADDED (m * cm(diameter) reports length ** 2),
-- a type whose exponents cancel is not written
example : typeExps poscDb [⟨S "length", S "m", 1⟩, ⟨S "diameter", S "m", 1⟩] = .ok [(S "length", 2)] := by decide +kernel
example : reportedTypes poscDb [⟨S "length", S "m", 2⟩, ⟨S "time", S "s", -1⟩, ⟨S "diameter", S "m", -2⟩]
    = .ok [(S "time", -1)] := by decide +kernel
example {q : Quantity} {v : Rat} {l : List (Sym × Int)}
    (h : opNew poscDb .mul qM ⟨[⟨S "diameter", S "cm", 1⟩], 0, false⟩ 6 50 = .ok (q, v))
    (t : typeExps poscDb q.entries = .ok l) : expOf (S "length") l = 1 + 1 :=
  mul_reported_types posc_allWF (known_of_b (by decide +kernel)) (known_of_b (by decide +kernel)) h
    (l1 := [(S "length", 1)]) (l2 := [(S "length", 1)]) (by decide +kernel) (by decide +kernel) t (S "length")
end examples

end Barril.Alg
