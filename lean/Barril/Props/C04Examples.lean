/- Non-vacuity examples of C04 (moved out of Props/C04.lean by tools/split_examples.py: they evaluate
concrete instances, many over the regenerated tables, and must not be able to stop the theorem module from
building).  Not property theorems: the check builds this module separately and only records the outcome. -/
import Barril.Props.C04
import Barril.Proofs.AlgLemmas
import Barril.Props.C01

namespace Barril.Alg
open Barril Barril.Gen

section examples
private def S (s : String) : Sym := Sym.ofString s
private def qM : Quantity := ⟨[⟨S "length", S "m", 1⟩], 0, false⟩
private def qCm : Quantity := ⟨[⟨S "length", S "cm", 1⟩], 0, false⟩
private def qM2 : Quantity := ⟨[⟨S "length", S "m", 2⟩], 0, true⟩
private def qDepthFt : Quantity := ⟨[⟨S "depth", S "ft", 1⟩], 0, false⟩
private def qS : Quantity := ⟨[⟨S "time", S "s", 1⟩], 0, false⟩

example : Known poscDb qM := known_of_b (by decide +kernel)
example : Known poscDb qM2 ∧ ScaleOnlyQ poscDb qM2 := ⟨known_of_b (by decide +kernel), scaleOnlyQ_of_b (by decide +kernel)⟩
example : Known poscDb qDepthFt ∧ ScaleOnlyQ poscDb qDepthFt :=
  ⟨known_of_b (by decide +kernel), scaleOnlyQ_of_b (by decide +kernel)⟩
example : opNew poscDb .mul qM qM 1 1 = .ok (qM2, 1) := by decide +kernel
example : opNew poscDb .mul qCm qM2 1 1 = .ok (⟨[⟨S "length", S "cm", 3⟩], 0, true⟩, 10000) := by decide +kernel
example : opNew poscDb .mul qM2 qCm 1 1 = .ok (⟨[⟨S "length", S "m", 3⟩], 0, true⟩, R 1 100) := by decide +kernel
example : opNew poscDb .mul qM qDepthFt 2 1
    = .ok (⟨[⟨S "length", S "m", 1⟩, ⟨S "depth", S "m", 1⟩], 0, true⟩, R 6096 10000) := by decide +kernel
example : opNew poscDb .div qM2 qM 6 2 = .ok (qM, 3) := by decide +kernel
example : opNew poscDb .div qM qM 5 5 = .ok (⟨[], 0, true⟩, 1) := by decide +kernel
example : opNew poscDb .floordiv qM qCm (R 75 10) 200 = .ok (⟨[], 0, true⟩, 3) := by decide +kernel
example : opNew poscDb .div qM qS 1 0 = .error .other := by decide +kernel
example : pow poscDb qM 2 3 = .ok (⟨[⟨S "length", S "m", 3⟩], 0, true⟩, 8) := by decide +kernel
-- n − 1 successive products for every n: a**5, a**6 (exponent n, value v^n); n ≤ 1 returns the operand itself
example : pow poscDb qM 2 5 = .ok (⟨[⟨S "length", S "m", 5⟩], 0, true⟩, 32) := by decide +kernel
example : pow poscDb qS (-1) 6 = .ok (⟨[⟨S "time", S "s", 6⟩], 0, true⟩, 1) := by decide +kernel
example : pow poscDb qM 2 0 = .ok (qM, 2) ∧ pow poscDb qM 2 (-3) = .ok (qM, 2) := ⟨by decide +kernel, by decide +kernel⟩
-- the general theorem instantiated: dims of a**11 are 11·dims a, base magnitude the 11th power
example {q' : Quantity} {v' : Rat} (h : pow poscDb qM2 3 11 = .ok (q', v')) :
    (∀ qt, dim poscDb qt q'.entries = 11 * dim poscDb qt qM2.entries) ∧ baseMag poscDb q' v' = baseMag poscDb qM2 3 ^ 11 :=
  pow_dim_mag posc_allWF (by decide) (known_of_b (by decide +kernel)) (Or.inl (by decide)) h
example : opNew poscDb .mul ⟨[⟨S "temperature", S "degC", 1⟩], 0, false⟩
    ⟨[⟨S "length", S "m", 1⟩, ⟨S "temperature", S "K", 1⟩], 0, true⟩ 2 3
    = .ok (⟨[⟨S "temperature", S "degC", 2⟩, ⟨S "length", S "m", 1⟩], 0, true⟩, 6) := by decide +kernel
end examples

end Barril.Alg
