/- Non-vacuity examples of C03 (moved out of Props/C03.lean by tools/split_examples.py: they evaluate
concrete instances, many over the regenerated tables, and must not be able to stop the theorem module from
building).  Not property theorems: the check builds this module separately and only records the outcome. -/
import Barril.Props.C03
import Barril.Proofs.AlgLemmas
import Barril.Props.C01

namespace Barril.Alg
open Barril Barril.Gen

section examples
private def S (s : String) : Sym := Sym.ofString s
private def qDegC : Quantity := ⟨[⟨S "temperature", S "degC", 1⟩], 0, false⟩
private def qK : Quantity := ⟨[⟨S "temperature", S "K", 1⟩], 0, false⟩
private def qM : Quantity := ⟨[⟨S "length", S "m", 1⟩], 0, false⟩
private def qM2 : Quantity := ⟨[⟨S "length", S "m", 2⟩], 0, true⟩
private def qCm2 : Quantity := ⟨[⟨S "length", S "cm", 2⟩], 0, true⟩
private def qPerS : Quantity := ⟨[⟨S "time", S "s", -1⟩], 0, true⟩
private def qPerMin : Quantity := ⟨[⟨S "time", S "min", -1⟩], 0, true⟩
private def qDegCm : Quantity := ⟨[⟨S "temperature", S "degC", 1⟩, ⟨S "length", S "m", 1⟩], 0, true⟩
private def qmK : Quantity := ⟨[⟨S "length", S "m", 1⟩, ⟨S "temperature", S "K", 1⟩], 0, true⟩

example : Operand poscDb qM2 := ⟨known_of_b (by decide +kernel), unified_of_single _ _, by decide⟩
example : Operand poscDb qPerMin ∧ ScaleOnlyQ poscDb qPerMin :=
  ⟨⟨known_of_b (by decide +kernel), unified_of_single _ _, by decide⟩, scaleOnlyQ_of_b (by decide +kernel)⟩
example : Operand poscDb qDegC := ⟨known_of_b (by decide +kernel), unified_of_single _ _, by decide⟩
example : opSame poscDb .add qM2 qCm2 1 10000 = .ok (qM2, 2) := by decide +kernel
example : opSame poscDb .add qPerS qPerMin (R 1 2) (R 1 2) = .ok (qPerS, R 61 120) := by decide +kernel
example : opSame poscDb .sub qPerS qPerMin (R 61 120) (R 1 2) = .ok (qPerS, R 1 2) := by decide +kernel
example : opSame poscDb .add qCm2 qM2 10000 1 = .ok (qCm2, 20000) := by decide +kernel
example : opSame poscDb .add qM2 qM 1 1 = .error .units := by decide +kernel
end examples


/-! ### witnesses over the shipped table (machine-checked on the tree they were written for; a changed table
value can change them without touching a property theorem, hence here and not in the theorem module) -/

/-- **the known finding, on the model of the shipped table**: 10 degC + 1 K = −262.15 degC (= 11 K) but
1 K + 10 degC = 284.15 K: both follow the property's first sentence, they are not the same amount -/
theorem add_comm_affine_counterexample :
    opSame poscDb .add qDegC qK 10 1 = .ok (qDegC, R (-26215) 100)
    ∧ opSame poscDb .add qK qDegC 1 10 = .ok (qK, R 28415 100)
    ∧ poscDb.convert (S "temperature") (S "degC") (S "K") (R (-26215) 100) = .ok 11 := by
  refine ⟨by decide +kernel, by decide +kernel, by decide +kernel⟩

/-- **the repaired defect** (fix "unit matching inside a derived quantity scales units that have an offset"):
inside a derived operand a unit with an offset is scaled, not shifted: (10 degC·m) + (1 m·K) = 11 degC·m
(it was −262.15 degC·m), and the other order gives 11 m·K -/
theorem add_derived_affine_scaled :
    opSame poscDb .add qDegCm qmK 10 1 = .ok (qDegCm, 11)
    ∧ opSame poscDb .add qmK qDegCm 1 10 = .ok (qmK, 11) := by
  refine ⟨by decide +kernel, by decide +kernel⟩

end Barril.Alg
