/-
Helper lemmas for C13 (model `Barril/Model/Heap.lean`): a small Hoare logic for the effect monad `M`.

`Frame n s s'`  : going from `s` to `s'` no cell below address `n` was written, the heap only grew, and the
                  tables of quantities and pool objects only got new entries at the end.
`Safe n m Q`    : from every state whose heap has at least `n` cells, a successful run of `m` is a `Frame n`
                  step and its result satisfies `Q` (used to carry "this reference is ≥ n", i.e. fresh).
Every function of the model is proved `Safe`; the only side conditions are at `writeM`, where the written
reference must be shown to be ≥ n: a reference returned by `allocM` or taken from a list of such references.
-/
import Barril.Model.Heap

namespace Barril.Heap
open Barril

structure Frame (n : Nat) (s s' : St) : Prop where
  len : s.heap.length ≤ s'.heap.length
  cells : ∀ r, r < n → s'.heap[r]? = s.heap[r]?
  quants : ∃ t, s'.quants = s.quants ++ t
  objs : ∃ t, s'.objs = s.objs ++ t

theorem Frame.refl (n : Nat) (s : St) : Frame n s s :=
  ⟨Nat.le_refl _, fun _ _ => rfl, ⟨[], by simp⟩, ⟨[], by simp⟩⟩

theorem Frame.trans {n : Nat} {s s1 s2 : St} (a : Frame n s s1) (b : Frame n s1 s2) : Frame n s s2 := by
  refine ⟨Nat.le_trans a.len b.len, fun r hr => (b.cells r hr).trans (a.cells r hr), ?_, ?_⟩
  · obtain ⟨t1, h1⟩ := a.quants; obtain ⟨t2, h2⟩ := b.quants
    exact ⟨t1 ++ t2, by rw [h2, h1, List.append_assoc]⟩
  · obtain ⟨t1, h1⟩ := a.objs; obtain ⟨t2, h2⟩ := b.objs
    exact ⟨t1 ++ t2, by rw [h2, h1, List.append_assoc]⟩

structure Safe {α : Type} (n : Nat) (m : M α) (Q : α → Prop) : Prop where
  run : ∀ s a s', n ≤ s.heap.length → m s = .ok (a, s') → Frame n s s' ∧ Q a

theorem Safe.pure {α : Type} {n : Nat} {a : α} {Q : α → Prop} (h : Q a) : Safe n (Pure.pure a : M α) Q := by
  constructor
  intro s a' s' _ hm
  have : (Except.ok (a, s) : Except ErrKind (α × St)) = .ok (a', s') := hm
  cases this
  exact ⟨Frame.refl _ _, h⟩

theorem Safe.bind {α β : Type} {n : Nat} {m : M α} {f : α → M β} {Q : α → Prop} {R : β → Prop}
    (hm : Safe n m Q) (hf : ∀ a, Q a → Safe n (f a) R) : Safe n (m >>= f) R := by
  constructor
  intro s b s2 hn h
  have h' : (match m s with
      | .ok (a, s') => f a s'
      | .error e => .error e) = .ok (b, s2) := h
  cases hms : m s with
  | error e => rw [hms] at h'; cases h'
  | ok p =>
    obtain ⟨a, s1⟩ := p
    rw [hms] at h'
    have h1 := hm.run s a s1 hn hms
    have h2 := (hf a h1.2).run s1 b s2 (Nat.le_trans hn h1.1.len) h'
    exact ⟨h1.1.trans h2.1, h2.2⟩

theorem Safe.weaken {α : Type} {n : Nat} {m : M α} {Q Q' : α → Prop} (h : Safe n m Q) (hq : ∀ a, Q a → Q' a) :
    Safe n m Q' := ⟨fun s a s' hn hm => ⟨(h.run s a s' hn hm).1, hq a (h.run s a s' hn hm).2⟩⟩

theorem Safe.fail {α : Type} {n : Nat} {e : ErrKind} {Q : α → Prop} : Safe n (failM e : M α) Q := by
  constructor
  intro s a s' _ hm
  cases hm

theorem Safe.liftE {α : Type} {n : Nat} {x : Except ErrKind α} : Safe n (liftE x) (fun _ => True) := by
  constructor
  intro s a s' _ hm
  unfold Heap.liftE at hm
  cases x with
  | error e => cases hm
  | ok v => cases hm; exact ⟨Frame.refl _ _, trivial⟩

theorem Safe.allocM {n : Nat} {c : Cell} : Safe n (allocM c) (fun r => n ≤ r) := by
  constructor
  intro s a s' hn hm
  unfold Heap.allocM at hm
  cases hm
  refine ⟨⟨by simp, fun r hr => ?_, ⟨[], by simp⟩, ⟨[], by simp⟩⟩, hn⟩
  have : r < s.heap.length := Nat.lt_of_lt_of_le hr hn
  simp [List.getElem?_append_left this]

theorem Safe.writeM {n : Nat} {r : Ref} {c : Cell} (h : n ≤ r) : Safe n (writeM r c) (fun _ => True) := by
  constructor
  intro s a s' _ hm
  unfold Heap.writeM at hm
  split at hm
  · cases hm
    refine ⟨⟨by simp, fun r' hr' => ?_, ⟨[], by simp⟩, ⟨[], by simp⟩⟩, trivial⟩
    have : r ≠ r' := Nat.ne_of_gt (Nat.lt_of_lt_of_le hr' h)
    simp [List.getElem?_set_ne this]
  · cases hm

theorem Safe.readM {n : Nat} {r : Ref} : Safe n (readM r) (fun _ => True) := by
  constructor
  intro s a s' _ hm
  unfold Heap.readM at hm
  split at hm
  · cases hm; exact ⟨Frame.refl _ _, trivial⟩
  · cases hm

theorem Safe.getQ {n : Nat} {q : Nat} : Safe n (getQ q) (fun _ => True) := by
  constructor
  intro s a s' _ hm
  unfold Heap.getQ at hm
  split at hm
  · cases hm; exact ⟨Frame.refl _ _, trivial⟩
  · cases hm

theorem Safe.getObj {n : Nat} {i : Nat} : Safe n (getObj i) (fun _ => True) := by
  constructor
  intro s a s' _ hm
  unfold Heap.getObj at hm
  split at hm
  · cases hm; exact ⟨Frame.refl _ _, trivial⟩
  · cases hm

theorem Safe.newQuant {n : Nat} {o : QObj} : Safe n (newQuant o) (fun _ => True) := by
  constructor
  intro s a s' _ hm
  cases hm
  exact ⟨⟨Nat.le_refl _, fun _ _ => rfl, ⟨[o], rfl⟩, ⟨[], by simp⟩⟩, trivial⟩

theorem Safe.newObj {n : Nat} {o : Obj} : Safe n (newObj o) (fun _ => True) := by
  constructor
  intro s a s' _ hm
  cases hm
  exact ⟨⟨Nat.le_refl _, fun _ _ => rfl, ⟨[], by simp⟩, ⟨[o], rfl⟩⟩, trivial⟩

theorem Safe.cacheGet {n : Nat} {k : QKey} : Safe n (cacheGet k) (fun _ => True) := by
  constructor
  intro s a s' _ hm
  cases hm
  exact ⟨Frame.refl _ _, trivial⟩

theorem Safe.cachePut {n : Nat} {k : QKey} {q : Nat} : Safe n (cachePut k q) (fun _ => True) := by
  constructor
  intro s a s' _ hm
  cases hm
  exact ⟨⟨Nat.le_refl _, fun _ _ => rfl, ⟨[], by simp⟩, ⟨[], by simp⟩⟩, trivial⟩

theorem Safe.memoGet {n : Nat} {i : Nat} : Safe n (memoGet i) (fun _ => True) := by
  constructor
  intro s a s' _ hm
  cases hm
  exact ⟨Frame.refl _ _, trivial⟩

theorem Safe.memoPut {n : Nat} {i : Nat} {v : Option ErrKind} : Safe n (memoPut i v) (fun _ => True) := by
  constructor
  intro s a s' _ hm
  cases hm
  exact ⟨⟨Nat.le_refl _, fun _ _ => rfl, ⟨[], by simp⟩, ⟨[], by simp⟩⟩, trivial⟩

/-- one step of a `Safe` proof: a leaf, or a bind whose first part is a leaf -/
macro "sleaf" : tactic => `(tactic| first
  | exact Safe.pure trivial
  | exact Safe.fail
  | exact Safe.liftE
  | exact Safe.readM
  | exact Safe.getQ
  | exact Safe.getObj
  | exact Safe.newQuant
  | exact Safe.newObj
  | exact Safe.cacheGet
  | exact Safe.cachePut
  | exact Safe.memoGet
  | exact Safe.memoPut
  | exact Safe.allocM
  | exact Safe.writeM (by assumption)
  | assumption)

macro "sbind" : tactic => `(tactic| first | apply Safe.bind Safe.allocM | apply Safe.bind (Q := fun _ => True))

/-- discharge `Safe n m (fun _ => True)` for straight-line code built from already proved pieces -/
macro "sauto" : tactic => `(tactic| repeat' (first | sleaf | (intro _ _) | sbind | split | (dsimp only)))

theorem Safe.readPair {n : Nat} {r : Ref} : Safe n (readPair r) (fun _ => True) := by
  unfold Heap.readPair; sauto
macro_rules | `(tactic| sleaf) => `(tactic| exact Safe.readPair)

theorem Safe.readSeq {n : Nat} {r : Ref} : Safe n (readSeq r) (fun _ => True) := by
  unfold Heap.readSeq; sauto
macro_rules | `(tactic| sleaf) => `(tactic| exact Safe.readSeq)

theorem Safe.readFrac {n : Nat} {r : Ref} : Safe n (readFrac r) (fun _ => True) := by
  unfold Heap.readFrac; sauto
macro_rules | `(tactic| sleaf) => `(tactic| exact Safe.readFrac)

theorem Safe.readFv {n : Nat} {r : Ref} : Safe n (readFv r) (fun _ => True) := by
  unfold Heap.readFv; sauto
macro_rules | `(tactic| sleaf) => `(tactic| exact Safe.readFv)

/-! ### quantities -/

theorem readItems_safe {n : Nat} (es : List (Sym × Ref)) : Safe n (readItems es) (fun _ => True) := by
  induction es with
  | nil => unfold readItems; sauto
  | cons e es ih => obtain ⟨c, r⟩ := e; unfold readItems; sauto
macro_rules | `(tactic| sleaf) => `(tactic| exact readItems_safe _)

theorem qEq_safe {n a b : Nat} : Safe n (qEq a b) (fun _ => True) := by
  unfold qEq; sauto
macro_rules | `(tactic| sleaf) => `(tactic| exact qEq_safe)

/-- every reference of a list of `(category, reference)` pairs is fresh with respect to `n` -/
def FreshRefs (n : Nat) (es : List (Sym × Ref)) : Prop := ∀ e ∈ es, n ≤ e.2

theorem FreshRefs.nil {n : Nat} : FreshRefs n [] := fun _ h => by cases h

theorem FreshRefs.cons {n : Nat} {c : Sym} {r : Ref} {es : List (Sym × Ref)} (hr : n ≤ r) (h : FreshRefs n es) :
    FreshRefs n ((c, r) :: es) := by
  intro e he
  cases he with
  | head => exact hr
  | tail _ h' => exact h e h'

theorem FreshRefs.tail {n : Nat} {e : Sym × Ref} {es : List (Sym × Ref)} (h : FreshRefs n (e :: es)) :
    FreshRefs n es := fun x hx => h x (List.mem_cons_of_mem _ hx)

theorem FreshRefs.head {n : Nat} {c : Sym} {r : Ref} {es : List (Sym × Ref)} (h : FreshRefs n ((c, r) :: es)) :
    n ≤ r := h (c, r) (List.mem_cons_self)

theorem FreshRefs.append {n : Nat} {es : List (Sym × Ref)} {c : Sym} {r : Ref} (h : FreshRefs n es) (hr : n ≤ r) :
    FreshRefs n (es ++ [(c, r)]) := by
  intro e he
  rcases List.mem_append.mp he with h1 | h1
  · exact h e h1
  · simp at h1; subst h1; exact hr

/-- the copy of a dict refers to new `[unit, exp]` lists only -/
theorem copyPairs_safe {n : Nat} (es : List (Sym × Ref)) : Safe n (copyPairs es) (FreshRefs n) := by
  induction es with
  | nil => unfold copyPairs; exact Safe.pure FreshRefs.nil
  | cons e es ih =>
    obtain ⟨c, r⟩ := e
    unfold copyPairs
    apply Safe.bind Safe.readPair; intro p _
    apply Safe.bind Safe.allocM; intro r' hr'
    apply Safe.bind ih; intro es' hes'
    exact Safe.pure (FreshRefs.cons hr' hes')

macro_rules | `(tactic| sleaf) => `(tactic| exact (copyPairs_safe _).weaken (fun _ _ => trivial))

theorem newSimpleQuantity_safe {n : Nat} {db : Db} {cat unit caption : Sym} :
    Safe n (newSimpleQuantity db cat unit caption) (fun _ => True) := by
  unfold newSimpleQuantity; sauto
macro_rules | `(tactic| sleaf) => `(tactic| exact newSimpleQuantity_safe)

theorem obtainSimple_safe {n : Nat} {db : Db} {unit cat caption : Sym} :
    Safe n (obtainSimple db unit cat caption) (fun _ => True) := by
  unfold obtainSimple; sauto
macro_rules | `(tactic| sleaf) => `(tactic| exact obtainSimple_safe)

theorem obtainDict_safe {n : Nat} {db : Db} {es : List (Sym × Ref)} {caption : Sym} :
    Safe n (obtainDict db es caption) (fun _ => True) := by
  unfold obtainDict; sauto
macro_rules | `(tactic| sleaf) => `(tactic| exact obtainDict_safe)

theorem emptyQuantity_safe {n : Nat} {db : Db} : Safe n (emptyQuantity db) (fun _ => True) := obtainDict_safe
macro_rules | `(tactic| sleaf) => `(tactic| exact emptyQuantity_safe)

theorem createDerived_safe {n : Nat} {db : Db} {es : List (Sym × Ref)} {v : Bool} {caption : Sym} :
    Safe n (createDerived db es v caption) (fun _ => True) := by
  unfold createDerived; sauto
macro_rules | `(tactic| sleaf) => `(tactic| exact createDerived_safe)

/-! ### the arithmetic routines: the in-place edits go to fresh lists only -/

theorem matchLoop_safe {n : Nat} {db : Db} {d : Bool} (es : List (Sym × Ref)) (hes : FreshRefs n es)
    (found : List (Sym × Sym)) (v : Val) : Safe n (matchLoop db d es found v) (fun _ => True) := by
  induction es generalizing found v with
  | nil => unfold matchLoop; sauto
  | cons e es ih =>
    obtain ⟨c, r⟩ := e
    have hr : n ≤ r := hes.head
    have ih' := fun found v => ih hes.tail found v
    unfold matchLoop
    apply Safe.bind Safe.readPair; intro p _
    apply Safe.bind Safe.liftE; intro qt _
    split
    · exact ih' _ _
    · apply Safe.bind Safe.liftE; intro v' _
      apply Safe.bind (Safe.writeM hr); intro _ _
      exact ih' _ _

theorem matchQuantities_safe {n : Nat} {db : Db} {es1 es2 : List (Sym × Ref)} (h1 : FreshRefs n es1)
    (h2 : FreshRefs n es2) {v1 v2 : Val} : Safe n (matchQuantities db es1 es2 v1 v2) (fun _ => True) := by
  unfold matchQuantities
  apply Safe.bind (matchLoop_safe es1 h1 _ _); intro r1 _
  apply Safe.bind (matchLoop_safe es2 h2 _ _); intro r2 _
  exact Safe.pure trivial

theorem joinedOf_safe {n q : Nat} : Safe n (joinedOf q) (fun _ => True) := by
  unfold joinedOf; sauto
macro_rules | `(tactic| sleaf) => `(tactic| exact joinedOf_safe)

theorem opSame_safe {n : Nat} {db : Db} {f : BinOp} {q1 q2 : Nat} {v1 v2 : Val} :
    Safe n (opSame db f q1 q2 v1 v2) (fun _ => True) := by
  unfold opSame
  apply Safe.bind qEq_safe; intro b _
  split
  · sauto
  · apply Safe.bind Safe.getQ; intro o1 _
    apply Safe.bind Safe.getQ; intro o2 _
    apply Safe.bind (copyPairs_safe _); intro es1 h1
    apply Safe.bind (copyPairs_safe _); intro es2 h2
    apply Safe.bind (matchQuantities_safe h1 h2); intro vs _
    sauto

theorem mergeLoop_safe {n : Nat} {f : BinOp} (es2 : List (Sym × Ref)) (es1 : List (Sym × Ref))
    (h1 : FreshRefs n es1) : Safe n (mergeLoop f es2 es1) (FreshRefs n) := by
  induction es2 generalizing es1 with
  | nil => unfold mergeLoop; exact Safe.pure h1
  | cons e es2 ih =>
    obtain ⟨c2, r2⟩ := e
    unfold mergeLoop
    apply Safe.bind Safe.readPair; intro p2 _
    split
    · apply Safe.bind Safe.allocM; intro r hr
      exact ih _ (h1.append hr)
    · rename_i r1 hlook
      have hr1 : n ≤ r1 := by
        have hmem : ∀ (l : List (Sym × Ref)), lookupS c2 l = some r1 → ∃ c, (c, r1) ∈ l := by
          intro l
          induction l with
          | nil => intro h; simp [lookupS] at h
          | cons x l ihl =>
            obtain ⟨a, b⟩ := x
            intro h
            unfold lookupS at h
            split at h
            · cases h; exact ⟨a, List.mem_cons_self⟩
            · obtain ⟨c, hc⟩ := ihl h; exact ⟨c, List.mem_cons_of_mem _ hc⟩
        obtain ⟨c, hc⟩ := hmem es1 hlook
        exact h1 (c, r1) hc
      apply Safe.bind Safe.readPair; intro p1 _
      split
      · apply Safe.bind (Safe.writeM hr1); intro _ _
        exact ih _ h1
      · exact Safe.fail

theorem dropZero_safe {n : Nat} {tot : List (Sym × Int)} (es : List (Sym × Ref)) :
    Safe n (dropZero tot es) (fun _ => True) := by
  induction es with
  | nil => unfold dropZero; sauto
  | cons e es ih => obtain ⟨c, r⟩ := e; unfold dropZero; sauto
macro_rules | `(tactic| sleaf) => `(tactic| exact dropZero_safe _)

theorem opNew_safe {n : Nat} {db : Db} {f : BinOp} {q1 q2 : Nat} {v1 v2 : Val} :
    Safe n (opNew db f q1 q2 v1 v2) (fun _ => True) := by
  unfold opNew
  apply Safe.bind Safe.getQ; intro o1 _
  apply Safe.bind Safe.getQ; intro o2 _
  apply Safe.bind (copyPairs_safe _); intro es1 h1
  apply Safe.bind (copyPairs_safe _); intro es2 h2
  apply Safe.bind (matchQuantities_safe h1 h2); intro vs _
  apply Safe.bind (mergeLoop_safe es2 es1 h1); intro es _
  sauto

theorem opFunc_safe {n : Nat} {db : Db} {f : BinOp} {q1 q2 : Nat} {v1 v2 : Val} :
    Safe n (opFunc db f q1 q2 v1 v2) (fun _ => True) := by
  unfold opFunc
  cases f <;> first | exact opSame_safe | exact opNew_safe
macro_rules | `(tactic| sleaf) => `(tactic| exact opFunc_safe)

/-! ### value objects -/

theorem mkFixedWith_safe {n : Nat} {dim : Option Nat} {q : Nat} {c : Ref} : Safe n (mkFixedWith dim q c) (fun _ => True) := by
  unfold mkFixedWith; sauto
macro_rules | `(tactic| sleaf) => `(tactic| exact mkFixedWith_safe)

theorem mkArrayLike_safe {n : Nat} {cls : Cls} {dim : Option Nat} {q : Nat} {c : Ref} :
    Safe n (mkArrayLike cls dim q c) (fun _ => True) := by
  unfold mkArrayLike; cases cls <;> sauto
macro_rules | `(tactic| sleaf) => `(tactic| exact mkArrayLike_safe)

theorem scalarOp_safe {n : Nat} {db : Db} {f : BinOp} {q1 q2 : Nat} {x y : Rat} : Safe n (scalarOp db f q1 x q2 y) (fun _ => True) := by
  unfold scalarOp; sauto
macro_rules | `(tactic| sleaf) => `(tactic| exact scalarOp_safe)

theorem scalarNumR_safe {n : Nat} {f : BinOp} {q : Nat} {x k : Rat} : Safe n (scalarNumR f q x k) (fun _ => True) := by
  unfold scalarNumR; sauto
macro_rules | `(tactic| sleaf) => `(tactic| exact scalarNumR_safe)

theorem scalarNumL_safe {n : Nat} {db : Db} {f : BinOp} {q : Nat} {x k : Rat} : Safe n (scalarNumL db f k q x) (fun _ => True) := by
  unfold scalarNumL; sauto
macro_rules | `(tactic| sleaf) => `(tactic| exact scalarNumL_safe)

theorem powLoop_safe {n : Nat} {db : Db} {q0 : Nat} {x0 : Rat} (k : Nat) (q : Nat) (x : Rat) :
    Safe n (powLoop db q0 x0 k q x) (fun _ => True) := by
  induction k generalizing q x with
  | zero => unfold powLoop; sauto
  | succ k ih =>
    unfold powLoop
    apply Safe.bind opFunc_safe; intro r _
    apply Safe.bind Safe.liftE; intro z _
    exact ih _ _
macro_rules | `(tactic| sleaf) => `(tactic| exact powLoop_safe _ _ _)

theorem scalarPow_safe {n : Nat} {db : Db} {i : Nat} {e : Int} : Safe n (scalarPow db i e) (fun _ => True) := by
  unfold scalarPow; sauto
macro_rules | `(tactic| sleaf) => `(tactic| exact scalarPow_safe)

theorem elemLoop_safe {n : Nat} {db : Db} {f : BinOp} {q1 q2 : Nat} (ps : List (Rat × Rat)) (q : Nat) :
    Safe n (elemLoop db f q1 q2 ps q) (fun _ => True) := by
  induction ps generalizing q with
  | nil => unfold elemLoop; sauto
  | cons p ps ih =>
    obtain ⟨x, y⟩ := p
    unfold elemLoop
    apply Safe.bind opFunc_safe; intro r _
    apply Safe.bind Safe.liftE; intro z _
    apply Safe.bind (ih _); intro t _
    exact Safe.pure trivial
macro_rules | `(tactic| sleaf) => `(tactic| exact elemLoop_safe _ _)

theorem arrayOp_safe {n : Nat} {db : Db} {f : BinOp} {cls : Cls} {q1 q2 : Nat} {v1 v2 : Val} :
    Safe n (arrayOp db f cls q1 q2 v1 v2) (fun _ => True) := by
  unfold arrayOp
  apply Safe.bind Safe.liftE; intro _ _
  split
  · apply Safe.bind opFunc_safe; intro r _
    split
    · apply Safe.bind Safe.allocM; intro c _
      exact mkArrayLike_safe
    · exact Safe.fail
  · apply Safe.bind opFunc_safe; intro r0 _
    apply Safe.bind Safe.liftE; intro ps _
    apply Safe.bind (elemLoop_safe _ _); intro t _
    apply Safe.bind Safe.allocM; intro c _
    exact mkArrayLike_safe
macro_rules | `(tactic| sleaf) => `(tactic| exact arrayOp_safe)

theorem valuesOf_safe {n : Nat} {o : Obj} : Safe n (valuesOf o) (fun _ => True) := by
  unfold valuesOf; sauto
macro_rules | `(tactic| sleaf) => `(tactic| exact valuesOf_safe)

theorem arith_safe {n : Nat} {db : Db} {f : BinOp} {a b : Operand} : Safe n (arith db f a b) (fun _ => True) := by
  unfold arith; sauto
macro_rules | `(tactic| sleaf) => `(tactic| exact arith_safe)

/-- `ConvertFractionValue` writes the numerator of the COPY and the fraction of the NEW FractionValue -/
theorem convertFractionValue_safe {n : Nat} {db : Db} {fvr : Ref} {q : Nat} {toU : Sym} :
    Safe n (convertFractionValue db fvr q toU) (fun r => n ≤ r) := by
  unfold convertFractionValue
  apply Safe.bind Safe.readFv; intro fvc _
  apply Safe.bind Safe.getQ; intro o _
  apply Safe.bind (Q := fun _ => True)
  · sauto
  intro cq _
  apply Safe.bind Safe.getQ; intro co _
  apply Safe.bind Safe.liftE; intro n' _
  apply Safe.bind Safe.allocM; intro f0 _
  apply Safe.bind Safe.allocM; intro res hres
  apply Safe.bind Safe.readFrac; intro x _
  apply Safe.bind Safe.liftE; intro a _
  apply Safe.bind Safe.liftE; intro b _
  apply Safe.bind Safe.allocM; intro cf hcf
  apply Safe.bind (Safe.writeM hcf); intro _ _
  apply Safe.bind (Safe.writeM hres); intro _ _
  exact Safe.pure hres
macro_rules | `(tactic| sleaf) => `(tactic| exact convertFractionValue_safe.weaken (fun _ _ => trivial))

theorem fvFloat_safe {n : Nat} {r : Ref} : Safe n (fvFloat r) (fun _ => True) := by
  unfold fvFloat; sauto
macro_rules | `(tactic| sleaf) => `(tactic| exact fvFloat_safe)

theorem arrayValues_safe {n : Nat} {db : Db} {q : Nat} {c : Ref} {unit : Option Sym} : Safe n (arrayValues db q c unit) (fun _ => True) := by
  unfold arrayValues; sauto
macro_rules | `(tactic| sleaf) => `(tactic| exact arrayValues_safe)

theorem getValue_safe {n : Nat} {db : Db} {i : Nat} {unit : Option Sym} : Safe n (getValue db i unit) (fun _ => True) := by
  unfold getValue; sauto
macro_rules | `(tactic| sleaf) => `(tactic| exact getValue_safe)

theorem copyQuantity_safe {n : Nat} {db : Db} {q : Nat} {unit cat : Option Sym} : Safe n (copyQuantity db q unit cat) (fun _ => True) := by
  unfold copyQuantity; sauto
macro_rules | `(tactic| sleaf) => `(tactic| exact copyQuantity_safe)

theorem createCopy_safe {n : Nat} {db : Db} {i : Nat} {unit cat : Option Sym} : Safe n (createCopy db i unit cat) (fun _ => True) := by
  unfold createCopy; sauto
macro_rules | `(tactic| sleaf) => `(tactic| exact createCopy_safe)

theorem pickleQuantity_safe {n : Nat} {db : Db} {q : Nat} : Safe n (pickleQuantity db q) (fun _ => True) := by
  unfold pickleQuantity; sauto
macro_rules | `(tactic| sleaf) => `(tactic| exact pickleQuantity_safe)

theorem pickleObj_safe {n : Nat} {db : Db} {i : Nat} : Safe n (pickleObj db i) (fun _ => True) := by
  unfold pickleObj; sauto
macro_rules | `(tactic| sleaf) => `(tactic| exact pickleObj_safe)

theorem objEq_safe {n : Nat} {i j : Nat} : Safe n (objEq i j) (fun _ => True) := by
  unfold objEq; sauto
macro_rules | `(tactic| sleaf) => `(tactic| exact objEq_safe)

theorem objLt_safe {n : Nat} {db : Db} {i j : Nat} : Safe n (objLt db i j) (fun _ => True) := by
  unfold objLt; sauto
macro_rules | `(tactic| sleaf) => `(tactic| exact objLt_safe)

theorem validateArray_safe {n : Nat} {db : Db} {i : Nat} {o : QObj} {c : Ref} :
    Safe n (validateArray db i o c) (fun _ => True) := by
  unfold validateArray; sauto
macro_rules | `(tactic| sleaf) => `(tactic| exact validateArray_safe)

macro_rules | `(tactic| sleaf) => `(tactic| exact Safe.allocM.weaken (fun _ _ => trivial))

theorem validateWith_safe {n : Nat} {db : Db} {i : Nat} {vals : ValSrc} {qsrc : Option Nat} :
    Safe n (validateWith db i vals qsrc) (fun _ => True) := by
  unfold validateWith; sauto
macro_rules | `(tactic| sleaf) => `(tactic| exact validateWith_safe)

theorem checkValidityE_safe {n : Nat} {db : Db} {i : Nat} : Safe n (checkValidityE db i) (fun _ => True) := by
  unfold checkValidityE; sauto
macro_rules | `(tactic| sleaf) => `(tactic| exact checkValidityE_safe)

theorem checkValidity_safe {n : Nat} {db : Db} {i : Nat} : Safe n (checkValidity db i) (fun _ => True) := by
  unfold checkValidity; sauto
macro_rules | `(tactic| sleaf) => `(tactic| exact checkValidity_safe)

theorem isValid_safe {n : Nat} {db : Db} {i : Nat} : Safe n (isValid db i) (fun _ => True) := by
  unfold isValid; sauto
macro_rules | `(tactic| sleaf) => `(tactic| exact isValid_safe)

/-- a container handed out by `GetValues(unit)` that is not the Array's own one is a NEW cell -/
theorem arrayValues_fresh {n : Nat} {db : Db} {q : Nat} {c : Ref} {unit : Option Sym} :
    Safe n (arrayValues db q c unit) (fun r => r.2 = false → n ≤ r.1) := by
  unfold arrayValues
  apply Safe.bind Safe.getQ; intro o _
  split
  · exact Safe.pure (fun h => by cases h)
  · split
    · exact Safe.pure (fun h => by cases h)
    · apply Safe.bind Safe.readSeq; intro s _
      apply Safe.bind Safe.liftE; intro v _
      split
      · split
        · exact Safe.pure (fun h => by cases h)
        · apply Safe.bind Safe.allocM; intro c' hc'
          exact Safe.pure (fun _ => hc')
      · exact Safe.fail

/-- the caller's writes go into the container it was handed, which is a new cell -/
theorem getValuesAndScribble_safe {n : Nat} {db : Db} {i : Nat} {unit : Option Sym} {how : Scribble} :
    Safe n (getValuesAndScribble db i unit how) (fun _ => True) := by
  unfold getValuesAndScribble
  apply Safe.bind Safe.getObj; intro o _
  split
  · apply Safe.bind arrayValues_fresh; intro r hr
    apply Safe.bind Safe.readSeq; intro s _
    split
    · exact Safe.pure trivial
    · rename_i hne
      have hf : r.2 = false := by cases h : r.2 <;> simp_all
      apply Safe.bind (Safe.writeM (hr hf)); intro _ _
      exact Safe.pure trivial
  · apply Safe.bind arrayValues_fresh; intro r hr
    apply Safe.bind Safe.readSeq; intro s _
    split
    · exact Safe.pure trivial
    · rename_i hne
      have hf : r.2 = false := by cases h : r.2 <;> simp_all
      apply Safe.bind (Safe.writeM (hr hf)); intro _ _
      exact Safe.pure trivial
  · exact Safe.fail
macro_rules | `(tactic| sleaf) => `(tactic| exact getValuesAndScribble_safe)

theorem format_safe {n : Nat} {i : Nat} : Safe n (format i) (fun _ => True) := by
  unfold format; sauto
macro_rules | `(tactic| sleaf) => `(tactic| exact format_safe)

/-- `ChangingIndex` writes into the list it has just made (`values = list(...)`) -/
theorem changingIndex_safe {n : Nat} {db : Db} {i : Nat} {idx : Int} {value : Operand} {u : Bool} :
    Safe n (changingIndex db i idx value u) (fun _ => True) := by
  unfold changingIndex
  apply Safe.bind Safe.getObj; intro o _
  split
  · apply Safe.bind (Q := fun _ => True)
    · sauto
    intro sc _
    apply Safe.bind Safe.getQ; intro oq _
    apply Safe.bind arrayValues_safe; intro vals _
    apply Safe.bind Safe.readSeq; intro s _
    apply Safe.bind Safe.allocM; intro l hl
    apply Safe.bind Safe.getQ; intro os _
    apply Safe.bind Safe.liftE; intro y _
    apply Safe.bind Safe.liftE; intro k _
    apply Safe.bind (Safe.writeM hl); intro _ _
    sauto
  · exact Safe.fail
macro_rules | `(tactic| sleaf) => `(tactic| exact changingIndex_safe)

theorem indexAsScalar_safe {n : Nat} {db : Db} {i : Nat} {idx : Int} : Safe n (indexAsScalar db i idx) (fun _ => True) := by
  unfold indexAsScalar; sauto
macro_rules | `(tactic| sleaf) => `(tactic| exact indexAsScalar_safe)

theorem mkScalar_safe {n : Nat} {db : Db} {v : Rat} {unit cat : Sym} : Safe n (mkScalar db v unit cat) (fun _ => True) := by
  unfold mkScalar; sauto
macro_rules | `(tactic| sleaf) => `(tactic| exact mkScalar_safe)

theorem mkEmptyScalar_safe {n : Nat} {db : Db} {v : Rat} : Safe n (mkEmptyScalar db v) (fun _ => True) := by
  unfold mkEmptyScalar; sauto
macro_rules | `(tactic| sleaf) => `(tactic| exact mkEmptyScalar_safe)

theorem mkCaptionScalar_safe {n : Nat} {db : Db} {v : Rat} {unit caption : Sym} : Safe n (mkCaptionScalar db v unit caption) (fun _ => True) := by
  unfold mkCaptionScalar; sauto
macro_rules | `(tactic| sleaf) => `(tactic| exact mkCaptionScalar_safe)

theorem mkArray_safe {n : Nat} {db : Db} {k : Kind} {xs : List Rat} {unit cat : Sym} : Safe n (mkArray db k xs unit cat) (fun _ => True) := by
  unfold mkArray; sauto
macro_rules | `(tactic| sleaf) => `(tactic| exact mkArray_safe)

theorem mkArrayFrom_safe {n : Nat} {db : Db} {i : Nat} {unit cat : Sym} : Safe n (mkArrayFrom db i unit cat) (fun _ => True) := by
  unfold mkArrayFrom; sauto
macro_rules | `(tactic| sleaf) => `(tactic| exact mkArrayFrom_safe)

theorem mkEmptyArray_safe {n : Nat} {db : Db} {k : Kind} {xs : List Rat} : Safe n (mkEmptyArray db k xs) (fun _ => True) := by
  unfold mkEmptyArray; sauto
macro_rules | `(tactic| sleaf) => `(tactic| exact mkEmptyArray_safe)

theorem mkFixed_safe {n : Nat} {db : Db} {dim : Nat} {k : Kind} {xs : List Rat} {unit cat : Sym} : Safe n (mkFixed db dim k xs unit cat) (fun _ => True) := by
  unfold mkFixed; sauto
macro_rules | `(tactic| sleaf) => `(tactic| exact mkFixed_safe)

theorem mkFScalar_safe {n : Nat} {db : Db} {number : Rat} {num : Int} {den : Nat} {unit cat : Sym} : Safe n (mkFScalar db number num den unit cat) (fun _ => True) := by
  unfold mkFScalar; sauto
macro_rules | `(tactic| sleaf) => `(tactic| exact mkFScalar_safe)

theorem allocPairs_safe {n : Nat} (items : List (Sym × Sym × Int)) : Safe n (allocPairs items) (fun _ => True) := by
  induction items with
  | nil => unfold allocPairs; sauto
  | cons e rest ih => obtain ⟨c, u, x⟩ := e; unfold allocPairs; sauto
macro_rules | `(tactic| sleaf) => `(tactic| exact allocPairs_safe _)

theorem mkDerived_safe {n : Nat} {db : Db} {cls : Cls} {items : List (Sym × Sym × Int)} {v : Rat} {k : Kind}
    {xs : List Rat} : Safe n (mkDerived db cls items v k xs) (fun _ => True) := by
  unfold mkDerived; sauto
macro_rules | `(tactic| sleaf) => `(tactic| exact mkDerived_safe)

theorem fresh_safe {n : Nat} {m : M Nat} (h : Safe n m (fun _ => True)) : Safe n (fresh m) (fun _ => True) := by
  unfold fresh; sauto

/-- every public operation of the model is a frame step -/
theorem exec_safe {n : Nat} (db : Db) (op : Op) : Safe n (exec db op) (fun _ => True) := by
  cases op <;> unfold exec <;> first | (apply fresh_safe; sleaf) | sauto

end Barril.Heap
