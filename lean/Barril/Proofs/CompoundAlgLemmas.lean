/-
Link between C06 (`Model/Compound.lean`) and the arithmetic engine (`Model/Alg.lean`, C03/C04): the
product of the parts' factors that the C06 rule compares a named unit with IS the base magnitude
`Alg.mag` of the quantity whose composing units are those parts — the magnitude that, by C04's
`mul_mag` / `div_mag`, every product and quotient of Scalars in the component units has.
-/
import Barril.Proofs.CompoundLemmas
import Barril.Proofs.AlgLemmas

namespace Barril
open Barril.Alg

/-- the composing entries of one side of a reading (the category plays no role in the magnitude) -/
def sideEntries (sign : Int) (fs : List Factor) : List Entry :=
  fs.map (fun f => ⟨0, f.unit.sym, sign * (f.exp : Int)⟩)

/-- product of the decimal multipliers of one side (`100km`, `10bbl`) -/
def sidePre : List Factor → Rat
  | [] => 1
  | f :: fs => (f.pre : Rat) * sidePre fs

/-- a compact table that is tied to a unit table finds, for every symbol, the compact view of the row
the unit table finds (first match in both) -/
theorem lookL_eq_find {tbl : List CRow} {units : List UnitRow}
    (h : tbl.map CRow.core = units.map UnitRow.core) (s : Sym) :
    (lookL s tbl).map CRow.core = (units.find? (·.sym == s)).map UnitRow.core := by
  induction tbl generalizing units with
  | nil =>
    cases units with
    | nil => simp [lookL]
    | cons u us => simp at h
  | cons c cs ih =>
    cases units with
    | nil => simp at h
    | cons u us =>
      simp only [List.map_cons, List.cons.injEq] at h
      obtain ⟨hcu, hrest⟩ := h
      have hsym : c.sym = u.sym := by
        simp only [CRow.core, UnitRow.core, Prod.mk.injEq] at hcu; exact hcu.1
      unfold lookL
      by_cases hs : s = c.sym
      · have h1 : Nat.beq s c.sym = true := Nat.beq_true_iff.mpr hs
        have h2 : (u.sym == s) = true := by rw [← hsym, hs]; simp
        simp only [h1, List.find?_cons, h2, Option.map_some]
        rw [hcu]
      · have h1 : Nat.beq s c.sym = false := by
          cases hb : Nat.beq s c.sym with
          | true => exact absurd (Nat.beq_true_iff.mp hb) hs
          | false => rfl
        have h2 : (u.sym == s) = false := by
          rw [← hsym]; simp only [beq_eq_false_iff_ne, ne_eq]; exact fun e => hs e.symm
        simp only [h1, List.find?_cons, h2]
        exact ih hrest

/-- the factor of a looked-up row is the engine's `slope` of its symbol -/
theorem slope_of_lookL {db : Db} {tbl : List CRow} (h : tbl.map CRow.core = db.units.map UnitRow.core)
    {s : Sym} {c : CRow} (hl : lookL s tbl = some c) : Alg.slope db s = c.slope := by
  have := lookL_eq_find h s
  rw [hl] at this
  unfold Alg.slope Db.unitBySym
  cases hf : db.units.find? (·.sym == s) with
  | none => rw [hf] at this; simp at this
  | some r =>
    rw [hf] at this
    simp only [Option.map_some, Option.some.injEq, CRow.core, UnitRow.core, Prod.mk.injEq] at this
    simp only [rowSlope]
    exact this.2.2.2.1.symm

/-- every factor of the side was produced by a lookup of its own symbol -/
def SideLooked (look : Sym → Option CRow) (fs : List Factor) : Prop := ∀ f ∈ fs, look f.unit.sym = some f.unit

/-- numerator side: value = multipliers · Π slope^exp -/
theorem sideValue_eq_mag_pos {db : Db} (fs : List Factor) (h : ∀ f ∈ fs, Alg.slope db f.unit.sym = f.unit.slope) :
    (sideValue fs).1 = sidePre fs * Alg.mag db (sideEntries 1 fs) := by
  induction fs with
  | nil => simp [sideValue, sidePre, sideEntries, Alg.mag]
  | cons f fs ih =>
    have hf := h f List.mem_cons_self
    have ih' := ih (fun g hg => h g (List.mem_cons_of_mem _ hg))
    simp only [sideEntries, one_mul] at ih'
    simp only [sideValue, sidePre, sideEntries, List.map_cons, Alg.mag, one_mul]
    rw [ih', hf, zpow_natCast]
    ring

/-- denominator side: 1 / value = Π slope^(-exp) / multipliers -/
theorem sideValue_eq_mag_neg {db : Db} (fs : List Factor) (h : ∀ f ∈ fs, Alg.slope db f.unit.sym = f.unit.slope) :
    ((sideValue fs).1)⁻¹ = (sidePre fs)⁻¹ * Alg.mag db (sideEntries (-1) fs) := by
  induction fs with
  | nil => simp [sideValue, sidePre, sideEntries, Alg.mag]
  | cons f fs ih =>
    have hf := h f List.mem_cons_self
    have ih' := ih (fun g hg => h g (List.mem_cons_of_mem _ hg))
    simp only [sideEntries, neg_mul, one_mul] at ih'
    simp only [sideValue, sidePre, sideEntries, List.map_cons, Alg.mag, neg_mul, one_mul]
    rw [mul_inv, mul_inv, ih', hf, zpow_neg, zpow_natCast, mul_inv]
    ring

theorem mag_append (db : Db) (a b : List Entry) : Alg.mag db (a ++ b) = Alg.mag db a * Alg.mag db b := by
  induction a with
  | nil => simp [Alg.mag]
  | cons e es ih => simp only [List.cons_append, Alg.mag, ih]; ring

/-- **the expected factor of a compound reading is a base magnitude of the arithmetic engine**: the
multipliers times `Alg.mag` of the quantity whose composing units are the parts with their signed exponents -/
theorem expected_eq_mag {db : Db} {a b : List Factor} {e t : Rat}
    (ha : ∀ f ∈ a, Alg.slope db f.unit.sym = f.unit.slope) (hb : ∀ f ∈ b, Alg.slope db f.unit.sym = f.unit.slope)
    (h : expected (.compound a b) = some (e, t)) :
    e = sidePre a / sidePre b * Alg.mag db (sideEntries 1 a ++ sideEntries (-1) b) := by
  simp only [expected] at h
  split at h
  · cases h
  · simp only [Option.some.injEq, Prod.mk.injEq] at h
    rw [← h.1, mag_append, div_eq_mul_inv, sideValue_eq_mag_pos a ha, sideValue_eq_mag_neg b hb]
    ring

theorem Forall2.right_mem {α β : Type} {R : α → β → Prop} {l : List α} {r : List β} (h : Forall2 R l r) :
    ∀ b ∈ r, ∃ a ∈ l, R a b := by
  induction h with
  | nil => intro b hb; cases hb
  | cons hab _ ih =>
    intro b hb
    rcases List.mem_cons.mp hb with rfl | hb
    · exact ⟨_, List.mem_cons_self, hab⟩
    · obtain ⟨a, ha, hr⟩ := ih b hb
      exact ⟨a, List.mem_cons_of_mem _ ha, hr⟩

/-- every factor of a compound reading against a table is the row that table finds for the factor's own symbol -/
theorem reading_factors_looked {tbl : List CRow} {c : CRow} {a b : List Factor}
    (h : reading (fun s => lookL s tbl) c = some (.compound a b)) :
    ∀ f, f ∈ a ∨ f ∈ b → lookL f.unit.sym tbl = some f.unit := by
  have key : ∀ (txt : List Nat) (f : Factor), FactorText (fun s => lookL s tbl) txt f → lookL f.unit.sym tbl = some f.unit := by
    intro txt f ⟨_, stem, _, _, hl, _⟩
    have := (lookL_some hl).2
    rw [this]; exact hl
  have hd : decompose (fun s => lookL s tbl) (Sym.bytes c.sym) = some (a, b) := by
    unfold reading at h
    split at h
    · rename_i a' b' hd; cases h; exact hd
    · split at h <;> cases h
  intro f hf
  rcases decompose_text hd with ⟨n, d, _, _, _, _, fa, fb⟩ | ⟨_, hb, _, fa⟩
  · rcases hf with hf | hf
    · obtain ⟨txt, _, ht⟩ := Forall2.right_mem fa f hf; exact key txt f ht
    · obtain ⟨txt, _, ht⟩ := Forall2.right_mem fb f hf; exact key txt f ht
  · rcases hf with hf | hf
    · obtain ⟨txt, _, ht⟩ := Forall2.right_mem fa f hf; exact key txt f ht
    · rw [hb] at hf; cases hf

/-- what a simple Scalar `x [u]` amounts to in base units: `x · slope u` -/
theorem baseMag_simple (db : Db) (cat u cap : Sym) (x : Rat) :
    Alg.baseMag db ⟨[⟨cat, u, 1⟩], cap, false⟩ x = x * Alg.slope db u := by
  simp [Alg.baseMag, Alg.mag]

end Barril
