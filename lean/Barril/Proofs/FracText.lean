/-
Text lemmas for C18: decimal digits, `'%g'` of numbers with at most six significant digits, and
the regular-expression matcher of `CreateFromString` on formatted values.
-/
import Barril.Proofs.FracLemmas
import Mathlib.Tactic.NormNum
import Mathlib.Tactic.IntervalCases

namespace Barril.Frac

/-! ### digits -/

theorem digitChar_toNat (d : Nat) (h : d < 10) : (digitChar d).toNat = 48 + d := by
  unfold digitChar
  interval_cases d <;> rfl

theorem digitChar_isDigit (d : Nat) (h : d < 10) : isDigit (digitChar d) = true := by
  unfold isDigit
  rw [digitChar_toNat d h]
  simp; omega

theorem digitVal_digitChar (d : Nat) (h : d < 10) : digitVal (digitChar d) = d := by
  unfold digitVal
  rw [digitChar_toNat d h]; omega

theorem readDigits_foldl (acc : Nat) (cs : List Char) :
    cs.foldl (fun acc c => acc * 10 + digitVal c) acc = acc * 10 ^ cs.length + readDigits cs := by
  induction cs generalizing acc with
  | nil => simp [readDigits]
  | cons c cs ih =>
    simp only [List.foldl_cons, List.length_cons, readDigits]
    rw [ih, ih (0 * 10 + digitVal c)]
    ring

theorem readDigits_append (a b : List Char) :
    readDigits (a ++ b) = readDigits a * 10 ^ b.length + readDigits b := by
  unfold readDigits
  rw [List.foldl_append, readDigits_foldl]
  rfl

theorem readDigits_single (c : Char) : readDigits [c] = digitVal c := by simp [readDigits]

theorem readDigits_zeros (k : Nat) : readDigits (List.replicate k '0') = 0 := by
  induction k with
  | zero => rfl
  | succ k ih =>
    rw [List.replicate_succ']
    rw [readDigits_append, ih]
    simp [readDigits, digitVal]

def AllDigits (cs : List Char) : Prop := ∀ c ∈ cs, isDigit c = true

theorem natDigitsF_spec : ∀ (fuel n : Nat), n < fuel →
    AllDigits (natDigitsF fuel n) ∧ readDigits (natDigitsF fuel n) = n ∧ natDigitsF fuel n ≠ [] := by
  intro fuel
  induction fuel with
  | zero => intro n h; omega
  | succ f ih =>
    intro n h
    unfold natDigitsF
    by_cases h10 : n < 10
    · rw [if_pos h10]
      refine ⟨?_, ?_, by simp⟩
      · intro c hc; simp at hc; rw [hc]; exact digitChar_isDigit n h10
      · rw [readDigits_single, digitVal_digitChar n h10]
    · rw [if_neg h10]
      have hlt : n / 10 < f := by omega
      obtain ⟨h1, h2, _⟩ := ih (n / 10) hlt
      have hm : n % 10 < 10 := Nat.mod_lt _ (by norm_num)
      refine ⟨?_, ?_, by simp⟩
      · intro c hc
        rw [List.mem_append] at hc
        rcases hc with hc | hc
        · exact h1 c hc
        · simp at hc; rw [hc]; exact digitChar_isDigit _ hm
      · rw [readDigits_append, h2, readDigits_single, digitVal_digitChar _ hm]
        simp; omega

theorem natDigits_allDigits (n : Nat) : AllDigits (natDigits n) := (natDigitsF_spec (n + 1) n (by omega)).1
theorem readDigits_natDigits (n : Nat) : readDigits (natDigits n) = n := (natDigitsF_spec (n + 1) n (by omega)).2.1
theorem natDigits_ne_nil (n : Nat) : natDigits n ≠ [] := (natDigitsF_spec (n + 1) n (by omega)).2.2

/-- a number below `10^s` has at most `s` digits (`s ≥ 1`) -/
theorem natDigitsF_length : ∀ (fuel n s : Nat), n < fuel → n < 10 ^ (s + 1) → (natDigitsF fuel n).length ≤ s + 1 := by
  intro fuel
  induction fuel with
  | zero => intro n s h; omega
  | succ f ih =>
    intro n s h hs
    unfold natDigitsF
    by_cases h10 : n < 10
    · rw [if_pos h10]; simp
    · rw [if_neg h10]
      cases s with
      | zero => simp at hs; omega
      | succ s =>
        have : n / 10 < 10 ^ (s + 1) := by
          rw [Nat.div_lt_iff_lt_mul (by norm_num)]
          calc n < 10 ^ (s + 1 + 1) := hs
            _ = 10 ^ (s + 1) * 10 := by ring
        have := ih (n / 10) s (by omega) this
        simp; omega

theorem natDigits_length_le (n s : Nat) (h : n < 10 ^ (s + 1)) : (natDigits n).length ≤ s + 1 :=
  natDigitsF_length (n + 1) n s (by omega) h

/-! ### fixed notation -/

theorem strip0_spec : ∀ (s n : Nat), n * 10 ^ (strip0 n s).2 = (strip0 n s).1 * 10 ^ s := by
  intro s
  induction s with
  | zero => intro n; simp [strip0]
  | succ s ih =>
    intro n
    unfold strip0
    by_cases h : n % 10 = 0
    · rw [if_pos h]
      obtain ⟨m, rfl⟩ : ∃ m, n = 10 * m := ⟨n / 10, by omega⟩
      have hm : 10 * m / 10 = m := Nat.mul_div_cancel_left m (by norm_num)
      rw [hm]
      have := ih m
      calc 10 * m * 10 ^ (strip0 m s).2 = 10 * (m * 10 ^ (strip0 m s).2) := by ring
        _ = 10 * ((strip0 m s).1 * 10 ^ s) := by rw [this]
        _ = (strip0 m s).1 * 10 ^ (s + 1) := by ring
    · rw [if_neg h]

theorem strip0_pow (s n : Nat) : strip0 (n * 10 ^ s) s = (n, 0) := by
  induction s with
  | zero => simp [strip0]
  | succ s ih =>
    unfold strip0
    have h1 : n * 10 ^ (s + 1) % 10 = 0 := by
      rw [pow_succ, ← mul_assoc]; exact Nat.mul_mod_left _ _
    have h2 : n * 10 ^ (s + 1) / 10 = n * 10 ^ s := by
      rw [pow_succ, ← mul_assoc]; exact Nat.mul_div_cancel _ (by norm_num)
    rw [if_pos h1, h2, ih]

/-- an unsigned text matched by `NUM`: integer digits, optionally a point and more digits, with the
number it denotes -/
def NumText (cs : List Char) (q : Rat) : Prop :=
  ∃ ip fp, cs = ip ++ (if fp = [] then [] else '.' :: fp) ∧ ip ≠ [] ∧ AllDigits ip ∧ AllDigits fp
    ∧ q = (readDigits (ip ++ fp) : Rat) / 10 ^ fp.length

theorem allDigits_zeros (k : Nat) : AllDigits (List.replicate k '0') := by
  intro c hc
  rw [List.mem_replicate] at hc
  rw [hc.2]; rfl

theorem allDigits_append {a b : List Char} (ha : AllDigits a) (hb : AllDigits b) : AllDigits (a ++ b) := by
  intro c hc
  rw [List.mem_append] at hc
  rcases hc with h | h
  · exact ha c h
  · exact hb c h

theorem renderFixed_numText (n s : Nat) : NumText (renderFixed n s) ((n : Rat) / 10 ^ s) := by
  unfold renderFixed
  have hspec := strip0_spec s n
  set p := strip0 n s with hp
  have hq : (n : Rat) / 10 ^ s = (p.1 : Rat) / 10 ^ p.2 := by
    have h10 : (10 : Rat) ^ s ≠ 0 := by positivity
    have h10' : (10 : Rat) ^ p.2 ≠ 0 := by positivity
    rw [div_eq_div_iff h10 h10']
    exact_mod_cast hspec
  simp only
  by_cases h0 : p.2 = 0
  · rw [if_pos h0]
    refine ⟨natDigits p.1, [], by simp, natDigits_ne_nil _, natDigits_allDigits _, by intro c hc; simp at hc, ?_⟩
    rw [hq, h0]
    simp [readDigits_natDigits]
  · rw [if_neg h0]
    obtain ⟨k, hk⟩ : ∃ k, p.2 = k + 1 := ⟨p.2 - 1, by omega⟩
    have hmod : p.1 % 10 ^ p.2 < 10 ^ (k + 1) := by rw [← hk]; exact Nat.mod_lt _ (by positivity)
    have hlen : (natDigits (p.1 % 10 ^ p.2)).length ≤ p.2 := by
      have := natDigits_length_le (p.1 % 10 ^ p.2) k hmod
      omega
    have hplen : (padLeft p.2 (natDigits (p.1 % 10 ^ p.2))).length = p.2 := by
      unfold padLeft; simp; omega
    have hne : padLeft p.2 (natDigits (p.1 % 10 ^ p.2)) ≠ [] := by
      intro h; rw [h] at hplen; simp at hplen; omega
    refine ⟨natDigits (p.1 / 10 ^ p.2), padLeft p.2 (natDigits (p.1 % 10 ^ p.2)), by rw [if_neg hne],
      natDigits_ne_nil _, natDigits_allDigits _, ?_, ?_⟩
    · unfold padLeft
      exact allDigits_append (allDigits_zeros _) (natDigits_allDigits _)
    · rw [hq, hplen, readDigits_append, hplen, readDigits_natDigits]
      have : readDigits (padLeft p.2 (natDigits (p.1 % 10 ^ p.2))) = p.1 % 10 ^ p.2 := by
        unfold padLeft
        rw [readDigits_append, readDigits_zeros, readDigits_natDigits]; simp
      rw [this]
      congr 1
      exact_mod_cast (Nat.div_add_mod' p.1 (10 ^ p.2)).symm

theorem renderFixed_int (n s : Nat) : renderFixed (n * 10 ^ s) s = natDigits n := by
  unfold renderFixed
  rw [strip0_pow]
  simp

/-! ### `'%g'` on numbers with at most six significant digits -/

theorem ilogUp_spec : ∀ (k fuel : Nat) (a : Rat) (e0 : Int), k ≤ fuel → (10 : Rat) ^ k ≤ a → a < 10 ^ (k + 1) →
    ilogUp fuel a e0 = (a / 10 ^ k, e0 + k) := by
  intro k
  induction k with
  | zero =>
    intro fuel a e0 _ h1 h2
    cases fuel with
    | zero => simp [ilogUp]
    | succ f =>
      have : ¬ (10 ≤ a) := by simpa using h2
      simp [ilogUp, this]
  | succ k ih =>
    intro fuel a e0 hf h1 h2
    cases fuel with
    | zero => omega
    | succ f =>
      have h10 : (10 : Rat) ≤ a := by
        have : (10 : Rat) ^ 1 ≤ 10 ^ (k + 1) := pow_le_pow_right₀ (by norm_num) (by omega)
        linarith
      unfold ilogUp
      rw [if_pos h10, ih f (a / 10) (e0 + 1) (by omega)]
      · congr 1
        · rw [pow_succ]; field_simp
        · push_cast; ring
      · rw [le_div_iff₀ (by norm_num)]; rw [pow_succ] at h1; linarith
      · rw [div_lt_iff₀ (by norm_num)]; rw [pow_succ] at h2; linarith

theorem ilogUp_small (fuel : Nat) (a : Rat) (e0 : Int) (h : a < 10) : ilogUp fuel a e0 = (a, e0) := by
  cases fuel with
  | zero => rfl
  | succ f => simp [ilogUp, not_le.mpr h]

theorem ilogDown_spec : ∀ (k fuel : Nat) (a : Rat) (e0 : Int), k ≤ fuel → 1 ≤ a * 10 ^ k → a * 10 ^ k < 10 →
    ilogDown fuel a e0 = (a * 10 ^ k, e0 - k) := by
  intro k
  induction k with
  | zero =>
    intro fuel a e0 _ h1 _
    cases fuel with
    | zero => simp [ilogDown]
    | succ f =>
      have : ¬ (a < 1) := by simpa using h1
      simp [ilogDown, this]
  | succ k ih =>
    intro fuel a e0 hf h1 h2
    cases fuel with
    | zero => omega
    | succ f =>
      have hlt : a < 1 := by
        have hp : (10 : Rat) ≤ 10 ^ (k + 1) := by
          have : (10 : Rat) ^ 1 ≤ 10 ^ (k + 1) := pow_le_pow_right₀ (by norm_num) (by omega)
          linarith
        by_contra hge
        have : (1 : Rat) ≤ a := not_lt.mp hge
        nlinarith
      unfold ilogDown
      rw [if_pos hlt, ih f (a * 10) (e0 - 1) (by omega)]
      · congr 1
        · rw [pow_succ]; ring
        · push_cast; ring
      · rw [pow_succ] at h1; linarith
      · rw [pow_succ] at h2; linarith

theorem pow10_neg (s : Nat) : pow10 (-(s : Int)) = 1 / (10 : Rat) ^ s := by
  unfold pow10
  cases s with
  | zero => simp
  | succ s =>
    have : ¬ (0 ≤ -((s + 1 : Nat) : Int)) := by omega
    rw [if_neg this]
    simp

/-- a six-digit `r` over `10^s`: the decimal exponent is `5 - s` -/
theorem ilog10_six (r s : Nat) (hr : 100000 ≤ r) (hr' : r < 1000000) (hs : s ≤ 9) :
    ilog10 ((r : Rat) / 10 ^ s) = 5 - (s : Int) := by
  have hrR : (100000 : Rat) ≤ (r : Rat) := by exact_mod_cast hr
  have hrR' : (r : Rat) < 1000000 := by exact_mod_cast hr'
  have hp : (0 : Rat) < 10 ^ s := by positivity
  unfold ilog10
  by_cases h5 : s ≤ 5
  · obtain ⟨k, hk⟩ : ∃ k, s + k = 5 := ⟨5 - s, by omega⟩
    have e5 : (10 : Rat) ^ s * 10 ^ k = 100000 := by rw [← pow_add, hk]; norm_num
    have h1 : (10 : Rat) ^ k ≤ (r : Rat) / 10 ^ s := by rw [le_div_iff₀ hp]; nlinarith
    have h2 : (r : Rat) / 10 ^ s < 10 ^ (k + 1) := by rw [div_lt_iff₀ hp, pow_succ]; nlinarith
    rw [ilogUp_spec k 400 _ 0 (by omega) h1 h2]
    simp only
    have h3 : (1 : Rat) ≤ (r : Rat) / 10 ^ s / 10 ^ k * 10 ^ 0 := by
      rw [pow_zero, mul_one, div_div, e5, le_div_iff₀ (by norm_num)]; linarith
    have h4 : (r : Rat) / 10 ^ s / 10 ^ k * 10 ^ 0 < 10 := by
      rw [pow_zero, mul_one, div_div, e5, div_lt_iff₀ (by norm_num)]; linarith
    rw [ilogDown_spec 0 400 _ _ (by omega) h3 h4]
    simp only
    push_cast
    omega
  · obtain ⟨k, hk⟩ : ∃ k, s = 5 + k := ⟨s - 5, by omega⟩
    have e5 : (10 : Rat) ^ s = 100000 * 10 ^ k := by rw [hk, pow_add]; norm_num
    have hpk : (0 : Rat) < 10 ^ k := by positivity
    have hsmall : (r : Rat) / 10 ^ s < 10 := by
      rw [div_lt_iff₀ hp, e5]
      have : (1 : Rat) ≤ 10 ^ k := one_le_pow₀ (by norm_num)
      nlinarith
    rw [ilogUp_small 400 _ 0 hsmall]
    simp only
    have e6 : (r : Rat) / 10 ^ s * 10 ^ k = (r : Rat) / 100000 := by rw [e5]; field_simp
    have h3 : (1 : Rat) ≤ (r : Rat) / 10 ^ s * 10 ^ k := by rw [e6, le_div_iff₀ (by norm_num)]; linarith
    have h4 : (r : Rat) / 10 ^ s * 10 ^ k < 10 := by rw [e6, div_lt_iff₀ (by norm_num)]; linarith
    rw [ilogDown_spec k 400 _ _ (by omega) h3 h4]
    simp only
    omega

theorem sci6_six (r s : Nat) (hr : 100000 ≤ r) (hr' : r < 1000000) (hs : s ≤ 9) :
    sci6 ((r : Rat) / 10 ^ s) = (r, 5 - (s : Int)) := by
  unfold sci6
  simp only [ilog10_six r s hr hr' hs]
  have e : (5 - (s : Int) - 5) = -(s : Int) := by ring
  rw [e, pow10_neg]
  have hp : (10 : Rat) ^ s ≠ 0 := by positivity
  have e2 : (r : Rat) / 10 ^ s / (1 / 10 ^ s) = ((r : Int) : Rat) := by
    field_simp; push_cast; rfl
  rw [e2, roundHE_int]
  simp only [Int.toNat_natCast]
  rw [if_neg (by omega)]

/-- **`'%g'` of a number with at most six significant digits in `[1e-4, 1e6)`**: fixed notation of
exactly that number (`|q| = r / 10^s`, `r` six digits, `s ≤ 9`), with a minus sign when negative -/
theorem fmtG_fixed (q : Rat) (r s : Nat) (hr : 100000 ≤ r) (hr' : r < 1000000) (hs : s ≤ 9)
    (hq : |q| = (r : Rat) / 10 ^ s) :
    fmtG q = if q < 0 then '-' :: renderFixed r s else renderFixed r s := by
  have hpos : (0 : Rat) < (r : Rat) / 10 ^ s := by
    apply div_pos
    · have : (0 : Rat) < 100000 := by norm_num
      have : (100000 : Rat) ≤ r := by exact_mod_cast hr
      linarith
    · positivity
  have hq0 : q ≠ 0 := by
    intro h; rw [h, abs_zero] at hq; linarith
  unfold fmtG
  rw [if_neg hq0, absR_eq_abs, hq, sci6_six r s hr hr' hs]
  simp only
  have hcond : ¬ (5 - (s : Int) < -4 ∨ 6 ≤ 5 - (s : Int)) := by omega
  rw [if_neg hcond]
  have : (5 - (5 - (s : Int))).toNat = s := by omega
  rw [this]

end Barril.Frac
