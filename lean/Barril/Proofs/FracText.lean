/-
Text lemmas for C18: decimal digits, `'%g'` of numbers with at most six significant digits, and
the regular-expression matcher of `CreateFromString` on formatted values.
-/
import Barril.Proofs.FracLemmas
import Mathlib.Tactic.NormNum
import Mathlib.Tactic.IntervalCases

namespace Barril.Frac

/-! ### digits -/

theorem digitChar_toNat (d : Nat) (h : d < 10) : (digitChar d).toNat = 48 + d := by
  unfold digitChar
  interval_cases d <;> rfl

theorem digitChar_isDigit (d : Nat) (h : d < 10) : isDigit (digitChar d) = true := by
  unfold isDigit
  rw [digitChar_toNat d h]
  simp; omega

theorem digitVal_digitChar (d : Nat) (h : d < 10) : digitVal (digitChar d) = d := by
  unfold digitVal
  rw [digitChar_toNat d h]; omega

theorem readDigits_foldl (acc : Nat) (cs : List Char) :
    cs.foldl (fun acc c => acc * 10 + digitVal c) acc = acc * 10 ^ cs.length + readDigits cs := by
  induction cs generalizing acc with
  | nil => simp [readDigits]
  | cons c cs ih =>
    simp only [List.foldl_cons, List.length_cons, readDigits]
    rw [ih, ih (0 * 10 + digitVal c)]
    ring

theorem readDigits_append (a b : List Char) :
    readDigits (a ++ b) = readDigits a * 10 ^ b.length + readDigits b := by
  unfold readDigits
  rw [List.foldl_append, readDigits_foldl]
  rfl

theorem readDigits_single (c : Char) : readDigits [c] = digitVal c := by simp [readDigits]

theorem readDigits_zeros (k : Nat) : readDigits (List.replicate k '0') = 0 := by
  induction k with
  | zero => rfl
  | succ k ih =>
    rw [List.replicate_succ']
    rw [readDigits_append, ih]
    simp [readDigits, digitVal]

def AllDigits (cs : List Char) : Prop := ∀ c ∈ cs, isDigit c = true

theorem natDigitsF_spec : ∀ (fuel n : Nat), n < fuel →
    AllDigits (natDigitsF fuel n) ∧ readDigits (natDigitsF fuel n) = n ∧ natDigitsF fuel n ≠ [] := by
  intro fuel
  induction fuel with
  | zero => intro n h; omega
  | succ f ih =>
    intro n h
    unfold natDigitsF
    by_cases h10 : n < 10
    · rw [if_pos h10]
      refine ⟨?_, ?_, by simp⟩
      · intro c hc; simp at hc; rw [hc]; exact digitChar_isDigit n h10
      · rw [readDigits_single, digitVal_digitChar n h10]
    · rw [if_neg h10]
      have hlt : n / 10 < f := by omega
      obtain ⟨h1, h2, _⟩ := ih (n / 10) hlt
      have hm : n % 10 < 10 := Nat.mod_lt _ (by norm_num)
      refine ⟨?_, ?_, by simp⟩
      · intro c hc
        rw [List.mem_append] at hc
        rcases hc with hc | hc
        · exact h1 c hc
        · simp at hc; rw [hc]; exact digitChar_isDigit _ hm
      · rw [readDigits_append, h2, readDigits_single, digitVal_digitChar _ hm]
        simp; omega

theorem natDigits_allDigits (n : Nat) : AllDigits (natDigits n) := (natDigitsF_spec (n + 1) n (by omega)).1
theorem readDigits_natDigits (n : Nat) : readDigits (natDigits n) = n := (natDigitsF_spec (n + 1) n (by omega)).2.1
theorem natDigits_ne_nil (n : Nat) : natDigits n ≠ [] := (natDigitsF_spec (n + 1) n (by omega)).2.2

/-- a number below `10^s` has at most `s` digits (`s ≥ 1`) -/
theorem natDigitsF_length : ∀ (fuel n s : Nat), n < fuel → n < 10 ^ (s + 1) → (natDigitsF fuel n).length ≤ s + 1 := by
  intro fuel
  induction fuel with
  | zero => intro n s h; omega
  | succ f ih =>
    intro n s h hs
    unfold natDigitsF
    by_cases h10 : n < 10
    · rw [if_pos h10]; simp
    · rw [if_neg h10]
      cases s with
      | zero => simp at hs; omega
      | succ s =>
        have : n / 10 < 10 ^ (s + 1) := by
          rw [Nat.div_lt_iff_lt_mul (by norm_num)]
          calc n < 10 ^ (s + 1 + 1) := hs
            _ = 10 ^ (s + 1) * 10 := by ring
        have := ih (n / 10) s (by omega) this
        simp; omega

theorem natDigits_length_le (n s : Nat) (h : n < 10 ^ (s + 1)) : (natDigits n).length ≤ s + 1 :=
  natDigitsF_length (n + 1) n s (by omega) h

/-! ### fixed notation -/

theorem strip0_spec : ∀ (s n : Nat), n * 10 ^ (strip0 n s).2 = (strip0 n s).1 * 10 ^ s := by
  intro s
  induction s with
  | zero => intro n; simp [strip0]
  | succ s ih =>
    intro n
    unfold strip0
    by_cases h : n % 10 = 0
    · rw [if_pos h]
      obtain ⟨m, rfl⟩ : ∃ m, n = 10 * m := ⟨n / 10, by omega⟩
      have hm : 10 * m / 10 = m := Nat.mul_div_cancel_left m (by norm_num)
      rw [hm]
      have := ih m
      calc 10 * m * 10 ^ (strip0 m s).2 = 10 * (m * 10 ^ (strip0 m s).2) := by ring
        _ = 10 * ((strip0 m s).1 * 10 ^ s) := by rw [this]
        _ = (strip0 m s).1 * 10 ^ (s + 1) := by ring
    · rw [if_neg h]

theorem strip0_pow (s n : Nat) : strip0 (n * 10 ^ s) s = (n, 0) := by
  induction s with
  | zero => simp [strip0]
  | succ s ih =>
    unfold strip0
    have h1 : n * 10 ^ (s + 1) % 10 = 0 := by
      rw [pow_succ, ← mul_assoc]; exact Nat.mul_mod_left _ _
    have h2 : n * 10 ^ (s + 1) / 10 = n * 10 ^ s := by
      rw [pow_succ, ← mul_assoc]; exact Nat.mul_div_cancel _ (by norm_num)
    rw [if_pos h1, h2, ih]

/-- an unsigned text matched by `NUM`: integer digits, optionally a point and more digits, with the
number it denotes -/
def NumText (cs : List Char) (q : Rat) : Prop :=
  ∃ ip fp, cs = ip ++ (if fp = [] then [] else '.' :: fp) ∧ ip ≠ [] ∧ AllDigits ip ∧ AllDigits fp
    ∧ q = (readDigits (ip ++ fp) : Rat) / 10 ^ fp.length

theorem allDigits_zeros (k : Nat) : AllDigits (List.replicate k '0') := by
  intro c hc
  rw [List.mem_replicate] at hc
  rw [hc.2]; rfl

theorem allDigits_append {a b : List Char} (ha : AllDigits a) (hb : AllDigits b) : AllDigits (a ++ b) := by
  intro c hc
  rw [List.mem_append] at hc
  rcases hc with h | h
  · exact ha c h
  · exact hb c h

theorem renderFixed_numText (n s : Nat) : NumText (renderFixed n s) ((n : Rat) / 10 ^ s) := by
  unfold renderFixed
  have hspec := strip0_spec s n
  set p := strip0 n s with hp
  have hq : (n : Rat) / 10 ^ s = (p.1 : Rat) / 10 ^ p.2 := by
    have h10 : (10 : Rat) ^ s ≠ 0 := by positivity
    have h10' : (10 : Rat) ^ p.2 ≠ 0 := by positivity
    rw [div_eq_div_iff h10 h10']
    exact_mod_cast hspec
  simp only
  by_cases h0 : p.2 = 0
  · rw [if_pos h0]
    refine ⟨natDigits p.1, [], by simp, natDigits_ne_nil _, natDigits_allDigits _, by intro c hc; simp at hc, ?_⟩
    rw [hq, h0]
    simp [readDigits_natDigits]
  · rw [if_neg h0]
    obtain ⟨k, hk⟩ : ∃ k, p.2 = k + 1 := ⟨p.2 - 1, by omega⟩
    have hmod : p.1 % 10 ^ p.2 < 10 ^ (k + 1) := by rw [← hk]; exact Nat.mod_lt _ (by positivity)
    have hlen : (natDigits (p.1 % 10 ^ p.2)).length ≤ p.2 := by
      have := natDigits_length_le (p.1 % 10 ^ p.2) k hmod
      omega
    have hplen : (padLeft p.2 (natDigits (p.1 % 10 ^ p.2))).length = p.2 := by
      unfold padLeft; simp; omega
    have hne : padLeft p.2 (natDigits (p.1 % 10 ^ p.2)) ≠ [] := by
      intro h; rw [h] at hplen; simp at hplen; omega
    refine ⟨natDigits (p.1 / 10 ^ p.2), padLeft p.2 (natDigits (p.1 % 10 ^ p.2)), by rw [if_neg hne],
      natDigits_ne_nil _, natDigits_allDigits _, ?_, ?_⟩
    · unfold padLeft
      exact allDigits_append (allDigits_zeros _) (natDigits_allDigits _)
    · rw [hq, hplen, readDigits_append, hplen, readDigits_natDigits]
      have : readDigits (padLeft p.2 (natDigits (p.1 % 10 ^ p.2))) = p.1 % 10 ^ p.2 := by
        unfold padLeft
        rw [readDigits_append, readDigits_zeros, readDigits_natDigits]; simp
      rw [this]
      congr 1
      exact_mod_cast (Nat.div_add_mod' p.1 (10 ^ p.2)).symm

theorem renderFixed_int (n s : Nat) : renderFixed (n * 10 ^ s) s = natDigits n := by
  unfold renderFixed
  rw [strip0_pow]
  simp

/-! ### `'%g'` on numbers with at most six significant digits -/

theorem ilogUp_spec : ∀ (k fuel : Nat) (a : Rat) (e0 : Int), k ≤ fuel → (10 : Rat) ^ k ≤ a → a < 10 ^ (k + 1) →
    ilogUp fuel a e0 = (a / 10 ^ k, e0 + k) := by
  intro k
  induction k with
  | zero =>
    intro fuel a e0 _ h1 h2
    cases fuel with
    | zero => simp [ilogUp]
    | succ f =>
      have : ¬ (10 ≤ a) := by simpa using h2
      simp [ilogUp, this]
  | succ k ih =>
    intro fuel a e0 hf h1 h2
    cases fuel with
    | zero => omega
    | succ f =>
      have h10 : (10 : Rat) ≤ a := by
        have : (10 : Rat) ^ 1 ≤ 10 ^ (k + 1) := pow_le_pow_right₀ (by norm_num) (by omega)
        linarith
      unfold ilogUp
      rw [if_pos h10, ih f (a / 10) (e0 + 1) (by omega)]
      · congr 1
        · rw [pow_succ]; field_simp
        · push_cast; ring
      · rw [le_div_iff₀ (by norm_num)]; rw [pow_succ] at h1; linarith
      · rw [div_lt_iff₀ (by norm_num)]; rw [pow_succ] at h2; linarith

theorem ilogUp_small (fuel : Nat) (a : Rat) (e0 : Int) (h : a < 10) : ilogUp fuel a e0 = (a, e0) := by
  cases fuel with
  | zero => rfl
  | succ f => simp [ilogUp, not_le.mpr h]

theorem ilogDown_spec : ∀ (k fuel : Nat) (a : Rat) (e0 : Int), k ≤ fuel → 1 ≤ a * 10 ^ k → a * 10 ^ k < 10 →
    ilogDown fuel a e0 = (a * 10 ^ k, e0 - k) := by
  intro k
  induction k with
  | zero =>
    intro fuel a e0 _ h1 _
    cases fuel with
    | zero => simp [ilogDown]
    | succ f =>
      have : ¬ (a < 1) := by simpa using h1
      simp [ilogDown, this]
  | succ k ih =>
    intro fuel a e0 hf h1 h2
    cases fuel with
    | zero => omega
    | succ f =>
      have hlt : a < 1 := by
        have hp : (10 : Rat) ≤ 10 ^ (k + 1) := by
          have : (10 : Rat) ^ 1 ≤ 10 ^ (k + 1) := pow_le_pow_right₀ (by norm_num) (by omega)
          linarith
        by_contra hge
        have : (1 : Rat) ≤ a := not_lt.mp hge
        nlinarith
      unfold ilogDown
      rw [if_pos hlt, ih f (a * 10) (e0 - 1) (by omega)]
      · congr 1
        · rw [pow_succ]; ring
        · push_cast; ring
      · rw [pow_succ] at h1; linarith
      · rw [pow_succ] at h2; linarith

theorem pow10_neg (s : Nat) : pow10 (-(s : Int)) = 1 / (10 : Rat) ^ s := by
  unfold pow10
  cases s with
  | zero => simp
  | succ s =>
    have : ¬ (0 ≤ -((s + 1 : Nat) : Int)) := by omega
    rw [if_neg this]
    simp

/-- a six-digit `r` over `10^s`: the decimal exponent is `5 - s` -/
theorem ilog10_six (r s : Nat) (hr : 100000 ≤ r) (hr' : r < 1000000) (hs : s ≤ 9) :
    ilog10 ((r : Rat) / 10 ^ s) = 5 - (s : Int) := by
  have hrR : (100000 : Rat) ≤ (r : Rat) := by exact_mod_cast hr
  have hrR' : (r : Rat) < 1000000 := by exact_mod_cast hr'
  have hp : (0 : Rat) < 10 ^ s := by positivity
  unfold ilog10
  by_cases h5 : s ≤ 5
  · obtain ⟨k, hk⟩ : ∃ k, s + k = 5 := ⟨5 - s, by omega⟩
    have e5 : (10 : Rat) ^ s * 10 ^ k = 100000 := by rw [← pow_add, hk]; norm_num
    have h1 : (10 : Rat) ^ k ≤ (r : Rat) / 10 ^ s := by rw [le_div_iff₀ hp]; nlinarith
    have h2 : (r : Rat) / 10 ^ s < 10 ^ (k + 1) := by rw [div_lt_iff₀ hp, pow_succ]; nlinarith
    rw [ilogUp_spec k 400 _ 0 (by omega) h1 h2]
    simp only
    have h3 : (1 : Rat) ≤ (r : Rat) / 10 ^ s / 10 ^ k * 10 ^ 0 := by
      rw [pow_zero, mul_one, div_div, e5, le_div_iff₀ (by norm_num)]; linarith
    have h4 : (r : Rat) / 10 ^ s / 10 ^ k * 10 ^ 0 < 10 := by
      rw [pow_zero, mul_one, div_div, e5, div_lt_iff₀ (by norm_num)]; linarith
    rw [ilogDown_spec 0 400 _ _ (by omega) h3 h4]
    simp only
    push_cast
    omega
  · obtain ⟨k, hk⟩ : ∃ k, s = 5 + k := ⟨s - 5, by omega⟩
    have e5 : (10 : Rat) ^ s = 100000 * 10 ^ k := by rw [hk, pow_add]; norm_num
    have hpk : (0 : Rat) < 10 ^ k := by positivity
    have hsmall : (r : Rat) / 10 ^ s < 10 := by
      rw [div_lt_iff₀ hp, e5]
      have : (1 : Rat) ≤ 10 ^ k := one_le_pow₀ (by norm_num)
      nlinarith
    rw [ilogUp_small 400 _ 0 hsmall]
    simp only
    have e6 : (r : Rat) / 10 ^ s * 10 ^ k = (r : Rat) / 100000 := by rw [e5]; field_simp
    have h3 : (1 : Rat) ≤ (r : Rat) / 10 ^ s * 10 ^ k := by rw [e6, le_div_iff₀ (by norm_num)]; linarith
    have h4 : (r : Rat) / 10 ^ s * 10 ^ k < 10 := by rw [e6, div_lt_iff₀ (by norm_num)]; linarith
    rw [ilogDown_spec k 400 _ _ (by omega) h3 h4]
    simp only
    omega

theorem sci6_six (r s : Nat) (hr : 100000 ≤ r) (hr' : r < 1000000) (hs : s ≤ 9) :
    sci6 ((r : Rat) / 10 ^ s) = (r, 5 - (s : Int)) := by
  unfold sci6
  simp only [ilog10_six r s hr hr' hs]
  have e : (5 - (s : Int) - 5) = -(s : Int) := by ring
  rw [e, pow10_neg]
  have hp : (10 : Rat) ^ s ≠ 0 := by positivity
  have e2 : (r : Rat) / 10 ^ s / (1 / 10 ^ s) = ((r : Int) : Rat) := by
    field_simp; push_cast; rfl
  rw [e2, roundHE_int]
  simp only [Int.toNat_natCast]
  rw [if_neg (by omega)]

/-- **`'%g'` of a number with at most six significant digits in `[1e-4, 1e6)`**: fixed notation of
exactly that number (`|q| = r / 10^s`, `r` six digits, `s ≤ 9`), with a minus sign when negative -/
theorem fmtG_fixed (q : Rat) (r s : Nat) (hr : 100000 ≤ r) (hr' : r < 1000000) (hs : s ≤ 9)
    (hq : |q| = (r : Rat) / 10 ^ s) :
    fmtG q = if q < 0 then '-' :: renderFixed r s else renderFixed r s := by
  have hpos : (0 : Rat) < (r : Rat) / 10 ^ s := by
    apply div_pos
    · have : (0 : Rat) < 100000 := by norm_num
      have : (100000 : Rat) ≤ r := by exact_mod_cast hr
      linarith
    · positivity
  have hq0 : q ≠ 0 := by
    intro h; rw [h, abs_zero] at hq; linarith
  unfold fmtG
  rw [if_neg hq0, absR_eq_abs, hq, sci6_six r s hr hr' hs]
  simp only
  have hcond : ¬ (5 - (s : Int) < -4 ∨ 6 ≤ 5 - (s : Int)) := by omega
  rw [if_neg hcond]
  have : (5 - (5 - (s : Int))).toNat = s := by omega
  rw [this]

/-- integers below a million print as their digits -/
theorem fmtG_nat (n : Nat) (h : n < 1000000) : fmtG (n : Rat) = natDigits n := by
  by_cases h0 : n = 0
  · subst h0; rfl
  · obtain ⟨j, hj, h1, h2⟩ : ∃ j, j ≤ 5 ∧ 100000 ≤ n * 10 ^ j ∧ n * 10 ^ j < 1000000 := by
      by_cases c1 : n < 10
      · exact ⟨5, by omega, by norm_num; omega, by norm_num; omega⟩
      by_cases c2 : n < 100
      · exact ⟨4, by omega, by norm_num; omega, by norm_num; omega⟩
      by_cases c3 : n < 1000
      · exact ⟨3, by omega, by norm_num; omega, by norm_num; omega⟩
      by_cases c4 : n < 10000
      · exact ⟨2, by omega, by norm_num; omega, by norm_num; omega⟩
      by_cases c5 : n < 100000
      · exact ⟨1, by omega, by norm_num; omega, by norm_num; omega⟩
      · exact ⟨0, by omega, by norm_num; omega, by norm_num; omega⟩
    have hq : |(n : Rat)| = ((n * 10 ^ j : Nat) : Rat) / 10 ^ j := by
      rw [abs_of_nonneg (by positivity)]
      push_cast
      field_simp
    rw [fmtG_fixed (n : Rat) (n * 10 ^ j) j h1 h2 (by omega) hq]
    have : ¬ ((n : Rat) < 0) := not_lt.mpr (by positivity)
    rw [if_neg this, renderFixed_int]

theorem fmtG_int (z : Int) (h : z.natAbs < 1000000) :
    fmtG (z : Rat) = if z < 0 then '-' :: natDigits z.natAbs else natDigits z.natAbs := by
  by_cases hz : z < 0
  · rw [if_pos hz]
    have hne : z.natAbs ≠ 0 := by omega
    have e : (z : Rat) = -((z.natAbs : Nat) : Rat) := by
      have : z = -(z.natAbs : Int) := by omega
      conv_lhs => rw [this]
      rw [Int.cast_neg, Int.cast_natCast]
    -- same digits as the absolute value, with a minus sign
    have hpos := fmtG_nat z.natAbs h
    obtain ⟨j, hj, h1, h2⟩ : ∃ j, j ≤ 5 ∧ 100000 ≤ z.natAbs * 10 ^ j ∧ z.natAbs * 10 ^ j < 1000000 := by
      generalize z.natAbs = n at h hne
      by_cases c1 : n < 10
      · exact ⟨5, by omega, by norm_num; omega, by norm_num; omega⟩
      by_cases c2 : n < 100
      · exact ⟨4, by omega, by norm_num; omega, by norm_num; omega⟩
      by_cases c3 : n < 1000
      · exact ⟨3, by omega, by norm_num; omega, by norm_num; omega⟩
      by_cases c4 : n < 10000
      · exact ⟨2, by omega, by norm_num; omega, by norm_num; omega⟩
      by_cases c5 : n < 100000
      · exact ⟨1, by omega, by norm_num; omega, by norm_num; omega⟩
      · exact ⟨0, by omega, by norm_num; omega, by norm_num; omega⟩
    have hq : |(z : Rat)| = ((z.natAbs * 10 ^ j : Nat) : Rat) / 10 ^ j := by
      rw [e, abs_neg, abs_of_nonneg (by positivity)]
      push_cast
      field_simp
    rw [fmtG_fixed (z : Rat) (z.natAbs * 10 ^ j) j h1 h2 (by omega) hq]
    have : (z : Rat) < 0 := by exact_mod_cast hz
    rw [if_pos this, renderFixed_int]
  · rw [if_neg hz]
    have e : (z : Rat) = ((z.natAbs : Nat) : Rat) := by
      have : z = (z.natAbs : Int) := by omega
      conv_lhs => rw [this]
      rw [Int.cast_natCast]
    rw [e, fmtG_nat _ h]

/-! ### characters -/

theorem digit_facts {c : Char} (h : isDigit c = true) :
    isSpace c = false ∧ isSep c = false ∧ (c == '/') = false ∧ (c == '-') = false ∧ (c == '+') = false
      ∧ (c == ',') = false := by
  unfold isDigit at h
  simp only [Bool.and_eq_true, decide_eq_true_eq] at h
  have hne : ∀ d : Char, (d.toNat < 48 ∨ 57 < d.toNat) → (c == d) = false := by
    intro d hd
    rw [beq_eq_false_iff_ne]
    intro hcd; rw [hcd] at h; omega
  refine ⟨?_, ?_, hne '/' (by decide), hne '-' (by decide), hne '+' (by decide), hne ',' (by decide)⟩
  · unfold isSpace
    rw [hne ' ' (by decide), hne '\t' (by decide), hne '\n' (by decide), hne '\r' (by decide)]
    simp; omega
  · unfold isSep
    rw [hne '.' (by decide), hne ',' (by decide)]; rfl

theorem spanDigits_append {ds tail : List Char} (hd : AllDigits ds)
    (ht : ∀ c rest, tail = c :: rest → isDigit c = false) : spanDigits (ds ++ tail) = (ds, tail) := by
  induction ds with
  | nil =>
    cases tail with
    | nil => rfl
    | cons c rest => simp [spanDigits, ht c rest rfl]
  | cons d ds ih =>
    have hd1 : isDigit d = true := hd d (by simp)
    have := ih (fun c hc => hd c (by simp [hc]))
    simp [spanDigits, hd1, this]

theorem spanDigits_all {ds : List Char} (hd : AllDigits ds) : spanDigits ds = (ds, []) := by
  have := spanDigits_append (tail := []) hd (by intro c rest h; cases h)
  simpa using this

theorem skipSpaces_head {cs : List Char} (h : ∀ c rest, cs = c :: rest → isSpace c = false) : skipSpaces cs = cs := by
  cases cs with
  | nil => rfl
  | cons c rest => simp [skipSpaces, h c rest rfl]

theorem prefixesDesc_head (ds : List Char) (hne : ds ≠ []) :
    ∃ more, prefixesDesc ds.length ds = (ds, []) :: more := by
  cases hl : ds.length with
  | zero => exact absurd (List.length_eq_zero_iff.mp hl) hne
  | succ n =>
    refine ⟨prefixesDesc n ds, ?_⟩
    show prefixesDesc (n + 1) ds = _
    simp only [prefixesDesc]
    rw [List.take_of_length_le (by omega), List.drop_eq_nil_of_le (by omega)]

/-! ### the matcher on formatted numbers -/

/-- what may follow a number inside a formatted value: nothing, a blank or the slash -/
def GoodTail (tail : List Char) : Prop :=
  ∀ c rest, tail = c :: rest → isDigit c = false ∧ isSep c = false

theorem goodTail_nil : GoodTail [] := by intro c rest h; cases h
theorem goodTail_space (rest : List Char) : GoodTail (' ' :: rest) := by
  intro c r h; cases h; exact ⟨by decide, by decide⟩
theorem goodTail_slash (rest : List Char) : GoodTail ('/' :: rest) := by
  intro c r h; cases h; exact ⟨by decide, by decide⟩

theorem numText_ne_nil {cs : List Char} {q : Rat} (h : NumText cs q) : cs ≠ [] := by
  obtain ⟨ip, fp, rfl, hne, -⟩ := h
  simp [hne]

/-- the greedy candidate of `NUM` on a number text followed by a good tail is the whole number -/
theorem numCandsU_head {cs tail : List Char} {q : Rat} (h : NumText cs q) (ht : GoodTail tail) :
    (numCandsU (cs ++ tail)).head? = some (cs, tail) := by
  obtain ⟨ip, fp, rfl, hne, hip, hfp, -⟩ := h
  have hipE : ip.isEmpty = false := by cases ip with
    | nil => exact absurd rfl hne
    | cons _ _ => rfl
  obtain ⟨m1, hm1⟩ := prefixesDesc_head ip hne
  by_cases hf : fp = []
  · subst hf
    simp only [if_true, List.append_nil]
    have hsp : spanDigits (ip ++ tail) = (ip, tail) := spanDigits_append hip (fun c r h => (ht c r h).1)
    unfold numCandsU
    simp only [hsp, hipE, Bool.false_eq_true, if_false, hm1]
    cases tail with
    | nil => simp
    | cons c rest =>
      have := (ht c rest rfl).2
      simp only [this, Bool.false_eq_true, if_false]
      simp
  · rw [if_neg hf]
    obtain ⟨m2, hm2⟩ := prefixesDesc_head fp hf
    have hsp : spanDigits ((ip ++ '.' :: fp) ++ tail) = (ip, '.' :: (fp ++ tail)) := by
      have : (ip ++ '.' :: fp) ++ tail = ip ++ ('.' :: (fp ++ tail)) := by simp
      rw [this]
      exact spanDigits_append hip (by intro c r h; cases h; decide)
    have hsp2 : spanDigits (fp ++ tail) = (fp, tail) := spanDigits_append hfp (fun c r h => (ht c r h).1)
    unfold numCandsU
    simp only [hsp, hipE, Bool.false_eq_true, if_false]
    have hs : isSep '.' = true := by decide
    simp only [hs, if_true, hsp2, hm2]
    simp

theorem numCandsU_numText {cs tail : List Char} {q : Rat} (h : NumText cs q) (ht : GoodTail tail) :
    ∃ more, numCandsU (cs ++ tail) = (cs, tail) :: more := by
  have := numCandsU_head h ht
  rw [List.head?_eq_some_iff] at this
  exact this

theorem readUnsigned_numText {cs : List Char} {q : Rat} (h : NumText cs q) : readUnsigned cs = .ok q := by
  obtain ⟨ip, fp, rfl, hne, hip, hfp, rfl⟩ := h
  have hnc : ∀ l : List Char, AllDigits l → l.any (· == ',') = false := by
    intro l hl
    rw [List.any_eq_false]
    intro c hc
    have := (digit_facts (hl c hc)).2.2.2.2.2
    simpa using this
  by_cases hf : fp = []
  · subst hf
    simp only [if_true, List.append_nil]
    unfold readUnsigned
    rw [hnc ip hip]
    simp only [Bool.false_eq_true, if_false, spanDigits_all hip]
    simp
  · rw [if_neg hf]
    unfold readUnsigned
    have hany : (ip ++ '.' :: fp).any (· == ',') = false := by
      rw [List.any_append, hnc ip hip]
      simp only [List.any_cons, hnc fp hfp]
      decide
    rw [hany]
    have hsp : spanDigits (ip ++ '.' :: fp) = (ip, '.' :: fp) :=
      spanDigits_append hip (by intro c r h; cases h; decide)
    simp only [Bool.false_eq_true, if_false, hsp]

/-- a number text with an optional minus sign -/
def SNumText (cs : List Char) (q : Rat) : Prop :=
  (∃ u v, cs = '-' :: u ∧ NumText u v ∧ q = -v) ∨ NumText cs q

theorem numText_head {cs : List Char} {q : Rat} (h : NumText cs q) :
    ∃ d rest, cs = d :: rest ∧ isDigit d = true := by
  obtain ⟨ip, fp, rfl, hne, hip, -⟩ := h
  cases ip with
  | nil => exact absurd rfl hne
  | cons d r => exact ⟨d, _, rfl, hip d (by simp)⟩

/-- a signed number text starts with a character that is neither a blank nor the slash -/
theorem snumText_head {cs : List Char} {q : Rat} (h : SNumText cs q) :
    ∃ c rest, cs = c :: rest ∧ isSpace c = false ∧ (c == '/') = false := by
  rcases h with ⟨u, v, rfl, -, -⟩ | h
  · exact ⟨'-', u, rfl, by decide, by decide⟩
  · obtain ⟨d, rest, rfl, hd⟩ := numText_head h
    exact ⟨d, rest, rfl, (digit_facts hd).1, (digit_facts hd).2.2.1⟩

theorem numCands_snumText {cs tail : List Char} {q : Rat} (h : SNumText cs q) (ht : GoodTail tail) :
    ∃ more, numCands (cs ++ tail) = (cs, tail) :: more := by
  rcases h with ⟨u, v, rfl, hu, -⟩ | h
  · obtain ⟨more, hm⟩ := numCandsU_numText hu ht
    refine ⟨more.map (fun p => ('-' :: p.1, p.2)), ?_⟩
    show numCands ('-' :: (u ++ tail)) = _
    simp [numCands, hm]
  · obtain ⟨d, rest, hcs, hd⟩ := numText_head h
    obtain ⟨more, hm⟩ := numCandsU_numText h ht
    refine ⟨more, ?_⟩
    rw [← hm]
    have hf := digit_facts hd
    subst hcs
    show numCands (d :: (rest ++ tail)) = _
    simp [numCands, hf.2.2.2.1, hf.2.2.2.2.1]

theorem readFloat_snumText {cs : List Char} {q : Rat} (h : SNumText cs q) : readFloat cs = .ok q := by
  rcases h with ⟨u, v, rfl, hu, rfl⟩ | h
  · simp [readFloat, readUnsigned_numText hu]
  · obtain ⟨d, rest, hcs, hd⟩ := numText_head h
    have hf := digit_facts hd
    have h1 : d ≠ '-' := by have := hf.2.2.2.1; simpa using this
    have h2 : d ≠ '+' := by have := hf.2.2.2.2.1; simpa using this
    have hr := readUnsigned_numText h
    subst hcs
    unfold readFloat
    split
    · rename_i cs' heq; cases heq; exact absurd rfl h1
    · rename_i cs' heq; cases heq; exact absurd rfl h2
    · exact hr

/-- `NUM \s*/\s* \d+ $` on `numerator/denominator` -/
theorem fracPart_some {n d : List Char} {q : Rat} (hn : SNumText n q) (hd : AllDigits d) (hne : d ≠ []) :
    fracPart (n ++ '/' :: d) = some (n, d) := by
  obtain ⟨more, hm⟩ := numCands_snumText hn (goodTail_slash d)
  unfold fracPart
  rw [hm]
  simp only
  have h1 : skipSpaces ('/' :: d) = '/' :: d := skipSpaces_head (by intro c r h; cases h; decide)
  rw [h1]
  simp only [beq_self_eq_true, if_true]
  have h2 : skipSpaces d = d := skipSpaces_head (by
    intro c r h; exact (digit_facts (hd c (by simp [h]))).1)
  rw [h2, spanDigits_all hd]
  have : d.isEmpty = false := by cases d with
    | nil => exact absurd rfl hne
    | cons _ _ => rfl
  simp [this]

/-- no fraction part when the text is a number alone -/
theorem fracPart_number {n : List Char} {q : Rat} (hn : SNumText n q) : fracPart n = none := by
  obtain ⟨more, hm⟩ := numCands_snumText hn goodTail_nil
  rw [List.append_nil] at hm
  unfold fracPart
  rw [hm]
  simp [skipSpaces]

/-- … nor when a second number follows after a blank -/
theorem fracPart_two {n f rest : List Char} {q q' : Rat} (hn : SNumText n q) (hf : SNumText f q') :
    fracPart (n ++ ' ' :: (f ++ rest)) = none := by
  obtain ⟨more, hm⟩ := numCands_snumText hn (goodTail_space (f ++ rest))
  obtain ⟨c, r, rfl, hc1, hc2⟩ := snumText_head hf
  unfold fracPart
  rw [hm]
  simp only
  have : skipSpaces (' ' :: (c :: r ++ rest)) = c :: (r ++ rest) := by
    show skipSpaces (' ' :: c :: (r ++ rest)) = _
    simp [skipSpaces, hc1]
    decide
  rw [this]
  simp [hc2]

/-! ### `str.strip()` leaves a formatted value alone -/

theorem stripSpaces_id {cs : List Char} (h1 : ∀ c rest, cs = c :: rest → isSpace c = false)
    (h2 : ∃ pre c, cs = pre ++ [c] ∧ isSpace c = false) : stripSpaces cs = cs := by
  unfold stripSpaces
  rw [skipSpaces_head h1]
  obtain ⟨pre, c, rfl, hc⟩ := h2
  have : (pre ++ [c]).reverse = c :: pre.reverse := by simp
  rw [this, skipSpaces_head (by intro d r h; cases h; exact hc)]
  simp

theorem ends_of_digits (pre l : List Char) (hl : AllDigits l) (hne : l ≠ []) :
    ∃ p c, pre ++ l = p ++ [c] ∧ isSpace c = false := by
  refine ⟨pre ++ l.dropLast, l.getLast hne, ?_, (digit_facts (hl _ (List.getLast_mem hne))).1⟩
  rw [List.append_assoc, List.dropLast_append_getLast]

theorem snumText_ends {cs : List Char} {q : Rat} (h : SNumText cs q) :
    ∃ pre l, cs = pre ++ l ∧ AllDigits l ∧ l ≠ [] := by
  have key : ∀ {u : List Char} {v : Rat}, NumText u v → ∃ pre l, u = pre ++ l ∧ AllDigits l ∧ l ≠ [] := by
    intro u v hu
    obtain ⟨ip, fp, rfl, hne, hip, hfp, -⟩ := hu
    by_cases hf : fp = []
    · exact ⟨[], ip, by simp [hf], hip, hne⟩
    · exact ⟨ip ++ ['.'], fp, by simp [hf], hfp, hf⟩
  rcases h with ⟨u, v, rfl, hu, -⟩ | h
  · obtain ⟨pre, l, rfl, hl, hne⟩ := key hu
    exact ⟨'-' :: pre, l, rfl, hl, hne⟩
  · exact key h

/-! ### `CreateFromString` on the two shapes `str()` produces -/

/-- `"<number>"` -/
theorem parse_number {n : List Char} {q : Rat} (hn : SNumText n q) : parse n = .ok ⟨q, ⟨0⟩⟩ := by
  obtain ⟨c, r, hcs, hc1, -⟩ := snumText_head hn
  obtain ⟨pre, l, hpl, hl, hlne⟩ := snumText_ends hn
  have hstrip : stripSpaces n = n := by
    apply stripSpaces_id
    · intro c' r' h; rw [hcs] at h; cases h; exact hc1
    · rw [hpl]; exact ends_of_digits pre l hl hlne
  have hne : n.isEmpty = false := by rw [hcs]; rfl
  obtain ⟨more, hm⟩ := numCands_snumText hn goodTail_nil
  rw [List.append_nil] at hm
  unfold parse
  rw [hstrip]
  have hp : matchPartial n = none := by
    unfold matchPartial
    rw [hne]; simp [fracPart_number hn]
  have hfull : matchFull n = some ⟨some n, none⟩ := by
    unfold matchFull
    rw [hm]; simp [matchFullCands, skipSpaces]
  rw [hp, hfull]
  simp only [fromGroups, readFloat_snumText hn]
  have h0 : Frac.init (.fin 0) (some (.fin 1)) = .ok ⟨0⟩ := by
    rw [init_fin_fin 0 1 (by norm_num)]
    have := normalise_int 0 1
    simpa using this
  simp [FV.init, setFraction, h0]

/-- `"<number> <numerator>/<denominator>"` -/
theorem parse_mixed {n f d : List Char} {q : Rat} {a : Int} {b : Nat} (hn : SNumText n q)
    (hf : SNumText f (a : Rat)) (hd : AllDigits d) (hdne : d ≠ []) (hdv : readDigits d = b) (hb : b ≠ 0) :
    parse (n ++ ' ' :: (f ++ '/' :: d)) = .ok ⟨q, ⟨(a : Rat) / (b : Rat)⟩⟩ := by
  set text := n ++ ' ' :: (f ++ '/' :: d) with htext
  obtain ⟨c, r, hcs, hc1, -⟩ := snumText_head hn
  have hstrip : stripSpaces text = text := by
    apply stripSpaces_id
    · intro c' r' h; rw [htext, hcs] at h; cases h; exact hc1
    · have : text = (n ++ ' ' :: (f ++ ['/'])) ++ d := by simp [htext]
      rw [this]; exact ends_of_digits _ d hd hdne
  have hne : text.isEmpty = false := by rw [htext, hcs]; rfl
  obtain ⟨more, hm⟩ := numCands_snumText hn (goodTail_space (f ++ '/' :: d))
  unfold parse
  rw [hstrip]
  have hp : matchPartial text = none := by
    unfold matchPartial
    rw [hne]; simp [htext, fracPart_two hn hf]
  obtain ⟨c2, r2, hf2, hc21, hc22⟩ := snumText_head hf
  have hskip : skipSpaces (' ' :: (f ++ '/' :: d)) = f ++ '/' :: d := by
    rw [hf2]
    show skipSpaces (' ' :: c2 :: (r2 ++ '/' :: d)) = _
    simp [skipSpaces, hc21]
    decide
  have hfull : matchFull text = some ⟨some n, some (f, d)⟩ := by
    unfold matchFull
    rw [htext, hm]
    unfold matchFullCands
    rw [hskip]
    have hfp := fracPart_some hf hd hdne
    rw [hf2] at hfp ⊢
    simp only [List.cons_append] at hfp ⊢
    rw [hfp]
  rw [hp, hfull]
  simp only [fromGroups, readFloat_snumText hn, readFloat_snumText hf, hdv]
  have hbR : ((b : Nat) : Rat) ≠ 0 := by exact_mod_cast hb
  rw [init_fin_fin _ _ hbR, normalise_int]
  simp [FV.init, setFraction]

/-! ### `str()` of a printable FractionValue -/

/-- at most six significant digits and `1e-4 ≤ |q| < 1e6`, or zero: `|q| = r / 10^s` with a
six-digit `r` and `s ≤ 9` -/
def Printable (q : Rat) : Prop :=
  q = 0 ∨ ∃ r s : Nat, 100000 ≤ r ∧ r < 1000000 ∧ s ≤ 9 ∧ |q| = (r : Rat) / 10 ^ s

theorem numText_natDigits (n : Nat) : NumText (natDigits n) (n : Rat) :=
  ⟨natDigits n, [], by simp, natDigits_ne_nil n, natDigits_allDigits n, by intro c hc; simp at hc,
   by simp [readDigits_natDigits]⟩

theorem fmtG_printable {q : Rat} (h : Printable q) : SNumText (fmtG q) q := by
  rcases h with rfl | ⟨r, s, hr, hr', hs, hq⟩
  · right
    have : fmtG 0 = natDigits 0 := rfl
    rw [this]
    simpa using numText_natDigits 0
  · rw [fmtG_fixed q r s hr hr' hs hq]
    have hnt := renderFixed_numText r s
    by_cases hneg : q < 0
    · rw [if_pos hneg]
      left
      refine ⟨_, _, rfl, hnt, ?_⟩
      rw [← hq, abs_of_neg hneg]; ring
    · rw [if_neg hneg]
      right
      rw [← hq, abs_of_nonneg (not_lt.mp hneg)] at hnt
      exact hnt

theorem fmtG_int_snum (z : Int) (h : z.natAbs < 1000000) : SNumText (fmtG (z : Rat)) (z : Rat) := by
  rw [fmtG_int z h]
  by_cases hz : z < 0
  · rw [if_pos hz]
    left
    refine ⟨_, _, rfl, numText_natDigits z.natAbs, ?_⟩
    have : z = -(z.natAbs : Int) := by omega
    conv_lhs => rw [this]
    rw [Int.cast_neg, Int.cast_natCast]
  · rw [if_neg hz]
    right
    have : z = (z.natAbs : Int) := by omega
    have e : (z : Rat) = ((z.natAbs : Nat) : Rat) := by
      conv_lhs => rw [this]
      rw [Int.cast_natCast]
    rw [e]
    exact numText_natDigits z.natAbs

/-- **formatting followed by parsing gives the FractionValue back**, number, numerator and
denominator, for every printable number and every fraction with numerator and denominator below
a million -/
theorem parse_str (v : FV) (hn : Printable v.number) (hnum : v.frac.x.num.natAbs < 1000000)
    (hden : v.frac.x.den < 1000000) : parse v.str = .ok v := by
  have hN := fmtG_printable hn
  unfold FV.str
  by_cases h0 : v.frac.toFloat = 0
  · rw [if_pos h0, parse_number hN]
    cases v with
    | mk n f => cases f with
      | mk x => simp only [Frac.toFloat] at h0; subst h0; rfl
  · rw [if_neg h0]
    unfold Frac.str Frac.numerator Frac.denominator
    have hF := fmtG_int_snum v.frac.x.num hnum
    have hD : fmtG ((v.frac.x.den : Int) : Rat) = natDigits v.frac.x.den := by
      rw [Int.cast_natCast]; exact fmtG_nat _ hden
    rw [hD]
    rw [parse_mixed hN hF (natDigits_allDigits _) (natDigits_ne_nil _) (readDigits_natDigits _) v.frac.x.den_nz]
    rw [Rat.num_div_den]

end Barril.Frac
