/-
Helper lemmas for C16 (legacy spellings): symbol codes, the rewrite on strings without legacy
fragments, lookups in a database with unique symbols, and `GetInfo` on a legacy spelling.
-/
import Barril.Model.LegacyApi
import Barril.Proofs.ConvLemmas

namespace Barril

/-! ### symbol codes -/

theorem symBytesFuel_ofBytes : ∀ (fuel n : Nat), n ≤ fuel → Sym.ofBytes (symBytesFuel fuel n) = n
  | 0, n, h => by
    have : n = 0 := by omega
    subst this; simp [symBytesFuel, Sym.ofBytes]
  | fuel + 1, n, h => by
    unfold symBytesFuel
    split
    · next h0 => simp [Sym.ofBytes, h0]
    · next h0 =>
      have hle : n / 256 ≤ fuel := by
        have : n / 256 < n := Nat.div_lt_self (Nat.pos_of_ne_zero h0) (by decide)
        omega
      simp only [Sym.ofBytes]
      rw [symBytesFuel_ofBytes fuel (n / 256) hle]
      exact Nat.mod_add_div n 256

theorem Sym.ofBytes_bytes (n : Sym) : Sym.ofBytes (Sym.bytes n) = n :=
  symBytesFuel_ofBytes n n (Nat.le_refl _)

/-! ### `FixUnitIfIsLegacy` on strings without legacy fragments -/

theorem isLegacy_eq_false_iff {L : List (Sym × Sym)} {u : Sym} :
    isLegacy L u = false ↔ fixLegacy L u = u := by
  simp [isLegacy]

theorem isLegacy_eq_true_iff {L : List (Sym × Sym)} {u : Sym} :
    isLegacy L u = true ↔ fixLegacy L u ≠ u := by
  simp [isLegacy]

theorem replaceAllFuel_of_not_contains (pat rep : List Nat) :
    ∀ (fuel : Nat) (s : List Nat), containsB s pat = false → replaceAllFuel fuel s pat rep = s
  | 0, s, _ => by cases s <;> simp [replaceAllFuel]
  | f + 1, [], _ => by simp [replaceAllFuel]
  | f + 1, c :: cs, h => by
    simp only [containsB, Bool.or_eq_false_iff] at h
    simp only [replaceAllFuel, h.1, Bool.false_eq_true, ↓reduceIte]
    rw [replaceAllFuel_of_not_contains pat rep f cs h.2]

theorem replaceAll_of_not_contains {s pat rep : List Nat} (h : containsB s pat = false) :
    replaceAll s pat rep = s := by
  unfold replaceAll
  split
  · rfl
  · exact replaceAllFuel_of_not_contains pat rep _ s h

theorem fixLegacyBytes_of_noFragment :
    ∀ (L : List (Sym × Sym)) (s : List Nat), noFragment L s = true → fixLegacyBytes L s = s
  | [], s, _ => rfl
  | lc :: L, s, h => by
    simp only [noFragment, List.all_cons, Bool.and_eq_true, Bool.not_eq_eq_eq_not, Bool.not_true] at h
    have h2 : noFragment L s = true := h.2
    unfold fixLegacyBytes
    rw [List.foldl_cons, replaceAll_of_not_contains h.1]
    exact fixLegacyBytes_of_noFragment L s h2

theorem fixLegacy_of_noFragment {L : List (Sym × Sym)} {u : Sym}
    (h : noFragment L (Sym.bytes u) = true) : fixLegacy L u = u := by
  unfold fixLegacy
  rw [fixLegacyBytes_of_noFragment L _ h, Sym.ofBytes_bytes]

/-! ### lookups -/

theorem Db.unitBySym_some {db : Db} {u : Sym} {r : UnitRow} (h : db.unitBySym u = some r) :
    r ∈ db.units ∧ r.sym = u := by
  unfold Db.unitBySym at h
  exact ⟨List.mem_of_find?_eq_some h, by simpa using List.find?_some h⟩

theorem Db.unitBySym_none {db : Db} {u : Sym} (h : db.unitBySym u = none) :
    ∀ r ∈ db.units, r.sym ≠ u := by
  unfold Db.unitBySym at h
  intro r hr
  have := List.find?_eq_none.mp h r hr
  simpa using this

theorem Db.tryInfo_of_not_symbol {db : Db} {u : Sym} (h : db.unitBySym u = none) (qt : Sym) :
    db.tryInfo qt u = none := by
  simp [Db.tryInfo, h]

theorem Db.find_unitsOfType_of_not_symbol {db : Db} {u : Sym} (h : db.unitBySym u = none) (qt : Sym) :
    (db.unitsOfType qt).find? (·.sym == u) = none := by
  rw [List.find?_eq_none]
  intro r hr
  have hm : r ∈ db.units := (List.mem_filter.mp hr).1
  simpa using Db.unitBySym_none h r hm

theorem Db.hasType_of_mem {db : Db} {r : UnitRow} (h : r ∈ db.units) : db.hasType r.qtype = true := by
  unfold Db.hasType
  exact List.any_eq_true.mpr ⟨r, h, by simp⟩

/-- the row `r` is the only row of the database whose symbol is `c` -/
def Db.OnlyRow (db : Db) (c : Sym) (r : UnitRow) : Prop := ∀ a ∈ db.units, a.sym = c → a = r

theorem Db.find_unitsOfType_of_only {db : Db} {c : Sym} {r : UnitRow}
    (hc : db.unitBySym c = some r) (hu : db.OnlyRow c r) (qt : Sym) :
    (db.unitsOfType qt).find? (·.sym == c) = if r.qtype == qt then some r else none := by
  obtain ⟨hmem, hsym⟩ := Db.unitBySym_some hc
  cases hf : (db.unitsOfType qt).find? (·.sym == c) with
  | none =>
    have hn := List.find?_eq_none.mp hf r
    split
    · next hq =>
      exfalso
      exact hn (List.mem_filter.mpr ⟨hmem, hq⟩) (by simp [hsym])
    · rfl
  | some a =>
    have ha := List.mem_filter.mp (List.mem_of_find?_eq_some hf)
    have hs : a.sym = c := by simpa using List.find?_some hf
    have hu' := hu a ha.1 hs
    subst hu'
    simp [ha.2]

theorem Db.tryInfo_of_symbol {db : Db} {c : Sym} {r : UnitRow} (hc : db.unitBySym c = some r) (qt : Sym) :
    db.tryInfo qt c = if r.qtype == qt then some r else none := by
  simp [Db.tryInfo, hc]

/-! ### `GetInfo` on a string that is no symbol, and on a symbol -/

theorem Db.getInfo_of_not_symbol {db : Db} {l : Sym} (hl : db.unitBySym l = none)
    (qt0 : Sym) (fu fl : Bool) :
    db.getInfo qt0 l fu fl =
      if !db.hasType (db.resolveQt qt0) then .error .units else
      match db.infoUnknown (db.resolveQt qt0) fu with
      | some r => .ok r
      | none =>
        match db.infoLegacy (db.resolveQt qt0) l fl with
        | some r => .ok r
        | none => .error .units := by
  unfold Db.getInfo
  rw [Db.tryInfo_of_not_symbol hl, Db.find_unitsOfType_of_not_symbol hl]
  rfl

theorem Db.getInfo_of_symbol {db : Db} {c : Sym} {r : UnitRow}
    (hc : db.unitBySym c = some r) (hu : db.OnlyRow c r) (hst : isLegacy db.legacy c = false)
    (qt0 : Sym) (fu fl : Bool) :
    db.getInfo qt0 c fu fl =
      if r.qtype == qt0 then .ok r else
      if !db.hasType (db.resolveQt qt0) then .error .units else
      if r.qtype == db.resolveQt qt0 then .ok r else
      match db.infoUnknown (db.resolveQt qt0) fu with
      | some r => .ok r
      | none => .error .units := by
  unfold Db.getInfo
  rw [Db.tryInfo_of_symbol hc, Db.find_unitsOfType_of_only hc hu]
  have hL : db.infoLegacy (db.resolveQt qt0) c fl = none := by simp [Db.infoLegacy, hst]
  rw [hL]
  by_cases h0 : (r.qtype == qt0) = true
  · simp [h0]
  · simp only [h0, Bool.false_eq_true, ↓reduceIte]
    by_cases h1 : (r.qtype == db.resolveQt qt0) = true
    · simp [h1]
    · simp only [h1, Bool.false_eq_true, ↓reduceIte]
      rfl

/-- `l` is a legacy spelling of the current symbol `c`, whose row is `r` -/
structure Db.Alias (db : Db) (l c : Sym) (r : UnitRow) : Prop where
  notSym : db.unitBySym l = none
  fix : fixLegacy db.legacy l = c
  row : db.unitBySym c = some r
  stable : fixLegacy db.legacy c = c
  /-- `AddUnit` refuses a symbol twice: `r` is the only row spelled `c` -/
  only : db.OnlyRow c r
  /-- a category named like the quantity type of `r` belongs to that type -/
  typeName : ∀ ci, db.catByName r.qtype = some ci → ci.qtype = r.qtype

namespace Db.Alias
variable {db : Db} {l c : Sym} {r : UnitRow}

theorem ne (h : db.Alias l c r) : l ≠ c := by
  intro e
  have := h.row
  rw [← e, h.notSym] at this
  cases this

theorem isLegacy (h : db.Alias l c r) : Barril.isLegacy db.legacy l = true := by
  rw [isLegacy_eq_true_iff, h.fix]; exact h.ne.symm

theorem notLegacy (h : db.Alias l c r) : Barril.isLegacy db.legacy c = false :=
  isLegacy_eq_false_iff.mpr h.stable

theorem mem (h : db.Alias l c r) : r ∈ db.units := (Db.unitBySym_some h.row).1

theorem sym (h : db.Alias l c r) : r.sym = c := (Db.unitBySym_some h.row).2

theorem resolveQt (h : db.Alias l c r) : db.resolveQt r.qtype = r.qtype := by
  unfold Db.resolveQt
  split
  · next ci hci => exact h.typeName ci hci
  · rfl

end Db.Alias

theorem Db.infoUnknown_none_of {db : Db} {qt : Sym} {fu : Bool}
    (h : fu = false ∨ qt ≠ unknownQType) : db.infoUnknown qt fu = none := by
  unfold Db.infoUnknown
  rcases h with h | h
  · simp [h]
  · have : (qt == unknownQType) = false := by simpa using h
    simp [this]

/-- the heart of C16: `GetInfo` answers a legacy spelling with the row of the current spelling -/
theorem Db.getInfo_alias {db : Db} {l c : Sym} {r : UnitRow} (h : db.Alias l c r)
    (qt0 : Sym) {fu : Bool} (hU : fu = false ∨ r.qtype ≠ unknownQType) :
    db.getInfo qt0 l fu true = db.getInfo qt0 c fu true := by
  rw [Db.getInfo_of_not_symbol h.notSym, Db.getInfo_of_symbol h.row h.only h.notLegacy]
  have hLeg : ∀ qt, db.infoLegacy qt l true = if r.qtype == qt then some r else none := by
    intro qt
    simp [Db.infoLegacy, h.isLegacy, h.fix, Db.tryInfo_of_symbol h.row]
  by_cases h0 : (r.qtype == qt0) = true
  · have e0 : r.qtype = qt0 := by simpa using h0
    have hT : db.hasType qt0 = true := e0 ▸ Db.hasType_of_mem h.mem
    have hR : db.resolveQt qt0 = qt0 := e0 ▸ h.resolveQt
    rw [hR, hLeg, Db.infoUnknown_none_of (e0 ▸ hU)]
    simp [h0, hT]
  · simp only [h0, Bool.false_eq_true, ↓reduceIte]
    by_cases hT : db.hasType (db.resolveQt qt0) = true
    · simp only [hT, Bool.not_true, Bool.false_eq_true, ↓reduceIte]
      by_cases h1 : (r.qtype == db.resolveQt qt0) = true
      · have e1 : r.qtype = db.resolveQt qt0 := by simpa using h1
        rw [hLeg, Db.infoUnknown_none_of (e1 ▸ hU)]
        simp [h1]
      · rw [hLeg]
        simp only [h1, Bool.false_eq_true, ↓reduceIte]
    · simp [hT]

/-- without the legacy fallback and without the unknown fallback a string that is no symbol is
rejected: `CheckQuantityTypeUnit` -/
theorem Db.categoryUnitValid_of_not_symbol {db : Db} {l : Sym} (hl : db.unitBySym l = none) (cat : Sym) :
    db.categoryUnitValid cat l = false := by
  unfold Db.categoryUnitValid
  split
  · rfl
  · unfold Db.checkQuantityTypeUnit
    rw [Db.getInfo_of_not_symbol hl]
    simp [Db.infoUnknown, Db.infoLegacy]

/-! ### the composing-mapping forms of `ObtainQuantity` -/

/-- `CheckQuantityTypeUnit` (no legacy fallback, no unknown fallback) rejects a string that is no
symbol -/
theorem Db.checkQuantityTypeUnit_of_not_symbol {db : Db} {l : Sym} (hl : db.unitBySym l = none)
    (qt : Sym) : db.checkQuantityTypeUnit qt l = .error .units := by
  unfold Db.checkQuantityTypeUnit
  rw [Db.getInfo_of_not_symbol hl]
  simp only [Db.infoUnknown, Db.infoLegacy, Bool.false_and, Bool.false_eq_true, ↓reduceIte, ite_self]

/-- `GetInfo` fails with `InvalidUnitError`/`InvalidQuantityTypeError` only -/
theorem Db.getInfo_error_units {db : Db} {qt u : Sym} {fu fl : Bool} {e : ErrKind}
    (h : db.getInfo qt u fu fl = .error e) : e = .units := by
  unfold Db.getInfo at h
  split at h
  · cases h
  · split at h
    · cases h; rfl
    · split at h
      · cases h
      · split at h
        · cases h
        · split at h
          · cases h
          · cases h; rfl

theorem Db.checkQuantityTypeUnit_error_units {db : Db} {qt u : Sym} {e : ErrKind}
    (h : db.checkQuantityTypeUnit qt u = .error e) : e = .units := by
  unfold Db.checkQuantityTypeUnit at h
  split at h
  · cases h
  · next e' he => cases h; exact Db.getInfo_error_units he

/-- the validation loop over a mapping fails (with a units error) as soon as one cell's unit is no
symbol -/
theorem Db.checkCells_of_not_symbol {db : Db} :
    ∀ cells : List MapCell, (∃ c ∈ cells, db.unitBySym c.unit = none) →
      db.checkCells cells = .error .units
  | [], h => by obtain ⟨c, hc, _⟩ := h; cases hc
  | c :: cs, h => by
    unfold Db.checkCells
    cases hcat : db.catByName c.cat with
    | none => rfl
    | some ci =>
      simp only
      cases hq : db.checkQuantityTypeUnit ci.qtype c.unit with
      | error e => rw [Db.checkQuantityTypeUnit_error_units hq]
      | ok _ =>
        simp only
        apply Db.checkCells_of_not_symbol cs
        obtain ⟨d, hd, hn⟩ := h
        rcases List.mem_cons.mp hd with rfl | hd
        · rw [Db.checkQuantityTypeUnit_of_not_symbol hn] at hq; cases hq
        · exact ⟨d, hd, hn⟩

/-! ### from the table predicates to `Db.Alias` -/

theorem mem_deriveFor_snd {L : List (Sym × Sym)} {u : Sym} {p : Sym × Sym} (h : p ∈ deriveFor L u) :
    p.2 = u := by
  unfold deriveFor at h
  obtain ⟨lc, _, rfl⟩ := List.mem_map.mp h
  rfl

/-- the two unit-table predicates give, for every derived spelling, everything the generic theorems
ask for -/
theorem Db.alias_of_tables {db : Db}
    (h1 : db.units.all (UnitRow.notRewritten db.legacy) = true)
    (h2 : db.units.all (UnitRow.derivedOk db) = true) :
    ∀ p ∈ db.derive, ∃ r, db.Alias p.1 p.2 r ∧ r.qtype ≠ unknownQType := by
  intro p hp
  unfold Db.derive at hp
  obtain ⟨r, hr, hpr⟩ := List.mem_flatMap.mp hp
  have hsnd := mem_deriveFor_snd hpr
  have hd := List.all_eq_true.mp h2 r hr
  unfold UnitRow.derivedOk at hd
  have hne' : (deriveFor db.legacy r.sym).isEmpty = false := by
    cases hde : deriveFor db.legacy r.sym with
    | nil => rw [hde] at hpr; cases hpr
    | cons a t => rfl
  simp only [hne', Bool.false_or, Bool.and_eq_true, bne_iff_ne, ne_eq] at hd
  obtain ⟨⟨⟨hall, hq⟩, honly⟩, hstab⟩ := hd
  have hpair := List.all_eq_true.mp hall p hpr
  unfold derivedPairOk at hpair
  simp only [Bool.and_eq_true, beq_iff_eq, bne_iff_ne, ne_eq] at hpair
  obtain ⟨⟨hfix, hne⟩, _⟩ := hpair
  unfold UnitRow.onlyOne at honly
  have hfil : db.units.filter (·.sym == r.sym) = [r] := by simpa using honly
  have hrow : db.unitBySym r.sym = some r := by
    unfold Db.unitBySym
    rw [← List.head?_filter, hfil]; rfl
  have honlyP : db.OnlyRow r.sym r := by
    intro a ha hs
    have : a ∈ db.units.filter (·.sym == r.sym) := List.mem_filter.mpr ⟨ha, by simp [hs]⟩
    rw [hfil] at this
    simpa using this
  have hst : fixLegacy db.legacy r.sym = r.sym := by
    have := List.all_eq_true.mp h1 r hr
    simpa [UnitRow.notRewritten] using this
  have htn : ∀ ci, db.catByName r.qtype = some ci → ci.qtype = r.qtype := by
    intro ci hci
    unfold UnitRow.typeNameStable at hstab
    rw [hci] at hstab
    simpa using hstab
  refine ⟨r, ⟨?_, hfix, hsnd ▸ hrow, hsnd ▸ hst, hsnd ▸ honlyP, htn⟩, hq⟩
  cases hq' : db.unitBySym p.1 with
  | none => rfl
  | some r' =>
    exfalso
    obtain ⟨hm, hs⟩ := Db.unitBySym_some hq'
    have := List.all_eq_true.mp h1 r' hm
    simp only [UnitRow.notRewritten, beq_iff_eq] at this
    rw [hs, hfix] at this
    exact hne this.symm

/-! ### small facts used by the value-level theorems -/

theorem mapRows_self {r : UnitRow} (hw : r.WF) : ∀ xs : List Rat, mapRows r r xs = .ok xs
  | [] => rfl
  | x :: xs => by
    unfold mapRows
    rw [convRows_eq hw hw, convVal_self hw, mapRows_self hw xs]

/-- a quantity built from a string that is not rewritten stores exactly that string, and its
to-base row exists -/
theorem Db.newQuantity_ok_inv {db : Db} {cat u : Sym} {q : Simple}
    (h : db.newQuantity cat u = .ok q) (hu : isLegacy db.legacy u = false) :
    ∃ ci r, db.catByName cat = some ci ∧ q = ⟨cat, u⟩ ∧ db.getInfo ci.qtype u true = .ok r := by
  unfold Db.newQuantity at h
  cases hc : db.catByName cat with
  | none => rw [hc] at h; cases h
  | some ci =>
    rw [hc] at h
    simp only [hu, Bool.false_eq_true, ↓reduceIte] at h
    split at h
    · unfold Db.finishQuantity at h
      cases hg : db.getInfo ci.qtype u true with
      | error e => rw [hg] at h; cases h
      | ok r => rw [hg] at h; cases h; exact ⟨ci, r, rfl, rfl, hg⟩
    · cases h

/-- whatever string a quantity was asked for: the stored unit is a symbol of the table (it passed
`CheckCategoryUnit`, which knows neither the legacy nor the unknown fallback), the stored category
is the one given, and the to-base row exists -/
theorem Db.newQuantity_ok_inv' {db : Db} {cat u : Sym} {q : Simple}
    (h : db.newQuantity cat u = .ok q) :
    ∃ ci r, db.catByName cat = some ci ∧ q.cat = cat ∧ db.unitBySym q.unit ≠ none
      ∧ db.getInfo ci.qtype q.unit true = .ok r := by
  have key : ∀ (ci : CatRow) (w : Sym), db.catByName cat = some ci → db.categoryUnitValid cat w = true →
      db.finishQuantity ci cat w = .ok q →
      ∃ ci r, db.catByName cat = some ci ∧ q.cat = cat ∧ db.unitBySym q.unit ≠ none
        ∧ db.getInfo ci.qtype q.unit true = .ok r := by
    intro ci w hc hv hf
    unfold Db.finishQuantity at hf
    cases hg : db.getInfo ci.qtype w true with
    | error e => rw [hg] at hf; cases hf
    | ok r =>
      rw [hg] at hf; cases hf
      refine ⟨ci, r, hc, rfl, ?_, hg⟩
      intro hn
      rw [Db.categoryUnitValid_of_not_symbol hn cat] at hv
      cases hv
  unfold Db.newQuantity at h
  cases hc : db.catByName cat with
  | none => rw [hc] at h; cases h
  | some ci =>
    rw [hc] at h
    simp only at h
    by_cases hv : db.categoryUnitValid cat u = true
    · simp only [hv, ↓reduceIte] at h
      simpa only [hc] using key ci u hc hv h
    · simp only [hv, Bool.false_eq_true, ↓reduceIte] at h
      by_cases hl : isLegacy db.legacy u = true
      · simp only [hl, ↓reduceIte] at h
        by_cases hv2 : db.categoryUnitValid cat (fixLegacy db.legacy u) = true
        · simp only [hv2, ↓reduceIte] at h
          simpa only [hc] using key ci _ hc hv2 h
        · simp only [hv2, Bool.false_eq_true, ↓reduceIte] at h
          cases h
      · simp only [hl, Bool.false_eq_true, ↓reduceIte] at h
        cases h

theorem Db.fixValid_map_fix {db : Db} (qt : Sym) :
    ∀ vs : List Sym, (∀ v ∈ vs, fixLegacy db.legacy (fixLegacy db.legacy v) = fixLegacy db.legacy v) →
      db.fixValid qt (vs.map (fixLegacy db.legacy)) = db.fixValid qt vs
  | [], _ => rfl
  | v :: vs, h => by
    simp only [List.map_cons, Db.fixValid]
    rw [h v (List.mem_cons_self ..), Db.fixValid_map_fix qt vs (fun w hw => h w (List.mem_cons_of_mem _ hw))]

/-! ### a registration and the alias pairs -/

theorem find_upsertCat (row : CatRow) (n : Sym) : ∀ cs : List CatRow,
    (upsertCat row cs).find? (·.name == n) =
      if row.name == n then some row else cs.find? (·.name == n)
  | [] => by
    cases hrn : (row.name == n) <;> simp [upsertCat, List.find?, hrn]
  | c :: cs => by
    unfold upsertCat
    by_cases hcr : (c.name == row.name) = true
    · have e : c.name = row.name := by simpa using hcr
      rw [if_pos hcr]
      cases hrn : (row.name == n) with
      | true => simp [List.find?, hrn]
      | false =>
        have : (c.name == n) = false := by rw [e]; exact hrn
        simp [List.find?, hrn, this]
    · rw [if_neg hcr]
      cases hcn : (c.name == n) with
      | true =>
        have e : c.name = n := by simpa using hcn
        have hrn : (row.name == n) = false := by
          rw [← e]
          have : ¬ c.name = row.name := by simpa using hcr
          simpa using fun h' => this h'.symm
        simp [List.find?, hcn, hrn]
      | false =>
        have ih := find_upsertCat row n cs
        simp only [List.find?, hcn]
        exact ih

/-- what a successful registration does to the database: one category row is written, nothing else -/
theorem Db.addCategoryFull_ok_inv {db db' : Db} {name qt : Sym} {valid : Option (List Sym)}
    {dflt : Option Sym} {caption : Sym} {override : Bool} {dv mn mx : Option Rat} {minx maxx : Bool}
    (h : db.addCategoryFull name qt valid dflt caption override dv mn mx minx maxx = .ok db') :
    ∃ row : CatRow, row.name = name ∧ row.qtype = qt ∧ db' = { db with cats := upsertCat row db.cats } := by
  unfold Db.addCategoryFull at h
  split at h
  · cases h
  · split at h
    · cases h
    · split at h
      · cases h
      · split at h
        · cases h
        · split at h
          · cases h
          · split at h
            · cases h
            · cases h
              exact ⟨_, rfl, rfl, rfl⟩

/-- an alias pair stays one after a registration, unless the new category is named like the quantity
type of the unit and belongs to another type (then `GetInfo`'s "category or quantity type" argument
changes its meaning) -/
theorem Db.Alias.after_register {db db' : Db} {l c : Sym} {r : UnitRow} (h : db.Alias l c r)
    {row : CatRow} (hdb : db' = { db with cats := upsertCat row db.cats })
    (hname : row.name ≠ r.qtype ∨ row.qtype = r.qtype) : db'.Alias l c r := by
  subst hdb
  refine ⟨h.notSym, h.fix, h.row, h.stable, h.only, ?_⟩
  intro ci hci
  unfold Db.catByName at hci
  simp only [find_upsertCat] at hci
  split at hci
  · next hn =>
    cases hci
    rcases hname with hne | heq
    · exact absurd (by simpa using hn) hne
    · exact heq
  · exact h.typeName ci hci

end Barril
