/-
Lemmas for the extensions of the `Frac` engine (C18): pools of objects and operation sequences,
the in-place setters and the sequence protocol of `Fraction`, `Fraction.__pow__`.
-/
import Barril.Proofs.FracLemmas

namespace Barril.Frac
open Barril

/-! ### pools -/

theorem poolStep_length_le (db : Db) (p : Pool) (op : PoolOp) : p.length ≤ (poolStep db p op).1.length := by
  cases op with
  | new c =>
    simp only [poolStep]
    split <;> simp
  | upd i m =>
    simp only [poolStep]
    split
    · simp
    · split <;> simp

/-- an operation leaves every object it is not aimed at as it was -/
theorem poolStep_get_other (db : Db) (p : Pool) (op : PoolOp) (j : Nat) (hj : j < p.length)
    (h : op.target ≠ some j) : (poolStep db p op).1[j]? = p[j]? := by
  cases op with
  | new c =>
    simp only [poolStep]
    split
    · exact List.getElem?_append_left hj
    · rfl
    · rfl
  | upd i m =>
    have hij : i ≠ j := fun e => h (by simp [PoolOp.target, e])
    simp only [poolStep]
    split
    · rfl
    · split
      · exact List.getElem?_set_ne hij
      · rfl

theorem mutsOf_nil_of_no_target (j : Nat) :
    ∀ (ops : List PoolOp), (∀ op ∈ ops, op.target ≠ some j) → mutsOf j ops = [] := by
  intro ops
  induction ops with
  | nil => intro _; rfl
  | cons op ops ih =>
    intro h
    have h1 := h op (by simp)
    have h2 := ih (fun o ho => h o (by simp [ho]))
    cases op with
    | new c => simpa [mutsOf] using h2
    | upd i m =>
      have hij : i ≠ j := fun e => h1 (by simp [PoolOp.target, e])
      simp [mutsOf, hij, h2]

/-- after a whole program object `j` is what the in-place operations aimed at `j`, applied to it alone,
make of it -/
theorem poolRun_projection (db : Db) :
    ∀ (ops : List PoolOp) (p : Pool) (j : Nat) (o : Obj), p[j]? = some o →
      (poolRun db p ops)[j]? = some (o.mutateAll (mutsOf j ops)) := by
  intro ops
  induction ops with
  | nil => intro p j o h; simpa [poolRun, mutsOf, Obj.mutateAll] using h
  | cons op ops ih =>
    intro p j o h
    have hj : j < p.length := (List.getElem?_eq_some_iff.mp h).1
    cases op with
    | new c =>
      have hs : (poolStep db p (.new c)).1[j]? = some o := by
        rw [poolStep_get_other db p (.new c) j hj (by simp [PoolOp.target])]; exact h
      simpa [poolRun, mutsOf] using ih _ j o hs
    | upd i m =>
      by_cases hij : i = j
      · subst hij
        cases hm : o.mutate m with
        | ok o' =>
          have hs : (poolStep db p (.upd i m)).1[i]? = some o' := by
            simp only [poolStep, h, hm]
            exact List.getElem?_set_self hj
          have := ih _ i o' hs
          simpa [poolRun, mutsOf, Obj.mutateAll, hm] using this
        | error e =>
          have hs : (poolStep db p (.upd i m)).1[i]? = some o := by
            simp only [poolStep, h, hm]
          have := ih _ i o hs
          simpa [poolRun, mutsOf, Obj.mutateAll, hm] using this
      · have hs : (poolStep db p (.upd i m)).1[j]? = some o := by
          rw [poolStep_get_other db p (.upd i m) j hj (by simp [PoolOp.target, hij])]; exact h
        simpa [poolRun, mutsOf, hij] using ih _ j o hs

/-- a successful construction puts its object at the end of the pool -/
theorem poolStep_new (db : Db) (p : Pool) (c : Ctor) (o : Obj) (h : c.eval db p = .ok (some o)) :
    poolStep db p (.new c) = (p ++ [o], .ok ()) := by
  simp [poolStep, h]

/-- `FractionValue(n)`: the default fraction is zero -/
theorem fvInit_default (n : Rat) : FV.init (some n) FracArg.default = .ok ⟨n, ⟨0⟩⟩ := by
  have h := init_fin_fin 0 1 (by norm_num)
  have h' := normalise_int 0 1
  simp only [Int.cast_zero, div_one] at h'
  rw [h'] at h
  simp [FV.init, setFraction, FracArg.default, h]

/-! ### setters -/

theorem setNum_int (f : Frac) (n : Int) : f.setNum (.int n) = .ok ⟨(n : Rat) / (f.denominator : Rat)⟩ := by
  have hd : f.denominator ≠ 0 := by unfold Frac.denominator; exact_mod_cast f.x.den_nz
  simp [Frac.setNum, stdFraction, hd]

theorem setDen_int (f : Frac) (d : Int) (hd : d ≠ 0) : f.setDen (.int d) = .ok ⟨(f.numerator : Rat) / (d : Rat)⟩ := by
  simp [Frac.setDen, stdFraction, hd]

theorem setDen_zero (f : Frac) : f.setDen (.int 0) = .error .other := by
  simp [Frac.setDen, stdFraction]

/-- a float numerator that is a decimal with at most seven places is taken at its value -/
theorem setNum_decimal (f : Frac) (m : Int) (i : Nat) (hi : i ≤ 7) :
    f.setNum (.float ((m : Rat) / 10 ^ i)) = .ok ⟨(m : Rat) / 10 ^ i / (f.denominator : Rat)⟩ := by
  simp only [Frac.setNum]
  rw [setNumerator_eq, normalise_decimal m i hi]
  simp [Frac.denominator]

theorem setDen_decimal (f : Frac) (m : Int) (i : Nat) (hi : i ≤ 7) (hm : m ≠ 0) :
    f.setDen (.float ((m : Rat) / 10 ^ i)) = .ok ⟨(f.numerator : Rat) / ((m : Rat) / 10 ^ i)⟩ := by
  simp only [Frac.setDen]
  rw [init_fin_none, init_fin_none, normalise_decimal m i hi, normalise_int]
  have : ((m : Rat) / 10 ^ i / 1) ≠ 0 := by
    have h10 : ((10 : Rat) ^ i) ≠ 0 := pow_ne_zero _ (by norm_num)
    have hm' : (m : Rat) ≠ 0 := by exact_mod_cast hm
    simp [hm', h10]
  simp only [this, if_false]
  simp

/-! ### `**` -/

theorem powInt_nonneg (s : Frac) (k : Nat) : s.powInt (k : Int) = .ok ⟨s.x ^ k⟩ := by
  unfold Frac.powInt
  have hk : ¬ ((k : Int) < 0) := by omega
  rw [if_neg hk]
  have hd : ((s.denominator ^ (k : Int).toNat : Int) : Rat) ≠ 0 := by
    have : s.denominator ≠ 0 := by unfold Frac.denominator; exact_mod_cast s.x.den_nz
    exact_mod_cast pow_ne_zero _ this
  rw [init_fin_fin _ _ hd, normalise_int]
  congr 2
  simp only [Int.toNat_natCast, Frac.numerator, Frac.denominator]
  push_cast
  rw [← div_pow]
  have := num_div_den' s.x
  push_cast at this
  rw [this]

theorem powInt_neg (s : Frac) (k : Nat) (hk : 0 < k) (hx : s.x ≠ 0) :
    s.powInt (-(k : Int)) = .ok ⟨(s.x ^ k)⁻¹⟩ := by
  unfold Frac.powInt
  have hk' : (-(k : Int)) < 0 := by omega
  rw [if_pos hk']
  have hn : s.numerator ≠ 0 := by unfold Frac.numerator; exact Rat.num_ne_zero.mpr hx
  have hd : ((s.numerator ^ (- -(k : Int)).toNat : Int) : Rat) ≠ 0 := by
    exact_mod_cast pow_ne_zero _ hn
  rw [init_fin_fin _ _ hd, normalise_int]
  congr 2
  simp only [neg_neg, Int.toNat_natCast, Frac.numerator, Frac.denominator]
  push_cast
  rw [← div_pow, ← inv_pow]
  congr 1
  have := num_div_den' s.x
  push_cast at this
  conv_rhs => rw [← this, inv_div]

theorem powInt_neg_zero (s : Frac) (k : Nat) (hk : 0 < k) (hx : s.x = 0) :
    s.powInt (-(k : Int)) = .error .assertion := by
  unfold Frac.powInt
  have hk' : (-(k : Int)) < 0 := by omega
  rw [if_pos hk']
  have hn : s.numerator = 0 := by unfold Frac.numerator; rw [hx]; rfl
  have : ((s.numerator ^ (- -(k : Int)).toNat : Int) : Rat) = 0 := by
    simp only [neg_neg, Int.toNat_natCast, hn]
    have : k ≠ 0 := by omega
    simp [this]
  rw [this]
  exact init_fin_zero _

end Barril.Frac
