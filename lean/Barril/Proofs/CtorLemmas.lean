/-
Helper lemmas for C19 (`Barril/Model/Ctor.lean`): symbol codes, the literal reader, quantities.
-/
import Barril.Model.Ctor

namespace Barril.Ctor
open Barril

/-! ### symbol codes -/

theorem ofBytes_symBytesFuel : ∀ (fuel n : Nat), n ≤ fuel → Sym.ofBytes (symBytesFuel fuel n) = n
  | 0, n, h => by
    have : n = 0 := by omega
    subst this; simp [symBytesFuel, Sym.ofBytes]
  | fuel + 1, n, h => by
    unfold symBytesFuel
    by_cases h0 : n = 0
    · simp [h0, Sym.ofBytes]
    · simp only [h0, ↓reduceIte, Sym.ofBytes]
      rw [ofBytes_symBytesFuel fuel (n / 256) (by omega)]
      exact Nat.mod_add_div n 256

/-- decoding a symbol code and encoding the bytes again gives the code back -/
theorem ofBytes_bytes (n : Sym) : Sym.ofBytes (Sym.bytes n) = n :=
  ofBytes_symBytesFuel n n (Nat.le_refl n)

/-! ### the literal reader -/

/-- a byte the reader copies -/
def plainByte (c : Nat) : Bool := !(c == quote || c == backslash || c == 10 || c == 13)

theorem plainBytes_cons (c : Nat) (cs : List Nat) :
    plainBytes (c :: cs) = (plainByte c && plainBytes cs) := by
  simp [plainBytes, plainByte]

theorem parseLitBody_plain : ∀ (s : List Nat), plainBytes s = true → parseLitBody (s ++ [quote]) = some s
  | [], _ => by simp [parseLitBody]
  | c :: cs, h => by
    rw [plainBytes_cons] at h
    simp only [Bool.and_eq_true] at h
    have ih := parseLitBody_plain cs h.2
    have hc := h.1
    simp only [plainByte, Bool.not_eq_true', Bool.or_eq_false_iff] at hc
    obtain ⟨⟨⟨h1, h2⟩, h3⟩, h4⟩ := hc
    simp [parseLitBody, h1, h2, h3, h4, ih]

theorem parseLitBody_some : ∀ (s t : List Nat), parseLitBody (s ++ [quote]) = some t → plainBytes s = true ∧ t = s
  | [], t, h => by
    simp [parseLitBody] at h
    simp [plainBytes, h]
  | c :: cs, t, h => by
    simp only [List.cons_append, parseLitBody] at h
    by_cases h1 : (c == quote) = true
    · simp [h1] at h
    · simp only [h1, Bool.false_eq_true, ↓reduceIte] at h
      by_cases h2 : (c == backslash || c == 10 || c == 13) = true
      · simp [h2] at h
      · simp only [h2, Bool.false_eq_true, ↓reduceIte, Option.map_eq_some_iff] at h
        obtain ⟨t', ht', rfl⟩ := h
        have ih := parseLitBody_some cs t' ht'
        rw [plainBytes_cons]
        refine ⟨?_, by rw [ih.2]⟩
        simp only [Bool.and_eq_true, ih.1, and_true, plainByte]
        simp only [Bool.not_eq_true] at h1 h2
        simp only [Bool.or_eq_false_iff] at h2
        simp [h1, h2.1.1, h2.1.2, h2.2]

/-- **a `'…'` literal written without escaping reads back as the same bytes exactly when the bytes
contain no quote, backslash or line break** -/
theorem parseLit_quoteLit_iff (s : List Nat) : parseLit (quoteLit s) = some s ↔ plainBytes s = true := by
  simp only [parseLit, quoteLit, beq_self_eq_true, ↓reduceIte]
  constructor
  · intro h; exact (parseLitBody_some s s h).1
  · exact parseLitBody_plain s

/-- whatever a written literal reads back as, it is the bytes that were written -/
theorem parseLit_quoteLit_eq (s t : List Nat) (h : parseLit (quoteLit s) = some t) : t = s := by
  simp only [parseLit, quoteLit, beq_self_eq_true, ↓reduceIte] at h
  exact (parseLitBody_some s t h).2

/-! ### quantities -/

/-- the `float(s)` remembered with a category string plays no role in building a quantity -/
theorem newQuantity_str_irrel (db : Db) (c : Sym) (f f' : Option Rat) (u : Sym) :
    newQuantity db (.str c f) u = newQuantity db (.str c f') u := rfl

/-- a unit that passed `CheckCategoryUnit` (possibly after the legacy fix) is valid for the category -/
theorem checkedUnit_valid {db : Db} {c u u' : Sym} (h : checkedUnit db c u = .ok u') :
    db.categoryUnitValid c u' = true := by
  unfold checkedUnit at h
  split at h
  · cases h; assumption
  · split at h
    · split at h
      · cases h; assumption
      · cases h
    · cases h

theorem checkedUnit_of_valid {db : Db} {c u : Sym} (h : db.categoryUnitValid c u = true) :
    checkedUnit db c u = .ok u := by
  simp [checkedUnit, h]

/-- what a successfully built simple quantity looks like -/
theorem newQuantity_ok {db : Db} {c : Sym} {f : Option Rat} {u : Sym} {q : Qty}
    (h : newQuantity db (.str c f) u = .ok q) :
    ∃ ci, db.catByName c = some ci ∧ checkedUnit db c u = .ok q.unit ∧ q.cat = c
      ∧ finishQuantity db ci c q.unit = .ok q := by
  simp only [newQuantity, newQuantityC, capOf] at h
  split at h
  · cases h
  · rename_i ci hci
    split at h
    · cases h
    · rename_i u' hu'
      have h' := h
      unfold finishQuantityC at h
      split at h
      · cases h
        exact ⟨ci, hci, hu', rfl, h'⟩
      · cases h

/-- **a quantity that was built is a fixed point: building it again from its own category and unit
gives the same quantity** -/
theorem newQuantity_idem {db : Db} {c : Sym} {f f' : Option Rat} {u : Sym} {q : Qty}
    (h : newQuantity db (.str c f) u = .ok q) : newQuantity db (.str q.cat f') q.unit = .ok q := by
  obtain ⟨ci, hci, hu, hc, hf⟩ := newQuantity_ok h
  have hf' : finishQuantityC db ci c q.unit 0 = .ok q := hf
  simp only [newQuantity, newQuantityC, capOf, hc, hci, checkedUnit_of_valid (checkedUnit_valid hu), hf']

/-- `Quantity(category, unit)` builds a simple quantity without caption -/
theorem newQuantity_simple {db : Db} {c : Sym} {f : Option Rat} {u : Sym} {q : Qty}
    (h : newQuantity db (.str c f) u = .ok q) : q.comp = none ∧ q.caption = 0 := by
  obtain ⟨ci, _, _, _, hf⟩ := newQuantity_ok h
  simp only [finishQuantity, finishQuantityC] at hf
  split at hf
  · have := Except.ok.inj hf
    rw [← this]; exact ⟨rfl, rfl⟩
  · cases hf

/-- the category of a built quantity is registered -/
theorem qtyInfo_of_newQuantity {db : Db} {c : Sym} {f : Option Rat} {u : Sym} {q : Qty}
    (h : newQuantity db (.str c f) u = .ok q) : ∃ ci, db.catByName c = some ci ∧ qtyInfo db q = .ok ci := by
  obtain ⟨ci, hci, _, hc, _⟩ := newQuantity_ok h
  exact ⟨ci, hci, by simp [qtyInfo, hc, hci]⟩

/-- `ObtainQuantity(unit, category)` with two strings is `Quantity(category, unit)` -/
theorem obtainQuantity_str (db : Db) (u : Sym) (g : Option Rat) (c : Sym) (f : Option Rat) :
    obtainQuantity db (.atom (.str u g)) (.str c f) = newQuantity db (.str c f) u := rfl

/-- `ObtainQuantity(unit)` when `GetDefaultCategory(unit)` answers a non-empty name -/
theorem obtainDefault_of_default {db : Db} {u c : Sym} (hc : getDefaultCategory db u = .ok (some c))
    (hc0 : c ≠ 0) : obtainDefault db u = newQuantity db (.str c none) u := by
  have : (c == 0) = false := by simpa using hc0
  simp [obtainDefault, obtainDefaultC, newQuantity, hc, falsy, this, optAtom]

theorem obtainQuantity_default {db : Db} {u c : Sym} (g : Option Rat)
    (hc : getDefaultCategory db u = .ok (some c)) (hc0 : c ≠ 0) :
    obtainQuantity db (.atom (.str u g)) .none = newQuantity db (.str c none) u := by
  rw [← obtainDefault_of_default hc hc0]; rfl

/-! ### units and categories of built quantities are table rows -/

theorem catByName_spec {db : Db} {c : Sym} {ci : CatRow} (h : db.catByName c = some ci) :
    ci ∈ db.cats ∧ ci.name = c := by
  unfold Db.catByName at h
  exact ⟨List.mem_of_find?_eq_some h, by simpa using List.find?_some h⟩

theorem unitBySym_spec {db : Db} {u : Sym} {r : UnitRow} (h : db.unitBySym u = some r) :
    r ∈ db.units ∧ r.sym = u := by
  unfold Db.unitBySym at h
  exact ⟨List.mem_of_find?_eq_some h, by simpa using List.find?_some h⟩

/-- `GetInfo(quantity_type, unit, fix_unknown=False, fix_legacy=False)` can only answer with the row
of that very unit -/
theorem getInfo_strict_spec {db : Db} {qt u : Sym} {r : UnitRow} (h : db.getInfo qt u false false = .ok r) :
    r ∈ db.units ∧ r.sym = u := by
  unfold Db.getInfo at h
  cases h1 : db.tryInfo qt u with
  | some r' =>
    rw [h1] at h; cases h
    unfold Db.tryInfo at h1
    cases h0 : db.unitBySym u with
    | none => rw [h0] at h1; cases h1
    | some r'' =>
      rw [h0] at h1
      simp only at h1
      split at h1
      · cases h1; exact unitBySym_spec h0
      · cases h1
  | none =>
    rw [h1] at h
    simp only at h
    split at h
    · cases h
    · cases h2 : (db.unitsOfType (db.resolveQt qt)).find? (·.sym == u) with
      | some r' =>
        rw [h2] at h; cases h
        have hm := List.mem_of_find?_eq_some h2
        unfold Db.unitsOfType at hm
        exact ⟨(List.mem_filter.mp hm).1, by simpa using List.find?_some h2⟩
      | none =>
        rw [h2] at h
        simp [Db.infoUnknown, Db.infoLegacy] at h

theorem categoryUnitValid_spec {db : Db} {c u : Sym} (h : db.categoryUnitValid c u = true) :
    ∃ r ∈ db.units, r.sym = u := by
  unfold Db.categoryUnitValid at h
  split at h
  · cases h
  · rename_i ci _
    split at h
    · rename_i hck
      unfold Db.checkQuantityTypeUnit at hck
      split at hck
      · rename_i r hr; exact ⟨r, getInfo_strict_spec hr⟩
      · cases hck
    · cases h

/-- **a built quantity names a registered category and a registered unit** -/
theorem newQuantity_rows {db : Db} {c : Sym} {f : Option Rat} {u : Sym} {q : Qty}
    (h : newQuantity db (.str c f) u = .ok q) :
    (∃ ci ∈ db.cats, ci.name = q.cat) ∧ (∃ r ∈ db.units, r.sym = q.unit) := by
  obtain ⟨ci, hci, hu, hc, _⟩ := newQuantity_ok h
  obtain ⟨hm, hn⟩ := catByName_spec hci
  exact ⟨⟨ci, hm, by rw [hn, hc]⟩, categoryUnitValid_spec (checkedUnit_valid hu)⟩

/-! ### the row predicates, as propositions -/

/-- a unit registered under its symbol, whose quantity type is the category's: `Quantity(category,
unit)` succeeds and keeps both names -/
theorem newQuantity_of_row {db : Db} {c u : Sym} {f : Option Rat} {ci : CatRow} {r : UnitRow}
    (hci : db.catByName c = some ci) (hr : db.unitBySym u = some r) (hqt : r.qtype = ci.qtype) :
    newQuantity db (.str c f) u = .ok (Qty.simple c u) := by
  have htry : db.tryInfo ci.qtype u = some r := by simp [Db.tryInfo, hr, hqt]
  have hget : ∀ a b, db.getInfo ci.qtype u a b = .ok r := by
    intro a b; simp [Db.getInfo, htry]
  have hvalid : db.categoryUnitValid c u = true := by
    simp [Db.categoryUnitValid, hci, Db.checkQuantityTypeUnit, hget]
  simp [newQuantity, newQuantityC, capOf, hci, checkedUnit_of_valid hvalid, finishQuantityC, hget, Qty.simple]

theorem natBeq_eq_beq (a b : Nat) : Nat.beq a b = (a == b) := by
  apply Bool.eq_iff_iff.mpr
  rw [Nat.beq_eq, beq_iff_eq]

theorem fastCat_eq (c : Sym) : ∀ l : List CatRow, fastCat c l = l.find? (·.name == c)
  | [] => rfl
  | x :: xs => by
    simp only [fastCat, List.find?_cons, fastCat_eq c xs, natBeq_eq_beq]
    cases h : (x.name == c) <;> rfl

theorem fastUnit_eq (u : Sym) : ∀ l : List UnitRow, fastUnit u l = l.find? (·.sym == u)
  | [] => rfl
  | x :: xs => by
    simp only [fastUnit, List.find?_cons, fastUnit_eq u xs, natBeq_eq_beq]
    cases h : (x.sym == u) <;> rfl

/-- the row predicate of the unit table, as a proposition about the row -/
theorem defaultCatOk_spec {db : Db} {r : UnitRow} (h : r.defaultCatOk db = true) :
    ∃ c ci, rowDefaultCategory db r = some c ∧ c ≠ 0 ∧ db.catByName c = some ci ∧ ci.qtype = r.qtype := by
  unfold UnitRow.defaultCatOk at h
  simp only [natBeq_eq_beq, Bool.and_eq_true, Bool.not_eq_true', beq_eq_false_iff_ne, ne_eq] at h
  obtain ⟨hc0, hm⟩ := h
  rw [fastCat_eq] at hm
  split at hm
  · rename_i ci hci
    have hq : ci.qtype = r.qtype := by simpa using hm
    have hci' : db.catByName (bif r.defaultCat == 0 then r.qtype else r.defaultCat) = some ci := hci
    by_cases hd : r.defaultCat = 0
    · simp only [hd, beq_self_eq_true, cond_true] at hci' hc0
      refine ⟨r.qtype, ci, ?_, hc0, hci', hq⟩
      simp [rowDefaultCategory, hd, hci']
    · have hb : (r.defaultCat == 0) = false := by simpa using hd
      simp only [hb, cond_false] at hci' hc0
      refine ⟨r.defaultCat, ci, ?_, hc0, hci', hq⟩
      simp [rowDefaultCategory, hd]
  · cases hm

/-- what the unit table predicate gives for the unit symbol of a row that `unit_to_unit_info` finds -/
theorem default_quantity_of_row {db : Db} {u : Sym} {r : UnitRow} (hr : db.unitBySym u = some r)
    (h : r.defaultCatOk db = true) :
    ∃ c ci, getDefaultCategory db u = .ok (some c) ∧ c ≠ 0 ∧ db.catByName c = some ci ∧ ci.qtype = r.qtype
      ∧ newQuantity db (.str c none) u = .ok (Qty.simple c u) := by
  obtain ⟨c, ci, hc, hc0, hci, hq⟩ := defaultCatOk_spec h
  refine ⟨c, ci, ?_, hc0, hci, hq, newQuantity_of_row hci hr hq.symm⟩
  simp [getDefaultCategory, defaultCategoryRow, hr, hc]

/-- every row's symbol is found in the symbol index (by that row or an earlier one of the same symbol) -/
theorem unitBySym_of_mem {db : Db} {r : UnitRow} (hr : r ∈ db.units) : ∃ r', db.unitBySym r.sym = some r' := by
  unfold Db.unitBySym
  cases h : db.units.find? (·.sym == r.sym) with
  | some r' => exact ⟨r', rfl⟩
  | none =>
    have := List.find?_eq_none.mp h r hr
    simp at this

theorem catByName_of_mem {db : Db} {ci : CatRow} (h : ci ∈ db.cats) : ∃ ci', db.catByName ci.name = some ci' := by
  unfold Db.catByName
  cases h' : db.cats.find? (·.name == ci.name) with
  | some r' => exact ⟨r', rfl⟩
  | none =>
    have := List.find?_eq_none.mp h' ci h
    simp at this

/-- the row predicate of the category table: `Quantity(category, default_unit)` succeeds -/
theorem defaultUnitOk_spec {db : Db} {c : Sym} {ci : CatRow} (hci : db.catByName c = some ci)
    (h : ci.defaultUnitOk db = true) :
    newQuantity db (.str c none) ci.defaultUnit = .ok (Qty.simple c ci.defaultUnit) := by
  unfold CatRow.defaultUnitOk at h
  rw [fastUnit_eq] at h
  split at h
  · rename_i r hr
    exact newQuantity_of_row hci hr (by simpa [natBeq_eq_beq] using h)
  · cases h

/-! ### the constructors, one step at a time -/

/-- FixedArray's `if dimension < 2: raise ValueError` in front of everything else -/
def dimGuard (cls : Cls) (r : Except ErrKind Obj) : Except ErrKind Obj :=
  match cls with
  | .fixed d => if d < 2 then .error .value else r
  | _ => r

theorem create_eq (db : Db) (cls : Cls) (q : Qty) (x : PyVal) :
    create db cls q x = dimGuard cls (internalCreate db cls q x) := by
  cases cls <;> rfl

def PyVal.isTuple : PyVal → Bool
  | .seq .tuple _ => true
  | .rows .tuple _ => true
  | .nest .tuple _ => true
  | _ => false

/-- only Scalar looks for a tuple -/
theorem construct_eq (db : Db) (cls : Cls) (a1 a2 : PyVal) (a3 : Atom)
    (h : cls = .scalar → a1.isTuple = false) :
    construct db cls a1 a2 a3 = dimGuard cls (abstractInit db cls a1 a2 a3) := by
  cases cls with
  | scalar =>
    have h' := h rfl
    simp only [construct, dimGuard, scalarInit]
    split
    · simp [PyVal.isTuple] at h'
    · simp [PyVal.isTuple] at h'
    · simp [PyVal.isTuple] at h'
    · rfl
  | array => rfl
  | fixed d => rfl
  | fraction => rfl

theorem isValueFor_notNone {cls : Cls} {x : PyVal} (h : x.isValueFor cls = true) : x.isNone = false := by
  cases x with
  | atom a => cases a <;> simp_all [PyVal.isValueFor, PyVal.isNone]
  | seq k l => rfl
  | rows k l => rfl
  | nest k l => rfl
  | fv n f => rfl
  | qty q => rfl

theorem isValueFor_notTuple {x : PyVal} (h : x.isValueFor .scalar = true) : x.isTuple = false := by
  cases x with
  | atom a => rfl
  | seq k l => cases k <;> simp_all [PyVal.isValueFor, PyVal.isTuple]
  | rows k l => cases k <;> simp_all [PyVal.isValueFor, PyVal.isTuple]
  | nest k l => cases k <;> simp_all [PyVal.isValueFor, PyVal.isTuple]
  | fv n f => rfl
  | qty q => rfl

/-- a leading value argument moves everything one place: `Cls(x, u, c)` is category `c`, value `x`,
unit `u` -/
theorem abstractInit_value_first (db : Db) (cls cls' : Cls) {x : PyVal} (h : x.isValueFor cls' = true)
    (v : PyVal) (u : Atom) : abstractInit db cls x v u = initNamed db cls u x v := by
  cases x with
  | atom a => cases a <;> simp_all [PyVal.isValueFor, abstractInit, juggle]
  | seq k l => simp [abstractInit, juggle]
  | rows k l => simp [abstractInit, juggle]
  | nest k l => simp [abstractInit, juggle]
  | fv n f => simp [abstractInit, juggle]
  | qty q => simp [PyVal.isValueFor] at h

/-- a leading string is the category -/
theorem abstractInit_category_first (db : Db) (cls : Cls) (c : Sym) (f : Option Rat) (v : PyVal) (u : Atom) :
    abstractInit db cls (.atom (.str c f)) v u = initNamed db cls (.str c f) v (.atom u) := rfl

/-- a leading Quantity -/
theorem abstractInit_quantity_first (db : Db) (cls : Cls) (q : Qty) (v : PyVal) (u : Atom) :
    abstractInit db cls (.qty q) v u = initQuantity db cls q v u := rfl

/-- value and unit both given: the quantity is obtained and the object created -/
theorem initNamed_given (db : Db) (cls : Cls) (cat : Atom) {x unit : PyVal} (hx : x.isNone = false)
    (hu : unit.isNone = false) {q : Qty} (hq : obtainQuantity db unit cat = .ok q) :
    initNamed db cls cat x unit = internalCreate db cls q x := by
  simp [initNamed, hx, hu, hq]

theorem initQuantity_given (db : Db) (cls : Cls) (q : Qty) {x : PyVal} (hx : x.isNone = false) :
    initQuantity db cls q x .none = internalCreate db cls q x := by
  simp [initQuantity, hx, Atom.isNone]

theorem isNone_none : PyVal.none.isNone = true := rfl

theorem pickValues_left {x : PyVal} (hx : x.isNone = false) : pickValues x .none = .ok x := by
  simp [pickValues, isNone_none, hx]

theorem pickValues_right {x : PyVal} (hx : x.isNone = false) : pickValues .none x = .ok x := by
  simp [pickValues, isNone_none, hx]

theorem isNone_atom_none : (PyVal.atom Atom.none).isNone = true := rfl

/-- value and unit both missing: default value and default unit of the category -/
theorem initNamed_category_only (db : Db) (cls : Cls) (c : Sym) (f : Option Rat) {ci : CatRow} {q : Qty} {v : PyVal}
    (hci : getCategoryInfo db (.str c f) = .ok ci)
    (hv : defaultValue db cls ci (.atom .none) = .ok v)
    (hob : obtainQuantity db (PyVal.str ci.defaultUnit) (.str c f) = .ok q) :
    initNamed db cls (.str c f) .none (.atom .none) = internalCreate db cls q v := by
  simp only [initNamed, isNone_none, isNone_atom_none, ↓reduceIte, hci, hv, hob]

/-! ### equality -/

/-- `q == q` for every quantity (simple, captioned, derived, empty) -/
theorem pyEq_refl (q : Qty) : q.pyEq q = true := by simp [Qty.pyEq]

theorem pyEq_symm (a b : Qty) : a.pyEq b = b.pyEq a := by
  simp only [Qty.pyEq]
  rw [@BEq.comm _ _ _ a.items b.items, @BEq.comm _ _ _ a.caption b.caption]

/-- two simple quantities are `==` exactly when category, unit and caption agree -/
theorem pyEq_simple (c u cp c' u' cp' : Sym) :
    Qty.pyEq ⟨c, u, cp, none⟩ ⟨c', u', cp', none⟩ = (c == c' && u == u' && cp == cp') := by
  simp only [Qty.pyEq, Qty.items]
  apply Bool.eq_iff_iff.mpr
  simp only [Bool.and_eq_true, beq_iff_eq, List.cons.injEq, Prod.mk.injEq, and_true]

/-- **the caption is part of a quantity's identity**: two quantities that are `==` carry the same
caption -/
theorem pyEq_caption {a b : Qty} (h : a.pyEq b = true) : a.caption = b.caption := by
  simp only [Qty.pyEq, Bool.and_eq_true, beq_iff_eq] at h
  exact h.2

theorem atomEq_refl (a : Atom) : atomEq a a = true := by
  cases a <;> simp [atomEq, Atom.numVal]

theorem atomsEq_refl : ∀ l : List Atom, atomsEq l l = true
  | [] => rfl
  | a :: as => by simp [atomsEq, atomEq_refl a, atomsEq_refl as]

theorem atomEq_symm (a b : Atom) : atomEq a b = atomEq b a := by
  cases a <;> cases b <;> simp only [atomEq, Atom.numVal] <;> first | rfl | exact BEq.comm

theorem atomsEq_symm : ∀ l m : List Atom, atomsEq l m = atomsEq m l
  | [], [] => rfl
  | [], _ :: _ => rfl
  | _ :: _, [] => rfl
  | a :: as, b :: bs => by simp only [atomsEq, atomEq_symm a b, atomsEq_symm as bs]

theorem elemEq_refl (a : Elem) : elemEq a a = true := by
  cases a <;> simp [elemEq, atomEq_refl, atomsEq_refl]

theorem elemsEq_refl : ∀ l : List Elem, elemsEq l l = true
  | [] => rfl
  | a :: as => by simp [elemsEq, elemEq_refl a, elemsEq_refl as]

theorem elemEq_symm (a b : Elem) : elemEq a b = elemEq b a := by
  cases a <;> cases b <;> simp only [elemEq]
  · exact atomEq_symm ..
  · exact atomsEq_symm ..
  · exact atomsEq_symm ..

theorem elemsEq_symm : ∀ l m : List Elem, elemsEq l m = elemsEq m l
  | [], [] => rfl
  | [], _ :: _ => rfl
  | _ :: _, [] => rfl
  | a :: as, b :: bs => by simp only [elemsEq, elemEq_symm a b, elemsEq_symm as bs]

/-- `pyTuple` can only fail with a `TypeError` -/
theorem pyTuple_error {v : PyVal} {e : ErrKind} (h : pyTuple v = .error e) : e = .type := by
  cases v with
  | atom a => cases a <;> simp_all [pyTuple]
  | seq k l => simp [pyTuple] at h
  | rows k l => simp [pyTuple] at h
  | nest k l => simp [pyTuple] at h
  | fv n f => simp_all [pyTuple]
  | qty q => simp_all [pyTuple]

theorem arrayEq_symm (q1 : Qty) (v1 : PyVal) (q2 : Qty) (v2 : PyVal) :
    arrayEq q1 v1 q2 v2 = arrayEq q2 v2 q1 v1 := by
  unfold arrayEq
  cases h1 : pyTuple v1 with
  | error e1 =>
    have := pyTuple_error h1; subst this
    cases h2 : pyTuple v2 with
    | error e2 => have := pyTuple_error h2; subst this; rfl
    | ok t2 => rfl
  | ok t1 =>
    cases h2 : pyTuple v2 with
    | error e2 => rfl
    | ok t2 =>
      simp only [elemsEq_symm t1 t2]
      rw [pyEq_symm q1 q2]

/-! ### quantities with a caption, derived quantities (C19: the quantity-first forms) -/

/-- every object `_InternalCreateWithQuantity(q, x)` builds holds the quantity `q` it was given -/
theorem internalCreate_q {db : Db} {cls : Cls} {q : Qty} {x : PyVal} {o : Obj}
    (h : internalCreate db cls q x = .ok o) : o.q = q := by
  cases cls with
  | scalar =>
    simp only [internalCreate, scalarInternal] at h
    split at h
    · split at h
      · cases h; rfl
      · cases h
    · split at h
      · cases h; rfl
      · cases h
  | fraction =>
    simp only [internalCreate, fractionInternal] at h
    split at h
    · cases h; rfl
    · split at h
      · cases h; rfl
      · cases h
  | array =>
    simp only [internalCreate, arrayInternal] at h
    split at h
    · cases h; rfl
    · cases h
  | fixed d =>
    simp only [internalCreate, fixedInternal] at h
    split at h
    · cases h
    · split at h
      · cases h
      · split at h
        · cases h
        · split at h
          · cases h
          · cases h; rfl

theorem dimGuard_ok {cls : Cls} {r : Except ErrKind Obj} {o : Obj} (h : dimGuard cls r = .ok o) : r = .ok o := by
  cases cls with
  | fixed d =>
    simp only [dimGuard] at h
    split at h
    · cases h
    · exact h
  | scalar => exact h
  | array => exact h
  | fraction => exact h

/-- `Quantity.__init__` stores the caption it was given -/
theorem newQuantityC_caption {db : Db} {category : Atom} {u : Sym} {cap : Atom} {q : Qty}
    (h : newQuantityC db category u cap = .ok q) : capOf cap = .ok q.caption := by
  simp only [newQuantityC] at h
  split at h
  · cases h
  · rename_i cp hcp
    rw [hcp]
    split at h
    · split at h
      · cases h
      · split at h
        · cases h
        · simp only [finishQuantityC] at h
          split at h
          · cases h; rfl
          · cases h
    · cases h

theorem obtainDefaultC_caption {db : Db} {u : Sym} {cap : Atom} {q : Qty}
    (h : obtainDefaultC db u cap = .ok q) : capOf cap = .ok q.caption := by
  simp only [obtainDefaultC] at h
  split at h
  · cases h
  · split at h
    · exact newQuantityC_caption h
    · split at h
      · split at h
        · cases h
        · exact newQuantityC_caption h
      · cases h

theorem obtainNonStrC_caption {db : Db} {category cap : Atom} {q : Qty}
    (h : obtainNonStrC db category cap = .ok q) : capOf cap = .ok q.caption := by
  simp only [obtainNonStrC] at h
  split at h
  · cases h
  · split at h
    · cases h
    · exact newQuantityC_caption h

theorem obtainAtomC_caption {db : Db} {unit category cap : Atom} {q : Qty}
    (h : obtainAtomC db unit category cap = .ok q) : capOf cap = .ok q.caption := by
  simp only [obtainAtomC] at h
  split at h
  · split at h
    · exact obtainDefaultC_caption h
    · exact newQuantityC_caption h
  · exact obtainNonStrC_caption h

theorem obtainRowsC_caption {db : Db} {rows : List (List Atom)} {category cap : Atom} {q : Qty}
    (h : obtainRowsC db rows category cap = .ok q) : capOf cap = .ok q.caption := by
  simp only [obtainRowsC] at h
  split at h
  · split at h
    · split at h
      · exact obtainAtomC_caption h
      · cases h
    · cases h
  · cases h

/-- **`ObtainQuantity(unit, category, caption)` returns a quantity that carries the caption**, whatever
the kind of the unit argument and whether the category is given or left to the unit's default -/
theorem obtainQuantityC_caption {db : Db} {unit : PyVal} {category cap : Atom} {q : Qty}
    (h : obtainQuantityC db unit category cap = .ok q) : capOf cap = .ok q.caption := by
  simp only [obtainQuantityC] at h
  split at h
  · cases h
  · cases h
  · exact obtainRowsC_caption h
  · exact obtainRowsC_caption h
  · exact obtainRowsC_caption h
  · exact obtainRowsC_caption h
  · exact obtainAtomC_caption h
  · split at h
    · cases h
    · exact obtainNonStrC_caption h

theorem obtainDict_caption {db : Db} {items : List (Sym × Sym × Int)} {cap : Atom} {q : Qty}
    (h : obtainDict db items cap = .ok q) : capOf cap = .ok q.caption := by
  simp only [obtainDict] at h
  split at h
  · exact newQuantityC_caption h
  · split at h
    · cases h
    · split at h
      · cases h
      · rename_i cp hcp
        cases h; exact hcp

/-- `a == b` is `True` only for objects whose quantities are `==` -/
theorem objEq_pyEq {a b : Obj} (h : Obj.eq a b = .ok true) : a.q.pyEq b.q = true := by
  obtain ⟨qa, va⟩ := a
  obtain ⟨qb, vb⟩ := b
  cases va <;> cases vb <;> simp only [Obj.eq] at h
  all_goals first
    | (cases h; done)
    | (simp only [Except.ok.injEq, Bool.and_eq_true] at h; exact h.2)
    | skip
  · simp only [arrayEq] at h
    split at h
    · cases h
    · split at h
      · cases h
      · simp only [Except.ok.injEq, Bool.and_eq_true] at h; exact h.2
  · split at h
    · cases h
    · rename_i r hr
      simp only [Except.ok.injEq, Bool.and_eq_true] at h
      have hr' := h.1; subst hr'
      simp only [arrayEq] at hr
      split at hr
      · cases hr
      · split at hr
        · cases hr
        · simp only [Except.ok.injEq, Bool.and_eq_true] at hr; exact hr.2

/-! ### histories on a private database (C19: every reachable state) -/

theorem hrun_eq_run (lg : List (Sym × Sym)) : ∀ (ops : List HOp) (r : Reg.Registry),
    hrun lg r ops = Reg.run lg r (regsOf ops)
  | [], _ => rfl
  | .reg op :: ops, r => by simp only [hrun, regsOf, Reg.run, hstep]; exact hrun_eq_run lg ops _
  | .defcat u :: ops, r => by simp only [hrun, regsOf, hstep]; exact hrun_eq_run lg ops _
  | .calls cs :: ops, r => by simp only [hrun, regsOf, hstep]; exact hrun_eq_run lg ops _
  | .mut c ms :: ops, r => by simp only [hrun, regsOf, hstep]; exact hrun_eq_run lg ops _

theorem hrun_append (lg : List (Sym × Sym)) : ∀ (ops ops' : List HOp) (r : Reg.Registry),
    hrun lg r (ops ++ ops') = hrun lg (hrun lg r ops) ops'
  | [], _, _ => rfl
  | op :: ops, ops', r => by simp only [List.cons_append, hrun]; exact hrun_append lg ops ops' _

theorem houts_append (lg : List (Sym × Sym)) : ∀ (ops ops' : List HOp) (r : Reg.Registry),
    houts lg r (ops ++ ops') = houts lg r ops ++ houts lg (hrun lg r ops) ops'
  | [], _, _ => rfl
  | op :: ops, ops', r => by
    simp only [List.cons_append, houts, hrun]; rw [houts_append lg ops ops' _]

/-- `catSet` stores the row under its name -/
theorem catGet_catSet (info : CatRow) : ∀ cs : List CatRow,
    (Reg.catSet cs info).find? (·.name == info.name) = some info
  | [] => by simp [Reg.catSet]
  | ci :: cs => by
    simp only [Reg.catSet]
    split
    · simp
    · rename_i hne
      have : (ci.name == info.name) = false := by simpa using hne
      simp only [List.find?_cons, this]
      exact catGet_catSet info cs

/-- `Quantity(c, u, caption)` is `Quantity(c, u)` with the caption stored -/
theorem newQuantityC_eq (db : Db) (cat : Atom) (u : Sym) (cap : Atom) (cp : Sym) (h : capOf cap = .ok cp) :
    newQuantityC db cat u cap
      = (match newQuantity db cat u with
         | .ok q => .ok (q.withCaption cp)
         | .error e => .error e) := by
  have h0 : capOf Atom.none = .ok 0 := rfl
  simp only [newQuantity, newQuantityC, h, h0]
  cases cat with
  | str c f =>
    simp only
    cases hc : db.catByName c with
    | none => rfl
    | some ci =>
      simp only
      cases hu : checkedUnit db c u with
      | error e => rfl
      | ok u' =>
        simp only [finishQuantityC]
        cases db.getInfo ci.qtype u' true <;> rfl
  | _ => rfl

/-- a row appended to the list of its quantity type (`setdefault` + `append`) is what a search finds
when no listed row matched before -/
theorem find_after_append (p : UnitRow → Bool) (info : UnitRow) (q : Sym) (hp : p info = true) :
    ∀ ts : List (Sym × List UnitRow), (ts.flatMap (·.2)).find? p = none →
      ((Reg.tlModify (· ++ [info]) (Reg.tlSetDefault ts q) q).flatMap (·.2)).find? p = some info
  | [], _ => by simp [Reg.tlSetDefault, Reg.tlGet, Reg.tlModify, hp]
  | (k, l) :: ts, h => by
    simp only [List.flatMap_cons, List.find?_append, Option.or_eq_none_iff] at h
    by_cases hk : k = q
    · subst hk
      simp [Reg.tlSetDefault, Reg.tlGet, Reg.tlModify, List.find?_append, h.1, hp]
    · have hsd : Reg.tlSetDefault ((k, l) :: ts) q = (k, l) :: Reg.tlSetDefault ts q := by
        simp only [Reg.tlSetDefault, Reg.tlGet, hk, ↓reduceIte]
        cases Reg.tlGet ts q <;> rfl
      rw [hsd]
      simp only [Reg.tlModify, hk, ↓reduceIte, List.flatMap_cons, List.find?_append, h.1, Option.none_or]
      exact find_after_append p info q hp ts h.2

end Barril.Ctor
