/-
Helper definitions and lemmas for C20 (and the parser facts C06 reuses).

* the *layout* a rendered string must have (`layout`, `strTerm`, `unitTerm`, `nums`, `dens`);
* the two loops of `_MakeStr` and of `_CreateUnitsWithJoinedExponentsString` compute that layout;
* `splitOn`/`joinWith`, decimal numerals and `parseFactor` are inverse to the rendering;
* the `OrderedDict` accumulation `joinExps`.
-/
import Barril.Model.StrRender

namespace Barril.Str

/-! ### the specification vocabulary -/

/-- factors written before the '/' : positive exponent, in order -/
def nums (items : List (Str × Int)) : List (Str × Int) := items.filter (fun p => decide (0 < p.2))
/-- factors written after the '/' : negative exponent, in order -/
def dens (items : List (Str × Int)) : List (Str × Int) := items.filter (fun p => decide (p.2 < 0))

/-- one factor of a `_MakeStr` string: the text, or `(text) ** |e|` -/
def strTerm (p : Str × Int) : Str := if p.2.natAbs = 1 then p.1 else powText p.1 p.2.natAbs
/-- one factor of a unit string: the symbol, followed by `|e|` in decimal unless it is 1 -/
def unitTerm (p : Str × Int) : Str := if p.2.natAbs = 1 then p.1 else p.1 ++ decimal p.2.natAbs

/-- numerator factors joined by `mul`, then ONE `div`, then the denominator factors joined by `mul`;
`one` replaces the numerator and the `div` when there is no numerator factor -/
def layout (mul div one : Str) : List Str → List Str → Str
  | [], [] => []
  | [], d :: ds => one ++ joinWith mul (d :: ds)
  | n :: ns, [] => joinWith mul (n :: ns)
  | n :: ns, d :: ds => joinWith mul (n :: ns) ++ div ++ joinWith mul (d :: ds)

/-! ### accumulating loops -/

def tailJoin (sep : Str) : List Str → Str
  | [] => []
  | t :: ts => sep ++ t ++ tailJoin sep ts

theorem joinWith_cons (sep t : Str) (ts : List Str) : joinWith sep (t :: ts) = t ++ tailJoin sep ts := by
  induction ts generalizing t with
  | nil => simp [joinWith, tailJoin]
  | cons y ys ih => simp [joinWith, tailJoin, ih]

/-- the numerator loop on the already formatted factors -/
def accNum (sep : Str) : Str → List Str → Str
  | ret, [] => ret
  | ret, t :: ts => accNum sep ((if ret ≠ [] then ret ++ sep else ret) ++ t) ts

/-- the denominator loop on the already formatted factors -/
def accDen (mul div one : Str) : Str → Bool → List Str → Str
  | ret, _, [] => ret
  | ret, added, t :: ts =>
    accDen mul div one
      ((if added = false then (if ret ≠ [] then ret ++ div else ret ++ one) else ret ++ mul) ++ t) true ts

theorem accNum_ne (sep ret : Str) (ts : List Str) (h : ret ≠ []) :
    accNum sep ret ts = ret ++ tailJoin sep ts := by
  induction ts generalizing ret with
  | nil => simp [accNum, tailJoin]
  | cons t ts ih =>
    have h2 : ret ++ sep ++ t ≠ [] := by simp [h]
    simp only [accNum, h, ne_eq, not_false_eq_true, ↓reduceIte, ih _ h2, tailJoin]
    simp [List.append_assoc]

theorem accNum_nil (sep : Str) (ts : List Str) (hts : ∀ t ∈ ts, t ≠ []) :
    accNum sep [] ts = joinWith sep ts := by
  cases ts with
  | nil => rfl
  | cons t ts =>
    have ht : t ≠ [] := hts t (by simp)
    simp only [accNum, ne_eq, not_true_eq_false, ↓reduceIte, List.nil_append]
    rw [accNum_ne sep t ts ht, joinWith_cons]

theorem accNum_nil_eq_nil (sep : Str) (ts : List Str) (hts : ∀ t ∈ ts, t ≠ []) :
    accNum sep [] ts = [] ↔ ts = [] := by
  rw [accNum_nil sep ts hts]
  cases ts with
  | nil => simp [joinWith]
  | cons t ts =>
    have ht : t ≠ [] := hts t (by simp)
    simp [joinWith_cons, ht]

theorem accDen_true (mul div one ret : Str) (ts : List Str) :
    accDen mul div one ret true ts = ret ++ tailJoin mul ts := by
  induction ts generalizing ret with
  | nil => simp [accDen, tailJoin]
  | cons t ts ih =>
    simp only [accDen, Bool.true_eq_false, ↓reduceIte, ih, tailJoin]
    simp [List.append_assoc]

theorem accDen_false_cons (mul div one ret t : Str) (ts : List Str) :
    accDen mul div one ret false (t :: ts)
      = (if ret ≠ [] then ret ++ div else ret ++ one) ++ joinWith mul (t :: ts) := by
  simp only [accDen, ↓reduceIte, accDen_true, joinWith_cons]
  simp [List.append_assoc]

/-- the two loops together produce the layout -/
theorem acc_layout (mul div one : Str) (ns ds : List Str) (hns : ∀ t ∈ ns, t ≠ []) :
    accDen mul div one (accNum mul [] ns) false ds = layout mul div one ns ds := by
  cases ds with
  | nil =>
    cases ns with
    | nil => rfl
    | cons n ns => simp only [accDen, accNum_nil mul _ hns, layout]
  | cons d ds =>
    rw [accDen_false_cons]
    cases ns with
    | nil => simp [accNum, layout]
    | cons n ns =>
      have hne : accNum mul [] (n :: ns) ≠ [] := by
        intro h
        have := (accNum_nil_eq_nil mul (n :: ns) hns).mp h
        simp at this
      rw [if_pos hne, accNum_nil mul _ hns]
      simp only [layout]

/-! ### `_MakeStr` computes the layout -/

theorem makeStrNum_eq (ret : Str) (items : List (Str × Int)) :
    makeStrNum ret items = accNum sepMul ret ((nums items).map strTerm) := by
  induction items generalizing ret with
  | nil => rfl
  | cons p rest ih =>
    obtain ⟨rep, exp⟩ := p
    by_cases h : exp > 0
    · have h0 : 0 < exp := h
      have hnum : nums ((rep, exp) :: rest) = (rep, exp) :: nums rest := by simp [nums, h0]
      simp only [makeStrNum, h, ↓reduceIte, hnum, List.map_cons, accNum, ih]
      by_cases h1 : exp = 1
      · subst h1; simp [strTerm]
      · have hna : exp.natAbs ≠ 1 := by omega
        have htn : exp.toNat = exp.natAbs := by omega
        simp [strTerm, h1, hna, htn]
    · have h0 : ¬ 0 < exp := h
      have hnum : nums ((rep, exp) :: rest) = nums rest := by simp [nums, h0]
      simp only [makeStrNum, h, ↓reduceIte, hnum, ih]

theorem makeStrDen_eq (ret : Str) (added : Bool) (items : List (Str × Int)) :
    makeStrDen ret added items = accDen sepMul sepDiv oneDiv ret added ((dens items).map strTerm) := by
  induction items generalizing ret added with
  | nil => rfl
  | cons p rest ih =>
    obtain ⟨rep, exp⟩ := p
    by_cases h : exp < 0
    · have hden : dens ((rep, exp) :: rest) = (rep, exp) :: dens rest := by simp [dens, h]
      simp only [makeStrDen, h, ↓reduceIte, hden, List.map_cons, accDen, ih]
      by_cases h1 : exp = -1
      · subst h1; simp [strTerm]
      · have hna : exp.natAbs ≠ 1 := by omega
        simp [strTerm, h1, hna]
    · have hden : dens ((rep, exp) :: rest) = dens rest := by simp [dens, h]
      simp only [makeStrDen, h, ↓reduceIte, hden, ih]

theorem powText_ne_nil (rep : Str) (n : Nat) : powText rep n ≠ [] := by simp [powText]

theorem strTerm_ne_nil (p : Str × Int) (h : p.1 ≠ []) : strTerm p ≠ [] := by
  unfold strTerm; split
  · exact h
  · exact powText_ne_nil _ _

theorem makeStr_layout (items : List (Str × Int)) (h : ∀ p ∈ items, 0 < p.2 → p.1 ≠ []) :
    makeStr items = layout sepMul sepDiv oneDiv ((nums items).map strTerm) ((dens items).map strTerm) := by
  unfold makeStr
  rw [makeStrNum_eq, makeStrDen_eq, acc_layout]
  intro t ht
  obtain ⟨p, hp, rfl⟩ := List.mem_map.mp ht
  have hp' := List.mem_filter.mp hp
  exact strTerm_ne_nil p (h p hp'.1 (by simpa using hp'.2))

/-! ### `_CreateUnitsWithJoinedExponentsString` computes the layout -/

theorem renderUnitNum_eq (ret : Str) (items : List (Str × Int)) :
    renderUnitNum ret items = accNum [cDot] ret ((nums items).map unitTerm) := by
  induction items generalizing ret with
  | nil => rfl
  | cons p rest ih =>
    obtain ⟨u, exp⟩ := p
    by_cases h : exp > 0
    · have h0 : 0 < exp := h
      have hnum : nums ((u, exp) :: rest) = (u, exp) :: nums rest := by simp [nums, h0]
      simp only [renderUnitNum, h, ↓reduceIte, hnum, List.map_cons, accNum, ih]
      by_cases h1 : exp = 1
      · subst h1; simp [unitTerm]
      · have hna : exp.natAbs ≠ 1 := by omega
        have htn : exp.toNat = exp.natAbs := by omega
        simp [unitTerm, h1, hna, htn]
    · have h0 : ¬ 0 < exp := h
      have hnum : nums ((u, exp) :: rest) = nums rest := by simp [nums, h0]
      simp only [renderUnitNum, h, ↓reduceIte, hnum, ih]

theorem renderUnitDen_eq (ret : Str) (added : Bool) (items : List (Str × Int)) :
    renderUnitDen ret added items = accDen [cDot] [cSlash] [cOne, cSlash] ret added ((dens items).map unitTerm) := by
  induction items generalizing ret added with
  | nil => rfl
  | cons p rest ih =>
    obtain ⟨u, exp⟩ := p
    by_cases h : exp < 0
    · have hden : dens ((u, exp) :: rest) = (u, exp) :: dens rest := by simp [dens, h]
      simp only [renderUnitDen, h, ↓reduceIte, hden, List.map_cons, accDen, ih]
      by_cases h1 : exp = -1
      · subst h1; simp [unitTerm]
      · have hna : exp.natAbs ≠ 1 := by omega
        simp [unitTerm, h1, hna, List.append_assoc]
    · have hden : dens ((u, exp) :: rest) = dens rest := by simp [dens, h]
      simp only [renderUnitDen, h, ↓reduceIte, hden, ih]

theorem unitTerm_ne_nil (p : Str × Int) (h : p.1 ≠ []) : unitTerm p ≠ [] := by
  unfold unitTerm; split
  · exact h
  · simp [h]

theorem renderUnit_layout (j : List (Str × Int)) (h : ∀ p ∈ j, 0 < p.2 → p.1 ≠ []) :
    renderUnit j = layout [cDot] [cSlash] [cOne, cSlash] ((nums j).map unitTerm) ((dens j).map unitTerm) := by
  unfold renderUnit
  rw [renderUnitNum_eq, renderUnitDen_eq, acc_layout]
  intro t ht
  obtain ⟨p, hp, rfl⟩ := List.mem_map.mp ht
  have hp' := List.mem_filter.mp hp
  exact unitTerm_ne_nil p (h p hp'.1 (by simpa using hp'.2))


/-! ### splitting is inverse to joining -/

theorem splitOn_noSep (sep : Nat) (x : Str) (hx : sep ∉ x) : splitOn sep x = [x] := by
  induction x with
  | nil => simp [splitOn]
  | cons c cs ih =>
    have hc : c ≠ sep := by intro h; apply hx; simp [h]
    have hcs : sep ∉ cs := by intro h; apply hx; simp [h]
    simp only [splitOn, hc, ↓reduceIte, ih hcs]

theorem splitOn_append_sep (sep : Nat) (x : Str) (hx : sep ∉ x) (rest : Str) :
    splitOn sep (x ++ sep :: rest) = x :: splitOn sep rest := by
  induction x with
  | nil => simp [splitOn]
  | cons c cs ih =>
    have hc : c ≠ sep := by intro h; apply hx; simp [h]
    have hcs : sep ∉ cs := by intro h; apply hx; simp [h]
    simp only [List.cons_append, splitOn, hc, ↓reduceIte, ih hcs]

theorem split_join (sep : Nat) : ∀ (xs : List Str), xs ≠ [] → (∀ x ∈ xs, sep ∉ x) →
    splitOn sep (joinWith [sep] xs) = xs
  | [], h, _ => absurd rfl h
  | [x], _, hx => by simpa [joinWith] using splitOn_noSep sep x (hx x (by simp))
  | x :: y :: t, _, hx => by
    have h1 : sep ∉ x := hx x (by simp)
    have ih := split_join sep (y :: t) (by simp) (fun z hz => hx z (by simp [hz]))
    simp only [joinWith, List.append_assoc, List.singleton_append, splitOn_append_sep sep x h1, ih]

theorem mem_joinWith (sep : Str) (c : Nat) : ∀ (xs : List Str), c ∈ joinWith sep xs →
    c ∈ sep ∨ ∃ x ∈ xs, c ∈ x
  | [], h => by simp [joinWith] at h
  | [x], h => by right; exact ⟨x, by simp, by simpa [joinWith] using h⟩
  | x :: y :: t, h => by
    simp only [joinWith, List.mem_append] at h
    rcases h with (h | h) | h
    · right; exact ⟨x, by simp, h⟩
    · left; exact h
    · rcases mem_joinWith sep c (y :: t) h with h | ⟨z, hz, hc⟩
      · left; exact h
      · right; exact ⟨z, by simp [hz], hc⟩

/-! ### decimal numerals -/

theorem revDigits_spec : ∀ (f n : Nat), n < f →
    valRev (revDigits f n) = n ∧ (∀ c ∈ revDigits f n, isDigit c = true) ∧ revDigits f n ≠ []
  | 0, n, h => by omega
  | f + 1, n, h => by
    unfold revDigits
    split
    · rename_i hn
      refine ⟨?_, ?_, by simp⟩
      · simp [valRev]
      · intro c hc
        simp only [List.mem_singleton] at hc
        subst hc
        simp only [isDigit, Bool.and_eq_true, decide_eq_true_eq]; omega
    · rename_i hn
      have hlt : n / 10 < f := by omega
      obtain ⟨h1, h2, _⟩ := revDigits_spec f (n / 10) hlt
      refine ⟨?_, ?_, by simp⟩
      · simp only [valRev, h1]; omega
      · intro c hc
        simp only [List.mem_cons] at hc
        rcases hc with rfl | hc
        · simp only [isDigit, Bool.and_eq_true, decide_eq_true_eq]; omega
        · exact h2 c hc

theorem mem_decimal (n c : Nat) (h : c ∈ decimal n) : isDigit c = true := by
  unfold decimal at h
  exact (revDigits_spec (n + 1) n (by omega)).2.1 c (by simpa using h)

theorem spanDigits_all (d : Str) (hd : ∀ c ∈ d, isDigit c = true) (r : Str)
    (hr : ∀ c, r.head? = some c → isDigit c = false) : spanDigits (d ++ r) = (d, r) := by
  induction d with
  | nil =>
    cases r with
    | nil => rfl
    | cons c cs => simp [spanDigits, hr c (by simp)]
  | cons c cs ih =>
    have hc := hd c (by simp)
    have := ih (fun x hx => hd x (by simp [hx]))
    simp [spanDigits, hc, this]

/-! ### atomic symbols and single factors -/

structure Atomic (u : Str) : Prop where
  ne : u ≠ []
  last : ∀ c, u.getLast? = some c → isDigit c = false
  noDot : cDot ∉ u
  noSlash : cSlash ∉ u

theorem atomic_iff (u : Str) : atomic u = true ↔ Atomic u := by
  unfold atomic
  constructor
  · intro h
    split at h
    · cases h
    · rename_i c hc
      simp only [Bool.and_eq_true, Bool.not_eq_true', List.contains_eq_mem, decide_eq_false_iff_not] at h
      refine ⟨?_, ?_, h.1.2, h.2⟩
      · intro hu; subst hu; simp at hc
      · intro c' hc'; rw [hc] at hc'; cases hc'; exact h.1.1
  · intro ⟨hne, hl, hd, hs⟩
    split
    · rename_i hc; simp [List.getLast?_eq_none_iff] at hc; exact absurd hc hne
    · rename_i c hc
      simp [hl c hc, hd, hs]

theorem parseFactor_unitTerm (sign : Int) (u : Str) (e : Int) (hu : Atomic u) (he : e ≠ 0) :
    parseFactor sign (unitTerm (u, e)) = some (u, sign * (e.natAbs : Int)) := by
  have hhead : ∀ c, u.reverse.head? = some c → isDigit c = false := by
    intro c hc; apply hu.last; simpa [List.head?_reverse] using hc
  have hrne : u.reverse ≠ [] := by simpa using hu.ne
  unfold unitTerm parseFactor
  by_cases h1 : e.natAbs = 1
  · have := spanDigits_all [] (by simp) u.reverse hhead
    simp only [List.nil_append] at this
    simp [h1, this, hrne]
  · obtain ⟨hv, hdig, hnn⟩ := revDigits_spec (e.natAbs + 1) e.natAbs (by omega)
    have := spanDigits_all (revDigits (e.natAbs + 1) e.natAbs) hdig u.reverse hhead
    have hv0 : e.natAbs ≠ 0 := by omega
    simp only [h1, ↓reduceIte, decimal, List.reverse_append, List.reverse_reverse, this]
    simp [hnn, hv, hv0, hrne]

theorem unitTerm_no (c : Nat) (hc : isDigit c = false) (p : Str × Int) (hp : c ∉ p.1) : c ∉ unitTerm p := by
  unfold unitTerm
  split
  · exact hp
  · intro h
    rcases List.mem_append.mp h with h | h
    · exact hp h
    · have := mem_decimal _ _ h; rw [hc] at this; cases this

/-- a list of factors all on one side of the '/' -/
structure Side (sign : Int) (l : List (Str × Int)) : Prop where
  atomic : ∀ p ∈ l, Atomic p.1
  signed : ∀ p ∈ l, p.2 ≠ 0 ∧ sign * (p.2.natAbs : Int) = p.2

theorem parseFactors_terms (sign : Int) : ∀ (l : List (Str × Int)), Side sign l →
    parseFactors sign (l.map unitTerm) = some l
  | [], _ => rfl
  | p :: rest, h => by
    have ih := parseFactors_terms sign rest ⟨fun q hq => h.atomic q (by simp [hq]), fun q hq => h.signed q (by simp [hq])⟩
    have hp := parseFactor_unitTerm sign p.1 p.2 (h.atomic p (by simp)) (h.signed p (by simp)).1
    rw [(h.signed p (by simp)).2] at hp
    simp only [List.map_cons, parseFactors, hp, ih]

theorem parseSide_join (sign : Int) (l : List (Str × Int)) (hl : l ≠ []) (h : Side sign l) :
    parseSide sign (joinWith [cDot] (l.map unitTerm)) = some l := by
  unfold parseSide
  rw [split_join cDot (l.map unitTerm) (by simpa using hl)]
  · exact parseFactors_terms sign l h
  · intro x hx
    obtain ⟨p, hp, rfl⟩ := List.mem_map.mp hx
    exact unitTerm_no cDot (by decide) p (h.atomic p hp).noDot

theorem join_noSlash (sign : Int) (l : List (Str × Int)) (h : Side sign l) :
    cSlash ∉ joinWith [cDot] (l.map unitTerm) := by
  intro hc
  rcases mem_joinWith _ _ _ hc with hc | ⟨x, hx, hc⟩
  · simp at hc
  · obtain ⟨p, hp, rfl⟩ := List.mem_map.mp hx
    exact unitTerm_no cSlash (by decide) p (h.atomic p hp).noSlash hc

theorem join_ne_one (sign : Int) (p : Str × Int) (l : List (Str × Int)) (h : Side sign (p :: l)) :
    joinWith [cDot] ((p :: l).map unitTerm) ≠ [cOne] := by
  have hp := h.atomic p (by simp)
  rw [List.map_cons, joinWith_cons]
  intro heq
  -- the string starts with the atomic symbol `p.1`; were it "1", that symbol would be "1"
  have hu : ∃ t, unitTerm p = p.1 ++ t := by
    unfold unitTerm; split
    · exact ⟨[], by simp⟩
    · exact ⟨_, rfl⟩
  obtain ⟨t, ht⟩ := hu
  rw [ht, List.append_assoc] at heq
  cases hp1 : p.1 with
  | nil => exact hp.ne hp1
  | cons c cs =>
    rw [hp1] at heq
    simp only [List.cons_append, List.cons.injEq] at heq
    obtain ⟨hc, hrest⟩ := heq
    have hcs : cs = [] := (List.append_eq_nil_iff.mp hrest).1
    have := hp.last c (by rw [hp1, hcs]; rfl)
    rw [hc] at this
    revert this; decide

/-- **the round trip on the layout**: numerator factors `a`, denominator factors `b` -/
theorem parse_layout (a b : List (Str × Int)) (ha : Side 1 a) (hb : Side (-1) b) :
    parseUnit (layout [cDot] [cSlash] [cOne, cSlash] (a.map unitTerm) (b.map unitTerm)) = some (a ++ b) := by
  cases a with
  | nil =>
    cases b with
    | nil => rfl
    | cons q b =>
      have hD := join_noSlash (-1) (q :: b) hb
      have hsplit : splitOn cSlash ([cOne, cSlash] ++ joinWith [cDot] ((q :: b).map unitTerm))
          = [[cOne], joinWith [cDot] ((q :: b).map unitTerm)] := by
        have := splitOn_append_sep cSlash [cOne] (by decide) (joinWith [cDot] ((q :: b).map unitTerm))
        rw [splitOn_noSep cSlash _ hD] at this
        simpa using this
      simp only [List.map_nil, layout, List.map_cons] at hsplit ⊢
      unfold parseUnit
      rw [if_neg (by simp), hsplit]
      have h2 := parseSide_join (-1) (q :: b) (by simp) hb
      simp only [List.map_cons] at h2
      simp [parseNum, h2]
  | cons p a =>
    have hN := join_noSlash 1 (p :: a) ha
    have hne : joinWith [cDot] ((p :: a).map unitTerm) ≠ [] := by
      rw [List.map_cons, joinWith_cons]
      have := unitTerm_ne_nil p (ha.atomic p (by simp)).ne
      simp [this]
    have h1 := parseSide_join 1 (p :: a) (by simp) ha
    cases b with
    | nil =>
      simp only [List.map_cons, List.map_nil, layout, List.append_nil] at hN hne h1 ⊢
      unfold parseUnit
      rw [if_neg hne, splitOn_noSep cSlash _ hN]
      exact h1
    | cons q b =>
      have hD := join_noSlash (-1) (q :: b) hb
      have h2 := parseSide_join (-1) (q :: b) (by simp) hb
      have hn1 := join_ne_one 1 p a ha
      have hsplit : splitOn cSlash (joinWith [cDot] ((p :: a).map unitTerm) ++ [cSlash] ++ joinWith [cDot] ((q :: b).map unitTerm))
          = [joinWith [cDot] ((p :: a).map unitTerm), joinWith [cDot] ((q :: b).map unitTerm)] := by
        have := splitOn_append_sep cSlash _ hN (joinWith [cDot] ((q :: b).map unitTerm))
        rw [splitOn_noSep cSlash _ hD] at this
        simpa using this
      simp only [List.map_cons, layout] at hN hne h1 hD h2 hn1 hsplit ⊢
      unfold parseUnit
      rw [if_neg (by simp [hne]), hsplit]
      simp [parseNum, hn1, h1, h2]

theorem side_nums (j : List (Str × Int)) (h : ∀ p ∈ j, Atomic p.1) : Side 1 (nums j) := by
  refine ⟨fun p hp => h p (List.mem_filter.mp hp).1, fun p hp => ?_⟩
  have := (List.mem_filter.mp hp).2
  simp only [decide_eq_true_eq] at this
  omega

theorem side_dens (j : List (Str × Int)) (h : ∀ p ∈ j, Atomic p.1) : Side (-1) (dens j) := by
  refine ⟨fun p hp => h p (List.mem_filter.mp hp).1, fun p hp => ?_⟩
  have := (List.mem_filter.mp hp).2
  simp only [decide_eq_true_eq] at this
  omega


/-! ### the `OrderedDict` accumulation -/

/-- sum of the exponents written next to key `k` -/
def expSum (k : Str) : List (Str × Int) → Int
  | [] => 0
  | (v, f) :: rest => (if v = k then f else 0) + expSum k rest

def keys (l : List (Str × Int)) : List Str := l.map (·.1)

theorem expSum_addExp (k' : Str) (acc : List (Str × Int)) (k : Str) (e : Int) :
    expSum k' (addExp acc k e) = expSum k' acc + (if k = k' then e else 0) := by
  induction acc with
  | nil => simp [addExp, expSum]
  | cons p rest ih =>
    obtain ⟨v, f⟩ := p
    by_cases hv : v = k
    · subst hv
      by_cases hk : v = k' <;> simp [addExp, expSum, hk] <;> omega
    · simp only [addExp, hv, ↓reduceIte, expSum, ih]; omega

theorem expSum_joinExpsFrom (k' : Str) (acc ps : List (Str × Int)) :
    expSum k' (joinExpsFrom acc ps) = expSum k' acc + expSum k' ps := by
  induction ps generalizing acc with
  | nil => simp [joinExpsFrom, expSum]
  | cons p rest ih =>
    obtain ⟨k, e⟩ := p
    simp only [joinExpsFrom, ih, expSum_addExp, expSum]; omega

theorem keys_nil : keys [] = [] := rfl
theorem keys_cons (p : Str × Int) (l : List (Str × Int)) : keys (p :: l) = p.1 :: keys l := rfl

theorem keys_addExp_mem (acc : List (Str × Int)) (k : Str) (e : Int) (h : k ∈ keys acc) :
    keys (addExp acc k e) = keys acc := by
  induction acc with
  | nil => simp [keys_nil] at h
  | cons p rest ih =>
    obtain ⟨v, f⟩ := p
    by_cases hv : v = k
    · subst hv; simp [addExp, keys_cons]
    · have hr : k ∈ keys rest := by
        rw [keys_cons] at h
        rcases List.mem_cons.mp h with h | h
        · exact absurd h.symm hv
        · exact h
      simp only [addExp, hv, ↓reduceIte, keys_cons, ih hr]

theorem keys_addExp_not_mem (acc : List (Str × Int)) (k : Str) (e : Int) (h : k ∉ keys acc) :
    keys (addExp acc k e) = keys acc ++ [k] := by
  induction acc with
  | nil => simp [addExp, keys_nil, keys_cons]
  | cons p rest ih =>
    obtain ⟨v, f⟩ := p
    rw [keys_cons, List.mem_cons, not_or] at h
    have hv : ¬ v = k := fun hh => h.1 hh.symm
    simp only [addExp, hv, ↓reduceIte, keys_cons, ih h.2, List.cons_append]

theorem mem_keys_addExp (acc : List (Str × Int)) (k : Str) (e : Int) (x : Str) :
    x ∈ keys (addExp acc k e) ↔ x ∈ keys acc ∨ x = k := by
  by_cases h : k ∈ keys acc
  · rw [keys_addExp_mem acc k e h]
    constructor
    · exact Or.inl
    · rintro (hx | hx)
      · exact hx
      · subst hx; exact h
  · rw [keys_addExp_not_mem acc k e h]; simp

theorem nodup_addExp (acc : List (Str × Int)) (k : Str) (e : Int) (h : (keys acc).Nodup) :
    (keys (addExp acc k e)).Nodup := by
  by_cases hk : k ∈ keys acc
  · rw [keys_addExp_mem acc k e hk]; exact h
  · rw [keys_addExp_not_mem acc k e hk]
    exact List.nodup_append.mpr ⟨h, by simp, by
      intro a ha b hb
      simp only [List.mem_singleton] at hb
      subst hb
      intro hab; subst hab; exact hk ha⟩

theorem nodup_joinExpsFrom (acc ps : List (Str × Int)) (h : (keys acc).Nodup) :
    (keys (joinExpsFrom acc ps)).Nodup := by
  induction ps generalizing acc with
  | nil => exact h
  | cons p rest ih =>
    obtain ⟨k, e⟩ := p
    exact ih _ (nodup_addExp acc k e h)

theorem mem_keys_joinExpsFrom (acc ps : List (Str × Int)) (k : Str) :
    k ∈ keys (joinExpsFrom acc ps) ↔ k ∈ keys acc ∨ k ∈ keys ps := by
  induction ps generalizing acc with
  | nil => simp [joinExpsFrom, keys_nil]
  | cons p rest ih =>
    obtain ⟨k2, e⟩ := p
    rw [joinExpsFrom, ih, mem_keys_addExp, keys_cons, List.mem_cons]
    constructor
    · rintro ((h | h) | h)
      · exact Or.inl h
      · exact Or.inr (Or.inl h)
      · exact Or.inr (Or.inr h)
    · rintro (h | h | h)
      · exact Or.inl (Or.inl h)
      · exact Or.inl (Or.inr h)
      · exact Or.inr h

/-- in a list with distinct keys an entry carries the whole sum of its key -/
theorem expSum_of_mem_nodup (l : List (Str × Int)) (h : (keys l).Nodup) (k : Str) (e : Int)
    (hm : (k, e) ∈ l) : expSum k l = e := by
  induction l with
  | nil => cases hm
  | cons p rest ih =>
    obtain ⟨v, f⟩ := p
    simp only [keys, List.map_cons, List.nodup_cons] at h
    rcases List.mem_cons.mp hm with heq | hm'
    · cases heq
      have hz : expSum k rest = 0 := by
        have hk := h.1
        clear ih hm h
        induction rest with
        | nil => rfl
        | cons q r ihr =>
          obtain ⟨w, g⟩ := q
          simp only [List.map_cons, List.mem_cons, not_or] at hk
          have hw : ¬ w = k := fun hh => hk.1 hh.symm
          simp [expSum, hw, ihr hk.2]
      simp [expSum, hz]
    · have hvk : ¬ v = k := by
        intro hh; subst hh
        exact h.1 (List.mem_map.mpr ⟨(v, e), hm', rfl⟩)
      simp only [expSum, hvk, ↓reduceIte, Int.zero_add]
      exact ih h.2 hm'


/-- first occurrences, in order, of the keys not yet `seen` -/
def dedupFrom (seen : List Str) : List Str → List Str
  | [] => []
  | k :: ks => if k ∈ seen then dedupFrom seen ks else k :: dedupFrom (seen ++ [k]) ks

theorem keys_joinExpsFrom (acc ps : List (Str × Int)) :
    keys (joinExpsFrom acc ps) = keys acc ++ dedupFrom (keys acc) (keys ps) := by
  induction ps generalizing acc with
  | nil => simp [joinExpsFrom, keys_nil, dedupFrom]
  | cons p rest ih =>
    obtain ⟨k, e⟩ := p
    rw [joinExpsFrom, ih, keys_cons]
    by_cases hk : k ∈ keys acc
    · rw [keys_addExp_mem acc k e hk]; simp [dedupFrom, hk]
    · rw [keys_addExp_not_mem acc k e hk]; simp [dedupFrom, hk]

/-! ### renaming the keys of a joined list (unit symbol ↦ registered unit name) -/

theorem addExp_rename (f : Str → Str) (acc : List (Str × Int)) (k : Str) (e : Int)
    (hinj : ∀ a ∈ keys acc, f a = f k → a = k) :
    addExp (acc.map (fun p => (f p.1, p.2))) (f k) e = (addExp acc k e).map (fun p => (f p.1, p.2)) := by
  induction acc with
  | nil => simp [addExp]
  | cons p rest ih =>
    obtain ⟨v, x⟩ := p
    have hrest : ∀ a ∈ keys rest, f a = f k → a = k := fun a ha => hinj a (by simp [keys] at ha ⊢; exact Or.inr ha)
    by_cases hv : v = k
    · subst hv; simp [addExp]
    · have hfv : f v ≠ f k := fun h => hv (hinj v (by simp [keys]) h)
      simp only [List.map_cons, addExp, hv, hfv, if_false]
      rw [ih hrest]

theorem joinExpsFrom_rename (f : Str → Str) (acc ps : List (Str × Int))
    (hinj : ∀ a ∈ keys acc ++ keys ps, ∀ b ∈ keys acc ++ keys ps, f a = f b → a = b) :
    joinExpsFrom (acc.map (fun p => (f p.1, p.2))) (ps.map (fun p => (f p.1, p.2)))
      = (joinExpsFrom acc ps).map (fun p => (f p.1, p.2)) := by
  induction ps generalizing acc with
  | nil => simp [joinExpsFrom]
  | cons p rest ih =>
    obtain ⟨k, e⟩ := p
    simp only [List.map_cons, joinExpsFrom]
    have hk : k ∈ keys acc ++ keys ((k, e) :: rest) := by simp [keys]
    rw [addExp_rename f acc k e (fun a ha h => hinj a (List.mem_append_left _ ha) k hk h)]
    apply ih
    intro a ha b hb
    have sub : ∀ x, x ∈ keys (addExp acc k e) ++ keys rest → x ∈ keys acc ++ keys ((k, e) :: rest) := by
      intro x hx
      rcases List.mem_append.mp hx with h | h
      · rcases (mem_keys_addExp acc k e x).mp h with h | h
        · exact List.mem_append_left _ h
        · subst h; exact hk
      · exact List.mem_append_right _ (by simp [keys] at h ⊢; exact Or.inr h)
    exact hinj a (sub a ha) b (sub b hb)

/-- joining after renaming the keys by a function that is injective on them is renaming after joining: the same
factors, in the same order, with the same exponents -/
theorem joinExps_rename (f : Str → Str) (ps : List (Str × Int))
    (hinj : ∀ a ∈ keys ps, ∀ b ∈ keys ps, f a = f b → a = b) :
    joinExps (ps.map (fun p => (f p.1, p.2))) = (joinExps ps).map (fun p => (f p.1, p.2)) := by
  have := joinExpsFrom_rename f [] ps (by simpa [keys] using hinj)
  simpa [joinExps] using this

/-! ### `OrderedDict(zip(category, unit))` -/

theorem odictSet_fresh (acc : List Entry) (e : Entry) (h : ∀ x ∈ acc, x.cat ≠ e.cat) :
    odictSet acc e = acc ++ [e] := by
  induction acc with
  | nil => rfl
  | cons x rest ih =>
    have hx : x.cat ≠ e.cat := h x (by simp)
    simp only [odictSet, hx, if_false, List.cons_append]
    rw [ih (fun y hy => h y (by simp [hy]))]

theorem foldl_odictSet_nodup (acc es : List Entry) (h : ((acc ++ es).map (·.cat)).Nodup) :
    es.foldl odictSet acc = acc ++ es := by
  induction es generalizing acc with
  | nil => simp
  | cons e rest ih =>
    simp only [List.foldl_cons]
    have hfresh : ∀ x ∈ acc, x.cat ≠ e.cat := by
      intro x hx heq
      rw [List.map_append, List.nodup_append] at h
      exact h.2.2 x.cat (List.mem_map.mpr ⟨x, hx, rfl⟩) e.cat (by simp) heq
    rw [odictSet_fresh acc e hfresh, ih]
    · simp
    · simpa using h

/-- a request with pairwise different categories is its own ordered dict -/
theorem odictOf_nodup (es : List Entry) (h : (es.map (·.cat)).Nodup) : odictOf es = es := by
  have := foldl_odictSet_nodup [] es (by simpa using h)
  simpa [odictOf] using this

theorem zipEntries_cats (cats : List Str) (pairs : List (Str × Int)) (h : cats.length = pairs.length) :
    (zipEntries cats pairs).map (·.cat) = cats := by
  induction cats generalizing pairs with
  | nil => cases pairs <;> simp [zipEntries]
  | cons c cs ih =>
    cases pairs with
    | nil => simp at h
    | cons p ps =>
      obtain ⟨u, x⟩ := p
      simp only [zipEntries, List.map_cons, List.cons.injEq, true_and]
      exact ih ps (by simpa using h)

theorem zipEntries_unitPairs (cats : List Str) (pairs : List (Str × Int)) (h : cats.length = pairs.length) :
    unitPairs (zipEntries cats pairs) = pairs := by
  induction cats generalizing pairs with
  | nil => cases pairs <;> simp_all [zipEntries, unitPairs]
  | cons c cs ih =>
    cases pairs with
    | nil => simp at h
    | cons p ps =>
      obtain ⟨u, x⟩ := p
      have := ih ps (by simpa using h)
      simp only [unitPairs] at this ⊢
      simp [zipEntries, this]

/-! ### arithmetic on entry lists -/

def cats (es : List Entry) : List Str := es.map (·.cat)

theorem cats_cons (e : Entry) (es : List Entry) : cats (e :: es) = e.cat :: cats es := rfl

theorem cats_mergeOne (f : Int → Int → Int) (a : List Entry) (x : Entry) (m : List Entry)
    (h : mergeOne f a x = .ok m) : cats m = if x.cat ∈ cats a then cats a else cats a ++ [x.cat] := by
  induction a generalizing m with
  | nil => simp [mergeOne] at h; subst h; simp [cats]
  | cons e rest ih =>
    unfold mergeOne at h
    by_cases hc : e.cat = x.cat
    · simp only [hc, ↓reduceIte] at h
      by_cases hu : e.unit = x.unit
      · simp only [hu, ↓reduceIte] at h
        cases h
        simp [cats_cons, hc]
      · simp [hu] at h
    · simp only [hc, ↓reduceIte] at h
      cases hr : mergeOne f rest x with
      | error err => simp [hr] at h
      | ok rest' =>
        simp only [hr] at h
        cases h
        have := ih rest' hr
        have hne : ¬ x.cat = e.cat := fun h' => hc h'.symm
        rw [cats_cons, cats_cons, this]
        by_cases hx : x.cat ∈ cats rest
        · simp [hx]
        · simp [hx, hne]

theorem cats_mergeAll (f : Int → Int → Int) (a b m : List Entry) (h : mergeAll f a b = .ok m) :
    cats m = cats a ++ dedupFrom (cats a) (cats b) := by
  induction b generalizing a m with
  | nil => simp [mergeAll] at h; subst h; simp [cats, dedupFrom]
  | cons x xs ih =>
    unfold mergeAll at h
    cases h1 : mergeOne f a x with
    | error err => simp [h1] at h
    | ok a' =>
      simp only [h1] at h
      have h2 := cats_mergeOne f a x a' h1
      have h3 := ih a' m h
      rw [h3, h2, cats_cons]
      by_cases hx : x.cat ∈ cats a
      · simp [hx, dedupFrom]
      · simp [hx, dedupFrom]

/-- the recursion of `nfoldProduct` started from any quantity -/
def nfoldFrom (reg : Reg) (q r : Quantity) : Nat → Except ErrKind Quantity
  | 0 => .ok r
  | k + 1 =>
    match nfoldFrom reg q r k with
    | .error err => .error err
    | .ok x => opQ reg .mul q x

theorem nfoldProduct_eq (reg : Reg) (q : Quantity) (k : Nat) : nfoldProduct reg q k = nfoldFrom reg q q k := by
  induction k with
  | zero => rfl
  | succ k ih =>
    simp only [nfoldProduct, nfoldFrom, ih]
    cases nfoldFrom reg q q k <;> rfl

theorem nfoldFrom_succ (reg : Reg) (q r : Quantity) (k : Nat) :
    nfoldFrom reg q r (k + 1) = match opQ reg .mul q r with
      | .error err => .error err
      | .ok r' => nfoldFrom reg q r' k := by
  induction k with
  | zero =>
    simp only [nfoldFrom]
    cases opQ reg .mul q r <;> rfl
  | succ k ih =>
    rw [nfoldFrom, ih]
    cases opQ reg .mul q r with
    | error err => rfl
    | ok r' => simp only [nfoldFrom]

theorem qpowLoop_eq (reg : Reg) (q : Quantity) (k : Nat) (r : Quantity) :
    qpowLoop reg q k r = nfoldFrom reg q r k := by
  induction k generalizing r with
  | zero => rfl
  | succ k ih =>
    rw [nfoldFrom_succ, qpowLoop]
    cases opQ reg .mul q r with
    | error err => rfl
    | ok r' => exact ih r'


/-! ### powers -/

theorem scaleEntries_cons (n : Int) (e : Entry) (es : List Entry) :
    scaleEntries n (e :: es) = { e with exp := e.exp * n } :: scaleEntries n es := rfl

theorem scaleEntries_one (es : List Entry) : scaleEntries 1 es = es := by
  induction es with
  | nil => rfl
  | cons e rest ih => rw [scaleEntries_cons, ih]; simp

theorem cats_scaleEntries (n : Int) (es : List Entry) : cats (scaleEntries n es) = cats es := by
  induction es with
  | nil => rfl
  | cons e rest ih => rw [scaleEntries_cons, cats_cons, cats_cons, ih]

/-- matching looks at categories and units only: it commutes with scaling the exponents -/
theorem matchOne_scale (reg : Reg) (n : Int) (es : List Entry) (used used' : List (Str × Str)) (es' : List Entry)
    (h : matchOne reg used es = .ok (used', es')) :
    matchOne reg used (scaleEntries n es) = .ok (used', scaleEntries n es') := by
  induction es generalizing used used' es' with
  | nil => simp [matchOne] at h; obtain ⟨h1, h2⟩ := h; subst h1 h2; rfl
  | cons e rest ih =>
    rw [scaleEntries_cons]
    unfold matchOne at h ⊢
    simp only
    cases hq : reg.qtypeOf e.cat with
    | error err => simp [hq] at h
    | ok qt =>
      simp only [hq] at h ⊢
      cases hl : lookupUsed qt used with
      | none =>
        simp only [hl] at h ⊢
        cases hr : matchOne reg ((qt, e.unit) :: used) rest with
        | error err => simp [hr] at h
        | ok r =>
          obtain ⟨u1, r1⟩ := r
          simp only [hr] at h
          cases h
          rw [ih _ _ _ hr]
          rfl
      | some w =>
        simp only [hl] at h ⊢
        cases hr : matchOne reg used rest with
        | error err => simp [hr] at h
        | ok r =>
          obtain ⟨u1, r1⟩ := r
          simp only [hr] at h
          cases h
          rw [ih _ _ _ hr]
          rfl

/-- a successful matching pass has looked up the quantity type of every category -/
theorem typePairs_of_matchOne (reg : Reg) (n : Int) (es : List Entry) (used : List (Str × Str))
    (r : List (Str × Str) × List Entry) (h : matchOne reg used es = .ok r) :
    ∃ tps, typePairs reg (scaleEntries n es) = .ok tps := by
  induction es generalizing used r with
  | nil => exact ⟨[], rfl⟩
  | cons e rest ih =>
    rw [scaleEntries_cons]
    unfold matchOne at h
    unfold typePairs
    simp only
    cases hq : reg.qtypeOf e.cat with
    | error err => simp [hq] at h
    | ok qt =>
      simp only [hq] at h ⊢
      have hrest : ∃ u r', matchOne reg u rest = .ok r' := by
        cases hl : lookupUsed qt used with
        | none =>
          simp only [hl] at h
          cases hr : matchOne reg ((qt, e.unit) :: used) rest with
          | error err => simp [hr] at h
          | ok r' => exact ⟨_, r', hr⟩
        | some w =>
          simp only [hl] at h
          cases hr : matchOne reg used rest with
          | error err => simp [hr] at h
          | ok r' => exact ⟨_, r', hr⟩
      obtain ⟨u, r', hr⟩ := hrest
      obtain ⟨tps, ht⟩ := ih u r' hr
      exact ⟨_, by rw [ht]⟩

theorem mergeOne_hit (f : Int → Int → Int) (pre : List Entry) (x : Entry) (rest : List Entry) (y : Entry)
    (hpre : ∀ p ∈ pre, p.cat ≠ y.cat) (hc : x.cat = y.cat) (hu : x.unit = y.unit) :
    mergeOne f (pre ++ x :: rest) y = .ok (pre ++ { x with exp := f x.exp y.exp } :: rest) := by
  induction pre with
  | nil => simp [mergeOne, hc, hu]
  | cons p ps ih =>
    have hp : p.cat ≠ y.cat := hpre p (by simp)
    have := ih (fun p' hp' => hpre p' (by simp [hp']))
    simp [mergeOne, hp, this]

/-- multiplying a quantity by a power of itself: every category is found again, with the same unit -/
theorem mergeAll_scaled (m : Int) (pre suf : List Entry) (h : (cats (pre ++ suf)).Nodup) :
    mergeAll (expOp .mul) (pre ++ suf) (scaleEntries m suf) = .ok (pre ++ scaleEntries (m + 1) suf) := by
  induction suf generalizing pre with
  | nil => simp [mergeAll, scaleEntries]
  | cons x rest ih =>
    rw [scaleEntries_cons, mergeAll]
    have hpre : ∀ p ∈ pre, p.cat ≠ x.cat := by
      intro p hp hpc
      have : (cats pre ++ x.cat :: cats rest).Nodup := by simpa [cats] using h
      rw [List.nodup_append] at this
      exact this.2.2 p.cat (by simp [cats]; exact ⟨p, hp, rfl⟩) x.cat (by simp) hpc
    rw [mergeOne_hit (expOp .mul) pre x rest { x with exp := x.exp * m } hpre rfl rfl]
    simp only
    have h' : (cats ((pre ++ [{ x with exp := expOp .mul x.exp (x.exp * m) }]) ++ rest)).Nodup := by
      simpa [cats] using h
    have := ih (pre ++ [{ x with exp := expOp .mul x.exp (x.exp * m) }]) h'
    simp only [List.append_assoc, List.singleton_append] at this
    rw [this, scaleEntries_cons]
    simp only [expOp]
    have : x.exp + x.exp * m = x.exp * (m + 1) := by rw [Int.mul_add, Int.mul_one, Int.add_comm]
    rw [this]

theorem unitTotal_scale (u : Str) (n : Int) (es : List Entry) :
    unitTotal u (scaleEntries n es) = unitTotal u es * n := by
  induction es with
  | nil => simp [unitTotal, scaleEntries]
  | cons e rest ih =>
    rw [scaleEntries_cons, unitTotal, unitTotal, ih, Int.add_mul]
    by_cases hu : e.unit = u <;> simp [hu]

theorem dropZero_scale (n : Int) (hn : n ≠ 0) (es : List Entry)
    (hkeep : ∀ e ∈ es, e.exp ≠ 0 ∧ unitTotal e.unit es ≠ 0) :
    dropZero (scaleEntries n es) = scaleEntries n es := by
  unfold dropZero
  rw [List.filter_eq_self]
  intro e he
  simp only [scaleEntries, List.mem_map] at he
  obtain ⟨e0, he0, rfl⟩ := he
  obtain ⟨h1, h2⟩ := hkeep e0 he0
  have := unitTotal_scale e0.unit n es
  simp [keepEntry, this, Int.mul_eq_zero, h1, h2, hn]

theorem addExp_scale (n : Int) (acc : List (Str × Int)) (k : Str) (e : Int) :
    addExp (acc.map (fun p => (p.1, p.2 * n))) k (e * n) = (addExp acc k e).map (fun p => (p.1, p.2 * n)) := by
  induction acc with
  | nil => simp [addExp]
  | cons p rest ih =>
    obtain ⟨v, f⟩ := p
    by_cases hv : v = k
    · simp [addExp, hv, Int.add_mul]
    · simp [addExp, hv, ih]

theorem joinExpsFrom_scale (n : Int) (acc ps : List (Str × Int)) :
    joinExpsFrom (acc.map (fun p => (p.1, p.2 * n))) (ps.map (fun p => (p.1, p.2 * n)))
      = (joinExpsFrom acc ps).map (fun p => (p.1, p.2 * n)) := by
  induction ps generalizing acc with
  | nil => rfl
  | cons p rest ih =>
    obtain ⟨k, e⟩ := p
    simp only [List.map_cons, joinExpsFrom]
    rw [addExp_scale, ih]

/-- the joined composing units of the scaled entry list: every joined exponent multiplied by `n` -/
theorem joinedUnits_scale (n : Int) (es : List Entry) :
    joinedUnits (scaleEntries n es) = (joinedUnits es).map (fun p => (p.1, p.2 * n)) := by
  unfold joinedUnits joinExps
  have : unitPairs (scaleEntries n es) = (unitPairs es).map (fun p => (p.1, p.2 * n)) := by
    simp [unitPairs, scaleEntries]
  rw [this]
  exact joinExpsFrom_scale n [] (unitPairs es)


theorem mul_ne_one_of_two_le (a n : Int) (hn : 2 ≤ n) : a * n ≠ 1 := by
  intro h
  have h2 := congrArg Int.natAbs h
  rw [Int.natAbs_mul] at h2
  have h3 : n.natAbs = 1 := Nat.eq_one_of_mul_eq_one_left h2
  omega

theorem obtainFromDict_scaled (reg : Reg) (n : Int) (hn : 2 ≤ n) (es : List Entry) :
    obtainFromDict reg (scaleEntries n es) = newDerived reg (scaleEntries n es) := by
  cases es with
  | nil => rfl
  | cons e rest =>
    cases rest with
    | nil =>
      simp only [scaleEntries, List.map_cons, List.map_nil, obtainFromDict]
      rw [if_neg (mul_ne_one_of_two_le e.exp n hn)]
    | cons e2 rest2 => rfl

theorem newDerived_entries (reg : Reg) (es : List Entry) (r : Quantity) (h : newDerived reg es = .ok r) :
    r.entries = es ∧ r.derived = true ∧ r.unit = renderUnit (joinedUnits es) := by
  unfold newDerived at h
  split at h
  · cases h
  · cases h; exact ⟨rfl, rfl, rfl⟩

/-- `q * r` where `r` carries `q`'s entries with the exponents multiplied by `m`: the exponents multiplied by `m + 1` -/
theorem opQ_self_scaled (reg : Reg) (q r : Quantity) (m : Int) (used used' : List (Str × Str)) (hm1 : 1 ≤ m)
    (hm : matchOne reg [] q.entries = .ok (used, q.entries))
    (hm' : matchOne reg used q.entries = .ok (used', q.entries))
    (hnd : (q.entries.map (·.cat)).Nodup)
    (hkeep : ∀ e ∈ q.entries, e.exp ≠ 0 ∧ unitTotal e.unit q.entries ≠ 0)
    (hr : r.entries = scaleEntries m q.entries) :
    opQ reg .mul q r = newDerived reg (scaleEntries (m + 1) q.entries) := by
  unfold opQ opEntries matchEntries
  rw [hm]
  simp only
  rw [hr, matchOne_scale reg m _ _ _ _ hm']
  simp only
  have h1 := mergeAll_scaled m [] q.entries (by simpa [cats] using hnd)
  simp only [List.nil_append] at h1
  rw [h1]
  simp only
  rw [dropZero_scale (m + 1) (by omega) _ hkeep]
  exact obtainFromDict_scaled reg (m + 1) (by omega) _

theorem newDerived_scaled_ok (reg : Reg) (q : Quantity) (used : List (Str × Str)) (n : Int)
    (hm : matchOne reg [] q.entries = .ok (used, q.entries)) :
    ∃ r', newDerived reg (scaleEntries n q.entries) = .ok r' := by
  obtain ⟨tps, ht⟩ := typePairs_of_matchOne reg n q.entries [] _ hm
  unfold newDerived
  rw [ht]
  exact ⟨_, rfl⟩

theorem qpowLoop_scaled (reg : Reg) (q : Quantity) (used used' : List (Str × Str))
    (hm : matchOne reg [] q.entries = .ok (used, q.entries))
    (hm' : matchOne reg used q.entries = .ok (used', q.entries))
    (hnd : (q.entries.map (·.cat)).Nodup)
    (hkeep : ∀ e ∈ q.entries, e.exp ≠ 0 ∧ unitTotal e.unit q.entries ≠ 0)
    (k : Nat) (r : Quantity) (m : Int) (hm1 : 1 ≤ m) (hr : r.entries = scaleEntries m q.entries) :
    qpowLoop reg q (k + 1) r = newDerived reg (scaleEntries (m + k + 1) q.entries) := by
  induction k generalizing r m with
  | zero =>
    have h1 := opQ_self_scaled reg q r m used used' hm1 hm hm' hnd hkeep hr
    have h0 : m + ((0 : Nat) : Int) + 1 = m + 1 := by omega
    rw [h0]
    simp only [qpowLoop, h1]
    cases newDerived reg (scaleEntries (m + 1) q.entries) <;> rfl
  | succ k ih =>
    have h1 := opQ_self_scaled reg q r m used used' hm1 hm hm' hnd hkeep hr
    obtain ⟨r1, hr1⟩ := newDerived_scaled_ok reg q used (m + 1) hm
    have he := (newDerived_entries reg _ r1 hr1).1
    have := ih r1 (m + 1) (by omega) he
    have hcast : m + 1 + (k : Int) + 1 = m + ((k + 1 : Nat) : Int) + 1 := by omega
    rw [hcast] at this
    rw [qpowLoop, h1, hr1]
    exact this

theorem obtainFromDict_entries (reg : Reg) (es : List Entry) (r : Quantity) (h : obtainFromDict reg es = .ok r) :
    r.entries = es := by
  have hd : ∀ r', newDerived reg es = .ok r' → r'.entries = es := fun r' h' => (newDerived_entries reg es r' h').1
  unfold obtainFromDict at h
  split at h
  · rename_i e
    by_cases he : e.exp = 1
    · simp only [he, ↓reduceIte, newSimple] at h
      split at h
      · cases h
      · cases h
        cases e
        simp_all
    · simp only [he, ↓reduceIte] at h
      exact hd r h
  · exact hd r h

/-! ### matching is idempotent -/

/-- a matching pass only adds quantity types that were not in the dict: what was there stays -/
theorem matchOne_mono (reg : Reg) (es : List Entry) (used used' : List (Str × Str)) (es' : List Entry)
    (h : matchOne reg used es = .ok (used', es')) (qt w : Str) (hl : lookupUsed qt used = some w) :
    lookupUsed qt used' = some w := by
  induction es generalizing used used' es' with
  | nil => simp [matchOne] at h; obtain ⟨h1, _⟩ := h; subst h1; exact hl
  | cons e rest ih =>
    unfold matchOne at h
    cases hq : reg.qtypeOf e.cat with
    | error err => simp [hq] at h
    | ok qt0 =>
      simp only [hq] at h
      cases hl0 : lookupUsed qt0 used with
      | none =>
        simp only [hl0] at h
        cases hr : matchOne reg ((qt0, e.unit) :: used) rest with
        | error err => simp [hr] at h
        | ok r =>
          obtain ⟨u1, r1⟩ := r
          simp only [hr] at h
          cases h
          apply ih _ _ _ hr
          have hne : qt0 ≠ qt := by
            intro heq; subst heq; rw [hl0] at hl; cases hl
          simp [lookupUsed, hne, hl]
      | some w0 =>
        simp only [hl0] at h
        cases hr : matchOne reg used rest with
        | error err => simp [hr] at h
        | ok r =>
          obtain ⟨u1, r1⟩ := r
          simp only [hr] at h
          cases h
          exact ih _ _ _ hr hl

/-- after a matching pass every entry carries the unit the dict holds for its quantity type -/
theorem matchOne_settled (reg : Reg) (es : List Entry) (used used' : List (Str × Str)) (es' : List Entry)
    (h : matchOne reg used es = .ok (used', es')) :
    ∀ e' ∈ es', ∃ qt, reg.qtypeOf e'.cat = .ok qt ∧ lookupUsed qt used' = some e'.unit := by
  induction es generalizing used used' es' with
  | nil => simp [matchOne] at h; obtain ⟨_, h2⟩ := h; subst h2; simp
  | cons e rest ih =>
    unfold matchOne at h
    cases hq : reg.qtypeOf e.cat with
    | error err => simp [hq] at h
    | ok qt0 =>
      simp only [hq] at h
      cases hl0 : lookupUsed qt0 used with
      | none =>
        simp only [hl0] at h
        cases hr : matchOne reg ((qt0, e.unit) :: used) rest with
        | error err => simp [hr] at h
        | ok r =>
          obtain ⟨u1, r1⟩ := r
          simp only [hr] at h
          cases h
          intro e' he'
          rcases List.mem_cons.mp he' with rfl | hmem
          · exact ⟨qt0, hq, matchOne_mono reg rest _ _ _ hr qt0 e'.unit (by simp [lookupUsed])⟩
          · exact ih _ _ _ hr e' hmem
      | some w0 =>
        simp only [hl0] at h
        cases hr : matchOne reg used rest with
        | error err => simp [hr] at h
        | ok r =>
          obtain ⟨u1, r1⟩ := r
          simp only [hr] at h
          cases h
          intro e' he'
          rcases List.mem_cons.mp he' with rfl | hmem
          · exact ⟨qt0, hq, matchOne_mono reg rest _ _ _ hr qt0 w0 hl0⟩
          · exact ih _ _ _ hr e' hmem

/-- entries that carry the dict's unit for their quantity type pass a matching pass unchanged -/
theorem matchOne_fixed (reg : Reg) (U : List (Str × Str)) (es : List Entry)
    (h : ∀ e ∈ es, ∃ qt, reg.qtypeOf e.cat = .ok qt ∧ lookupUsed qt U = some e.unit) :
    matchOne reg U es = .ok (U, es) := by
  induction es with
  | nil => rfl
  | cons e rest ih =>
    obtain ⟨qt, hq, hl⟩ := h e (by simp)
    have := ih (fun e' he' => h e' (by simp [he']))
    unfold matchOne
    simp only [hq, hl, this]

/-- matching is idempotent: a second pass with the dict the first pass left changes nothing -/
theorem matchOne_idem (reg : Reg) (es : List Entry) (used used' : List (Str × Str)) (es' : List Entry)
    (h : matchOne reg used es = .ok (used', es')) : matchOne reg used' es' = .ok (used', es') :=
  matchOne_fixed reg used' es' (matchOne_settled reg es used used' es' h)

/-- multiplying a power of a quantity by the quantity itself (the order of `Scalar.__pow__`) -/
theorem mergeAll_scaled_left (m : Int) (pre suf : List Entry) (h : (cats (pre ++ suf)).Nodup) :
    mergeAll (expOp .mul) (pre ++ scaleEntries m suf) suf = .ok (pre ++ scaleEntries (m + 1) suf) := by
  induction suf generalizing pre with
  | nil => simp [mergeAll, scaleEntries]
  | cons x rest ih =>
    rw [scaleEntries_cons, mergeAll]
    have hpre : ∀ p ∈ pre, p.cat ≠ x.cat := by
      intro p hp hpc
      have : (cats pre ++ x.cat :: cats rest).Nodup := by simpa [cats] using h
      rw [List.nodup_append] at this
      exact this.2.2 p.cat (by simp [cats]; exact ⟨p, hp, rfl⟩) x.cat (by simp) hpc
    rw [mergeOne_hit (expOp .mul) pre { x with exp := x.exp * m } (scaleEntries m rest) x hpre rfl rfl]
    simp only
    have h' : (cats ((pre ++ [{ x with exp := expOp .mul (x.exp * m) x.exp }]) ++ rest)).Nodup := by
      simpa [cats] using h
    have := ih (pre ++ [{ x with exp := expOp .mul (x.exp * m) x.exp }]) h'
    simp only [List.append_assoc, List.singleton_append] at this
    rw [this, scaleEntries_cons]
    simp only [expOp]
    have : x.exp * m + x.exp = x.exp * (m + 1) := by rw [Int.mul_add, Int.mul_one]
    rw [this]

theorem opQ_scaled_self (reg : Reg) (q r : Quantity) (m : Int) (used : List (Str × Str)) (hm1 : 1 ≤ m)
    (hm : matchOne reg [] q.entries = .ok (used, q.entries))
    (hnd : (q.entries.map (·.cat)).Nodup)
    (hkeep : ∀ e ∈ q.entries, e.exp ≠ 0 ∧ unitTotal e.unit q.entries ≠ 0)
    (hr : r.entries = scaleEntries m q.entries) :
    opQ reg .mul r q = newDerived reg (scaleEntries (m + 1) q.entries) := by
  unfold opQ opEntries matchEntries
  rw [hr, matchOne_scale reg m _ _ _ _ hm]
  simp only
  rw [matchOne_idem reg q.entries [] used q.entries hm]
  simp only
  have h1 := mergeAll_scaled_left m [] q.entries (by simpa [cats] using hnd)
  simp only [List.nil_append] at h1
  rw [h1]
  simp only
  rw [dropZero_scale (m + 1) (by omega) _ hkeep]
  exact obtainFromDict_scaled reg (m + 1) (by omega) _

theorem spowLoop_scaled (reg : Reg) (q : Quantity) (used : List (Str × Str))
    (hm : matchOne reg [] q.entries = .ok (used, q.entries))
    (hnd : (q.entries.map (·.cat)).Nodup)
    (hkeep : ∀ e ∈ q.entries, e.exp ≠ 0 ∧ unitTotal e.unit q.entries ≠ 0)
    (k : Nat) (r : Quantity) (m : Int) (hm1 : 1 ≤ m) (hr : r.entries = scaleEntries m q.entries) :
    spowLoop reg q (k + 1) r = newDerived reg (scaleEntries (m + k + 1) q.entries) := by
  induction k generalizing r m with
  | zero =>
    have h1 := opQ_scaled_self reg q r m used hm1 hm hnd hkeep hr
    have h0 : m + ((0 : Nat) : Int) + 1 = m + 1 := by omega
    rw [h0]
    simp only [spowLoop, h1]
    cases newDerived reg (scaleEntries (m + 1) q.entries) <;> rfl
  | succ k ih =>
    have h1 := opQ_scaled_self reg q r m used hm1 hm hnd hkeep hr
    obtain ⟨r1, hr1⟩ := newDerived_scaled_ok reg q used (m + 1) hm
    have he := (newDerived_entries reg _ r1 hr1).1
    have := ih r1 (m + 1) (by omega) he
    have hcast : m + 1 + (k : Int) + 1 = m + ((k + 1 : Nat) : Int) + 1 := by omega
    rw [hcast] at this
    rw [spowLoop, h1, hr1]
    exact this

end Barril.Str
