/-
The continued-fraction loop of `FractionValue.CreateFromFloat` in exact arithmetic: it returns the
reduced fraction of its target.  Invariant (integer Möbius form): with `fractional_part = c / e`,
`target.num = pCur·c + pPrev·e`, `target.den = qCur·c + qPrev·e`, determinant `±1`.
-/
import Barril.Proofs.FracLemmas
import Mathlib.Tactic.NormNum
import Mathlib.Tactic.Linarith
import Mathlib.Data.Int.GCD

namespace Barril.Frac

/-- the loop invariant at the head of every pass after the first -/
structure CFInv (t : Rat) (s : CFState) (c e : Int) : Prop where
  he : 0 < e
  hce : e < c
  hf : s.f = (c : Rat) / (e : Rat)
  hp0 : 0 ≤ s.pPrev
  hp1 : 0 ≤ s.pCur
  hq0 : 0 ≤ s.qPrev
  hq1 : 1 ≤ s.qCur
  hnum : t.num = s.pCur * c + s.pPrev * e
  hden : (t.den : Int) = s.qCur * c + s.qPrev * e
  hdet : s.pCur * s.qPrev - s.pPrev * s.qCur = 1 ∨ s.pCur * s.qPrev - s.pPrev * s.qCur = -1
  hprev : s.prevCalc = some ((s.pCur : Rat) / (s.qCur : Rat))

theorem floor_int_div (c e : Int) (he : 0 < e) : ((c : Rat) / (e : Rat)).floor = c / e := by
  rw [floor_eq]
  have he' : (0 : Rat) < (e : Rat) := by exact_mod_cast he
  rw [Int.floor_eq_iff]
  constructor
  · rw [le_div_iff₀ he']
    exact_mod_cast Int.ediv_mul_le c (ne_of_gt he)
  · rw [div_lt_iff₀ he']
    have := Int.lt_ediv_add_one_mul_self c he
    exact_mod_cast this

/-- one pass of the loop from a state satisfying the invariant -/
theorem cfStep_inv {t : Rat} {s : CFState} {c e : Int} {maxNum : Int} (hI : CFInv t s c e)
    (hmax : t.num ≤ maxNum) :
    (c % e = 0 → cfStep t maxNum s = .ok (.inl (t.num, (t.den : Int)))) ∧
    (c % e ≠ 0 → ∃ s', cfStep t maxNum s = .ok (.inr s') ∧ CFInv t s' e (c % e)) := by
  obtain ⟨he, hce, hf, hp0, hp1, hq0, hq1, hnum, hden, hdet, hprev⟩ := hI
  set l := c / e with hl
  set r := c % e with hr
  have hc : c = e * l + r := (Int.mul_ediv_add_emod c e).symm
  have hr0 : 0 ≤ r := Int.emod_nonneg c (ne_of_gt he)
  have hre : r < e := Int.emod_lt_of_pos c he
  have hl1 : 1 ≤ l := by
    have : e * l + r > e * 0 + e - 1 := by omega
    by_contra hneg
    have hl0 : l ≤ 0 := by omega
    have : e * l ≤ 0 := by nlinarith
    omega
  have hfl : s.f.floor = l := by rw [hf, floor_int_div c e he]
  set p := l * s.pCur + s.pPrev with hp
  set q := l * s.qCur + s.qPrev with hq
  have hp_nn : 0 ≤ p := by nlinarith
  have hq_pos : 1 ≤ q := by nlinarith
  have hnum' : t.num = p * e + s.pCur * r := by rw [hnum, hc, hp]; ring
  have hden' : (t.den : Int) = q * e + s.qCur * r := by rw [hden, hc, hq]; ring
  have hdet' : p * s.qCur - s.pCur * q = -(s.pCur * s.qPrev - s.pPrev * s.qCur) := by rw [hp, hq]; ring
  have hdet'' : p * s.qCur - s.pCur * q = 1 ∨ p * s.qCur - s.pCur * q = -1 := by
    rcases hdet with h | h <;> rw [hdet', h] <;> simp
  have hp_le : (p.natAbs : Int) ≤ maxNum := by
    rw [Int.natAbs_of_nonneg hp_nn]
    have : p ≤ p * e := by nlinarith
    have : 0 ≤ s.pCur * r := mul_nonneg hp1 hr0
    omega
  have hq_ne : q ≠ 0 := by omega
  have hqR : (q : Rat) ≠ 0 := by exact_mod_cast hq_ne
  have hqcR : (s.qCur : Rat) ≠ 0 := by
    have : s.qCur ≠ 0 := by omega
    exact_mod_cast this
  -- the new convergent differs from the previous one
  have hprev_ne : s.prevCalc ≠ some ((p : Rat) / (q : Rat)) := by
    rw [hprev]
    intro h
    have h' := Option.some.inj h
    rw [div_eq_div_iff hqcR hqR] at h'
    have h2 : s.pCur * q = p * s.qCur := by exact_mod_cast h'
    rcases hdet'' with h3 | h3 <;> omega
  have hden_pos : (0 : Rat) < (t.den : Rat) := by exact_mod_cast t.den_pos
  -- the convergent equals the target exactly when the remainder vanishes
  have hcv : (p : Rat) / (q : Rat) = t ↔ r = 0 := by
    have ht : t = (t.num : Rat) / (t.den : Rat) := (Rat.num_div_den t).symm
    constructor
    · intro h
      rw [ht, div_eq_div_iff hqR (ne_of_gt hden_pos)] at h
      have h2 : p * (t.den : Int) = t.num * q := by exact_mod_cast h
      rw [hden', hnum'] at h2
      have h3 : r * (p * s.qCur - s.pCur * q) = 0 := by linarith [h2]
      rcases hdet'' with h4 | h4 <;> rw [h4] at h3 <;> omega
    · intro h
      rw [ht, div_eq_div_iff hqR (ne_of_gt hden_pos)]
      have h2 : p * (t.den : Int) = t.num * q := by rw [hden', hnum', h]; ring
      exact_mod_cast h2
  have hstep : cfStep t maxNum s =
      (if (p : Rat) / (q : Rat) = t then .ok (.inl ((p.natAbs : Int), (q.natAbs : Int)))
       else if s.f - (l : Rat) = 0 then .error .other
       else .ok (.inr ⟨1 / (s.f - (l : Rat)), s.pCur, p, s.qCur, q, some ((p : Rat) / (q : Rat)), p.natAbs, q.natAbs⟩)) := by
    unfold cfStep
    simp only [hfl]
    rw [if_neg (not_lt.mpr hp_le), if_neg hq_ne, if_neg hprev_ne]
  constructor
  · intro hr0'
    rw [hstep, if_pos (hcv.mpr hr0')]
    -- e divides both the numerator and the denominator of the reduced target, so e = 1
    have hnum1 : t.num = p * e := by rw [hnum', hr0']; ring
    have hden1 : (t.den : Int) = q * e := by rw [hden', hr0']; ring
    have hcop : Int.gcd t.num (t.den : Int) = 1 := by
      have := t.reduced
      simpa [Int.gcd, Nat.Coprime] using this
    have he1 : e = 1 := by
      have hd1 : e ∣ t.num := ⟨p, by rw [hnum1]; ring⟩
      have hd2 : e ∣ (t.den : Int) := ⟨q, by rw [hden1]; ring⟩
      have := Int.dvd_coe_gcd hd1 hd2
      rw [hcop] at this
      have := Int.le_of_dvd (by norm_num) this
      omega
    rw [Int.natAbs_of_nonneg hp_nn, Int.natAbs_of_nonneg (by omega : 0 ≤ q)]
    rw [hnum1, hden1, he1]; simp
  · intro hrne
    have hrpos : 0 < r := by omega
    have heR : (e : Rat) ≠ 0 := by exact_mod_cast (ne_of_gt he)
    have hrR : (r : Rat) ≠ 0 := by exact_mod_cast hrne
    have hfl' : s.f - (l : Rat) = (r : Rat) / (e : Rat) := by
      rw [hf]
      have : (c : Rat) = (e : Rat) * (l : Rat) + (r : Rat) := by exact_mod_cast hc
      rw [this]; field_simp; ring
    have hne0 : s.f - (l : Rat) ≠ 0 := by rw [hfl']; exact div_ne_zero hrR heR
    refine ⟨⟨1 / (s.f - (l : Rat)), s.pCur, p, s.qCur, q, some ((p : Rat) / (q : Rat)), p.natAbs, q.natAbs⟩, ?_, ?_⟩
    · rw [hstep, if_neg (fun h => hrne (hcv.mp h)), if_neg hne0]
    · refine ⟨hrpos, hre, ?_, hp1, hp_nn, (le_trans (by norm_num) hq1 : (0 : Int) ≤ s.qCur), hq_pos, ?_, ?_, ?_, rfl⟩
      · show 1 / (s.f - (l : Rat)) = (e : Rat) / (r : Rat)
        rw [hfl']; field_simp
      · show t.num = p * e + s.pCur * r
        exact hnum'
      · show (t.den : Int) = q * e + s.qCur * r
        exact hden'
      · show p * s.qCur - s.pCur * q = 1 ∨ p * s.qCur - s.pCur * q = -1
        exact hdet''

/-- the loop ends within `2·n` passes when the remainder is below `2^n` -/
theorem cfLoop_inv {t : Rat} {maxNum : Int} (hmax : t.num ≤ maxNum) :
    ∀ (n : Nat) (s : CFState) (c e : Int), CFInv t s c e → e < 2 ^ n → ∀ fuel, 2 * n ≤ fuel →
      cfLoop t maxNum fuel s = .ok (t.num, (t.den : Int)) := by
  intro n
  induction n with
  | zero =>
    intro s c e hI he _ _
    have := hI.he
    simp at he; omega
  | succ n ih =>
    intro s c e hI he fuel hfuel
    obtain ⟨f1, rfl⟩ : ∃ f1, fuel = f1 + 2 := ⟨fuel - 2, by omega⟩
    have h1 := cfStep_inv hI hmax
    by_cases hr : c % e = 0
    · rw [cfLoop, h1.1 hr]
    · obtain ⟨s', hs', hI'⟩ := h1.2 hr
      rw [cfLoop, hs']
      simp only
      have h2 := cfStep_inv hI' hmax
      by_cases hr' : e % (c % e) = 0
      · rw [cfLoop, h2.1 hr']
      · obtain ⟨s'', hs'', hI''⟩ := h2.2 hr'
        rw [cfLoop, hs'']
        simp only
        apply ih s'' _ _ hI'' _ f1 (by omega)
        -- the remainder halves every two passes
        have hr0 : 0 < c % e := hI'.he
        have hre : c % e < e := hI'.hce
        have hdiv : e = (c % e) * (e / (c % e)) + e % (c % e) := (Int.mul_ediv_add_emod e (c % e)).symm
        have hq1 : 1 ≤ e / (c % e) := by
          have := Int.lt_ediv_add_one_mul_self e hr0
          by_contra hneg
          have : e / (c % e) ≤ 0 := by omega
          nlinarith
        have hlt : e % (c % e) < c % e := Int.emod_lt_of_pos e hr0
        have h0 : 0 ≤ e % (c % e) := Int.emod_nonneg e (ne_of_gt hr0)
        have : (c % e) * (e / (c % e)) ≥ c % e := by nlinarith
        have h2e : 2 * (e % (c % e)) < e := by omega
        have : (2 : Int) ^ (n + 1) = 2 * 2 ^ n := by ring
        omega

/-- **the loop of `CreateFromFloat` returns the reduced fraction of its target** `0 < t < 1`
whenever the numerator bound does not cut it short and the target's numerator is below `2^498` -/
theorem cfLoop_exact {t : Rat} (h0 : 0 < t) (h1 : t < 1) {maxNum : Int} (hmax : t.num ≤ maxNum)
    (hsize : t.num < 2 ^ 498) :
    cfLoop t maxNum 998 (cfInit t) = .ok (t.num, (t.den : Int)) := by
  have hnum_pos : 0 < t.num := Rat.num_pos.mpr h0
  have hfl : t.floor = 0 := by
    rw [floor_eq, Int.floor_eq_iff]; constructor <;> simp <;> linarith
  have hstep : cfStep t maxNum (cfInit t) = .ok (.inr ⟨1 / (t - 0), 1, 0, 0, 1, some 0, 0, 1⟩) := by
    unfold cfStep cfInit
    simp only [hfl]
    have hm : ¬ (maxNum < ((0 * 1 + 0 : Int).natAbs : Int)) := by simp; omega
    rw [if_neg hm]
    have hq : (0 * 0 + 1 : Int) ≠ 0 := by norm_num
    rw [if_neg hq]
    have e1 : (((0 * 1 + 0 : Int) : Rat) / ((0 * 0 + 1 : Int) : Rat)) = 0 := by norm_num
    rw [e1]
    rw [if_neg (by simp), if_neg (ne_of_lt h0)]
    have : t - ((0 : Int) : Rat) ≠ 0 := by simp; exact ne_of_gt h0
    rw [if_neg this]
    simp
  rw [cfLoop, hstep]
  simp only
  apply cfLoop_inv hmax 498 _ (t.den : Int) t.num ?_ hsize 997 (by norm_num)
  have hlt : t.num < (t.den : Int) := by
    have := (Rat.lt_iff t 1).mp h1
    simpa using this
  refine ⟨hnum_pos, hlt, ?_, by norm_num, by norm_num, by norm_num, by norm_num, by simp, by simp, Or.inr (by norm_num), by simp⟩
  show 1 / (t - 0) = (t.den : Rat) / (t.num : Rat)
  have hn : (t.num : Rat) ≠ 0 := by exact_mod_cast (ne_of_gt hnum_pos)
  have hd : (t.den : Rat) ≠ 0 := by exact_mod_cast t.den_nz
  conv_lhs => rw [← Rat.num_div_den t]
  rw [sub_zero, one_div, inv_div]

theorem fv_init_default (n : Rat) : FV.init (some n) FracArg.default = .ok ⟨n, ⟨0⟩⟩ := by
  have h0 : Frac.init (.fin 0) (some (.fin 1)) = .ok ⟨0⟩ := by
    have := init_fin_fin 0 1 (by norm_num)
    rw [this]
    have := normalise_int 0 1
    simpa using this
  simp [FV.init, setFraction, FracArg.default, h0]

/-- `CreateFromFloat` of an integer-valued number -/
theorem createFromFloat_of_int {d : Rat} (hd : d.den = 1) : createFromFloat d = .ok ⟨d, ⟨0⟩⟩ := by
  unfold createFromFloat
  rw [if_pos hd, fv_init_default]

/-- the wrapper around the loop, given what the digit handling delivers -/
theorem createFromFloat_of_parts {d : Rat} (hd : d.den ≠ 1) {dp fdp : DecParts}
    (h1 : decParts |d| = some dp)
    (h2 : getFractionalPart |d| dp = |d| - (⌊|d|⌋ : Rat))
    (h3 : decParts (|d| - (⌊|d|⌋ : Rat)) = some fdp)
    (h4 : (|d| - (⌊|d|⌋ : Rat)).num ≤ getMaxNumerator fdp)
    (h5 : (|d| - (⌊|d|⌋ : Rat)).num < 2 ^ 498) :
    ∃ v, createFromFloat d = .ok v ∧ v.value = d := by
  set t := |d| - (⌊|d|⌋ : Rat) with ht
  have hnotint : (⌊|d|⌋ : Rat) ≠ |d| := by
    intro h
    apply hd
    have habs : |d|.den = d.den := by
      rcases abs_choice d with h' | h' <;> rw [h']
      simp
    rw [← habs, ← h]
    simp
  have ht0 : 0 < t := by
    have := Int.floor_le |d|
    rw [ht]
    rcases lt_or_eq_of_le this with h | h
    · linarith
    · exact absurd h hnotint
  have ht1 : t < 1 := by
    have := Int.lt_floor_add_one |d|
    rw [ht]; linarith
  have hloop := cfLoop_exact ht0 ht1 h4 h5
  have hlt : t.num < (t.den : Int) := by
    have := (Rat.lt_iff t 1).mp ht1
    simpa using this
  have hne : t.num ≠ (t.den : Int) := ne_of_lt hlt
  unfold createFromFloat
  rw [if_neg hd]
  simp only [absR_eq_abs, h1, h2, floor_eq, h3, hloop, if_neg hne]
  have hden : ((t.den : Int) : Rat) ≠ 0 := by exact_mod_cast t.den_nz
  have hval : ((t.num : Int) : Rat) / ((t.den : Int) : Rat) = t := num_div_den' t
  by_cases hneg : d < 0
  · rw [if_pos hneg]
    have e1 : (-1 : Rat) * ((t.num : Int) : Rat) = ((-t.num : Int) : Rat) := by push_cast; ring
    refine ⟨⟨-1 * (⌊|d|⌋ : Rat), ⟨((-t.num : Int) : Rat) / ((t.den : Int) : Rat)⟩⟩, ?_, ?_⟩
    · simp only [FV.init, setFraction]
      rw [e1, init_fin_fin _ _ hden, normalise_int]
    · simp only [FV.value, Frac.toFloat]
      push_cast
      have hval' : (t.num : Rat) / (t.den : Rat) = t := Rat.num_div_den t
      rw [neg_div, hval', ht, abs_of_neg hneg]
      ring
  · rw [if_neg hneg]
    have e1 : (1 : Rat) * ((t.num : Int) : Rat) = ((t.num : Int) : Rat) := by ring
    refine ⟨⟨1 * (⌊|d|⌋ : Rat), ⟨((t.num : Int) : Rat) / ((t.den : Int) : Rat)⟩⟩, ?_, ?_⟩
    · simp only [FV.init, setFraction]
      rw [e1, init_fin_fin _ _ hden, normalise_int]
    · simp only [FV.value, Frac.toFloat]
      rw [hval, ht, abs_of_nonneg (not_lt.mp hneg)]
      ring

end Barril.Frac
