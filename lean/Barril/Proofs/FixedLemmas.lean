/-
Helper lemmas for C11 (engine `Fixed`): the size invariant through the internal constructor and
every function that ends in it, elementwise conversion, Python indexing.
-/
import Barril.Model.Fixed

namespace Barril.Fixed
open Barril

/-- the size invariant of a FixedArray state: `len(values) == dimension >= 2` -/
def Inv (fa : FixedArr) : Prop := (fa.vals.xs.length : Int) = fa.dim ∧ 2 ≤ fa.dim

instance (fa : FixedArr) : Decidable (Inv fa) := by unfold Inv; infer_instance

/-- the size invariant of a Curve: image and domain have the same number of points (`len`) -/
def CInv (c : Curve) : Prop := c.image.len = c.domain.len

instance (c : Curve) : Decidable (CInv c) := by unfold CInv; infer_instance

/-! ### the internal constructor -/

theorem checkValues_ok {values : ValArg} {d : Int} {v : Vals} (h : checkValues values d = .ok v) :
    values = .sized v ∧ (v.xs.length : Int) = d := by
  unfold checkValues at h
  split at h
  · cases h
  · split at h
    · cases h
    · rename_i hlen
      cases h
      exact ⟨rfl, by simpa using hlen⟩

/-- everything an accepted call of the internal constructor tells -/
theorem internalCreate_ok {cls : ClsAttr} {inst : Option Int} {q : Qty} {values value : Option ValArg}
    {dimension : Option Int} {fa : FixedArr}
    (h : internalCreate cls inst q values dimension value = .ok fa) :
    ∃ vs, mergeValue values value = .ok vs ∧ resolveDim cls inst dimension vs = .ok fa.dim ∧
      vs = .sized fa.vals ∧ fa.q = q ∧ Inv fa := by
  unfold internalCreate at h
  split at h
  · cases h
  · rename_i vs hvs
    split at h
    · cases h
    · rename_i d hd
      split at h
      · cases h
      · rename_i hd2
        split at h
        · cases h
        · rename_i v hv
          cases h
          obtain ⟨h1, h2⟩ := checkValues_ok hv
          refine ⟨vs, hvs, hd, h1, rfl, ?_, ?_⟩
          · exact h2
          · show 2 ≤ d
            omega

theorem internalCreate_inv {cls : ClsAttr} {inst : Option Int} {q : Qty} {values value : Option ValArg}
    {dimension : Option Int} {fa : FixedArr}
    (h : internalCreate cls inst q values dimension value = .ok fa) : Inv fa := by
  obtain ⟨_, _, _, _, _, hi⟩ := internalCreate_ok h
  exact hi

theorem createWithQuantity_ok {cls : ClsAttr} {q : Qty} {values value : Option ValArg}
    {dimension : Option Int} {o : Obj} (h : createWithQuantity cls q values dimension value = .ok o) :
    o.cls = cls ∧ internalCreate cls none q values dimension value = .ok o.st := by
  unfold createWithQuantity at h
  split at h
  · cases h
  · rename_i st hst
    cases h
    exact ⟨rfl, hst⟩

theorem createWithQuantity_inv {cls : ClsAttr} {q : Qty} {values value : Option ValArg}
    {dimension : Option Int} {o : Obj} (h : createWithQuantity cls q values dimension value = .ok o) :
    Inv o.st :=
  internalCreate_inv (createWithQuantity_ok h).2

theorem init_ok {db : Db} {cls : ClsAttr} {dim : Int} {args : InitArgs} {o : Obj}
    (h : init db cls dim args = .ok o) :
    2 ≤ dim ∧ o.cls = cls ∧ ∃ q v, initQuantity db dim args = .ok (q, v) ∧
      internalCreate cls (some dim) q (some v) none none = .ok o.st := by
  unfold init at h
  split at h
  · cases h
  · rename_i hd
    split at h
    · cases h
    · rename_i q v hq
      split at h
      · cases h
      · rename_i st hst
        cases h
        exact ⟨by omega, rfl, q, v, hq, hst⟩

theorem init_inv {db : Db} {cls : ClsAttr} {dim : Int} {args : InitArgs} {o : Obj}
    (h : init db cls dim args = .ok o) : Inv o.st := by
  obtain ⟨_, _, _, _, _, hc⟩ := init_ok h
  exact internalCreate_inv hc

/-- the dimension of an object built by `__init__` is the `dimension` argument -/
theorem init_dim {db : Db} {cls : ClsAttr} {dim : Int} {args : InitArgs} {o : Obj}
    (h : init db cls dim args = .ok o) : o.st.dim = dim := by
  obtain ⟨_, _, q, v, _, hc⟩ := init_ok h
  obtain ⟨vs, hm, hr, _, _, _⟩ := internalCreate_ok hc
  simp only [mergeValue] at hm
  cases hm
  simp only [resolveDim, lookupDim] at hr
  cases hr
  rfl

/-- `FixedArray(dimension, quantity, values)`: what is accepted is stored as given -/
theorem init_qty_ok {db : Db} {cls : ClsAttr} {dim : Int} {q : Qty} {v : Vals} {o : Obj}
    (h : init db cls dim (.catFirst (.qty q) (some (.sized v)) none) = .ok o) :
    o = ⟨cls, ⟨dim, v, q⟩⟩ ∧ (v.xs.length : Int) = dim ∧ 2 ≤ dim := by
  obtain ⟨hd, hcls, q', v', hq, hc⟩ := init_ok h
  simp only [initQuantity, Option.getD] at hq
  cases hq
  obtain ⟨vs, hm, hr, hv, hqq, hi⟩ := internalCreate_ok hc
  simp only [mergeValue] at hm
  cases hm
  simp only [resolveDim, lookupDim] at hr
  cases hr
  cases hv
  refine ⟨?_, ?_, hd⟩
  · cases o with
    | mk c st =>
      cases st with
      | mk d vv qq =>
        simp only at hcls hqq
        subst hcls hqq
        rfl
  · exact hi.1

theorem createEmptyArray_inv {cls : ClsAttr} {dimension : Int} {values : Option ValArg} {o : Obj}
    (h : createEmptyArray cls dimension values = .ok o) : Inv o.st :=
  createWithQuantity_inv h

theorem runRoute_inv {db : Db} {r : Route} {o : Obj} (h : runRoute db r = .ok o) : Inv o.st := by
  cases r with
  | init cls dim args => exact init_inv h
  | cwq cls q values dimension value => exact createWithQuantity_inv h
  | cea cls dimension values => exact createEmptyArray_inv h
  | «internal» cls inst q values dimension value =>
    simp only [runRoute] at h
    split at h
    · cases h
    · rename_i st hst
      cases h
      exact internalCreate_inv hst


/-! ### the automaton, characterised -/

/-- a stated dimension (keyword or attribute) agrees with the length -/
def agrees (x : Option Int) (n : Nat) : Bool :=
  match x with
  | none => true
  | some d => d == (n : Int)

/-- the dimension an existing, non-`None` attribute pins -/
def Attr.pinned : Attr → Option Int
  | .val n => Option.some n
  | _ => Option.none

/-- the constructor accepts a container of length `n` exactly when `n ≥ 2` and every dimension that
is stated (the keyword, a non-`None` attribute) equals `n` -/
def accepts (a : Attr) (dimension : Option Int) (n : Nat) : Bool :=
  decide (2 ≤ n) && agrees dimension n && agrees a.pinned n

theorem internalCreate_sized {cls : ClsAttr} {inst : Option Int} {q : Qty} {values value : Option ValArg}
    {dimension : Option Int} {v : Vals}
    (hm : mergeValue values value = .ok (.sized v))
    (hattr : lookupDim cls inst = .absent → dimension ≠ none) :
    internalCreate cls inst q values dimension value =
      if accepts (lookupDim cls inst) dimension v.xs.length then .ok ⟨v.xs.length, v, q⟩ else .error .value := by
  unfold internalCreate
  rw [hm]
  simp only
  cases hl : lookupDim cls inst with
  | absent =>
    cases dimension with
    | none => exact absurd rfl (hattr hl)
    | some d =>
      simp only [resolveDim, hl, accepts, agrees, Attr.pinned, checkValues]
      by_cases h1 : d < 2
      · have : ¬ ((2 ≤ v.xs.length) ∧ d = (v.xs.length : Int)) := by omega
        simp [h1, this]
      · by_cases h2 : (v.xs.length : Int) = d
        · have h3 : 2 ≤ v.xs.length := by omega
          simp [h1, h2, h3]
        · have : ¬ d = (v.xs.length : Int) := fun h => h2 h.symm
          simp [h1, h2, this]
  | none =>
    cases dimension with
    | none =>
      simp only [resolveDim, hl, pyLen, accepts, agrees, Attr.pinned, checkValues]
      by_cases h1 : (v.xs.length : Int) < 2
      · have : ¬ 2 ≤ v.xs.length := by omega
        simp [h1, this]
      · have : 2 ≤ v.xs.length := by omega
        simp [h1, this]
    | some d =>
      simp only [resolveDim, hl, accepts, agrees, Attr.pinned, checkValues]
      by_cases h1 : d < 2
      · have : ¬ ((2 ≤ v.xs.length) ∧ d = (v.xs.length : Int)) := by omega
        simp [h1, this]
      · by_cases h2 : (v.xs.length : Int) = d
        · have h3 : 2 ≤ v.xs.length := by omega
          simp [h1, h2, h3]
        · have : ¬ d = (v.xs.length : Int) := fun h => h2 h.symm
          simp [h1, h2, this]
  | val n =>
    cases dimension with
    | none =>
      simp only [resolveDim, hl, accepts, agrees, Attr.pinned, checkValues]
      by_cases h1 : n < 2
      · have : ¬ ((2 ≤ v.xs.length) ∧ n = (v.xs.length : Int)) := by omega
        simp [h1, this]
      · by_cases h2 : (v.xs.length : Int) = n
        · have h3 : 2 ≤ v.xs.length := by omega
          simp [h1, h2, h3]
        · have : ¬ n = (v.xs.length : Int) := fun h => h2 h.symm
          simp [h1, h2, this]
    | some d =>
      simp only [resolveDim, hl, accepts, agrees, Attr.pinned, checkValues]
      by_cases h0 : d = n
      · subst h0
        by_cases h1 : d < 2
        · have : ¬ ((2 ≤ v.xs.length) ∧ d = (v.xs.length : Int)) := by omega
          simp [h1, this]
        · by_cases h2 : (v.xs.length : Int) = d
          · have h3 : 2 ≤ v.xs.length := by omega
            simp [h1, h2, h3]
          · have : ¬ d = (v.xs.length : Int) := fun h => h2 h.symm
            simp [h1, h2, this]
      · simp [h0]
        omega

/-! ### operations -/

theorem createCopy_ok {db : Db} {o r : Obj} {values : Option ValArg} {unit category : Option Sym}
    (h : createCopy db o values unit category = .ok r) :
    ∃ q v, copyQuantity db o.st.q unit category = .ok q ∧
      createWithQuantity o.cls q none (some o.st.dim) (some v) = .ok r ∧
      (∀ w, values = some w → v = w) := by
  unfold createCopy at h
  simp only at h
  split at h
  · cases h
  · rename_i v hv
    split at h
    · cases h
    · rename_i q hq
      refine ⟨q, v, hq, h, ?_⟩
      intro w hw
      subst hw
      simp only at hv
      cases hv
      rfl

theorem createCopy_inv {db : Db} {o r : Obj} {values : Option ValArg} {unit category : Option Sym}
    (h : createCopy db o values unit category = .ok r) : Inv r.st := by
  obtain ⟨_, _, _, hc, _⟩ := createCopy_ok h
  exact createWithQuantity_inv hc

theorem reduce_inv {db : Db} {o r : Obj} (h : reduce db o = .ok r) : Inv r.st := init_inv h

theorem doOperation_ok {F : OpFunc} {self r : Obj} {op : AOp} {other : Operand} {l : Bool}
    (h : doOperation F self op other l = .ok r) :
    lengthsAgree self.st.vals.xs.length other = true ∧
    ∃ q v, createWithQuantity self.cls q (some (.sized v)) none none = .ok r := by
  unfold doOperation at h
  split at h
  · cases h
  · rename_i hl
    split at h
    · cases h
    · rename_i q v _
      exact ⟨by simpa using hl, q, v, h⟩

theorem doOperation_inv {F : OpFunc} {self r : Obj} {op : AOp} {other : Operand} {l : Bool}
    (h : doOperation F self op other l = .ok r) : Inv r.st := by
  obtain ⟨_, _, _, hc⟩ := doOperation_ok h
  exact createWithQuantity_inv hc

theorem changingIndex_ok {db : Db} {o r : Obj} {i : Int} {value : CIValue} {uvu : Bool}
    (h : changingIndex db o i value uvu = .ok r) :
    ∃ sc vals amount ys,
      ciScalar db o i value = .ok sc ∧
      getValues db o.st (some (if uvu then sc.q else o.st.q).unit) = .ok vals ∧
      sc.getValue db (some (if uvu then sc.q else o.st.q).unit) = .ok amount ∧
      pySet vals.xs i amount = .ok ys ∧
      init db .none o.st.dim (.catFirst (.qty (if uvu then sc.q else o.st.q)) (some (.sized ⟨.tuple, ys⟩)) none)
        = .ok r := by
  unfold changingIndex at h
  split at h
  · cases h
  · rename_i sc hsc
    simp only at h
    split at h
    · cases h
    · rename_i vals hvals
      split at h
      · cases h
      · rename_i amount hamount
        split at h
        · cases h
        · rename_i ys hys
          exact ⟨sc, vals, amount, ys, hsc, hvals, hamount, hys, h⟩

theorem changingIndex_inv {db : Db} {o r : Obj} {i : Int} {value : CIValue} {uvu : Bool}
    (h : changingIndex db o i value uvu = .ok r) : Inv r.st := by
  obtain ⟨_, _, _, _, _, _, _, _, hi⟩ := changingIndex_ok h
  exact init_inv hi

theorem outObj_ok {e : Except ErrKind Obj} {r : Obj} (h : outObj e = .ok (.obj r)) : e = .ok r := by
  cases e with
  | error e => cases h
  | ok o => simp only [outObj] at h; cases h; rfl

theorem outObj_not_scalar {e : Except ErrKind Obj} {s : Scalar} : outObj e ≠ .ok (.scalar s) := by
  cases e with
  | error e => intro h; cases h
  | ok o => intro h; simp only [outObj] at h; cases h

theorem runOp_inv {db : Db} {F : OpFunc} {store : List Obj} {src r : Obj} {o : Op}
    (hs : Inv src.st) (h : runOp db F store src o = .ok (.obj r)) : Inv r.st := by
  cases o with
  | copy => simp only [runOp] at h; cases h; exact hs
  | createCopy values unit category => exact createCopy_inv (outObj_ok h)
  | pickle => exact reduce_inv (outObj_ok h)
  | arith op rhs =>
    cases rhs with
    | other idx =>
      simp only [runOp] at h
      split at h
      · cases h
      · exact doOperation_inv (outObj_ok h)
    | operand p l => exact doOperation_inv (outObj_ok h)
  | changingIndex index value uvu => exact changingIndex_inv (outObj_ok h)
  | indexAsScalar index quantity =>
    simp only [runOp] at h
    split at h <;> cases h
  | assign a => simp only [runOp] at h; cases h
  | createCopyKw values unit category extra =>
    cases extra with
    | dimension => simp only [runOp, createCopyKw, outObj] at h; cases h
    | value => simp only [runOp, createCopyKw, outObj] at h; cases h
    | unitDatabase => exact createCopy_inv (outObj_ok h)
  | len => simp only [runOp] at h; cases h
  | iter => simp only [runOp] at h; cases h
  | getItem index =>
    simp only [runOp] at h
    split at h <;> cases h
  | getSlice s =>
    simp only [runOp] at h
    split at h <;> cases h
  | checkValues values dimension =>
    simp only [runOp] at h
    split at h <;> cases h
  | eq other =>
    cases other with
    | store idx =>
      simp only [runOp] at h
      split at h <;> cases h
    | foreign => simp only [runOp] at h; cases h

/-- `FixedArray.FromScalars(...)` never returns: the inherited classmethod calls the constructor without
its `dimension` -/
theorem fromScalars_never_ok {db : Db} {cls : ClsAttr} {scalars : List Scalar} {unit category : Option Sym}
    {o : Obj} : fromScalars db cls scalars unit category ≠ .ok o := by
  intro h
  unfold fromScalars at h
  split at h
  · split at h
    · cases h
    · split at h <;> cases h
    · cases h
    · cases h
  · split at h <;> cases h

theorem runCmd_inv {db : Db} {F : OpFunc} {store : List Obj} {c : Cmd} {r : Obj}
    (hs : ∀ o ∈ store, Inv o.st) (h : runCmd db F store c = .ok (.obj r)) : Inv r.st := by
  cases c with
  | make route => exact runRoute_inv (outObj_ok h)
  | op src o =>
    simp only [runCmd] at h
    split at h
    · cases h
    · rename_i s hsrc
      exact runOp_inv (hs s (List.mem_of_getElem? hsrc)) h
  | fromScalars cls scalars unit category => exact absurd (outObj_ok h) fromScalars_never_ok

theorem push_inv {store : List Obj} {out : Except ErrKind Out}
    (hs : ∀ o ∈ store, Inv o.st) (ho : ∀ r, out = .ok (.obj r) → Inv r.st) :
    ∀ o ∈ push store out, Inv o.st := by
  intro o hmem
  unfold push at hmem
  split at hmem
  · rename_i r
    rcases List.mem_append.mp hmem with hm | hm
    · exact hs o hm
    · simp only [List.mem_singleton] at hm
      subst hm
      exact ho _ rfl
  · exact hs o hmem

theorem step_inv {db : Db} {F : OpFunc} {store : List Obj} {c : Cmd}
    (hs : ∀ o ∈ store, Inv o.st) : ∀ o ∈ (step db F store c).1, Inv o.st :=
  push_inv hs (fun _ h => runCmd_inv hs h)

theorem run_inv {db : Db} {F : OpFunc} (cmds : List Cmd) :
    ∀ {store : List Obj}, (∀ o ∈ store, Inv o.st) → ∀ o ∈ run db F store cmds, Inv o.st := by
  induction cmds with
  | nil => intro store hs; exact hs
  | cons c cs ih => intro store hs; exact ih (step_inv hs)

theorem outputs_inv {db : Db} {F : OpFunc} (cmds : List Cmd) :
    ∀ {store : List Obj}, (∀ o ∈ store, Inv o.st) →
      ∀ r, .ok (.obj r) ∈ outputs db F store cmds → Inv r.st := by
  induction cmds with
  | nil => intro store _ r h; simp [outputs] at h
  | cons c cs ih =>
    intro store hs r h
    simp only [outputs, List.mem_cons] at h
    rcases h with h | h
    · exact runCmd_inv hs h.symm
    · exact ih (step_inv hs) r h

/-- the store only grows at its end -/
theorem push_prefix (store : List Obj) (out : Except ErrKind Out) : ∃ t, push store out = store ++ t := by
  unfold push
  split
  · exact ⟨_, rfl⟩
  · exact ⟨[], by simp⟩

theorem run_prefix {db : Db} {F : OpFunc} (cmds : List Cmd) :
    ∀ store : List Obj, ∃ t, run db F store cmds = store ++ t := by
  induction cmds with
  | nil => intro store; exact ⟨[], by simp [run]⟩
  | cons c cs ih =>
    intro store
    obtain ⟨t1, h1⟩ := push_prefix store (runCmd db F store c)
    obtain ⟨t2, h2⟩ := ih (step db F store c).1
    refine ⟨t1 ++ t2, ?_⟩
    simp only [run]
    rw [h2]
    simp only [step]
    rw [h1, List.append_assoc]

/-! ### elementwise conversion -/

theorem mapE_ok {α β : Type} {f : α → Except ErrKind β} :
    ∀ {xs : List α} {ys : List β}, mapE f xs = .ok ys →
      ys.length = xs.length ∧ ∀ (k : Nat) x, xs[k]? = some x → ∃ y, f x = .ok y ∧ ys[k]? = some y := by
  intro xs
  induction xs with
  | nil =>
    intro ys h
    simp only [mapE] at h
    cases h
    exact ⟨rfl, by intro k x hx; simp at hx⟩
  | cons a as ih =>
    intro ys h
    simp only [mapE] at h
    split at h
    · cases h
    · rename_i y hy
      split at h
      · cases h
      · rename_i zs hzs
        cases h
        obtain ⟨hl, he⟩ := ih hzs
        refine ⟨by simp [hl], ?_⟩
        intro k x hx
        cases k with
        | zero =>
          simp only [List.getElem?_cons_zero, Option.some.injEq] at hx
          subst hx
          exact ⟨y, hy, by simp⟩
        | succ k =>
          simp only [List.getElem?_cons_succ] at hx
          obtain ⟨y', hy', hk⟩ := he k x hx
          exact ⟨y', hy', by simpa using hk⟩

/-- converting a container is converting each of its elements as a scalar -/
theorem convertAll_ok {db : Db} {c u v : Sym} {xs ys : List Rat} (h : convertAll db c u v xs = .ok ys) :
    ys.length = xs.length ∧ ∀ (k : Nat) x, xs[k]? = some x → ∃ y, db.convert c u v x = .ok y ∧ ys[k]? = some y := by
  unfold convertAll at h
  split at h
  · rename_i huv
    cases h
    refine ⟨rfl, ?_⟩
    intro k x hx
    exact ⟨x, by simp [Db.convert, huv], hx⟩
  · rename_i huv
    split at h
    · cases h
    · rename_i qt hqt
      split at h
      · cases h
      · rename_i this hthis
        split at h
        · cases h
        · rename_i other hother
          obtain ⟨hl, he⟩ := mapE_ok h
          refine ⟨hl, ?_⟩
          intro k x hx
          obtain ⟨y, hy, hk⟩ := he k x hx
          refine ⟨y, ?_, hk⟩
          unfold Db.convert
          simp only [huv, hqt, hthis, hother]
          exact hy

theorem qty_convertAll_ok {db : Db} {q : Qty} {v : Sym} {xs ys : List Rat}
    (h : q.convertAll db xs v = .ok ys) :
    ys.length = xs.length ∧
      ∀ (k : Nat) x, xs[k]? = some x → ∃ y, q.convertScalarValue db x v = .ok y ∧ ys[k]? = some y := by
  cases q with
  | empty =>
    simp only [Qty.convertAll] at h
    cases h
    refine ⟨rfl, ?_⟩
    intro k x hx
    refine ⟨x, ?_, hx⟩
    unfold Qty.convertScalarValue
    split <;> rfl
  | simple c u =>
    simp only [Qty.convertAll] at h
    obtain ⟨hl, he⟩ := convertAll_ok h
    refine ⟨hl, ?_⟩
    intro k x hx
    obtain ⟨y, hy, hk⟩ := he k x hx
    refine ⟨y, ?_, hk⟩
    unfold Qty.convertScalarValue
    split
    · rename_i huv
      simp only [Qty.unit] at huv
      simp only [Db.convert, huv, ↓reduceIte] at hy
      exact hy
    · exact hy

/-- `GetValues(unit)`: same container, same length, every element re-expressed as a scalar would be -/
theorem getValues_ok {db : Db} {fa : FixedArr} {u : Sym} {vals : Vals}
    (h : getValues db fa (some u) = .ok vals) :
    vals.kind = fa.vals.kind ∧ vals.xs.length = fa.vals.xs.length ∧
      ∀ (k : Nat) x, fa.vals.xs[k]? = some x → ∃ y, fa.q.convertScalarValue db x u = .ok y ∧ vals.xs[k]? = some y := by
  unfold getValues at h
  simp only at h
  split at h
  · rename_i hu
    cases h
    refine ⟨rfl, rfl, ?_⟩
    intro k x hx
    refine ⟨x, ?_, hx⟩
    unfold Qty.convertScalarValue
    have : (fa.q.unit == u) = true := by
      simp only [beq_iff_eq] at hu ⊢
      exact hu.symm
    simp [this]
  · split at h
    · cases h
    · rename_i ys hys
      cases h
      obtain ⟨hl, he⟩ := qty_convertAll_ok hys
      exact ⟨rfl, hl, he⟩

/-- asking for the values in the array's own unit returns them as they are -/
theorem getValues_own_unit {db : Db} {fa : FixedArr} : getValues db fa (some fa.q.unit) = .ok fa.vals := by
  simp [getValues]

theorem convertScalarValue_own_unit {db : Db} {q : Qty} {x : Rat} :
    q.convertScalarValue db x q.unit = .ok x := by
  simp [Qty.convertScalarValue]

/-! ### numpy broadcasting -/

theorem broadcast_error {xs ys : List Rat} (h : xs.length ≠ ys.length) (hx : xs.length ≠ 1)
    (hy : ys.length ≠ 1) : broadcast xs ys = .error .value := by
  unfold broadcast
  simp only [h, ↓reduceIte]
  split
  · simp at hx
  · simp at hy
  · rfl

/-! ### arithmetic keeps the length -/

theorem opLoop_length {F : OpFunc} {op : AOp} {q1 q2 : Qty} :
    ∀ {ps : List (Rat × Rat)} {q0 q : Qty} {vs : List Rat},
      opLoop F op q1 q2 q0 ps = .ok (q, vs) → vs.length = ps.length := by
  intro ps
  induction ps with
  | nil => intro q0 q vs h; simp only [opLoop] at h; cases h; rfl
  | cons p rest ih =>
    intro q0 q vs h
    obtain ⟨a, b⟩ := p
    simp only [opLoop] at h
    split at h
    · cases h
    · split at h
      · cases h
      · rename_i hrest
        cases h
        simp [ih hrest]

theorem operationValues_ok {F : OpFunc} {op : AOp} {q1 q2 q : Qty} {a b : PyVal} {v : Vals}
    (h : operationValues F op q1 q2 a b = .ok (q, v)) :
    ∃ ps, pairs a b = .ok (v.kind, ps) ∧ v.xs.length = ps.length := by
  unfold operationValues at h
  split at h
  · cases h
  · rename_i kind ps hp
    split at h
    · cases h
    · split at h
      · cases h
      · rename_i hl
        cases h
        exact ⟨ps, hp, opLoop_length hl⟩

theorem broadcast_length {xs ys : List Rat} {ps : List (Rat × Rat)} (h : broadcast xs ys = .ok ps) :
    (2 ≤ xs.length → ps.length = xs.length) ∧ (2 ≤ ys.length → ps.length = ys.length) := by
  unfold broadcast at h
  split at h
  · rename_i hl
    cases h
    simp [List.length_zip, hl]
  · split at h
    · cases h
      simp
    · cases h
      simp
    · cases h

/-- the pairs `operation_func` sees are as many as the elements of `self` (length at least 2),
whichever side `self` is on, for a number, a bare ndarray or an Array that passed the length check -/
theorem pairs_length_self {self : Vals} {other : Operand} {l : Bool} {k : Kind} {ps : List (Rat × Rat)}
    (hn : 2 ≤ self.xs.length) (ha : lengthsAgree self.xs.length other = true)
    (h : (if l then pairs (.seq self) other.val else pairs other.val (.seq self)) = .ok (k, ps)) :
    ps.length = self.xs.length := by
  cases other with
  | num x =>
    cases l <;> simp only [Operand.val, pairs, Bool.false_eq_true, ↓reduceIte] at h <;> cases h <;> simp
  | nd xs =>
    cases l
    · simp only [Operand.val, pairs, Bool.false_eq_true, ↓reduceIte, true_or] at h
      split at h
      · cases h
      · rename_i ps' hb
        cases h
        exact (broadcast_length hb).2 hn
    · simp only [Operand.val, pairs, ↓reduceIte, or_true] at h
      split at h
      · cases h
      · rename_i ps' hb
        cases h
        exact (broadcast_length hb).1 hn
  | arr v q =>
    simp only [lengthsAgree, beq_iff_eq] at ha
    cases l
    · simp only [Operand.val, pairs, Bool.false_eq_true, ↓reduceIte] at h
      split at h
      · split at h
        · cases h
        · rename_i ps' hb
          cases h
          exact (broadcast_length hb).2 hn
      · cases h
        simp [List.length_zip, ha]
    · simp only [Operand.val, pairs, ↓reduceIte] at h
      split at h
      · split at h
        · cases h
        · rename_i ps' hb
          cases h
          exact (broadcast_length hb).1 hn
      · cases h
        simp [List.length_zip, ha]

/-! ### Python indexing -/

theorem normIndex_lt {n : Nat} {i : Int} {j : Nat} (h : normIndex n i = some j) : j < n := by
  unfold normIndex at h
  split at h
  · split at h
    · cases h; assumption
    · cases h
  · split at h
    · cases h; omega
    · cases h

theorem pyGet_ok {xs : List Rat} {i : Int} {x : Rat} (h : pyGet xs i = .ok x) :
    ∃ j, normIndex xs.length i = some j ∧ xs[j]? = some x := by
  unfold pyGet at h
  split at h
  · cases h
  · rename_i j hj
    split at h
    · rename_i y hy
      cases h
      exact ⟨j, hj, hy⟩
    · cases h

theorem pySet_ok {xs ys : List Rat} {i : Int} {v : Rat} (h : pySet xs i v = .ok ys) :
    ∃ j, normIndex xs.length i = some j ∧ ys = xs.set j v := by
  unfold pySet at h
  split at h
  · cases h
  · rename_i j hj
    cases h
    exact ⟨j, hj, rfl⟩

theorem pyIndex_some {α : Type} {xs : List α} {i : Int} {j : Nat} (h : normIndex xs.length i = some j) :
    ∃ x, xs[j]? = some x ∧ pyIndex xs i = .ok x := by
  have hj : j < xs.length := normIndex_lt h
  refine ⟨xs[j], by simp [hj], ?_⟩
  simp [pyIndex, h, hj]

theorem pyIndex_none {α : Type} {xs : List α} {i : Int} (h : normIndex xs.length i = none) :
    pyIndex xs i = .error .index := by
  simp [pyIndex, h]

theorem pyIndex_ok {α : Type} {xs : List α} {i : Int} {x : α} (h : pyIndex xs i = .ok x) :
    ∃ j, normIndex xs.length i = some j ∧ xs[j]? = some x := by
  unfold pyIndex at h
  split at h
  · cases h
  · rename_i j hj
    split at h
    · rename_i y hy
      cases h
      exact ⟨j, hj, hy⟩
    · cases h

/-! ### Python slices -/

theorem sliceBound_pos {len step : Int} (hl : 0 ≤ len) (hs : 0 < step) (b : Option Int) (st : Bool) :
    0 ≤ sliceBound len step b st ∧ sliceBound len step b st ≤ len := by
  have hneg : ¬ step < 0 := by omega
  unfold sliceBound
  simp only [hneg, ↓reduceIte]
  cases b with
  | none => cases st <;> simp <;> omega
  | some v =>
    simp only
    split
    · split <;> omega
    · split <;> omega

theorem sliceBound_neg {len step : Int} (hl : 0 ≤ len) (hs : step < 0) (b : Option Int) (st : Bool) :
    -1 ≤ sliceBound len step b st ∧ sliceBound len step b st ≤ len - 1 := by
  unfold sliceBound
  simp only [hs, ↓reduceIte]
  cases b with
  | none => cases st <;> simp <;> omega
  | some v =>
    simp only
    split
    · split <;> omega
    · split <;> omega

theorem sliceIdx_pos_range {step len : Int} (hs : 0 < step) :
    ∀ (fuel : Nat) (cur stop : Int), 0 ≤ cur → stop ≤ len →
      ∀ i ∈ sliceIdx step fuel cur stop, 0 ≤ i ∧ i < len := by
  intro fuel
  induction fuel with
  | zero => intro cur stop _ _ i hi; simp [sliceIdx] at hi
  | succ n ih =>
    intro cur stop hc hst i hi
    have hneg : ¬ step < 0 := by omega
    simp only [sliceIdx, hneg, ↓reduceIte] at hi
    split at hi
    · rcases List.mem_cons.mp hi with h | h
      · subst h; omega
      · exact ih (cur + step) stop (by omega) hst i h
    · simp at hi

theorem sliceIdx_neg_range {step len : Int} (hs : step < 0) :
    ∀ (fuel : Nat) (cur stop : Int), cur ≤ len - 1 → -1 ≤ stop →
      ∀ i ∈ sliceIdx step fuel cur stop, 0 ≤ i ∧ i < len := by
  intro fuel
  induction fuel with
  | zero => intro cur stop _ _ i hi; simp [sliceIdx] at hi
  | succ n ih =>
    intro cur stop hc hst i hi
    simp only [sliceIdx, hs, ↓reduceIte] at hi
    split at hi
    · rcases List.mem_cons.mp hi with h | h
      · subst h; omega
      · exact ih (cur + step) stop (by omega) hst i h
    · simp at hi

/-- a zero step is `ValueError`, any other slice has indices -/
theorem sliceIndices_zero_step {n : Nat} {s : PySlice} (h : s.step = some 0) :
    sliceIndices n s = .error .value := by
  simp [sliceIndices, h]

theorem sliceIndices_ok_of_step {n : Nat} {s : PySlice} (h : s.step ≠ some 0) :
    ∃ idx, sliceIndices n s = .ok idx := by
  unfold sliceIndices
  have : s.step.getD 1 ≠ 0 := by
    cases hs : s.step with
    | none => simp
    | some v =>
      simp only [Option.getD_some]
      intro hv
      subst hv
      exact h hs
  simp [this]

/-- **every position a slice visits lies inside the sequence** -/
theorem sliceIndices_range {n : Nat} {s : PySlice} {idx : List Int} (h : sliceIndices n s = .ok idx) :
    ∀ i ∈ idx, 0 ≤ i ∧ i < (n : Int) := by
  unfold sliceIndices at h
  simp only at h
  split at h
  · cases h
  · rename_i h0
    cases h
    have hn : (0 : Int) ≤ n := by omega
    by_cases hs : s.step.getD 1 < 0
    · exact sliceIdx_neg_range hs n _ _ (sliceBound_neg hn hs _ _).2 (sliceBound_neg hn hs _ _).1
    · have hp : 0 < s.step.getD 1 := by omega
      exact sliceIdx_pos_range hp n _ _ (sliceBound_pos hn hp _ _).1 (sliceBound_pos hn hp _ _).2

theorem atPos_ok {α : Type} {xs : List α} {i : Int} {y : α} (h : atPos xs i = .ok y) :
    0 ≤ i ∧ xs[i.toNat]? = some y := by
  unfold atPos at h
  split at h
  · cases h
  · split at h
    · rename_i x hx
      cases h
      exact ⟨by omega, hx⟩
    · cases h

theorem atPos_in_range {α : Type} {xs : List α} {i : Int} (h0 : 0 ≤ i) (h1 : i < (xs.length : Int)) :
    ∃ y, atPos xs i = .ok y := by
  have hlt : i.toNat < xs.length := by omega
  refine ⟨xs[i.toNat], ?_⟩
  have hneg : ¬ i < 0 := by omega
  simp [atPos, hneg, hlt]

theorem mapE_total {α β : Type} {f : α → Except ErrKind β} :
    ∀ {xs : List α}, (∀ x ∈ xs, ∃ y, f x = .ok y) → ∃ ys, mapE f xs = .ok ys := by
  intro xs
  induction xs with
  | nil => intro _; exact ⟨[], rfl⟩
  | cons a as ih =>
    intro h
    obtain ⟨y, hy⟩ := h a (by simp)
    obtain ⟨ys, hys⟩ := ih (fun x hx => h x (by simp [hx]))
    exact ⟨y :: ys, by simp [mapE, hy, hys]⟩

/-- what `seq[start:stop:step]` is: `ValueError` for a zero step; otherwise — never an `IndexError` — the
elements at the positions of `sliceIndices`, in that order -/
theorem pySlice_spec {α : Type} (xs : List α) (s : PySlice) :
    (s.step = some 0 → pySlice xs s = .error .value) ∧
    (s.step ≠ some 0 → ∃ idx ys, sliceIndices xs.length s = .ok idx ∧ pySlice xs s = .ok ys ∧
      ys.length = idx.length ∧
      ∀ (k : Nat) i, idx[k]? = some i → 0 ≤ i ∧ i < (xs.length : Int) ∧ ys[k]? = xs[i.toNat]?) := by
  constructor
  · intro h
    simp [pySlice, sliceIndices_zero_step h]
  · intro h
    obtain ⟨idx, hidx⟩ := sliceIndices_ok_of_step (n := xs.length) h
    have hr := sliceIndices_range hidx
    obtain ⟨ys, hys⟩ := mapE_total (f := atPos xs) (xs := idx)
      (fun i hi => atPos_in_range (hr i hi).1 (hr i hi).2)
    obtain ⟨hl, he⟩ := mapE_ok hys
    refine ⟨idx, ys, hidx, by simp [pySlice, hidx, hys], hl, ?_⟩
    intro k i hk
    obtain ⟨y, hy, hky⟩ := he k i hk
    have hi := hr i (List.mem_of_getElem? hk)
    obtain ⟨_, hx⟩ := atPos_ok hy
    exact ⟨hi.1, hi.2, by rw [hky, hx]⟩

/-! ### reading a Curve -/

/-- the content agrees with what the references say about it: `len(array.GetValues())` is the length the
Curve's guard measured -/
def Faithful (h : Content) : Prop := ∀ a : ArrRef, (h a).elems.length = a.len

theorem reprLoop_spec : ∀ (z : List (Elem × Elem)) (i : Nat), i ≤ 21 →
    reprLoop i z = (z.take (21 - i), decide (21 - i < z.length)) := by
  intro z
  induction z with
  | nil => intro i _; simp [reprLoop]
  | cons p rest ih =>
    intro i hi
    unfold reprLoop
    by_cases h : 20 < i
    · have : i = 21 := by omega
      subst this
      simp
    · have hi' : i + 1 ≤ 21 := by omega
      rw [ih (i + 1) hi']
      simp only [h, ↓reduceIte]
      have h1 : 21 - i = (21 - (i + 1)) + 1 := by omega
      rw [h1, List.take_succ_cons]
      simp only [List.length_cons]
      congr 1
      simp only [decide_eq_decide]
      omega

theorem curve_next_inv (c : Curve) (o : CurveOp) (h : CInv c) : CInv (c.next o) := by
  cases o with
  | set s =>
    simp only [Curve.next, Curve.after]
    cases hs : c.apply s with
    | error e => exact h
    | ok c' =>
      cases s with
      | image a =>
        simp only [Curve.apply, Curve.setImage, checkLen] at hs
        split at hs
        · cases hs
        · rename_i hl
          split at hl
          · cases hl
          · rename_i hne
            cases hs
            simp only [CInv]
            simpa using hne
      | domain a =>
        simp only [Curve.apply, Curve.setDomain, checkLen] at hs
        split at hs
        · cases hs
        · rename_i hl
          split at hl
          · cases hl
          · rename_i hne
            cases hs
            simp only [CInv]
            simpa using hne
  | getItem i => exact h
  | getSlice s => exact h
  | length => exact h
  | repr => exact h

theorem curve_runOps_inv : ∀ (os : List CurveOp) (c : Curve), CInv c → CInv (c.runOps os) := by
  intro os
  induction os with
  | nil => intro c h; exact h
  | cons o os ih => intro c h; exact ih (c.next o) (curve_next_inv c o h)

end Barril.Fixed
