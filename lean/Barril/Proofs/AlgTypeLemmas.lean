/-
Helper lemmas for C04 (reported quantity type, `Barril/Model/AlgType.lean`): the exponent `rep_and_exp` holds for a
quantity type is the `dim` of AlgLemmas; its keys are distinct.
-/
import Barril.Model.AlgType
import Barril.Proofs.AlgLemmas

namespace Barril.Alg
open Barril

theorem expOf_addJoined (qt k : Sym) (x : Int) (acc : List (Sym × Int)) :
    expOf qt (addJoined k x acc) = expOf qt acc + (if k == qt then x else 0) := by
  induction acc with
  | nil => simp [addJoined, expOf]
  | cons p rest ih =>
    obtain ⟨w, t⟩ := p
    simp only [addJoined]
    by_cases hwk : w = k
    · subst hwk
      simp only [beq_self_eq_true, if_true, expOf]
      by_cases hq : w = qt
      · simp [hq]
      · simp [hq]
    · have hb : (w == k) = false := by simpa using hwk
      rw [hb]
      simp only [Bool.false_eq_true, if_false]
      by_cases hq : w = qt
      · have hk : ¬ k = qt := fun h => hwk (hq.trans h.symm)
        subst hq
        simp [expOf, hk]
      · have hq' : (w == qt) = false := by simpa using hq
        simp only [expOf, hq', Bool.false_eq_true, if_false, ih]

theorem typeExpsFrom_expOf {db : Db} (qt : Sym) : ∀ (es : List Entry) (acc l : List (Sym × Int)),
    typeExpsFrom db acc es = .ok l → expOf qt l = expOf qt acc + dim db qt es := by
  intro es
  induction es with
  | nil => intro acc l h; simp only [typeExpsFrom] at h; cases h; simp [dim]
  | cons e rest ih =>
    intro acc l h
    simp only [typeExpsFrom, catQType] at h
    cases hc : db.catByName e.cat with
    | none => rw [hc] at h; cases h
    | some ci =>
      rw [hc] at h
      simp only at h
      rw [ih _ l h, expOf_addJoined]
      simp only [dim, hasType, hc]
      omega

theorem typeExpsFrom_keysNodup {db : Db} : ∀ (es : List Entry) (acc l : List (Sym × Int)),
    KeysNodup acc → typeExpsFrom db acc es = .ok l → KeysNodup l := by
  intro es
  induction es with
  | nil => intro acc l ha h; simp only [typeExpsFrom] at h; cases h; exact ha
  | cons e rest ih =>
    intro acc l ha h
    simp only [typeExpsFrom] at h
    split at h
    · cases h
    · exact ih _ l (keysNodup_addJoined _ _ _ ha) h

theorem expOf_of_mem {k : Sym} {x : Int} : ∀ {l : List (Sym × Int)}, KeysNodup l → (k, x) ∈ l → expOf k l = x := by
  intro l
  induction l with
  | nil => intro _ h; cases h
  | cons p rest ih =>
    obtain ⟨w, t⟩ := p
    intro hn hm
    unfold KeysNodup at hn
    simp only [List.map_cons, List.nodup_cons] at hn
    rcases List.mem_cons.mp hm with hm | hm
    · cases hm; simp [expOf]
    · have hne : ¬ w = k := by
        intro h; subst h
        exact hn.1 (List.mem_map.mpr ⟨(w, x), hm, rfl⟩)
      simp only [expOf]
      have : (w == k) = false := by simpa using hne
      simp only [this]
      exact ih hn.2 hm

theorem mem_of_expOf_ne_zero {k : Sym} : ∀ {l : List (Sym × Int)}, expOf k l ≠ 0 → (k, expOf k l) ∈ l := by
  intro l
  induction l with
  | nil => intro h; simp [expOf] at h
  | cons p rest ih =>
    obtain ⟨w, t⟩ := p
    intro h
    simp only [expOf] at h ⊢
    by_cases hw : w = k
    · subst hw; simp
    · have : (w == k) = false := by simpa using hw
      simp only [this] at h ⊢
      exact List.mem_cons_of_mem _ (ih h)

end Barril.Alg
