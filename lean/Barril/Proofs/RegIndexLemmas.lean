import Barril.Model.RegIndex
import Barril.Proofs.RegTableLemmas
import Barril.Proofs.CompoundIndexLemmas
import Barril.Proofs.CompoundAlgLemmas

namespace Barril
open Barril.Reg

/-- a compact table tied to a unit table finds, for every quantity type, the compact view of the first row of
that type -/
theorem baseL_eq_find {tbl : List CRow} {units : List UnitRow}
    (h : tbl.map CRow.core = units.map UnitRow.core) (q : Sym) :
    (baseL q tbl).map CRow.core = (units.find? (·.qtype == q)).map UnitRow.core := by
  induction tbl generalizing units with
  | nil =>
    cases units with
    | nil => simp [baseL]
    | cons u us => simp at h
  | cons c cs ih =>
    cases units with
    | nil => simp at h
    | cons u us =>
      simp only [List.map_cons, List.cons.injEq] at h
      obtain ⟨hcu, hrest⟩ := h
      have hq : c.qtype = u.qtype := by
        simp only [CRow.core, UnitRow.core, Prod.mk.injEq] at hcu; exact hcu.2.1
      unfold baseL
      by_cases hs : q = c.qtype
      · have h1 : Nat.beq q c.qtype = true := Nat.beq_true_iff.mpr hs
        have h2 : (u.qtype == q) = true := by rw [← hq, hs]; simp
        simp only [h1, List.find?_cons, h2, Option.map_some]
        rw [hcu]
      · have h1 : Nat.beq q c.qtype = false := by
          cases hb : Nat.beq q c.qtype with
          | true => exact absurd (Nat.beq_true_iff.mp hb) hs
          | false => rfl
        have h2 : (u.qtype == q) = false := by
          rw [← hq]; simp only [beq_eq_false_iff_ne, ne_eq]; exact fun e => hs e.symm
        simp only [h1, List.find?_cons, h2]
        exact ih hrest

variable {t : CTree} {tbl : List CRow} {bases : List (Sym × CRow)} {db : Db}

/-- a symbol the index knows under a quantity type is a unit row of that type in the database -/
theorem symInType_of_tree (hcore : tbl.map CRow.core = db.units.map UnitRow.core)
    (hB : t.toList.all (fun c => lookL c.sym tbl == some c) = true) {qt u : Sym}
    (h : inTypeT t qt u = true) : symInType db qt u = true := by
  unfold inTypeT at h
  split at h
  · rename_i c hf
    obtain ⟨hm, hs⟩ := CTree.find_some hf
    have hl := List.all_eq_true.mp hB c hm
    have hl' : lookL c.sym tbl = some c := by simpa using hl
    obtain ⟨r, hr, e⟩ := mem_of_core_eq hcore (lookL_some hl').1
    simp only [UnitRow.core, CRow.core, Prod.mk.injEq] at e
    unfold symInType
    apply List.any_eq_true.mpr
    refine ⟨r, hr, ?_⟩
    have hq : c.qtype = qt := by simpa using h
    simp [e.1, e.2.1, hs, hq]
  · cases h

/-- a quantity type with an entry in the (sound) base index has units in the database -/
theorem hasType_of_bases (hcore : tbl.map CRow.core = db.units.map UnitRow.core)
    (hC : bases.all (fun p => baseL p.1 tbl == some p.2) = true) {q : Sym}
    (h : (lookB q bases).isSome = true) : db.hasType q = true := by
  have hb := lookB_eq_baseL hC h
  cases hl : lookB q bases with
  | none => rw [hl] at h; cases h
  | some b =>
    rw [hl] at hb
    obtain ⟨hm, hq⟩ := baseL_some hb.symm
    obtain ⟨r, hr, e⟩ := mem_of_core_eq hcore hm
    simp only [UnitRow.core, CRow.core, Prod.mk.injEq] at e
    unfold Db.hasType
    apply List.any_eq_true.mpr
    exact ⟨r, hr, by simp [e.2.1, hq]⟩

/-- the first-listed row of the quantity type of every row is an identity, from the base index -/
theorem baseIdentity_of_index (hcore : tbl.map CRow.core = db.units.map UnitRow.core)
    (hC : bases.all (fun p => baseL p.1 tbl == some p.2) = true)
    (hD : tbl.all (fun c => (lookB c.qtype bases).isSome) = true)
    (hI : bases.all (fun p => p.2.ident) = true) {w : UnitRow} (hw : w ∈ db.units) :
    ∃ b, db.units.find? (·.qtype == w.qtype) = some b ∧ isIdent b = true := by
  obtain ⟨c, hc, e⟩ := mem_of_core_eq' hcore hw
  have hq : c.qtype = w.qtype := by
    simp only [UnitRow.core, CRow.core, Prod.mk.injEq] at e; exact e.2.1
  have hsome := List.all_eq_true.mp hD c hc
  have hb := lookB_eq_baseL hC hsome
  cases hl : lookB c.qtype bases with
  | none => rw [hl] at hsome; cases hsome
  | some bc =>
    rw [hl] at hb
    have hident : bc.ident = true := List.all_eq_true.mp hI (c.qtype, bc) (lookB_some hl)
    have hfind := baseL_eq_find hcore c.qtype
    rw [← hb] at hfind
    rw [hq] at hfind
    cases hf : db.units.find? (·.qtype == w.qtype) with
    | none => rw [hf] at hfind; simp at hfind
    | some b =>
      rw [hf] at hfind
      simp only [Option.map_some, Option.some.injEq, CRow.core, UnitRow.core, Prod.mk.injEq] at hfind
      refine ⟨b, rfl, ?_⟩
      unfold isIdent
      rw [← hfind.2.2.2.2.2, hident]

/-- the category clauses of `DbRegInv` from the indexed predicate -/
theorem catsOk_of_index (hcore : tbl.map CRow.core = db.units.map UnitRow.core)
    (hB : t.toList.all (fun c => lookL c.sym tbl == some c) = true)
    (hC : bases.all (fun p => baseL p.1 tbl == some p.2) = true) {c : CatRow}
    (h : CatRow.regOkT t bases db c = true) :
    db.catByName c.name = some c ∧ db.hasType c.qtype = true
      ∧ symInType db c.qtype c.defaultUnit = true
      ∧ (∀ vu, c.validUnits = some vu → ∀ u ∈ vu, symInType db c.qtype u = true)
      ∧ minOk c.minV c.minExcl c.defaultValue = true ∧ maxOk c.maxV c.maxExcl c.defaultValue = true := by
  simp only [CatRow.regOkT, Bool.and_eq_true, beq_iff_eq] at h
  obtain ⟨⟨⟨⟨⟨h1, h2⟩, h3⟩, h4⟩, h5⟩, h6⟩ := h
  refine ⟨h1, hasType_of_bases hcore hC h2, symInType_of_tree hcore hB h3, ?_, h5, h6⟩
  intro vu hvu u hu
  rw [hvu] at h4
  exact symInType_of_tree hcore hB (List.all_eq_true.mp h4 u hu)

/-- **the registry invariant of a shipped table from the index facts**: no per-row list scans are needed -/
theorem dbRegInv_of_index (hcore : tbl.map CRow.core = db.units.map UnitRow.core)
    (hA : tbl.all (fun c => t.find c.sym == some c) = true)
    (hP : tbl.map CRow.pos = List.range tbl.length)
    (hB : t.toList.all (fun c => lookL c.sym tbl == some c) = true)
    (hC : bases.all (fun p => baseL p.1 tbl == some p.2) = true)
    (hD : tbl.all (fun c => (lookB c.qtype bases).isSome) = true)
    (hI : bases.all (fun p => p.2.ident) = true)
    (hcats : db.cats.all (CatRow.regOkT t bases db) = true) : DbRegInv db := by
  refine ⟨?_, ?_, ?_⟩
  · intro w hw
    have hnd : (db.units.map (·.sym)).Nodup := by
      have h := syms_nodup_of_index hA hP
      have e : tbl.map (·.sym) = db.units.map (·.sym) := by
        have := congrArg (List.map (fun x : Sym × Sym × Sym × Rat × Bool × Bool => x.1)) hcore
        simpa [List.map_map, CRow.core, UnitRow.core, Function.comp_def] using this
      rw [← e]; exact h
    unfold Db.unitBySym
    exact find?_of_nodup_key (fun r : UnitRow => r.sym) hnd hw
  · intro w hw
    exact baseIdentity_of_index hcore hC hD hI hw
  · intro c hc
    exact catsOk_of_index hcore hB hC (List.all_eq_true.mp hcats c hc)

end Barril
