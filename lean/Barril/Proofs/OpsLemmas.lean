/-
Helper lemmas for C09/C10 (engine `Ops`): `mapE`, the database operations through the empty
quantity for quantities in normal form, the merge loop of `_DoOperationResultingInNewQuantity`.
-/
import Barril.Model.Ops

namespace Barril.Ops
open Barril

instance decEqExcept {ε α : Type} [DecidableEq ε] [DecidableEq α] : DecidableEq (Except ε α)
  | .ok a, .ok b => if h : a = b then isTrue (by rw [h]) else isFalse (fun e => h (by cases e; rfl))
  | .error a, .error b => if h : a = b then isTrue (by rw [h]) else isFalse (fun e => h (by cases e; rfl))
  | .ok _, .error _ => isFalse (fun e => by cases e)
  | .error _, .ok _ => isFalse (fun e => by cases e)

/-! ### `mapE` -/

theorem mapE_eq_ok_iff {α β : Type} (f : α → Except ErrKind β) :
    ∀ (l : List α) (r : List β), mapE f l = .ok r ↔
      r.length = l.length ∧ ∀ i (h1 : i < l.length) (h2 : i < r.length), f l[i] = .ok r[i]
  | [], r => by
    cases r with
    | nil => simp [mapE]
    | cons b bs => simp [mapE]
  | a :: as, r => by
    unfold mapE
    cases hfa : f a with
    | error e =>
      simp only [reduceCtorEq, false_iff, not_and]
      intro hlen h
      cases r with
      | nil => simp at hlen
      | cons b bs =>
        have := h 0 (by simp) (by simp)
        simp [hfa] at this
    | ok b =>
      cases hm : mapE f as with
      | error e =>
        simp only [reduceCtorEq, false_iff, not_and]
        intro hlen h
        cases r with
        | nil => simp at hlen
        | cons b' bs =>
          have ih := (mapE_eq_ok_iff f as bs).mpr ⟨by simpa using hlen, fun i h1 h2 => by
            have := h (i + 1) (by simp; omega) (by simp; omega)
            simpa using this⟩
          rw [hm] at ih
          cases ih
      | ok bs =>
        have ih := (mapE_eq_ok_iff f as bs).mp hm
        constructor
        · intro h
          cases h
          refine ⟨by simp [ih.1], fun i h1 h2 => ?_⟩
          cases i with
          | zero => simpa using hfa
          | succ i => simpa using ih.2 i (by simpa using h1) (by simpa using h2)
        · rintro ⟨hlen, h⟩
          cases r with
          | nil => simp at hlen
          | cons b' bs' =>
            have h0 := h 0 (by simp) (by simp)
            simp [hfa] at h0
            have : mapE f as = .ok bs' := (mapE_eq_ok_iff f as bs').mpr ⟨by simpa using hlen, fun i h1 h2 => by
              have := h (i + 1) (by simp; omega) (by simp; omega)
              simpa using this⟩
            rw [hm] at this
            cases this
            rw [h0]

theorem mapE_ok_length {α β : Type} {f : α → Except ErrKind β} {l : List α} {r : List β}
    (h : mapE f l = .ok r) : r.length = l.length := ((mapE_eq_ok_iff f l r).mp h).1

theorem mapE_map {α β γ : Type} (f : β → Except ErrKind γ) (g : α → β) :
    ∀ l : List α, mapE f (l.map g) = mapE (fun a => f (g a)) l
  | [] => rfl
  | a :: as => by simp [mapE, mapE_map f g as]

theorem mapE_congr {α β : Type} {f g : α → Except ErrKind β} :
    ∀ {l : List α}, (∀ a ∈ l, f a = g a) → mapE f l = mapE g l
  | [], _ => rfl
  | a :: as, h => by
    simp only [mapE, h a (by simp), mapE_congr (l := as) (fun x hx => h x (by simp [hx]))]

theorem mapE_total {α β : Type} (g : α → β) : ∀ l : List α, mapE (fun a => .ok (g a)) l = .ok (l.map g)
  | [] => rfl
  | a :: as => by simp [mapE, mapE_total g as]

/-! ### quantities in normal form and the empty quantity -/

/-- the law of `UnitDatabase.Convert` the number theorems use: "same unit: no conversion needed" -/
structure Env.Lawful (env : Env) : Prop where
  convert_same : ∀ qt u x, env.convert qt u u x = .ok x

theorem Env.ofDb_lawful (db : Db) : (Env.ofDb db).Lawful :=
  ⟨fun qt u x => by simp [Env.ofDb, Db.convert]⟩

/-- `Convert` looks at its first argument only through `typeOf` (category or quantity type) -/
theorem ofDb_convert_of_typeOf {db : Db} {c t : Sym} (h : db.typeOf c = db.typeOf t) (u v : Sym) (x : Rat) :
    (Env.ofDb db).convert c u v x = (Env.ofDb db).convert t u v x := by
  simp [Env.ofDb, Db.convert, h]

/-- every category is registered and two items of one quantity type carry the same unit: the state
`_MatchQuantities` leaves behind, hence the form of every quantity that an operation returns -/
structure Matched (env : Env) (q : Quantity) : Prop where
  known : ∀ e ∈ q, ∃ t, env.qtype e.cat = .ok t
  same : ∀ e1 ∈ q, ∀ e2 ∈ q, env.qtype e1.cat = env.qtype e2.cat → e1.unit = e2.unit

/-- normal form: matched, the categories are the keys of a dict, no zero exponent and no unit whose
exponents cancel (both are removed by every multiplication/division), every item valid -/
structure Normal (env : Env) (q : Quantity) : Prop extends Matched env q where
  nodup : (q.map (·.cat)).Nodup
  nonzero : ∀ e ∈ q, e.exp ≠ 0 ∧ unitTotal q e.unit ≠ 0
  valid : ∀ e ∈ q, env.checkCatUnit e.cat e.unit = .ok ()

theorem andThen_convert_same {env : Env} (hl : env.Lawful) (tr : Tr) (qt u : Sym) :
    tr.andThen (env.convert qt u u) = tr := by
  funext x
  unfold Tr.andThen
  cases tr x with
  | ok y => simp [hl.convert_same]
  | error e => rfl

theorem matchDict_matched {env : Env} (hl : env.Lawful) (dv : Bool) :
    ∀ (es : List Entry) (found : Found) (tr : Tr),
      (∀ e ∈ es, ∃ t, env.qtype e.cat = .ok t) →
      (∀ e1 ∈ es, ∀ e2 ∈ es, env.qtype e1.cat = env.qtype e2.cat → e1.unit = e2.unit) →
      (∀ e ∈ es, ∀ t u, env.qtype e.cat = .ok t → found.get t = some u → u = e.unit) →
      ∃ f', matchDict env dv found es tr = .ok (f', es, tr)
  | [], found, tr, _, _, _ => ⟨found, rfl⟩
  | e :: es, found, tr, hk, hs, hf => by
    obtain ⟨t, ht⟩ := hk e (by simp)
    unfold matchDict
    simp only [ht]
    cases hg : found.get t with
    | none =>
      have ih := matchDict_matched hl dv es ((t, e.unit) :: found) tr
        (fun e' he' => hk e' (by simp [he']))
        (fun e1 h1 e2 h2 => hs e1 (by simp [h1]) e2 (by simp [h2]))
        (fun e' he' t' u ht' hu => by
          unfold Found.get at hu
          by_cases htt : (t == t') = true
          · simp only [htt, ↓reduceIte, Option.some.injEq] at hu
            have : t = t' := by simpa using htt
            subst this
            rw [← hu]
            exact hs e (by simp) e' (by simp [he']) (by rw [ht, ht'])
          · simp only [htt, Bool.false_eq_true, ↓reduceIte] at hu
            exact hf e' (by simp [he']) t' u ht' hu)
      obtain ⟨f', hf'⟩ := ih
      exact ⟨f', by simp [hf']⟩
    | some used =>
      have hu : used = e.unit := hf e (by simp) t used ht hg
      subst hu
      have hc : convertMatchingExp env t e.unit e.unit e.exp dv = .ok (env.convert t e.unit e.unit) := by
        simp [convertMatchingExp]
      have ih := matchDict_matched hl dv es found tr
        (fun e' he' => hk e' (by simp [he']))
        (fun e1 h1 e2 h2 => hs e1 (by simp [h1]) e2 (by simp [h2]))
        (fun e' he' t' u ht' hu => hf e' (by simp [he']) t' u ht' hu)
      obtain ⟨f', hf'⟩ := ih
      exact ⟨f', by simp [hc, andThen_convert_same hl, hf']⟩

theorem matchDict_nil (env : Env) (dv : Bool) (found : Found) (tr : Tr) :
    matchDict env dv found [] tr = .ok (found, [], tr) := rfl

theorem matchQuantities_empty_right {env : Env} (hl : env.Lawful) {q : Quantity} (h : Matched env q) :
    matchQuantities env q [] = .ok (q, [], Tr.ident, Tr.ident) := by
  obtain ⟨f, hf⟩ := matchDict_matched hl (decide (1 < q.length)) q [] Tr.ident h.known h.same (fun _ _ _ _ _ hu => by simp [Found.get] at hu)
  simp [matchQuantities, hf, matchDict]

theorem matchQuantities_empty_left {env : Env} (hl : env.Lawful) {q : Quantity} (h : Matched env q) :
    matchQuantities env [] q = .ok ([], q, Tr.ident, Tr.ident) := by
  obtain ⟨f, hf⟩ := matchDict_matched hl (decide (1 < q.length)) q [] Tr.ident h.known h.same (fun _ _ _ _ _ hu => by simp [Found.get] at hu)
  simp [matchQuantities, hf, matchDict]

/-! ### `Sum` / `Subtract` with the empty quantity -/

theorem composingUnits_isEmpty (q : Quantity) : (composingUnits q).isEmpty = q.isEmpty := by
  cases q <;> simp [composingUnits]

theorem sameSet_nil_right (a : List (Sym × Int)) : sameSet a [] = a.isEmpty := by
  cases a <;> simp [sameSet]

theorem sameSet_nil_left (a : List (Sym × Int)) : sameSet [] a = a.isEmpty := by
  cases a <;> simp [sameSet]

theorem opSame_empty_right {env : Env} (hl : env.Lawful) {q : Quantity} (h : Matched env q) :
    opSame env q emptyQ = .ok (q, Tr.ident, Tr.ident) := by
  unfold opSame emptyQ
  cases q with
  | nil => simp
  | cons e es =>
    have hne : ((e :: es) == ([] : Quantity)) = false := by simp
    simp only [hne, Bool.false_eq_true, ↓reduceIte, matchQuantities_empty_right hl h]
    simp [sameSet_nil_right, composingUnits]

theorem opSame_empty_left {env : Env} (hl : env.Lawful) {q : Quantity} (h : Matched env q) :
    opSame env emptyQ q = .ok (q, Tr.ident, Tr.ident) := by
  unfold opSame emptyQ
  cases q with
  | nil => simp
  | cons e es =>
    have hne : (([] : Quantity) == (e :: es)) = false := by simp
    simp only [hne, Bool.false_eq_true, ↓reduceIte, matchQuantities_empty_left hl h]
    simp [sameSet_nil_left, composingUnits]

/-! ### `Multiply` / `Divide` with the empty quantity -/

theorem mergeAll_nil_right (opExp : Int → Int → Int) (c : List Entry) : mergeAll opExp c [] = .ok c := rfl

theorem mergeEntry_fresh (opExp : Int → Int → Int) :
    ∀ (acc : List Entry) (e2 : Entry), (∀ e ∈ acc, e.cat ≠ e2.cat) →
      mergeEntry opExp acc e2 = .ok (acc ++ [{ e2 with exp := opExp 0 e2.exp }])
  | [], _, _ => rfl
  | e1 :: rest, e2, h => by
    have h1 : (e1.cat == e2.cat) = false := by simpa using h e1 (by simp)
    simp [mergeEntry, h1, mergeEntry_fresh opExp rest e2 (fun e he => h e (by simp [he]))]

theorem mergeAll_fresh (opExp : Int → Int → Int) :
    ∀ (q acc : List Entry), (q.map (·.cat)).Nodup → (∀ e ∈ acc, ∀ e2 ∈ q, e.cat ≠ e2.cat) →
      mergeAll opExp acc q = .ok (acc ++ q.map (fun e => { e with exp := opExp 0 e.exp }))
  | [], acc, _, _ => by simp [mergeAll]
  | e2 :: es, acc, hn, hd => by
    have hn2 : (∀ x ∈ es, ¬ x.cat = e2.cat) ∧ (es.map (·.cat)).Nodup := by simpa using hn
    have hn' := hn2.2
    have hnot : ∀ e ∈ es, e.cat ≠ e2.cat := hn2.1
    unfold mergeAll
    rw [mergeEntry_fresh opExp acc e2 (fun e he => hd e he e2 (by simp))]
    simp only
    rw [mergeAll_fresh opExp es _ hn' (fun e he e' he' => by
      rcases List.mem_append.mp he with h | h
      · exact hd e h e' (by simp [he'])
      · simp only [List.mem_singleton] at h
        subst h
        exact fun heq => hnot e' he' heq.symm)]
    simp

theorem createDerived_valid {env : Env} :
    ∀ {c : List Entry}, (∀ e ∈ c, env.checkCatUnit e.cat e.unit = .ok ()) → createDerived env c = .ok c
  | [], _ => rfl
  | e :: es, h => by
    simp [createDerived, h e (by simp), createDerived_valid (c := es) (fun x hx => h x (by simp [hx]))]

theorem dropZeros_nonzero {c : List Entry} (h : ∀ e ∈ c, e.exp ≠ 0 ∧ unitTotal c e.unit ≠ 0) :
    dropZeros c = c := by
  unfold dropZeros
  apply List.filter_eq_self.mpr
  intro e he
  have := h e he
  simp [this.1, this.2]

/-- the reciprocal quantity: every exponent negated -/
def recipQ (q : Quantity) : Quantity := q.map (fun e => { e with exp := 0 - e.exp })

theorem unitTotal_recipQ (q : Quantity) (u : Sym) : unitTotal (recipQ q) u = - unitTotal q u := by
  induction q with
  | nil => simp [recipQ, unitTotal]
  | cons e es ih =>
    simp only [recipQ, List.map_cons, unitTotal] at ih ⊢
    rw [ih]
    split <;> omega

theorem opNew_empty_right {env : Env} (hl : env.Lawful) (opExp : Int → Int → Int) {q : Quantity}
    (h : Normal env q) : opNew env opExp q emptyQ = .ok (q, Tr.ident, Tr.ident) := by
  unfold opNew emptyQ
  rw [matchQuantities_empty_right hl h.toMatched]
  simp [mergeAll, dropZeros_nonzero h.nonzero, createDerived_valid h.valid]

theorem opNew_mul_empty_left {env : Env} (hl : env.Lawful) {q : Quantity} (h : Normal env q) :
    opNew env (· + ·) emptyQ q = .ok (q, Tr.ident, Tr.ident) := by
  unfold opNew emptyQ
  rw [matchQuantities_empty_left hl h.toMatched]
  simp only
  rw [mergeAll_fresh _ q [] h.nodup (by simp)]
  have : q.map (fun e => { e with exp := 0 + e.exp }) = q := by
    have : (fun e : Entry => ({ e with exp := 0 + e.exp } : Entry)) = id := by
      funext e; simp
    rw [this]; simp
  simp [dropZeros_nonzero h.nonzero, createDerived_valid h.valid]

theorem opNew_div_empty_left {env : Env} (hl : env.Lawful) {q : Quantity} (h : Normal env q) :
    opNew env (· - ·) emptyQ q = .ok (recipQ q, Tr.ident, Tr.ident) := by
  unfold opNew emptyQ
  rw [matchQuantities_empty_left hl h.toMatched]
  simp only
  rw [mergeAll_fresh _ q [] h.nodup (by simp)]
  have hnz : ∀ e ∈ recipQ q, e.exp ≠ 0 ∧ unitTotal (recipQ q) e.unit ≠ 0 := by
    intro e he
    obtain ⟨e0, he0, rfl⟩ := List.mem_map.mp he
    have := h.nonzero e0 he0
    rw [unitTotal_recipQ]
    simp only
    omega
  have hv : ∀ e ∈ recipQ q, env.checkCatUnit e.cat e.unit = .ok () := by
    intro e he
    obtain ⟨e0, he0, rfl⟩ := List.mem_map.mp he
    exact h.valid e0 he0
  have : ([] ++ q.map (fun e => ({ e with exp := 0 - e.exp } : Entry))) = recipQ q := by simp [recipQ]
  simp only [this, dropZeros_nonzero hnz, createDerived_valid hv]

/-! ### the value lambdas -/

/-- the value of `vop` where it is defined -/
def vval : Op → Rat → Rat → Rat
  | .sum, a, b => a + b
  | .sub, a, b => a - b
  | .mul, a, b => a * b
  | .div, a, b => a / b
  | .floordiv, a, b => (((a / b).floor : Int) : Rat)

theorem vop_ok {op : Op} {a b : Rat} (h : isDivision op = true → b ≠ 0) : vop op a b = .ok (vval op a b) := by
  cases op <;> simp_all [vop, vval, isDivision]

theorem vop_zero {op : Op} (a : Rat) (h : isDivision op = true) : vop op a 0 = .error .other := by
  cases op <;> simp_all [vop, isDivision]

theorem applyOp_ident (op : Op) (x y : Rat) : applyOp op Tr.ident Tr.ident x y = vop op x y := rfl

theorem probe_ident (op : Op) : ∃ z, applyOp op Tr.ident Tr.ident 1 1 = .ok z := by
  cases op <;> simp [applyOp, Tr.ident, vop]

/-! ### arithmetic with identity conversions; shape of results -/

theorem arrayCompute_ident {env : Env} {op : Op} {q1 q2 q : Quantity} (r1 r2 : Raw)
    (hf : opFunc env op q1 q2 = .ok (q, Tr.ident, Tr.ident)) :
    arrayCompute env op q1 q2 r1 r2 =
      if genIsNumpy r1 r2 then
        match broadcastPairs r1 r2 with
        | .error e => .error e
        | .ok ps => (mapE (fun p => vop op p.1 p.2) ps).map (Out.array q .nd)
      else (mapE (fun p => vop op p.1 p.2) (genPairs r1 r2)).map
        (Out.array q (if genIsTuple r1 r2 then .tuple else .list)) := by
  obtain ⟨z, hz⟩ := probe_ident op
  unfold arrayCompute
  simp only [hf, hz]
  split
  · cases broadcastPairs r1 r2 with
    | error e => rfl
    | ok ps =>
      simp only
      have : (fun p : Rat × Rat => applyOp op Tr.ident Tr.ident p.1 p.2) = (fun p => vop op p.1 p.2) := rfl
      rw [this]
      cases mapE (fun p : Rat × Rat => vop op p.1 p.2) ps <;> rfl
  · have : (fun p : Rat × Rat => applyOp op Tr.ident Tr.ident p.1 p.2) = (fun p => vop op p.1 p.2) := rfl
    rw [this]
    cases mapE (fun p : Rat × Rat => vop op p.1 p.2) (genPairs r1 r2) with
    | error e => rfl
    | ok vs => cases (genPairs r1 r2).isEmpty <;> rfl

theorem opFunc_empty_right {env : Env} (hl : env.Lawful) (op : Op) {q : Quantity} (hq : Normal env q) :
    opFunc env op q emptyQ = .ok (q, Tr.ident, Tr.ident) := by
  cases op <;> simp [opFunc, opSame_empty_right hl hq.toMatched, opNew_empty_right hl _ hq]

theorem opFunc_empty_left {env : Env} (hl : env.Lawful) (op : Op) {q : Quantity} (hq : Normal env q)
    (hop : isDivision op = false) : opFunc env op emptyQ q = .ok (q, Tr.ident, Tr.ident) := by
  cases op <;> simp_all [opFunc, isDivision, opSame_empty_left hl hq.toMatched, opNew_mul_empty_left hl hq]

theorem opFunc_div_empty_left {env : Env} (hl : env.Lawful) (op : Op) {q : Quantity} (hq : Normal env q)
    (hop : isDivision op = true) : opFunc env op emptyQ q = .ok (recipQ q, Tr.ident, Tr.ident) := by
  cases op <;> simp_all [opFunc, isDivision, opNew_div_empty_left hl hq]

theorem scalarDoOp_quantity {env : Env} {q : Quantity} {v : Rat} {p1 p2 : Operand} {op : Op} {o : Out}
    (h : scalarDoOp env q v p1 p2 op = .ok o) : ∃ q' v', o = .scalar q' v' := by
  unfold scalarDoOp at h
  repeat' split at h
  all_goals first
    | (cases h; exact ⟨_, _, rfl⟩)
    | cases h

theorem arrayCompute_quantity {env : Env} {op : Op} {q1 q2 : Quantity} {r1 r2 : Raw} {o : Out}
    (h : arrayCompute env op q1 q2 r1 r2 = .ok o) : ∃ q' k' vs', o = .array q' k' vs' := by
  unfold arrayCompute at h
  repeat' split at h
  all_goals first
    | (cases h; exact ⟨_, _, _, rfl⟩)
    | cases h

theorem arrayDoOp_quantity {env : Env} {p1 p2 : Operand} {op : Op} {o : Out}
    (h : arrayDoOp env p1 p2 op = .ok o) : ∃ q' k' vs', o = .array q' k' vs' := by
  unfold arrayDoOp at h
  repeat' split at h
  all_goals first
    | exact arrayCompute_quantity h
    | cases h

/-! ### Array op Array and Scalar op Scalar, reduced to the database operation -/

/-- the container of the result of `Array op Array` -/
def resultKind (k1 k2 : Kind) : Kind :=
  if k1 = .nd ∨ k2 = .nd then .nd else if k1 = .tuple ∧ k2 = .tuple then .tuple else .list

/-- does `Array._DoOperation` take the vectorised branch -/
def vectorised (k1 k2 : Kind) : Bool := k1 == .nd || k2 == .nd

theorem scalar_op_scalar (env : Env) (d : Bool) (op : Op) (q1 q2 : Quantity) (x y : Rat) :
    binop env d op (.scalar q1 x) (.scalar q2 y) =
      match opFunc env op q1 q2 with
      | .error e => .error e
      | .ok (q, t1, t2) => (applyOp op t1 t2 x y).map (Out.scalar q) := by
  simp only [binop, scalarDoOp, isNumber, quantityOf, valueOf]
  cases opFunc env op q1 q2 with
  | error e => rfl
  | ok r =>
    obtain ⟨q, t1, t2⟩ := r
    simp only
    cases applyOp op t1 t2 x y <;> rfl

theorem array_op_array (env : Env) (d : Bool) (op : Op) (q1 q2 : Quantity) (k1 k2 : Kind) (xs ys : List Rat) :
    binop env d op (.array q1 k1 xs) (.array q2 k2 ys) =
      if xs.length ≠ ys.length then .error .value
      else arrayCompute env op q1 q2 (.seq k1 xs) (.seq k2 ys) := by
  simp [binop, arrayDoOp, rawOf, valuesOf, quantityOf, rawLen]

theorem arrayCompute_seq (env : Env) (op : Op) (q1 q2 : Quantity) (k1 k2 : Kind) (xs ys : List Rat)
    (hlen : xs.length = ys.length) :
    arrayCompute env op q1 q2 (.seq k1 xs) (.seq k2 ys) =
      match opFunc env op q1 q2 with
      | .error e => .error e
      | .ok (q, t1, t2) =>
        if vectorised k1 k2 then
          (mapE (fun p => applyOp op t1 t2 p.1 p.2) (xs.zip ys)).map (Out.array q .nd)
        else
          match mapE (fun p => applyOp op t1 t2 p.1 p.2) (xs.zip ys) with
          | .error e => .error e
          | .ok zs =>
            if (xs.zip ys).isEmpty then
              match applyOp op t1 t2 1 1 with
              | .error e => .error e
              | .ok _ => .ok (.array q (resultKind k1 k2) zs)
            else .ok (.array q (resultKind k1 k2) zs) := by
  unfold arrayCompute
  cases opFunc env op q1 q2 with
  | error e => rfl
  | ok r =>
    obtain ⟨q, t1, t2⟩ := r
    simp only
    cases hv : vectorised k1 k2
    · have hn : genIsNumpy (.seq k1 xs) (.seq k2 ys) = false := by
        cases k1 <;> cases k2 <;> simp_all [vectorised, genIsNumpy, Raw.isNumpy]
      have hk : (if genIsTuple (.seq k1 xs) (.seq k2 ys) = true then Kind.tuple else Kind.list) = resultKind k1 k2 := by
        cases k1 <;> cases k2 <;> simp_all [vectorised, genIsTuple, Raw.iterates, Raw.isTuple, resultKind]
      simp only [hn, hk, genPairs, Bool.false_eq_true, ↓reduceIte]
      rfl
    · have hn : genIsNumpy (.seq k1 xs) (.seq k2 ys) = true := by
        cases k1 <;> cases k2 <;> simp_all [vectorised, genIsNumpy, Raw.isNumpy]
      have hb : broadcastPairs (.seq k1 xs) (.seq k2 ys) = .ok (xs.zip ys) := by simp [broadcastPairs, hlen]
      simp only [hn, hb, ↓reduceIte]
      cases mapE (fun p : Rat × Rat => applyOp op t1 t2 p.1 p.2) (xs.zip ys) <;> rfl

theorem resultKind_vectorised {k1 k2 : Kind} (h : vectorised k1 k2 = true) : resultKind k1 k2 = .nd := by
  cases k1 <;> cases k2 <;> simp_all [vectorised, resultKind]

/-- the characterisation everything in C10 follows from -/
theorem array_op_array_ok_iff (env : Env) (d : Bool) (op : Op) (q1 q2 : Quantity) (k1 k2 : Kind)
    (xs ys : List Rat) (o : Out) :
    binop env d op (.array q1 k1 xs) (.array q2 k2 ys) = .ok o ↔
      xs.length = ys.length ∧ ∃ q t1 t2 zs, opFunc env op q1 q2 = .ok (q, t1, t2) ∧
        (vectorised k1 k2 = false → xs = [] → ∃ z, applyOp op t1 t2 1 1 = .ok z) ∧
        mapE (fun p => applyOp op t1 t2 p.1 p.2) (xs.zip ys) = .ok zs ∧
        o = .array q (resultKind k1 k2) zs := by
  rw [array_op_array]
  by_cases hlen : xs.length = ys.length
  case neg => simp [hlen]
  simp only [hlen, ne_eq, not_true_eq_false, ↓reduceIte, true_and]
  rw [arrayCompute_seq env op q1 q2 k1 k2 xs ys hlen]
  constructor
  · intro h
    cases hf : opFunc env op q1 q2 with
    | error e => simp [hf] at h
    | ok r =>
      obtain ⟨q, t1, t2⟩ := r
      simp only [hf] at h
      cases hv : vectorised k1 k2
      · simp only [hv, Bool.false_eq_true, ↓reduceIte] at h
        cases hm : mapE (fun p : Rat × Rat => applyOp op t1 t2 p.1 p.2) (xs.zip ys) with
        | error e => simp [hm] at h
        | ok zs =>
          simp only [hm] at h
          by_cases he : (xs.zip ys).isEmpty = true
          · simp only [he, ↓reduceIte] at h
            cases hp : applyOp op t1 t2 1 1 with
            | error e => simp [hp] at h
            | ok z =>
              simp only [hp, Except.ok.injEq] at h
              exact ⟨q, t1, t2, zs, rfl, fun _ _ => ⟨z, hp⟩, hm, h.symm⟩
          · simp only [he, Bool.false_eq_true, ↓reduceIte, Except.ok.injEq] at h
            refine ⟨q, t1, t2, zs, rfl, fun _ hx => ?_, hm, h.symm⟩
            subst hx
            simp at he
      · simp only [hv, ↓reduceIte] at h
        cases hm : mapE (fun p : Rat × Rat => applyOp op t1 t2 p.1 p.2) (xs.zip ys) with
        | error e => simp [hm, Except.map] at h
        | ok zs =>
          simp only [hm, Except.map, Except.ok.injEq] at h
          exact ⟨q, t1, t2, zs, rfl, by simp, hm, by rw [resultKind_vectorised hv]; exact h.symm⟩
  · rintro ⟨q, t1, t2, zs, hf, hp, hm, rfl⟩
    simp only [hf]
    cases hv : vectorised k1 k2
    · simp only [Bool.false_eq_true, ↓reduceIte, hm]
      by_cases he : (xs.zip ys).isEmpty = true
      · have hx : xs = [] := by
          cases xs with
          | nil => rfl
          | cons a as =>
            cases ys with
            | nil => simp at hlen
            | cons b bs => simp at he
        obtain ⟨z, hz⟩ := hp hv hx
        simp [he, hz]
      · simp [he]
    · simp [hm, Except.map, resultKind_vectorised hv]

theorem scalar_op_scalar_ok_iff (env : Env) (d : Bool) (op : Op) (q1 q2 : Quantity) (x y : Rat) (q : Quantity) (z : Rat) :
    binop env d op (.scalar q1 x) (.scalar q2 y) = .ok (.scalar q z) ↔
      ∃ t1 t2, opFunc env op q1 q2 = .ok (q, t1, t2) ∧ applyOp op t1 t2 x y = .ok z := by
  rw [scalar_op_scalar]
  cases hf : opFunc env op q1 q2 with
  | error e => simp
  | ok r =>
    obtain ⟨q', t1, t2⟩ := r
    simp only
    cases ha : applyOp op t1 t2 x y with
    | error e =>
      simp only [Except.map, reduceCtorEq, false_iff, not_exists, not_and]
      intro t1' t2' h
      cases h
      simp [ha]
    | ok z' =>
      simp only [Except.map, Except.ok.injEq, Out.scalar.injEq]
      constructor
      · rintro ⟨rfl, rfl⟩; exact ⟨t1, t2, rfl, ha⟩
      · rintro ⟨t1', t2', h1, h2⟩
        cases h1; rw [ha] at h2; cases h2; exact ⟨rfl, rfl⟩

/-! ### a small database for the non-vacuity examples (two quantity types, three categories) -/

def exRow (qt u : Sym) (scale : Rat) : UnitRow :=
  { qtype := qt, name := u, sym := u, ok := true, toBase := ⟨0, scale, 1, 0⟩, fromBase := ⟨0, 1, scale, 0⟩,
    hasConvTo := true, hasConvFrom := true, annTo := none, annFrom := none, defaultCat := 0, digits := 0 }

/-- a unit with an offset: `base = off + scale · x` (like degC against K) -/
def exRowOff (qt u : Sym) (scale off : Rat) : UnitRow :=
  { exRow qt u scale with toBase := ⟨off, scale, 1, 0⟩, fromBase := ⟨-off, 1, scale, 0⟩ }

def exCat (c qt u : Sym) : CatRow :=
  { name := c, qtype := qt, validUnits := none, defaultUnit := u, defaultValue := 0, minV := none, maxV := none,
    minExcl := false, maxExcl := false, caption := 0 }

/-- quantity types 1 (units 11 = base, 12 = 1/100 of it, 13 = base shifted by 273) and 2 (units 21 = base, 22 = 60 times it);
categories 101, 102 of type 1 and 103 of type 2 -/
def exDb : Db :=
  { units := [exRow 1 11 1, exRow 1 12 (1 / 100), exRowOff 1 13 1 273, exRow 2 21 1, exRow 2 22 60],
    cats := [exCat 101 1 11, exCat 102 1 11, exCat 103 2 21] }

def exEnv : Env := Env.ofDb exDb

theorem exEnv_lawful : exEnv.Lawful := Env.ofDb_lawful exDb

/-- `length/time²`-like: categories 101 (type 1, unit 12) and 103 (type 2, unit 21), exponents 1, −2 -/
def exQ : Quantity := [⟨101, 12, 1⟩, ⟨103, 21, -2⟩]

theorem exQ_normal : Normal exEnv exQ := by
  refine ⟨⟨?_, ?_⟩, ?_, ?_, ?_⟩
  · intro e he
    simp only [exQ, List.mem_cons, List.mem_nil_iff, or_false] at he
    rcases he with rfl | rfl
    · exact ⟨1, by decide +kernel⟩
    · exact ⟨2, by decide +kernel⟩
  all_goals decide +kernel

end Barril.Ops
