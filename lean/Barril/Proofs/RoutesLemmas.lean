/-
Helper lemmas for C02 (engine `Routes`).
-/
import Barril.Model.Routes
import Barril.Proofs.ConvLemmas

namespace Barril.Routes
open Barril

/-! ### `mapE` -/

@[simp] theorem mapE_nil {α β : Type} (f : α → Except ErrKind β) : mapE f [] = .ok [] := rfl

theorem mapE_cons_ok {α β : Type} {f : α → Except ErrKind β} {a : α} {as : List α} {b : β} {bs : List β}
    (h1 : f a = .ok b) (h2 : mapE f as = .ok bs) : mapE f (a :: as) = .ok (b :: bs) := by
  simp [mapE, h1, h2]

theorem mapE_ok_id {α : Type} (xs : List α) : mapE (fun x => (.ok x : Except ErrKind α)) xs = .ok xs := by
  induction xs with
  | nil => rfl
  | cons a as ih => simp [mapE, ih]

theorem mapE_congr {α β : Type} {f g : α → Except ErrKind β} (h : ∀ x, f x = g x) (xs : List α) :
    mapE f xs = mapE g xs := by
  have : f = g := funext h
  rw [this]

/-- the generator over a list of plain numbers converts each of them -/
theorem mapE_applyElem_nums (a b : UnitRow) (xs : List Rat) :
    mapE (applyElem a b) (xs.map .num) = (mapE (convRows a b) xs).map (List.map Elem.num) := by
  induction xs with
  | nil => rfl
  | cons x xs ih =>
    simp only [List.map_cons, mapE, applyElem]
    cases h : convRows a b x with
    | error e => simp [Except.map]
    | ok y =>
      simp only
      rw [ih]
      cases h2 : mapE (convRows a b) xs with
      | error e => simp [Except.map]
      | ok ys => simp [Except.map]

/-- element by element: same length and every output is the function's value on the input at the
same position -/
def Elementwise {α β : Type} (f : α → Except ErrKind β) (xs : List α) (ys : List β) : Prop :=
  xs.length = ys.length ∧ ∀ (i : Nat) (x : α) (y : β), xs[i]? = some x → ys[i]? = some y → f x = .ok y

theorem mapE_ok_elementwise {α β : Type} {f : α → Except ErrKind β} {xs : List α} {ys : List β}
    (h : mapE f xs = .ok ys) : Elementwise f xs ys := by
  induction xs generalizing ys with
  | nil =>
    simp [mapE] at h; subst h
    exact ⟨rfl, by intro i x y hx; simp at hx⟩
  | cons a as ih =>
    simp only [mapE] at h
    cases h1 : f a with
    | error e => rw [h1] at h; cases h
    | ok b =>
      rw [h1] at h
      simp only at h
      cases h2 : mapE f as with
      | error e => rw [h2] at h; cases h
      | ok bs =>
        rw [h2] at h
        simp only at h
        cases h
        obtain ⟨hl, hp⟩ := ih h2
        refine ⟨by simp [hl], ?_⟩
        intro i x y hx hy
        cases i with
        | zero => simp at hx hy; subst hx; subst hy; exact h1
        | succ i => simp at hx hy; exact hp i x y hx hy

/-- a function that never fails maps every list -/
theorem mapE_total {α β : Type} {f : α → Except ErrKind β} (h : ∀ x, ∃ y, f x = .ok y) (xs : List α) :
    ∃ ys, mapE f xs = .ok ys := by
  induction xs with
  | nil => exact ⟨[], rfl⟩
  | cons a as ih =>
    obtain ⟨b, hb⟩ := h a
    obtain ⟨bs, hbs⟩ := ih
    exact ⟨b :: bs, mapE_cons_ok hb hbs⟩

theorem mapE_getElem {α β : Type} {f : α → Except ErrKind β} {xs : List α} {ys : List β}
    (h : mapE f xs = .ok ys) {k : Nat} {x : α} (hx : xs[k]? = some x) : ∃ y, ys[k]? = some y ∧ f x = .ok y := by
  obtain ⟨hl, hp⟩ := mapE_ok_elementwise h
  have hk : k < xs.length := by
    rcases Nat.lt_or_ge k xs.length with h | h
    · exact h
    · rw [List.getElem?_eq_none h] at hx; cases hx
  have hk' : k < ys.length := hl ▸ hk
  exact ⟨ys[k], List.getElem?_eq_getElem hk', hp k x ys[k] hx (List.getElem?_eq_getElem hk')⟩

/-! ### container kinds -/

/-- the three flat container kinds a conversion route accepts besides a plain number -/
inductive Kind
  | list
  | tuple
  | nd
deriving DecidableEq, Repr

/-- the container of kind `k` holding the numbers `xs` -/
def Kind.mk : Kind → List Rat → Val
  | .list, xs => .list (xs.map .num)
  | .tuple, xs => .tuple (xs.map .num)
  | .nd, xs => .nd xs

/-- a list (`false`) or tuple (`true`) of tuples of numbers -/
def mkTuples (outerTuple : Bool) (xss : List (List Rat)) : Val :=
  if outerTuple then .tuple (xss.map .tup) else .list (xss.map .tup)

theorem applyVal_kind (a b : UnitRow) (k : Kind) (xs : List Rat) :
    applyVal a b (k.mk xs) = (mapE (convRows a b) xs).map k.mk := by
  cases k with
  | list =>
    simp only [Kind.mk, applyVal, mapE_applyElem_nums]
    cases mapE (convRows a b) xs <;> simp [wrapList, Except.map, Kind.mk]
  | tuple =>
    simp only [Kind.mk, applyVal, mapE_applyElem_nums]
    cases mapE (convRows a b) xs <;> simp [wrapTuple, Except.map, Kind.mk]
  | nd =>
    simp only [Kind.mk, applyVal]
    cases mapE (convRows a b) xs <;> simp [wrapNd, Except.map, Kind.mk]

theorem isListOfTuples_kind (k : Kind) (xs : List Rat) : isListOfTuples (k.mk xs) = false := by
  cases k <;> cases xs <;> simp [Kind.mk, isListOfTuples]

theorem items_kind (k : Kind) (xs : List Rat) : (k.mk xs).items = xs.map .num := by
  cases k <;> simp [Kind.mk, Val.items]

/-! ### `Db.convert` unfolded -/

theorem convert_same (db : Db) (cq u : Sym) (x : Rat) : db.convert cq u u x = .ok x := by
  unfold Db.convert; simp

theorem convert_of_rows {db : Db} {cq u v qt : Sym} {ru rv : UnitRow} (huv : (u == v) = false)
    (hq : db.typeOf cq = .ok qt) (hu : db.getInfo qt u true = .ok ru) (hv : db.getInfo qt v true = .ok rv)
    (x : Rat) : db.convert cq u v x = convRows ru rv x := by
  unfold Db.convert
  simp [huv, hq, hu, hv]

theorem convert_ok_rows {db : Db} {cq u v : Sym} {x y : Rat} (huv : (u == v) = false)
    (h : db.convert cq u v x = .ok y) :
    ∃ qt ru rv, db.typeOf cq = .ok qt ∧ db.getInfo qt u true = .ok ru ∧ db.getInfo qt v true = .ok rv := by
  unfold Db.convert at h
  simp only [huv, Bool.false_eq_true, ↓reduceIte] at h
  split at h
  · cases h
  · rename_i qt hq
    split at h
    · cases h
    · rename_i ru hru
      split at h
      · cases h
      · rename_i rv hrv
        exact ⟨qt, ru, rv, hq, hru, hrv⟩

/-- `UnitDatabase.Convert` on a float: the model function of this engine is the one of `Conv` -/
theorem convertStr_num (db : Db) (cq u v : Sym) (x : Rat) :
    convertStr db (.str cq) u v (.num x) = wrapNum (db.convert cq u v x) := by
  unfold convertStr Db.convert CatArg.typeOf
  by_cases huv : (u == v) = true
  · simp [huv, wrapNum]
  · simp only [huv, Bool.false_eq_true, ↓reduceIte]
    cases db.typeOf cq with
    | error e => simp [wrapNum]
    | ok qt =>
      simp only
      cases db.getInfo qt u true with
      | error e => simp [wrapNum]
      | ok ru =>
        simp only
        cases db.getInfo qt v true with
        | error e => simp [wrapNum]
        | ok rv => simp [applyVal]

/-- a flat container of any kind: the conversion of every element, provided the unit pair converts
at all (an empty container of an inconvertible pair still raises) -/
theorem convertStr_kind {db : Db} {cq u v : Sym} {x0 y0 : Rat} (h : db.convert cq u v x0 = .ok y0)
    (k : Kind) (xs : List Rat) :
    convertStr db (.str cq) u v (k.mk xs) = (mapE (db.convert cq u v) xs).map k.mk := by
  by_cases huv : (u == v) = true
  · have : u = v := by simpa using huv
    subst this
    have : mapE (db.convert cq u u) xs = .ok xs := by
      rw [mapE_congr (g := fun x => .ok x) (fun x => convert_same db cq u x)]
      exact mapE_ok_id xs
    rw [this]
    unfold convertStr; simp [Except.map]
  · have huv' : (u == v) = false := by simpa using huv
    obtain ⟨qt, ru, rv, hq, hu, hv⟩ := convert_ok_rows huv' h
    rw [mapE_congr (convert_of_rows huv' hq hu hv)]
    unfold convertStr CatArg.typeOf
    simp only [huv', Bool.false_eq_true, ↓reduceIte, hq, hu, hv]
    exact applyVal_kind ru rv k xs

/-! ### what the constructor of a simple quantity guarantees -/

theorem catByName_name {db : Db} {c : Sym} {ci : CatRow} (h : db.catByName c = some ci) : ci.name = c := by
  unfold Db.catByName at h
  have := List.find?_some h
  simpa using this

theorem newSimple_ok {db : Db} {c u : Sym} {q : Quantity} (h : newSimple db c u = .ok q) :
    ∃ ci u' row, db.catByName c = some ci ∧ acceptedUnit db c u = some u'
      ∧ db.getInfo ci.qtype u' true = .ok row ∧ q = .simple c ci.qtype u' row := by
  unfold newSimple at h
  cases h1 : db.catByName c with
  | none => rw [h1] at h; cases h
  | some ci =>
    rw [h1] at h
    simp only at h
    cases h2 : acceptedUnit db c u with
    | none => rw [h2] at h; cases h
    | some u' =>
      rw [h2] at h
      simp only at h
      cases h3 : db.getInfo ci.qtype u' true with
      | error e => rw [h3] at h; cases h
      | ok row =>
        rw [h3] at h
        cases h
        exact ⟨ci, u', row, rfl, rfl, h3, rfl⟩

theorem typeOf_of_cat {db : Db} {c : Sym} {ci : CatRow} (h : db.catByName c = some ci) :
    db.typeOf c = .ok ci.qtype := by
  unfold Db.typeOf; simp [h]

/-- the fast path of a simple quantity (cached `_tobase`) against `Db.convert` -/
theorem simple_convertScalarValue {db : Db} {c u : Sym} {ci : CatRow} {row : UnitRow}
    (hc : db.catByName c = some ci) (hrow : db.getInfo ci.qtype u true = .ok row) (x : Rat) (v : Sym) :
    (Quantity.simple c ci.qtype u row).convertScalarValue db x v = db.convert c u v x := by
  unfold Quantity.convertScalarValue Db.convert
  simp only [Quantity.unit]
  by_cases huv : (u == v) = true
  · simp [huv]
  · simp only [huv, Bool.false_eq_true, ↓reduceIte, typeOf_of_cat hc, hrow]
    cases db.getInfo ci.qtype v true <;> rfl

theorem asNum_wrapNum (r : Except ErrKind Rat) :
    (match wrapNum r with
     | .error e => .error e
     | .ok v => v.asNum) = r := by
  cases r <;> rfl

/-! ### the unit system manager's state -/

theorem find_dictSet_self (m : List (Sym × Sym)) (c u : Sym) :
    (dictSet c u m).find? (·.1 == c) = some (c, u) := by
  induction m with
  | nil => simp [dictSet]
  | cons p rest ih =>
    obtain ⟨k, v⟩ := p
    by_cases h : (k == c) = true
    · have hk : k = c := by simpa using h
      simp [dictSet, hk]
    · simp only [dictSet, h, Bool.false_eq_true, ↓reduceIte, List.find?_cons]
      simpa using ih

theorem find_dictSet_other (m : List (Sym × Sym)) {c c' : Sym} (u : Sym) (h : c' ≠ c) :
    (dictSet c u m).find? (·.1 == c') = m.find? (·.1 == c') := by
  induction m with
  | nil =>
    have : (c == c') = false := by simpa using fun e => h e.symm
    simp [dictSet, this]
  | cons p rest ih =>
    obtain ⟨k, v⟩ := p
    by_cases hk : (k == c) = true
    · have hkc : k = c := by simpa using hk
      have : (c == c') = false := by simpa using fun e => h e.symm
      simp [dictSet, hkc, this]
    · simp only [dictSet, hk, Bool.false_eq_true, ↓reduceIte, List.find?_cons]
      cases (k == c') <;> simp [ih]

theorem systemDefaultUnit_dictSet (m : List (Sym × Sym)) {c : Sym} (u : Sym) (hc : c ≠ 0) :
    systemDefaultUnit (dictSet c u m) c = some u := by
  have : (c == 0) = false := by simpa using hc
  simp [systemDefaultUnit, this, find_dictSet_self]

theorem systemDefaultUnit_dictSet_other (m : List (Sym × Sym)) {c c' : Sym} (u : Sym) (h : c' ≠ c) :
    systemDefaultUnit (dictSet c u m) c' = systemDefaultUnit m c' := by
  simp [systemDefaultUnit, find_dictSet_other m u h]

theorem systemDefaultUnit_dictDel (m : List (Sym × Sym)) (c : Sym) :
    systemDefaultUnit (dictDel c m) c = none := by
  unfold systemDefaultUnit
  split
  · rfl
  · have : (dictDel c m).find? (·.1 == c) = none := by
      simp [dictDel, List.find?_eq_none]
    simp [this]

theorem find_mapSys (id : Sym) (f : List (Sym × Sym) → List (Sym × Sym)) (l : List USys) :
    (mapSys id f l).find? (·.id == id) = (l.find? (·.id == id)).map (fun s => { s with mapping := f s.mapping }) := by
  induction l with
  | nil => rfl
  | cons s rest ih =>
    by_cases h : (s.id == id) = true
    · simp [mapSys, h]
    · simp [mapSys, h, ih]

/-- the current system is one of the manager's systems (kept by every step) -/
def Mgr.WF (m : Mgr) : Prop := ∀ id, m.current = some id → ∃ s, m.find id = some s

theorem Mgr.currentMapping_edit {m m' : Mgr} (hwf : m.WF) (f : List (Sym × Sym) → List (Sym × Sym))
    (h : m.edit none f = .ok m') : m'.currentMapping = f m.currentMapping ∧ m'.current = m.current := by
  unfold Mgr.edit at h
  cases hc : m.current with
  | none =>
    simp only [hc] at h
    cases h
    simp [Mgr.currentMapping, hc]
  | some id =>
    simp only [hc] at h
    cases h
    obtain ⟨s, hs⟩ := hwf id hc
    unfold Mgr.find at hs
    simp [Mgr.currentMapping, hc, Mgr.find, find_mapSys, hs]

/-! ### the invariant of the manager state is kept by every call -/

theorem find_mapSys_isSome (id id' : Sym) (f : List (Sym × Sym) → List (Sym × Sym)) (l : List USys) :
    ((mapSys id f l).find? (·.id == id')).isSome = (l.find? (·.id == id')).isSome := by
  induction l with
  | nil => rfl
  | cons s rest ih =>
    by_cases h : (s.id == id) = true
    · simp only [mapSys, h, ↓reduceIte, List.find?_cons]
      cases (s.id == id') <;> simp
    · simp only [mapSys, h, Bool.false_eq_true, ↓reduceIte, List.find?_cons]
      cases (s.id == id') <;> simp [ih]

theorem find_filter_ne (l : List USys) {id id' : Sym} (hid : id' ≠ id) :
    (l.filter (fun s => !(s.id == id))).find? (·.id == id') = l.find? (·.id == id') := by
  induction l with
  | nil => rfl
  | cons x rest ih =>
    by_cases hx : (x.id == id) = true
    · have hx' : x.id = id := by simpa using hx
      have h2 : (x.id == id') = false := by simpa [hx'] using fun e : id = id' => hid e.symm
      simp [List.filter, hx, h2, ih]
    · simp only [List.filter, hx, Bool.not_false, List.find?_cons]
      cases (x.id == id') <;> simp [ih]

theorem Mgr.WF_iff (m : Mgr) : m.WF ↔ ∀ id, m.current = some id → (m.find id).isSome = true := by
  unfold Mgr.WF
  constructor
  · intro h id hc; obtain ⟨s, hs⟩ := h id hc; simp [hs]
  · intro h id hc; exact Option.isSome_iff_exists.mp (h id hc)

theorem Mgr.edit_wf {m m' : Mgr} (hwf : m.WF) (on : Option Sym) (f : List (Sym × Sym) → List (Sym × Sym))
    (h : m.edit on f = .ok m') : m'.WF := by
  rw [Mgr.WF_iff] at hwf ⊢
  unfold Mgr.edit at h
  cases on with
  | some id =>
    simp only at h
    split at h
    · cases h
      intro id' hc
      simp only [Mgr.find, find_mapSys_isSome]
      exact hwf id' hc
    · cases h
  | none =>
    simp only at h
    cases hcur : m.current with
    | none => rw [hcur] at h; cases h; intro id' hc; simp at hc
    | some id =>
      rw [hcur] at h; cases h
      intro id' hc
      simp only [Mgr.find, find_mapSys_isSome]
      exact hwf id' (hcur.trans hc)

theorem Mgr.step_wf (db : Db) {m : Mgr} (hwf : m.WF) (op : MgrOp) : (m.step db op).1.WF := by
  cases op with
  | convert c u val => exact hwf
  | convertScalar s => exact hwf
  | setDefaultUnit on c u =>
    simp only [Mgr.step]
    cases h : m.edit on (dictSet c u) with
    | error e => exact hwf
    | ok m' => exact Mgr.edit_wf hwf on _ h
  | removeCategory on c =>
    simp only [Mgr.step]
    cases h : m.edit on (dictDel c) with
    | error e => exact hwf
    | ok m' => exact Mgr.edit_wf hwf on _ h
  | setCurrent id =>
    cases id with
    | none => rw [Mgr.WF_iff]; intro id' hc; simp [Mgr.step, okState] at hc
    | some id =>
      simp only [Mgr.step]
      split
      · rename_i hf
        rw [Mgr.WF_iff]; intro id' hc
        simp only [okState] at hc ⊢
        cases hc
        simpa [Mgr.find] using hf
      · exact hwf
  | add id mapping =>
    simp only [Mgr.step]
    split
    · exact hwf
    · rename_i hf
      rw [Mgr.WF_iff] at hwf ⊢
      intro id' hc
      simp only [okState, Mgr.find, List.find?_append] at hc ⊢
      cases hcur : m.current with
      | some c0 =>
        rw [hcur] at hc; cases hc
        have := hwf id' hcur
        simp only [Mgr.find] at this
        simp [this]
      | none =>
        rw [hcur] at hc; cases hc
        simp
  | remove id =>
    simp only [Mgr.step]
    split
    · rename_i hf
      rw [Mgr.WF_iff] at hwf ⊢
      intro id' hc
      simp only [okState] at hc ⊢
      by_cases hcid : m.current = some id
      · simp only [hcid, BEq.rfl, ↓reduceIte] at hc
        cases hrest : m.systems.filter (fun s => !(s.id == id)) with
        | nil => rw [hrest] at hc; cases hc
        | cons s0 rest =>
          rw [hrest] at hc
          simp only [List.head?_cons, Option.map_some, Option.some.injEq] at hc
          subst hc
          simp [Mgr.find]
      · have hne : (m.current == some id) = false := by simpa using hcid
        simp only [hne, Bool.false_eq_true, ↓reduceIte] at hc
        have h1 := hwf id' hc
        have hid : id' ≠ id := by intro e; subst e; exact hcid hc
        simp only [Mgr.find] at h1 ⊢
        rw [find_filter_ne _ hid]; exact h1
    · exact hwf

theorem Mgr.run_wf (db : Db) {m : Mgr} (hwf : m.WF) (h : List MgrOp) : (Mgr.run db m h).1.WF := by
  induction h generalizing m with
  | nil => exact hwf
  | cons op ops ih => exact ih (Mgr.step_wf db hwf op)
end Barril.Routes
