/- Helper lemmas about the session layer (`Barril/Model/RegCache.lean`): construction of value
objects on a well-formed registry (C14) and the invisibility of the memo tables (C15). -/
import Barril.Proofs.RegLemmas
import Barril.Model.RegCache

namespace Barril.Reg
open Barril

variable (lg : List (Sym × Sym))

/-! ### building Scalars on a well-formed registry -/

theorem getInfo_of_mem {r : Registry} (h : RegInv r) {qt : Sym} {l : List UnitRow} {w : UnitRow}
    (hl : tlGet r.types qt = some l) (hw : w ∈ l) (a b : Bool) : getInfo lg r qt w.sym a b = .ok w := by
  have hq := h.rowsTyped _ _ hl _ hw
  have hi : ixGet r.index w.sym = some w := (h.indexSync _ _).mpr ⟨rfl, l, by rw [hq]; exact hl, hw⟩
  unfold getInfo tryInfo
  rw [hi]
  simp [hq]

theorem newQuantity_fresh_ok {r : Registry} (h : RegInv r) {c : Sym} {ci : CatRow} {l : List UnitRow}
    {w : UnitRow} (hc : catGet r.cats c = some ci) (hl : tlGet r.types ci.qtype = some l) (hw : w ∈ l) :
    (newQuantity lg (CState.fresh r) c w.sym).2 = .ok ⟨c, w.sym, ci.qtype, ci, w.toBase, w.ok⟩ := by
  have hv : categoryUnitValid lg r c w.sym = true := by
    unfold categoryUnitValid quantityTypeUnitOk
    rw [hc]; simp only
    rw [getInfo_of_mem lg h hl hw]
  unfold newQuantity
  simp only [CState.fresh, hc, checkCategoryUnit, memoGet, hv, ↓reduceIte, finishQuantity]
  rw [getInfo_of_mem lg h hl hw]

theorem obtain_fresh_ok {r : Registry} (h : RegInv r) {c : Sym} {ci : CatRow} {l : List UnitRow}
    {w : UnitRow} (hc : catGet r.cats c = some ci) (hl : tlGet r.types ci.qtype = some l) (hw : w ∈ l) :
    (obtain lg (CState.fresh r) false c w.sym).2 = .ok ⟨c, w.sym, ci.qtype, ci, w.toBase, w.ok⟩ := by
  unfold obtain
  simp only [CState.fresh, cacheGet]
  have := newQuantity_fresh_ok lg h hc hl hw
  simp only [CState.fresh] at this
  rw [this]

theorem unit_builds_scalar {r : Registry} (h : RegInv r) {c : Sym} {ci : CatRow} {l : List UnitRow}
    {w : UnitRow} (hc : catGet r.cats c = some ci) (hl : tlGet r.types ci.qtype = some l) (hw : w ∈ l) :
    spec lg r (.create c w.sym) = .ok (.quantity c w.sym) := by
  unfold spec answer
  simp only
  rw [obtain_fresh_ok lg h hc hl hw]
  rfl

theorem category_builds_scalar {r : Registry} (h : RegInv r) {c : Sym} {ci : CatRow}
    (hc : catGet r.cats c = some ci) :
    spec lg r (.createC c) = .ok (.qvalue c ci.defaultUnit ci.defaultValue)
    ∧ spec lg r (.isValid c ci.defaultUnit ci.defaultValue) = .ok (.bool true) := by
  obtain ⟨⟨l, hl, hdu, _⟩, hlo, hhi⟩ := h.catsOk c ci hc
  obtain ⟨w, hw, hs⟩ := List.mem_map.mp hdu
  have ho := obtain_fresh_ok lg h hc hl hw
  rw [hs] at ho
  constructor
  · unfold spec answer
    simp only [CState.fresh, getCategoryInfo, hc]
    simp only [CState.fresh] at ho
    rw [ho]; rfl
  · unfold spec answer
    simp only
    rw [ho]
    simp only [checkValue, convertScalarValue, ↓reduceIte]
    split
    · rfl
    · simp [exMap, hlo, hhi]

end Barril.Reg
