/- Helper lemmas about the session layer (`Barril/Model/RegCache.lean`): construction of value
objects on a well-formed registry (C14) and the invisibility of the memo tables (C15). -/
import Barril.Proofs.RegLemmas
import Barril.Model.RegCache

namespace Barril.Reg
open Barril

variable (lg : List (Sym × Sym))

/-! ### building Scalars on a well-formed registry -/

theorem getInfo_of_mem {r : Registry} (h : RegInv r) {qt : Sym} {l : List UnitRow} {w : UnitRow}
    (hl : tlGet r.types qt = some l) (hw : w ∈ l) (a b : Bool) : getInfo lg r qt w.sym a b = .ok w := by
  have hq := h.rowsTyped _ _ hl _ hw
  have hi : ixGet r.index w.sym = some w := (h.indexSync _ _).mpr ⟨rfl, l, by rw [hq]; exact hl, hw⟩
  unfold getInfo tryInfo
  rw [hi]
  simp [hq]

theorem newQuantity_fresh_ok {r : Registry} (h : RegInv r) {c : Sym} {ci : CatRow} {l : List UnitRow}
    {w : UnitRow} (hc : catGet r.cats c = some ci) (hl : tlGet r.types ci.qtype = some l) (hw : w ∈ l) :
    (newQuantity lg (CState.fresh r) c w.sym).2 = .ok ⟨c, w.sym, ci.qtype, ci, w.toBase, w.ok⟩ := by
  have hv : categoryUnitValid lg r c w.sym = true := by
    unfold categoryUnitValid quantityTypeUnitOk
    rw [hc]; simp only
    rw [getInfo_of_mem lg h hl hw]
  unfold newQuantity
  simp only [CState.fresh, hc, checkCategoryUnit, memoGet, hv, ↓reduceIte, finishQuantity]
  rw [getInfo_of_mem lg h hl hw]

theorem obtain_fresh_ok {r : Registry} (h : RegInv r) {c : Sym} {ci : CatRow} {l : List UnitRow}
    {w : UnitRow} (hc : catGet r.cats c = some ci) (hl : tlGet r.types ci.qtype = some l) (hw : w ∈ l) :
    (obtain lg (CState.fresh r) false c w.sym).2 = .ok ⟨c, w.sym, ci.qtype, ci, w.toBase, w.ok⟩ := by
  unfold obtain
  simp only [CState.fresh, cacheGet]
  have := newQuantity_fresh_ok lg h hc hl hw
  simp only [CState.fresh] at this
  rw [this]

theorem unit_builds_scalar {r : Registry} (h : RegInv r) {c : Sym} {ci : CatRow} {l : List UnitRow}
    {w : UnitRow} (hc : catGet r.cats c = some ci) (hl : tlGet r.types ci.qtype = some l) (hw : w ∈ l) :
    spec lg r (.create c w.sym) = .ok (.quantity c w.sym) := by
  unfold spec answer
  simp only
  rw [obtain_fresh_ok lg h hc hl hw]
  rfl

theorem category_builds_scalar {r : Registry} (h : RegInv r) {c : Sym} {ci : CatRow}
    (hc : catGet r.cats c = some ci) :
    spec lg r (.createC c) = .ok (.qvalue c ci.defaultUnit ci.defaultValue)
    ∧ spec lg r (.isValid c ci.defaultUnit ci.defaultValue) = .ok (.bool true) := by
  obtain ⟨⟨l, hl, hdu, _⟩, hlo, hhi⟩ := h.catsOk c ci hc
  obtain ⟨w, hw, hs⟩ := List.mem_map.mp hdu
  have ho := obtain_fresh_ok lg h hc hl hw
  rw [hs] at ho
  constructor
  · unfold spec answer
    simp only [CState.fresh, getCategoryInfo, hc]
    simp only [CState.fresh] at ho
    rw [ho]; rfl
  · unfold spec answer
    simp only
    rw [ho]
    simp only [checkValue, convertScalarValue, ↓reduceIte]
    split
    · rfl
    · simp [exMap, hlo, hhi]

/-! ### C15: the memo tables are semantically invisible -/

/-- every memoised verdict is the verdict the current registry gives -/
def MemoInv (s : CState) : Prop :=
  ∀ k v, memoGet s.memo k = some v → v = categoryUnitValid lg s.reg k.1 k.2

/-- `Quantity(category, unit)` as a function of the registry alone -/
def newQuantityPure (r : Registry) (c u : Sym) : Except ErrKind QObj :=
  match catGet r.cats c with
  | none => .error .units
  | some ci =>
    if categoryUnitValid lg r c u then finishQuantity lg r ci c u
    else if isLegacy lg u then
      if categoryUnitValid lg r c (fixLegacy lg u) then finishQuantity lg r ci c (fixLegacy lg u)
      else .error .units
    else .error .units

/-- `ObtainQuantity(unit, None)` as a function of the registry alone -/
def obtainUPure (r : Registry) (u : Sym) : Except ErrKind QObj :=
  match resolveDefault lg r u with
  | .error e => .error e
  | .ok (c, u') => if c = 0 then .error .type else newQuantityPure lg r c u'

/-- every cached quantity is the one a creation on the current registry yields for its key -/
def CacheInv (s : CState) : Prop :=
  ∀ k q, cacheGet s.cache k = some q →
    match k with
    | (some c, u, _) => newQuantityPure lg s.reg c u = .ok q
    | (none, u, _) => obtainUPure lg s.reg u = .ok q

/-- the cache invariant of a session state -/
def SInv (s : CState) : Prop := MemoInv lg s ∧ CacheInv lg s

/-- no registered unit symbol is itself a legacy spelling (the hypothesis of the `_partial`
theorems of C15, see `warm_fresh_counterexample`) -/
def NoLegacySyms (r : Registry) : Prop := ∀ u w, ixGet r.index u = some w → isLegacy lg u = false

theorem sinv_fresh (r : Registry) : SInv lg (CState.fresh r) :=
  ⟨fun k v h => by simp [CState.fresh, memoGet] at h, fun k q h => by simp [CState.fresh, cacheGet] at h⟩

/-- `s'` extends `s` by memo entries only -/
def Ext (s s' : CState) : Prop := s'.reg = s.reg ∧ s'.cache = s.cache ∧ (MemoInv lg s → MemoInv lg s')

theorem ext_refl (s : CState) : Ext lg s s := ⟨rfl, rfl, id⟩

theorem ext_trans {a b c : CState} (h1 : Ext lg a b) (h2 : Ext lg b c) : Ext lg a c :=
  ⟨h2.1.trans h1.1, h2.2.1.trans h1.2.1, fun h => h2.2.2 (h1.2.2 h)⟩

theorem ext_sinv {s s' : CState} (h : Ext lg s s') (hs : SInv lg s) : SInv lg s' := by
  refine ⟨h.2.2 hs.1, ?_⟩
  intro k q hk
  rw [h.2.1] at hk
  have := hs.2 k q hk
  rw [h.1]; exact this

theorem check_val {s : CState} (h : MemoInv lg s) (c u : Sym) :
    (checkCategoryUnit lg s c u).2 = categoryUnitValid lg s.reg c u := by
  unfold checkCategoryUnit
  cases hm : memoGet s.memo (c, u) with
  | none => rfl
  | some v => exact h _ _ hm

theorem check_ext (s : CState) (c u : Sym) : Ext lg s (checkCategoryUnit lg s c u).1 := by
  unfold checkCategoryUnit
  cases hm : memoGet s.memo (c, u) with
  | some v => exact ext_refl lg s
  | none =>
    refine ⟨rfl, rfl, ?_⟩
    intro h k v hk
    simp only [memoGet] at hk
    split at hk
    · rename_i he; cases hk; subst he; rfl
    · exact h k v hk

theorem newQuantity_ext (s : CState) (c u : Sym) : Ext lg s (newQuantity lg s c u).1 := by
  unfold newQuantity
  cases catGet s.reg.cats c with
  | none => exact ext_refl lg s
  | some ci =>
    simp only
    have e1 := check_ext lg s c u
    have e2 := check_ext lg (checkCategoryUnit lg s c u).1 c (fixLegacy lg u)
    split
    · exact e1
    · split
      · split
        · exact ext_trans lg e1 e2
        · exact ext_trans lg e1 e2
      · exact e1

theorem newQuantity_val {s : CState} (h : MemoInv lg s) (c u : Sym) :
    (newQuantity lg s c u).2 = newQuantityPure lg s.reg c u := by
  unfold newQuantity newQuantityPure
  cases catGet s.reg.cats c with
  | none => rfl
  | some ci =>
    simp only
    have e1 := check_ext lg s c u
    have v1 := check_val lg h c u
    have v2 := check_val lg (e1.2.2 h) c (fixLegacy lg u)
    rw [e1.1] at v2
    rw [v1, v2]
    cases categoryUnitValid lg s.reg c u <;> simp only [Bool.false_eq_true, ↓reduceIte]
    cases isLegacy lg u <;> simp only [Bool.false_eq_true, ↓reduceIte]
    cases categoryUnitValid lg s.reg c (fixLegacy lg u) <;> simp only [Bool.false_eq_true, ↓reduceIte]

theorem cacheGet_cons (k : Option Sym × Sym × Bool) (q : QObj) (m : List ((Option Sym × Sym × Bool) × QObj))
    (key : Option Sym × Sym × Bool) :
    cacheGet ((k, q) :: m) key = if k = key then some q else cacheGet m key := rfl

/-- a block of the session model is *good* when its result is a function of the registry, it keeps
the cache invariant and it does not touch the registry -/
def Good {α : Type} (B : CState → CState × Except ErrKind α) (pure : Registry → Except ErrKind α) : Prop :=
  ∀ s, SInv lg s → NoLegacySyms lg s.reg → (B s).2 = pure s.reg ∧ SInv lg (B s).1 ∧ (B s).1.reg = s.reg

theorem obtain_good (cap : Bool) (c u : Sym) :
    Good lg (fun s => obtain lg s cap c u) (fun r => newQuantityPure lg r c u) := by
  intro s hs _
  simp only
  unfold obtain
  cases hc : cacheGet s.cache (some c, u, cap) with
  | some q => exact ⟨(hs.2 _ _ hc).symm, hs, rfl⟩
  | none =>
    simp only
    have hv := newQuantity_val lg hs.1 c u
    have he := newQuantity_ext lg s c u
    have hs1 := ext_sinv lg he hs
    cases hn : (newQuantity lg s c u).2 with
    | error e => rw [hn] at hv; exact ⟨hv, hs1, he.1⟩
    | ok q =>
      rw [hn] at hv
      refine ⟨hv, ⟨?_, ?_⟩, rfl⟩
      · intro k v hk
        have := hs1.1 k v hk
        rw [he.1] at this; exact this
      · intro k q' hk
        simp only [cacheGet_cons] at hk
        split at hk
        · rename_i hkk
          cases hk; subst hkk
          exact hv.symm
        · rw [he.2.1] at hk
          exact hs.2 k q' hk

/-- under `NoLegacySyms`, when a unit resolves to "no category" its legacy-fixed spelling cannot
have been cached under the `None`-category key -/
theorem resolve_zero_not_cached {r : Registry} (hn : NoLegacySyms lg r) {u u' : Sym} {q : QObj}
    (hr : resolveDefault lg r u = .ok (0, u')) : obtainUPure lg r u' ≠ .ok q := by
  -- `u'` has no default category …
  have h0 : getDefaultCategory lg r u' = .ok 0 := by
    unfold resolveDefault at hr
    cases hg : getDefaultCategory lg r u with
    | error e => rw [hg] at hr; cases hr
    | ok c0 =>
      rw [hg] at hr
      simp only at hr
      split at hr
      · rename_i hc
        cases hr
        simp at hc
      · split at hr
        · cases hg2 : getDefaultCategory lg r (fixLegacy lg u) with
          | error e => rw [hg2] at hr; cases hr
          | ok c' =>
            rw [hg2] at hr
            simp only [Except.ok.injEq, Prod.mk.injEq] at hr
            obtain ⟨hc', hu'⟩ := hr
            subst hc'; subst hu'
            exact hg2
        · cases hr
  intro hq
  unfold obtainUPure resolveDefault at hq
  rw [h0] at hq
  simp only [bne_self_eq_false, Bool.false_eq_true, ↓reduceIte] at hq
  cases hl : isLegacy lg u' with
  | false => rw [hl] at hq; simp at hq
  | true =>
    rw [hl] at hq
    simp only [↓reduceIte] at hq
    cases hg2 : getDefaultCategory lg r (fixLegacy lg u') with
    | error e => rw [hg2] at hq; simp at hq
    | ok c' =>
      rw [hg2] at hq
      simp only at hq
      -- `u'` is not registered and its own legacy fix is registered without default category
      have hc0 : c' = 0 := by
        unfold getDefaultCategory at h0 hg2
        cases hi : ixGet r.index u' with
        | some w => rw [hn u' w hi] at hl; cases hl
        | none =>
          rw [hi] at h0
          simp only [hl, Bool.not_true, Bool.false_eq_true, ↓reduceIte] at h0
          cases hi2 : ixGet r.index (fixLegacy lg u') with
          | none => rw [hi2] at h0; cases h0
          | some w =>
            rw [hi2] at h0 hg2
            simp only [Except.ok.injEq] at h0 hg2
            rw [h0] at hg2
            exact hg2.symm
      rw [hc0] at hq
      simp at hq

theorem obtainU_good (u : Sym) : Good lg (fun s => obtainU lg s u) (fun r => obtainUPure lg r u) := by
  intro s hs hnl
  simp only
  unfold obtainU
  cases hc : cacheGet s.cache (none, u, false) with
  | some q => exact ⟨(hs.2 _ _ hc).symm, hs, rfl⟩
  | none =>
    simp only
    unfold obtainUPure
    cases hr : resolveDefault lg s.reg u with
    | error e => exact ⟨rfl, hs, by first | rfl | trivial⟩
    | ok cu =>
      obtain ⟨c, u'⟩ := cu
      simp only
      cases hc2 : cacheGet s.cache (if c = 0 then none else some c, u', false) with
      | some q =>
        simp only
        by_cases hz : c = 0
        · subst hz
          simp only [↓reduceIte] at hc2
          exact absurd (hs.2 _ _ hc2) (resolve_zero_not_cached lg hnl hr)
        · simp only [hz, ↓reduceIte] at hc2 ⊢
          exact ⟨(hs.2 _ _ hc2).symm, hs, by first | rfl | trivial⟩
      | none =>
        simp only
        by_cases hz : c = 0
        · simp only [hz, ↓reduceIte]
          exact ⟨by first | rfl | trivial, hs, by first | rfl | trivial⟩
        · simp only [hz, ↓reduceIte]
          have hv := newQuantity_val lg hs.1 c u'
          have he := newQuantity_ext lg s c u'
          have hs1 := ext_sinv lg he hs
          cases hn : (newQuantity lg s c u').2 with
          | error e => rw [hn] at hv; exact ⟨hv, hs1, he.1⟩
          | ok q =>
            rw [hn] at hv
            refine ⟨hv, ⟨?_, ?_⟩, rfl⟩
            · intro k v hk
              have := hs1.1 k v hk
              rw [he.1] at this; exact this
            · intro k q' hk
              simp only [cacheGet_cons] at hk
              split at hk
              · rename_i hkk
                cases hk; subst hkk
                show obtainUPure lg s.reg u = .ok q
                unfold obtainUPure
                rw [hr]; simp only [hz, ↓reduceIte]; exact hv.symm
              · split at hk
                · rename_i hkk
                  cases hk; subst hkk
                  exact hv.symm
                · rw [he.2.1] at hk
                  exact hs.2 k q' hk

/-- sequencing of good blocks -/
theorem good_bind {α β : Type} {B1 : CState → CState × Except ErrKind α} {p1 : Registry → Except ErrKind α}
    {B2 : α → CState → CState × Except ErrKind β} {p2 : α → Registry → Except ErrKind β}
    (h1 : Good lg B1 p1) (h2 : ∀ a, Good lg (B2 a) (p2 a)) :
    Good lg (fun s => match (B1 s).2 with
                      | .error e => ((B1 s).1, .error e)
                      | .ok a => B2 a (B1 s).1)
      (fun r => match p1 r with
                | .error e => .error e
                | .ok a => p2 a r) := by
  intro s hs hn
  obtain ⟨v1, i1, r1⟩ := h1 s hs hn
  simp only
  rw [v1]
  cases hp : p1 s.reg with
  | error e => exact ⟨rfl, i1, r1⟩
  | ok a =>
    simp only
    obtain ⟨v2, i2, r2⟩ := h2 a (B1 s).1 i1 (by rw [r1]; exact hn)
    rw [r1] at v2
    exact ⟨v2, i2, r2.trans r1⟩

/-- a block that does not touch the state -/
theorem good_pure {α : Type} (f : Registry → Except ErrKind α) : Good lg (fun s => (s, f s.reg)) f :=
  fun _ hs _ => ⟨rfl, hs, rfl⟩

/-- post-processing of the result with a function of the registry -/
theorem good_map {α β : Type} {B : CState → CState × Except ErrKind α} {p : Registry → Except ErrKind α}
    (h : Good lg B p) (f : Registry → Except ErrKind α → Except ErrKind β) :
    Good lg (fun s => ((B s).1, f s.reg (B s).2)) (fun r => f r (p r)) := by
  intro s hs hn
  obtain ⟨v, i, r⟩ := h s hs hn
  simp only
  rw [v]
  exact ⟨rfl, i, r⟩

end Barril.Reg
