/- Helper lemmas about the session layer (`Barril/Model/RegCache.lean`): construction of value
objects on a well-formed registry (C14) and the invisibility of the memo tables (C15). -/
import Barril.Proofs.RegLemmas
import Barril.Model.RegCache

namespace Barril.Reg
open Barril

variable (lg : List (Sym × Sym))

/-! ### building Scalars on a well-formed registry -/

theorem getInfo_of_mem {r : Registry} (h : RegInv r) {qt : Sym} {l : List UnitRow} {w : UnitRow}
    (hl : tlGet r.types qt = some l) (hw : w ∈ l) (a b : Bool) : getInfo lg r qt w.sym a b = .ok w := by
  have hq := h.rowsTyped _ _ hl _ hw
  have hi : ixGet r.index w.sym = some w := (h.indexSync _ _).mpr ⟨rfl, l, by rw [hq]; exact hl, hw⟩
  unfold getInfo tryInfo
  rw [hi]
  simp [hq]

theorem newQuantity_fresh_ok {r : Registry} (h : RegInv r) {c : Sym} {ci : CatRow} {l : List UnitRow}
    {w : UnitRow} (hc : catGet r.cats c = some ci) (hl : tlGet r.types ci.qtype = some l) (hw : w ∈ l) :
    (newQuantity lg (CState.fresh r) c w.sym).2 = .ok ⟨c, w.sym, ci.qtype, ci, w.toBase, w.ok⟩ := by
  have hv : categoryUnitValid lg r c w.sym = true := by
    unfold categoryUnitValid quantityTypeUnitOk
    rw [hc]; simp only
    rw [getInfo_of_mem lg h hl hw]
  unfold newQuantity
  simp only [CState.fresh, hc, checkCategoryUnit, memoGet, hv, ↓reduceIte, finishQuantity]
  rw [getInfo_of_mem lg h hl hw]

theorem obtain_fresh_ok {r : Registry} (h : RegInv r) {c : Sym} {ci : CatRow} {l : List UnitRow}
    {w : UnitRow} (hc : catGet r.cats c = some ci) (hl : tlGet r.types ci.qtype = some l) (hw : w ∈ l) :
    (obtain lg (CState.fresh r) false c w.sym).2 = .ok ⟨c, w.sym, ci.qtype, ci, w.toBase, w.ok⟩ := by
  unfold obtain
  simp only [CState.fresh, cacheGet]
  have := newQuantity_fresh_ok lg h hc hl hw
  simp only [CState.fresh] at this
  rw [this]

theorem unit_builds_scalar {r : Registry} (h : RegInv r) {c : Sym} {ci : CatRow} {l : List UnitRow}
    {w : UnitRow} (hc : catGet r.cats c = some ci) (hl : tlGet r.types ci.qtype = some l) (hw : w ∈ l) :
    spec lg r (.create c w.sym) = .ok (.quantity c w.sym) := by
  unfold spec answer
  simp only
  rw [obtain_fresh_ok lg h hc hl hw]
  rfl

theorem category_builds_scalar {r : Registry} (h : RegInv r) {c : Sym} {ci : CatRow}
    (hc : catGet r.cats c = some ci) :
    spec lg r (.createC c) = .ok (.qvalue c ci.defaultUnit ci.defaultValue)
    ∧ spec lg r (.isValid c ci.defaultUnit ci.defaultValue) = .ok (.bool true) := by
  obtain ⟨⟨l, hl, hdu, _⟩, hlo, hhi⟩ := h.catsOk c ci hc
  obtain ⟨w, hw, hs⟩ := List.mem_map.mp hdu
  have ho := obtain_fresh_ok lg h hc hl hw
  rw [hs] at ho
  constructor
  · unfold spec answer
    simp only [CState.fresh, getCategoryInfo, hc]
    simp only [CState.fresh] at ho
    rw [ho]; rfl
  · unfold spec answer
    simp only
    rw [ho]
    simp only [checkValue, convertScalarValue, ↓reduceIte]
    split
    · rfl
    · simp [exMap, hlo, hhi]

/-! ### C15: the memo tables are semantically invisible -/

/-- every memoised verdict is the verdict the current registry gives -/
def MemoInv (s : CState) : Prop :=
  ∀ k v, memoGet s.memo k = some v → v = categoryUnitValid lg s.reg k.1 k.2

/-- `Quantity(category, unit)` as a function of the registry alone -/
def newQuantityPure (r : Registry) (c u : Sym) : Except ErrKind QObj :=
  match catGet r.cats c with
  | none => .error .units
  | some ci =>
    if categoryUnitValid lg r c u then finishQuantity lg r ci c u
    else if isLegacy lg u then
      if categoryUnitValid lg r c (fixLegacy lg u) then finishQuantity lg r ci c (fixLegacy lg u)
      else .error .units
    else .error .units

/-- `ObtainQuantity(unit, None)` as a function of the registry alone -/
def obtainUPure (r : Registry) (u : Sym) : Except ErrKind QObj :=
  match resolveDefault lg r u with
  | .error e => .error e
  | .ok (c, u') => if c = 0 then .error .type else newQuantityPure lg r c u'

/-- every cached quantity is the one a creation on the current registry yields for its key -/
def CacheInv (s : CState) : Prop :=
  ∀ k q, cacheGet s.cache k = some q →
    match k with
    | (some c, u, _) => newQuantityPure lg s.reg c u = .ok q
    | (none, u, _) => obtainUPure lg s.reg u = .ok q

/-- the cache invariant of a session state -/
def SInv (s : CState) : Prop := MemoInv lg s ∧ CacheInv lg s

/-- no registered unit symbol is itself a legacy spelling (the hypothesis of the `_partial`
theorems of C15, see `warm_fresh_counterexample`) -/
def NoLegacySyms (r : Registry) : Prop := ∀ u w, ixGet r.index u = some w → isLegacy lg u = false

theorem sinv_fresh (r : Registry) : SInv lg (CState.fresh r) :=
  ⟨fun k v h => by simp [CState.fresh, memoGet] at h, fun k q h => by simp [CState.fresh, cacheGet] at h⟩

/-- `s'` extends `s` by memo entries only -/
def Ext (s s' : CState) : Prop := s'.reg = s.reg ∧ s'.cache = s.cache ∧ (MemoInv lg s → MemoInv lg s')

theorem ext_refl (s : CState) : Ext lg s s := ⟨rfl, rfl, id⟩

theorem ext_trans {a b c : CState} (h1 : Ext lg a b) (h2 : Ext lg b c) : Ext lg a c :=
  ⟨h2.1.trans h1.1, h2.2.1.trans h1.2.1, fun h => h2.2.2 (h1.2.2 h)⟩

theorem ext_sinv {s s' : CState} (h : Ext lg s s') (hs : SInv lg s) : SInv lg s' := by
  refine ⟨h.2.2 hs.1, ?_⟩
  intro k q hk
  rw [h.2.1] at hk
  have := hs.2 k q hk
  rw [h.1]; exact this

theorem check_val {s : CState} (h : MemoInv lg s) (c u : Sym) :
    (checkCategoryUnit lg s c u).2 = categoryUnitValid lg s.reg c u := by
  unfold checkCategoryUnit
  cases hm : memoGet s.memo (c, u) with
  | none => rfl
  | some v => exact h _ _ hm

theorem check_ext (s : CState) (c u : Sym) : Ext lg s (checkCategoryUnit lg s c u).1 := by
  unfold checkCategoryUnit
  cases hm : memoGet s.memo (c, u) with
  | some v => exact ext_refl lg s
  | none =>
    refine ⟨rfl, rfl, ?_⟩
    intro h k v hk
    simp only [memoGet] at hk
    split at hk
    · rename_i he; cases hk; subst he; rfl
    · exact h k v hk

theorem newQuantity_ext (s : CState) (c u : Sym) : Ext lg s (newQuantity lg s c u).1 := by
  unfold newQuantity
  cases catGet s.reg.cats c with
  | none => exact ext_refl lg s
  | some ci =>
    simp only
    have e1 := check_ext lg s c u
    have e2 := check_ext lg (checkCategoryUnit lg s c u).1 c (fixLegacy lg u)
    split
    · exact e1
    · split
      · split
        · exact ext_trans lg e1 e2
        · exact ext_trans lg e1 e2
      · exact e1

theorem newQuantity_val {s : CState} (h : MemoInv lg s) (c u : Sym) :
    (newQuantity lg s c u).2 = newQuantityPure lg s.reg c u := by
  unfold newQuantity newQuantityPure
  cases catGet s.reg.cats c with
  | none => rfl
  | some ci =>
    simp only
    have e1 := check_ext lg s c u
    have v1 := check_val lg h c u
    have v2 := check_val lg (e1.2.2 h) c (fixLegacy lg u)
    rw [e1.1] at v2
    rw [v1, v2]
    cases categoryUnitValid lg s.reg c u <;> simp only [Bool.false_eq_true, ↓reduceIte]
    cases isLegacy lg u <;> simp only [Bool.false_eq_true, ↓reduceIte]
    cases categoryUnitValid lg s.reg c (fixLegacy lg u) <;> simp only [Bool.false_eq_true, ↓reduceIte]

theorem cacheGet_cons (k : Option Sym × Sym × Bool) (q : QObj) (m : List ((Option Sym × Sym × Bool) × QObj))
    (key : Option Sym × Sym × Bool) :
    cacheGet ((k, q) :: m) key = if k = key then some q else cacheGet m key := rfl

/-- a block of the session model is *good* when its result is a function of the registry, it keeps
the cache invariant and it does not touch the registry -/
def Good {α : Type} (B : CState → CState × Except ErrKind α) (pure : Registry → Except ErrKind α) : Prop :=
  ∀ s, SInv lg s → NoLegacySyms lg s.reg → (B s).2 = pure s.reg ∧ SInv lg (B s).1 ∧ (B s).1.reg = s.reg

theorem obtain_good (cap : Bool) (c u : Sym) :
    Good lg (fun s => obtain lg s cap c u) (fun r => newQuantityPure lg r c u) := by
  intro s hs _
  simp only
  unfold obtain
  cases hc : cacheGet s.cache (some c, u, cap) with
  | some q => exact ⟨(hs.2 _ _ hc).symm, hs, rfl⟩
  | none =>
    simp only
    have hv := newQuantity_val lg hs.1 c u
    have he := newQuantity_ext lg s c u
    have hs1 := ext_sinv lg he hs
    cases hn : (newQuantity lg s c u).2 with
    | error e => rw [hn] at hv; exact ⟨hv, hs1, he.1⟩
    | ok q =>
      rw [hn] at hv
      refine ⟨hv, ⟨?_, ?_⟩, rfl⟩
      · intro k v hk
        have := hs1.1 k v hk
        rw [he.1] at this; exact this
      · intro k q' hk
        simp only [cacheGet_cons] at hk
        split at hk
        · rename_i hkk
          cases hk; subst hkk
          exact hv.symm
        · rw [he.2.1] at hk
          exact hs.2 k q' hk

/-- under `NoLegacySyms`, when a unit resolves to "no category" its legacy-fixed spelling cannot
have been cached under the `None`-category key -/
theorem resolve_zero_not_cached {r : Registry} (hn : NoLegacySyms lg r) {u u' : Sym} {q : QObj}
    (hr : resolveDefault lg r u = .ok (0, u')) : obtainUPure lg r u' ≠ .ok q := by
  -- `u'` has no default category …
  have h0 : getDefaultCategory lg r u' = .ok 0 := by
    unfold resolveDefault at hr
    cases hg : getDefaultCategory lg r u with
    | error e => rw [hg] at hr; cases hr
    | ok c0 =>
      rw [hg] at hr
      simp only at hr
      split at hr
      · rename_i hc
        cases hr
        simp at hc
      · split at hr
        · cases hg2 : getDefaultCategory lg r (fixLegacy lg u) with
          | error e => rw [hg2] at hr; cases hr
          | ok c' =>
            rw [hg2] at hr
            simp only [Except.ok.injEq, Prod.mk.injEq] at hr
            obtain ⟨hc', hu'⟩ := hr
            subst hc'; subst hu'
            exact hg2
        · cases hr
  intro hq
  unfold obtainUPure resolveDefault at hq
  rw [h0] at hq
  simp only [bne_self_eq_false, Bool.false_eq_true, ↓reduceIte] at hq
  cases hl : isLegacy lg u' with
  | false => rw [hl] at hq; simp at hq
  | true =>
    rw [hl] at hq
    simp only [↓reduceIte] at hq
    cases hg2 : getDefaultCategory lg r (fixLegacy lg u') with
    | error e => rw [hg2] at hq; simp at hq
    | ok c' =>
      rw [hg2] at hq
      simp only at hq
      -- `u'` is not registered and its own legacy fix is registered without default category
      have hc0 : c' = 0 := by
        unfold getDefaultCategory at h0 hg2
        cases hi : ixGet r.index u' with
        | some w => rw [hn u' w hi] at hl; cases hl
        | none =>
          rw [hi] at h0
          simp only [hl, Bool.not_true, Bool.false_eq_true, ↓reduceIte] at h0
          cases hi2 : ixGet r.index (fixLegacy lg u') with
          | none => rw [hi2] at h0; cases h0
          | some w =>
            rw [hi2] at h0 hg2
            simp only [Except.ok.injEq] at h0 hg2
            rw [h0] at hg2
            exact hg2.symm
      rw [hc0] at hq
      simp at hq

theorem obtainU_good (u : Sym) : Good lg (fun s => obtainU lg s u) (fun r => obtainUPure lg r u) := by
  intro s hs hnl
  simp only
  unfold obtainU
  cases hc : cacheGet s.cache (none, u, false) with
  | some q => exact ⟨(hs.2 _ _ hc).symm, hs, rfl⟩
  | none =>
    simp only
    unfold obtainUPure
    cases hr : resolveDefault lg s.reg u with
    | error e => exact ⟨rfl, hs, by first | rfl | trivial⟩
    | ok cu =>
      obtain ⟨c, u'⟩ := cu
      simp only
      cases hc2 : cacheGet s.cache (if c = 0 then none else some c, u', false) with
      | some q =>
        simp only
        by_cases hz : c = 0
        · subst hz
          simp only [↓reduceIte] at hc2
          exact absurd (hs.2 _ _ hc2) (resolve_zero_not_cached lg hnl hr)
        · simp only [hz, ↓reduceIte] at hc2 ⊢
          exact ⟨(hs.2 _ _ hc2).symm, hs, by first | rfl | trivial⟩
      | none =>
        simp only
        by_cases hz : c = 0
        · simp only [hz, ↓reduceIte]
          exact ⟨by first | rfl | trivial, hs, by first | rfl | trivial⟩
        · simp only [hz, ↓reduceIte]
          have hv := newQuantity_val lg hs.1 c u'
          have he := newQuantity_ext lg s c u'
          have hs1 := ext_sinv lg he hs
          cases hn : (newQuantity lg s c u').2 with
          | error e => rw [hn] at hv; exact ⟨hv, hs1, he.1⟩
          | ok q =>
            rw [hn] at hv
            refine ⟨hv, ⟨?_, ?_⟩, rfl⟩
            · intro k v hk
              have := hs1.1 k v hk
              rw [he.1] at this; exact this
            · intro k q' hk
              simp only [cacheGet_cons] at hk
              split at hk
              · rename_i hkk
                cases hk; subst hkk
                show obtainUPure lg s.reg u = .ok q
                unfold obtainUPure
                rw [hr]; simp only [hz, ↓reduceIte]; exact hv.symm
              · split at hk
                · rename_i hkk
                  cases hk; subst hkk
                  exact hv.symm
                · rw [he.2.1] at hk
                  exact hs.2 k q' hk

/-- the two copies of `Sum`, as a function of the registry -/
def copiesPure (r : Registry) (c1 v1 c2 v2 : Sym) : Except ErrKind Unit :=
  match newQuantityPure lg r c1 v1 with
  | .error e => .error e
  | .ok _ =>
    match newQuantityPure lg r c2 v2 with
    | .error e => .error e
    | .ok _ => .ok ()

theorem copies_good (c1 v1 c2 v2 : Sym) :
    Good lg (fun s => copies lg s c1 v1 c2 v2) (fun r => copiesPure lg r c1 v1 c2 v2) := by
  intro s hs hn
  obtain ⟨w1, i1, r1⟩ := obtain_good lg true c1 v1 s hs hn
  simp only at w1 i1 r1 ⊢
  unfold copies copiesPure
  rw [w1]
  cases newQuantityPure lg s.reg c1 v1 with
  | error e => exact ⟨rfl, i1, r1⟩
  | ok a =>
    simp only
    obtain ⟨w2, i2, r2⟩ := obtain_good lg true c2 v2 _ i1 (by rw [r1]; exact hn)
    simp only at w2 i2 r2
    rw [w2, r1]
    exact ⟨rfl, i2, r2.trans r1⟩

/-- `Sum` on two simple operands, as a function of the registry -/
def sumSimplePure (r : Registry) (a b : QObj) (x y : Rat) : Except ErrKind (Sym × Sym × Rat) :=
  if a.cat = b.cat ∧ a.unit = b.unit then .ok (a.cat, a.unit, x + y)
  else
    match getCategoryInfo r a.cat with
    | .error e => .error e
    | .ok ca =>
      match getCategoryInfo r b.cat with
      | .error e => .error e
      | .ok cb =>
        if ca.qtype = cb.qtype then
          match convert lg r ca.qtype b.unit a.unit y with
          | .error e => .error e
          | .ok y' =>
            match copiesPure lg r a.cat a.unit b.cat a.unit with
            | .error e => .error e
            | .ok _ => .ok (a.cat, a.unit, x + y')
        else
          match copiesPure lg r a.cat a.unit b.cat b.unit with
          | .error e => .error e
          | .ok _ => if a.unit = b.unit then .ok (a.cat, a.unit, x + y) else .error .units

theorem sumSimple_good (a b : QObj) (x y : Rat) :
    Good lg (fun s => sumSimple lg s a b x y) (fun r => sumSimplePure lg r a b x y) := by
  intro s hs hn
  simp only
  unfold sumSimple sumSimplePure
  split
  · exact ⟨rfl, hs, rfl⟩
  · cases getCategoryInfo s.reg a.cat with
    | error e => exact ⟨rfl, hs, rfl⟩
    | ok ca =>
      simp only
      cases getCategoryInfo s.reg b.cat with
      | error e => exact ⟨rfl, hs, rfl⟩
      | ok cb =>
        simp only
        split
        · cases convert lg s.reg ca.qtype b.unit a.unit y with
          | error e => exact ⟨rfl, hs, rfl⟩
          | ok y' =>
            simp only
            obtain ⟨v, i, r⟩ := copies_good lg a.cat a.unit b.cat a.unit s hs hn
            simp only at v i r
            rw [v]
            exact ⟨rfl, i, r⟩
        · obtain ⟨v, i, r⟩ := copies_good lg a.cat a.unit b.cat b.unit s hs hn
          simp only at v i r
          rw [v]
          exact ⟨rfl, i, r⟩

/-! ### derived quantities -/

/-- every cached derived quantity is the one a creation on the current registry yields for its key -/
def DInv (s : CState) : Prop := ∀ k d, dcacheGet s.dcache k = some d → newDerivedChecked lg s.reg k = .ok d

theorem dinv_fresh (r : Registry) : DInv lg (CState.fresh r) := fun k d h => by simp [CState.fresh, dcacheGet] at h

/-- `s'` has the registry of `s` and only adds correct entries to the derived part of the cache -/
def DExt (s s' : CState) : Prop :=
  s'.reg = s.reg ∧ ∀ k d, dcacheGet s'.dcache k = some d → dcacheGet s.dcache k = some d ∨ newDerivedChecked lg s.reg k = .ok d

theorem dext_refl (s : CState) : DExt lg s s := ⟨rfl, fun _ _ h => Or.inl h⟩

theorem dext_trans {a b c : CState} (h1 : DExt lg a b) (h2 : DExt lg b c) : DExt lg a c := by
  refine ⟨h2.1.trans h1.1, ?_⟩
  intro k d hk
  rcases h2.2 k d hk with h | h
  · exact h1.2 k d h
  · rw [h1.1] at h; exact Or.inr h

theorem dext_of_eq {s s' : CState} (hr : s'.reg = s.reg) (hd : s'.dcache = s.dcache) : DExt lg s s' :=
  ⟨hr, fun k d h => by rw [hd] at h; exact Or.inl h⟩

theorem dext_dinv {s s' : CState} (h : DExt lg s s') (hd : DInv lg s) : DInv lg s' := by
  intro k d hk
  rw [h.1]
  rcases h.2 k d hk with h' | h'
  · exact hd k d h'
  · exact h'

theorem check_dcache (s : CState) (c u : Sym) : (checkCategoryUnit lg s c u).1.dcache = s.dcache := by
  unfold checkCategoryUnit
  cases memoGet s.memo (c, u) <;> rfl

theorem newQuantity_dcache (s : CState) (c u : Sym) : (newQuantity lg s c u).1.dcache = s.dcache := by
  unfold newQuantity
  split
  · rfl
  · split
    · exact check_dcache lg s c u
    · split
      · split <;> exact (check_dcache lg _ c _).trans (check_dcache lg s c u)
      · exact check_dcache lg s c u

theorem obtain_dcache (s : CState) (cap : Bool) (c u : Sym) : (obtain lg s cap c u).1.dcache = s.dcache := by
  unfold obtain
  split
  · rfl
  · split
    · rfl
    · exact newQuantity_dcache lg s c u

theorem obtainU_dcache (s : CState) (u : Sym) : (obtainU lg s u).1.dcache = s.dcache := by
  unfold obtainU
  split
  · rfl
  · split
    · rfl
    · split
      · rfl
      · split
        · rfl
        · split
          · rfl
          · exact newQuantity_dcache lg s _ _

theorem copies_dcache (s : CState) (c1 v1 c2 v2 : Sym) : (copies lg s c1 v1 c2 v2).1.dcache = s.dcache := by
  unfold copies
  split
  · exact obtain_dcache lg s true c1 v1
  · exact (obtain_dcache lg _ true c2 v2).trans (obtain_dcache lg s true c1 v1)

theorem sumSimple_dcache (s : CState) (a b : QObj) (x y : Rat) : (sumSimple lg s a b x y).1.dcache = s.dcache := by
  unfold sumSimple
  split
  · rfl
  · split
    · rfl
    · split
      · rfl
      · split
        · split
          · rfl
          · exact copies_dcache lg s _ _ _ _
        · exact copies_dcache lg s _ _ _ _

/-- `ObtainQuantity(OrderedDict)` as a function of the registry -/
def obtainDictPure (r : Registry) (entries : List (Sym × Sym × Int)) : Except ErrKind DObj :=
  match simpleCase entries with
  | some (c, u) => exMap descOfSimple (newQuantityPure lg r c u)
  | none => newDerivedChecked lg r entries

/-- `Quantity.CreateDerived` as a function of the registry -/
def createDerivedPure (r : Registry) (entries : List (Sym × Sym × Int)) : Except ErrKind DObj :=
  match validateEntries lg r entries with
  | .error e => .error e
  | .ok _ => obtainDictPure lg r entries

theorem dcacheGet_cons (k : List (Sym × Sym × Int)) (d : DObj) (m : List (List (Sym × Sym × Int) × DObj))
    (key : List (Sym × Sym × Int)) : dcacheGet ((k, d) :: m) key = if k = key then some d else dcacheGet m key := rfl

theorem obtainDict_good (cap : Bool) (entries : List (Sym × Sym × Int)) {s : CState} (hs : SInv lg s) (hd : DInv lg s)
    (hn : NoLegacySyms lg s.reg) :
    (obtainDict lg s cap entries).2 = obtainDictPure lg s.reg entries ∧ SInv lg (obtainDict lg s cap entries).1
      ∧ DExt lg s (obtainDict lg s cap entries).1 := by
  unfold obtainDict obtainDictPure
  cases simpleCase entries with
  | some cu =>
    obtain ⟨c, u⟩ := cu
    obtain ⟨v, i, r⟩ := obtain_good lg cap c u s hs hn
    simp only at v i r ⊢
    rw [v]
    exact ⟨rfl, i, dext_of_eq lg r (obtain_dcache lg s cap c u)⟩
  | none =>
    simp only
    cases hc : dcacheGet s.dcache entries with
    | some d => exact ⟨(hd _ _ hc).symm, hs, dext_refl lg s⟩
    | none =>
      simp only
      cases hnd : newDerivedChecked lg s.reg entries with
      | error e => exact ⟨rfl, hs, dext_refl lg s⟩
      | ok d =>
        refine ⟨rfl, hs, rfl, ?_⟩
        intro k d' hk
        simp only [dcacheGet_cons] at hk
        split at hk
        · rename_i hkk; cases hk; subst hkk; exact Or.inr hnd
        · exact Or.inl hk

theorem createDerived_good (entries : List (Sym × Sym × Int)) {s : CState} (hs : SInv lg s) (hd : DInv lg s)
    (hn : NoLegacySyms lg s.reg) :
    (createDerived lg s entries).2 = createDerivedPure lg s.reg entries ∧ SInv lg (createDerived lg s entries).1
      ∧ DExt lg s (createDerived lg s entries).1 := by
  unfold createDerived createDerivedPure
  cases validateEntries lg s.reg entries with
  | error e => exact ⟨rfl, hs, dext_refl lg s⟩
  | ok _ => exact obtainDict_good lg false entries hs hd hn

/-- products and quotients of two simple operands, as a function of the registry -/
def prodSimplePure (r : Registry) (op : ProdOp) (a b : QObj) (x y : Rat) : Except ErrKind (DObj × Rat) :=
  match getCategoryInfo r a.cat with
  | .error e => .error e
  | .ok ca =>
    match getCategoryInfo r b.cat with
    | .error e => .error e
    | .ok cb =>
      match (if ca.qtype = cb.qtype then convert lg r ca.qtype b.unit a.unit y else .ok y) with
      | .error e => .error e
      | .ok y' =>
        match mergeEntries op a b (if ca.qtype = cb.qtype then a.unit else b.unit) with
        | .error e => .error e
        | .ok es =>
          match createDerivedPure lg r (prune es) with
          | .error e => .error e
          | .ok d =>
            match op with
            | .mul => .ok (d, x * y')
            | .div => if y' = 0 then .error .other else .ok (d, x / y')

theorem prodSimple_good (op : ProdOp) (a b : QObj) (x y : Rat) {s : CState} (hs : SInv lg s) (hd : DInv lg s)
    (hn : NoLegacySyms lg s.reg) :
    (prodSimple lg s op a b x y).2 = prodSimplePure lg s.reg op a b x y ∧ SInv lg (prodSimple lg s op a b x y).1
      ∧ DExt lg s (prodSimple lg s op a b x y).1 := by
  unfold prodSimple prodSimplePure
  cases getCategoryInfo s.reg a.cat with
  | error e => exact ⟨rfl, hs, dext_refl lg s⟩
  | ok ca =>
    simp only
    cases getCategoryInfo s.reg b.cat with
    | error e => exact ⟨rfl, hs, dext_refl lg s⟩
    | ok cb =>
      simp only
      cases (if ca.qtype = cb.qtype then convert lg s.reg ca.qtype b.unit a.unit y else Except.ok y) with
      | error e => exact ⟨rfl, hs, dext_refl lg s⟩
      | ok y' =>
        simp only
        cases mergeEntries op a b (if ca.qtype = cb.qtype then a.unit else b.unit) with
        | error e => exact ⟨rfl, hs, dext_refl lg s⟩
        | ok es =>
          simp only
          obtain ⟨v, i, r⟩ := createDerived_good lg (prune es) hs hd hn
          rw [v]
          exact ⟨rfl, i, r⟩

/-- Sum/Subtract on two quantities given by their composing maps, as a function of the registry -/
def sumDerivedPure (r : Registry) (op : SumOp) (d1 d2 : DObj) (x y : Rat) : Except ErrKind (DObj × Rat) :=
  if d1.entries = d2.entries then .ok (d1, op.apply x y)
  else
    match matchList lg r (decide (1 < d1.entries.length)) [] x d1.entries with
    | .error e => .error e
    | .ok (used, x', es1) =>
      match matchList lg r (decide (1 < d2.entries.length)) used y d2.entries with
      | .error e => .error e
      | .ok (_, y', es2) =>
        match obtainDictPure lg r es1 with
        | .error e => .error e
        | .ok c1 =>
          match obtainDictPure lg r es2 with
          | .error e => .error e
          | .ok c2 =>
            if sameSet (joinUnits c1.entries) (joinUnits c2.entries) then .ok (c1, op.apply x' y')
            else if (joinUnits c1.entries).isEmpty then .ok (c2, op.apply x' y')
            else if (joinUnits c2.entries).isEmpty then .ok (c1, op.apply x' y')
            else .error .units

theorem sumDerived_good (op : SumOp) (d1 d2 : DObj) (x y : Rat) {s : CState} (hs : SInv lg s) (hd : DInv lg s)
    (hn : NoLegacySyms lg s.reg) :
    (sumDerived lg s op d1 d2 x y).2 = sumDerivedPure lg s.reg op d1 d2 x y ∧ SInv lg (sumDerived lg s op d1 d2 x y).1
      ∧ DExt lg s (sumDerived lg s op d1 d2 x y).1 := by
  unfold sumDerived sumDerivedPure
  split
  · exact ⟨rfl, hs, dext_refl lg s⟩
  · cases matchList lg s.reg (decide (1 < d1.entries.length)) [] x d1.entries with
    | error e => exact ⟨rfl, hs, dext_refl lg s⟩
    | ok t1 =>
      obtain ⟨used, x', es1⟩ := t1
      simp only
      cases matchList lg s.reg (decide (1 < d2.entries.length)) used y d2.entries with
      | error e => exact ⟨rfl, hs, dext_refl lg s⟩
      | ok t2 =>
        obtain ⟨used2, y', es2⟩ := t2
        simp only
        obtain ⟨v1, i1, r1⟩ := obtainDict_good lg true es1 hs hd hn
        rw [v1]
        cases obtainDictPure lg s.reg es1 with
        | error e => exact ⟨rfl, i1, r1⟩
        | ok c1 =>
          simp only
          obtain ⟨v2, i2, r2⟩ := obtainDict_good lg true es2 i1 (dext_dinv lg r1 hd) (by rw [r1.1]; exact hn)
          rw [v2, r1.1]
          exact ⟨rfl, i2, dext_trans lg r1 r2⟩

/-- **every query refines its cache-free meaning**: in a state that satisfies the cache invariant
its answer is the answer on a freshly built database over the same registry, it keeps the cache
invariant, and it does not change the registry -/
theorem answer_refines (q : Query) {s : CState} (hs : SInv lg s) (hn : NoLegacySyms lg s.reg) (hd : DInv lg s) :
    (answer lg s q).2 = spec lg s.reg q ∧ SInv lg (answer lg s q).1 ∧ (answer lg s q).1.reg = s.reg := by
  have hf := sinv_fresh lg s.reg
  have hnf : NoLegacySyms lg (CState.fresh s.reg).reg := hn
  unfold spec
  cases q with
  | check c u =>
    simp only [answer]
    rw [check_val lg hs.1, check_val lg hf.1]
    exact ⟨rfl, ext_sinv lg (check_ext lg s c u) hs, (check_ext lg s c u).1⟩
  | create c u =>
    obtain ⟨v, i, r⟩ := obtain_good lg false c u s hs hn
    obtain ⟨v0, _, _⟩ := obtain_good lg false c u _ hf hnf
    simp only [answer]
    simp only at v v0 i r
    rw [v, v0]
    exact ⟨rfl, i, r⟩
  | createU u =>
    obtain ⟨v, i, r⟩ := obtainU_good lg u s hs hn
    obtain ⟨v0, _, _⟩ := obtainU_good lg u _ hf hnf
    simp only [answer]
    simp only at v v0 i r
    rw [v, v0]
    exact ⟨rfl, i, r⟩
  | createC c =>
    simp only [answer]
    show _ ∧ _ ∧ _
    cases hg : getCategoryInfo s.reg c with
    | error e =>
      have : getCategoryInfo (CState.fresh s.reg).reg c = .error e := hg
      rw [this]
      exact ⟨rfl, hs, rfl⟩
    | ok ci =>
      have : getCategoryInfo (CState.fresh s.reg).reg c = .ok ci := hg
      rw [this]
      obtain ⟨v, i, r⟩ := obtain_good lg false c ci.defaultUnit s hs hn
      obtain ⟨v0, _, _⟩ := obtain_good lg false c ci.defaultUnit _ hf hnf
      simp only at v v0 i r ⊢
      rw [v, v0]
      exact ⟨rfl, i, r⟩
  | convert cq u v x => exact ⟨rfl, hs, rfl⟩
  | objValidUnits c u =>
    obtain ⟨v, i, r⟩ := obtain_good lg false c u s hs hn
    obtain ⟨v0, _, _⟩ := obtain_good lg false c u _ hf hnf
    simp only [answer]
    simp only at v v0 i r
    rw [v, v0]
    exact ⟨rfl, i, r⟩
  | isValid c u x =>
    obtain ⟨v, i, r⟩ := obtain_good lg false c u s hs hn
    obtain ⟨v0, _, _⟩ := obtain_good lg false c u _ hf hnf
    simp only [answer]
    simp only at v v0 i r
    rw [v, v0]
    exact ⟨rfl, i, r⟩
  | add c1 u1 c2 u2 x y =>
    obtain ⟨v, i, r⟩ := obtain_good lg false c1 u1 s hs hn
    obtain ⟨v0, i0, r0⟩ := obtain_good lg false c1 u1 _ hf hnf
    simp only [answer]
    simp only at v v0 i r i0 r0
    have r0' : (obtain lg (CState.fresh s.reg) false c1 u1).1.reg = s.reg := r0
    have v0' : (obtain lg (CState.fresh s.reg) false c1 u1).2 = newQuantityPure lg s.reg c1 u1 := v0
    rw [v, v0']
    cases newQuantityPure lg s.reg c1 u1 with
    | error e => exact ⟨rfl, i, r⟩
    | ok a =>
      simp only
      obtain ⟨w, j, t⟩ := obtain_good lg false c2 u2 _ i (by rw [r]; exact hn)
      obtain ⟨w0, j0, t0⟩ := obtain_good lg false c2 u2 _ i0 (by rw [r0']; exact hn)
      simp only at w w0 j t j0 t0
      rw [r] at w
      rw [r0'] at w0
      rw [w, w0]
      cases newQuantityPure lg s.reg c2 u2 with
      | error e => exact ⟨rfl, j, t.trans r⟩
      | ok b =>
        simp only
        obtain ⟨z, k, m⟩ := sumSimple_good lg a b x y _ j (by rw [t, r]; exact hn)
        obtain ⟨z0, _, _⟩ := sumSimple_good lg a b x y _ j0 (by rw [t0, r0']; exact hn)
        simp only at z z0 k m
        rw [t, r] at z
        rw [t0, r0'] at z0
        rw [z, z0]
        exact ⟨rfl, k, (m.trans t).trans r⟩
  | validUnits c => exact ⟨rfl, hs, rfl⟩
  | baseUnit qt => exact ⟨rfl, hs, rfl⟩
  | units qt => exact ⟨rfl, hs, rfl⟩
  | defaultCategory u => exact ⟨rfl, hs, rfl⟩
  | quantityType u => exact ⟨rfl, hs, rfl⟩
  | catInfo c => exact ⟨rfl, hs, rfl⟩
  | allUnits => exact ⟨rfl, hs, rfl⟩
  | allUnitNames => exact ⟨rfl, hs, rfl⟩
  | unitNames qt => exact ⟨rfl, hs, rfl⟩
  | quantityTypes => exact ⟨rfl, hs, rfl⟩
  | checkQuantityType qt => exact ⟨rfl, hs, rfl⟩
  | categories => exact ⟨rfl, hs, rfl⟩
  | isValidCategory c => exact ⟨rfl, hs, rfl⟩
  | unitName qt u => exact ⟨rfl, hs, rfl⟩
  | checkQtUnit qt u => exact ⟨rfl, hs, rfl⟩
  | info qt u fu => exact ⟨rfl, hs, rfl⟩
  | getValue c u v x =>
    obtain ⟨w, i, r⟩ := obtain_good lg false c u s hs hn
    obtain ⟨w0, _, _⟩ := obtain_good lg false c u _ hf hnf
    simp only [answer]
    simp only at w w0 i r
    rw [w, w0]
    exact ⟨rfl, i, r⟩
  | derived entries =>
    obtain ⟨v, i, r⟩ := obtainDict_good lg false entries hs hd hn
    obtain ⟨v0, _, _⟩ := obtainDict_good lg false entries hf (dinv_fresh lg s.reg) hnf
    simp only [answer]
    have v0' : (obtainDict lg (CState.fresh s.reg) false entries).2 = obtainDictPure lg s.reg entries := v0
    rw [v, v0']
    exact ⟨rfl, i, r.1⟩
  | createDerived entries =>
    obtain ⟨v, i, r⟩ := createDerived_good lg entries hs hd hn
    obtain ⟨v0, _, _⟩ := createDerived_good lg entries hf (dinv_fresh lg s.reg) hnf
    simp only [answer]
    have v0' : (createDerived lg (CState.fresh s.reg) entries).2 = createDerivedPure lg s.reg entries := v0
    rw [v, v0']
    exact ⟨rfl, i, r.1⟩
  | prod op c1 u1 c2 u2 x y =>
    obtain ⟨v, i, r⟩ := obtain_good lg false c1 u1 s hs hn
    obtain ⟨v0, i0, r0⟩ := obtain_good lg false c1 u1 _ hf hnf
    simp only [answer]
    simp only at v v0 i r i0 r0
    have r0' : (obtain lg (CState.fresh s.reg) false c1 u1).1.reg = s.reg := r0
    have v0' : (obtain lg (CState.fresh s.reg) false c1 u1).2 = newQuantityPure lg s.reg c1 u1 := v0
    have d1 : DInv lg (obtain lg s false c1 u1).1 := dext_dinv lg (dext_of_eq lg r (obtain_dcache lg s false c1 u1)) hd
    have d10 : DInv lg (obtain lg (CState.fresh s.reg) false c1 u1).1 :=
      dext_dinv lg (dext_of_eq lg r0 (obtain_dcache lg _ false c1 u1)) (dinv_fresh lg s.reg)
    rw [v, v0']
    cases newQuantityPure lg s.reg c1 u1 with
    | error e => exact ⟨rfl, i, r⟩
    | ok a =>
      simp only
      obtain ⟨w, j, t⟩ := obtain_good lg false c2 u2 _ i (by rw [r]; exact hn)
      obtain ⟨w0, j0, t0⟩ := obtain_good lg false c2 u2 _ i0 (by rw [r0']; exact hn)
      simp only at w w0 j t j0 t0
      have d2 := dext_dinv lg (dext_of_eq lg t (obtain_dcache lg _ false c2 u2)) d1
      have d20 := dext_dinv lg (dext_of_eq lg t0 (obtain_dcache lg _ false c2 u2)) d10
      rw [r] at w
      rw [r0'] at w0
      rw [w, w0]
      cases newQuantityPure lg s.reg c2 u2 with
      | error e => exact ⟨rfl, j, t.trans r⟩
      | ok b =>
        simp only
        obtain ⟨z, k, m⟩ := prodSimple_good lg op a b x y j d2 (by rw [t, r]; exact hn)
        obtain ⟨z0, _, _⟩ := prodSimple_good lg op a b x y j0 d20 (by rw [t0, r0']; exact hn)
        rw [t, r] at z
        rw [t0, r0'] at z0
        rw [z, z0]
        exact ⟨rfl, k, (m.1.trans t).trans r⟩
  | sumd op e1 e2 x y =>
    obtain ⟨v, i, r⟩ := obtainDict_good lg false e1 hs hd hn
    obtain ⟨v0, i0, r0⟩ := obtainDict_good lg false e1 hf (dinv_fresh lg s.reg) hnf
    simp only [answer]
    have r0' : (obtainDict lg (CState.fresh s.reg) false e1).1.reg = s.reg := r0.1
    have v0' : (obtainDict lg (CState.fresh s.reg) false e1).2 = obtainDictPure lg s.reg e1 := v0
    have d1 := dext_dinv lg r hd
    have d10 := dext_dinv lg r0 (dinv_fresh lg s.reg)
    rw [v, v0']
    cases obtainDictPure lg s.reg e1 with
    | error e => exact ⟨rfl, i, r.1⟩
    | ok a =>
      simp only
      obtain ⟨w, j, t⟩ := obtainDict_good lg false e2 i d1 (by rw [r.1]; exact hn)
      obtain ⟨w0, j0, t0⟩ := obtainDict_good lg false e2 i0 d10 (by rw [r0']; exact hn)
      have d2 := dext_dinv lg t d1
      have d20 := dext_dinv lg t0 d10
      rw [r.1] at w
      rw [r0'] at w0
      rw [w, w0]
      cases obtainDictPure lg s.reg e2 with
      | error e => exact ⟨rfl, j, t.1.trans r.1⟩
      | ok b =>
        simp only
        obtain ⟨z, k, m⟩ := sumDerived_good lg op a b x y j d2 (by rw [t.1, r.1]; exact hn)
        obtain ⟨z0, _, _⟩ := sumDerived_good lg op a b x y j0 d20 (by rw [t0.1, r0']; exact hn)
        rw [t.1, r.1] at z
        rw [t0.1, r0'] at z0
        rw [z, z0]
        exact ⟨rfl, k, (m.1.trans t.1).trans r.1⟩
  | defaultValue c => exact ⟨rfl, hs, rfl⟩
  | defaultUnit c => exact ⟨rfl, hs, rfl⟩
  | findUnitCase c u => exact ⟨rfl, hs, rfl⟩
  | findSimilar u => exact ⟨rfl, hs, rfl⟩
  | checkValueFor c u x =>
    obtain ⟨v, i, r⟩ := obtain_good lg false c u s hs hn
    obtain ⟨v0, _, _⟩ := obtain_good lg false c u _ hf hnf
    simp only [answer]
    simp only at v v0 i r
    rw [v, v0]
    exact ⟨rfl, i, r⟩

/-! ### queries never touch the registry (no hypothesis at all) -/

theorem obtain_reg (s : CState) (cap : Bool) (c u : Sym) : (obtain lg s cap c u).1.reg = s.reg := by
  unfold obtain
  split
  · rfl
  · split
    · rfl
    · exact (newQuantity_ext lg s c u).1

theorem obtainU_reg (s : CState) (u : Sym) : (obtainU lg s u).1.reg = s.reg := by
  unfold obtainU
  split
  · rfl
  · split
    · rfl
    · split
      · rfl
      · split
        · rfl
        · split
          · rfl
          · exact (newQuantity_ext lg s _ _).1

theorem copies_reg (s : CState) (c1 v1 c2 v2 : Sym) : (copies lg s c1 v1 c2 v2).1.reg = s.reg := by
  unfold copies
  split
  · exact obtain_reg lg s true c1 v1
  · exact (obtain_reg lg _ true c2 v2).trans (obtain_reg lg s true c1 v1)

theorem sumSimple_reg (s : CState) (a b : QObj) (x y : Rat) : (sumSimple lg s a b x y).1.reg = s.reg := by
  unfold sumSimple
  split
  · rfl
  · split
    · rfl
    · split
      · rfl
      · split
        · split
          · rfl
          · exact copies_reg lg s _ _ _ _
        · exact copies_reg lg s _ _ _ _

theorem obtainDict_dext (s : CState) (cap : Bool) (entries : List (Sym × Sym × Int)) :
    DExt lg s (obtainDict lg s cap entries).1 := by
  unfold obtainDict
  cases simpleCase entries with
  | some cu => exact dext_of_eq lg (obtain_reg lg s cap cu.1 cu.2) (obtain_dcache lg s cap cu.1 cu.2)
  | none =>
    simp only
    cases dcacheGet s.dcache entries with
    | some d => exact dext_refl lg s
    | none =>
      simp only
      cases hnd : newDerivedChecked lg s.reg entries with
      | error e => exact dext_refl lg s
      | ok d =>
        refine ⟨rfl, ?_⟩
        intro k d' hk
        simp only [dcacheGet_cons] at hk
        split at hk
        · rename_i hkk; cases hk; subst hkk; exact Or.inr hnd
        · exact Or.inl hk

theorem createDerived_dext (s : CState) (entries : List (Sym × Sym × Int)) : DExt lg s (createDerived lg s entries).1 := by
  unfold createDerived
  cases validateEntries lg s.reg entries with
  | error e => exact dext_refl lg s
  | ok _ => exact obtainDict_dext lg s false entries

theorem prodSimple_dext (s : CState) (op : ProdOp) (a b : QObj) (x y : Rat) : DExt lg s (prodSimple lg s op a b x y).1 := by
  unfold prodSimple
  split
  · exact dext_refl lg s
  · split
    · exact dext_refl lg s
    · split
      · exact dext_refl lg s
      · split
        · exact dext_refl lg s
        · exact createDerived_dext lg s _

theorem sumDerived_dext (s : CState) (op : SumOp) (d1 d2 : DObj) (x y : Rat) : DExt lg s (sumDerived lg s op d1 d2 x y).1 := by
  unfold sumDerived
  split
  · exact dext_refl lg s
  · split
    · exact dext_refl lg s
    · split
      · exact dext_refl lg s
      · split
        · exact obtainDict_dext lg s true _
        · exact dext_trans lg (obtainDict_dext lg s true _) (obtainDict_dext lg _ true _)

theorem answer_reg (s : CState) (q : Query) : (answer lg s q).1.reg = s.reg := by
  cases q with
  | check c u => exact (check_ext lg s c u).1
  | create c u => exact obtain_reg lg s false c u
  | createU u => exact obtainU_reg lg s u
  | createC c =>
    simp only [answer]
    split
    · rfl
    · exact obtain_reg lg s false c _
  | convert cq u v x => rfl
  | objValidUnits c u => exact obtain_reg lg s false c u
  | isValid c u x => exact obtain_reg lg s false c u
  | add c1 u1 c2 u2 x y =>
    simp only [answer]
    split
    · exact obtain_reg lg s false c1 u1
    · split
      · exact (obtain_reg lg _ false c2 u2).trans (obtain_reg lg s false c1 u1)
      · exact ((sumSimple_reg lg _ _ _ x y).trans (obtain_reg lg _ false c2 u2)).trans (obtain_reg lg s false c1 u1)
  | validUnits c => rfl
  | baseUnit qt => rfl
  | units qt => rfl
  | defaultCategory u => rfl
  | quantityType u => rfl
  | catInfo c => rfl
  | allUnits => rfl
  | allUnitNames => rfl
  | unitNames qt => rfl
  | quantityTypes => rfl
  | checkQuantityType qt => rfl
  | categories => rfl
  | isValidCategory c => rfl
  | unitName qt u => rfl
  | checkQtUnit qt u => rfl
  | info qt u fu => rfl
  | getValue c u v x => exact obtain_reg lg s false c u
  | derived entries => exact (obtainDict_dext lg s false entries).1
  | createDerived entries => exact (createDerived_dext lg s entries).1
  | prod op c1 u1 c2 u2 x y =>
    simp only [answer]
    split
    · exact obtain_reg lg s false c1 u1
    · split
      · exact (obtain_reg lg _ false c2 u2).trans (obtain_reg lg s false c1 u1)
      · exact ((prodSimple_dext lg _ op _ _ x y).1.trans (obtain_reg lg _ false c2 u2)).trans (obtain_reg lg s false c1 u1)
  | sumd op e1 e2 x y =>
    simp only [answer]
    split
    · exact (obtainDict_dext lg s false e1).1
    · split
      · exact (obtainDict_dext lg _ false e2).1.trans (obtainDict_dext lg s false e1).1
      · exact ((sumDerived_dext lg _ op _ _ x y).1.trans (obtainDict_dext lg _ false e2).1).trans
          (obtainDict_dext lg s false e1).1
  | defaultValue c => rfl
  | defaultUnit c => rfl
  | findUnitCase c u => rfl
  | findSimilar u => rfl
  | checkValueFor c u x => exact obtain_reg lg s false c u

/-- no query adds a wrong entry to the derived part of the cache -/
theorem answer_dext (s : CState) (q : Query) : DExt lg s (answer lg s q).1 := by
  have ob := fun (t : CState) (cap : Bool) (c u : Sym) => dext_of_eq lg (obtain_reg lg t cap c u) (obtain_dcache lg t cap c u)
  cases q with
  | check c u => exact dext_of_eq lg (check_ext lg s c u).1 (check_dcache lg s c u)
  | create c u => exact ob s false c u
  | createU u => exact dext_of_eq lg (obtainU_reg lg s u) (obtainU_dcache lg s u)
  | createC c =>
    simp only [answer]
    split
    · exact dext_refl lg s
    · exact ob s false c _
  | convert cq u v x => exact dext_refl lg s
  | objValidUnits c u => exact ob s false c u
  | isValid c u x => exact ob s false c u
  | add c1 u1 c2 u2 x y =>
    simp only [answer]
    split
    · exact ob s false c1 u1
    · split
      · exact dext_trans lg (ob s false c1 u1) (ob _ false c2 u2)
      · exact dext_trans lg (dext_trans lg (ob s false c1 u1) (ob _ false c2 u2))
          (dext_of_eq lg (sumSimple_reg lg _ _ _ x y) (sumSimple_dcache lg _ _ _ x y))
  | validUnits c => exact dext_refl lg s
  | baseUnit qt => exact dext_refl lg s
  | units qt => exact dext_refl lg s
  | defaultCategory u => exact dext_refl lg s
  | quantityType u => exact dext_refl lg s
  | catInfo c => exact dext_refl lg s
  | allUnits => exact dext_refl lg s
  | allUnitNames => exact dext_refl lg s
  | unitNames qt => exact dext_refl lg s
  | quantityTypes => exact dext_refl lg s
  | checkQuantityType qt => exact dext_refl lg s
  | categories => exact dext_refl lg s
  | isValidCategory c => exact dext_refl lg s
  | unitName qt u => exact dext_refl lg s
  | checkQtUnit qt u => exact dext_refl lg s
  | info qt u fu => exact dext_refl lg s
  | getValue c u v x => exact ob s false c u
  | derived entries => exact obtainDict_dext lg s false entries
  | createDerived entries => exact createDerived_dext lg s entries
  | prod op c1 u1 c2 u2 x y =>
    simp only [answer]
    split
    · exact ob s false c1 u1
    · split
      · exact dext_trans lg (ob s false c1 u1) (ob _ false c2 u2)
      · exact dext_trans lg (dext_trans lg (ob s false c1 u1) (ob _ false c2 u2)) (prodSimple_dext lg _ op _ _ x y)
  | sumd op e1 e2 x y =>
    simp only [answer]
    split
    · exact obtainDict_dext lg s false e1
    · split
      · exact dext_trans lg (obtainDict_dext lg s false e1) (obtainDict_dext lg _ false e2)
      · exact dext_trans lg (dext_trans lg (obtainDict_dext lg s false e1) (obtainDict_dext lg _ false e2))
          (sumDerived_dext lg _ op _ _ x y)
  | defaultValue c => exact dext_refl lg s
  | defaultUnit c => exact dext_refl lg s
  | findUnitCase c u => exact dext_refl lg s
  | findSimilar u => exact dext_refl lg s
  | checkValueFor c u x => exact ob s false c u

/-! ### registrations whose unit symbols are not legacy spellings keep `NoLegacySyms` -/

/-- the registration does not register a unit under a legacy spelling -/
def regClean : RegOp → Bool
  | .addUnitBase _ _ (.str u) => !isLegacy lg u
  | .addUnit _ _ (.str u) _ _ _ => !isLegacy lg u
  | _ => true

theorem noLegacy_append {r : Registry} (h : NoLegacySyms lg r) {u : Sym} (info : UnitRow)
    (hu : isLegacy lg u = false) {ts : List (Sym × List UnitRow)} {cs : List CatRow} :
    NoLegacySyms lg ⟨ts, r.index ++ [(u, info)], cs⟩ := by
  intro v w hv
  simp only at hv
  rw [ixGet_append] at hv
  cases ho : ixGet r.index v with
  | some x => exact h v x ho
  | none =>
    rw [ho] at hv
    simp only at hv
    split at hv
    · rename_i huv; subst huv; exact hu
    · cases hv

theorem step_noLegacy {r : Registry} (hr : RegInv r) (h : NoLegacySyms lg r) {op : RegOp}
    (hc : regClean lg op = true) : NoLegacySyms lg (step lg r op).1 := by
  cases op with
  | addUnitBase qt name unit =>
    have : (addUnitBase r qt name unit).1 = (step lg r (.addUnitBase qt name unit)).1 := by
      simp only [step]; cases addUnitBase r qt name unit with | mk r1 o => cases o <;> rfl
    rw [← this]
    unfold addUnitBase
    rcases addInfo_spec hr qt unit (baseInfo name) with ⟨e, he⟩ | ⟨q, u, info, hqt, hun, _, _, he⟩
    · rw [he]; exact h
    · rw [he, hqt]
      subst hun
      simp only [regClean, Bool.not_eq_true'] at hc
      exact noLegacy_append lg h info hc
  | addUnit qt name unit fb tb dc =>
    have : (addUnit r qt name unit fb tb dc).1 = (step lg r (.addUnit qt name unit fb tb dc)).1 := by
      simp only [step]; cases addUnit r qt name unit fb tb dc with | mk r1 o => cases o <;> rfl
    rw [← this]
    unfold addUnit
    rcases addInfo_spec hr qt unit (mkInfo fb tb dc name) with ⟨e, he⟩ | ⟨q, u, info, _, hun, _, _, he⟩
    · rw [he]; exact h
    · rw [he]
      subst hun
      simp only [regClean, Bool.not_eq_true'] at hc
      exact noLegacy_append lg h info hc
  | addCategory a =>
    have : (addCategory lg r a).1 = (step lg r (.addCategory a)).1 := by
      simp only [step]; cases addCategory lg r a with | mk r1 o => cases o <;> rfl
    rw [← this]
    rcases addCategory_spec lg r a with ⟨e, he⟩ | ⟨c, info, _, _, _, he⟩
    · rw [he]; exact h
    · rw [he]; exact h
  | addCategoryN a0 n1 n2 n3 =>
    have : (addCategory lg r (inheritFlags r a0 n1 n2 n3)).1 = (step lg r (.addCategoryN a0 n1 n2 n3)).1 := by
      simp only [step]; cases addCategory lg r (inheritFlags r a0 n1 n2 n3) with | mk r1 o => cases o <;> rfl
    rw [← this]
    rcases addCategory_spec lg r (inheritFlags r a0 n1 n2 n3) with ⟨e, he⟩ | ⟨c, info, _, _, _, he⟩
    · rw [he]; exact h
    · rw [he]; exact h

/-! ### sessions -/

/-- the invariant of a session: well-formed registry, memo tables that agree with it, no unit
registered under a legacy spelling -/
def Inv (s : CState) : Prop := RegInv s.reg ∧ SInv lg s ∧ NoLegacySyms lg s.reg ∧ DInv lg s

theorem inv_fresh_empty : Inv lg (CState.fresh Registry.empty) :=
  ⟨regInv_empty, sinv_fresh lg _, fun u w h => by simp [CState.fresh, Registry.empty, ixGet] at h, dinv_fresh lg _⟩

/-- the step does not register a unit under a legacy spelling -/
def opClean : COp → Bool
  | .reg op => regClean lg op
  | .query _ => true

/-- the outcomes of a history when every step is asked on a database freshly built from the
registrations made so far -/
def freshOutputs (r : Registry) : List COp → List (Except ErrKind COut)
  | [] => []
  | .reg op :: ops => exMap COut.reg (step lg r op).2 :: freshOutputs (step lg r op).1 ops
  | .query q :: ops => exMap COut.ans (spec lg r q) :: freshOutputs r ops

theorem cstep_reg_out (s : CState) (op : RegOp) :
    (cstep lg s (.reg op)).2 = exMap COut.reg (step lg s.reg op).2 ∧ (cstep lg s (.reg op)).1.reg = (step lg s.reg op).1 := by
  simp only [cstep]
  cases (step lg s.reg op).2 <;> exact ⟨rfl, rfl⟩

/-! ### sessions with uninterpreted arithmetic -/

/-- the step does not register a unit under a legacy spelling -/
def xopClean : XOp → Bool
  | .base op => opClean lg op
  | .arith _ => true

/-- the outcomes of a history when every step is asked on a database freshly built from the
registrations made so far (`ar` applied to that registry for the arithmetic questions) -/
def xfreshOutputs {α : Type} (ar : Registry → VExpr → α) (r : Registry) : List XOp → List (XOut α)
  | [] => []
  | .base (.reg op) :: ops => .base (exMap COut.reg (step lg r op).2) :: xfreshOutputs ar (step lg r op).1 ops
  | .base (.query q) :: ops => .base (exMap COut.ans (spec lg r q)) :: xfreshOutputs ar r ops
  | .arith e :: ops => .val (ar r e) :: xfreshOutputs ar r ops

/-- a session history keeps the registry well-formed -/
theorem cstep_regInv {s : CState} (h : RegInv s.reg) (op : COp) : RegInv (cstep lg s op).1.reg := by
  cases op with
  | query q => simp only [cstep]; rw [answer_reg]; exact h
  | reg op =>
    have := (cstep_reg_out lg s op).2
    rw [this]
    exact step_inv lg h op

theorem crun_regInv {s : CState} (h : RegInv s.reg) (ops : List COp) : RegInv (crun lg s ops).reg := by
  induction ops generalizing s with
  | nil => exact h
  | cons op ops ih => exact ih (cstep_regInv lg h op)

/-! ### families of sessions: only the addressed member moves -/

section Family
variable {σ ι ο : Type} (f : σ → ι → σ × ο)

theorem runN_apply (s : Nat → σ) (ops : List (Nat × ι)) (i : Nat) :
    runN f s ops i = frun f (s i) (partOf i ops) := by
  induction ops generalizing s with
  | nil => rfl
  | cons op ops ih =>
    obtain ⟨j, a⟩ := op
    simp only [runN, partOf]
    rw [ih]
    by_cases h : j = i
    · subst h; simp [stepN, frun]
    · have h' : ¬ i = j := fun e => h e.symm
      simp [stepN, h, h']

theorem outputsN_part (s : Nat → σ) (ops : List (Nat × ι)) (i : Nat) :
    partOf i (outputsN f s ops) = fouts f (s i) (partOf i ops) := by
  induction ops generalizing s with
  | nil => rfl
  | cons op ops ih =>
    obtain ⟨j, a⟩ := op
    simp only [outputsN, partOf]
    by_cases h : j = i
    · subst h; simp [stepN, fouts, ih]
    · have h' : ¬ i = j := fun e => h e.symm
      simp [stepN, h, h', ih]

end Family

theorem frun_cstep (s : CState) (ops : List COp) : frun (cstep lg) s ops = crun lg s ops := by
  induction ops generalizing s with
  | nil => rfl
  | cons op ops ih => simp only [frun, crun]; exact ih _

theorem fouts_cstep (s : CState) (ops : List COp) : fouts (cstep lg) s ops = coutputs lg s ops := by
  induction ops generalizing s with
  | nil => rfl
  | cons op ops ih => simp only [fouts, coutputs]; rw [ih]

theorem frun_xstep {α : Type} (ar : Registry → VExpr → α) (s : CState) (ops : List XOp) :
    frun (xstep lg ar) s ops = xrun lg ar s ops := by
  induction ops generalizing s with
  | nil => rfl
  | cons op ops ih => simp only [frun, xrun]; exact ih _

theorem fouts_xstep {α : Type} (ar : Registry → VExpr → α) (s : CState) (ops : List XOp) :
    fouts (xstep lg ar) s ops = xoutputs lg ar s ops := by
  induction ops generalizing s with
  | nil => rfl
  | cons op ops ih => simp only [fouts, xoutputs]; rw [ih]

/-! ### sessions reporting WHICH exception a failing query raises (uninterpreted `ed`) -/

/-- the outcomes and failure details of a history when every step is asked on a database freshly built
from the registrations made so far -/
def yfreshOutputs {α δ : Type} (ar : Registry → VExpr → α) (ed : Registry → Query → δ) (r : Registry) :
    List XOp → List (XOut α × Option δ)
  | [] => []
  | op :: ops =>
    (ystep lg ar ed (CState.fresh r) op).2 :: yfreshOutputs ar ed (xstep lg ar (CState.fresh r) op).1.reg ops

theorem fouts_ystep {α δ : Type} (ar : Registry → VExpr → α) (ed : Registry → Query → δ) (s : CState)
    (ops : List XOp) : fouts (ystep lg ar ed) s ops = youtputs lg ar ed s ops := by
  induction ops generalizing s with
  | nil => rfl
  | cons op ops ih => simp only [fouts, youtputs]; rw [ih]

/-- the first components of the detailed outputs are the plain outputs -/
theorem youtputs_fst {α δ : Type} (ar : Registry → VExpr → α) (ed : Registry → Query → δ) (s : CState)
    (ops : List XOp) : (youtputs lg ar ed s ops).map (·.1) = xoutputs lg ar s ops := by
  induction ops generalizing s with
  | nil => rfl
  | cons op ops ih => simp only [youtputs, xoutputs, List.map_cons, ystep]; rw [← ih]

/-- the registry after one step on a fresh state is the registry after the step on any state over the same registry -/
theorem xstep_reg_fresh {α : Type} (ar : Registry → VExpr → α) (s : CState) (op : XOp) :
    (xstep lg ar (CState.fresh s.reg) op).1.reg = (xstep lg ar s op).1.reg := by
  cases op with
  | arith e => rfl
  | base op =>
    cases op with
    | query q => simp only [xstep, cstep, answer_reg]; rfl
    | reg op => simp only [xstep, (cstep_reg_out lg _ op).2]; rfl

end Barril.Reg
