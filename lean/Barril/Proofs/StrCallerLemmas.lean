/- helper lemmas about the caller model (`Barril/Model/StrCaller.lean`) for C20 -/
import Barril.Model.StrCaller

namespace Barril.Str

/-- no step changes a quantity that was made: `made` only grows at the end -/
theorem Caller.step_made_prefix (reg : Reg) (s : Caller) (st : CStep) :
    ∃ t, (s.step reg st).made = s.made ++ t := by
  cases st with
  | request r => exact ⟨[r.obtain reg], rfl⟩
  | again i =>
    cases h : s.held[i]? with
    | none => exact ⟨[], by simp [Caller.step, h]⟩
    | some r => exact ⟨[r.obtain reg], by simp [Caller.step, h]⟩
  | edit i ed => exact ⟨[], by simp [Caller.step]⟩
  | other q => exact ⟨[q], rfl⟩
  | arith j f =>
    cases h : s.made[j]? with
    | none => exact ⟨[], by simp [Caller.step, h]⟩
    | some r =>
      cases r with
      | ok q => exact ⟨[f q], by simp [Caller.step, h]⟩
      | error e => exact ⟨[.error e], by simp [Caller.step, h]⟩

theorem Caller.run_made_prefix (reg : Reg) (steps : List CStep) (s : Caller) :
    ∃ t, (s.run reg steps).made = s.made ++ t := by
  induction steps generalizing s with
  | nil => exact ⟨[], by simp [Caller.run]⟩
  | cons st rest ih =>
    obtain ⟨t1, h1⟩ := Caller.step_made_prefix reg s st
    obtain ⟨t2, h2⟩ := ih (s.step reg st)
    refine ⟨t1 ++ t2, ?_⟩
    have : s.run reg (st :: rest) = (s.step reg st).run reg rest := by simp [Caller.run]
    rw [this, h2, h1, List.append_assoc]

theorem Caller.run_append (reg : Reg) (s : Caller) (a b : List CStep) :
    s.run reg (a ++ b) = (s.run reg a).run reg b := by
  simp [Caller.run, List.foldl_append]

theorem Caller.step_arith_ok (reg : Reg) (s : Caller) (j : Nat) (f : Quantity → Except ErrKind Quantity) (q : Quantity)
    (h : s.made[j]? = some (.ok q)) : (s.step reg (.arith j f)).made = s.made ++ [f q] := by
  simp [Caller.step, h]

theorem Caller.run_single (reg : Reg) (s : Caller) (st : CStep) : s.run reg [st] = s.step reg st := rfl

/-- an edit makes nothing and leaves every made quantity as it is -/
theorem Caller.edit_made (reg : Reg) (s : Caller) (i : Nat) (ed : Edit) :
    (s.step reg (.edit i ed)).made = s.made := rfl

end Barril.Str
