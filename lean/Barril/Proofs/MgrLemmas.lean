/- Helper lemmas for C17 (model `Barril/Model/Mgr.lean`): the invariants of the manager and how every
modelled function moves them. -/
import Barril.Model.Mgr
import Mathlib.Data.List.Perm.Subperm
import Mathlib.Data.List.Nodup

namespace Barril.Mgr
open Barril

/-! ### invariants -/

/-- Well-formedness of a manager state; holds after EVERY history (`run_preserves_MgrWf`). -/
structure MgrWf (m : Mgr) : Prop where
  /-- address 0 is the null system (id `None`) -/
  null : ∃ o, m.heap[0]? = some o ∧ o.id = none
  /-- every registry entry points to an existing object that carries the id it is registered under -/
  reg_own : ∀ id a, (id, a) ∈ m.reg → ∃ o, m.heap[a]? = some o ∧ o.id = some id
  /-- ids are unique -/
  ids_nodup : (m.reg.map (·.1)).Nodup
  /-- `_current` is an existing object -/
  cur_valid : ∀ c, m.cur = some c → c < m.heap.length
  /-- the manager listens to default-unit changes of exactly one object: the current one -/
  listen : ∀ a o, m.heap[a]? = some o → (o.listening = true ↔ m.cur = some a)

/-- "the current system is a registered system or none (then the null system is shown)" -/
def CurRegistered (m : Mgr) : Prop := ∀ c, m.cur = some c → ∃ id, (id, c) ∈ m.reg

/-- The invariant of the property text. -/
structure MgrInv (m : Mgr) : Prop where
  wf : MgrWf m
  cur_reg : CurRegistered m

/-- the argument of a `SetCurrent` call is `None` or a system that is registered at that moment
(what the known finding C17-setcurrent-unregistered is about); every other call is unrestricted -/
def Op.guarded (m : Mgr) : Op → Prop
  | .setCurrent (some a) => ∃ id, (id, a) ∈ m.reg
  | _ => True

theorem init_wf : MgrWf Mgr.init := by
  refine ⟨⟨nullSys, rfl, rfl⟩, ?_, ?_, ?_, ?_⟩
  · intro id a h; cases h
  · exact List.nodup_nil
  · intro c h; cases h
  · intro a o h
    have : a = 0 ∧ o = nullSys := by
      cases a with
      | zero => simp [Mgr.init] at h; exact ⟨rfl, h.symm⟩
      | succ n => simp [Mgr.init] at h
    obtain ⟨rfl, rfl⟩ := this
    simp [nullSys, USys.new, Mgr.init]

theorem init_inv : MgrInv Mgr.init := ⟨init_wf, by intro c h; cases h⟩

/-! ### `UpdateObjects` touches only the value objects -/

@[simp] theorem updateObjects_heap (m : Mgr) : (updateObjects m).heap = m.heap := rfl
@[simp] theorem updateObjects_reg (m : Mgr) : (updateObjects m).reg = m.reg := rfl
@[simp] theorem updateObjects_cur (m : Mgr) : (updateObjects m).cur = m.cur := rfl
@[simp] theorem updateObjects_tmpl (m : Mgr) : (updateObjects m).tmpl = m.tmpl := rfl
@[simp] theorem updateObjects_obsCur (m : Mgr) : (updateObjects m).obsCur = m.obsCur := rfl
@[simp] theorem updateObjects_obsUnit (m : Mgr) : (updateObjects m).obsUnit = m.obsUnit := rfl
theorem updateObjects_objs (m : Mgr) : (updateObjects m).objs = m.objs.map (VObj.refresh m.curSys) := rfl

/-! ### listener registration -/

theorem length_setListening (h : List USys) (a : Nat) (b : Bool) : (setListening h a b).length = h.length := by
  unfold setListening; simp

theorem getElem?_setListening (h : List USys) (a i : Nat) (b : Bool) :
    (setListening h a b)[i]? = (h[i]?).map (fun o => if a = i then { o with listening := b } else o) := by
  unfold setListening
  grind

theorem length_unregisterCurrent (m : Mgr) : (unregisterCurrent m).length = m.heap.length := by
  unfold unregisterCurrent
  split
  · rfl
  · exact length_setListening _ _ _

/-- after the first statement of `SetCurrent` nobody is listened to; nothing else changed -/
theorem getElem?_unregisterCurrent {m : Mgr} (hw : MgrWf m) (i : Nat) :
    (unregisterCurrent m)[i]? = (m.heap[i]?).map (fun o => { o with listening := false }) := by
  unfold unregisterCurrent
  cases hc : m.cur with
  | none =>
    simp only
    cases ho : m.heap[i]? with
    | none => rfl
    | some o =>
      have := (hw.listen i o ho)
      rw [hc] at this
      have hl : o.listening = false := by
        cases hb : o.listening with
        | false => rfl
        | true => exact absurd (this.mp hb) (by simp)
      simp only [Option.map_some]
      congr 1
      cases o; simp_all
  | some c =>
    simp only [getElem?_setListening]
    cases ho : m.heap[i]? with
    | none => rfl
    | some o =>
      simp only [Option.map_some]
      congr 1
      by_cases hci : c = i
      · simp [hci]
      · have := (hw.listen i o ho)
        rw [hc] at this
        have hl : o.listening = false := by
          cases hb : o.listening with
          | false => rfl
          | true => exact absurd (this.mp hb) (by simp; exact hci)
        simp only [hci, ↓reduceIte]
        cases o; simp_all

/-- the heap after `SetCurrent(x)`: the only listening bit set is the one of the new current system -/
theorem getElem?_setCurrent {m : Mgr} (hw : MgrWf m) (x : Option Nat) (i : Nat) :
    (setCurrent m x).1.heap[i]? = (m.heap[i]?).map (fun o => { o with listening := decide (x = some i) }) := by
  cases x with
  | none =>
    simp only [setCurrent, updateObjects_heap, getElem?_unregisterCurrent hw]
    simp
  | some a =>
    simp only [setCurrent, updateObjects_heap, getElem?_setListening, getElem?_unregisterCurrent hw]
    cases m.heap[i]? with
    | none => rfl
    | some o =>
      simp only [Option.map_some]
      congr 1
      by_cases h : a = i <;> simp [h]

theorem length_setCurrent (m : Mgr) (x : Option Nat) : (setCurrent m x).1.heap.length = m.heap.length := by
  cases x <;> simp [setCurrent, length_setListening, length_unregisterCurrent]

theorem setCurrent_cur (m : Mgr) (x : Option Nat) : (setCurrent m x).1.cur = x := by
  cases x <;> rfl

theorem setCurrent_reg (m : Mgr) (x : Option Nat) : (setCurrent m x).1.reg = m.reg := by
  cases x <;> rfl

theorem setCurrent_tmpl (m : Mgr) (x : Option Nat) : (setCurrent m x).1.tmpl = m.tmpl := by
  cases x <;> rfl

/-- `SetCurrent` notifies `on_current` exactly once, with the new current system (null = address 0) -/
theorem setCurrent_log (m : Mgr) (x : Option Nat) :
    (setCurrent m x).2 = [.current (match x with | none => 0 | some a => a)] := by
  cases x <;> rfl

/-- `SetCurrent` of `None` or of an existing object keeps the state well-formed -/
theorem setCurrent_wf {m : Mgr} (hw : MgrWf m) (x : Option Nat) (hx : ∀ a, x = some a → a < m.heap.length) :
    MgrWf (setCurrent m x).1 := by
  refine ⟨?_, ?_, ?_, ?_, ?_⟩
  · obtain ⟨o, ho, hid⟩ := hw.null
    refine ⟨{ o with listening := decide (x = some 0) }, ?_, hid⟩
    rw [getElem?_setCurrent hw, ho]; rfl
  · intro id a h
    rw [setCurrent_reg] at h
    obtain ⟨o, ho, hid⟩ := hw.reg_own id a h
    refine ⟨{ o with listening := decide (x = some a) }, ?_, hid⟩
    rw [getElem?_setCurrent hw, ho]; rfl
  · rw [setCurrent_reg]; exact hw.ids_nodup
  · intro c hc
    rw [setCurrent_cur] at hc
    rw [length_setCurrent]
    exact hx c hc
  · intro a o ho
    rw [getElem?_setCurrent hw] at ho
    rw [setCurrent_cur]
    cases hh : m.heap[a]? with
    | none => rw [hh] at ho; cases ho
    | some o0 =>
      rw [hh] at ho
      simp only [Option.map_some, Option.some.injEq] at ho
      subst ho
      simp

/-! ### registry -/

theorem regHas_iff (reg : List (Sym × Nat)) (id : Sym) : regHas reg id = true ↔ id ∈ reg.map (·.1) := by
  unfold regHas
  simp only [List.any_eq_true, beq_iff_eq, List.mem_map]

theorem regHas_false_iff (reg : List (Sym × Nat)) (id : Sym) : regHas reg id = false ↔ id ∉ reg.map (·.1) := by
  rw [← regHas_iff]; simp

theorem mem_regErase {reg : List (Sym × Nat)} {id id' : Sym} {a : Nat} :
    (id', a) ∈ regErase reg id ↔ (id', a) ∈ reg ∧ id' ≠ id := by
  unfold regErase; simp

theorem regGet_some {reg : List (Sym × Nat)} {id : Sym} {a : Nat} (h : regGet reg id = some a) :
    (id, a) ∈ reg := by
  unfold regGet at h
  cases hf : reg.find? (·.1 == id) with
  | none => rw [hf] at h; cases h
  | some p =>
    rw [hf] at h
    simp only [Option.map_some, Option.some.injEq] at h
    have hm := List.mem_of_find?_eq_some hf
    have hp := List.find?_some hf
    simp only [beq_iff_eq] at hp
    cases p; simp_all

theorem regGet_none {reg : List (Sym × Nat)} {id : Sym} (h : regGet reg id = none) :
    id ∉ reg.map (·.1) := by
  unfold regGet at h
  simp only [Option.map_eq_none_iff, List.find?_eq_none, beq_iff_eq] at h
  intro hm
  obtain ⟨p, hp, he⟩ := List.mem_map.mp hm
  exact h p hp he

/-- `self._unit_systems[id] = UnitSystem(..)` for an unused id keeps the state well-formed -/
theorem register_wf {m : Mgr} (hw : MgrWf m) {id : Sym} (hid : id ∉ m.reg.map (·.1)) (cap : Sym)
    (d : List (Sym × Sym)) (ro : Bool) : MgrWf (m.register id cap d ro) := by
  obtain ⟨o0, ho0, hid0⟩ := hw.null
  have hpos : 0 < m.heap.length := by
    cases hh : m.heap with
    | nil => rw [hh] at ho0; cases ho0
    | cons x xs => simp
  refine ⟨⟨o0, ?_, hid0⟩, ?_, ?_, ?_, ?_⟩
  · simp only [Mgr.register]; rw [List.getElem?_append_left hpos]; exact ho0
  · intro id' a h
    simp only [Mgr.register, List.mem_append, List.mem_singleton, Prod.mk.injEq] at h
    rcases h with h | ⟨rfl, rfl⟩
    · obtain ⟨o, ho, hoid⟩ := hw.reg_own id' a h
      refine ⟨o, ?_, hoid⟩
      have hlt : a < m.heap.length := by
        rcases Nat.lt_or_ge a m.heap.length with h' | h'
        · exact h'
        · rw [List.getElem?_eq_none h'] at ho; cases ho
      simp only [Mgr.register]; rw [List.getElem?_append_left hlt]; exact ho
    · exact ⟨USys.new (some id') cap d ro, by simp [Mgr.register], rfl⟩
  · simp only [Mgr.register, List.map_append, List.map_cons, List.map_nil]
    rw [List.nodup_append]
    refine ⟨hw.ids_nodup, by simp, ?_⟩
    intro a ha b hb
    simp only [List.mem_singleton] at hb
    subst hb
    intro e; subst e; exact hid ha
  · intro c hc
    have := hw.cur_valid c hc
    simp only [Mgr.register, List.length_append, List.length_cons, List.length_nil]
    omega
  · intro a o ho
    simp only [Mgr.register] at ho ⊢
    rcases Nat.lt_or_ge a m.heap.length with h' | h'
    · rw [List.getElem?_append_left h'] at ho
      exact hw.listen a o ho
    · rw [List.getElem?_append_right h'] at ho
      have ha : a = m.heap.length := by
        rcases Nat.eq_or_lt_of_le h' with e | l
        · exact e.symm
        · have : 1 ≤ a - m.heap.length := by omega
          rw [List.getElem?_eq_none (by simpa using this)] at ho; cases ho
      subst ha
      simp only [Nat.sub_self, List.getElem?_cons_zero, Option.some.injEq] at ho
      subst ho
      constructor
      · intro h; cases h
      · intro h; have := hw.cur_valid _ h; omega

theorem unregister_wf {m : Mgr} (hw : MgrWf m) (id : Sym) : MgrWf (m.unregister id) := by
  refine ⟨hw.null, ?_, ?_, hw.cur_valid, hw.listen⟩
  · intro id' a h
    exact hw.reg_own id' a (mem_regErase.mp h).1
  · exact List.Nodup.sublist (List.Sublist.map _ List.filter_sublist) hw.ids_nodup

/-- what `RemoveUnitSystem` selects next is a (still) registered system, or none -/
theorem nextCurrent_mem {reg : List (Sym × Nat)} {a : Nat} (h : nextCurrent reg = some a) :
    ∃ id, (id, a) ∈ reg := by
  cases reg with
  | nil => cases h
  | cons p r =>
    simp only [nextCurrent, Option.some.injEq] at h
    exact ⟨p.1, by subst h; simp⟩

theorem reg_addr_lt {m : Mgr} (hw : MgrWf m) {id : Sym} {a : Nat} (h : (id, a) ∈ m.reg) : a < m.heap.length := by
  obtain ⟨o, ho, _⟩ := hw.reg_own id a h
  rcases Nat.lt_or_ge a m.heap.length with h' | h'
  · exact h'
  · rw [List.getElem?_eq_none h'] at ho; cases ho

/-- replacing an object by one with the same id and the same listener keeps the state well-formed -/
theorem set_wf {m : Mgr} (hw : MgrWf m) {a : Nat} {o o' : USys} (ho : m.heap[a]? = some o)
    (hid : o'.id = o.id) (hl : o'.listening = o.listening) : MgrWf { m with heap := m.heap.set a o' } := by
  have halt : a < m.heap.length := by
    rcases Nat.lt_or_ge a m.heap.length with h' | h'
    · exact h'
    · rw [List.getElem?_eq_none h'] at ho; cases ho
  have key : ∀ (i : Nat) (x : USys), m.heap[i]? = some x → ∃ x' : USys, (m.heap.set a o')[i]? = some x' ∧ x'.id = x.id ∧ x'.listening = x.listening := by
    intro i x hx
    rw [List.getElem?_set]
    by_cases hai : a = i
    · subst hai
      simp only [↓reduceIte, halt]
      rw [ho] at hx
      simp only [Option.some.injEq] at hx
      subst hx
      exact ⟨o', rfl, hid, hl⟩
    · simp only [hai, ↓reduceIte]
      exact ⟨x, hx, rfl, rfl⟩
  refine ⟨?_, ?_, hw.ids_nodup, ?_, ?_⟩
  · obtain ⟨o0, ho0, hid0⟩ := hw.null
    obtain ⟨x', hx', hxid, _⟩ := key 0 o0 ho0
    exact ⟨x', hx', by rw [hxid]; exact hid0⟩
  · intro id b h
    obtain ⟨x, hx, hxid⟩ := hw.reg_own id b h
    obtain ⟨x', hx', hxid', _⟩ := key b x hx
    exact ⟨x', hx', by rw [hxid']; exact hxid⟩
  · intro c hc
    simp only [List.length_set]
    exact hw.cur_valid c hc
  · intro i x' hx'
    simp only at hx' ⊢
    have hilt : i < m.heap.length := by
      rcases Nat.lt_or_ge i m.heap.length with h' | h'
      · exact h'
      · rw [List.getElem?_eq_none (by simpa using h')] at hx'; cases hx'
    obtain ⟨x, hx⟩ : ∃ x, m.heap[i]? = some x := ⟨m.heap[i], List.getElem?_eq_getElem hilt⟩
    obtain ⟨x'', hx'', _, hxl⟩ := key i x hx
    rw [hx''] at hx'
    simp only [Option.some.injEq] at hx'
    subst hx'
    rw [hxl]
    exact hw.listen i x hx

/-! ### dicts -/

theorem dhas_iff (d : Dict) (k : Sym) : dhas d k = true ↔ k ∈ dkeys d := by
  induction d with
  | nil => simp [dhas, dkeys]
  | cons p r ih =>
    obtain ⟨k', v⟩ := p
    simp only [dhas, Bool.or_eq_true, beq_iff_eq, ih, dkeys, List.map_cons, List.mem_cons]
    constructor
    · rintro (h | h)
      · exact Or.inl h.symm
      · exact Or.inr h
    · rintro (h | h)
      · exact Or.inl h.symm
      · exact Or.inr h

theorem covers_iff (d : Dict) (req : List Sym) : covers d req = true ↔ ∀ k ∈ req, k ∈ dkeys d := by
  unfold covers
  simp only [List.all_eq_true, dhas_iff]

/-! ### the calls, one by one -/

theorem with_tmpl_wf {m : Mgr} (hw : MgrWf m) (t : Option USys) : MgrWf { m with tmpl := t } :=
  ⟨hw.null, hw.reg_own, hw.ids_nodup, hw.cur_valid, hw.listen⟩

theorem setTemplate_wf {m : Mgr} (hw : MgrWf m) (mp : List (Sym × Sym)) : MgrWf (setTemplate m mp).mgr := by
  unfold setTemplate
  split
  · exact with_tmpl_wf hw _
  · exact hw

theorem register_heap_length (m : Mgr) (id cap : Sym) (d : List (Sym × Sym)) (ro : Bool) :
    (m.register id cap d ro).heap.length = m.heap.length + 1 := by
  simp [Mgr.register]

theorem addUnitSystem_wf {m : Mgr} (hw : MgrWf m) (id cap : Sym) (mp : Option (List (Sym × Sym))) (ro : Bool) :
    MgrWf (addUnitSystem m id cap mp ro).mgr := by
  unfold addUnitSystem
  split
  · exact hw
  · rename_i hid
    have hid' : id ∉ m.reg.map (·.1) := (regHas_false_iff _ _).mp (by simpa using hid)
    split
    · exact hw
    · rename_i d _
      split
      · apply setCurrent_wf (register_wf hw hid' cap d ro)
        intro a ha
        cases ha
        rw [register_heap_length]; omega
      · exact register_wf hw hid' cap d ro

theorem removeUnitSystem_wf {m : Mgr} (hw : MgrWf m) (id : Sym) : MgrWf (removeUnitSystem m id).mgr := by
  unfold removeUnitSystem
  split
  · exact hw
  · split
    · apply setCurrent_wf (unregister_wf hw id)
      intro a ha
      obtain ⟨id', hm⟩ := nextCurrent_mem ha
      exact reg_addr_lt (unregister_wf hw id) hm
    · exact unregister_wf hw id

theorem setDefaultUnit_wf {m : Mgr} (hw : MgrWf m) (a : Nat) (c u : Sym) : MgrWf (setDefaultUnit m a c u).mgr := by
  unfold setDefaultUnit
  split
  · exact hw
  · rename_i o ho
    exact set_wf hw ho rfl rfl

theorem removeCategory_wf {m : Mgr} (hw : MgrWf m) (a : Nat) (c : Sym) : MgrWf (removeCategory m a c).mgr := by
  unfold removeCategory
  split
  · exact hw
  · rename_i o ho
    split
    · exact set_wf hw ho rfl rfl
    · exact hw


/-! ### value objects, observers, caption / read-only flag -/

theorem with_objs_wf {m : Mgr} (hw : MgrWf m) (l : List VObj) : MgrWf { m with objs := l } :=
  ⟨hw.null, hw.reg_own, hw.ids_nodup, hw.cur_valid, hw.listen⟩

theorem with_obs_wf {m : Mgr} (hw : MgrWf m) (a b : Bool) : MgrWf { m with obsCur := a, obsUnit := b } :=
  ⟨hw.null, hw.reg_own, hw.ids_nodup, hw.cur_valid, hw.listen⟩

theorem updateObjects_wf {m : Mgr} (hw : MgrWf m) : MgrWf (updateObjects m) := with_objs_wf hw _

theorem registerNew_wf {m : Mgr} (hw : MgrWf m) (c u : Sym) : MgrWf (registerNew m c u).mgr := with_objs_wf hw _

theorem registerAgain_wf {m : Mgr} (hw : MgrWf m) (i : Nat) : MgrWf (registerAgain m i).mgr := by
  unfold registerAgain
  split
  · exact hw
  · split
    · exact with_objs_wf hw _
    · exact hw

theorem killObj_wf {m : Mgr} (hw : MgrWf m) (i : Nat) : MgrWf (killObj m i).mgr := by
  unfold killObj
  split
  · exact hw
  · exact with_objs_wf hw _

theorem objSetUnit_wf {m : Mgr} (hw : MgrWf m) (i : Nat) (u : Sym) : MgrWf (objSetUnit m i u).mgr := by
  unfold objSetUnit
  split
  · exact hw
  · split
    · exact with_objs_wf hw _
    · exact hw

theorem setCaption_wf {m : Mgr} (hw : MgrWf m) (a : Nat) (cap : Sym) : MgrWf (setCaption m a cap).mgr := by
  unfold setCaption
  split
  · exact hw
  · rename_i o ho
    exact set_wf hw ho rfl rfl

theorem setReadOnly_wf {m : Mgr} (hw : MgrWf m) (a : Nat) (b : Bool) : MgrWf (setReadOnly m a b).mgr := by
  unfold setReadOnly
  split
  · exact hw
  · rename_i o ho
    exact set_wf hw ho rfl rfl

/-- the calls on value objects, observers and the flags of a unit system: they never touch `_current`, the
registry or the template and invoke no callback -/
def Op.isAux : Op → Bool
  | .register .. | .registerAgain .. | .kill .. | .objSetUnit .. | .updateObjects | .resetInstance
  | .observeCurrent | .observeUnit | .setCaption .. | .setReadOnly .. => true
  | _ => false

theorem step_aux (db : Db) (m : Mgr) {op : Op} (ha : op.isAux = true) :
    (step db m op).mgr.cur = m.cur ∧ (step db m op).mgr.reg = m.reg ∧ (step db m op).mgr.tmpl = m.tmpl ∧
    (step db m op).log = [] := by
  cases op <;> simp only [Op.isAux, Bool.false_eq_true] at ha <;>
    simp only [step, registerNew, registerAgain, killObj, objSetUnit, resetInstance, setCaption, setReadOnly]
  all_goals (repeat' split) <;> first | exact ⟨rfl, rfl, rfl, rfl⟩ | simp

theorem step_aux_wf (db : Db) {m : Mgr} (hw : MgrWf m) {op : Op} (ha : op.isAux = true) : MgrWf (step db m op).mgr := by
  cases op <;> simp only [Op.isAux, Bool.false_eq_true] at ha
  · exact registerNew_wf hw _ _
  · exact registerAgain_wf hw _
  · exact killObj_wf hw _
  · exact objSetUnit_wf hw _ _
  · exact updateObjects_wf hw
  · exact with_obs_wf hw _ _
  · exact with_obs_wf hw true m.obsUnit
  · exact with_obs_wf hw m.obsCur true
  · exact setCaption_wf hw _ _
  · exact setReadOnly_wf hw _ _

/-! #### how the manager rewrites one object -/

theorem update_alive (s : USys) (o : VObj) : (o.update s).alive = o.alive := by
  unfold VObj.update
  split
  · split <;> rfl
  · rfl

theorem update_wraps (s : USys) (o : VObj) : (o.update s).wraps = o.wraps := by
  unfold VObj.update
  split
  · split <;> rfl
  · rfl

theorem update_cat (s : USys) (o : VObj) : (o.update s).cat = o.cat := by
  unfold VObj.update
  split
  · split <;> rfl
  · rfl

theorem refresh_alive (s : Option USys) (o : VObj) : (VObj.refresh s o).alive = o.alive := by
  cases s <;> simp [VObj.refresh, update_alive]

theorem refresh_wraps (s : Option USys) (o : VObj) : (VObj.refresh s o).wraps = o.wraps := by
  cases s <;> simp [VObj.refresh, update_wraps]

theorem refresh_cat (s : Option USys) (o : VObj) : (VObj.refresh s o).cat = o.cat := by
  cases s <;> simp [VObj.refresh, update_cat]

/-- bringing an object to a system twice is the same as once -/
theorem update_idem (s : USys) (o : VObj) : (o.update s).update s = o.update s := by
  unfold VObj.update
  cases ha : o.alive with
  | false => simp [ha]
  | true =>
    cases hd : s.getDefaultUnit o.cat with
    | none => simp [ha, hd]
    | some u => simp [hd]

theorem refresh_idem (s : Option USys) (o : VObj) : VObj.refresh s (VObj.refresh s o) = VObj.refresh s o := by
  cases s with
  | none => rfl
  | some s => exact update_idem s o

/-! #### weak references: `_object_refs` holds wraps of live objects only -/

/-- a live registered object has at least one wrap, a dead one has none left -/
def VObj.ok (o : VObj) : Prop := (o.alive = true → 1 ≤ o.wraps) ∧ (o.alive = false → o.wraps = 0)

/-- "an object that died is dropped" as a state invariant -/
def ObjsWf (m : Mgr) : Prop := ∀ o ∈ m.objs, o.ok

theorem refresh_ok {s : Option USys} {o : VObj} (h : o.ok) : (VObj.refresh s o).ok := by
  unfold VObj.ok at h ⊢
  rw [refresh_alive, refresh_wraps]; exact h

theorem init_objsWf : ObjsWf Mgr.init := by intro o h; cases h

theorem objsWf_map_refresh {l : List VObj} (s : Option USys) (h : ∀ o ∈ l, o.ok) :
    ∀ o ∈ l.map (VObj.refresh s), o.ok := by
  intro o ho
  obtain ⟨o', ho', rfl⟩ := List.mem_map.mp ho
  exact refresh_ok (h o' ho')

theorem objsWf_set {l : List VObj} (h : ∀ o ∈ l, o.ok) (i : Nat) {o' : VObj} (ho' : o'.ok) :
    ∀ o ∈ l.set i o', o.ok := by
  intro o ho
  rcases List.mem_or_eq_of_mem_set ho with h1 | h1
  · exact h o h1
  · subst h1; exact ho'

theorem setCurrent_objs (m : Mgr) (x : Option Nat) :
    (setCurrent m x).1.objs = m.objs.map (VObj.refresh (setCurrent m x).1.curSys) := by
  cases x <;> rfl

theorem setCurrent_obsCur (m : Mgr) (x : Option Nat) : (setCurrent m x).1.obsCur = m.obsCur := by
  cases x <;> rfl

theorem setCurrent_obsUnit (m : Mgr) (x : Option Nat) : (setCurrent m x).1.obsUnit = m.obsUnit := by
  cases x <;> rfl

theorem setCurrent_objsWf {m : Mgr} (h : ObjsWf m) (x : Option Nat) : ObjsWf (setCurrent m x).1 := by
  unfold ObjsWf
  rw [setCurrent_objs]
  exact objsWf_map_refresh _ h

/-- the calls that only read (and `SetDefaultUnitSystemClass`, which changes nothing that is modelled) -/
def Op.isQuery : Op → Bool
  | .getDefaultUnit .. | .sysEq .. | .convertToCurrent .. | .convertScalarToCurrent ..
  | .getCategoryDefaultUnit .. | .getQuantityDefaultUnit .. | .getNewId | .getById .. | .getUnitSystems
  | .getCurrent | .sysEqOther .. | .setSystemClass .. => true
  | _ => false

/-- a reading call changes nothing and notifies nobody -/
theorem step_query (db : Db) (m : Mgr) {op : Op} (hq : op.isQuery = true) :
    (step db m op).mgr = m ∧ (step db m op).log = [] := by
  cases op <;> simp only [Op.isQuery, Bool.false_eq_true] at hq <;> simp only [step]
  all_goals (repeat' split) <;> exact ⟨rfl, rfl⟩

/-! ### acceptance -/

theorem resolveMapping_ok_iff (tmpl : Option USys) (mp : Option (List (Sym × Sym))) :
    (∃ d, resolveMapping tmpl mp = .ok d) ↔
      ∀ t d, tmpl = some t → mp = some d → ∀ k ∈ dkeys t.mapping, k ∈ dkeys d := by
  cases tmpl with
  | none => cases mp <;> simp [resolveMapping]
  | some t =>
    cases mp with
    | none => simp [resolveMapping]
    | some d =>
      simp only [resolveMapping]
      by_cases hc : covers d (dkeys t.mapping) = true
      · simp only [hc, ↓reduceIte]
        constructor
        · intro _ t' d' ht hd
          cases ht; cases hd
          exact (covers_iff _ _).mp hc
        · intro _; exact ⟨d, rfl⟩
      · simp only [hc]
        constructor
        · rintro ⟨d', h⟩; cases h
        · intro h
          exact absurd ((covers_iff _ _).mpr (h t d rfl rfl)) hc

theorem resolveMapping_error_kind {tmpl : Option USys} {mp : Option (List (Sym × Sym))} {e : ErrKind}
    (h : resolveMapping tmpl mp = .error e) : e = .key := by
  cases tmpl <;> cases mp <;> simp only [resolveMapping] at h
  · cases h
  · cases h
  · cases h
  · split at h
    · cases h
    · cases h; rfl

theorem addUnitSystem_accepted {m : Mgr} {id cap : Sym} {mp : Option (List (Sym × Sym))} {ro : Bool}
    {d : List (Sym × Sym)} (h1 : regHas m.reg id = false) (h2 : resolveMapping m.tmpl mp = .ok d) :
    addUnitSystem m id cap mp ro =
      match m.cur with
      | none =>
        ⟨(setCurrent (m.register id cap d ro) (some m.heap.length)).1, .ok (.sys m.heap.length),
         (setCurrent (m.register id cap d ro) (some m.heap.length)).2⟩
      | some _ => ⟨m.register id cap d ro, .ok (.sys m.heap.length), []⟩ := by
  simp only [addUnitSystem, h1, h2, Bool.false_eq_true, ↓reduceIte]
  cases m.cur <;> rfl

theorem addUnitSystem_out (m : Mgr) (id cap : Sym) (mp : Option (List (Sym × Sym))) (ro : Bool) :
    (addUnitSystem m id cap mp ro).out =
      if regHas m.reg id then .error .key else
      match resolveMapping m.tmpl mp with
      | .error e => .error e
      | .ok _ => .ok (.sys m.heap.length) := by
  by_cases h1 : regHas m.reg id = true
  · simp [addUnitSystem, h1, Res.reject]
  · have h1' : regHas m.reg id = false := by simpa using h1
    cases h2 : resolveMapping m.tmpl mp with
    | error e => simp [addUnitSystem, h1', h2, Res.reject]
    | ok d =>
      rw [addUnitSystem_accepted h1' h2]
      cases m.cur <;> simp [h1']

theorem removeUnitSystem_out (m : Mgr) (id : Sym) :
    (removeUnitSystem m id).out = if regHas m.reg id then .ok .none else .error .key := by
  unfold removeUnitSystem
  by_cases h1 : regHas m.reg id = true
  · simp only [h1, Bool.not_true, Bool.false_eq_true, ↓reduceIte]
    split <;> rfl
  · have h1' : regHas m.reg id = false := by simpa using h1
    simp [h1', Res.reject]

/-- the current system's id is `id` exactly when the current system is the one registered as `id` -/
theorem currentId_eq_iff {m : Mgr} (hw : MgrWf m) {id : Sym} {c : Nat} (hc : m.cur = some c)
    (hreg : ∃ id', (id', c) ∈ m.reg) : m.currentId = some id ↔ (id, c) ∈ m.reg := by
  obtain ⟨id', hm⟩ := hreg
  obtain ⟨o, ho, hoid⟩ := hw.reg_own id' c hm
  have : m.currentId = some id' := by simp [Mgr.currentId, hc, ho, hoid]
  rw [this]
  constructor
  · intro e; cases e; exact hm
  · intro h
    obtain ⟨o2, ho2, hoid2⟩ := hw.reg_own id c h
    rw [ho] at ho2; cases ho2
    rw [hoid] at hoid2; exact hoid2

theorem currentId_some_cur {m : Mgr} {id : Sym} (h : m.currentId = some id) : m.cur.isSome = true := by
  unfold Mgr.currentId at h
  cases hc : m.cur with
  | none => rw [hc] at h; cases h
  | some c => rfl

theorem currentAddr_setCurrent (m : Mgr) (x : Option Nat) :
    (setCurrent m x).1.currentAddr = (match x with | none => 0 | some a => a) := by
  cases x <;> rfl

/-! ### `GetNewId` -/

/-- value of a most-significant-first list of ASCII digits -/
def decValue (l : List Nat) : Nat := l.foldl (fun acc d => 10 * acc + (d - 48)) 0

theorem decValue_append (l : List Nat) (d : Nat) : decValue (l ++ [d]) = 10 * decValue l + (d - 48) := by
  simp [decValue, List.foldl_append]

theorem decValue_decDigitsFuel (f n : Nat) (h : n < f) : decValue (decDigitsFuel f n) = n := by
  induction f generalizing n with
  | zero => omega
  | succ f ih =>
    simp only [decDigitsFuel]
    split
    · simp [decValue]
    · rename_i h10
      rw [decValue_append, ih (n / 10) (by omega)]
      omega

theorem decValue_decDigits (n : Nat) : decValue (decDigits n) = n :=
  decValue_decDigitsFuel (n + 1) n (by omega)

theorem decDigitsFuel_range (f n : Nat) : ∀ d ∈ decDigitsFuel f n, 48 ≤ d ∧ d ≤ 57 := by
  induction f generalizing n with
  | zero => intro d hd; simp [decDigitsFuel] at hd
  | succ f ih =>
    intro d hd
    simp only [decDigitsFuel] at hd
    split at hd
    · simp only [List.mem_singleton] at hd; omega
    · simp only [List.mem_append, List.mem_singleton] at hd
      rcases hd with hd | hd
      · exact ih _ d hd
      · omega

theorem decDigits_injective {a b : Nat} (h : decDigits a = decDigits b) : a = b := by
  rw [← decValue_decDigits a, ← decValue_decDigits b, h]

theorem byte_split {d d' X Y : Nat} (h1 : d < 256) (h2 : d' < 256) (h : d + 256 * X = d' + 256 * Y) :
    d = d' ∧ X = Y := by omega

/-- two byte strings without NUL bytes have the same code only if they are equal -/
theorem ofBytes_injective : ∀ (a b : List Nat), (∀ d ∈ a, 1 ≤ d ∧ d < 256) → (∀ d ∈ b, 1 ≤ d ∧ d < 256) →
    Sym.ofBytes a = Sym.ofBytes b → a = b
  | [], [], _, _, _ => rfl
  | [], d :: r, _, hb, h => by
    have := hb d (by simp)
    have h' : (0 : Nat) = d + 256 * Sym.ofBytes r := h
    omega
  | d :: r, [], ha, _, h => by
    have := ha d (by simp)
    have h' : d + 256 * Sym.ofBytes r = (0 : Nat) := h
    omega
  | d :: r, d' :: r', ha, hb, h => by
    have h1 := ha d (by simp)
    have h2 := hb d' (by simp)
    obtain ⟨hd, hr⟩ := byte_split (X := Sym.ofBytes r) (Y := Sym.ofBytes r') h1.2 h2.2 h
    rw [hd, ofBytes_injective r r' (fun x hx => ha x (by simp [hx])) (fun x hx => hb x (by simp [hx])) hr]

/-- distinct counters give distinct candidate ids -/
theorem newIdCandidate_injective {a b : Nat} (h : newIdCandidate a = newIdCandidate b) : a = b := by
  unfold newIdCandidate at h
  have hpre : ∀ d ∈ systemPrefix, 1 ≤ d ∧ d < 256 := by decide
  have hdig : ∀ n, ∀ d ∈ decDigits n, 1 ≤ d ∧ d < 256 := by
    intro n d hd
    have := decDigitsFuel_range (n + 1) n d hd
    omega
  have hall : ∀ n, ∀ d ∈ systemPrefix ++ decDigits n, 1 ≤ d ∧ d < 256 := by
    intro n d hd
    rcases List.mem_append.mp hd with h' | h'
    · exact hpre d h'
    · exact hdig n d h'
  have := ofBytes_injective _ _ (hall a) (hall b) h
  exact decDigits_injective (List.append_cancel_left this)

/-- the loop returns an id that is not in use, having found all smaller candidates in use -/
theorem findNewId_some {fuel count : Nat} {ids : List Sym} {s : Sym} (h : findNewId fuel count ids = some s) :
    s ∉ ids ∧ ∃ n, count ≤ n ∧ s = newIdCandidate n ∧ ∀ k, count ≤ k → k < n → newIdCandidate k ∈ ids := by
  induction fuel generalizing count with
  | zero => cases h
  | succ fuel ih =>
    simp only [findNewId] at h
    split at h
    · rename_i hc
      obtain ⟨hs, n, hn, hsn, hall⟩ := ih h
      refine ⟨hs, n, by omega, hsn, ?_⟩
      intro k hk1 hk2
      rcases Nat.eq_or_lt_of_le hk1 with e | l
      · subst e; simpa using hc
      · exact hall k (by omega) hk2
    · rename_i hc
      cases h
      exact ⟨by simpa using hc, count, Nat.le_refl _, rfl, by intro k h1 h2; omega⟩

/-- running out of fuel means that `fuel` consecutive candidates are all in use -/
theorem findNewId_none {fuel count : Nat} {ids : List Sym} (h : findNewId fuel count ids = none) :
    ∀ k, count ≤ k → k < count + fuel → newIdCandidate k ∈ ids := by
  induction fuel generalizing count with
  | zero => intro k h1 h2; omega
  | succ fuel ih =>
    simp only [findNewId] at h
    split at h
    · rename_i hc
      intro k hk1 hk2
      rcases Nat.eq_or_lt_of_le hk1 with e | l
      · subst e; simpa using hc
      · exact ih h k (by omega) (by omega)
    · cases h

/-- pigeonhole: `ids.length + 1` candidates cannot all be in use -/
theorem findNewId_total (count : Nat) (ids : List Sym) : ∃ s, findNewId (ids.length + 1) count ids = some s := by
  cases h : findNewId (ids.length + 1) count ids with
  | some s => exact ⟨s, rfl⟩
  | none =>
    exfalso
    have hall := findNewId_none h
    let l := (List.range (ids.length + 1)).map (fun i => newIdCandidate (count + i))
    have hn : l.Nodup := by
      apply List.Nodup.map_on _ List.nodup_range
      intro a _ b _ hab
      have := newIdCandidate_injective hab
      omega
    have hs : l ⊆ ids := by
      intro x hx
      obtain ⟨i, hi, rfl⟩ := List.mem_map.mp hx
      exact hall (count + i) (by omega) (by have := List.mem_range.mp hi; omega)
    have := List.Nodup.length_le_of_subset hn hs
    simp only [l, List.length_map, List.length_range] at this
    omega


/-! ### dict updates -/

theorem dget_dset_self (d : Dict) (k v : Sym) : dget (dset d k v) k = some v := by
  induction d with
  | nil => simp [dset, dget]
  | cons p r ih =>
    obtain ⟨k', v'⟩ := p
    simp only [dset]
    split
    · rename_i h; simp [dget, h]
    · rename_i h; simp [dget, h, ih]

theorem dget_dset_ne (d : Dict) {k k2 : Sym} (v : Sym) (hne : k2 ≠ k) : dget (dset d k v) k2 = dget d k2 := by
  induction d with
  | nil =>
    have : (k == k2) = false := by simpa using fun e => hne e.symm
    simp [dset, dget, this]
  | cons p r ih =>
    obtain ⟨k', v'⟩ := p
    simp only [dset]
    split
    · rename_i h
      have hk : k' = k := by simpa using h
      have : (k' == k2) = false := by simpa [hk] using fun e => hne e.symm
      simp [dget, this]
    · simp only [dget, ih]

/-! ### dict well-formedness: keys are unique -/

theorem dkeys_dset (d : Dict) (k v : Sym) :
    dkeys (dset d k v) = if dhas d k then dkeys d else dkeys d ++ [k] := by
  induction d with
  | nil => simp [dset, dkeys, dhas]
  | cons p r ih =>
    obtain ⟨k', v'⟩ := p
    simp only [dset, dhas]
    by_cases h : (k' == k) = true
    · simp [h, dkeys]
    · have h' : (k' == k) = false := by simpa using h
      simp only [h', Bool.false_eq_true, ↓reduceIte, Bool.false_or]
      simp only [dkeys, List.map_cons] at ih ⊢
      rw [ih]
      split <;> simp

theorem nodup_dset {d : Dict} (h : (dkeys d).Nodup) (k v : Sym) : (dkeys (dset d k v)).Nodup := by
  rw [dkeys_dset]
  split
  · exact h
  · rename_i hk
    have hk' : k ∉ dkeys d := fun hm => hk ((dhas_iff d k).mpr hm)
    rw [List.nodup_append]
    refine ⟨h, by simp, ?_⟩
    intro a ha b hb
    simp only [List.mem_singleton] at hb
    subst hb
    intro e; subst e; exact hk' ha

theorem derase_sublist (d : Dict) (k : Sym) : (derase d k).Sublist d := by
  induction d with
  | nil => exact List.Sublist.refl _
  | cons p r ih =>
    obtain ⟨k', v'⟩ := p
    simp only [derase]
    split
    · exact List.sublist_cons_self _ _
    · exact List.Sublist.cons_cons _ ih

theorem nodup_derase {d : Dict} (h : (dkeys d).Nodup) (k : Sym) : (dkeys (derase d k)).Nodup :=
  List.Nodup.sublist (List.Sublist.map _ (derase_sublist d k)) h

theorem nodup_foldl_dset (l : List (Sym × Sym)) {d : Dict} (h : (dkeys d).Nodup) :
    (dkeys (l.foldl (fun d p => dset d p.1 p.2) d)).Nodup := by
  induction l generalizing d with
  | nil => exact h
  | cons p r ih => exact ih (nodup_dset h p.1 p.2)

/-- `dict(pairs)` has unique keys whatever the pairs -/
theorem nodup_dofList (l : List (Sym × Sym)) : (dkeys (dofList l)).Nodup :=
  nodup_foldl_dset l List.nodup_nil

theorem dget_none_of_not_mem {d : Dict} {k : Sym} (h : k ∉ dkeys d) : dget d k = none := by
  induction d with
  | nil => rfl
  | cons p r ih =>
    obtain ⟨k', v'⟩ := p
    simp only [dkeys, List.map_cons, List.mem_cons, not_or] at h
    have : (k' == k) = false := by simpa using fun e => h.1 e.symm
    simp only [dget, this, Bool.false_eq_true, ↓reduceIte]
    exact ih h.2

/-- after `del d[k]` the key is gone (keys are unique) -/
theorem dget_derase_self {d : Dict} (h : (dkeys d).Nodup) (k : Sym) : dget (derase d k) k = none := by
  induction d with
  | nil => rfl
  | cons p r ih =>
    obtain ⟨k', v'⟩ := p
    simp only [dkeys, List.map_cons, List.nodup_cons] at h
    simp only [derase]
    split
    · rename_i hk
      have hk' : k' = k := by simpa using hk
      exact dget_none_of_not_mem (by rw [← hk']; exact h.1)
    · rename_i hk
      simp only [dget, hk]
      exact ih h.2

theorem dget_derase_ne (d : Dict) {k k2 : Sym} (hne : k2 ≠ k) : dget (derase d k) k2 = dget d k2 := by
  induction d with
  | nil => rfl
  | cons p r ih =>
    obtain ⟨k', v'⟩ := p
    simp only [derase]
    split
    · rename_i hk
      have hk' : k' = k := by simpa using hk
      have : (k' == k2) = false := by simpa [hk'] using fun e => hne e.symm
      simp [dget, this]
    · simp only [dget, ih]

/-- every unit system (and the template) is a proper dict: no category twice -/
structure DictsWf (m : Mgr) : Prop where
  heap : ∀ (a : Nat) (o : USys), m.heap[a]? = some o → (dkeys o.mapping).Nodup
  tmpl : ∀ t : USys, m.tmpl = some t → (dkeys t.mapping).Nodup

theorem init_dictsWf : DictsWf Mgr.init := by
  refine ⟨?_, by intro t h; cases h⟩
  intro a o h
  cases a with
  | zero => simp [Mgr.init] at h; subst h; exact nodup_dofList []
  | succ n => simp [Mgr.init] at h

theorem setListening_mapping {h : List USys} {a i : Nat} {b : Bool} {o' : USys}
    (ho : (setListening h a b)[i]? = some o') : ∃ o, h[i]? = some o ∧ o'.mapping = o.mapping := by
  rw [getElem?_setListening] at ho
  cases hh : h[i]? with
  | none => rw [hh] at ho; cases ho
  | some o =>
    rw [hh] at ho
    simp only [Option.map_some, Option.some.injEq] at ho
    refine ⟨o, rfl, ?_⟩
    subst ho
    split <;> rfl

theorem setCurrent_mapping {m : Mgr} {x : Option Nat} {i : Nat} {o' : USys}
    (ho : (setCurrent m x).1.heap[i]? = some o') : ∃ o, m.heap[i]? = some o ∧ o'.mapping = o.mapping := by
  have hu : ∀ o1, (unregisterCurrent m)[i]? = some o1 → ∃ o, m.heap[i]? = some o ∧ o1.mapping = o.mapping := by
    intro o1 h1
    unfold unregisterCurrent at h1
    split at h1
    · exact ⟨o1, h1, rfl⟩
    · exact setListening_mapping h1
  cases x with
  | none => exact hu o' ho
  | some a =>
    obtain ⟨o1, h1, e1⟩ := setListening_mapping (h := unregisterCurrent m) ho
    obtain ⟨o, h2, e2⟩ := hu o1 h1
    exact ⟨o, h2, e1.trans e2⟩

theorem setCurrent_dictsWf {m : Mgr} (hd : DictsWf m) (x : Option Nat) : DictsWf (setCurrent m x).1 := by
  refine ⟨?_, by rw [setCurrent_tmpl]; exact hd.tmpl⟩
  intro a o' ho
  obtain ⟨o, h1, e⟩ := setCurrent_mapping ho
  rw [e]; exact hd.heap a o h1

theorem register_dictsWf {m : Mgr} (hd : DictsWf m) (id cap : Sym) (d : List (Sym × Sym)) (ro : Bool) :
    DictsWf (m.register id cap d ro) := by
  refine ⟨?_, hd.tmpl⟩
  intro a o ho
  simp only [Mgr.register] at ho
  rcases Nat.lt_or_ge a m.heap.length with h' | h'
  · rw [List.getElem?_append_left h'] at ho
    exact hd.heap a o ho
  · rw [List.getElem?_append_right h'] at ho
    cases hk : a - m.heap.length with
    | zero =>
      rw [hk] at ho
      simp only [List.getElem?_cons_zero, Option.some.injEq] at ho
      subst ho
      exact nodup_dofList d
    | succ n => rw [hk] at ho; simp at ho

theorem set_dictsWf {m : Mgr} (hd : DictsWf m) (a : Nat) {o' : USys} (h : (dkeys o'.mapping).Nodup) :
    DictsWf { m with heap := m.heap.set a o' } := by
  refine ⟨?_, hd.tmpl⟩
  intro i o ho
  simp only [List.getElem?_set] at ho
  split at ho
  · split at ho
    · cases ho; exact h
    · cases ho
  · exact hd.heap i o ho


/-- The unit the manager gives a registered object when it brings the objects to the current system
(state `m`): the current system's default unit of the object's category — if some system is current, the
object is alive and there is such a default; otherwise the object keeps its unit (in particular while
NO system is current, whatever the null system holds). -/
def specUnit (m : Mgr) (o : VObj) : Sym :=
  if o.alive then
    match m.cur with
    | none => o.unit
    | some _ =>
      match m.currentDefault o.cat with
      | some u => u
      | none => o.unit
  else o.unit

/-- the model's `UpdateObjects` loop body computes exactly that -/
theorem refresh_curSys_spec {m : Mgr} (hw : MgrWf m) (o : VObj) :
    VObj.refresh m.curSys o = { o with unit := specUnit m o } := by
  unfold specUnit Mgr.curSys
  cases hc : m.cur with
  | none => cases o; simp [VObj.refresh]
  | some c =>
    have hlt := hw.cur_valid c hc
    have hs : m.heap[c]? = some m.heap[c] := List.getElem?_eq_getElem hlt
    simp only [hs, VObj.refresh, VObj.update, Mgr.currentDefault, Mgr.currentAddr, hc]
    cases ha : o.alive with
    | false => cases o; simp_all
    | true =>
      cases hd : (m.heap[c]).getDefaultUnit o.cat with
      | none => cases o; simp_all
      | some u => simp

def Event.isCurrent : Event → Bool
  | .current _ => true
  | _ => false

/-- a call that ended in `SetCurrent(x)`: the objects were brought to the new current system -/
theorem follow_of_setCurrent {m m0 : Mgr} {x : Option Nat} {r : Res} (hw' : MgrWf r.mgr) (ho : m0.objs = m.objs)
    (hm : r.mgr = (setCurrent m0 x).1) (hl : r.log = (setCurrent m0 x).2) :
    r.mgr.objs =
      if r.log.any Event.isCurrent then m.objs.map (fun o => { o with unit := specUnit r.mgr o }) else m.objs := by
  have hfun : (fun o => ({ o with unit := specUnit r.mgr o } : VObj)) = VObj.refresh r.mgr.curSys := by
    funext o; exact (refresh_curSys_spec hw' o).symm
  rw [hfun]
  have hany : r.log.any Event.isCurrent = true := by rw [hl, setCurrent_log]; rfl
  simp only [hany, ↓reduceIte]
  rw [hm, setCurrent_objs, ho]

/-- a call during which `on_current` was not invoked and that left the objects alone -/
theorem follow_of_silent {m : Mgr} {r : Res} (ho : r.mgr.objs = m.objs) (hl : r.log.any Event.isCurrent = false) :
    r.mgr.objs =
      if r.log.any Event.isCurrent then m.objs.map (fun o => { o with unit := specUnit r.mgr o }) else m.objs := by
  simp [hl, ho]

theorem curRegistered_of_eq {m m' : Mgr} (hc : m'.cur = m.cur) (hr : m'.reg = m.reg) (h : CurRegistered m) :
    CurRegistered m' := by
  intro c h'
  rw [hc] at h'
  rw [hr]
  exact h c h'

/-- a rejected call on a value object / a flag changes nothing -/
theorem step_aux_rejected (db : Db) (m : Mgr) {op : Op} (ha : op.isAux = true) {e : ErrKind}
    (h : (step db m op).out = .error e) : (step db m op).mgr = m := by
  cases op <;> simp only [Op.isAux, Bool.false_eq_true] at ha
  case register c u => simp [step, registerNew] at h
  case registerAgain i =>
    simp only [step, registerAgain] at h ⊢
    split
    · rfl
    · rename_i o ho
      simp only [ho] at h
      split
      · rename_i hal; simp [hal] at h
      · rfl
  case kill i =>
    simp only [step, killObj] at h ⊢
    split
    · rfl
    · rename_i o ho; simp [ho] at h
  case objSetUnit i u =>
    simp only [step, objSetUnit] at h ⊢
    split
    · rfl
    · rename_i o ho
      simp only [ho] at h
      split
      · rename_i hal; simp [hal] at h
      · rfl
  case updateObjects => simp [step] at h
  case resetInstance => simp [step, resetInstance] at h
  case observeCurrent => simp [step] at h
  case observeUnit => simp [step] at h
  case setCaption a cap =>
    simp only [step, setCaption] at h ⊢
    split
    · rfl
    · rename_i o ho; simp [ho] at h
  case setReadOnly a b =>
    simp only [step, setReadOnly] at h ⊢
    split
    · rfl
    · rename_i o ho; simp [ho] at h

theorem set_same_mapping_dictsWf {m : Mgr} (hd : DictsWf m) {a : Nat} {o o' : USys} (ho : m.heap[a]? = some o)
    (hm : o'.mapping = o.mapping) : DictsWf { m with heap := m.heap.set a o' } :=
  set_dictsWf hd a (by rw [hm]; exact hd.heap a o ho)

theorem step_aux_dictsWf (db : Db) {m : Mgr} (hd : DictsWf m) {op : Op} (ha : op.isAux = true) :
    DictsWf (step db m op).mgr := by
  cases op <;> simp only [Op.isAux, Bool.false_eq_true] at ha
  case register c u => exact ⟨hd.heap, hd.tmpl⟩
  case registerAgain i =>
    simp only [step, registerAgain]
    split
    · exact hd
    · split
      · exact ⟨hd.heap, hd.tmpl⟩
      · exact hd
  case kill i =>
    simp only [step, killObj]
    split
    · exact hd
    · exact ⟨hd.heap, hd.tmpl⟩
  case objSetUnit i u =>
    simp only [step, objSetUnit]
    split
    · exact hd
    · split
      · exact ⟨hd.heap, hd.tmpl⟩
      · exact hd
  case updateObjects => exact ⟨hd.heap, hd.tmpl⟩
  case resetInstance => exact ⟨hd.heap, hd.tmpl⟩
  case observeCurrent => exact ⟨hd.heap, hd.tmpl⟩
  case observeUnit => exact ⟨hd.heap, hd.tmpl⟩
  case setCaption a cap =>
    simp only [step, setCaption]
    split
    · exact hd
    · rename_i o ho; exact set_same_mapping_dictsWf hd ho rfl
  case setReadOnly a b =>
    simp only [step, setReadOnly]
    split
    · exact hd
    · rename_i o ho; exact set_same_mapping_dictsWf hd ho rfl

theorem step_aux_objsWf (db : Db) {m : Mgr} (h : ObjsWf m) {op : Op} (ha : op.isAux = true) :
    ObjsWf (step db m op).mgr := by
  cases op <;> simp only [Op.isAux, Bool.false_eq_true] at ha
  case register c u =>
    intro o ho
    simp only [step, registerNew, List.mem_append, List.mem_singleton] at ho
    rcases ho with ho | rfl
    · exact h o ho
    · exact refresh_ok ⟨fun _ => Nat.le_refl 1, fun hf => by cases hf⟩
  case registerAgain i =>
    simp only [step, registerAgain]
    split
    · exact h
    · rename_i o ho
      split
      · rename_i hal
        apply objsWf_set h
        apply refresh_ok
        exact ⟨fun _ => by simp, fun hf => by simp [hal] at hf⟩
      · exact h
  case kill i =>
    simp only [step, killObj]
    split
    · exact h
    · apply objsWf_set h
      exact ⟨fun hf => (by cases hf), fun _ => rfl⟩
  case objSetUnit i u =>
    simp only [step, objSetUnit]
    split
    · exact h
    · rename_i o ho
      split
      · apply objsWf_set h
        exact h o (List.mem_of_getElem? ho)
      · exact h
  case updateObjects => exact objsWf_map_refresh _ h
  case resetInstance => exact h
  case observeCurrent => exact h
  case observeUnit => exact h
  case setCaption a cap =>
    simp only [step, setCaption]
    split <;> exact h
  case setReadOnly a b =>
    simp only [step, setReadOnly]
    split <;> exact h

end Barril.Mgr
