/-
Helper lemmas for C08: normal forms of the comparison methods of the `Cmp` engine, and the order
of `Scalar`/`FractionScalar` through the base amounts of well-formed conversion rows.
-/
import Barril.Model.Cmp
import Barril.Proofs.ConvLemmas
import Mathlib.Tactic.LinearCombination

namespace Barril

/-! ### equality: normal forms of the methods -/

/-- the three conjuncts of `Array.__eq__` -/
def Arr.core (a b : Arr) : Bool := a.values == b.values && a.q.eq b.q && a.q.unit == b.q.unit

/-- the value of `a == b` for two Array/FixedArray objects -/
def Arr.eqv (a b : Arr) : Bool := a.core b && a.dim == b.dim

theorem arrayEq_eq (a : Arr) (o : Obj) :
    arrayEq a o = .ok (match o with | .arr b => a.core b | _ => false) := by
  cases o <;> simp [arrayEq, Obj.isInstance, Obj.cls, Cls.isSubclass, Arr.core]
  case arr b => rcases b with ⟨_, _, _, _ | _⟩ <;> simp [Arr.cls]

theorem fixedArrayEq_eq (a : Arr) (o : Obj) :
    fixedArrayEq a o = .ok (match o with
      | .arr b => (match b.dim with | some d => a.core b && a.dim == some d | none => false)
      | _ => false) := by
  cases o <;> simp [fixedArrayEq, arrayEq_eq, Obj.isInstance, Obj.cls, Cls.isSubclass, Obj.dimension]
  case arr b =>
    rcases b with ⟨vb, kb, qb, _ | d⟩ <;> simp [Arr.cls]
    cases h : a.core ⟨vb, kb, qb, some d⟩ <;> simp

/-- `image == image'` inside `Curve.__eq__`: never an error, never the identity fallback -/
theorem pyEqArr_eq (a b : Arr) : pyEqArr a b = .ok (a.eqv b) := by
  rcases a with ⟨va, ka, qa, _ | da⟩ <;> rcases b with ⟨vb, kb, qb, _ | db⟩ <;>
    simp [pyEqArr, richCompare, Ans.orElse, arrMethEq, arrayEq_eq, fixedArrayEq_eq, Obj.cls, Arr.cls,
      Cls.isSubclass, Arr.eqv, Arr.core]

theorem curveEq_eq (i d : Arr) (o : Obj) :
    curveEq i d o = .ok (.val (match o with | .curve i' d' => i.eqv i' && d.eqv d' | _ => false)) := by
  cases o <;> simp [curveEq, Obj.isInstance, Obj.cls, Cls.isSubclass, pyEqArr_eq]
  case arr a => rcases a with ⟨va, ka, qa, _ | da⟩ <;> simp [Arr.cls]
  case curve i' d' => cases h : i.eqv i' <;> simp

/-- `Fraction.__old_cmp__ == 0` on two normalised fractions is equality of the rationals -/
theorem crossCmp_eq_zero (x y : Rat) : (crossCmp x y == 0) = (x == y) := by
  have h : x = y ↔ x.num * (y.den : Int) = y.num * (x.den : Int) := Rat.eq_iff_mul_eq_mul
  unfold crossCmp
  by_cases hxy : x = y
  · subst hxy; simp
  · have hne : x.num * (y.den : Int) - y.num * (x.den : Int) ≠ 0 := by
      intro h0; exact hxy (h.mpr (by omega))
    simp only [beq_eq_false_iff_ne.mpr hxy]
    split
    · rfl
    · split
      · rfl
      · omega

/-- case analysis on an object, arrays split into `Array` and `FixedArray` -/
macro "obj_cases " a:ident : tactic =>
  `(tactic| rcases $a:ident with _ | _ | ⟨⟨_, _, _, _ | _⟩⟩ | _ | _ | _ | _ | _ | _ | _ | _ | _ | _)


/-! ### order: simple quantities and base amounts -/

/-- the quantities that `Db.simpleQuantity` (i.e. `Quantity(category, unit)`) returns -/
def SimpleQ.Built (db : Db) (q : SimpleQ) : Prop := ∃ cat u, db.simpleQuantity cat u = .ok q

theorem checkedUnit_valid {db : Db} {cat u u' : Sym} (h : db.checkedUnit cat u = .ok u') :
    db.categoryUnitValid cat u' = true := by
  unfold Db.checkedUnit at h
  split at h
  · cases h; assumption
  · split at h
    · split at h
      · cases h; assumption
      · cases h
    · cases h

theorem simpleQuantity_spec {db : Db} {cat u : Sym} {q : SimpleQ} (h : db.simpleQuantity cat u = .ok q) :
    ∃ ci, db.catByName cat = some ci ∧ q.cat = cat ∧ q.qtype = ci.qtype
      ∧ db.categoryUnitValid cat q.unit = true ∧ db.getInfo q.qtype q.unit true = .ok q.row := by
  unfold Db.simpleQuantity at h
  cases hc : db.catByName cat with
  | none => rw [hc] at h; cases h
  | some ci =>
    rw [hc] at h; simp only at h
    cases hu : db.checkedUnit cat u with
    | error e => rw [hu] at h; cases h
    | ok u' =>
      rw [hu] at h; simp only at h
      cases hg : db.getInfo ci.qtype u' true with
      | error e => rw [hg] at h; cases h
      | ok r =>
        rw [hg] at h
        cases h
        exact ⟨ci, rfl, rfl, rfl, checkedUnit_valid hu, hg⟩

/-- `ObtainQuantity(q.unit, q.category)` gives the quantity back -/
theorem simpleQuantity_rebuild {db : Db} {q : SimpleQ} (h : q.Built db) :
    db.simpleQuantity q.cat q.unit = .ok q := by
  obtain ⟨cat, u, h⟩ := h
  obtain ⟨ci, hc, hcat, hqt, hv, hg⟩ := simpleQuantity_spec h
  unfold Db.simpleQuantity
  rw [hcat, hc]
  simp only
  have : db.checkedUnit cat q.unit = .ok q.unit := by unfold Db.checkedUnit; simp [hv]
  rw [this]
  simp only
  rw [← hqt, hg]
  cases q; simp_all

/-- `Quantity.ConvertScalarValue` of a quantity built from a category is `UnitDatabase.Convert` with
that category: the function C01 is about -/
theorem convertScalarValue_eq_convert {db : Db} {q : SimpleQ} (h : q.Built db) (x : Rat) (toU : Sym) :
    q.convertScalarValue db x toU = db.convert q.cat q.unit toU x := by
  obtain ⟨cat, u, h⟩ := h
  obtain ⟨ci, hc, hcat, hqt, _, hg⟩ := simpleQuantity_spec h
  unfold SimpleQ.convertScalarValue Db.convert
  split
  · rfl
  · have : db.typeOf q.cat = .ok q.qtype := by unfold Db.typeOf; rw [hcat, hc, hqt]
    rw [this]; simp only; rw [hg]; rfl

theorem UnitRow.WF.eval_to {w : UnitRow} (h : w.WF) (z : Rat) :
    w.toBase.eval z = w.toBase.p / w.toBase.r + (w.toBase.q / w.toBase.r) * z := by
  unfold Mob.eval
  rw [h.ts]
  ring

theorem UnitRow.WF.toBase_lt_iff {w : UnitRow} (h : w.WF) (x y : Rat) :
    w.toBase.eval x < w.toBase.eval y ↔ x < y := by
  have hs := h.to_slope_pos
  rw [h.eval_to x, h.eval_to y]
  constructor
  · intro hlt
    by_contra hn
    have : y ≤ x := not_lt.mp hn
    nlinarith
  · intro hlt
    nlinarith

theorem UnitRow.WF.toBase_le_iff {w : UnitRow} (h : w.WF) (x y : Rat) :
    w.toBase.eval x ≤ w.toBase.eval y ↔ x ≤ y := by
  rw [← not_lt, ← not_lt, h.toBase_lt_iff]

/-- converting a value of `b` to the unit of `a` (same quantity type) succeeds and keeps the base
amount -/
theorem convert_base {db : Db} (hdb : ∀ r ∈ db.units, r.WF) {a b : SimpleQ} (ha : a.Built db)
    (hb : b.Built db) (hq : a.qtype = b.qtype) (x : Rat) :
    ∃ y, b.convertScalarValue db x a.unit = .ok y ∧ a.baseAmount y = b.baseAmount x := by
  obtain ⟨ca, ua, ha⟩ := ha
  obtain ⟨cb, ub, hb⟩ := hb
  obtain ⟨cia, _, _, _, _, hga⟩ := simpleQuantity_spec ha
  obtain ⟨cib, _, _, _, _, hgb⟩ := simpleQuantity_spec hb
  have wa := hdb _ (Db.getInfo_mem hga)
  have wb := hdb _ (Db.getInfo_mem hgb)
  unfold SimpleQ.convertScalarValue SimpleQ.baseAmount
  by_cases hu : b.unit = a.unit
  · refine ⟨x, by simp [hu], ?_⟩
    rw [hq, ← hu, hgb] at hga
    rw [Except.ok.inj hga]
  · have hu' : (b.unit == a.unit) = false := by simpa using hu
    rw [hu', ← hq, hga]
    simp only [Bool.false_eq_true, ↓reduceIte]
    refine ⟨convVal b.row a.row x, convRows_eq wb wa x, ?_⟩
    have e1 : a.row.toBase.eval (convVal b.row a.row x)
        = (a.row.toBase.p + a.row.toBase.q * (convVal b.row a.row x)) / a.row.toBase.r := by
      unfold Mob.eval; rw [wa.ts]; simp
    have e2 : b.row.toBase.eval x = (b.row.toBase.p + b.row.toBase.q * x) / b.row.toBase.r := by
      unfold Mob.eval; rw [wb.ts]; simp
    rw [e1, e2]
    unfold convVal
    rw [wa.to_from]

/-- `v1 op v2` is decided by the base amounts -/
theorem Op.apply_base {w : UnitRow} (h : w.WF) (op : Op) (x y : Rat) :
    op.apply x y = op.apply (w.toBase.eval x) (w.toBase.eval y) := by
  cases op <;> simp only [Op.apply, h.toBase_lt_iff, h.toBase_le_iff]

theorem SimpleQ.Built.wf {db : Db} (hdb : ∀ r ∈ db.units, r.WF) {a : SimpleQ} (ha : a.Built db) : a.row.WF := by
  obtain ⟨ca, ua, ha⟩ := ha
  obtain ⟨_, _, _, _, _, hga⟩ := simpleQuantity_spec ha
  exact hdb _ (Db.getInfo_mem hga)

/-- what `ConvertFractionValue` returns when the numerator is kept: a value with the base amount of
`float(fv)` -/
theorem convertFractionValue_base {db : Db} (hdb : ∀ r ∈ db.units, r.WF) {small : Rat} {a : SimpleQ}
    {b : FSc} (ha : a.Built db) (hb : b.q.Built db) (hq : a.qtype = b.q.qtype)
    (hk : b.NumeratorKept db small a.unit) :
    ∃ y, convertFractionValue db small b.v b.q a.unit = .ok y
      ∧ a.baseAmount y.toFloat = b.q.baseAmount b.v.toFloat := by
  obtain ⟨n, hn, en⟩ := convert_base hdb ha hb hq b.v.number
  obtain ⟨m, hm, em⟩ := convert_base hdb ha hb hq (b.v.frac.num : Rat)
  obtain ⟨z, hz, ez⟩ := convert_base hdb ha hb hq 0
  have wa := ha.wf hdb
  have wb := hb.wf hdb
  refine ⟨⟨n, (m - z) / (b.v.frac.den : Rat)⟩, ?_, ?_⟩
  · unfold convertFractionValue
    rw [simpleQuantity_rebuild hb]
    simp only
    rw [hn]; simp only
    rw [hm]; simp only
    rw [hz]; simp only
    rw [hk m z hm hz]
  · unfold SimpleQ.baseAmount at *
    unfold FVal.toFloat
    rw [wa.eval_to] at en em ez ⊢
    rw [wb.eval_to] at en em ez ⊢
    have hfrac : b.v.frac = (b.v.frac.num : Rat) / (b.v.frac.den : Rat) := (Rat.num_div_den b.v.frac).symm
    generalize (b.v.frac.num : Rat) = nu at *
    generalize (b.v.frac.den : Rat) = d at *
    simp only
    rw [hfrac]
    linear_combination en + (em - ez) / d

/-! ### `Fraction(number)` on integers: nothing to shift, nothing lost -/

theorem pyRound_intCast (n : Int) : pyRound (n : Rat) = n := by
  unfold pyRound
  have hf : (n : Rat).floor = n := Rat.floor_intCast n
  simp only [hf, sub_self]
  norm_num

theorem fractionOfNumber_intCast {small : Rat} (hs : 0 ≤ small) (n : Int) :
    fractionOfNumber small (n : Rat) = n := by
  unfold fractionOfNumber
  have h : fracLoop 64 small (n : Rat) 1 = ((n : Rat), 1) := by
    show fracLoop (63 + 1) small (n : Rat) 1 = ((n : Rat), 1)
    unfold fracLoop
    have : ¬ small < absR ((n : Rat) - ((pyRound (n : Rat) : Int) : Rat)) := by
      rw [pyRound_intCast]; simp [absR]; exact hs
    simp [this]
  rw [h]
  simp [pyRound_intCast]

/-- two FractionScalars in one unit: nothing is converted, so the numerator is kept -/
theorem numeratorKept_same_unit {db : Db} {small : Rat} (hs : 0 ≤ small) (b : FSc) :
    b.NumeratorKept db small b.q.unit := by
  intro a z ha hz
  unfold SimpleQ.convertScalarValue at ha hz
  simp at ha hz
  subst ha; subst hz
  simpa using fractionOfNumber_intCast hs b.v.frac.num

/-! ### sessions: the pool is static and the `_hash` memo stays consistent with it -/

theorem memoGet_mem {m : List (Nat × QKey)} {id : Nat} {k : QKey} (h : memoGet m id = some k) :
    (id, k) ∈ m := by
  induction m with
  | nil => simp [memoGet] at h
  | cons e m ih =>
    obtain ⟨i, k'⟩ := e
    unfold memoGet at h
    split at h
    · rename_i hi
      have hi' : i = id := by simpa using hi
      cases h
      simp [hi']
    · exact List.mem_cons_of_mem _ (ih h)

/-- every memoised `_hash` is the key of the content of every pooled holder of that Quantity object -/
def Session.Consistent (s : Session) : Prop :=
  ∀ id k, (id, k) ∈ s.memo → ∀ p ∈ s.pool, ∀ q, p.obj.heldQty = some q → p.qid = id → k = q.key

/-- the invariant of a history: a well-formed pool and a consistent memo -/
def Session.Inv (s : Session) : Prop := poolWF s.pool = true ∧ s.Consistent

theorem Session.fresh_inv {pool : List PObj} (h : poolWF pool = true) : (Session.fresh pool).Inv :=
  ⟨h, by intro id k hk; simp [Session.fresh] at hk⟩

theorem poolWF_compatible {pool : List PObj} (h : poolWF pool = true) {a b : PObj} (ha : a ∈ pool)
    (hb : b ∈ pool) : a.compatible b = true := by
  unfold poolWF at h
  rw [List.all_eq_true] at h
  have h1 := h a ha
  rw [List.all_eq_true] at h1
  exact h1 b hb

theorem PObj.compatible_obj {a b : PObj} (h : a.compatible b = true) (ho : a.oid = b.oid) : a.obj = b.obj := by
  unfold PObj.compatible at h
  simp only [Bool.and_eq_true, Bool.or_eq_true, bne_iff_ne, ne_eq, beq_iff_eq] at h
  rcases h.1 with h1 | h1
  · exact absurd ho h1
  · exact h1

theorem PObj.compatible_qty {a b : PObj} (h : a.compatible b = true) {qa qb : Qty}
    (ha : a.obj.heldQty = some qa) (hb : b.obj.heldQty = some qb) (hq : a.qid = b.qid) : qa = qb := by
  unfold PObj.compatible at h
  rw [ha, hb] at h
  simp only [Bool.and_eq_true, Bool.or_eq_true, bne_iff_ne, ne_eq, beq_iff_eq] at h
  rcases h.2 with h1 | h1
  · exact absurd hq h1
  · exact h1

theorem Session.qtyHash_pool (s : Session) (id : Nat) (q : Qty) : (s.qtyHash id q).2.pool = s.pool := by
  unfold Session.qtyHash
  split <;> rfl

/-- hashing the Quantity object held by a pooled object returns the key of its content, memo or not,
and keeps the invariant -/
theorem Session.qtyHash_spec {s : Session} (h : s.Inv) {p : PObj} (hp : p ∈ s.pool) {q : Qty}
    (hq : p.obj.heldQty = some q) : (s.qtyHash p.qid q).1 = q.key ∧ (s.qtyHash p.qid q).2.Inv := by
  unfold Session.qtyHash
  cases hm : memoGet s.memo p.qid with
  | some k => exact ⟨h.2 _ _ (memoGet_mem hm) p hp q hq rfl, h⟩
  | none =>
    refine ⟨rfl, h.1, ?_⟩
    intro id k hk p' hp' q' hq' hid
    simp only [List.mem_cons, Prod.mk.injEq] at hk
    rcases hk with ⟨h1, h2⟩ | hk
    · have : q' = q := PObj.compatible_qty (poolWF_compatible h.1 hp' hp) hq' hq (by rw [hid, h1])
      rw [h2, this]
    · exact h.2 id k hk p' hp' q' hq' hid

theorem Session.hash_pool (s : Session) (i : Nat) : (s.hash i).2.pool = s.pool := by
  unfold Session.hash
  cases hp : s.pool[i]? with
  | none => rfl
  | some p =>
    dsimp only
    cases p.obj.cls.hashSlot <;> (try rfl) <;>
      (cases p.obj <;> first | rfl | exact Session.qtyHash_pool _ _ _)

theorem Session.hash_spec {s : Session} (h : s.Inv) (i : Nat) :
    (s.hash i).1 = s.pureHash i ∧ (s.hash i).2.Inv := by
  unfold Session.hash Session.pureHash
  cases hp : s.pool[i]? with
  | none => exact ⟨rfl, h⟩
  | some p =>
    have hmem : p ∈ s.pool := List.mem_of_getElem? hp
    dsimp only
    unfold pyHash
    cases hs : p.obj.cls.hashSlot <;> dsimp only <;> (try exact ⟨rfl, h⟩) <;>
      (cases ho : p.obj <;> dsimp only <;> (try exact ⟨rfl, h⟩) <;>
        (rename_i q
         have hq : p.obj.heldQty = some q := by rw [ho]; rfl
         obtain ⟨h1, h2⟩ := Session.qtyHash_spec h hmem hq
         exact ⟨by rw [h1]; rfl, h2⟩))

theorem Session.step_pool (s : Session) (op : StirOp) : (s.step op).pool = s.pool := by
  cases op <;> simp [Session.step, Session.hash_pool]

theorem Session.step_inv {s : Session} (h : s.Inv) (op : StirOp) : (s.step op).Inv := by
  cases op <;> simp only [Session.step] <;> first | exact h | exact (Session.hash_spec h _).2

theorem Session.run_pool (s : Session) (ops : List StirOp) : (s.run ops).pool = s.pool := by
  unfold Session.run
  induction ops generalizing s with
  | nil => rfl
  | cons op ops ih => rw [List.foldl_cons, ih, Session.step_pool]

theorem Session.run_inv {s : Session} (h : s.Inv) (ops : List StirOp) : (s.run ops).Inv := by
  unfold Session.run
  induction ops generalizing s with
  | nil => exact h
  | cons op ops ih => rw [List.foldl_cons]; exact ih (Session.step_inv h op)

/-! ### order after histories -/

/-- a step only ever appends to the pool -/
theorem OSession.step_prefix (s : OSession) (op : OStirOp) : ∃ ext, (s.step op).pool = s.pool ++ ext := by
  cases op with
  | copy i =>
    simp only [OSession.step]
    cases h : s.pool[i]? with
    | none => exact ⟨[], by simp⟩
    | some o => exact ⟨[o], rfl⟩
  | _ => exact ⟨[], by simp [OSession.step]⟩

theorem OSession.run_prefix (s : OSession) (ops : List OStirOp) : ∃ ext, (s.run ops).pool = s.pool ++ ext := by
  unfold OSession.run
  induction ops generalizing s with
  | nil => exact ⟨[], by simp⟩
  | cons op ops ih =>
    obtain ⟨e1, h1⟩ := OSession.step_prefix s op
    obtain ⟨e2, h2⟩ := ih (s.step op)
    exact ⟨e1 ++ e2, by rw [List.foldl_cons, h2, h1, List.append_assoc]⟩

/-- the objects of the pool stay what they are, whatever is done -/
theorem OSession.run_getElem? (s : OSession) (ops : List OStirOp) {i : Nat} (hi : i < s.pool.length) :
    (s.run ops).pool[i]? = s.pool[i]? := by
  obtain ⟨ext, h⟩ := OSession.run_prefix s ops
  rw [h, List.getElem?_append_left hi]

/-- every object of the pool after a history is a copy of an object of the pool before it -/
theorem OSession.step_mem (s : OSession) (op : OStirOp) {o : Operand} (h : o ∈ (s.step op).pool) : o ∈ s.pool := by
  cases op with
  | copy i =>
    simp only [OSession.step] at h
    cases hi : s.pool[i]? with
    | none => simpa [hi] using h
    | some x =>
      simp only [hi] at h
      rcases List.mem_append.mp h with h | h
      · exact h
      · rw [List.mem_singleton.mp h]; exact List.mem_of_getElem? hi
  | _ => exact h

theorem OSession.run_mem (s : OSession) (ops : List OStirOp) {o : Operand} (h : o ∈ (s.run ops).pool) : o ∈ s.pool := by
  unfold OSession.run at h
  induction ops generalizing s with
  | nil => exact h
  | cons op ops ih => exact OSession.step_mem s op (ih (s.step op) (by simpa [List.foldl_cons] using h))

end Barril
