/-
Helper lemmas for C06 (`Barril/Model/Compound.lean`): the table lookups are membership of registered
symbols, and the grammar functions only ever cut the symbol text (they never invent factors).
-/
import Barril.Model.Compound

namespace Barril

theorem mem_takeWhile_prop {p : Nat → Bool} {l : List Nat} {d : Nat} (h : d ∈ l.takeWhile p) : p d = true :=
  List.all_eq_true.mp (List.all_takeWhile (l := l) (p := p)) d h

theorem Nat.beq_true_iff {a b : Nat} : Nat.beq a b = true ↔ a = b := by
  constructor
  · exact Nat.eq_of_beq_eq_true
  · intro h; subst h; exact Nat.beq_refl a

/-- a successful lookup returns a row of the table that carries the symbol asked for … -/
theorem lookL_some {x : Sym} {tbl : List CRow} {c : CRow} (h : lookL x tbl = some c) : c ∈ tbl ∧ c.sym = x := by
  induction tbl with
  | nil => simp [lookL] at h
  | cons d ds ih =>
    unfold lookL at h
    split at h
    · rename_i hb
      cases h
      exact ⟨List.mem_cons_self, (Nat.beq_true_iff.mp hb).symm⟩
    · obtain ⟨hm, hs⟩ := ih h
      exact ⟨List.mem_cons_of_mem _ hm, hs⟩

/-- … and a failed lookup means no row of the table carries it -/
theorem lookL_none {x : Sym} {tbl : List CRow} (h : lookL x tbl = none) : ∀ c ∈ tbl, c.sym ≠ x := by
  induction tbl with
  | nil => intro c hc; cases hc
  | cons d ds ih =>
    unfold lookL at h
    split at h
    · cases h
    · rename_i hb
      intro c hc
      rcases List.mem_cons.mp hc with rfl | hc
      · intro e
        have : Nat.beq x c.sym = true := Nat.beq_true_iff.mpr e.symm
        rw [this] at hb; cases hb
      · exact ih h c hc

theorem lookL_isSome_iff {x : Sym} {tbl : List CRow} : (lookL x tbl).isSome = true ↔ ∃ c ∈ tbl, c.sym = x := by
  constructor
  · intro h
    cases hl : lookL x tbl with
    | none => rw [hl] at h; cases h
    | some c => exact ⟨c, lookL_some hl⟩
  · rintro ⟨c, hc, hs⟩
    cases hl : lookL x tbl with
    | none => exact absurd hs (lookL_none hl c hc)
    | some _ => rfl

theorem baseL_some {q : Sym} {tbl : List CRow} {c : CRow} (h : baseL q tbl = some c) : c ∈ tbl ∧ c.qtype = q := by
  induction tbl with
  | nil => simp [baseL] at h
  | cons d ds ih =>
    unfold baseL at h
    split at h
    · rename_i hb
      cases h
      exact ⟨List.mem_cons_self, (Nat.beq_true_iff.mp hb).symm⟩
    · obtain ⟨hm, hs⟩ := ih h
      exact ⟨List.mem_cons_of_mem _ hm, hs⟩

/-- rows of a compact table that is tied to a unit table come from rows of that unit table -/
theorem mem_of_core_eq {tbl : List CRow} {units : List UnitRow}
    (h : tbl.map CRow.core = units.map UnitRow.core) {c : CRow} (hc : c ∈ tbl) :
    ∃ r ∈ units, r.core = c.core := by
  have : c.core ∈ tbl.map CRow.core := List.mem_map.mpr ⟨c, hc, rfl⟩
  rw [h] at this
  obtain ⟨r, hr, e⟩ := List.mem_map.mp this
  exact ⟨r, hr, e⟩

/-- and conversely every row of the unit table has its compact row -/
theorem mem_of_core_eq' {tbl : List CRow} {units : List UnitRow}
    (h : tbl.map CRow.core = units.map UnitRow.core) {r : UnitRow} (hr : r ∈ units) :
    ∃ c ∈ tbl, c.core = r.core := by
  have : r.core ∈ units.map UnitRow.core := List.mem_map.mpr ⟨r, hr, rfl⟩
  rw [← h] at this
  obtain ⟨c, hc, e⟩ := List.mem_map.mp this
  exact ⟨c, hc, e⟩

/-! ### the grammar only cuts the text -/

/-- splitting on a separator and joining with it again gives the text back -/
theorem splitOnB_ne_nil (sep : Nat) (s : List Nat) : splitOnB sep s ≠ [] := by
  induction s with
  | nil => simp [splitOnB]
  | cons b bs ih =>
    unfold splitOnB
    split
    · simp
    · split <;> simp

theorem intercalate_splitOnB (sep : Nat) (s : List Nat) : [sep].intercalate (splitOnB sep s) = s := by
  induction s with
  | nil => simp [splitOnB, List.intercalate]
  | cons b bs ih =>
    unfold splitOnB
    split
    · rename_i hb
      have hb' : b = sep := by simpa using hb
      subst hb'
      cases hsp : splitOnB b bs with
      | nil => exact absurd hsp (splitOnB_ne_nil _ _)
      | cons h t =>
        rw [hsp] at ih
        simp only [List.intercalate] at ih ⊢
        simp only [List.intersperse_cons_cons, List.flatten_cons, List.nil_append, List.singleton_append]
        rw [← ih]
    · cases hsp : splitOnB sep bs with
      | nil => exact absurd hsp (splitOnB_ne_nil _ _)
      | cons h t =>
        rw [hsp] at ih
        simp only
        cases t with
        | nil =>
          simp only [List.intercalate, List.intersperse_singleton, List.flatten_cons, List.flatten_nil,
            List.append_nil] at ih ⊢
          rw [ih]
        | cons t1 ts =>
          simp only [List.intercalate, List.intersperse_cons_cons, List.flatten_cons] at ih ⊢
          rw [← ih]; rfl

/-- no piece of a split contains the separator -/
theorem splitOnB_no_sep (sep : Nat) (s : List Nat) : ∀ p ∈ splitOnB sep s, sep ∉ p := by
  induction s with
  | nil => intro p hp; simp [splitOnB] at hp; subst hp; simp
  | cons b bs ih =>
    intro p hp
    unfold splitOnB at hp
    split at hp
    · rcases List.mem_cons.mp hp with rfl | hp
      · simp
      · exact ih p hp
    · rename_i hb
      have hb' : b ≠ sep := by simpa using hb
      cases hsp : splitOnB sep bs with
      | nil => exact absurd hsp (splitOnB_ne_nil _ _)
      | cons h t =>
        rw [hsp] at hp ih
        simp only at hp
        rcases List.mem_cons.mp hp with rfl | hp
        · intro hm
          rcases List.mem_cons.mp hm with e | hm
          · exact hb' e.symm
          · exact ih h List.mem_cons_self hm
        · exact ih p (List.mem_cons_of_mem _ hp)

/-- stem ++ trailing digits is the text, and the trailing part consists of digits -/
theorem splitTrailingDigits_append (f : List Nat) :
    (splitTrailingDigits f).1 ++ (splitTrailingDigits f).2 = f := by
  unfold splitTrailingDigits
  simp only
  rw [← List.reverse_append, List.takeWhile_append_dropWhile, List.reverse_reverse]

theorem splitTrailingDigits_digits (f : List Nat) : ∀ d ∈ (splitTrailingDigits f).2, isDigitB d = true := by
  unfold splitTrailingDigits
  simp only
  intro d hd
  rw [List.mem_reverse] at hd
  exact mem_takeWhile_prop hd

/-- the text of a factor `[multiplier] symbol [exponent]` -/
structure FactorText (look : Sym → Option CRow) (f : List Nat) (r : Factor) : Prop where
  ex : ∃ pre stem ds : List Nat, f = pre ++ stem ++ ds
    ∧ look (Sym.ofBytes stem) = some r.unit
    ∧ (∀ d ∈ pre, isDigitB d = true) ∧ (∀ d ∈ ds, isDigitB d = true)
    ∧ ((pre = [] ∧ r.pre = 1) ∨ (pre ≠ [] ∧ r.pre = natOfDigits pre))
    ∧ ((ds = [] ∧ r.exp = 1) ∨ (ds ≠ [] ∧ r.exp = natOfDigits ds ∧ 1 ≤ r.exp))

theorem factorPlain_text {look : Sym → Option CRow} {top : Bool} {f : List Nat} {r : Factor}
    (h : factorPlain look top f = some r) :
    ∃ stem ds : List Nat, f = stem ++ ds ∧ look (Sym.ofBytes stem) = some r.unit ∧ r.pre = 1
      ∧ (∀ d ∈ ds, isDigitB d = true)
      ∧ ((ds = [] ∧ r.exp = 1) ∨ (ds ≠ [] ∧ r.exp = natOfDigits ds ∧ 1 ≤ r.exp)) := by
  unfold factorPlain at h
  split at h
  · rename_i u hu
    cases h
    have hl : look (Sym.ofBytes f) = some u := by
      cases top with
      | true => simp at hu
      | false => simpa using hu
    exact ⟨f, [], by simp, hl, rfl, by simp, Or.inl ⟨rfl, rfl⟩⟩
  · simp only at h
    split at h
    · cases h
    · rename_i hcond
      split at h
      · rename_i u hu
        cases h
        have hne : (splitTrailingDigits f).2 ≠ [] := by
          intro e; simp [e] at hcond
        have hpos : 1 ≤ natOfDigits (splitTrailingDigits f).2 := by
          have : ¬ (natOfDigits (splitTrailingDigits f).2 == 0) = true := by
            intro e; simp [e] at hcond
          have : natOfDigits (splitTrailingDigits f).2 ≠ 0 := by simpa using this
          omega
        exact ⟨(splitTrailingDigits f).1, (splitTrailingDigits f).2, (splitTrailingDigits_append f).symm, hu, rfl,
          splitTrailingDigits_digits f, Or.inr ⟨hne, rfl, hpos⟩⟩
      · cases h

theorem factorOf_text {look : Sym → Option CRow} {top : Bool} {f : List Nat} {r : Factor}
    (h : factorOf look top f = some r) : FactorText look f r := by
  unfold factorOf at h
  split at h
  · rename_i r' hr'
    cases h
    obtain ⟨stem, ds, hf, hl, hp, hd, he⟩ := factorPlain_text hr'
    exact ⟨[], stem, ds, by simpa using hf, hl, by simp, hd, Or.inl ⟨rfl, hp⟩, he⟩
  · split at h
    · cases h
    · rename_i hcond
      split at h
      · rename_i r' hr'
        cases h
        obtain ⟨stem, ds, hf, hl, _hp, hd, he⟩ := factorPlain_text hr'
        have hne : f.takeWhile isDigitB ≠ [] := by
          intro e; simp [e] at hcond
        refine ⟨f.takeWhile isDigitB, stem, ds, ?_, hl, ?_, hd, Or.inr ⟨hne, rfl⟩, he⟩
        · rw [List.append_assoc, ← hf, List.takeWhile_append_dropWhile]
        · intro d hd'; exact mem_takeWhile_prop hd'
      · cases h

/-- the two lists have the same length and corresponding elements are related -/
inductive Forall2 {α β : Type} (R : α → β → Prop) : List α → List β → Prop
  | nil : Forall2 R [] []
  | cons {a b as bs} : R a b → Forall2 R as bs → Forall2 R (a :: as) (b :: bs)

theorem mapOpt_forall₂ {α β : Type} {f : α → Option β} {R : α → β → Prop} (hR : ∀ a b, f a = some b → R a b) :
    ∀ {l : List α} {r : List β}, mapOpt f l = some r → Forall2 R l r := by
  intro l
  induction l with
  | nil => intro r h; simp [mapOpt] at h; subst h; exact .nil
  | cons a as ih =>
    intro r h
    unfold mapOpt at h
    split at h
    · rename_i b bs hb hbs
      cases h
      exact .cons (hR a b hb) (ih hbs)
    · cases h

/-- every factor of a side is the reading of one `.`-separated piece of it (pieces `1` are the empty product) -/
theorem sideOf_text {look : Sym → Option CRow} {top : Bool} {s : List Nat} {fs : List Factor}
    (h : sideOf look top s = some fs) :
    Forall2 (FactorText look) ((splitOnB 46 s).filter (fun f => f != [49])) fs :=
  mapOpt_forall₂ (f := factorOf look top) (fun _ _ hb => factorOf_text hb) (by simpa [sideOf] using h)

/-- what a decomposition is: the symbol is `n/d` (exactly one `/`) or has no `/` at all; each side is cut
at its `.`s; every piece is `[multiplier] registered-symbol [exponent]` -/
theorem decompose_text {look : Sym → Option CRow} {s : List Nat} {a b : List Factor}
    (h : decompose look s = some (a, b)) :
    (∃ n d, s = n ++ [47] ++ d ∧ 47 ∉ n ∧ 47 ∉ d ∧ b ≠ []
        ∧ Forall2 (FactorText look) ((splitOnB 46 n).filter (fun f => f != [49])) a
        ∧ Forall2 (FactorText look) ((splitOnB 46 d).filter (fun f => f != [49])) b)
    ∨ (47 ∉ s ∧ b = [] ∧ a ≠ []
        ∧ Forall2 (FactorText look) ((splitOnB 46 s).filter (fun f => f != [49])) a) := by
  unfold decompose at h
  split at h
  · rename_i n d hsp
    split at h
    · rename_i fa fb ha hb
      split at h
      · cases h
      · rename_i hne
        cases h
        left
        have hj := intercalate_splitOnB 47 s
        have hn := splitOnB_no_sep 47 s
        rw [hsp] at hj hn
        refine ⟨n, d, ?_, hn n (by simp), hn d (by simp), ?_, sideOf_text ha, sideOf_text hb⟩
        · rw [← hj]; simp [List.intercalate]
        · intro e; simp [e] at hne
    · cases h
  · rename_i one hsp
    split at h
    · rename_i fa ha
      split at h
      · cases h
      · rename_i hne
        cases h
        right
        have hj := intercalate_splitOnB 47 s
        have hn := splitOnB_no_sep 47 s
        rw [hsp] at hj hn
        have hs : one = s := by rw [← hj]; simp [List.intercalate]
        subst hs
        exact ⟨hn one (by simp), rfl, by intro e; simp [e] at hne, sideOf_text ha⟩
    · cases h
  · cases h

end Barril
