/- Helper lemmas for C07 (model `Barril/Model/Intern.lean`). -/
import Barril.Model.Intern
namespace Barril.Intern
open Barril

theorem lookupKey_cons (a : Key × Nat) (rest : List (Key × Nat)) (k : Key) :
    lookupKey (a :: rest) k = if a.1 == k then some a.2 else lookupKey rest k := by
  unfold lookupKey
  rw [List.find?_cons]
  cases h : a.1 == k <;> simp

theorem lookupKey_setKey_self (c : List (Key × Nat)) (k : Key) (i : Nat) :
    lookupKey (setKey c k i) k = some i := by
  induction c with
  | nil => simp [setKey, lookupKey]
  | cons a rest ih =>
    unfold setKey
    cases h : a.1 == k
    · simp [lookupKey_cons, h, ih]
    · simp [lookupKey_cons, h]

theorem setKey_of_lookup_none {c : List (Key × Nat)} {k : Key} (i : Nat) (h : lookupKey c k = none) :
    setKey c k i = c ++ [(k, i)] := by
  induction c with
  | nil => rfl
  | cons a rest ih =>
    unfold setKey
    rw [lookupKey_cons] at h
    cases hk : a.1 == k
    · simp [hk] at h
      simp [ih h]
    · simp [hk] at h

theorem lookupKey_append_of_some {c t : List (Key × Nat)} {k : Key} {i : Nat} (h : lookupKey c k = some i) :
    lookupKey (c ++ t) k = some i := by
  induction c with
  | nil => simp [lookupKey] at h
  | cons a rest ih =>
    rw [List.cons_append, lookupKey_cons]
    rw [lookupKey_cons] at h
    cases hk : a.1 == k
    · simp [hk] at h; simp [ih h]
    · simpa [hk] using h

theorem lookupKey_append_single (c : List (Key × Nat)) (k k' : Key) (i : Nat) :
    lookupKey (c ++ [(k', i)]) k = match lookupKey c k with
      | some j => some j
      | none => if k' == k then some i else none := by
  induction c with
  | nil => simp [lookupKey]
  | cons a rest ih =>
    rw [List.cons_append, lookupKey_cons, lookupKey_cons]
    cases hk : a.1 == k
    · simp [ih]
    · simp

/-- `h'` extends `h`: at least as long and identical on the old addresses -/
def HeapExt (h h' : Heap) : Prop := h.length ≤ h'.length ∧ ∀ r, r < h.length → h'[r]? = h[r]?

theorem HeapExt.refl (h : Heap) : HeapExt h h := ⟨Nat.le_refl _, fun _ _ => rfl⟩

theorem HeapExt.trans {a b c : Heap} (h1 : HeapExt a b) (h2 : HeapExt b c) : HeapExt a c :=
  ⟨Nat.le_trans h1.1 h2.1, fun r hr => by rw [h2.2 r (Nat.lt_of_lt_of_le hr h1.1), h1.2 r hr]⟩

theorem HeapExt.append (h t : Heap) : HeapExt h (h ++ t) :=
  ⟨by simp, fun r hr => by simp [List.getElem?_append_left hr]⟩

theorem allocMany_heap (h : Heap) (items : List (Sym × Cell)) :
    (allocMany h items).1 = h ++ items.map (·.2) := by
  induction items generalizing h with
  | nil => simp [allocMany]
  | cons a rest ih => obtain ⟨k, c⟩ := a; simp [allocMany, ih]

theorem allocMany_refs (h : Heap) (items : List (Sym × Cell)) :
    ∀ kr ∈ (allocMany h items).2, h.length ≤ kr.2 ∧ kr.2 < h.length + items.length := by
  induction items generalizing h with
  | nil => simp [allocMany]
  | cons a rest ih =>
    obtain ⟨k, c⟩ := a
    intro kr hkr
    simp only [allocMany, List.mem_cons] at hkr
    rcases hkr with rfl | hkr
    · simp
    · have := ih (h ++ [c]) kr hkr
      simp only [List.length_append, List.length_cons, List.length_nil] at this ⊢
      omega

theorem allocMany_keys (h : Heap) (items : List (Sym × Cell)) :
    (allocMany h items).2.map (·.1) = items.map (·.1) := by
  induction items generalizing h with
  | nil => simp [allocMany]
  | cons a rest ih => obtain ⟨k, c⟩ := a; simp [allocMany, ih]

theorem readMap_ext {h h' : Heap} {m : Map} (hm : ∀ kr ∈ m, kr.2 < h.length) (he : HeapExt h h') :
    readMap h' m = readMap h m := by
  induction m with
  | nil => rfl
  | cons a rest ih =>
    obtain ⟨k, r⟩ := a
    have hr : r < h.length := hm (k, r) (by simp)
    have ih' := ih (fun kr hkr => hm kr (by simp [hkr]))
    simp only [readMap, he.2 r hr, ih']

theorem readMap_allocMany (h : Heap) (items : List (Sym × Cell)) :
    readMap (allocMany h items).1 (allocMany h items).2 = some items := by
  induction items generalizing h with
  | nil => simp [allocMany, readMap]
  | cons a rest ih =>
    obtain ⟨k, c⟩ := a
    simp only [allocMany, readMap]
    have h1 : (allocMany (h ++ [c]) rest).1[h.length]? = some c := by
      rw [allocMany_heap]
      simp
    rw [h1, ih]

theorem readMap_some_wf {h : Heap} {m : Map} {cs : List (Sym × Cell)} (hr : readMap h m = some cs) :
    ∀ kr ∈ m, kr.2 < h.length := by
  induction m generalizing cs with
  | nil => simp
  | cons a rest ih =>
    obtain ⟨k, r⟩ := a
    simp only [readMap] at hr
    cases hc : h[r]? with
    | none => simp [hc] at hr
    | some c =>
      cases hrest : readMap h rest with
      | none => simp [hc, hrest] at hr
      | some cs' =>
        intro kr hkr
        simp only [List.mem_cons] at hkr
        rcases hkr with rfl | hkr
        · exact (List.getElem?_eq_some_iff.mp hc).1
        · exact ih hrest kr hkr

theorem readMap_wf_some {h : Heap} {m : Map} (hm : ∀ kr ∈ m, kr.2 < h.length) :
    ∃ cs, readMap h m = some cs := by
  induction m with
  | nil => exact ⟨[], rfl⟩
  | cons a rest ih =>
    obtain ⟨k, r⟩ := a
    have hr : r < h.length := hm (k, r) (by simp)
    obtain ⟨cs, hcs⟩ := ih (fun kr hkr => hm kr (by simp [hkr]))
    refine ⟨(k, h[r]) :: cs, ?_⟩
    simp [readMap, List.getElem?_eq_getElem hr, hcs]


/-! ### the two writing loops only touch the addresses of the map they are given -/

theorem odGet_mem {α : Type} {m : List (Sym × α)} {k : Sym} {v : α} (h : odGet m k = some v) :
    ∃ k', (k', v) ∈ m := by
  unfold odGet at h
  cases hf : m.find? (·.1 == k) with
  | none => simp [hf] at h
  | some a =>
    simp [hf] at h
    exact ⟨a.1, by rw [← h]; exact List.mem_of_find?_eq_some hf⟩

theorem matchPass_frame {db : Db} {n : Nat} (m : Map) :
    ∀ (h : Heap) (found : List (Sym × Sym)) {h' : Heap} {f' : List (Sym × Sym)},
      (∀ kr ∈ m, n ≤ kr.2) → matchPass db h found m = .ok (h', f') →
      h'.length = h.length ∧ ∀ r, r < n → h'[r]? = h[r]? := by
  induction m with
  | nil =>
    intro h found h' f' _ hm
    simp only [matchPass, Except.ok.injEq, Prod.mk.injEq] at hm
    obtain ⟨rfl, rfl⟩ := hm
    exact ⟨rfl, fun _ _ => rfl⟩
  | cons a rest ih =>
    obtain ⟨cat, r⟩ := a
    intro h found h' f' hrefs hm
    have hrest : ∀ kr ∈ rest, n ≤ kr.2 := fun kr hkr => hrefs kr (by simp [hkr])
    have hr : n ≤ r := hrefs (cat, r) (by simp)
    simp only [matchPass] at hm
    split at hm
    · cases hm
    · split at hm
      · cases hm
      · split at hm
        · exact ih h _ hrest hm
        · split at hm
          · cases hm
          · split at hm
            · cases hm
            · obtain ⟨hl, hf⟩ := ih _ _ hrest hm
              refine ⟨by simpa using hl, fun r0 hr0 => ?_⟩
              rw [hf r0 hr0, List.getElem?_set_ne (by omega)]

theorem matchQuantities_frame {db : Db} {n : Nat} {h h' : Heap} {m1 m2 : Map}
    (h1 : ∀ kr ∈ m1, n ≤ kr.2) (h2 : ∀ kr ∈ m2, n ≤ kr.2) (hm : matchQuantities db h m1 m2 = .ok h') :
    h'.length = h.length ∧ ∀ r, r < n → h'[r]? = h[r]? := by
  unfold matchQuantities at hm
  split at hm
  · cases hm
  · rename_i ha hf1 heq1
    split at hm
    · cases hm
    · rename_i hb hf2 heq2
      cases hm
      obtain ⟨l1, f1⟩ := matchPass_frame m1 h [] h1 heq1
      obtain ⟨l2, f2⟩ := matchPass_frame m2 _ _ h2 heq2
      exact ⟨by rw [l2, l1], fun r hr => by rw [f2 r hr, f1 r hr]⟩

theorem mergePass_frame {div : Bool} {n : Nat} (m2 : Map) :
    ∀ (h : Heap) (m1 : Map) {h' : Heap} {m1' : Map},
      n ≤ h.length → (∀ kr ∈ m1, n ≤ kr.2) → mergePass div h m1 m2 = .ok (h', m1') →
      h.length ≤ h'.length ∧ ∀ r, r < n → h'[r]? = h[r]? := by
  induction m2 with
  | nil =>
    intro h m1 h' m1' _ _ hm
    simp only [mergePass, Except.ok.injEq, Prod.mk.injEq] at hm
    obtain ⟨rfl, rfl⟩ := hm
    exact ⟨Nat.le_refl _, fun _ _ => rfl⟩
  | cons a rest ih =>
    obtain ⟨c2, r2⟩ := a
    intro h m1 h' m1' hn hrefs hm
    simp only [mergePass] at hm
    split at hm
    · cases hm
    · split at hm
      · have := ih (h ++ [_]) (m1 ++ [(c2, h.length)]) (by simp; omega)
          (by
            intro kr hkr
            simp only [List.mem_append, List.mem_singleton] at hkr
            rcases hkr with hkr | rfl
            · exact hrefs kr hkr
            · exact hn) hm
        obtain ⟨hl, hf⟩ := this
        refine ⟨by simp at hl; omega, fun r0 hr0 => ?_⟩
        rw [hf r0 hr0, List.getElem?_append_left (by omega)]
      · rename_i r1 hget
        split at hm
        · cases hm
        · split at hm
          · split at hm
            · cases hm
            · obtain ⟨k', hk'⟩ := odGet_mem hget
              have hr1 : n ≤ r1 := hrefs _ hk'
              obtain ⟨hl, hf⟩ := ih (h.set r1 _) m1 (by simpa using hn) hrefs hm
              refine ⟨by simpa using hl, fun r0 hr0 => ?_⟩
              rw [hf r0 hr0, List.getElem?_set_ne (by omega)]
          · cases hm


/-! ### the invariant of reachable states -/

theorem lookupKey_append (c t : List (Key × Nat)) (k : Key) :
    lookupKey (c ++ t) k = match lookupKey c k with
      | some j => some j
      | none => lookupKey t k := by
  induction c with
  | nil => simp [lookupKey]
  | cons a rest ih =>
    rw [List.cons_append, lookupKey_cons, lookupKey_cons]
    cases hk : a.1 == k
    · simp [ih]
    · simp

theorem lookupKey_const_some {ks : List Key} {n : Nat} {k : Key} {j : Nat}
    (h : lookupKey (ks.map (fun k => (k, n))) k = some j) : k ∈ ks ∧ j = n := by
  induction ks with
  | nil => simp [lookupKey] at h
  | cons a rest ih =>
    rw [List.map_cons, lookupKey_cons] at h
    cases hk : a == k
    · simp [hk] at h
      obtain ⟨h1, h2⟩ := ih h
      exact ⟨by simp [h1], h2⟩
    · simp [hk] at h
      have : a = k := by simpa using hk
      exact ⟨by simp [this], h.symm⟩

theorem lookupKey_mem {c : List (Key × Nat)} {k : Key} {i : Nat} (h : lookupKey c k = some i) :
    (k, i) ∈ c := by
  unfold lookupKey at h
  cases hf : c.find? (·.1 == k) with
  | none => simp [hf] at h
  | some a =>
    simp [hf] at h
    have hm := List.mem_of_find?_eq_some hf
    have hk := List.find?_some hf
    simp at hk
    obtain ⟨a1, a2⟩ := a
    simp at hk h
    subst hk; subst h
    exact hm

/-- what holds of the object with identity `i` in a reachable state -/
structure ObjOk (db : Db) (s : State) (i : Nat) (q : Quantity) : Prop where
  /-- no dangling references -/
  wf : ∀ kr ∈ q.map, kr.2 < s.heap.length
  /-- a simple quantity is one `[unit, 1]` list under its category, the unit valid for it -/
  simple : q.derived = false → ∃ cat r u, q.map = [(cat, r)] ∧ s.heap[r]? = some ⟨u, 1, false⟩ ∧
    db.categoryUnitValid cat u = true
  /-- a derived quantity is not of the "simple" shape and is interned under its composing key -/
  derived : q.derived = true → ∃ cs, readMap s.heap q.map = some cs ∧ dictIsSingleOne cs = none ∧
    lookupKey s.cache (.comp (content cs) q.caption) = some i ∧ (∀ kc ∈ cs, kc.2.frozen = false) ∧
    validateItems db cs = .ok ()

structure Inv (db : Db) (s : State) : Prop where
  objs : ∀ i q, s.objs[i]? = some q → ObjOk db s i q
  range : ∀ k i, (k, i) ∈ s.cache → i < s.objs.length
  /-- a `(category, unit, caption)` entry points to the simple quantity that request resolves to -/
  simpleKey : ∀ cat u cap j, lookupKey s.cache (.simple (some cat) (some u) cap) = some j →
    ∃ q r u', s.objs[j]? = some q ∧ q.derived = false ∧ q.map = [(cat, r)] ∧
      s.heap[r]? = some ⟨u', 1, false⟩ ∧ resolveSimpleUnit db cat u = .ok u' ∧ q.caption = capStr cap
  empty : ∀ i, s.empty = some i → i < s.objs.length

theorem inv_init (db : Db) : Inv db {} :=
  ⟨fun i q h => by simp at h, fun k i h => by simp at h, fun _ _ _ _ h => by simp [lookupKey] at h,
   fun i h => by simp at h⟩

theorem ObjOk.mono {db : Db} {s s' : State} {i : Nat} {q : Quantity} (h : ObjOk db s i q)
    (hh : HeapExt s.heap s'.heap) (hc : ∀ k j, lookupKey s.cache k = some j → lookupKey s'.cache k = some j) :
    ObjOk db s' i q := by
  refine ⟨fun kr hkr => Nat.lt_of_lt_of_le (h.wf kr hkr) hh.1, fun hd => ?_, fun hd => ?_⟩
  · obtain ⟨cat, r, u, hm, hr, hv⟩ := h.simple hd
    refine ⟨cat, r, u, hm, ?_, hv⟩
    have : r < s.heap.length := h.wf (cat, r) (by simp [hm])
    rw [hh.2 r this, hr]
  · obtain ⟨cs, hr, hs, hl⟩ := h.derived hd
    exact ⟨cs, by rw [readMap_ext h.wf hh, hr], hs, hc _ _ hl.1, hl.2⟩

/-- only the heap grew (working copies of an arithmetic routine) -/
theorem Inv.heapExt {db : Db} {s : State} (hs : Inv db s) {h' : Heap} (hh : HeapExt s.heap h') :
    Inv db { s with heap := h' } := by
  refine ⟨fun i q hq => (hs.objs i q hq).mono hh (fun _ _ h => h), hs.range, ?_, hs.empty⟩
  intro cat u cap j hl
  obtain ⟨q, r, u', h1, h2, h3, h4, h5, h6⟩ := hs.simpleKey cat u cap j hl
  refine ⟨q, r, u', h1, h2, h3, ?_, h5, h6⟩
  have : r < s.heap.length := (hs.objs j q h1).wf (cat, r) (by simp [h3])
  show h'[r]? = _
  rw [hh.2 r this, h4]

/-- a new object, registered under new keys -/
theorem Inv.create {db : Db} {s : State} (hs : Inv db s) (cells : List Cell) (q : Quantity)
    (newKeys : List Key)
    (hq : ObjOk db ⟨s.heap ++ cells, s.objs ++ [q], s.cache ++ newKeys.map (fun k => (k, s.objs.length)), s.empty⟩
      s.objs.length q)
    (hsk : ∀ cat u cap, Key.simple (some cat) (some u) cap ∈ newKeys → q.derived = false ∧ ∃ r u',
      q.map = [(cat, r)] ∧ (s.heap ++ cells)[r]? = some ⟨u', 1, false⟩ ∧
      resolveSimpleUnit db cat u = .ok u' ∧ q.caption = capStr cap) :
    Inv db ⟨s.heap ++ cells, s.objs ++ [q], s.cache ++ newKeys.map (fun k => (k, s.objs.length)), s.empty⟩ := by
  refine ⟨?_, ?_, ?_, ?_⟩
  · intro i q' hq'
    by_cases hi : i < s.objs.length
    · have : s.objs[i]? = some q' := by simpa [List.getElem?_append_left hi] using hq'
      exact (hs.objs i q' this).mono (HeapExt.append _ _) (fun k j h => lookupKey_append_of_some h)
    · have hlen : (s.objs ++ [q])[i]? = some q' := hq'
      have hi2 : i = s.objs.length := by
        have := (List.getElem?_eq_some_iff.mp hlen).1
        simp at this; omega
      subst hi2
      have : q' = q := by simpa using hlen.symm
      subst this
      exact hq
  · intro k i hki
    simp only [List.mem_append, List.mem_map] at hki
    simp only [List.length_append, List.length_cons, List.length_nil]
    rcases hki with hki | ⟨k', _, hk'⟩
    · have := hs.range k i hki; omega
    · simp only [Prod.mk.injEq] at hk'; omega
  · intro cat u cap j hl
    simp only at hl
    rw [lookupKey_append] at hl
    cases hold : lookupKey s.cache (.simple (some cat) (some u) cap) with
    | some j0 =>
      simp only [hold, Option.some.injEq] at hl
      subst hl
      obtain ⟨q0, r, u', h1, h2, h3, h4, h5, h6⟩ := hs.simpleKey cat u cap j0 hold
      have hj : j0 < s.objs.length := (List.getElem?_eq_some_iff.mp h1).1
      have hr : r < s.heap.length := (hs.objs j0 q0 h1).wf (cat, r) (by simp [h3])
      exact ⟨q0, r, u', by simp [List.getElem?_append_left hj, h1], h2, h3,
        by simp [List.getElem?_append_left hr, h4], h5, h6⟩
    | none =>
      simp only [hold] at hl
      obtain ⟨hmem, hj⟩ := lookupKey_const_some hl
      subst hj
      obtain ⟨hd, r, u', h3, h4, h5, h6⟩ := hsk cat u cap hmem
      exact ⟨q, r, u', by simp, hd, h3, h4, h5, h6⟩
  · intro i hi
    have := hs.empty i hi
    simp only [List.length_append, List.length_cons, List.length_nil]; omega


/-! ### `ObtainQuantity` keeps the invariant and only extends the state -/

/-- `s'` extends `s`: nothing that existed was altered -/
structure Ext (s s' : State) : Prop where
  heap : HeapExt s.heap s'.heap
  objs : ∃ t, s'.objs = s.objs ++ t
  cache : ∃ t, s'.cache = s.cache ++ t
  empty : ∀ i, s.empty = some i → s'.empty = some i

theorem Ext.refl (s : State) : Ext s s := ⟨HeapExt.refl _, ⟨[], by simp⟩, ⟨[], by simp⟩, fun _ h => h⟩

theorem Ext.trans {a b c : State} (h1 : Ext a b) (h2 : Ext b c) : Ext a c := by
  obtain ⟨t1, e1⟩ := h1.objs
  obtain ⟨t2, e2⟩ := h2.objs
  obtain ⟨u1, f1⟩ := h1.cache
  obtain ⟨u2, f2⟩ := h2.cache
  exact ⟨h1.heap.trans h2.heap, ⟨t1 ++ t2, by rw [e2, e1, List.append_assoc]⟩,
    ⟨u1 ++ u2, by rw [f2, f1, List.append_assoc]⟩, fun i h => h2.empty i (h1.empty i h)⟩

theorem Ext.heapOnly (s : State) {h' : Heap} (hh : HeapExt s.heap h') : Ext s { s with heap := h' } :=
  ⟨hh, ⟨[], by simp⟩, ⟨[], by simp⟩, fun _ h => h⟩

theorem compKey_eq (items : List (Sym × Cell)) (cap : Option Sym) :
    compKey items cap = .comp (content items) (capStr cap) := by
  unfold compKey capTruthy capKey capStr
  cases cap with
  | none => simp
  | some c => by_cases hc : c = 0 <;> simp [hc]

theorem resolveSimpleUnit_valid {db : Db} {cat unit u : Sym} (h : resolveSimpleUnit db cat unit = .ok u) :
    db.categoryUnitValid cat u = true := by
  unfold resolveSimpleUnit at h
  split at h
  · cases h; assumption
  · split at h
    · split at h
      · cases h; assumption
      · cases h
    · cases h

theorem resolveSimpleUnit_of_valid {db : Db} {cat u : Sym} (h : db.categoryUnitValid cat u = true) :
    resolveSimpleUnit db cat u = .ok u := by
  unfold resolveSimpleUnit; simp [h]

theorem newSimple_spec (db : Db) (s : State) (cat unit : Sym) (cap : Option Sym) :
    (∃ e, newSimple db s cat unit cap = (s, .error e)) ∨
    (∃ u, resolveSimpleUnit db cat unit = .ok u ∧
      newSimple db s cat unit cap =
        (⟨s.heap ++ [⟨u, 1, false⟩], s.objs ++ [⟨[(cat, s.heap.length)], capStr cap, false⟩], s.cache, s.empty⟩,
         .ok s.objs.length)) := by
  unfold newSimple
  split
  · exact .inl ⟨_, rfl⟩
  · split
    · exact .inl ⟨_, rfl⟩
    · rename_i u hu
      split
      · exact .inl ⟨_, rfl⟩
      · exact .inr ⟨u, hu, rfl⟩

theorem content_thaw (items : List (Sym × Cell)) : content (thaw items) = content items := by
  simp [content, thaw, List.map_map, Function.comp_def]

theorem thaw_unfrozen (items : List (Sym × Cell)) : ∀ kc ∈ thaw items, kc.2.frozen = false := by
  intro kc hkc
  simp only [thaw, List.mem_map] at hkc
  obtain ⟨a, _, rfl⟩ := hkc
  rfl

theorem validateItems_thaw (db : Db) (items : List (Sym × Cell)) :
    validateItems db (thaw items) = validateItems db items := by
  induction items with
  | nil => rfl
  | cons a rest ih =>
    obtain ⟨k, c⟩ := a
    simp only [thaw, List.map_cons, validateItems] at ih ⊢
    cases db.catByName k with
    | none => rfl
    | some ci =>
      simp only
      cases db.checkQuantityTypeUnit ci.qtype c.unit with
      | error e => rfl
      | ok _ => simpa [thaw] using ih

theorem dictIsSingleOne_thaw (items : List (Sym × Cell)) :
    dictIsSingleOne (thaw items) = none ↔ dictIsSingleOne items = none := by
  cases items with
  | nil => simp [thaw, dictIsSingleOne]
  | cons a rest =>
    cases rest with
    | nil => by_cases h : a.2.exp = 1 <;> simp [thaw, dictIsSingleOne, h]
    | cons _ _ => simp [thaw, dictIsSingleOne]

theorem newDerived_spec (db : Db) (s : State) (items : List (Sym × Cell)) (od : Bool) (cap : Option Sym) :
    (∃ e, newDerived db s items od cap = (s, .error e)) ∨
    (newDerived db s items od cap =
        (⟨s.heap ++ (thaw items).map (·.2), s.objs ++ [⟨(allocMany s.heap (thaw items)).2, capStr cap, true⟩], s.cache, s.empty⟩,
         .ok s.objs.length)) := by
  unfold newDerived
  split
  · exact .inl ⟨_, rfl⟩
  · split
    · exact .inl ⟨_, rfl⟩
    · refine .inr ?_
      simp only [State.push, allocMany_heap]

/-- the conclusion shared by all creation routines -/
structure Good (db : Db) (s s' : State) (r : Except ErrKind Nat) : Prop where
  inv : Inv db s'
  ext : Ext s s'
  res : ∀ i, r = .ok i → i < s'.objs.length

theorem Good.same {db : Db} {s : State} (hs : Inv db s) (e : ErrKind) : Good db s s (.error e) :=
  ⟨hs, Ext.refl s, fun i h => by cases h⟩

theorem Good.hit {db : Db} {s : State} (hs : Inv db s) {k : Key} {i : Nat} (h : lookupKey s.cache k = some i) :
    Good db s s (.ok i) :=
  ⟨hs, Ext.refl s, fun j hj => by cases hj; exact hs.range k i (lookupKey_mem h)⟩

theorem Good.trans {db : Db} {a b c : State} {r1 r2 : Except ErrKind Nat} (h1 : Good db a b r1)
    (h2 : Good db b c r2) : Good db a c r2 := ⟨h2.inv, h1.ext.trans h2.ext, h2.res⟩

theorem ext_create (s : State) (cells : List Cell) (q : Quantity) (newKeys : List Key) :
    Ext s ⟨s.heap ++ cells, s.objs ++ [q], s.cache ++ newKeys.map (fun k => (k, s.objs.length)), s.empty⟩ :=
  ⟨HeapExt.append _ _, ⟨_, rfl⟩, ⟨_, rfl⟩, fun _ h => h⟩

/-- a simple quantity created and registered under `key` (a key of category `cat`) -/
theorem cacheNew_simple_good {db : Db} {s : State} (hs : Inv db s) (cat unit : Sym) (cap : Option Sym)
    (ku : Option Sym) (hku : ku = none ∨ ku = some unit)
    (hmiss : lookupKey s.cache (.simple (some cat) ku cap) = none) {s' : State} {r : Except ErrKind Nat}
    (h : cacheNew (newSimple db s cat unit cap) (.simple (some cat) ku cap) = (s', r)) : Good db s s' r := by
  rcases newSimple_spec db s cat unit cap with ⟨e, he⟩ | ⟨u, hu, hok⟩
  · rw [he] at h; simp only [cacheNew, Prod.mk.injEq] at h
    obtain ⟨rfl, rfl⟩ := h; exact Good.same hs e
  · rw [hok] at h
    simp only [cacheNew, setKey_of_lookup_none _ hmiss, Prod.mk.injEq] at h
    obtain ⟨rfl, rfl⟩ := h
    have hinv := Inv.create hs [⟨u, 1, false⟩] ⟨[(cat, s.heap.length)], capStr cap, false⟩
      [.simple (some cat) ku cap]
      ⟨by simp, fun _ => ⟨cat, s.heap.length, u, rfl, by simp, resolveSimpleUnit_valid hu⟩,
       fun hd => by simp at hd⟩
      (by
        intro cat' u' cap' hmem
        simp only [List.mem_singleton, Key.simple.injEq] at hmem
        obtain ⟨h1, h2, h3⟩ := hmem
        simp only [Option.some.injEq] at h1
        subst h1; subst h3
        rcases hku with hk | hk
        · rw [hk] at h2; cases h2
        · rw [hk] at h2; simp only [Option.some.injEq] at h2; subst h2
          exact ⟨rfl, s.heap.length, u, rfl, by simp, hu, rfl⟩)
    exact ⟨hinv, ext_create s _ _ [_], fun i hi => by cases hi; simp⟩


/-- a simple quantity created and registered under its resolved key and under the `None` key -/
theorem cacheNew2_simple_good {db : Db} {s : State} (hs : Inv db s) (cat unit : Sym) (cap : Option Sym)
    (ku : Option Sym)
    (hmiss2 : lookupKey s.cache (.simple (some cat) (some unit) cap) = none)
    (hmiss : lookupKey s.cache (.simple none ku cap) = none) {s' : State} {r : Except ErrKind Nat}
    (h : cacheNew2 (newSimple db s cat unit cap) (.simple (some cat) (some unit) cap) (.simple none ku cap) = (s', r)) :
    Good db s s' r := by
  rcases newSimple_spec db s cat unit cap with ⟨e, he⟩ | ⟨u, hu, hok⟩
  · rw [he] at h; simp only [cacheNew2, Prod.mk.injEq] at h
    obtain ⟨rfl, rfl⟩ := h; exact Good.same hs e
  · rw [hok] at h
    have hm : lookupKey (s.cache ++ [(Key.simple (some cat) (some unit) cap, s.objs.length)])
        (.simple none ku cap) = none := by
      rw [lookupKey_append_single, hmiss]; simp
    simp only [cacheNew2, setKey_of_lookup_none _ hmiss2, setKey_of_lookup_none _ hm, Prod.mk.injEq,
      List.append_assoc, List.cons_append, List.nil_append] at h
    obtain ⟨rfl, rfl⟩ := h
    have hinv := Inv.create hs [⟨u, 1, false⟩] ⟨[(cat, s.heap.length)], capStr cap, false⟩
      [.simple (some cat) (some unit) cap, .simple none ku cap]
      ⟨by simp, fun _ => ⟨cat, s.heap.length, u, rfl, by simp, resolveSimpleUnit_valid hu⟩,
       fun hd => by simp at hd⟩
      (by
        intro cat' u' cap' hmem
        simp only [List.mem_cons, Key.simple.injEq, List.mem_nil_iff, or_false] at hmem
        rcases hmem with ⟨h1, h2, h3⟩ | ⟨h1, _, _⟩
        · simp only [Option.some.injEq] at h1 h2
          subst h1; subst h2; subst h3
          exact ⟨rfl, s.heap.length, u, rfl, by simp, hu, rfl⟩
        · cases h1)
    exact ⟨hinv, ext_create s _ _ [_, _], fun i hi => by cases hi; simp⟩

/-- a derived quantity created and registered under its composing key -/
theorem cacheNew_derived_good {db : Db} {s : State} (hs : Inv db s) (items : List (Sym × Cell)) (od : Bool)
    (cap : Option Sym) (hshape : dictIsSingleOne items = none) (hval : validateItems db items = .ok ())
    (hmiss : lookupKey s.cache (compKey items cap) = none) {s' : State} {r : Except ErrKind Nat}
    (h : cacheNew (newDerived db s items od cap) (compKey items cap) = (s', r)) : Good db s s' r := by
  rcases newDerived_spec db s items od cap with ⟨e, he⟩ | hok
  · rw [he] at h; simp only [cacheNew, Prod.mk.injEq] at h
    obtain ⟨rfl, rfl⟩ := h; exact Good.same hs e
  · rw [hok] at h
    simp only [cacheNew, setKey_of_lookup_none _ hmiss, Prod.mk.injEq] at h
    obtain ⟨rfl, rfl⟩ := h
    have hinv := Inv.create hs ((thaw items).map (·.2)) ⟨(allocMany s.heap (thaw items)).2, capStr cap, true⟩
      [compKey items cap]
      ⟨by
        intro kr hkr
        have := (allocMany_refs s.heap (thaw items) kr hkr).2
        simpa using this,
       fun hd => by simp at hd,
       fun _ => ⟨thaw items, by
          have := readMap_allocMany s.heap (thaw items)
          rw [allocMany_heap] at this
          exact this, by rw [dictIsSingleOne_thaw]; exact hshape, by
          simp only [List.map_cons, List.map_nil]
          rw [lookupKey_append_single, content_thaw, ← compKey_eq, hmiss]
          simp, thaw_unfrozen items, by rw [validateItems_thaw]; exact hval⟩⟩
      (by
        intro cat' u' cap' hmem
        rw [compKey_eq] at hmem
        simp at hmem)
    exact ⟨hinv, ext_create s _ _ [_], fun i hi => by cases hi; simp⟩

theorem obtainDefaultCat_good {db : Db} {s : State} (hs : Inv db s) (unit : Sym) (cap : Option Sym)
    (ku : Option Sym) (hmiss : lookupKey s.cache (.simple none ku cap) = none)
    {s' : State} {r : Except ErrKind Nat}
    (h : obtainDefaultCat db s unit cap (.simple none ku cap) = (s', r)) : Good db s s' r := by
  unfold obtainDefaultCat at h
  split at h
  · simp only [Prod.mk.injEq] at h; obtain ⟨rfl, rfl⟩ := h; exact Good.same hs _
  · simp only at h
    split at h
    · simp only [Prod.mk.injEq] at h; obtain ⟨rfl, rfl⟩ := h; exact Good.same hs _
    · split at h
      · rename_i i hi
        simp only [Prod.mk.injEq] at h; obtain ⟨rfl, rfl⟩ := h; exact Good.hit hs hi
      · rename_i hm2
        split at h
        · simp only [Prod.mk.injEq] at h; obtain ⟨rfl, rfl⟩ := h; exact Good.same hs _
        · exact cacheNew2_simple_good hs _ _ cap ku hm2 hmiss h

theorem obtainKey_good {db : Db} {s : State} (hs : Inv db s) (u : Option Sym) (c : CatArg) (cap : Option Sym)
    {s' : State} {r : Except ErrKind Nat} (h : obtainKey db s u c cap = (s', r)) : Good db s s' r := by
  unfold obtainKey at h
  split at h
  · simp only [Prod.mk.injEq] at h; obtain ⟨rfl, rfl⟩ := h; exact Good.same hs _
  · split at h <;>
      (simp only [Prod.mk.injEq] at h; obtain ⟨rfl, rfl⟩ := h; exact Good.same hs _)
  · rename_i cat
    simp only at h
    split at h
    · rename_i i hi
      simp only [Prod.mk.injEq] at h; obtain ⟨rfl, rfl⟩ := h; exact Good.hit hs hi
    · rename_i hmiss
      split at h
      · split at h
        · simp only [Prod.mk.injEq] at h; obtain ⟨rfl, rfl⟩ := h; exact Good.same hs _
        · exact cacheNew_simple_good hs cat _ cap none (.inl rfl) hmiss h
      · rename_i unit
        exact cacheNew_simple_good hs cat unit cap (some unit) (.inr rfl) hmiss h
  · simp only at h
    split at h
    · rename_i i hi
      simp only [Prod.mk.injEq] at h; obtain ⟨rfl, rfl⟩ := h; exact Good.hit hs hi
    · rename_i hmiss
      split at h
      · simp only [Prod.mk.injEq] at h; obtain ⟨rfl, rfl⟩ := h; exact Good.same hs _
      · exact obtainDefaultCat_good hs _ cap _ hmiss h

theorem obtainDict_good {db : Db} {s : State} (hs : Inv db s) (items : List (Sym × Cell)) (od : Bool)
    (c : CatArg) (cap : Option Sym) {s' : State} {r : Except ErrKind Nat}
    (h : obtainDict db s items od c cap = (s', r)) : Good db s s' r := by
  unfold obtainDict at h
  split at h
  · split at h
    · exact obtainKey_good hs _ _ cap h
    · rename_i hshape
      split at h
      · rename_i i hi
        simp only [Prod.mk.injEq] at h; obtain ⟨rfl, rfl⟩ := h; exact Good.hit hs hi
      · rename_i hmiss
        split at h
        · simp only [Prod.mk.injEq] at h; obtain ⟨rfl, rfl⟩ := h; exact Good.same hs _
        · rename_i hval
          exact cacheNew_derived_good hs items od cap hshape hval hmiss h
  · simp only [Prod.mk.injEq] at h; obtain ⟨rfl, rfl⟩ := h; exact Good.same hs _

/-- **`ObtainQuantity` keeps the invariant, alters nothing that exists and returns a live object** -/
theorem obtain_good {db : Db} {s : State} (hs : Inv db s) (u : UnitArg) (c : CatArg) (cap : Option Sym)
    {s' : State} {r : Except ErrKind Nat} (h : obtain db s u c cap = (s', r)) : Good db s s' r := by
  unfold obtain at h
  split at h
  · simp only [Prod.mk.injEq] at h; obtain ⟨rfl, rfl⟩ := h; exact Good.same hs _
  · exact obtainDict_good hs _ _ _ cap h
  · exact obtainKey_good hs _ _ cap h
  · exact obtainKey_good hs _ _ cap h
  · simp only [Prod.mk.injEq] at h; obtain ⟨rfl, rfl⟩ := h; exact Good.same hs _


/-! ### the other creation routines and the arithmetic routines -/

theorem Ext.objs_len {s s' : State} (h : Ext s s') : s.objs.length ≤ s'.objs.length := by
  obtain ⟨t, e⟩ := h.objs; rw [e]; simp

theorem Ext.objs_get {s s' : State} (h : Ext s s') {i : Nat} {q : Quantity} (hq : s.objs[i]? = some q) :
    s'.objs[i]? = some q := by
  obtain ⟨t, e⟩ := h.objs
  have hi : i < s.objs.length := (List.getElem?_eq_some_iff.mp hq).1
  rw [e, List.getElem?_append_left hi, hq]

theorem Inv.setEmpty {db : Db} {s : State} (hs : Inv db s) {i : Nat} (hi : i < s.objs.length) :
    Inv db { s with empty := some i } :=
  ⟨fun j q h => ⟨(hs.objs j q h).wf, (hs.objs j q h).simple, (hs.objs j q h).derived⟩, hs.range,
   hs.simpleKey, fun j hj => by cases hj; exact hi⟩

theorem createEmpty_good {db : Db} {s : State} (hs : Inv db s) {s' : State} {r : Except ErrKind Nat}
    (h : createEmpty db s = (s', r)) : Good db s s' r := by
  unfold createEmpty at h
  split at h
  · rename_i i hi
    simp only [Prod.mk.injEq] at h; obtain ⟨rfl, rfl⟩ := h
    exact ⟨hs, Ext.refl s, fun j hj => by cases hj; exact hs.empty i hi⟩
  · rename_i hnone
    split at h
    · rename_i s1 i heq
      have g := obtain_good hs _ _ _ heq
      simp only [Prod.mk.injEq] at h; obtain ⟨rfl, rfl⟩ := h
      refine ⟨g.inv.setEmpty (g.res i rfl), ⟨g.ext.heap, g.ext.objs, g.ext.cache, ?_⟩, g.res⟩
      intro j hj; rw [hnone] at hj; cases hj
    · rename_i s1 e heq
      have g := obtain_good hs _ _ _ heq
      simp only [Prod.mk.injEq] at h; obtain ⟨rfl, rfl⟩ := h
      exact ⟨g.inv, g.ext, fun i hi => by cases hi⟩

theorem createDerived_good {db : Db} {s : State} (hs : Inv db s) (items : List (Sym × Cell))
    (cap : Option Sym) {s' : State} {r : Except ErrKind Nat}
    (h : createDerived db s items cap = (s', r)) : Good db s s' r := by
  unfold createDerived at h
  split at h
  · simp only [Prod.mk.injEq] at h; obtain ⟨rfl, rfl⟩ := h; exact Good.same hs _
  · exact obtain_good hs _ _ _ h

theorem makeCopy_good {db : Db} {s : State} (hs : Inv db s) (caption : Sym) (items : List (Sym × Cell))
    {s' : State} {r : Except ErrKind Nat} (h : makeCopy db s caption items = (s', r)) : Good db s s' r :=
  obtain_good hs _ _ _ h

theorem obtainReduced_good {db : Db} {s : State} (hs : Inv db s) (st : List (Sym × Cell) × Option Sym)
    {s' : State} {r : Except ErrKind Nat} (h : obtainReduced db s st = (s', r)) : Good db s s' r :=
  obtain_good hs _ _ _ h

theorem copyInstance_good {db : Db} {s : State} (hs : Inv db s) (caption : Sym) (m : Map)
    {s' : State} {r : Except ErrKind Nat} (h : copyInstance db s caption m = (s', r)) : Good db s s' r := by
  unfold copyInstance at h
  split at h
  · simp only [Prod.mk.injEq] at h; obtain ⟨rfl, rfl⟩ := h; exact Good.same hs _
  · exact makeCopy_good hs _ _ h

theorem copyMap_spec {h h' : Heap} {m m' : Map} (hc : copyMap h m = some (h', m')) :
    HeapExt h h' ∧ ∀ kr ∈ m', h.length ≤ kr.2 := by
  unfold copyMap at hc
  split at hc
  · cases hc
  · rename_i cs _
    simp only [Option.some.injEq] at hc
    have h1 := allocMany_heap h cs
    have h2 := allocMany_refs h cs
    rw [hc] at h1 h2
    simp only at h1 h2
    subst h1
    exact ⟨HeapExt.append _ _, fun kr hkr => (h2 kr hkr).1⟩

/-- the working copies of both routines: two copies, then the unit matching; every write lands in
a copy -/
theorem copies_match_frame {db : Db} {h h1 h2 h3 : Heap} {ma mb m1 m2 : Map}
    (hc1 : copyMap h ma = some (h1, m1)) (hc2 : copyMap h1 mb = some (h2, m2))
    (hm : matchQuantities db h2 m1 m2 = .ok h3) :
    HeapExt h h3 ∧ (∀ kr ∈ m1, h.length ≤ kr.2) := by
  obtain ⟨e1, r1⟩ := copyMap_spec hc1
  obtain ⟨e2, r2⟩ := copyMap_spec hc2
  have r2' : ∀ kr ∈ m2, h.length ≤ kr.2 := fun kr hkr => Nat.le_trans e1.1 (r2 kr hkr)
  obtain ⟨l3, f3⟩ := matchQuantities_frame (n := h.length) r1 r2' hm
  have e12 := e1.trans e2
  exact ⟨⟨by rw [l3]; exact e12.1, fun r hr => by rw [f3 r hr, e12.2 r hr]⟩, r1⟩

theorem pickSame_res {s : State} {j1 j2 i : Nat} (h : pickSame s j1 j2 = .ok i) : i = j1 ∨ i = j2 := by
  unfold pickSame at h
  split at h
  · split at h
    · cases h; exact .inl rfl
    · split at h
      · cases h; exact .inr rfl
      · split at h
        · cases h; exact .inl rfl
        · cases h
  · cases h

theorem opSame_good {db : Db} {s : State} (hs : Inv db s) (i1 i2 : Nat) {s' : State}
    {r : Except ErrKind Nat} (h : opSame db s i1 i2 = (s', r)) : Good db s s' r := by
  unfold opSame at h
  split at h
  · rename_i q1 q2 hq1 hq2
    split at h
    · simp only [Prod.mk.injEq] at h; obtain ⟨rfl, rfl⟩ := h
      exact ⟨hs, Ext.refl s, fun j hj => by cases hj; exact (List.getElem?_eq_some_iff.mp hq1).1⟩
    · split at h
      · simp only [Prod.mk.injEq] at h; obtain ⟨rfl, rfl⟩ := h; exact Good.same hs _
      · rename_i h1 m1 hc1
        split at h
        · simp only [Prod.mk.injEq] at h; obtain ⟨rfl, rfl⟩ := h; exact Good.same hs _
        · rename_i h2 m2 hc2
          split at h
          · simp only [Prod.mk.injEq] at h; obtain ⟨rfl, rfl⟩ := h; exact Good.same hs _
          · rename_i h3 hm
            obtain ⟨hext, _⟩ := copies_match_frame hc1 hc2 hm
            have hs3 := hs.heapExt hext
            have e3 := Ext.heapOnly s hext
            split at h
            · rename_i s4 e heq
              have g := copyInstance_good hs3 _ _ heq
              simp only [Prod.mk.injEq] at h; obtain ⟨rfl, rfl⟩ := h
              exact ⟨g.inv, e3.trans g.ext, fun i hi => by cases hi⟩
            · rename_i s4 j1 heq
              have g4 := copyInstance_good hs3 _ _ heq
              split at h
              · rename_i s5 e heq5
                have g5 := copyInstance_good g4.inv _ _ heq5
                simp only [Prod.mk.injEq] at h; obtain ⟨rfl, rfl⟩ := h
                exact ⟨g5.inv, (e3.trans g4.ext).trans g5.ext, fun i hi => by cases hi⟩
              · rename_i s5 j2 heq5
                have g5 := copyInstance_good g4.inv _ _ heq5
                simp only [Prod.mk.injEq] at h; obtain ⟨rfl, rfl⟩ := h
                refine ⟨g5.inv, (e3.trans g4.ext).trans g5.ext, fun i hi => ?_⟩
                rcases pickSame_res hi with rfl | rfl
                · exact Nat.lt_of_lt_of_le (g4.res _ rfl) g5.ext.objs_len
                · exact g5.res _ rfl
  · simp only [Prod.mk.injEq] at h; obtain ⟨rfl, rfl⟩ := h; exact Good.same hs _

theorem opNew_good {db : Db} {s : State} (hs : Inv db s) (div : Bool) (i1 i2 : Nat) {s' : State}
    {r : Except ErrKind Nat} (h : opNew db s div i1 i2 = (s', r)) : Good db s s' r := by
  unfold opNew at h
  split at h
  · split at h
    · simp only [Prod.mk.injEq] at h; obtain ⟨rfl, rfl⟩ := h; exact Good.same hs _
    · rename_i h1 m1 hc1
      split at h
      · simp only [Prod.mk.injEq] at h; obtain ⟨rfl, rfl⟩ := h; exact Good.same hs _
      · rename_i h2 m2 hc2
        split at h
        · simp only [Prod.mk.injEq] at h; obtain ⟨rfl, rfl⟩ := h; exact Good.same hs _
        · rename_i h3 hm
          obtain ⟨hext, hr1⟩ := copies_match_frame hc1 hc2 hm
          split at h
          · simp only [Prod.mk.injEq] at h; obtain ⟨rfl, rfl⟩ := h; exact Good.same hs _
          · rename_i h4 m1' hmerge
            obtain ⟨l4, f4⟩ := mergePass_frame (n := s.heap.length) m2 h3 m1 hext.1 hr1 hmerge
            have hext4 : HeapExt s.heap h4 :=
              ⟨Nat.le_trans hext.1 l4, fun r hr => by rw [f4 r hr, hext.2 r hr]⟩
            split at h
            · simp only [Prod.mk.injEq] at h; obtain ⟨rfl, rfl⟩ := h; exact Good.same hs _
            · have g := createDerived_good (hs.heapExt hext4) _ _ h
              exact ⟨g.inv, (Ext.heapOnly s hext4).trans g.ext, g.res⟩
  · simp only [Prod.mk.injEq] at h; obtain ⟨rfl, rfl⟩ := h; exact Good.same hs _


/-! ### sessions -/

structure GoodO (db : Db) (s s' : State) (o : Out) : Prop where
  inv : Inv db s'
  ext : Ext s s'
  res : ∀ i, o = .ok i → i < s'.objs.length

theorem Good.toOut {db : Db} {s s' : State} {r : Except ErrKind Nat} (g : Good db s s' r) :
    GoodO db s s' (toOut r) :=
  ⟨g.inv, g.ext, fun i hi => by cases r <;> simp [Intern.toOut] at hi; exact g.res _ (by rw [hi])⟩

theorem GoodO.same {db : Db} {s : State} (hs : Inv db s) {o : Out} (ho : ∀ i, o = .ok i → i < s.objs.length) :
    GoodO db s s o := ⟨hs, Ext.refl s, ho⟩

/-- the invariant of a session: a reachable state and results that name live objects -/
structure SInv (db : Db) (ss : Session) : Prop where
  inv : Inv db ss.st
  results : ∀ r i, resolve ss.results r = some i → i < ss.st.objs.length

theorem sinv_init (db : Db) : SInv db {} := ⟨inv_init db, fun r i h => by simp [resolve] at h⟩

theorem operand_res {g : Guard} {ss : Session} {a : Operand} {i : Nat} (h : operand g ss a = some (some i)) :
    ∃ r, resolve ss.results r = some i := by
  unfold operand at h
  split at h
  · cases h
  · rename_i r
    split at h
    · cases h
    · rename_i j hj
      split at h
      · simp only [Option.some.injEq] at h; subst h; exact ⟨r, hj⟩
      · cases h

theorem operandObj_good {db : Db} {s : State} (hs : Inv db s) {o : Option Nat}
    (ho : ∀ i, o = some i → i < s.objs.length) {s' : State} {r : Except ErrKind Nat}
    (h : operandObj db s o = (s', r)) : Good db s s' r := by
  unfold operandObj at h
  split at h
  · rename_i i
    simp only [Prod.mk.injEq] at h; obtain ⟨rfl, rfl⟩ := h
    exact ⟨hs, Ext.refl s, fun j hj => by cases hj; exact ho i rfl⟩
  · exact createEmpty_good hs h

theorem binary_good {db : Db} {g : Guard} {ss : Session} (hss : SInv db ss) (a b : Operand)
    (f : State → Nat → Nat → State × Except ErrKind Nat)
    (hf : ∀ s, Inv db s → ∀ i j s' r, f s i j = (s', r) → Good db s s' r)
    {s' : State} {o : Out} (h : binary db g ss a b f = (s', o)) : GoodO db ss.st s' o := by
  unfold binary at h
  split at h
  · rename_i oa ob ha hb
    split at h
    · rename_i s1 e heq
      have g1 := operandObj_good hss.inv (fun i hi => by
        subst hi; obtain ⟨r, hr⟩ := operand_res ha; exact hss.results r i hr) heq
      simp only [Prod.mk.injEq] at h; obtain ⟨rfl, rfl⟩ := h
      exact ⟨g1.inv, g1.ext, fun i hi => by cases hi⟩
    · rename_i s1 i1 heq
      have g1 := operandObj_good hss.inv (fun i hi => by
        subst hi; obtain ⟨r, hr⟩ := operand_res ha; exact hss.results r i hr) heq
      split at h
      · rename_i s2 e heq2
        have g2 := operandObj_good g1.inv (fun i hi => by
          subst hi; obtain ⟨r, hr⟩ := operand_res hb
          exact Nat.lt_of_lt_of_le (hss.results r i hr) g1.ext.objs_len) heq2
        simp only [Prod.mk.injEq] at h; obtain ⟨rfl, rfl⟩ := h
        exact ⟨g2.inv, g1.ext.trans g2.ext, fun i hi => by cases hi⟩
      · rename_i s2 i2 heq2
        have g2 := operandObj_good g1.inv (fun i hi => by
          subst hi; obtain ⟨r, hr⟩ := operand_res hb
          exact Nat.lt_of_lt_of_le (hss.results r i hr) g1.ext.objs_len) heq2
        simp only [Prod.mk.injEq] at h; obtain ⟨rfl, rfl⟩ := h
        have g3 := (hf s2 g2.inv i1 i2 _ _ rfl).toOut
        exact ⟨g3.inv, (g1.ext.trans g2.ext).trans g3.ext, g3.res⟩
  · simp only [Prod.mk.injEq] at h; obtain ⟨rfl, rfl⟩ := h
    exact GoodO.same hss.inv (fun i hi => by cases hi)

/-- **every public operation keeps the invariant and alters nothing that exists** -/
theorem stepState_good {db : Db} {g : Guard} {ss : Session} (hss : SInv db ss) (op : Op) {s' : State}
    {o : Out} (h : stepState db g ss op = (s', o)) : GoodO db ss.st s' o := by
  have skip : GoodO db ss.st ss.st .skip := GoodO.same hss.inv (fun i hi => by cases hi)
  have err : ∀ e, GoodO db ss.st ss.st (.err e) := fun e => GoodO.same hss.inv (fun i hi => by cases hi)
  cases op with
  | obtain u c cap =>
    simp only [stepState, Prod.mk.injEq] at h; obtain ⟨rfl, rfl⟩ := h
    exact (obtain_good hss.inv u c cap rfl).toOut
  | empty =>
    simp only [stepState, Prod.mk.injEq] at h; obtain ⟨rfl, rfl⟩ := h
    exact (createEmpty_good hss.inv rfl).toOut
  | derived items cap =>
    simp only [stepState, Prod.mk.injEq] at h; obtain ⟨rfl, rfl⟩ := h
    exact (createDerived_good hss.inv items cap rfl).toOut
  | mkcopy q items =>
    simp only [stepState] at h
    split at h
    · simp only [Prod.mk.injEq] at h; obtain ⟨rfl, rfl⟩ := h; exact skip
    · split at h
      · simp only [Prod.mk.injEq] at h; obtain ⟨rfl, rfl⟩ := h; exact err _
      · simp only [Prod.mk.injEq] at h; obtain ⟨rfl, rfl⟩ := h
        exact (makeCopy_good hss.inv _ items rfl).toOut
  | ident q =>
    simp only [stepState] at h
    split at h
    · simp only [Prod.mk.injEq] at h; obtain ⟨rfl, rfl⟩ := h; exact skip
    · rename_i i hi
      simp only [Prod.mk.injEq] at h; obtain ⟨rfl, rfl⟩ := h
      exact GoodO.same hss.inv (fun j hj => by cases hj; exact hss.results q i hi)
  | pickle q =>
    simp only [stepState] at h
    split at h
    · simp only [Prod.mk.injEq] at h; obtain ⟨rfl, rfl⟩ := h; exact skip
    · split at h
      · simp only [Prod.mk.injEq] at h; obtain ⟨rfl, rfl⟩ := h; exact err _
      · split at h
        · simp only [Prod.mk.injEq] at h; obtain ⟨rfl, rfl⟩ := h; exact err _
        · simp only [Prod.mk.injEq] at h; obtain ⟨rfl, rfl⟩ := h
          exact (obtainReduced_good hss.inv _ rfl).toOut
  | setcap q cap =>
    simp only [stepState] at h
    split at h
    · simp only [Prod.mk.injEq] at h; obtain ⟨rfl, rfl⟩ := h; exact skip
    · rename_i i hi
      split at h
      · simp only [Prod.mk.injEq] at h; obtain ⟨rfl, rfl⟩ := h; exact err _
      · simp only [Prod.mk.injEq] at h; obtain ⟨rfl, rfl⟩ := h
        exact GoodO.same hss.inv (fun j hj => by cases hj; exact hss.results q i hi)
  | withunit q u =>
    simp only [stepState] at h
    split at h
    · simp only [Prod.mk.injEq] at h; obtain ⟨rfl, rfl⟩ := h; exact skip
    · split at h
      · simp only [Prod.mk.injEq] at h; obtain ⟨rfl, rfl⟩ := h; exact err _
      · split at h
        · simp only [Prod.mk.injEq] at h; obtain ⟨rfl, rfl⟩ := h; exact skip
        · split at h
          · split at h
            · simp only [Prod.mk.injEq] at h; obtain ⟨rfl, rfl⟩ := h
              exact (obtain_good hss.inv (.str u) (.str _) none rfl).toOut
            · simp only [Prod.mk.injEq] at h; obtain ⟨rfl, rfl⟩ := h; exact err _
          · simp only [Prod.mk.injEq] at h; obtain ⟨rfl, rfl⟩ := h
            exact (obtain_good hss.inv (.str u) .none none rfl).toOut
  | same a b =>
    simp only [stepState] at h
    exact binary_good hss a b _ (fun s hs i j s' r hr => opSame_good hs i j hr) h
  | new div a b =>
    simp only [stepState] at h
    exact binary_good hss a b _ (fun s hs i j s' r hr => opNew_good hs div i j hr) h
  | reinit q a cap =>
    simp only [stepState] at h
    split at h
    · simp only [Prod.mk.injEq] at h; obtain ⟨rfl, rfl⟩ := h; exact skip
    · rename_i i hi
      simp only [Prod.mk.injEq] at h; obtain ⟨rfl, rfl⟩ := h
      exact GoodO.same hss.inv (fun j hj => by cases hj; exact hss.results q i hi)

theorem resolve_append {results : List (Option Nat)} {x : Option Nat} {r i : Nat}
    (h : resolve (results ++ [x]) r = some i) : resolve results r = some i ∨ x = some i := by
  unfold resolve at h ⊢
  by_cases hr : r < results.length
  · rw [List.getElem?_append_left hr] at h; exact .inl h
  · rw [List.getElem?_append_right (by omega)] at h
    by_cases h0 : r - results.length = 0
    · rw [h0] at h
      simp only [List.getElem?_cons_zero] at h
      cases x with
      | none => simp at h
      | some j => simp at h; exact .inr (by rw [h])
    · have : [x][r - results.length]? = none := by
        apply List.getElem?_eq_none; simp; omega
      rw [this] at h; simp at h

theorem step_sinv {db : Db} {g : Guard} {ss : Session} (hss : SInv db ss) (op : Op) :
    SInv db (step db g ss op).1 ∧ Ext ss.st (step db g ss op).1.st := by
  have gd := stepState_good hss op (s' := (stepState db g ss op).1) (o := (stepState db g ss op).2) rfl
  refine ⟨⟨gd.inv, ?_⟩, gd.ext⟩
  intro r i hr
  simp only [step] at hr
  rcases resolve_append hr with h | h
  · exact Nat.lt_of_lt_of_le (hss.results r i h) gd.ext.objs_len
  · apply gd.res
    cases ho : (stepState db g ss op).2 <;> simp [ho, outResult] at h
    rw [h]

/-- **over every history**: the invariant holds and the final state extends every earlier one -/
theorem run_sinv {db : Db} {g : Guard} (ops : List Op) {ss : Session} (hss : SInv db ss) :
    SInv db (run db g ss ops) ∧ Ext ss.st (run db g ss ops).st := by
  induction ops generalizing ss with
  | nil => exact ⟨hss, Ext.refl _⟩
  | cons op rest ih =>
    obtain ⟨h1, e1⟩ := step_sinv (g := g) hss op
    obtain ⟨h2, e2⟩ := ih h1
    exact ⟨h2, e1.trans e2⟩


/-! ### idempotence of `ObtainQuantity` -/

theorem cacheNew_lookup {r : State × Except ErrKind Nat} {k : Key} {s1 : State} {i : Nat}
    (h : cacheNew r k = (s1, .ok i)) : lookupKey s1.cache k = some i := by
  obtain ⟨s, e⟩ := r
  cases e with
  | error e => simp [cacheNew] at h
  | ok j =>
    simp only [cacheNew, Prod.mk.injEq, Except.ok.injEq] at h
    obtain ⟨rfl, rfl⟩ := h
    exact lookupKey_setKey_self _ _ _

theorem cacheNew2_lookup {r : State × Except ErrKind Nat} {k2 k : Key} {s1 : State} {i : Nat}
    (h : cacheNew2 r k2 k = (s1, .ok i)) : lookupKey s1.cache k = some i := by
  obtain ⟨s, e⟩ := r
  cases e with
  | error e => simp [cacheNew2] at h
  | ok j =>
    simp only [cacheNew2, Prod.mk.injEq, Except.ok.injEq] at h
    obtain ⟨rfl, rfl⟩ := h
    exact lookupKey_setKey_self _ _ _

theorem obtainKey_hit {db : Db} {s : State} {u : Option Sym} {co : Option Sym} {cap : Option Sym} {i : Nat}
    (h : lookupKey s.cache (.simple co u cap) = some i) :
    obtainKey db s u (match co with | some c => .str c | none => .none) cap = (s, .ok i) := by
  cases co <;> simp [obtainKey, h]

theorem obtainKey_idem {db : Db} {s s1 : State} {u : Option Sym} {c : CatArg} {cap : Option Sym} {i : Nat}
    (h : obtainKey db s u c cap = (s1, .ok i)) : obtainKey db s1 u c cap = (s1, .ok i) := by
  have h0 := h
  unfold obtainKey at h
  split at h
  · cases h
  · split at h <;> cases h
  · rename_i cat
    simp only at h
    split at h
    · simp only [Prod.mk.injEq] at h; obtain ⟨rfl, _⟩ := h; exact h0
    · split at h
      · split at h
        · cases h
        · exact obtainKey_hit (co := some cat) (cacheNew_lookup h)
      · exact obtainKey_hit (co := some cat) (cacheNew_lookup h)
  · simp only at h
    split at h
    · simp only [Prod.mk.injEq] at h; obtain ⟨rfl, _⟩ := h; exact h0
    · split at h
      · cases h
      · unfold obtainDefaultCat at h
        split at h
        · cases h
        · simp only at h
          split at h
          · cases h
          · split at h
            · simp only [Prod.mk.injEq] at h; obtain ⟨rfl, _⟩ := h; exact h0
            · split at h
              · cases h
              · exact obtainKey_hit (co := none) (cacheNew2_lookup h)

theorem obtainDict_idem {db : Db} {s s1 : State} {items : List (Sym × Cell)} {od : Bool} {c : CatArg}
    {cap : Option Sym} {i : Nat} (h : obtainDict db s items od c cap = (s1, .ok i)) :
    obtainDict db s1 items od c cap = (s1, .ok i) := by
  have h0 := h
  unfold obtainDict at h
  split at h
  · split at h
    · rename_i kc hkc
      simp only [obtainDict, hkc]
      exact obtainKey_idem h
    · rename_i hshape
      split at h
      · simp only [Prod.mk.injEq] at h; obtain ⟨rfl, _⟩ := h
        exact h0
      · split at h
        · cases h
        · simp only [obtainDict, hshape, cacheNew_lookup h]
  · cases h

/-- **the same request repeated returns the identical object and changes nothing** -/
theorem obtain_idem {db : Db} {s s1 : State} {u : UnitArg} {c : CatArg} {cap : Option Sym} {i : Nat}
    (h : obtain db s u c cap = (s1, .ok i)) : obtain db s1 u c cap = (s1, .ok i) := by
  unfold obtain at h
  split at h
  · cases h
  · rename_i heq; simp only [obtain, heq]; exact obtainDict_idem h
  · rename_i heq; simp only [obtain, heq]; exact obtainKey_idem h
  · rename_i heq; simp only [obtain, heq]; exact obtainKey_idem h
  · cases h

/-! ### equality and hash -/

theorem qeq_hash {h : Heap} {a b : Quantity} (he : qeq h a b = true) : hashKey h a = hashKey h b := by
  unfold qeq at he
  unfold hashKey
  split at he
  · rename_i x y hx hy
    simp only [Bool.and_eq_true, beq_iff_eq] at he
    rw [hx, hy, he.1, he.2]
  · cases he

theorem qeq_symm (h : Heap) (a b : Quantity) : qeq h a b = qeq h b a := by
  unfold qeq
  cases readMap h a.map <;> cases readMap h b.map <;> simp only []
  rename_i x y
  rw [Bool.beq_comm (a := x), Bool.beq_comm (a := a.caption)]

theorem qeq_trans {h : Heap} {a b c : Quantity} (h1 : qeq h a b = true) (h2 : qeq h b c = true) :
    qeq h a c = true := by
  unfold qeq at *
  cases ha : readMap h a.map <;> cases hb : readMap h b.map <;> cases hc : readMap h c.map <;>
    simp_all

theorem qeq_refl_of_some {h : Heap} {a : Quantity} {cs : List (Sym × Cell)} (ha : readMap h a.map = some cs) :
    qeq h a a = true := by
  unfold qeq; simp [ha]

/-- equal quantities have the same composing map and caption -/
theorem qeq_contentEq {h : Heap} {a b : Quantity} (he : qeq h a b = true) : contentEq h a b = true := by
  unfold qeq at he
  unfold contentEq
  split at he
  · rename_i x y hx hy
    simp only [Bool.and_eq_true, beq_iff_eq] at he
    simp [he.1, he.2]
  · cases he

theorem view_ext {s s' : State} (he : Ext s s') {q : Quantity} (hwf : ∀ kr ∈ q.map, kr.2 < s.heap.length) :
    view s'.heap q = view s.heap q := by
  simp only [view, readMap_ext hwf he.heap]

theorem qeq_ext {s s' : State} (he : Ext s s') {a b : Quantity} (ha : ∀ kr ∈ a.map, kr.2 < s.heap.length)
    (hb : ∀ kr ∈ b.map, kr.2 < s.heap.length) : qeq s'.heap a b = qeq s.heap a b := by
  simp only [qeq, readMap_ext ha he.heap, readMap_ext hb he.heap]

theorem hashKey_ext {s s' : State} (he : Ext s s') {a : Quantity} (ha : ∀ kr ∈ a.map, kr.2 < s.heap.length) :
    hashKey s'.heap a = hashKey s.heap a := by
  simp only [hashKey, readMap_ext ha he.heap]


/-! ### on reachable states equality is equality of composing map and caption -/

theorem singleOne_of_content {cs : List (Sym × Cell)} {c u : Sym} (h : content cs = [(c, u, 1)]) :
    dictIsSingleOne cs ≠ none := by
  cases cs with
  | nil => simp [content] at h
  | cons kc rest =>
    cases rest with
    | nil =>
      simp only [content, List.map_cons, List.map_nil, List.cons.injEq, Prod.mk.injEq, and_true] at h
      simp [dictIsSingleOne, h.2.2]
    | cons _ _ => simp [content] at h

theorem simple_read {db : Db} {s : State} {i : Nat} {q : Quantity} (ho : ObjOk db s i q) (hd : q.derived = false) :
    ∃ cat u, readMap s.heap q.map = some [(cat, ⟨u, 1, false⟩)] ∧ db.categoryUnitValid cat u = true ∧
      ∃ r, q.map = [(cat, r)] ∧ r < s.heap.length := by
  obtain ⟨cat, r, u, hm, hr, hv⟩ := ho.simple hd
  refine ⟨cat, u, ?_, hv, r, hm, ho.wf (cat, r) (by simp [hm])⟩
  simp [hm, readMap, hr]

/-- **same composing map and caption ⇒ equal; and for derived quantities: the identical object** -/
theorem contentEq_qeq {db : Db} {s : State} (hs : Inv db s) {i j : Nat} {a b : Quantity}
    (ha : s.objs[i]? = some a) (hb : s.objs[j]? = some b) (h : contentEq s.heap a b = true) :
    qeq s.heap a b = true ∧ (a.derived = true → i = j) := by
  have oa := hs.objs i a ha
  have ob := hs.objs j b hb
  unfold contentEq at h
  split at h
  · rename_i x y hx hy
    simp only [Bool.and_eq_true, beq_iff_eq] at h
    obtain ⟨hcont, hcap⟩ := h
    cases hda : a.derived <;> cases hdb : b.derived
    · obtain ⟨c1, u1, r1, _, _⟩ := simple_read oa hda
      obtain ⟨c2, u2, r2, _, _⟩ := simple_read ob hdb
      rw [hx] at r1; rw [hy] at r2
      simp only [Option.some.injEq] at r1 r2
      subst r1; subst r2
      simp only [content, List.map_cons, List.map_nil, List.cons.injEq, Prod.mk.injEq, and_true] at hcont
      refine ⟨?_, fun h => by cases h⟩
      simp [qeq, hx, hy, hcont.1, hcont.2, hcap]
    · exfalso
      obtain ⟨c1, u1, r1, _, _⟩ := simple_read oa hda
      obtain ⟨cs, hr, hshape, _⟩ := ob.derived hdb
      rw [hx] at r1; rw [hy] at hr
      simp only [Option.some.injEq] at r1 hr
      subst r1; subst hr
      exact singleOne_of_content (c := c1) (u := u1) (by rw [← hcont]; rfl) hshape
    · exfalso
      obtain ⟨c1, u1, r1, _, _⟩ := simple_read ob hdb
      obtain ⟨cs, hr, hshape, _⟩ := oa.derived hda
      rw [hy] at r1; rw [hx] at hr
      simp only [Option.some.injEq] at r1 hr
      subst r1; subst hr
      exact singleOne_of_content (c := c1) (u := u1) (by rw [hcont]; rfl) hshape
    · obtain ⟨cs1, hr1, _, hl1⟩ := oa.derived hda
      obtain ⟨cs2, hr2, _, hl2⟩ := ob.derived hdb
      rw [hx] at hr1; rw [hy] at hr2
      simp only [Option.some.injEq] at hr1 hr2
      subst hr1; subst hr2
      have hl1 := hl1.1
      rw [hcont, hcap, hl2.1] at hl1
      simp only [Option.some.injEq] at hl1
      subst hl1
      rw [ha] at hb
      simp only [Option.some.injEq] at hb
      subst hb
      exact ⟨qeq_refl_of_some hx, fun _ => rfl⟩
  · cases h

/-! ### pickle round trip -/

theorem getInfo_flags {db : Db} {qt u : Sym} {r : UnitRow} (h : db.getInfo qt u false false = .ok r)
    (a b : Bool) : db.getInfo qt u a b = .ok r := by
  unfold Db.getInfo at h ⊢
  split at h
  · exact h
  · split at h
    · cases h
    · rename_i hty
      rw [if_neg hty]
      split at h
      · first | exact h | (rename_i r1 h1; simp only [h1]; exact h)
      · exfalso
        simp [Db.infoUnknown, Db.infoLegacy] at h

theorem newSimple_of_valid {db : Db} (s : State) {cat u : Sym} (cap : Option Sym)
    (hv : db.categoryUnitValid cat u = true) :
    newSimple db s cat u cap =
      (⟨s.heap ++ [⟨u, 1, false⟩], s.objs ++ [⟨[(cat, s.heap.length)], capStr cap, false⟩], s.cache, s.empty⟩,
       .ok s.objs.length) := by
  have hr := resolveSimpleUnit_of_valid hv
  cases hci : db.catByName cat with
  | none => simp [Db.categoryUnitValid, hci] at hv
  | some ci =>
    cases hg : db.getInfo ci.qtype u false false with
    | error e => simp [Db.categoryUnitValid, hci, Db.checkQuantityTypeUnit, hg] at hv
    | ok r => simp only [newSimple, hci, hr, getInfo_flags hg true true, State.push]

theorem capStr_reduce (c : Sym) : capStr (if (c != 0) = true then some c else none) = c := by
  by_cases h : c = 0 <;> simp [capStr, h]

/-- **a pickle round trip returns an equal quantity** (the identical object for a derived one; for
a simple one possibly another object, equal to it) and never fails -/
theorem pickle_roundtrip {db : Db} {s : State} (hs : Inv db s) {i : Nat} {q : Quantity}
    (hq : s.objs[i]? = some q) :
    ∃ st s' j q', reduce s q = some st ∧ obtainReduced db s st = (s', .ok j) ∧ s'.objs[j]? = some q' ∧
      qeq s'.heap q' q = true ∧ (q.derived = true → j = i ∧ s' = s) := by
  have oq := hs.objs i q hq
  obtain ⟨capR, hcapR, hcs⟩ : ∃ capR, (if (q.caption != 0) = true then some q.caption else none) = capR ∧
      capStr capR = q.caption := ⟨_, rfl, capStr_reduce _⟩
  cases hd : q.derived
  · obtain ⟨cat, u, hread, hv, r, hmap, hr⟩ := simple_read oq hd
    have hred : reduce s q = some ([(cat, ⟨u, 1, false⟩)], capR) := by
      simp only [reduce, cellsOf, hread, Option.map_some, hcapR]
    refine ⟨([(cat, ⟨u, 1, false⟩)], capR), ?_⟩
    simp only [hred, true_and, obtainReduced, obtain, normSeq, obtainDict, dictIsSingleOne, beq_self_eq_true,
      ↓reduceIte, obtainKey]
    cases hl : lookupKey s.cache (.simple (some cat) (some u) capR) with
    | some j =>
      obtain ⟨q', r', u', h1, h2, h3, h4, h5, h6⟩ := hs.simpleKey _ _ _ _ hl
      rw [resolveSimpleUnit_of_valid hv] at h5
      simp only [Except.ok.injEq] at h5
      subst h5
      refine ⟨s, j, q', rfl, h1, ?_, fun h => by cases h⟩
      rw [hcs] at h6
      simp [qeq, h3, readMap, h4, hread, h6]
    | none =>
      simp only [newSimple_of_valid s _ hv, cacheNew]
      refine ⟨_, _, ⟨[(cat, s.heap.length)], capStr capR, false⟩, rfl, by simp, ?_, fun h => by cases h⟩
      have : (s.heap ++ [(⟨u, 1, false⟩ : Cell)])[r]? = s.heap[r]? := List.getElem?_append_left hr
      have hr' : s.heap[r]? = some ⟨u, 1, false⟩ := by
        simp only [hmap, readMap] at hread
        cases h0 : s.heap[r]? with
        | none => simp [h0] at hread
        | some c => simp [h0] at hread; rw [hread]
      simp [qeq, readMap, hmap, this, hr', hcs]
  · obtain ⟨cs, hread, hshape, hl⟩ := oq.derived hd
    refine ⟨(cs, capR), s, i, q, ?_, ?_, hq, qeq_refl_of_some hread, fun _ => ⟨rfl, rfl⟩⟩
    · simp only [reduce, cellsOf, hread, Option.map_some, hcapR]
    · simp only [obtainReduced, obtain, normSeq, obtainDict, hshape, compKey_eq, hcs, hl.1]


/-! ### every cell of a live quantity is a list: no list/tuple distinction, no tuple `TypeError` -/

theorem unfrozen_eq_of_content : ∀ {x y : List (Sym × Cell)}, (∀ kc ∈ x, kc.2.frozen = false) →
    (∀ kc ∈ y, kc.2.frozen = false) → content x = content y → x = y
  | [], [], _, _, _ => rfl
  | [], _ :: _, _, _, h => by simp [content] at h
  | _ :: _, [], _, _, h => by simp [content] at h
  | a :: x, b :: y, hx, hy, h => by
    simp only [content, List.map_cons, List.cons.injEq, Prod.mk.injEq] at h
    obtain ⟨⟨h1, h2, h3⟩, h4⟩ := h
    have ha := hx a (by simp)
    have hb := hy b (by simp)
    have : a = b := by
      obtain ⟨a1, ⟨au, ae, af⟩⟩ := a
      obtain ⟨b1, ⟨bu, be, bf⟩⟩ := b
      simp only at h1 h2 h3 ha hb
      subst h1; subst h2; subst h3; subst ha; subst hb; rfl
    rw [this, unfrozen_eq_of_content (fun kc h => hx kc (by simp [h])) (fun kc h => hy kc (by simp [h])) h4]

/-- the cells of a live quantity can be read and are lists -/
theorem live_cells {db : Db} {s : State} (hs : Inv db s) {i : Nat} {q : Quantity} (hq : s.objs[i]? = some q) :
    ∃ cs, readMap s.heap q.map = some cs ∧ ∀ kc ∈ cs, kc.2.frozen = false := by
  have o := hs.objs i q hq
  cases hd : q.derived
  · obtain ⟨cat, u, hr, _, _⟩ := simple_read o hd
    exact ⟨_, hr, fun kc hkc => by simp only [List.mem_singleton] at hkc; rw [hkc]⟩
  · obtain ⟨cs, hr, _, _, hu, _⟩ := o.derived hd
    exact ⟨cs, hr, hu⟩

/-- between live quantities `==` is equality of composing map and caption -/
theorem live_qeq_iff {db : Db} {s : State} (hs : Inv db s) {i j : Nat} {a b : Quantity}
    (ha : s.objs[i]? = some a) (hb : s.objs[j]? = some b) :
    qeq s.heap a b = contentEq s.heap a b := by
  obtain ⟨x, hx, ux⟩ := live_cells hs ha
  obtain ⟨y, hy, uy⟩ := live_cells hs hb
  simp only [qeq, contentEq, hx, hy]
  by_cases h : content x = content y
  · rw [unfrozen_eq_of_content ux uy h]; simp
  · have hne : x ≠ y := fun e => h (by rw [e])
    have e1 : (x == y) = false := by simpa using hne
    have e2 : (content x == content y) = false := by simpa using h
    rw [e1, e2]

def Unfrozen (h : Heap) (m : Map) : Prop := ∀ kr ∈ m, ∀ c, h[kr.2]? = some c → c.frozen = false

theorem unfrozen_of_read {h : Heap} {m : Map} {cs : List (Sym × Cell)} (hr : readMap h m = some cs)
    (hu : ∀ kc ∈ cs, kc.2.frozen = false) : Unfrozen h m := by
  induction m generalizing cs with
  | nil => intro kr hkr; simp at hkr
  | cons a rest ih =>
    obtain ⟨k, r⟩ := a
    simp only [readMap] at hr
    cases hc : h[r]? with
    | none => simp [hc] at hr
    | some c0 =>
      cases hrest : readMap h rest with
      | none => simp [hc, hrest] at hr
      | some cs' =>
        simp only [hc, hrest, Option.some.injEq] at hr
        subst hr
        intro kr hkr c hcell
        simp only [List.mem_cons] at hkr
        rcases hkr with rfl | hkr
        · rw [hc] at hcell; simp only [Option.some.injEq] at hcell; subst hcell; exact hu (k, c0) (by simp)
        · exact ih hrest (fun kc hkc => hu kc (by simp [hkc])) kr hkr c hcell

theorem Unfrozen.ext {h h' : Heap} {m : Map} (hu : Unfrozen h m) (hw : ∀ kr ∈ m, kr.2 < h.length)
    (he : HeapExt h h') : Unfrozen h' m :=
  fun kr hkr c hc => hu kr hkr c (by rw [← he.2 kr.2 (hw kr hkr)]; exact hc)

theorem getInfo_err_units {db : Db} {qt u : Sym} {a b : Bool} {e : ErrKind}
    (h : db.getInfo qt u a b = .error e) : e = .units := by
  unfold Db.getInfo at h
  split at h
  · cases h
  · split at h
    · cases h; rfl
    · split at h
      · cases h
      · split at h
        · cases h
        · split at h
          · cases h
          · cases h; rfl

theorem convertCheck_err_units {db : Db} {cq a b : Sym} {e : ErrKind}
    (h : convertCheck db cq a b = .error e) : e = .units := by
  unfold convertCheck at h
  split at h
  · cases h
  · split at h
    · rename_i e' ht
      cases h
      unfold Db.typeOf at ht
      split at ht
      · cases ht
      · split at ht
        · cases ht
        · cases ht; rfl
    · split at h
      · rename_i hg; cases h; exact getInfo_err_units hg
      · split at h
        · rename_i hg; cases h; exact getInfo_err_units hg
        · cases h

theorem unfrozen_set {h : Heap} {m : Map} (hu : Unfrozen h m) {r : Nat} {c' : Cell} (hc' : c'.frozen = false) :
    Unfrozen (h.set r c') m := by
  intro kr hkr c hc
  rw [List.getElem?_set] at hc
  split at hc
  · split at hc
    · simp only [Option.some.injEq] at hc; rw [← hc]; exact hc'
    · cases hc
  · exact hu kr hkr c hc

theorem matchPass_no_type {db : Db} (m : Map) :
    ∀ (h : Heap) (found : List (Sym × Sym)), Unfrozen h m → matchPass db h found m ≠ .error .type := by
  induction m with
  | nil => intro h found _ hm; simp [matchPass] at hm
  | cons a rest ih =>
    obtain ⟨cat, r⟩ := a
    intro h found hu hm
    have hrest : Unfrozen h rest := fun kr hkr => hu kr (by simp [hkr])
    simp only [matchPass] at hm
    split at hm
    · cases hm
    · rename_i cell hcell
      split at hm
      · cases hm
      · split at hm
        · exact ih h _ hrest hm
        · split at hm
          · rename_i e he
            simp only [Except.error.injEq] at hm
            subst hm
            cases convertCheck_err_units he
          · have hf : cell.frozen = false := hu (cat, r) (by simp) cell hcell
            rw [if_neg (by rw [hf]; simp)] at hm
            refine ih _ _ (unfrozen_set hrest ?_) hm
            exact hf

theorem matchPass_flags {db : Db} (m : Map) :
    ∀ (h : Heap) (found : List (Sym × Sym)) {h' : Heap} {f' : List (Sym × Sym)},
      matchPass db h found m = .ok (h', f') →
      ∀ (a : Nat) (c : Cell), h'[a]? = some c → ∃ c0 : Cell, h[a]? = some c0 ∧ c0.frozen = c.frozen := by
  induction m with
  | nil =>
    intro h found h' f' hm a c hc
    simp only [matchPass, Except.ok.injEq, Prod.mk.injEq] at hm
    obtain ⟨rfl, rfl⟩ := hm
    exact ⟨c, hc, rfl⟩
  | cons x rest ih =>
    obtain ⟨cat, r⟩ := x
    intro h found h' f' hm a c hc
    simp only [matchPass] at hm
    split at hm
    · cases hm
    · rename_i cell hcell
      split at hm
      · cases hm
      · split at hm
        · exact ih h _ hm a c hc
        · split at hm
          · cases hm
          · split at hm
            · cases hm
            · obtain ⟨c1, hc1, hf1⟩ := ih _ _ hm a c hc
              by_cases hr : r = a
              · subst hr
                have hlt : r < h.length := (List.getElem?_eq_some_iff.mp hcell).1
                rw [List.getElem?_set_self hlt] at hc1
                cases hc1
                exact ⟨cell, hcell, hf1⟩
              · rw [List.getElem?_set_ne hr] at hc1
                exact ⟨c1, hc1, hf1⟩

theorem Unfrozen.of_flags {h h' : Heap} {m : Map} (hu : Unfrozen h m)
    (hf : ∀ (a : Nat) (c : Cell), h'[a]? = some c → ∃ c0 : Cell, h[a]? = some c0 ∧ c0.frozen = c.frozen) :
    Unfrozen h' m := by
  intro kr hkr c hc
  obtain ⟨c0, h0, e0⟩ := hf kr.2 c hc
  rw [← e0]; exact hu kr hkr c0 h0

theorem matchQuantities_no_type {db : Db} {h : Heap} {m1 m2 : Map} (h1 : Unfrozen h m1) (h2 : Unfrozen h m2) :
    matchQuantities db h m1 m2 ≠ .error .type ∧
    ∀ h3, matchQuantities db h m1 m2 = .ok h3 → Unfrozen h3 m1 ∧ Unfrozen h3 m2 := by
  unfold matchQuantities
  split
  · rename_i e he
    refine ⟨fun hh => ?_, fun h3 hh => by cases hh⟩
    cases hh; exact matchPass_no_type m1 h [] h1 he
  · rename_i ha f1 heq1
    have fl1 := matchPass_flags m1 h [] heq1
    split
    · rename_i e he
      refine ⟨fun hh => ?_, fun h3 hh => by cases hh⟩
      cases hh; exact matchPass_no_type m2 ha f1 (h2.of_flags fl1) he
    · rename_i hb f2 heq2
      have fl2 := matchPass_flags m2 ha f1 heq2
      refine ⟨fun hh => (by cases hh), fun h3 hh => ?_⟩
      cases hh
      exact ⟨(h1.of_flags fl1).of_flags fl2, (h2.of_flags fl1).of_flags fl2⟩

theorem mergePass_no_type {div : Bool} (m2 : Map) :
    ∀ (h : Heap) (m1 : Map), Unfrozen h m1 → mergePass div h m1 m2 ≠ .error .type := by
  induction m2 with
  | nil => intro h m1 _ hm; simp [mergePass] at hm
  | cons x rest ih =>
    obtain ⟨c2, r2⟩ := x
    intro h m1 hu hm
    simp only [mergePass] at hm
    split at hm
    · cases hm
    · rename_i cell2 _
      split at hm
      · refine ih _ _ ?_ hm
        intro kr hkr c hc
        simp only [List.mem_append, List.mem_singleton] at hkr
        by_cases hlt : kr.2 < h.length
        · rw [List.getElem?_append_left hlt] at hc
          rcases hkr with hkr | rfl
          · exact hu kr hkr c hc
          · simp at hlt
        · have : kr.2 = h.length ∨ h.length < kr.2 := by omega
          rcases this with he | hgt
          · rw [he] at hc; simp at hc; rw [← hc]
          · rw [List.getElem?_eq_none (by simp; omega)] at hc; cases hc
      · rename_i r1 hget
        split at hm
        · cases hm
        · rename_i cell1 hcell1
          obtain ⟨k', hk'⟩ := odGet_mem hget
          have hf : cell1.frozen = false := hu _ hk' cell1 hcell1
          split at hm
          · rw [if_neg (by rw [hf]; simp)] at hm
            refine ih _ _ (unfrozen_set hu ?_) hm
            exact hf
          · cases hm

/-- the working copies of two live quantities: the unit matching and the merge of the exponents
never raise the tuple `TypeError` -/
theorem copies_no_type {db : Db} {s : State} (hs : Inv db s) {i1 i2 : Nat} {q1 q2 : Quantity}
    (hq1 : s.objs[i1]? = some q1) (hq2 : s.objs[i2]? = some q2) {h1 h2 : Heap} {m1 m2 : Map}
    (hc1 : copyMap s.heap q1.map = some (h1, m1)) (hc2 : copyMap h1 q2.map = some (h2, m2)) :
    matchQuantities db h2 m1 m2 ≠ .error .type ∧
    ∀ h3, matchQuantities db h2 m1 m2 = .ok h3 → ∀ div, mergePass div h3 m1 m2 ≠ .error .type := by
  obtain ⟨cs1, hr1, u1⟩ := live_cells hs hq1
  obtain ⟨cs2, hr2, u2⟩ := live_cells hs hq2
  have e1 := (copyMap_spec hc1).1
  have e2 := (copyMap_spec hc2).1
  have wf2 := (hs.objs i2 q2 hq2).wf
  have hr2' : readMap h1 q2.map = some cs2 := by rw [readMap_ext wf2 e1, hr2]
  simp only [copyMap, hr1, Option.some.injEq] at hc1
  simp only [copyMap, hr2', Option.some.injEq] at hc2
  have a1 := readMap_allocMany s.heap cs1
  have a2 := readMap_allocMany h1 cs2
  rw [hc1] at a1; rw [hc2] at a2
  simp only at a1 a2
  have U1 : Unfrozen h2 m1 := (unfrozen_of_read a1 u1).ext (readMap_some_wf a1) e2
  have U2 : Unfrozen h2 m2 := unfrozen_of_read a2 u2
  obtain ⟨n1, n2⟩ := matchQuantities_no_type (db := db) U1 U2
  exact ⟨n1, fun h3 hh div => mergePass_no_type m2 h3 m1 (n2 h3 hh).1⟩

/-! ### every unit of a live quantity is a unit of its category's quantity type -/

theorem validateItems_valid {db : Db} : ∀ {cs : List (Sym × Cell)}, validateItems db cs = .ok () →
    ∀ kc ∈ cs, db.categoryUnitValid kc.1 kc.2.unit = true
  | [], _, kc, hkc => by simp at hkc
  | (k, c) :: rest, h, kc, hkc => by
    simp only [validateItems] at h
    cases hc : db.catByName k with
    | none => simp [hc] at h
    | some ci =>
      simp only [hc] at h
      cases hu : db.checkQuantityTypeUnit ci.qtype c.unit with
      | error e => simp [hu] at h
      | ok _ =>
        simp only [hu] at h
        simp only [List.mem_cons] at hkc
        rcases hkc with rfl | hkc
        · simp [Db.categoryUnitValid, hc, hu]
        · exact validateItems_valid h kc hkc

theorem live_units_valid {db : Db} {s : State} (hs : Inv db s) {i : Nat} {q : Quantity}
    (hq : s.objs[i]? = some q) :
    ∃ cs, readMap s.heap q.map = some cs ∧ ∀ kc ∈ cs, db.categoryUnitValid kc.1 kc.2.unit = true := by
  have o := hs.objs i q hq
  cases hd : q.derived
  · obtain ⟨cat, u, hr, hv, _⟩ := simple_read o hd
    exact ⟨_, hr, fun kc hkc => by simp only [List.mem_singleton] at hkc; rw [hkc]; exact hv⟩
  · obtain ⟨cs, hr, _, _, _, hv⟩ := o.derived hd
    exact ⟨cs, hr, validateItems_valid hv⟩

end Barril.Intern
