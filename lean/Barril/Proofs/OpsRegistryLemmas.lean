/- lemmas about the registry of additional conversion types (`Barril/Model/OpsRegistry.lean`) -/
import Barril.Model.OpsRegistry
import Barril.Proofs.OpsLemmas

namespace Barril.Ops
open Barril

/-! ### the `…V` functions with the plain conversion are the functions of `Ops.lean` -/

theorem convertMatchingExpV_plain (env : Env) (qt fromU toU : Sym) (exp : Int) (dv : Bool) :
    convertMatchingExpV env env.convert qt fromU toU exp dv = convertMatchingExp env qt fromU toU exp dv := rfl

theorem matchDictV_plain (env : Env) (dv : Bool) :
    ∀ (es : List Entry) (found : Found) (tr : Tr),
      matchDictV env env.convert dv found es tr = matchDict env dv found es tr
  | [], _, _ => rfl
  | e :: es, found, tr => by
    unfold matchDictV matchDict
    cases env.qtype e.cat with
    | error err => rfl
    | ok qt =>
      simp only
      cases found.get qt with
      | none =>
        simp only [matchDictV_plain env dv es]
        cases matchDict env dv ((qt, e.unit) :: found) es tr <;> rfl
      | some used =>
        simp only [convertMatchingExpV_plain]
        cases convertMatchingExp env qt e.unit used e.exp dv with
        | error err => rfl
        | ok step =>
          simp only [matchDictV_plain env dv es]
          cases matchDict env dv found es (tr.andThen step) <;> rfl

theorem matchQuantitiesV_plain (env : Env) (c1 c2 : List Entry) :
    matchQuantitiesV env env.convert env.convert c1 c2 = matchQuantities env c1 c2 := by
  simp only [matchQuantitiesV, matchQuantities, matchDictV_plain]
  cases matchDict env (decide (1 < c1.length)) [] c1 Tr.ident with
  | error e => rfl
  | ok r =>
    obtain ⟨f1, c1', t1⟩ := r
    simp only
    cases matchDict env (decide (1 < c2.length)) f1 c2 Tr.ident <;> rfl

theorem opFuncV_plain (env : Env) (op : Op) (q1 q2 : Quantity) :
    opFuncV env env.convert env.convert op q1 q2 = opFunc env op q1 q2 := by
  cases op <;> simp only [opFuncV, opFunc, opSameV, opSame, opNewV, opNew, matchQuantitiesV_plain] <;>
    first
    | rfl
    | (split <;> first | rfl | (cases matchQuantities env q1 q2 <;> rfl))
    | (cases matchQuantities env q1 q2 <;> rfl)

/-! ### dispatch -/

/-- an entry for a class that is not a base class of the value's class (a subclass, an unrelated class) is skipped,
wherever it stands in the registry -/
theorem dispatch_skip (r1 r2 : Registry) (e : RegEntry) (c : PyClass) (h : c.isSub e.cls = false) :
    Registry.dispatch (r1 ++ e :: r2) c = Registry.dispatch (r1 ++ r2) c := by
  induction r1 with
  | nil => simp [Registry.dispatch, h]
  | cons a r ih => simp only [List.cons_append, Registry.dispatch, ih]

theorem convertReg_skip (env : Env) (r1 r2 : Registry) (e : RegEntry) (c : PyClass) (h : c.isSub e.cls = false) :
    convertReg env (r1 ++ e :: r2) c = convertReg env (r1 ++ r2) c := by
  funext qt f t
  simp only [convertReg, dispatch_skip r1 r2 e c h]

/-- every entry the value's class could be served by is the elementwise number conversion -/
def Registry.PlainFor (reg : Registry) (c : PyClass) : Prop := ∀ e ∈ reg, c.isSub e.cls = true → e.fn = .std

theorem dispatch_plainFor {reg : Registry} {c : PyClass} (h : reg.PlainFor c) :
    reg.dispatch c = none ∨ reg.dispatch c = some .std := by
  induction reg with
  | nil => exact .inl rfl
  | cons a r ih =>
    unfold Registry.dispatch
    by_cases hs : c.isSub a.cls = true
    · simp only [hs, ↓reduceIte]
      exact .inr (by rw [h a (by simp) hs])
    · simp only [hs, Bool.false_eq_true, ↓reduceIte]
      exact ih (fun e he => h e (by simp [he]))

/-- the registry cannot be seen by values of class `c`: no registered class is a base class of `c`, or the first one
that is carries the elementwise number conversion (`numpy.ndarray` and `ConvertNumpyArray`, registered at import) -/
def Registry.Invisible (reg : Registry) (c : PyClass) : Prop := reg.dispatch c = none ∨ reg.dispatch c = some .std

theorem Registry.PlainFor.invisible {reg : Registry} {c : PyClass} (h : reg.PlainFor c) : reg.Invisible c :=
  dispatch_plainFor h

theorem convertReg_plain {env : Env} (hl : env.Lawful) {reg : Registry} {c : PyClass} (h : reg.Invisible c) :
    convertReg env reg c = env.convert := by
  funext qt f t
  unfold convertReg
  by_cases hft : (f == t) = true
  · have : f = t := by simpa using hft
    subst this
    simp only [BEq.rfl, ↓reduceIte]
    funext x
    simp [Tr.ident, hl.convert_same]
  · simp only [hft, Bool.false_eq_true, ↓reduceIte]
    rcases h with hd | hd <;> simp only [hd, ConvFn.apply]

theorem arrayComputeReg_plain {env : Env} (hl : env.Lawful) {reg : Registry} {c1 c2 : PyClass}
    (h1 : reg.Invisible c1) (h2 : reg.Invisible c2) (hn : reg.Invisible numClass)
    (op : Op) (q1 q2 : Quantity) (ra rb : Raw) :
    arrayComputeReg env reg c1 c2 op q1 q2 ra rb = arrayCompute env op q1 q2 ra rb := by
  unfold arrayComputeReg arrayCompute
  rw [convertReg_plain hl h1, convertReg_plain hl h2, convertReg_plain hl hn, opFuncV_plain]
  cases genIsNumpy ra rb <;> cases opFunc env op q1 q2 <;> rfl

theorem register_new (reg : Registry) (k : Nat) (fn : ConvFn) (h : reg.lookup k = none) :
    reg.register k fn = .ok (reg ++ [⟨k, fn⟩]) := by
  simp [Registry.register, h]

end Barril.Ops
