/- C14 on the translated tables: the invariant on the flat view of a database, and how it follows
from the per-row predicates of `Barril/Model/RegTable.lean`. -/
import Barril.Proofs.RegLemmas
import Barril.Model.RegTable

namespace Barril.Reg
open Barril

/-- the registry invariant on the flat view of a database that the translator reads -/
structure DbRegInv (db : Db) : Prop where
  /-- every symbol names exactly one row (hence one quantity type) -/
  symOnce : ∀ w ∈ db.units, db.unitBySym w.sym = some w
  /-- the first-listed row of every quantity type is an identity -/
  baseIdentity : ∀ w ∈ db.units, ∃ b, db.units.find? (·.qtype == w.qtype) = some b ∧ isIdent b = true
  /-- every category is the one stored under its name, refers to an existing type, has default
  and valid units drawn from it and a default value inside its limits -/
  catsOk : ∀ c ∈ db.cats, db.catByName c.name = some c ∧ db.hasType c.qtype = true
    ∧ symInType db c.qtype c.defaultUnit = true
    ∧ (∀ vu, c.validUnits = some vu → ∀ u ∈ vu, symInType db c.qtype u = true)
    ∧ minOk c.minV c.minExcl c.defaultValue = true ∧ maxOk c.maxV c.maxExcl c.defaultValue = true

theorem dbRegInv_of_all {db : Db} (hu : db.units.all (UnitRow.regOk db) = true)
    (hc : db.cats.all (CatRow.regOk db) = true) : DbRegInv db := by
  refine ⟨?_, ?_, ?_⟩
  · intro w hw
    have := List.all_eq_true.mp hu w hw
    simp only [UnitRow.regOk, Bool.and_eq_true, beq_iff_eq] at this
    exact this.1
  · intro w hw
    have := List.all_eq_true.mp hu w hw
    simp only [UnitRow.regOk, Bool.and_eq_true] at this
    have h2 := this.2
    split at h2
    · rename_i b hb
      simp only [Bool.and_eq_true] at h2
      exact ⟨b, hb, h2.2⟩
    · cases h2
  · intro c hc'
    have := List.all_eq_true.mp hc c hc'
    simp only [CatRow.regOk, Bool.and_eq_true, beq_iff_eq] at this
    obtain ⟨⟨⟨⟨⟨h1, h2⟩, h3⟩, h4⟩, h5⟩, h6⟩ := this
    refine ⟨h1, h2, h3, ?_, h5, h6⟩
    intro vu hvu u hu'
    rw [hvu] at h4
    exact List.all_eq_true.mp h4 u hu'

/-- in such a database two rows with the same symbol are the same row: each unit symbol belongs to
exactly one quantity type -/
theorem DbRegInv.sym_one_type {db : Db} (h : DbRegInv db) {w1 w2 : UnitRow} (m1 : w1 ∈ db.units)
    (m2 : w2 ∈ db.units) (hs : w1.sym = w2.sym) : w1 = w2 := by
  have a := h.symOnce w1 m1
  have b := h.symOnce w2 m2
  rw [hs, b] at a
  cases a; rfl

end Barril.Reg
