/-
Helper lemmas for C18: rounding, the normalisation loop of `Fraction.__init__`, the operators of
`Fraction`, `FractionValue` copy/equality and the algebra of `ConvertFractionValue`.
-/
import Barril.Model.Frac
import Barril.Proofs.ConvLemmas
import Mathlib.Algebra.Order.Field.Rat
import Mathlib.Tactic.Ring
import Mathlib.Tactic.FieldSimp
import Mathlib.Tactic.Linarith
import Mathlib.Tactic.Positivity
import Mathlib.Data.Rat.Floor

namespace Barril.Frac
open Barril

/-! ### rounding -/

theorem small_pos : 0 < small := by decide +kernel

theorem small_lt : small < 1 / 10 ^ 7 := by decide +kernel

theorem absR_eq_abs (q : Rat) : absR q = |q| := by
  unfold absR
  split
  · rw [abs_of_neg (by assumption)]
  · rw [abs_of_nonneg (by linarith)]

theorem floor_eq (q : Rat) : q.floor = ⌊q⌋ := rfl

/-- `round` leaves an integer alone -/
theorem roundHE_int (z : Int) : roundHE (z : Rat) = z := by
  unfold roundHE
  simp [floor_eq]

/-- `|q - round q| ≤ 1/2` -/
theorem roundHE_near (q : Rat) : |q - (roundHE q : Rat)| ≤ 1 / 2 := by
  have h0 : (0 : Rat) ≤ q - q.floor := by
    have := Int.floor_le q; rw [← floor_eq] at this; linarith
  have h1 : q - q.floor < 1 := by
    have := Int.lt_floor_add_one q; rw [← floor_eq] at this; linarith
  unfold roundHE
  by_cases c1 : q - q.floor < 1 / 2
  · rw [if_pos c1, abs_of_nonneg h0]; linarith
  · rw [if_neg c1]
    by_cases c2 : 1 / 2 < q - q.floor
    · rw [if_pos c2]; push_cast
      rw [abs_of_nonpos (by linarith)]; linarith
    · rw [if_neg c2]
      by_cases c3 : q.floor % 2 = 0
      · rw [if_pos c3, abs_of_nonneg h0]; linarith
      · rw [if_neg c3]; push_cast
        rw [abs_of_nonpos (by linarith)]; linarith

theorem needsScaling_int (z : Int) : needsScaling (z : Rat) = false := by
  unfold needsScaling
  rw [roundHE_int]
  simp [absR_eq_abs]
  exact le_of_lt small_pos

theorem needsScaling_false {a : Rat} (h : needsScaling a = false) : |a - (roundHE a : Rat)| ≤ small := by
  unfold needsScaling at h
  simpa [absR_eq_abs] using h

/-- a decimal with at most seven places that the loop accepts is an integer -/
theorem decimal_accepted {m : Int} {i : Nat} (hi : i ≤ 7)
    (h : needsScaling ((m : Rat) / 10 ^ i) = false) : (roundHE ((m : Rat) / 10 ^ i) : Rat) = (m : Rat) / 10 ^ i := by
  have hb := needsScaling_false h
  by_contra hne
  set r := roundHE ((m : Rat) / 10 ^ i) with hr
  have hp : (0 : Rat) < 10 ^ i := by positivity
  have e : (m : Rat) / 10 ^ i - r = ((m - r * 10 ^ i : Int) : Rat) / 10 ^ i := by
    push_cast; field_simp
  have hz : (m - r * 10 ^ i : Int) ≠ 0 := by
    intro hz
    apply hne
    have : (m : Rat) = r * 10 ^ i := by
      have : ((m - r * 10 ^ i : Int) : Rat) = 0 := by exact_mod_cast hz
      push_cast at this; linarith
    rw [this]; field_simp
  have h1 : (1 : Rat) ≤ |((m - r * 10 ^ i : Int) : Rat)| := by
    rw [← Int.cast_abs]
    exact_mod_cast Int.one_le_abs hz
  rw [e, abs_div, abs_of_pos hp] at hb
  have h2 : (1 : Rat) / 10 ^ i ≤ small := le_trans (by gcongr) hb
  have h3 : (1 : Rat) / 10 ^ 7 ≤ 1 / 10 ^ i := by
    apply one_div_le_one_div_of_le hp
    exact pow_le_pow_right₀ (by norm_num) hi
  linarith [small_lt]

/-! ### the scaling loop of `Fraction.__init__` -/

/-- the loop keeps the quotient -/
theorem normLoop_ratio (fuel : Nat) (a b : Rat) :
    (normLoop fuel a b).1 / (normLoop fuel a b).2 = a / b := by
  induction fuel generalizing a b with
  | zero => rfl
  | succ n ih =>
    unfold normLoop
    split
    · rw [ih]
      by_cases hb : b = 0
      · simp [hb]
      · field_simp
    · rfl

/-- on a decimal with at most seven places the loop ends on an integer -/
theorem normLoop_decimal (i : Nat) : ∀ (fuel : Nat) (m : Int) (b : Rat), i ≤ fuel → i ≤ 7 →
    ((roundHE (normLoop fuel ((m : Rat) / 10 ^ i) b).1 : Int) : Rat) = (normLoop fuel ((m : Rat) / 10 ^ i) b).1 := by
  induction i with
  | zero =>
    intro fuel m b _ _
    have e : (m : Rat) / 10 ^ 0 = (m : Rat) := by simp
    rw [e]
    cases fuel with
    | zero => simp [normLoop, roundHE_int]
    | succ n => simp [normLoop, needsScaling_int, roundHE_int]
  | succ i ih =>
    intro fuel m b hf h7
    cases fuel with
    | zero => omega
    | succ n =>
      unfold normLoop
      cases hs : needsScaling ((m : Rat) / 10 ^ (i + 1)) with
      | true =>
        simp only [if_true]
        have e : (m : Rat) / 10 ^ (i + 1) * 10 = (m : Rat) / 10 ^ i := by
          rw [pow_succ]; field_simp
        rw [e]
        exact ih n m (b * 10) (by omega) (by omega)
      | false =>
        simp only [Bool.false_eq_true, if_false]
        exact decimal_accepted h7 hs

/-- the error of the loop's last value against its rounding, relative to the scaled denominator -/
theorem normLoop_bound (fuel : Nat) : ∀ (a b : Rat), b ≠ 0 →
    |((roundHE (normLoop fuel a b).1 : Int) : Rat) - (normLoop fuel a b).1| / |(normLoop fuel a b).2|
      ≤ max small (1 / 2 / 10 ^ fuel) / |b| := by
  induction fuel with
  | zero =>
    intro a b hb
    simp only [normLoop, pow_zero, div_one]
    have hb' : 0 < |b| := abs_pos.mpr hb
    apply div_le_div_of_nonneg_right _ (le_of_lt hb')
    rw [abs_sub_comm]
    exact le_trans (roundHE_near a) (le_max_right _ _)
  | succ n ih =>
    intro a b hb
    have hb' : 0 < |b| := abs_pos.mpr hb
    unfold normLoop
    cases hs : needsScaling a with
    | true =>
      simp only [if_true]
      have hb10 : b * 10 ≠ 0 := by simp [hb]
      refine le_trans (ih (a * 10) (b * 10) hb10) ?_
      rw [abs_mul, abs_of_pos (by norm_num : (0 : Rat) < 10)]
      rw [div_le_div_iff₀ (by positivity) hb']
      have h1 : max small (1 / 2 / 10 ^ n) ≤ 10 * max small (1 / 2 / 10 ^ (n + 1)) := by
        apply max_le
        · have := le_max_left small (1 / 2 / 10 ^ (n + 1))
          have sp := small_pos
          linarith
        · have := le_max_right small (1 / 2 / 10 ^ (n + 1))
          have e : (1 : Rat) / 2 / 10 ^ n = 10 * (1 / 2 / 10 ^ (n + 1)) := by
            rw [pow_succ]; field_simp
          rw [e]; linarith
      nlinarith [h1, hb']
    | false =>
      simp only [Bool.false_eq_true, if_false]
      apply div_le_div_of_nonneg_right _ (le_of_lt hb')
      rw [abs_sub_comm]
      exact le_trans (needsScaling_false hs) (le_max_left _ _)

theorem signMove_ratio (a b : Rat) : (signMove a b).1 / (signMove a b).2 = a / b := by
  unfold signMove
  split
  · simp [neg_div_neg_eq]
  · rfl

theorem signMove_ne (a b : Rat) (hb : b ≠ 0) : (signMove a b).2 ≠ 0 := by
  unfold signMove
  split
  · simpa using hb
  · exact hb

theorem signMove_abs (a b : Rat) : |(signMove a b).2| = |b| := by
  unfold signMove
  split
  · simp
  · rfl

/-- **`Fraction(a, b)` on a decimal with at most seven places is exactly `a / b`** -/
theorem normalise_decimal (m : Int) (i : Nat) (hi : i ≤ 7) (b : Rat) :
    normalise ((m : Rat) / 10 ^ i) b = ⟨(m : Rat) / 10 ^ i / b⟩ := by
  unfold normalise
  simp only
  have hs : ∃ m' : Int, (signMove ((m : Rat) / 10 ^ i) b).1 = (m' : Rat) / 10 ^ i := by
    unfold signMove
    split
    · exact ⟨-m, by push_cast; ring⟩
    · exact ⟨m, rfl⟩
  obtain ⟨m', hm'⟩ := hs
  have h1 := normLoop_decimal i normFuel m' (signMove ((m : Rat) / 10 ^ i) b).2 (by unfold normFuel; omega) hi
  rw [← hm'] at h1
  rw [h1, normLoop_ratio, signMove_ratio]

/-- **in general `Fraction(a, b)` is within `SMALL / |b|` of `a / b`** -/
theorem normalise_near (a b : Rat) (hb : b ≠ 0) : |(normalise a b).x - a / b| ≤ small / |b| := by
  unfold normalise
  simp only
  set ab := signMove a b with hab
  have hb2 := signMove_ne a b hb
  have hr := normLoop_ratio normFuel ab.1 ab.2
  have hbd := normLoop_bound normFuel ab.1 ab.2 hb2
  rw [signMove_abs] at hbd
  have e : a / b = (normLoop normFuel ab.1 ab.2).1 / (normLoop normFuel ab.1 ab.2).2 := by
    rw [hr, signMove_ratio]
  rw [e, ← sub_div, abs_div]
  refine le_trans hbd ?_
  have hb' : 0 < |b| := abs_pos.mpr hb
  apply div_le_div_of_nonneg_right _ (le_of_lt hb')
  apply max_le (le_refl _)
  have : (1 : Rat) / 2 / 10 ^ normFuel ≤ small := by unfold normFuel; decide +kernel
  exact this

/-- on an integer numerator nothing is scaled -/
theorem normalise_int (n : Int) (b : Rat) : normalise (n : Rat) b = ⟨(n : Rat) / b⟩ := by
  have := normalise_decimal n 0 (by omega) b
  simpa using this

/-! ### the operators of `Fraction` -/

theorem init_fin_none (a : Rat) : Frac.init (.fin a) none = .ok (normalise a 1) := rfl

theorem init_fin_fin (a b : Rat) (hb : b ≠ 0) : Frac.init (.fin a) (some (.fin b)) = .ok (normalise a b) := by
  simp [Frac.init, hb]

theorem init_fin_zero (a : Rat) : Frac.init (.fin a) (some (.fin 0)) = .error .assertion := by
  simp [Frac.init]

theorem ofInts_eq (n d : Int) (hd : d ≠ 0) : ofInts n d = .ok ⟨(n : Rat) / d⟩ := by
  unfold ofInts
  rw [init_fin_fin _ _ (by exact_mod_cast hd), normalise_int]

theorem ofInts_rat (x : Rat) : ofInts x.num x.den = .ok ⟨x⟩ := by
  rw [ofInts_eq _ _ (by exact_mod_cast x.den_nz)]
  congr 2
  exact_mod_cast Rat.num_div_den x

theorem coerce_frac (o : Frac) : coerce (.frac o) = .ok o := rfl

/-- a number that is a decimal with at most seven places is taken at its value -/
theorem coerce_decimal (m : Int) (i : Nat) (hi : i ≤ 7) :
    coerce (.num (.fin ((m : Rat) / 10 ^ i))) = .ok ⟨(m : Rat) / 10 ^ i⟩ := by
  show Frac.init (.fin ((m : Rat) / 10 ^ i)) none = _
  rw [init_fin_none, normalise_decimal m i hi]; simp

theorem add_of_coerce {s o' : Frac} {o : Operand} (h : coerce o = .ok o') : s.add o = .ok ⟨s.x + o'.x⟩ := by
  unfold Frac.add; rw [h]; exact ofInts_rat _

theorem neg_eq (s : Frac) : s.neg = .ok ⟨-s.x⟩ := by
  unfold Frac.neg; exact ofInts_rat _

theorem sub_frac (s o : Frac) : s.sub (.frac o) = .ok ⟨s.x - o.x⟩ := by
  simp only [Frac.sub, Operand.neg, neg_eq, add_of_coerce (coerce_frac _)]
  simp [sub_eq_add_neg]

theorem sub_num_of_coerce {s o' : Frac} {q : Rat} (h : coerce (.num (.fin (-q))) = .ok o') :
    s.sub (.num (.fin q)) = .ok ⟨s.x + o'.x⟩ := by
  simp only [Frac.sub, Operand.neg]
  exact add_of_coerce h

theorem num_div_den' (x : Rat) : (x.num : Rat) / ((x.den : Int) : Rat) = x := by
  exact_mod_cast Rat.num_div_den x

theorem reduce_eq (f : Frac) : f.reduce = f := by
  unfold Frac.reduce Frac.numerator Frac.denominator
  rw [num_div_den']

/-- an operand the code can turn into a Fraction is no sequence -/
theorem isSeq_of_coerce {o' : Frac} {o : Operand} (h : coerce o = .ok o') : o.isSeq = false := by
  cases o with
  | seq => simp [coerce] at h
  | frac _ => rfl
  | num _ => rfl

theorem mul_of_coerce {s o' : Frac} {o : Operand} (h : coerce o = .ok o') : s.mul o = .ok ⟨s.x * o'.x⟩ := by
  unfold Frac.mul; rw [h, isSeq_of_coerce h]
  simp only [Bool.false_eq_true, if_false]
  have hd : s.denominator * o'.denominator ≠ 0 := by
    unfold Frac.denominator
    exact mul_ne_zero (by exact_mod_cast s.x.den_nz) (by exact_mod_cast o'.x.den_nz)
  rw [ofInts_eq _ _ hd]
  simp only [reduce_eq, Frac.numerator, Frac.denominator]
  congr 2
  push_cast
  rw [mul_div_mul_comm]
  have e1 := num_div_den' s.x
  have e2 := num_div_den' o'.x
  push_cast at e1 e2
  rw [e1, e2]

theorem rmul_of_coerce {s o' : Frac} {o : Operand} (h : coerce o = .ok o') : s.rmul o = .ok ⟨s.x * o'.x⟩ := by
  unfold Frac.rmul; rw [isSeq_of_coerce h]
  simp only [Bool.false_eq_true, if_false]
  exact mul_of_coerce h

theorem inv_eq {s : Frac} (h : s.x ≠ 0) : s.inv = .ok ⟨1 / s.x⟩ := by
  unfold Frac.inv; rw [if_neg h]; exact ofInts_rat _

theorem inv_zero {s : Frac} (h : s.x = 0) : s.inv = .error .other := by
  unfold Frac.inv; rw [if_pos h]

theorem div_of_coerce {s o' : Frac} {o : Operand} (h : coerce o = .ok o') (hz : o'.x ≠ 0) :
    s.div o = .ok ⟨s.x / o'.x⟩ := by
  unfold Frac.div; rw [h]; simp only
  rw [inv_eq hz]; simp only
  rw [mul_of_coerce (coerce_frac _)]
  simp [div_eq_mul_inv]

theorem div_zero_of_coerce {s o' : Frac} {o : Operand} (h : coerce o = .ok o') (hz : o'.x = 0) :
    s.div o = .error .other := by
  unfold Frac.div; rw [h]; simp only
  rw [inv_zero hz]

theorem rdiv_of_coerce {s o' : Frac} {o : Operand} (h : coerce o = .ok o') (hz : s.x ≠ 0) :
    s.rdiv o = .ok ⟨o'.x / s.x⟩ := by
  unfold Frac.rdiv; rw [inv_eq hz]; simp only
  rw [mul_of_coerce h]
  congr 2; field_simp

theorem mod_of_coerce {s o' : Frac} {o : Operand} (h : coerce o = .ok o') (hz : o'.x ≠ 0) :
    s.mod o = .ok ⟨pyMod s.x o'.x⟩ := by
  unfold Frac.mod; rw [h]; simp only
  rw [if_neg hz]; exact ofInts_rat _

theorem abs_eq (s : Frac) : s.abs = .ok ⟨|s.x|⟩ := by
  unfold Frac.abs Frac.numerator Frac.denominator
  rw [ofInts_eq _ _ (by exact_mod_cast s.x.den_nz)]
  congr 2
  have hd : (0 : Rat) < (s.x.den : Rat) := by exact_mod_cast s.x.den_pos
  conv_rhs => rw [← Rat.num_div_den s.x, abs_div, abs_of_pos hd]
  push_cast
  rfl

theorem copy_eq (s : Frac) : s.copy = .ok s := by
  unfold Frac.copy Frac.numerator Frac.denominator
  exact ofInts_rat _

/-- the sign of the cross product is the order of the two rationals -/
theorem cross_lt (a b : Rat) : a.num * b.den - b.num * a.den < 0 ↔ a < b := by
  rw [Rat.lt_iff]; omega

theorem cross_gt (a b : Rat) : 0 < a.num * b.den - b.num * a.den ↔ b < a := by
  rw [Rat.lt_iff]; constructor <;> intro h <;> nlinarith

theorem cross_lt' (s o : Frac) :
    s.numerator * o.denominator - o.numerator * s.denominator < 0 ↔ s.x < o.x := cross_lt _ _

theorem cross_gt' (s o : Frac) :
    0 < s.numerator * o.denominator - o.numerator * s.denominator ↔ o.x < s.x := cross_gt _ _

theorem oldCmp_of_coerce {s o' : Frac} {o : Operand} (h : coerce o = .ok o')
    (hinf : ∀ n, o ≠ .num (.inf n)) :
    s.oldCmp o = .ok (if s.x < o'.x then -1 else if o'.x < s.x then 1 else 0) := by
  unfold Frac.oldCmp
  split
  · exact absurd rfl (hinf false)
  · exact absurd rfl (hinf true)
  · rw [h]
    simp only
    congr 1
    by_cases h1 : s.x < o'.x
    · rw [if_pos ((cross_lt' _ _).mpr h1), if_pos h1]
    · rw [if_neg (fun c => h1 ((cross_lt' _ _).mp c)), if_neg h1]
      by_cases h2 : o'.x < s.x
      · rw [if_pos ((cross_gt' _ _).mpr h2), if_pos h2]
      · rw [if_neg (fun c => h2 ((cross_gt' _ _).mp c)), if_neg h2]

/-- all six comparison operators against a Fraction are the comparisons of the two rationals -/
theorem cmp_frac (s o : Frac) (op : CmpOp) : s.cmp op (.frac o) = .ok (FV.cmpValue op s.x o.x) := by
  have hc : s.oldCmp (.frac o) = .ok (if s.x < o.x then -1 else if o.x < s.x then 1 else 0) :=
    oldCmp_of_coerce (coerce_frac o) (by intro n; simp)
  rcases lt_trichotomy s.x o.x with h | h | h
  · have h' : ¬ o.x < s.x := not_lt.mpr (le_of_lt h)
    have hne : s.x ≠ o.x := ne_of_lt h
    cases op <;>
      simp [Frac.cmp, Frac.pyEq, Frac.eqImpl, Frac.ltImpl, hc, h, h', hne, FV.cmpValue, le_of_lt h]
  · have h1 : ¬ s.x < o.x := by rw [h]; exact lt_irrefl _
    have h2 : ¬ o.x < s.x := by rw [h]; exact lt_irrefl _
    cases op <;>
      simp [Frac.cmp, Frac.pyEq, Frac.eqImpl, Frac.ltImpl, hc, h, FV.cmpValue]
  · have h' : ¬ s.x < o.x := not_lt.mpr (le_of_lt h)
    have hne : s.x ≠ o.x := ne_of_gt h
    cases op <;>
      simp [Frac.cmp, Frac.pyEq, Frac.eqImpl, Frac.ltImpl, hc, h, h', hne, FV.cmpValue, le_of_lt h]

/-! ### `FractionValue` -/

theorem pyEq_frac (s o : Frac) : s.pyEq (.frac o) = .ok (decide (s.x = o.x)) := by
  have := cmp_frac s o .eq
  simpa [Frac.cmp, FV.cmpValue] using this

theorem frac_ext {a b : Frac} (h : a.x = b.x) : a = b := by
  cases a; cases b; simp_all

/-- `FractionValue.__eq__` is equality of both parts -/
theorem fv_eq_iff (a b : FV) : a.eq b = .ok (decide (a = b)) := by
  unfold FV.eq
  by_cases hn : a.number = b.number
  · rw [if_pos hn, pyEq_frac]
    congr 1
    by_cases hx : a.frac.x = b.frac.x
    · have : a = b := by
        cases a; cases b; simp only [FV.mk.injEq]; exact ⟨hn, frac_ext hx⟩
      simp [this]
    · have : a ≠ b := fun e => hx (by rw [e])
      simp [hx, this]
  · rw [if_neg hn]
    have : a ≠ b := fun e => hn (by rw [e])
    simp [this]

/-- `copy.copy(fv)` builds an equal value -/
theorem fv_copy (v : FV) : v.copy = .ok v := by
  unfold FV.copy FV.init setFraction
  have h := ofInts_rat v.frac.x
  unfold ofInts at h
  simp only [Frac.numerator, Frac.denominator]
  rw [h]

/-! ### `ConvertFractionValue` -/

/-- the conversion between two well-formed rows is affine: value at 0 plus slope times x -/
theorem convVal_affine {u v : UnitRow} (hu : u.WF) (hv : v.WF) (x : Rat) :
    convVal u v x = convVal u v 0 + (convVal u v 1 - convVal u v 0) * x := by
  unfold convVal
  have tr := hu.tr
  have fr := hv.fr
  field_simp
  ring

/-- converting `n + p/d` = converting `n`, plus the increment of `p` divided by `d` -/
theorem convVal_mixed {u v : UnitRow} (hu : u.WF) (hv : v.WF) (n p d : Rat) (hd : d ≠ 0) :
    convVal u v (n + p / d) = convVal u v n + (convVal u v p - convVal u v 0) / d := by
  rw [convVal_affine hu hv (n + p / d), convVal_affine hu hv n, convVal_affine hu hv p]
  field_simp
  ring

theorem setNumerator_eq (f : Frac) (a : Rat) :
    f.setNumerator a = .ok ⟨(normalise a 1).x / (f.x.den : Rat)⟩ := by
  unfold Frac.setNumerator
  rw [init_fin_none, init_fin_none]
  simp only [Frac.denominator]
  have := normalise_int (f.x.den : Int) 1
  rw [this]
  simp

/-- in a database of well-formed rows `ConvertScalarValue` of a simple quantity is an increasing
affine map of the value, or fails whatever the value is -/
theorem csv_shape {db : Db} (hdb : ∀ r ∈ db.units, r.WF) (q : Qty) (toU : Sym) :
    (∃ A B : Rat, 0 < B ∧ ∀ x, q.convertScalarValue db toU x = .ok (A + B * x)) ∨
    (∃ e, ∀ x, q.convertScalarValue db toU x = .error e) := by
  unfold Qty.convertScalarValue
  by_cases h : (q.unit == toU) = true
  · left; exact ⟨0, 1, by norm_num, fun x => by simp [h]⟩
  · simp only [h, Bool.false_eq_true, if_false]
    cases h1 : db.getInfo (q.qtype db) toU true with
    | error e => right; exact ⟨e, fun x => rfl⟩
    | ok other =>
      cases h2 : db.getInfo (q.qtype db) q.unit true with
      | error e => right; exact ⟨e, fun x => rfl⟩
      | ok this =>
        left
        have wu := hdb _ (Db.getInfo_mem h2)
        have wv := hdb _ (Db.getInfo_mem h1)
        refine ⟨convVal this other 0, convVal this other 1 - convVal this other 0, ?_, fun x => ?_⟩
        · have := convVal_strictMono wu wv (show (0 : Rat) < 1 by norm_num)
          linarith
        · simp only
          rw [convRows_eq wu wv, ← convVal_affine wu wv x]

/-- what `ConvertFractionValue` returns when the scalar conversion is `x ↦ A + B·x` -/
theorem convertFV_eq {db : Db} {cat fromU toU : Sym} {q : Qty} (hq : obtain db cat fromU = .ok q) {A B : Rat}
    (hAB : ∀ x, q.convertScalarValue db toU x = .ok (A + B * x)) (fv : FV) :
    convertFV db cat fromU toU fv
      = .ok ⟨A + B * fv.number, ⟨(normalise (B * fv.frac.x.num) 1).x / (fv.frac.x.den : Rat)⟩⟩ := by
  unfold convertFV
  rw [hq]
  simp only [hAB]
  have e : A + B * (fv.frac.numerator : Rat) - (A + B * 0) = B * (fv.frac.x.num : Rat) := by
    unfold Frac.numerator; ring
  rw [e, setNumerator_eq]

theorem convertFV_err {db : Db} {cat fromU toU : Sym} {q : Qty} (hq : obtain db cat fromU = .ok q) {e : ErrKind}
    (he : ∀ x, q.convertScalarValue db toU x = .error e) (fv : FV) :
    convertFV db cat fromU toU fv = .error e := by
  unfold convertFV
  rw [hq]
  simp only [he]

theorem fv_value_eq (v : FV) : v.value = v.number + (v.frac.x.num : Rat) / (v.frac.x.den : Rat) := by
  unfold FV.value Frac.toFloat
  rw [Rat.num_div_den]

/-- a quantity that `ObtainQuantity` returned is obtained again from its own category and unit -/
theorem obtain_idem {db : Db} {c u : Sym} {q : Qty} (h : obtain db c u = .ok q) :
    obtain db q.cat q.unit = .ok q := by
  unfold obtain at h
  cases hc : db.catByName c with
  | none => rw [hc] at h; cases h
  | some ci =>
    rw [hc] at h
    simp only at h
    by_cases h1 : db.categoryUnitValid c u = true
    · rw [if_pos h1] at h
      cases h
      unfold obtain
      simp [hc, h1]
    · rw [if_neg h1] at h
      by_cases h2 : (isLegacy db.legacy u && db.categoryUnitValid c (fixLegacy db.legacy u)) = true
      · rw [if_pos h2] at h
        cases h
        have h3 : db.categoryUnitValid c (fixLegacy db.legacy u) = true := by
          simp only [Bool.and_eq_true] at h2; exact h2.2
        unfold obtain
        simp [hc, h3]
      · rw [if_neg h2] at h; cases h

/-- a comparison is decided the same way by two right-hand sides that lie on the same side of `x` -/
theorem cmpValue_stable {op : CmpOp} (ho : op.isOrder = true) {x y y' d : Rat}
    (hy : |y' - y| ≤ d) (hm : d < |x - y|) : FV.cmpValue op x y' = FV.cmpValue op x y := by
  have h1 := abs_le.mp hy
  rcases lt_or_ge x y with hxy | hxy
  · have h2 : |x - y| = y - x := by rw [abs_of_neg (by linarith)]; ring
    have hl : x < y' := by linarith
    cases op <;> simp_all [FV.cmpValue, CmpOp.isOrder, le_of_lt, not_lt.mpr, not_le.mpr]
  · have h2 : |x - y| = x - y := abs_of_nonneg (by linarith)
    have hl : y' < x := by linarith
    have hl2 : y < x := by linarith
    cases op <;> simp_all [FV.cmpValue, CmpOp.isOrder, le_of_lt, not_lt.mpr, not_le.mpr]

end Barril.Frac
