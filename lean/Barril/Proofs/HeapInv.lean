/-
C13: the interning invariant `CInv` (`Proofs/HeapPickle.lean`) holds on every state reachable from the empty
session by public operations (the heap-model counterpart of C07's `reachable_invariant`).

`NoQ m`   : `m` never touches the tables of quantities and cache entries.
`Pres db m` : a successful run of `m` from a state with `CInv` ends in a state with `CInv`.
A routine that is `Safe` (writes only fresh cells) and `NoQ` preserves the invariant for free (`Pres.ofSafe`);
the routines that create quantities (`newSimpleQuantity`, `obtainSimple`, `obtainDict`) are proved by hand, and the
three routines that write AND create quantities (`opSame`, `opNew`, `convertFractionValue`) by splitting them
into a writing part without quantity creation and a creating part without writes.
-/
import Barril.Proofs.HeapPickle

namespace Barril.Heap
open Barril

/-! ### routines that leave quantities and cache alone -/

structure NoQ {α : Type} (m : M α) : Prop where
  run : ∀ s a s', m s = .ok (a, s') → s'.quants = s.quants ∧ s'.cache = s.cache

theorem NoQ.pure {α : Type} {a : α} : NoQ (Pure.pure a : M α) :=
  ⟨fun s a' s' h => by
    have : (Except.ok (a, s) : Except ErrKind (α × St)) = .ok (a', s') := h
    cases this; exact ⟨rfl, rfl⟩⟩

theorem NoQ.bind {α β : Type} {m : M α} {f : α → M β} (hm : NoQ m) (hf : ∀ a, NoQ (f a)) : NoQ (m >>= f) :=
  ⟨fun s b s2 h => by
    obtain ⟨a, s1, h1, h2⟩ := bind_ok h
    have e1 := hm.run s a s1 h1
    have e2 := (hf a).run s1 b s2 h2
    exact ⟨e2.1.trans e1.1, e2.2.trans e1.2⟩⟩

theorem NoQ.fail {α : Type} {e : ErrKind} : NoQ (failM e : M α) := ⟨fun s a s' h => by cases h⟩

theorem NoQ.liftE {α : Type} {x : Except ErrKind α} : NoQ (liftE x) :=
  ⟨fun s a s' h => by obtain ⟨rfl, _⟩ := liftE_ok h; exact ⟨rfl, rfl⟩⟩

theorem NoQ.allocM {c : Cell} : NoQ (allocM c) := ⟨fun s a s' h => by cases h; exact ⟨rfl, rfl⟩⟩

theorem NoQ.writeM {r : Ref} {c : Cell} : NoQ (writeM r c) :=
  ⟨fun s a s' h => by
    unfold Heap.writeM at h
    split at h
    · cases h; exact ⟨rfl, rfl⟩
    · cases h⟩

theorem NoQ.readM {r : Ref} : NoQ (readM r) :=
  ⟨fun s a s' h => by
    unfold Heap.readM at h
    split at h
    · cases h; exact ⟨rfl, rfl⟩
    · cases h⟩

theorem NoQ.getQ {q : Nat} : NoQ (getQ q) :=
  ⟨fun s a s' h => by
    unfold Heap.getQ at h
    split at h
    · cases h; exact ⟨rfl, rfl⟩
    · cases h⟩

theorem NoQ.getObj {i : Nat} : NoQ (getObj i) :=
  ⟨fun s a s' h => by
    unfold Heap.getObj at h
    split at h
    · cases h; exact ⟨rfl, rfl⟩
    · cases h⟩

theorem NoQ.newObj {o : Obj} : NoQ (newObj o) := ⟨fun s a s' h => by cases h; exact ⟨rfl, rfl⟩⟩
theorem NoQ.cacheGet {k : QKey} : NoQ (cacheGet k) := ⟨fun s a s' h => by cases h; exact ⟨rfl, rfl⟩⟩
theorem NoQ.memoGet {i : Nat} : NoQ (memoGet i) := ⟨fun s a s' h => by cases h; exact ⟨rfl, rfl⟩⟩
theorem NoQ.memoPut {i : Nat} {v : Option ErrKind} : NoQ (memoPut i v) := ⟨fun s a s' h => by cases h; exact ⟨rfl, rfl⟩⟩

macro "nleaf" : tactic => `(tactic| first
  | exact NoQ.pure
  | exact NoQ.fail
  | exact NoQ.liftE
  | exact NoQ.readM
  | exact NoQ.getQ
  | exact NoQ.getObj
  | exact NoQ.newObj
  | exact NoQ.cacheGet
  | exact NoQ.memoGet
  | exact NoQ.memoPut
  | exact NoQ.allocM
  | exact NoQ.writeM
  | assumption)

macro "nauto" : tactic => `(tactic| repeat' (first | nleaf | (intro _) | apply NoQ.bind | split | (dsimp only)))

theorem NoQ.readPair {r : Ref} : NoQ (readPair r) := by unfold Heap.readPair; nauto
macro_rules | `(tactic| nleaf) => `(tactic| exact NoQ.readPair)
theorem NoQ.readSeq {r : Ref} : NoQ (readSeq r) := by unfold Heap.readSeq; nauto
macro_rules | `(tactic| nleaf) => `(tactic| exact NoQ.readSeq)
theorem NoQ.readFrac {r : Ref} : NoQ (readFrac r) := by unfold Heap.readFrac; nauto
macro_rules | `(tactic| nleaf) => `(tactic| exact NoQ.readFrac)
theorem NoQ.readFv {r : Ref} : NoQ (readFv r) := by unfold Heap.readFv; nauto
macro_rules | `(tactic| nleaf) => `(tactic| exact NoQ.readFv)

theorem readItems_noq (es : List (Sym × Ref)) : NoQ (readItems es) := by
  induction es with
  | nil => unfold readItems; nauto
  | cons e es ih => obtain ⟨c, r⟩ := e; unfold readItems; nauto
macro_rules | `(tactic| nleaf) => `(tactic| exact readItems_noq _)

theorem qEq_noq {a b : Nat} : NoQ (qEq a b) := by unfold qEq; nauto
macro_rules | `(tactic| nleaf) => `(tactic| exact qEq_noq)

theorem copyPairs_noq (es : List (Sym × Ref)) : NoQ (copyPairs es) := by
  induction es with
  | nil => unfold copyPairs; nauto
  | cons e es ih => obtain ⟨c, r⟩ := e; unfold copyPairs; nauto
macro_rules | `(tactic| nleaf) => `(tactic| exact copyPairs_noq _)

theorem matchLoop_noq {db : Db} {d : Bool} (es : List (Sym × Ref)) (found : List (Sym × Sym)) (v : Val) :
    NoQ (matchLoop db d es found v) := by
  induction es generalizing found v with
  | nil => unfold matchLoop; nauto
  | cons e es ih =>
    obtain ⟨c, r⟩ := e
    unfold matchLoop
    apply NoQ.bind NoQ.readPair; intro p
    apply NoQ.bind NoQ.liftE; intro qt
    split
    · exact ih _ _
    · apply NoQ.bind NoQ.liftE; intro v'
      apply NoQ.bind NoQ.writeM; intro _
      exact ih _ _
macro_rules | `(tactic| nleaf) => `(tactic| exact matchLoop_noq _ _ _)

theorem matchQuantities_noq {db : Db} {es1 es2 : List (Sym × Ref)} {v1 v2 : Val} :
    NoQ (matchQuantities db es1 es2 v1 v2) := by unfold matchQuantities; nauto
macro_rules | `(tactic| nleaf) => `(tactic| exact matchQuantities_noq)

theorem joinedOf_noq {q : Nat} : NoQ (joinedOf q) := by unfold joinedOf; nauto
macro_rules | `(tactic| nleaf) => `(tactic| exact joinedOf_noq)

theorem mergeLoop_noq {f : BinOp} (es2 es1 : List (Sym × Ref)) : NoQ (mergeLoop f es2 es1) := by
  induction es2 generalizing es1 with
  | nil => unfold mergeLoop; nauto
  | cons e es2 ih =>
    obtain ⟨c2, r2⟩ := e
    unfold mergeLoop
    apply NoQ.bind NoQ.readPair; intro p2
    split
    · apply NoQ.bind NoQ.allocM; intro r
      exact ih _
    · apply NoQ.bind NoQ.readPair; intro p1
      split
      · apply NoQ.bind NoQ.writeM; intro _
        exact ih _
      · exact NoQ.fail
macro_rules | `(tactic| nleaf) => `(tactic| exact mergeLoop_noq _ _)

theorem dropZero_noq {tot : List (Sym × Int)} (es : List (Sym × Ref)) : NoQ (dropZero tot es) := by
  induction es with
  | nil => unfold dropZero; nauto
  | cons e es ih => obtain ⟨c, r⟩ := e; unfold dropZero; nauto
macro_rules | `(tactic| nleaf) => `(tactic| exact dropZero_noq _)

theorem mkFixedWith_noq {dim : Option Nat} {q : Nat} {c : Ref} : NoQ (mkFixedWith dim q c) := by
  unfold mkFixedWith; nauto
macro_rules | `(tactic| nleaf) => `(tactic| exact mkFixedWith_noq)

theorem mkArrayLike_noq {cls : Cls} {dim : Option Nat} {q : Nat} {c : Ref} : NoQ (mkArrayLike cls dim q c) := by
  unfold mkArrayLike; nauto
macro_rules | `(tactic| nleaf) => `(tactic| exact mkArrayLike_noq)

theorem valuesOf_noq {o : Obj} : NoQ (valuesOf o) := by unfold valuesOf; nauto
macro_rules | `(tactic| nleaf) => `(tactic| exact valuesOf_noq)

theorem fvFloat_noq {r : Ref} : NoQ (fvFloat r) := by unfold fvFloat; nauto
macro_rules | `(tactic| nleaf) => `(tactic| exact fvFloat_noq)

theorem arrayValues_noq {db : Db} {q : Nat} {c : Ref} {unit : Option Sym} : NoQ (arrayValues db q c unit) := by
  unfold arrayValues; nauto
macro_rules | `(tactic| nleaf) => `(tactic| exact arrayValues_noq)

theorem getValuesAndScribble_noq {db : Db} {i : Nat} {unit : Option Sym} {how : Scribble} :
    NoQ (getValuesAndScribble db i unit how) := by unfold getValuesAndScribble; nauto

theorem format_noq {i : Nat} : NoQ (format i) := by unfold format; nauto

theorem changingIndex_noq {db : Db} {i : Nat} {idx : Int} {value : Operand} {u : Bool} :
    NoQ (changingIndex db i idx value u) := by unfold changingIndex; nauto

theorem indexAsScalar_noq {db : Db} {i : Nat} {idx : Int} : NoQ (indexAsScalar db i idx) := by
  unfold indexAsScalar; nauto

theorem objEq_noq {i j : Nat} : NoQ (objEq i j) := by unfold objEq; nauto

theorem validateArray_noq {db : Db} {i : Nat} {o : QObj} {c : Ref} : NoQ (validateArray db i o c) := by
  unfold validateArray; nauto
macro_rules | `(tactic| nleaf) => `(tactic| exact validateArray_noq)

theorem validateWith_noq {db : Db} {i : Nat} {vals : ValSrc} {qsrc : Option Nat} : NoQ (validateWith db i vals qsrc) := by
  unfold validateWith; nauto

theorem checkValidityE_noq {db : Db} {i : Nat} : NoQ (checkValidityE db i) := by unfold checkValidityE; nauto
macro_rules | `(tactic| nleaf) => `(tactic| exact checkValidityE_noq)

theorem isValid_noq {db : Db} {i : Nat} : NoQ (isValid db i) := by unfold isValid; nauto

theorem allocPairs_noq (items : List (Sym × Sym × Int)) : NoQ (allocPairs items) := by
  induction items with
  | nil => unfold allocPairs; nauto
  | cons t rest ih => obtain ⟨c, u, e⟩ := t; unfold allocPairs; nauto

/-! ### the invariant survives every frame step that adds no quantity and no cache entry -/

theorem KeyOK.stable {db : Db} {s s' : St} (fr : Frame s.heap.length s s') {k : QKey} {q : Nat}
    (h : KeyOK db s k q) : KeyOK db s' k q := by
  cases k with
  | simple c u cap => intro hv; exact qsnap_stable fr (h hv)
  | derived items cap => exact qsnap_stable fr h

theorem CInv.frame {db : Db} {s s' : St} (inv : CInv db s) (fr : Frame s.heap.length s s')
    (hq : s'.quants = s.quants) (hc : s'.cache = s.cache) : CInv db s' := by
  refine ⟨fun q o ho => ?_, fun k q hk => ?_⟩
  · rw [hq] at ho
    obtain ⟨qs, h1, h2⟩ := inv.quants q o ho
    exact ⟨qs, qsnap_stable fr h1, h2⟩
  · rw [hc] at hk
    exact (inv.cache k q hk).stable fr

/-- `hz`: no category is named `''` (the model writes `None` and `''` alike as 0) -/
structure Pres {α : Type} (db : Db) (m : M α) : Prop where
  run : ∀ s a s', db.catByName 0 = none → CInv db s → m s = .ok (a, s') → CInv db s'

theorem Pres.ofSafe {α : Type} {db : Db} {m : M α} {Q : α → Prop} (hs : ∀ n, Safe n m Q) (hn : NoQ m) : Pres db m :=
  ⟨fun s a s' _ inv h => by
    have fr := ((hs s.heap.length).run s a s' (Nat.le_refl _) h).1
    have e := hn.run s a s' h
    exact inv.frame fr e.1 e.2⟩

theorem Pres.pure {α : Type} {db : Db} {a : α} : Pres db (Pure.pure a : M α) :=
  ⟨fun s a' s' _ inv h => by
    have : (Except.ok (a, s) : Except ErrKind (α × St)) = .ok (a', s') := h
    cases this; exact inv⟩

theorem Pres.fail {α : Type} {db : Db} {e : ErrKind} : Pres db (failM e : M α) := ⟨fun s a s' _ _ h => by cases h⟩

theorem Pres.bind {α β : Type} {db : Db} {m : M α} {f : α → M β} (hm : Pres db m) (hf : ∀ a, Pres db (f a)) :
    Pres db (m >>= f) :=
  ⟨fun s b s2 hz inv h => by
    obtain ⟨a, s1, h1, h2⟩ := bind_ok h
    exact (hf a).run s1 b s2 hz (hm.run s a s1 hz inv h1) h2⟩

theorem Pres.liftE {α : Type} {db : Db} {x : Except ErrKind α} : Pres db (liftE x) :=
  Pres.ofSafe (fun _ => Safe.liftE) NoQ.liftE
theorem Pres.getQ {db : Db} {q : Nat} : Pres db (getQ q) := Pres.ofSafe (fun _ => Safe.getQ) NoQ.getQ
theorem Pres.getObj {db : Db} {i : Nat} : Pres db (getObj i) := Pres.ofSafe (fun _ => Safe.getObj) NoQ.getObj
theorem Pres.newObj {db : Db} {o : Obj} : Pres db (newObj o) := Pres.ofSafe (fun _ => Safe.newObj) NoQ.newObj
theorem Pres.cacheGet {db : Db} {k : QKey} : Pres db (cacheGet k) := Pres.ofSafe (fun _ => Safe.cacheGet) NoQ.cacheGet
theorem Pres.allocM {db : Db} {c : Cell} : Pres db (allocM c) := Pres.ofSafe (Q := fun _ => True) (fun _ => Safe.allocM.weaken (fun _ _ => trivial)) NoQ.allocM
theorem Pres.readSeq {db : Db} {r : Ref} : Pres db (readSeq r) := Pres.ofSafe (fun _ => Safe.readSeq) NoQ.readSeq
theorem Pres.readFv {db : Db} {r : Ref} : Pres db (readFv r) := Pres.ofSafe (fun _ => Safe.readFv) NoQ.readFv
theorem Pres.readFrac {db : Db} {r : Ref} : Pres db (readFrac r) := Pres.ofSafe (fun _ => Safe.readFrac) NoQ.readFrac
theorem Pres.readItems {db : Db} {es : List (Sym × Ref)} : Pres db (readItems es) :=
  Pres.ofSafe (fun _ => readItems_safe _) (readItems_noq _)
theorem Pres.copyPairs {db : Db} {es : List (Sym × Ref)} : Pres db (copyPairs es) :=
  Pres.ofSafe (Q := fun _ => True) (fun _ => (copyPairs_safe _).weaken (fun _ _ => trivial)) (copyPairs_noq _)
theorem Pres.qEq {db : Db} {a b : Nat} : Pres db (qEq a b) := Pres.ofSafe (fun _ => qEq_safe) qEq_noq
theorem Pres.joinedOf {db : Db} {q : Nat} : Pres db (joinedOf q) := Pres.ofSafe (fun _ => joinedOf_safe) joinedOf_noq
theorem Pres.valuesOf {db : Db} {o : Obj} : Pres db (valuesOf o) := Pres.ofSafe (fun _ => valuesOf_safe) valuesOf_noq
theorem Pres.fvFloat {db : Db} {r : Ref} : Pres db (fvFloat r) := Pres.ofSafe (fun _ => fvFloat_safe) fvFloat_noq
theorem Pres.mkFixedWith {db : Db} {dim : Option Nat} {q : Nat} {c : Ref} : Pres db (mkFixedWith dim q c) :=
  Pres.ofSafe (fun _ => mkFixedWith_safe) mkFixedWith_noq
theorem Pres.mkArrayLike {db : Db} {cls : Cls} {dim : Option Nat} {q : Nat} {c : Ref} :
    Pres db (mkArrayLike cls dim q c) := Pres.ofSafe (fun _ => mkArrayLike_safe) mkArrayLike_noq
theorem Pres.arrayValues {db : Db} {q : Nat} {c : Ref} {unit : Option Sym} : Pres db (arrayValues db q c unit) :=
  Pres.ofSafe (fun _ => arrayValues_safe) arrayValues_noq
theorem Pres.dropZero {db : Db} {tot : List (Sym × Int)} {es : List (Sym × Ref)} : Pres db (dropZero tot es) :=
  Pres.ofSafe (fun _ => dropZero_safe _) (dropZero_noq _)
theorem Pres.allocPairs {db : Db} {items : List (Sym × Sym × Int)} : Pres db (allocPairs items) :=
  Pres.ofSafe (fun _ => allocPairs_safe _) (allocPairs_noq _)

macro "pleaf" : tactic => `(tactic| first
  | exact Pres.pure
  | exact Pres.fail
  | exact Pres.liftE
  | exact Pres.getQ
  | exact Pres.getObj
  | exact Pres.newObj
  | exact Pres.cacheGet
  | exact Pres.allocM
  | exact Pres.readSeq
  | exact Pres.readFv
  | exact Pres.readFrac
  | exact Pres.readItems
  | exact Pres.copyPairs
  | exact Pres.qEq
  | exact Pres.joinedOf
  | exact Pres.valuesOf
  | exact Pres.fvFloat
  | exact Pres.mkFixedWith
  | exact Pres.mkArrayLike
  | exact Pres.arrayValues
  | exact Pres.dropZero
  | exact Pres.allocPairs
  | assumption)

macro "pauto" : tactic => `(tactic| repeat' (first | pleaf | (intro _) | apply Pres.bind | split | (dsimp only)))

/-! ### the routines that create quantities and cache entries -/

theorem KeyOK.congr {db : Db} {s s' : St} (hh : s'.heap = s.heap) (hq : s'.quants = s.quants) {k : QKey} {q : Nat}
    (h : KeyOK db s k q) : KeyOK db s' k q := by
  cases k with
  | simple c u cap => intro hv; rw [qsnap_congr hh hq]; exact h hv
  | derived items cap => show qsnap s' q = _; rw [qsnap_congr hh hq]; exact h

theorem frame_addQuant (s : St) (o : QObj) : Frame s.heap.length s { s with quants := s.quants ++ [o] } :=
  ⟨Nat.le_refl _, fun _ _ => rfl, ⟨[o], rfl⟩, ⟨[], by simp⟩⟩

/-- `newQuant o` where `o` reads as a well-shaped quantity -/
theorem CInv.addQuant {db : Db} {s : St} (inv : CInv db s) (o : QObj) {qs : QSnap}
    (hqs : qsnap { s with quants := s.quants ++ [o] } s.quants.length = some qs) (sh : QShape db qs) :
    CInv db { s with quants := s.quants ++ [o] } := by
  have fr := frame_addQuant s o
  refine ⟨fun q o' ho' => ?_, fun k q hk => (inv.cache k q hk).stable fr⟩
  rcases Nat.lt_or_ge q s.quants.length with hlt | hge
  · have : s.quants[q]? = some o' := by
      have h2 : (s.quants ++ [o])[q]? = some o' := ho'
      rwa [List.getElem?_append_left hlt] at h2
    obtain ⟨qs', h1, h2⟩ := inv.quants q o' this
    exact ⟨qs', qsnap_stable fr h1, h2⟩
  · have h2 : (s.quants ++ [o])[q]? = some o' := ho'
    have hq : q = s.quants.length := by
      rcases Nat.eq_or_lt_of_le hge with h | h
      · exact h.symm
      · rw [List.getElem?_eq_none (by simp; omega)] at h2; cases h2
    subst hq
    exact ⟨qs, hqs, sh⟩

/-- `cachePut k q` where the entry keeps the promise of its key -/
theorem CInv.addCache {db : Db} {s : St} (inv : CInv db s) {k : QKey} {q : Nat} (hk : KeyOK db s k q) :
    CInv db { s with cache := (k, q) :: s.cache } := by
  refine ⟨fun q' o ho => ?_, fun k' q' hm => ?_⟩
  · obtain ⟨qs, h1, h2⟩ := inv.quants q' o ho
    exact ⟨qs, (qsnap_congr (s := s) rfl rfl q').trans h1, h2⟩
  · have hm' : (k', q') ∈ (k, q) :: s.cache := hm
    rcases List.mem_cons.mp hm' with h | h
    · cases h; exact hk.congr rfl rfl
    · exact (inv.cache k' q' h).congr rfl rfl

theorem invalid_zero {db : Db} (hz : db.catByName 0 = none) (u : Sym) : db.categoryUnitValid 0 u = false := by
  unfold Db.categoryUnitValid; rw [hz]

/-- `Quantity(category, unit, caption)`: a new well-shaped simple quantity; no cache entry -/
theorem newSimpleQuantity_spec {db : Db} {s s' : St} {cat unit cap : Sym} {q : Nat} (inv : CInv db s)
    (h : newSimpleQuantity db cat unit cap s = .ok (q, s')) :
    CInv db s' ∧ s'.cache = s.cache ∧ ∃ u', qsnap s' q = some ⟨[(cat, u', 1)], cap, false, [(cat, u', 1)]⟩ ∧
      (db.categoryUnitValid cat unit = true → u' = unit) := by
  unfold newSimpleQuantity at h
  cases hcat : db.catByName cat with
  | none => rw [hcat] at h; cases h
  | some ci =>
    rw [hcat] at h
    simp only at h
    obtain ⟨u', s1, h1, ha⟩ := bind_ok h
    clear h
    have hu : s1 = s ∧ db.categoryUnitValid cat u' = true ∧ (db.categoryUnitValid cat unit = true → u' = unit) := by
      by_cases hv : db.categoryUnitValid cat unit = true
      · rw [if_pos hv] at h1; cases h1; exact ⟨rfl, hv, fun _ => rfl⟩
      · rw [if_neg hv] at h1
        by_cases hv2 : (isLegacy db.legacy unit && db.categoryUnitValid cat (fixLegacy db.legacy unit)) = true
        · rw [if_pos hv2] at h1
          cases h1
          simp only [Bool.and_eq_true] at hv2
          exact ⟨rfl, hv2.2, fun h' => absurd h' hv⟩
        · rw [if_neg hv2] at h1; cases h1
    clear h1
    obtain ⟨rfl, hval, huu⟩ := hu
    obtain ⟨r, s2, h2, hb⟩ := bind_ok ha
    clear ha
    unfold allocM at h2
    cases h2
    unfold newQuant at hb
    cases hb
    have hsnap := qsnap_new (s := { s1 with heap := s1.heap ++ [Cell.pair u' 1] })
      (o := ⟨[(cat, s1.heap.length)], cap, false, [(cat, u', 1)]⟩) (items := [(cat, u', 1)]) (by simp [itemsOf])
    have fr : Frame s1.heap.length s1 { s1 with heap := s1.heap ++ [Cell.pair u' 1] } :=
      ⟨by simp, fun r hr => by simp [List.getElem?_append_left hr], ⟨[], by simp⟩, ⟨[], by simp⟩⟩
    have inv1 : CInv db { s1 with heap := s1.heap ++ [Cell.pair u' 1] } := inv.frame fr rfl rfl
    refine ⟨inv1.addQuant _ hsnap ⟨rfl, fun _ => ⟨cat, u', rfl, hval⟩, (fun h' => by cases h')⟩, rfl, u', hsnap, huu⟩

theorem obtainSimple_pres {db : Db} {unit cat cap : Sym} : Pres db (obtainSimple db unit cat cap) := by
  constructor
  intro s q s' hz inv h
  unfold obtainSimple at h
  obtain ⟨r, s1, h1, h⟩ := bind_ok h
  obtain ⟨rfl, _⟩ := cacheGet_ok h1
  cases r with
  | some q0 => simp only [pure_eval] at h; cases h; exact inv
  | none =>
    simp only at h
    by_cases hc0 : cat = 0
    · rw [if_pos hc0] at h
      obtain ⟨c1, s2, h2, ha⟩ := bind_ok h
      clear h
      obtain ⟨rfl, _⟩ := liftE_ok h2
      obtain ⟨cu, s3, h3, hb⟩ := bind_ok ha
      clear ha h2 h1
      have hs3 : s3 = s := by
        by_cases a : (c1 != 0) = true
        · rw [if_pos a] at h3; cases h3; rfl
        · rw [if_neg a] at h3
          by_cases b : isLegacy db.legacy unit = true
          · rw [if_pos b] at h3
            obtain ⟨c2, s4, h4, h3⟩ := bind_ok h3
            obtain ⟨rfl, _⟩ := liftE_ok h4
            cases h3; rfl
          · rw [if_neg b] at h3; cases h3
      clear h3
      subst hs3
      obtain ⟨r2, s5, h5, h⟩ := bind_ok hb
      obtain ⟨rfl, _⟩ := cacheGet_ok h5
      cases r2 with
      | some q0 => simp only [pure_eval] at h; cases h; exact inv
      | none =>
        simp only at h
        obtain ⟨qn, s6, h6, h⟩ := bind_ok h
        obtain ⟨inv6, hc6, u', hsn, huu⟩ := newSimpleQuantity_spec inv h6
        obtain ⟨_, s7, h7, h⟩ := bind_ok h
        unfold cachePut at h7
        cases h7
        obtain ⟨_, s8, h8, h⟩ := bind_ok h
        unfold cachePut at h8
        cases h8
        rw [pure_eval] at h
        cases h
        have k1 : KeyOK db s6 (.simple cu.1 cu.2 cap) q := by
          intro hv; rw [hsn, huu hv]
        have inv7 := inv6.addCache k1
        have k2 : KeyOK db { s6 with cache := (QKey.simple cu.1 cu.2 cap, q) :: s6.cache } (.simple cat unit cap) q := by
          intro hv; rw [hc0, invalid_zero hz] at hv; cases hv
        exact inv7.addCache k2
    · rw [if_neg hc0] at h
      obtain ⟨qn, s6, h6, h⟩ := bind_ok h
      obtain ⟨inv6, hc6, u', hsn, huu⟩ := newSimpleQuantity_spec inv h6
      obtain ⟨_, s7, h7, h⟩ := bind_ok h
      unfold cachePut at h7
      cases h7
      rw [pure_eval] at h
      cases h
      have k1 : KeyOK db s6 (.simple cat unit cap) q := by
        intro hv; rw [hsn, huu hv]
      exact inv6.addCache k1
macro_rules | `(tactic| pleaf) => `(tactic| exact obtainSimple_pres)

theorem readItems_inv (es : List (Sym × Ref)) {s s' : St} {items : List (Sym × Sym × Int)}
    (h : readItems es s = .ok (items, s')) : s = s' ∧ itemsOf s.heap es = some items := by
  induction es generalizing items s' with
  | nil => unfold readItems at h; cases h; exact ⟨rfl, rfl⟩
  | cons e es ih =>
    obtain ⟨c, r⟩ := e
    unfold readItems at h
    obtain ⟨p, s1, h1, h⟩ := bind_ok h
    unfold readPair at h1
    obtain ⟨cell, s2, h2, h1⟩ := bind_ok h1
    unfold readM at h2
    cases hr : s.heap[r]? with
    | none => rw [hr] at h2; cases h2
    | some c0 =>
      rw [hr] at h2
      cases h2
      cases cell with
      | pair u x =>
        simp only [pure_eval] at h1
        cases h1
        obtain ⟨rest, s3, h3, h⟩ := bind_ok h
        obtain ⟨rfl, hrest⟩ := ih h3
        rw [pure_eval] at h
        cases h
        refine ⟨rfl, ?_⟩
        unfold itemsOf
        rw [hr, hrest]
      | _ => cases h1

theorem obtainDict_pres {db : Db} {es : List (Sym × Ref)} {cap : Sym} : Pres db (obtainDict db es cap) := by
  constructor
  intro s q s' hz inv h
  unfold obtainDict at h
  obtain ⟨items, s1, h1, h⟩ := bind_ok h
  obtain ⟨rfl, hitems⟩ := readItems_inv _ h1
  split at h
  · exact obtainSimple_pres.run _ _ _ hz inv h
  · rename_i hne
    obtain ⟨r, s2, h2, h⟩ := bind_ok h
    obtain ⟨rfl, _⟩ := cacheGet_ok h2
    cases r with
    | some q0 => simp only [pure_eval] at h; cases h; exact inv
    | none =>
      simp only at h
      obtain ⟨_, s3, h3, h⟩ := bind_ok h
      obtain ⟨rfl, _⟩ := liftE_ok h3
      obtain ⟨own, sb, h4, h⟩ := bind_ok h
      obtain ⟨hown, hcb, hqb, _⟩ := copyPairs_spec _ h4 hitems
      have invb : CInv db sb := Pres.copyPairs.run _ _ _ hz inv h4
      obtain ⟨_, s5, h5, h⟩ := bind_ok h
      obtain ⟨rfl, _⟩ := liftE_ok h5
      obtain ⟨qn, s6, h6, h⟩ := bind_ok h
      unfold newQuant at h6
      cases h6
      obtain ⟨_, s7, h7, h⟩ := bind_ok h
      unfold cachePut at h7
      cases h7
      rw [pure_eval] at h
      cases h
      have hsnap := qsnap_new (s := sb) (o := ⟨own, cap, true, items⟩) hown
      have sh : QShape db ⟨items, cap, true, items⟩ :=
        ⟨rfl, (fun h' => by cases h'), fun _ c u hcu => hne c u hcu⟩
      exact (invb.addQuant _ hsnap sh).addCache hsnap
macro_rules | `(tactic| pleaf) => `(tactic| exact obtainDict_pres)

theorem emptyQuantity_pres {db : Db} : Pres db (emptyQuantity db) := obtainDict_pres
macro_rules | `(tactic| pleaf) => `(tactic| exact emptyQuantity_pres)

theorem createDerived_pres {db : Db} {es : List (Sym × Ref)} {v : Bool} {cap : Sym} :
    Pres db (createDerived db es v cap) := by
  unfold createDerived; pauto
macro_rules | `(tactic| pleaf) => `(tactic| exact createDerived_pres)

/-! ### the arithmetic routines: the writing part creates no quantity, the creating part does not write -/

/-- the common first half of `opSame` / `opNew`: deep copies of the two dicts, then the unit matching that edits
the copies in place -/
theorem matchCopies_inv {db : Db} {s s1 s2 s3 : St} {o1 o2 : QObj} {es1 es2 : List (Sym × Ref)} {v1 v2 : Val}
    {vs : Val × Val} (inv : CInv db s) (h1 : copyPairs o1.entries s = .ok (es1, s1))
    (h2 : copyPairs o2.entries s1 = .ok (es2, s2)) (h3 : matchQuantities db es1 es2 v1 v2 s2 = .ok (vs, s3)) :
    CInv db s3 ∧ Frame s.heap.length s s3 ∧ s.heap.length ≤ s3.heap.length ∧ FreshRefs s.heap.length es1 ∧
      FreshRefs s.heap.length es2 ∧ s3.quants = s.quants ∧ s3.cache = s.cache := by
  have r1 := (copyPairs_safe (n := s.heap.length) _).run s es1 s1 (Nat.le_refl _) h1
  have l1 : s.heap.length ≤ s1.heap.length := r1.1.len
  have r2 := (copyPairs_safe (n := s.heap.length) _).run s1 es2 s2 l1 h2
  have l2 : s.heap.length ≤ s2.heap.length := Nat.le_trans l1 r2.1.len
  have r3 := (matchQuantities_safe (n := s.heap.length) r1.2 r2.2).run s2 vs s3 l2 h3
  have fr : Frame s.heap.length s s3 := (r1.1.trans r2.1).trans r3.1
  have e1 := (copyPairs_noq _).run _ _ _ h1
  have e2 := (copyPairs_noq _).run _ _ _ h2
  have e3 := matchQuantities_noq.run _ _ _ h3
  have hq : s3.quants = s.quants := e3.1.trans (e2.1.trans e1.1)
  have hc : s3.cache = s.cache := e3.2.trans (e2.2.trans e1.2)
  exact ⟨inv.frame fr hq hc, fr, fr.len, r1.2, r2.2, hq, hc⟩

theorem opSame_pres {db : Db} {f : BinOp} {q1 q2 : Nat} {v1 v2 : Val} : Pres db (opSame db f q1 q2 v1 v2) := by
  constructor
  intro s a s' hz inv h
  unfold opSame at h
  obtain ⟨b, s0, h0, ha⟩ := bind_ok h
  clear h
  have inv0 : CInv db s0 := Pres.qEq.run _ _ _ hz inv h0
  clear inv h0
  by_cases hb : b = true
  · rw [if_pos hb] at ha
    have : Pres db (do let v ← liftE (applyOp f v1 v2); Pure.pure (q1, v) : M (Nat × Val)) := by pauto
    exact this.run _ _ _ hz inv0 ha
  · rw [if_neg hb] at ha
    obtain ⟨o1, t1, g1, hb1⟩ := bind_ok ha
    clear ha
    have i1 : CInv db t1 := Pres.getQ.run _ _ _ hz inv0 g1
    clear inv0 g1
    obtain ⟨o2, t2, g2, hb2⟩ := bind_ok hb1
    clear hb1
    have i2 : CInv db t2 := Pres.getQ.run _ _ _ hz i1 g2
    clear i1 g2
    obtain ⟨es1, t3, g3, hb3⟩ := bind_ok hb2
    clear hb2
    obtain ⟨es2, t4, g4, hb4⟩ := bind_ok hb3
    clear hb3
    obtain ⟨vs, t5, g5, hb5⟩ := bind_ok hb4
    clear hb4
    have i5 : CInv db t5 := (matchCopies_inv i2 g3 g4 g5).1
    clear i2 g3 g4 g5
    have : ∀ es1 es2 : List (Sym × Ref), Pres db (do
        let q1' ← createDerived db es1 false o1.caption
        let q2' ← createDerived db es2 false o2.caption
        let j1 ← joinedOf q1'
        let j2 ← joinedOf q2'
        let q ← (if sameSet j1 j2 then Pure.pure q1'
                 else if j1.isEmpty then Pure.pure q2'
                 else if j2.isEmpty then Pure.pure q1'
                 else failM .units : M Nat)
        let v ← liftE (applyOp f vs.1 vs.2)
        Pure.pure (q, v) : M (Nat × Val)) := by
      intro es1 es2; pauto
    exact (this es1 es2).run _ _ _ hz i5 hb5

theorem opNew_pres {db : Db} {f : BinOp} {q1 q2 : Nat} {v1 v2 : Val} : Pres db (opNew db f q1 q2 v1 v2) := by
  constructor
  intro s a s' hz inv h
  unfold opNew at h
  obtain ⟨o1, t1, g1, hb1⟩ := bind_ok h
  clear h
  have i1 : CInv db t1 := Pres.getQ.run _ _ _ hz inv g1
  clear inv g1
  obtain ⟨o2, t2, g2, hb2⟩ := bind_ok hb1
  clear hb1
  have i2 : CInv db t2 := Pres.getQ.run _ _ _ hz i1 g2
  clear i1 g2
  obtain ⟨es1, t3, g3, hb3⟩ := bind_ok hb2
  clear hb2
  obtain ⟨es2, t4, g4, hb4⟩ := bind_ok hb3
  clear hb3
  obtain ⟨vs, t5, g5, hb5⟩ := bind_ok hb4
  clear hb4
  obtain ⟨i5, fr5, l5, f1, f2, hq5, hc5⟩ := matchCopies_inv i2 g3 g4 g5
  obtain ⟨es, t6, g6, hb6⟩ := bind_ok hb5
  clear hb5
  -- the merge writes exponents into the (fresh) lists of the first copy
  have r6 := (mergeLoop_safe (n := t2.heap.length) es2 es1 f1).run t5 es t6 l5 g6
  have e6 := (mergeLoop_noq es2 es1).run _ _ _ g6
  have i6 : CInv db t6 := i2.frame (fr5.trans r6.1) (e6.1.trans hq5) (e6.2.trans hc5)
  clear i5 i2 g3 g4 g5 g6
  have : ∀ es : List (Sym × Ref), Pres db (do
      let items ← readItems es
      let tot := joinExps [] (items.map (fun t => (t.2.1, t.2.2)))
      let es' ← dropZero tot es
      let q ← createDerived db es' true 0
      let v ← liftE (applyOp f vs.1 vs.2)
      Pure.pure (q, v) : M (Nat × Val)) := by
    intro es; pauto
  exact (this es).run _ _ _ hz i6 hb6

theorem opFunc_pres {db : Db} {f : BinOp} {q1 q2 : Nat} {v1 v2 : Val} : Pres db (opFunc db f q1 q2 v1 v2) := by
  unfold opFunc
  cases f <;> first | exact opSame_pres | exact opNew_pres
macro_rules | `(tactic| pleaf) => `(tactic| exact opFunc_pres)

/-! ### value objects -/

theorem convertFractionValue_pres {db : Db} {fvr : Ref} {q : Nat} {toU : Sym} :
    Pres db (convertFractionValue db fvr q toU) := by
  constructor
  intro s a s' hz inv h
  unfold convertFractionValue at h
  obtain ⟨fvc, t1, g1, hb1⟩ := bind_ok h
  clear h
  have i1 : CInv db t1 := Pres.readFv.run _ _ _ hz inv g1
  clear inv g1
  obtain ⟨o, t2, g2, hb2⟩ := bind_ok hb1
  clear hb1
  have i2 : CInv db t2 := Pres.getQ.run _ _ _ hz i1 g2
  clear i1 g2
  obtain ⟨cq, t3, g3, hb3⟩ := bind_ok hb2
  clear hb2
  have key2 : ∀ {m : M Nat}, Pres db m → m t2 = .ok (cq, t3) → CInv db t3 := fun hp hm => hp.run _ _ _ hz i2 hm
  have i3 : CInv db t3 := by
    refine key2 ?_ g3
    pauto
  clear key2 i2 g3
  have key : ∀ {m : M Ref}, (∀ n, Safe n m (fun _ => True)) → NoQ m → m t3 = .ok (a, s') → CInv db s' :=
    fun hs hn hm => (Pres.ofSafe hs hn).run _ _ _ hz i3 hm
  refine key ?_ ?_ hb3
  · intro n
    apply Safe.bind Safe.getQ; intro co _
    apply Safe.bind Safe.liftE; intro n' _
    apply Safe.bind Safe.allocM; intro f0 _
    apply Safe.bind Safe.allocM; intro res hres
    apply Safe.bind Safe.readFrac; intro x _
    apply Safe.bind Safe.liftE; intro a _
    apply Safe.bind Safe.liftE; intro b _
    apply Safe.bind Safe.allocM; intro cf hcf
    apply Safe.bind (Safe.writeM hcf); intro _ _
    apply Safe.bind (Safe.writeM hres); intro _ _
    exact Safe.pure trivial
  · nauto
macro_rules | `(tactic| pleaf) => `(tactic| exact convertFractionValue_pres)

theorem scalarOp_pres {db : Db} {f : BinOp} {q1 q2 : Nat} {x y : Rat} : Pres db (scalarOp db f q1 x q2 y) := by
  unfold scalarOp; pauto
macro_rules | `(tactic| pleaf) => `(tactic| exact scalarOp_pres)

theorem scalarNumR_pres {db : Db} {f : BinOp} {q : Nat} {x k : Rat} : Pres db (scalarNumR f q x k) := by
  unfold scalarNumR; pauto
macro_rules | `(tactic| pleaf) => `(tactic| exact scalarNumR_pres)

theorem scalarNumL_pres {db : Db} {f : BinOp} {q : Nat} {x k : Rat} : Pres db (scalarNumL db f k q x) := by
  unfold scalarNumL; pauto
macro_rules | `(tactic| pleaf) => `(tactic| exact scalarNumL_pres)

theorem elemLoop_pres {db : Db} {f : BinOp} {q1 q2 : Nat} (ps : List (Rat × Rat)) (q : Nat) :
    Pres db (elemLoop db f q1 q2 ps q) := by
  induction ps generalizing q with
  | nil => unfold elemLoop; pauto
  | cons p ps ih =>
    obtain ⟨x, y⟩ := p
    unfold elemLoop
    apply Pres.bind opFunc_pres; intro r
    apply Pres.bind Pres.liftE; intro z
    apply Pres.bind (ih _); intro t
    exact Pres.pure
macro_rules | `(tactic| pleaf) => `(tactic| exact elemLoop_pres _ _)

theorem powLoop_pres {db : Db} {q0 : Nat} {x0 : Rat} (k : Nat) (q : Nat) (x : Rat) :
    Pres db (powLoop db q0 x0 k q x) := by
  induction k generalizing q x with
  | zero => unfold powLoop; pauto
  | succ k ih =>
    unfold powLoop
    apply Pres.bind opFunc_pres; intro r
    apply Pres.bind Pres.liftE; intro z
    exact ih _ _
macro_rules | `(tactic| pleaf) => `(tactic| exact powLoop_pres _ _ _)

theorem scalarPow_pres {db : Db} {i : Nat} {e : Int} : Pres db (scalarPow db i e) := by
  unfold scalarPow; pauto
macro_rules | `(tactic| pleaf) => `(tactic| exact scalarPow_pres)

theorem arrayOp_pres {db : Db} {f : BinOp} {cls : Cls} {q1 q2 : Nat} {v1 v2 : Val} :
    Pres db (arrayOp db f cls q1 q2 v1 v2) := by
  unfold arrayOp
  apply Pres.bind Pres.liftE; intro _
  split
  · apply Pres.bind opFunc_pres; intro r
    split
    · apply Pres.bind Pres.allocM; intro c
      exact Pres.mkArrayLike
    · exact Pres.fail
  · apply Pres.bind opFunc_pres; intro r0
    apply Pres.bind Pres.liftE; intro ps
    apply Pres.bind (elemLoop_pres _ _); intro t
    apply Pres.bind Pres.allocM; intro c
    exact Pres.mkArrayLike
macro_rules | `(tactic| pleaf) => `(tactic| exact arrayOp_pres)

theorem arith_pres {db : Db} {f : BinOp} {a b : Operand} : Pres db (arith db f a b) := by
  unfold arith; pauto
macro_rules | `(tactic| pleaf) => `(tactic| exact arith_pres)

theorem getValue_pres {db : Db} {i : Nat} {unit : Option Sym} : Pres db (getValue db i unit) := by
  unfold getValue; pauto
macro_rules | `(tactic| pleaf) => `(tactic| exact getValue_pres)

theorem copyQuantity_pres {db : Db} {q : Nat} {unit cat : Option Sym} : Pres db (copyQuantity db q unit cat) := by
  unfold copyQuantity; pauto
macro_rules | `(tactic| pleaf) => `(tactic| exact copyQuantity_pres)

theorem createCopy_pres {db : Db} {i : Nat} {unit cat : Option Sym} : Pres db (createCopy db i unit cat) := by
  unfold createCopy; pauto
macro_rules | `(tactic| pleaf) => `(tactic| exact createCopy_pres)

theorem pickleQuantity_pres {db : Db} {q : Nat} : Pres db (pickleQuantity db q) := by
  unfold pickleQuantity; pauto
macro_rules | `(tactic| pleaf) => `(tactic| exact pickleQuantity_pres)

theorem pickleObj_pres {db : Db} {i : Nat} : Pres db (pickleObj db i) := by
  unfold pickleObj; pauto
macro_rules | `(tactic| pleaf) => `(tactic| exact pickleObj_pres)

theorem objLt_pres {db : Db} {i j : Nat} : Pres db (objLt db i j) := by
  unfold objLt; pauto
macro_rules | `(tactic| pleaf) => `(tactic| exact objLt_pres)

theorem objEq_pres {db : Db} {i j : Nat} : Pres db (objEq i j) := Pres.ofSafe (fun _ => objEq_safe) objEq_noq
macro_rules | `(tactic| pleaf) => `(tactic| exact objEq_pres)
theorem isValid_pres {db : Db} {i : Nat} : Pres db (isValid db i) := Pres.ofSafe (fun _ => isValid_safe) isValid_noq
macro_rules | `(tactic| pleaf) => `(tactic| exact isValid_pres)
theorem checkValidityE_pres {db : Db} {i : Nat} : Pres db (checkValidityE db i) :=
  Pres.ofSafe (fun _ => checkValidityE_safe) checkValidityE_noq
macro_rules | `(tactic| pleaf) => `(tactic| exact checkValidityE_pres)
theorem validateWith_pres {db : Db} {i : Nat} {vals : ValSrc} {qsrc : Option Nat} : Pres db (validateWith db i vals qsrc) :=
  Pres.ofSafe (fun _ => validateWith_safe) validateWith_noq
macro_rules | `(tactic| pleaf) => `(tactic| exact validateWith_pres)
theorem getValuesAndScribble_pres {db : Db} {i : Nat} {unit : Option Sym} {how : Scribble} :
    Pres db (getValuesAndScribble db i unit how) :=
  Pres.ofSafe (fun _ => getValuesAndScribble_safe) getValuesAndScribble_noq
macro_rules | `(tactic| pleaf) => `(tactic| exact getValuesAndScribble_pres)
theorem format_pres {db : Db} {i : Nat} : Pres db (format i) := Pres.ofSafe (fun _ => format_safe) format_noq
macro_rules | `(tactic| pleaf) => `(tactic| exact format_pres)
theorem changingIndex_pres {db : Db} {i : Nat} {idx : Int} {value : Operand} {u : Bool} :
    Pres db (changingIndex db i idx value u) := Pres.ofSafe (fun _ => changingIndex_safe) changingIndex_noq
macro_rules | `(tactic| pleaf) => `(tactic| exact changingIndex_pres)
theorem indexAsScalar_pres {db : Db} {i : Nat} {idx : Int} : Pres db (indexAsScalar db i idx) :=
  Pres.ofSafe (fun _ => indexAsScalar_safe) indexAsScalar_noq
macro_rules | `(tactic| pleaf) => `(tactic| exact indexAsScalar_pres)

theorem mkScalar_pres {db : Db} {v : Rat} {unit cat : Sym} : Pres db (mkScalar db v unit cat) := by
  unfold mkScalar; pauto
macro_rules | `(tactic| pleaf) => `(tactic| exact mkScalar_pres)
theorem mkEmptyScalar_pres {db : Db} {v : Rat} : Pres db (mkEmptyScalar db v) := by unfold mkEmptyScalar; pauto
macro_rules | `(tactic| pleaf) => `(tactic| exact mkEmptyScalar_pres)
theorem mkCaptionScalar_pres {db : Db} {v : Rat} {unit cap : Sym} : Pres db (mkCaptionScalar db v unit cap) := by
  unfold mkCaptionScalar; pauto
macro_rules | `(tactic| pleaf) => `(tactic| exact mkCaptionScalar_pres)
theorem mkArray_pres {db : Db} {k : Kind} {xs : List Rat} {unit cat : Sym} : Pres db (mkArray db k xs unit cat) := by
  unfold mkArray; pauto
macro_rules | `(tactic| pleaf) => `(tactic| exact mkArray_pres)
theorem mkArrayFrom_pres {db : Db} {i : Nat} {unit cat : Sym} : Pres db (mkArrayFrom db i unit cat) := by
  unfold mkArrayFrom; pauto
macro_rules | `(tactic| pleaf) => `(tactic| exact mkArrayFrom_pres)
theorem mkEmptyArray_pres {db : Db} {k : Kind} {xs : List Rat} : Pres db (mkEmptyArray db k xs) := by
  unfold mkEmptyArray; pauto
macro_rules | `(tactic| pleaf) => `(tactic| exact mkEmptyArray_pres)
theorem mkFixed_pres {db : Db} {dim : Nat} {k : Kind} {xs : List Rat} {unit cat : Sym} :
    Pres db (mkFixed db dim k xs unit cat) := by unfold mkFixed; pauto
macro_rules | `(tactic| pleaf) => `(tactic| exact mkFixed_pres)
theorem mkFScalar_pres {db : Db} {number : Rat} {num : Int} {den : Nat} {unit cat : Sym} :
    Pres db (mkFScalar db number num den unit cat) := by unfold mkFScalar; pauto
macro_rules | `(tactic| pleaf) => `(tactic| exact mkFScalar_pres)
theorem mkDerived_pres {db : Db} {cls : Cls} {items : List (Sym × Sym × Int)} {v : Rat} {k : Kind} {xs : List Rat} :
    Pres db (mkDerived db cls items v k xs) := by unfold mkDerived; pauto
macro_rules | `(tactic| pleaf) => `(tactic| exact mkDerived_pres)

theorem fresh_pres {db : Db} {m : M Nat} (h : Pres db m) : Pres db (fresh m) := by unfold fresh; pauto

/-- every public operation of the model keeps the interning invariant -/
theorem exec_pres (db : Db) (op : Op) : Pres db (exec db op) := by
  cases op <;> unfold exec <;> first | (apply fresh_pres; pleaf) | pauto

theorem step_cinv {db : Db} (hz : db.catByName 0 = none) {s : St} (inv : CInv db s) (op : Op) :
    CInv db (step db s op).1 := by
  unfold step
  cases h : exec db op s with
  | error e => exact inv
  | ok p => obtain ⟨o, s'⟩ := p; exact (exec_pres db op).run s o s' hz inv h

theorem run_cinv {db : Db} (hz : db.catByName 0 = none) (ops : List Op) {s : St} (inv : CInv db s) :
    CInv db (run db s ops) := by
  induction ops generalizing s with
  | nil => exact inv
  | cons op ops ih => exact ih (step_cinv hz inv op)

end Barril.Heap
