/-
Helper lemmas for C03/C04 (`Alg` engine): integer powers, the algebra of conversions between two rows,
the semantics (`slope`, `mag`, `dim`) and the invariant of the matching loop.
-/
import Barril.Model.Alg
import Barril.Proofs.ConvLemmas

namespace Barril.Alg
open Barril

theorem zpowR_eq (q : Rat) (e : Int) : zpowR q e = q ^ e := by
  cases e with
  | ofNat n => simp [zpowR]
  | negSucc n => simp [zpowR, zpow_negSucc]

/-- slope of the to-base map of a row -/
def rowSlope (r : UnitRow) : Rat := r.toBase.q / r.toBase.r

theorem rowSlope_pos {r : UnitRow} (h : r.WF) : 0 < rowSlope r := h.to_slope_pos

theorem convVal_affine {u w : UnitRow} (hu : u.WF) (hw : w.WF) (x : Rat) :
    convVal u w x = convVal u w 0 + x * (rowSlope u / rowSlope w) := by
  unfold convVal rowSlope
  have h1 := hw.inv1
  have tr := hu.tr
  have fr := hw.fr
  have wtr := hw.tr
  have wtq := hw.tq
  have e : w.fromBase.q = w.toBase.r * w.fromBase.r / w.toBase.q := by
    field_simp; linarith
  rw [e]
  field_simp
  ring

theorem fromP_zero {w : UnitRow} (hw : w.WF) (h0 : w.toBase.p = 0) : w.fromBase.p = 0 := by
  have := hw.inv0
  rw [h0] at this
  simp at this
  rcases this with h | h
  · exact h
  · exact absurd h hw.tr

theorem convVal_zero {u w : UnitRow} (hw : w.WF) (h0 : u.toBase.p = 0) (h1 : w.toBase.p = 0) :
    convVal u w 0 = 0 := by
  unfold convVal
  rw [h0, fromP_zero hw h1]
  simp
/-- a unit symbol with its row; the name of its quantity type is not shadowed by a category of another type -/
structure UnitOK (db : Db) (u : Sym) (r : UnitRow) : Prop where
  row : db.unitBySym u = some r
  ty : db.typeOf r.qtype = .ok r.qtype

theorem unitBySym_mem {db : Db} {u : Sym} {r : UnitRow} (h : db.unitBySym u = some r) : r ∈ db.units := by
  unfold Db.unitBySym at h; exact List.mem_of_find?_eq_some h

theorem unitBySym_sym {db : Db} {u : Sym} {r : UnitRow} (h : db.unitBySym u = some r) : r.sym = u := by
  unfold Db.unitBySym at h
  have := List.find?_some h
  simpa using this

theorem getInfo_of_row {db : Db} {u : Sym} {r : UnitRow} (h : db.unitBySym u = some r) (a b : Bool) :
    db.getInfo r.qtype u a b = .ok r := by
  unfold Db.getInfo Db.tryInfo
  simp [h]

/-- `Convert` between two units of one quantity type that are found by their symbols -/
theorem convert_rows {db : Db} (hdb : ∀ r ∈ db.units, r.WF) {u w : Sym} {ru rw : UnitRow}
    (hu : UnitOK db u ru) (hw : UnitOK db w rw) (hq : rw.qtype = ru.qtype) (x : Rat) :
    db.convert ru.qtype u w x = .ok (convVal ru rw x) := by
  have wu := hdb _ (unitBySym_mem hu.row)
  have ww := hdb _ (unitBySym_mem hw.row)
  unfold Db.convert
  by_cases huw : u = w
  · subst huw
    have : ru = rw := by have := hu.row; rw [hw.row] at this; cases this; rfl
    subst this
    simp [convVal_self wu]
  · have : (u == w) = false := by simpa using huw
    simp only [this, Bool.false_eq_true, ↓reduceIte, hu.ty]
    rw [getInfo_of_row hu.row]
    have h2 := getInfo_of_row hw.row true true
    rw [hq] at h2
    simp only [h2]
    exact convRows_eq wu ww x

/-- the base increment of a well-formed row is its slope -/
theorem baseIncrement_eq {r : UnitRow} (h : r.WF) : baseIncrement r = .ok (rowSlope r) := by
  unfold baseIncrement rowSlope
  have tr := h.tr
  simp only [h.ok, Bool.not_true, Bool.false_eq_true, ↓reduceIte, h.to_apply]
  congr 1
  field_simp
  ring

/-- `_ConvertMatchingExp` on two such units: the plain (affine) conversion for the same unit and for
exponent 1 outside a derived operand, otherwise a scaling by the ratio of the slopes raised to the exponent
(for exponent 1 without offset the plain conversion IS that scaling); it never fails -/
theorem convertMatchingExp_rows {db : Db} (hdb : ∀ r ∈ db.units, r.WF) {u w : Sym} {ru rw : UnitRow}
    (hu : UnitOK db u ru) (hw : UnitOK db w rw) (hq : rw.qtype = ru.qtype) (exp : Int) (v : Rat) (inD : Bool) :
    convertMatchingExp db ru.qtype u w exp v inD
      = .ok (if u = w ∨ (exp = 1 ∧ inD = false) then convVal ru rw v else v * (rowSlope ru / rowSlope rw) ^ exp) := by
  have wu := hdb _ (unitBySym_mem hu.row)
  have ww := hdb _ (unitBySym_mem hw.row)
  unfold convertMatchingExp
  by_cases hc : u = w ∨ (exp = 1 ∧ inD = false)
  · have : (u == w || (exp == 1 && !inD)) = true := by
      rcases hc with h | h
      · simp [h]
      · simp [h.1, h.2]
    simp only [this, ↓reduceIte, hc]
    exact convert_rows hdb hu hw hq v
  · have : (u == w || (exp == 1 && !inD)) = false := by
      simp only [not_or, not_and] at hc
      obtain ⟨h1, h2⟩ := hc
      by_cases he : exp = 1
      · have := h2 he; simp [h1, he, this]
      · simp [h1, he]
    simp only [this, Bool.false_eq_true, ↓reduceIte, hc]
    rw [convert_rows hdb hu hw hq 0]
    simp only
    by_cases hz : exp = 1 ∧ convVal ru rw 0 = 0
    · have : (exp == 1 && convVal ru rw 0 == 0) = true := by simp [hz.1, hz.2]
      simp only [this, ↓reduceIte]
      rw [convert_rows hdb hu hw hq v, convVal_affine wu ww v, hz.2, hz.1]
      simp
    · have : (exp == 1 && convVal ru rw 0 == 0) = false := by
        simp only [not_and] at hz
        by_cases he : exp = 1
        · have := hz he; simp [he, this]
        · simp [he]
      simp only [this, Bool.false_eq_true, ↓reduceIte]
      have hne : rowSlope ru / rowSlope rw ≠ 0 :=
        div_ne_zero (ne_of_gt (rowSlope_pos wu)) (ne_of_gt (rowSlope_pos ww))
      by_cases h0 : convVal ru rw 0 = 0
      · -- no offset between the two units: the ratio is Convert(1.0)
        have : (convVal ru rw 0 == 0) = true := by simp [h0]
        simp only [this, ↓reduceIte]
        rw [convert_rows hdb hu hw hq 1]
        simp only
        have e : convVal ru rw 1 = rowSlope ru / rowSlope rw := by
          rw [convVal_affine wu ww 1, h0]; ring
        rw [e]
        unfold scaleByPow
        simp [hne, zpowR_eq]
      · -- an offset: the quotient of the base increments of the two rows
        have : (convVal ru rw 0 == 0) = false := by simpa using h0
        simp only [this, Bool.false_eq_true, ↓reduceIte]
        have hr : ratioByIncrements db ru.qtype u w = .ok (rowSlope ru / rowSlope rw) := by
          unfold ratioByIncrements
          have g2 := getInfo_of_row hw.row false true
          rw [hq] at g2
          simp only [getInfo_of_row hu.row false true, g2, baseIncrement_eq wu, baseIncrement_eq ww]
          simp [ne_of_gt (rowSlope_pos ww)]
        rw [hr]
        simp only
        unfold scaleByPow
        simp [hne, zpowR_eq]

/-- inside a derived operand, for an exponent other than 1, and for units without offset, every step is
the scaling -/
theorem convertMatchingExp_scale {db : Db} (hdb : ∀ r ∈ db.units, r.WF) {u w : Sym} {ru rw : UnitRow}
    (hu : UnitOK db u ru) (hw : UnitOK db w rw) (hq : rw.qtype = ru.qtype) (exp : Int) (v : Rat) (inD : Bool)
    (hsc : inD = true ∨ exp ≠ 1 ∨ (ru.toBase.p = 0 ∧ rw.toBase.p = 0)) :
    convertMatchingExp db ru.qtype u w exp v inD = .ok (v * (rowSlope ru / rowSlope rw) ^ exp) := by
  have wu := hdb _ (unitBySym_mem hu.row)
  have ww := hdb _ (unitBySym_mem hw.row)
  rw [convertMatchingExp_rows hdb hu hw hq]
  by_cases huw : u = w
  · subst huw
    have : ru = rw := by have := hu.row; rw [hw.row] at this; cases this; rfl
    subst this
    have : rowSlope ru / rowSlope ru = 1 := div_self (ne_of_gt (rowSlope_pos wu))
    simp [this, convVal_self wu]
  · by_cases hc : exp = 1 ∧ inD = false
    · have h01 : ru.toBase.p = 0 ∧ rw.toBase.p = 0 := by
        rcases hsc with h | h | h
        · rw [hc.2] at h; cases h
        · exact absurd hc.1 h
        · exact h
      simp only [huw, hc, and_self, or_true, ↓reduceIte]
      rw [convVal_affine wu ww, convVal_zero ww h01.1 h01.2]
      simp
    · simp [huw, hc]

/-! ### semantics -/

/-- base-unit amount of one step of a unit (0 for a symbol that is not in the table; every theorem that
uses it assumes the symbol is) -/
def slope (db : Db) (u : Sym) : Rat :=
  match db.unitBySym u with
  | some r => rowSlope r
  | none => 0

/-- `Π slope(unit) ^ exp` -/
def mag (db : Db) : List Entry → Rat
  | [] => 1
  | e :: es => slope db e.unit ^ e.exp * mag db es

def hasType (db : Db) (qt : Sym) (e : Entry) : Bool :=
  match db.catByName e.cat with
  | some ci => ci.qtype == qt
  | none => false

/-- the exponent of a quantity type: the sum over the categories of that type -/
def dim (db : Db) (qt : Sym) : List Entry → Int
  | [] => 0
  | e :: es => (if hasType db qt e then e.exp else 0) + dim db qt es

/-- the shape `ObtainQuantity` turns into a simple quantity: one entry with exponent 1 -/
def isSimpleShape : List Entry → Bool
  | [e] => e.exp == 1
  | _ => false

/-- every entry of a dict that is not of the simple shape is scaled by the matching: the dict has several
entries (`len(c) > 1`) or its only entry has an exponent other than 1 -/
theorem scaled_of_not_simple {es : List Entry} (h : isSimpleShape es = false) :
    ∀ e ∈ es, isDerivedDict es = true ∨ e.exp ≠ 1 := by
  intro e he
  match es, h, he with
  | [x], h, he =>
    simp only [List.mem_singleton] at he; subst he
    right; intro h1; simp [isSimpleShape, h1] at h
  | _ :: _ :: _, _, _ => left; simp [isDerivedDict]

/-- no offset: the to-base map of the unit is a pure scaling -/
def ScaleOnly (db : Db) (u : Sym) : Prop := ∀ r, db.unitBySym u = some r → r.toBase.p = 0

theorem slope_of {db : Db} {u : Sym} {r : UnitRow} (h : db.unitBySym u = some r) : slope db u = rowSlope r := by
  unfold slope; rw [h]

/-- an entry whose unit is found by its symbol and belongs to the quantity type of the category -/
def EntryOK (db : Db) (e : Entry) : Prop := ∃ r, UnitOK db e.unit r ∧ catQType db e.cat = .ok r.qtype

def UsedOK (db : Db) (used : List (Sym × Sym)) : Prop :=
  ∀ qt w, lookupU qt used = some w → ∃ r, UnitOK db w r ∧ r.qtype = qt

/-- after matching: the unit of an entry is the unit recorded for its quantity type -/
def Good (db : Db) (used : List (Sym × Sym)) (e : Entry) : Prop :=
  ∃ r, UnitOK db e.unit r ∧ catQType db e.cat = .ok r.qtype ∧ lookupU r.qtype used = some e.unit

def catExp (e : Entry) : Sym × Int := (e.cat, e.exp)

theorem lookupU_cons_self (qt u : Sym) (used : List (Sym × Sym)) : lookupU qt ((qt, u) :: used) = some u := by
  simp [lookupU]

theorem lookupU_cons_ne {qt qt' u : Sym} (used : List (Sym × Sym)) (h : qt ≠ qt') :
    lookupU qt' ((qt, u) :: used) = lookupU qt' used := by
  simp [lookupU, h]

/-- **the invariant of the matching loop** (one operand's pass), by induction over the entry list: on
entries whose units are known the pass never fails; categories and exponents are untouched; afterwards every
entry carries the unit recorded for its quantity type; units already recorded stay; every unit that occurs
afterwards occurred before; and the base magnitude `value · Π slope(unit)^exp` is unchanged when the operand
is derived (`inD`, every entry is then scaled), or no entry has exponent 1, or no unit involved has an offset. -/
theorem matchOne_spec {db : Db} (hdb : ∀ r ∈ db.units, r.WF) (P : Sym → Prop) (inD : Bool) :
    ∀ (es : List Entry) (used : List (Sym × Sym)) (v : Rat),
      (∀ e ∈ es, EntryOK db e) → UsedOK db used →
      (∀ e ∈ es, P e.unit) → (∀ qt w, lookupU qt used = some w → P w) →
      ∃ used' es' v', matchOne db inD used es v = .ok (used', es', v')
        ∧ UsedOK db used'
        ∧ (∀ qt w, lookupU qt used = some w → lookupU qt used' = some w)
        ∧ es'.map catExp = es.map catExp
        ∧ (∀ e' ∈ es', Good db used' e')
        ∧ (∀ e' ∈ es', P e'.unit) ∧ (∀ qt w, lookupU qt used' = some w → P w)
        ∧ (((∀ e ∈ es, inD = true ∨ e.exp ≠ 1) ∨ (∀ u, P u → ScaleOnly db u)) →
            v' * mag db es' = v * mag db es) := by
  intro es
  induction es with
  | nil =>
    intro used v _ hu _ hpu
    exact ⟨used, [], v, rfl, hu, fun _ _ h => h, rfl, by simp, by simp, hpu, fun _ => rfl⟩
  | cons e es ih =>
    intro used v hes hu hpe hpu
    obtain ⟨r, hr, hcat⟩ := hes e (List.mem_cons_self ..)
    have hes' : ∀ x ∈ es, EntryOK db x := fun x hx => hes x (List.mem_cons_of_mem _ hx)
    have hpe' : ∀ x ∈ es, P x.unit := fun x hx => hpe x (List.mem_cons_of_mem _ hx)
    cases hl : lookupU r.qtype used with
    | none =>
      have hu1 : UsedOK db ((r.qtype, e.unit) :: used) := by
        intro qt w hw
        by_cases hq : r.qtype = qt
        · subst hq; rw [lookupU_cons_self] at hw; cases hw; exact ⟨r, hr, rfl⟩
        · rw [lookupU_cons_ne _ hq] at hw; exact hu qt w hw
      have hpu1 : ∀ qt w, lookupU qt ((r.qtype, e.unit) :: used) = some w → P w := by
        intro qt w hw
        by_cases hq : r.qtype = qt
        · subst hq; rw [lookupU_cons_self] at hw; cases hw; exact hpe e (List.mem_cons_self ..)
        · rw [lookupU_cons_ne _ hq] at hw; exact hpu qt w hw
      obtain ⟨used', es', v', hm, hu', hmono, hce, hgood, hp1, hp2, hmag⟩ :=
        ih ((r.qtype, e.unit) :: used) v hes' hu1 hpe' hpu1
      refine ⟨used', e :: es', v', ?_, hu', ?_, ?_, ?_, ?_, hp2, ?_⟩
      · simp only [matchOne, hcat, hl, hm]
      · intro qt w hw
        apply hmono
        have : r.qtype ≠ qt := by intro h; subst h; rw [hl] at hw; cases hw
        rw [lookupU_cons_ne _ this]; exact hw
      · simp [hce]
      · intro e' he'
        rcases List.mem_cons.mp he' with h | h
        · subst h; exact ⟨r, hr, hcat, hmono _ _ (lookupU_cons_self ..)⟩
        · exact hgood e' h
      · intro e' he'
        rcases List.mem_cons.mp he' with h | h
        · subst h; exact hpe e' (List.mem_cons_self ..)
        · exact hp1 e' h
      · intro hs
        have hs' : (∀ x ∈ es, inD = true ∨ x.exp ≠ 1) ∨ (∀ u, P u → ScaleOnly db u) :=
          hs.imp (fun h x hx => h x (List.mem_cons_of_mem _ hx)) id
        simp only [mag]
        rw [mul_left_comm, hmag hs', mul_left_comm]
    | some w =>
      obtain ⟨rw', hrw, hqw⟩ := hu _ _ hl
      have hpw : P w := hpu _ _ hl
      have hconv := convertMatchingExp_rows hdb hr hrw hqw e.exp v inD
      obtain ⟨used', es', v', hm, hu', hmono, hce, hgood, hp1, hp2, hmag⟩ :=
        ih used (if e.unit = w ∨ (e.exp = 1 ∧ inD = false) then convVal r rw' v
          else v * (rowSlope r / rowSlope rw') ^ e.exp) hes' hu hpe' hpu
      refine ⟨used', { e with unit := w } :: es', v', ?_, hu', hmono, ?_, ?_, ?_, hp2, ?_⟩
      · simp only [matchOne, hcat, hl, hconv, hm]
      · simp [hce, catExp]
      · intro e' he'
        rcases List.mem_cons.mp he' with h | h
        · subst h; exact ⟨rw', hrw, by rw [hqw]; exact hcat, by rw [hqw]; exact hmono _ _ hl⟩
        · exact hgood e' h
      · intro e' he'
        rcases List.mem_cons.mp he' with h | h
        · subst h; exact hpw
        · exact hp1 e' h
      · intro hs
        have hs' : (∀ x ∈ es, inD = true ∨ x.exp ≠ 1) ∨ (∀ u, P u → ScaleOnly db u) :=
          hs.imp (fun h x hx => h x (List.mem_cons_of_mem _ hx)) id
        have hcond : inD = true ∨ e.exp ≠ 1 ∨ (r.toBase.p = 0 ∧ rw'.toBase.p = 0) := by
          rcases hs with h | h
          · rcases h e (List.mem_cons_self ..) with h1 | h1
            · exact Or.inl h1
            · exact Or.inr (Or.inl h1)
          · exact Or.inr (Or.inr ⟨h _ (hpe e (List.mem_cons_self ..)) _ hr.row, h _ hpw _ hrw.row⟩)
        have hsc := convertMatchingExp_scale hdb hr hrw hqw e.exp v inD hcond
        rw [hconv] at hsc
        injection hsc with hsc
        have hm' := hmag hs'
        rw [hsc] at hm'
        simp only [mag]
        rw [mul_left_comm, hm', slope_of hr.row, slope_of hrw.row]
        have hw0 : rowSlope rw' ≠ 0 := ne_of_gt (rowSlope_pos (hdb _ (unitBySym_mem hrw.row)))
        have : rowSlope rw' ^ e.exp ≠ 0 := zpow_ne_zero _ hw0
        rw [div_zpow]
        field_simp

/-! ### unit totals, dims and the deletion step -/

theorem unitTotal_filter (T : Sym → Int) (u : Sym) (L : List Entry) :
    unitTotal u (L.filter (fun e => !(e.exp == 0 || T e.unit == 0)))
      = if T u = 0 then 0 else unitTotal u L := by
  induction L with
  | nil => simp [unitTotal]
  | cons e L ih =>
    simp only [List.filter_cons]
    by_cases h0 : e.exp = 0
    · simp only [h0, beq_self_eq_true, Bool.true_or, Bool.not_true, Bool.false_eq_true, ↓reduceIte, ih, unitTotal]
      split <;> simp
    · by_cases hT : T e.unit = 0
      · simp only [hT, beq_self_eq_true, Bool.or_true, Bool.not_true, Bool.false_eq_true, ↓reduceIte, ih, unitTotal]
        by_cases hu : e.unit = u
        · subst hu; simp [hT]
        · have : (e.unit == u) = false := by simpa using hu
          simp [this]
      · have : (!(e.exp == 0 || T e.unit == 0)) = true := by simp [h0, hT]
        simp only [this, ↓reduceIte, unitTotal, ih]
        by_cases hu : e.unit = u
        · subst hu; simp [hT]
        · have : (e.unit == u) = false := by simpa using hu
          simp [this]

/-- deleting the zero entries does not change the accumulated exponent of any unit -/
theorem unitTotal_dropZero (u : Sym) (L : List Entry) : unitTotal u (dropZero L) = unitTotal u L := by
  have h := unitTotal_filter (fun w => unitTotal w L) u L
  have e : dropZero L = L.filter (fun e => !(e.exp == 0 || (fun w => unitTotal w L) e.unit == 0)) := rfl
  rw [e, h]
  split
  · rename_i h0; exact h0.symm
  · rfl

theorem mem_dropZero {L : List Entry} {e : Entry} (h : e ∈ dropZero L) :
    e ∈ L ∧ e.exp ≠ 0 ∧ unitTotal e.unit L ≠ 0 := by
  unfold dropZero keepEntry at h
  have := List.mem_filter.mp h
  refine ⟨this.1, ?_, ?_⟩
  · intro h0; have := this.2; simp [h0] at this
  · intro h0; have := this.2; simp [h0] at this

/-- when "has quantity type qt" and "has unit u" select the same entries, the two sums agree -/
theorem dim_eq_unitTotal {db : Db} {qt u : Sym} (L : List Entry)
    (h : ∀ e ∈ L, hasType db qt e = (e.unit == u)) : dim db qt L = unitTotal u L := by
  induction L with
  | nil => rfl
  | cons e L ih =>
    simp only [dim, unitTotal]
    rw [h e (List.mem_cons_self ..), ih (fun x hx => h x (List.mem_cons_of_mem _ hx))]

theorem dim_zero_of_none {db : Db} {qt : Sym} (L : List Entry) (h : ∀ e ∈ L, hasType db qt e = false) :
    dim db qt L = 0 := by
  induction L with
  | nil => rfl
  | cons e L ih =>
    simp only [dim]
    rw [h e (List.mem_cons_self ..), ih (fun x hx => h x (List.mem_cons_of_mem _ hx))]
    simp

/-- one unit per quantity type and one quantity type per unit: the shape every list has after matching -/
def Unified (db : Db) (L : List Entry) : Prop :=
  ∀ e ∈ L, ∀ e' ∈ L, ∀ qt, hasType db qt e = true → (hasType db qt e' = true ↔ e'.unit = e.unit)

theorem dim_dropZero {db : Db} {qt : Sym} {L : List Entry} (hU : Unified db L) :
    dim db qt (dropZero L) = dim db qt L := by
  by_cases hex : ∃ e ∈ L, hasType db qt e = true
  · obtain ⟨e0, he0, ht0⟩ := hex
    have hiff : ∀ e ∈ L, hasType db qt e = (e.unit == e0.unit) := by
      intro e he
      have := hU e0 he0 e he qt ht0
      by_cases hh : hasType db qt e = true
      · rw [hh]; have := this.mp hh; simp [this]
      · have hne : e.unit ≠ e0.unit := fun h => hh (this.mpr h)
        have : (e.unit == e0.unit) = false := by simpa using hne
        rw [this]; simpa using hh
    rw [dim_eq_unitTotal L hiff,
      dim_eq_unitTotal (dropZero L) (fun e he => hiff e (mem_dropZero he).1), unitTotal_dropZero]
  · have hn : ∀ e ∈ L, hasType db qt e = false := by
      intro e he
      by_cases hh : hasType db qt e = true
      · exact absurd ⟨e, he, hh⟩ hex
      · simpa using hh
    rw [dim_zero_of_none L hn, dim_zero_of_none (dropZero L) (fun e he => hn e (mem_dropZero he).1)]


/-! ### the magnitude depends on the accumulated exponents only -/

/-- `Π_{u ∈ U} s(u) ^ T(u)` -/
def magBy (s : Sym → Rat) (T : Sym → Int) : List Sym → Rat
  | [] => 1
  | u :: us => s u ^ T u * magBy s T us

theorem magBy_congr {s : Sym → Rat} {T T' : Sym → Int} (U : List Sym) (h : ∀ u ∈ U, T u = T' u) :
    magBy s T U = magBy s T' U := by
  induction U with
  | nil => rfl
  | cons u U ih =>
    simp only [magBy]
    rw [h u (List.mem_cons_self ..), ih (fun x hx => h x (List.mem_cons_of_mem _ hx))]

theorem magBy_add {s : Sym → Rat} (T1 T2 : Sym → Int) (U : List Sym) (hs : ∀ u ∈ U, s u ≠ 0) :
    magBy s (fun u => T1 u + T2 u) U = magBy s T1 U * magBy s T2 U := by
  induction U with
  | nil => simp [magBy]
  | cons u U ih =>
    simp only [magBy]
    rw [ih (fun x hx => hs x (List.mem_cons_of_mem _ hx)), zpow_add₀ (hs u (List.mem_cons_self ..))]
    ring

theorem magBy_single_notin {s : Sym → Rat} (u0 : Sym) (x : Int) (U : List Sym) (h : u0 ∉ U) :
    magBy s (fun u => if u0 == u then x else 0) U = 1 := by
  induction U with
  | nil => rfl
  | cons u U ih =>
    simp only [magBy]
    have hne : u0 ≠ u := fun e => h (e ▸ List.mem_cons_self ..)
    have : (u0 == u) = false := by simpa using hne
    rw [this, ih (fun hx => h (List.mem_cons_of_mem _ hx))]
    simp

theorem magBy_single {s : Sym → Rat} (u0 : Sym) (x : Int) (U : List Sym) (hm : u0 ∈ U) (hn : U.Nodup) :
    magBy s (fun u => if u0 == u then x else 0) U = s u0 ^ x := by
  induction U with
  | nil => cases hm
  | cons u U ih =>
    simp only [magBy]
    have hn' := List.nodup_cons.mp hn
    by_cases hu : u0 = u
    · subst hu
      rw [magBy_single_notin u0 x U hn'.1]
      simp
    · have : (u0 == u) = false := by simpa using hu
      rw [this]
      have hm' : u0 ∈ U := by
        rcases List.mem_cons.mp hm with h | h
        · exact absurd h hu
        · exact h
      rw [ih hm' hn'.2]
      simp

theorem mag_eq_magBy {db : Db} (L : List Entry) (U : List Sym) (hU : U.Nodup) (hL : ∀ e ∈ L, e.unit ∈ U)
    (hs : ∀ u ∈ U, slope db u ≠ 0) : mag db L = magBy (slope db) (fun u => unitTotal u L) U := by
  induction L with
  | nil =>
    simp only [mag, unitTotal]
    clear hU hL
    induction U with
    | nil => rfl
    | cons u U ih => simp only [magBy]; rw [← ih (fun x hx => hs x (List.mem_cons_of_mem _ hx))]; simp
  | cons e L ih =>
    simp only [mag, unitTotal]
    rw [magBy_add (fun u => if e.unit == u then e.exp else 0) (fun u => unitTotal u L) U hs,
      magBy_single e.unit e.exp U (hL e (List.mem_cons_self ..)) hU,
      ih (fun x hx => hL x (List.mem_cons_of_mem _ hx))]

theorem exists_nodup_units (L : List Entry) : ∃ U : List Sym, U.Nodup ∧ (∀ e ∈ L, e.unit ∈ U) ∧ (∀ u ∈ U, ∃ e ∈ L, e.unit = u) := by
  induction L with
  | nil => exact ⟨[], List.nodup_nil, by simp, by simp⟩
  | cons e L ih =>
    obtain ⟨U, hn, hc, hb⟩ := ih
    by_cases h : e.unit ∈ U
    · refine ⟨U, hn, ?_, ?_⟩
      · intro x hx
        rcases List.mem_cons.mp hx with h1 | h1
        · subst h1; exact h
        · exact hc x h1
      · intro u hu
        obtain ⟨x, hx, hxu⟩ := hb u hu
        exact ⟨x, List.mem_cons_of_mem _ hx, hxu⟩
    · refine ⟨e.unit :: U, List.nodup_cons.mpr ⟨h, hn⟩, ?_, ?_⟩
      · intro x hx
        rcases List.mem_cons.mp hx with h1 | h1
        · subst h1; exact List.mem_cons_self ..
        · exact List.mem_cons_of_mem _ (hc x h1)
      · intro u hu
        rcases List.mem_cons.mp hu with h1 | h1
        · exact ⟨e, List.mem_cons_self .., h1.symm⟩
        · obtain ⟨x, hx, hxu⟩ := hb u h1
          exact ⟨x, List.mem_cons_of_mem _ hx, hxu⟩

/-- two lists with the same accumulated exponents have the same magnitude -/
theorem mag_congr_totals {db : Db} (L L' : List Entry) (hsub : ∀ e ∈ L', ∃ e0 ∈ L, e0.unit = e.unit)
    (hs : ∀ e ∈ L, slope db e.unit ≠ 0) (ht : ∀ u, unitTotal u L' = unitTotal u L) : mag db L' = mag db L := by
  obtain ⟨U, hn, hc, hb⟩ := exists_nodup_units L
  have hsU : ∀ u ∈ U, slope db u ≠ 0 := by
    intro u hu; obtain ⟨x, hx, hxu⟩ := hb u hu; rw [← hxu]; exact hs x hx
  rw [mag_eq_magBy L U hn hc hsU,
    mag_eq_magBy L' U hn (fun e he => by obtain ⟨e0, h0, h1⟩ := hsub e he; rw [← h1]; exact hc e0 h0) hsU]
  exact magBy_congr U (fun u _ => ht u)

/-- deleting the zero entries does not change the magnitude -/
theorem mag_dropZero {db : Db} (L : List Entry) (hs : ∀ e ∈ L, slope db e.unit ≠ 0) :
    mag db (dropZero L) = mag db L :=
  mag_congr_totals L (dropZero L) (fun e he => ⟨e, (mem_dropZero he).1, rfl⟩) hs (fun u => unitTotal_dropZero u L)


/-! ### the merge step -/

def sgn : NewOp → Int
  | .mul => 1
  | .div => -1
  | .floordiv => -1

theorem expOp_eq (op : NewOp) (a b : Int) : expOp op a b = a + sgn op * b := by
  cases op <;> simp [expOp, sgn] <;> ring

theorem hasType_cat {db : Db} {qt : Sym} {e x : Entry} (h : e.cat = x.cat) : hasType db qt e = hasType db qt x := by
  unfold hasType; rw [h]

theorem mergeOne_dim {db : Db} {qt : Sym} (s : Int) (f : Int → Int → Int) (hf : ∀ a b, f a b = a + s * b) :
    ∀ (L : List Entry) (x : Entry) (L' : List Entry), mergeOne f L x = .ok L' →
      dim db qt L' = dim db qt L + (if hasType db qt x then s * x.exp else 0) := by
  intro L
  induction L with
  | nil =>
    intro x L' h
    simp only [mergeOne] at h
    cases h
    have : hasType db qt ⟨x.cat, x.unit, f 0 x.exp⟩ = hasType db qt x := hasType_cat rfl
    show (if hasType db qt ⟨x.cat, x.unit, f 0 x.exp⟩ then f 0 x.exp else 0) + 0
      = 0 + (if hasType db qt x then s * x.exp else 0)
    rw [this, hf]
    by_cases hh : hasType db qt x = true <;> simp [hh]
  | cons e L ih =>
    intro x L' h
    simp only [mergeOne] at h
    split at h
    · rename_i hc
      have hc' : e.cat = x.cat := by simpa using hc
      split at h
      · cases h
        have : hasType db qt { e with exp := f e.exp x.exp } = hasType db qt e := hasType_cat rfl
        show (if hasType db qt { e with exp := f e.exp x.exp } then f e.exp x.exp else 0) + dim db qt L
          = ((if hasType db qt e then e.exp else 0) + dim db qt L) + (if hasType db qt x then s * x.exp else 0)
        rw [this, hf, ← hasType_cat (db := db) (qt := qt) hc']
        by_cases hh : hasType db qt e = true <;> simp [hh] <;> ring
      · cases h
    · split at h
      · cases h
      · rename_i rest hr
        cases h
        simp only [dim, ih x rest hr]
        ring

theorem mergeOne_mag {db : Db} (s : Int) (f : Int → Int → Int) (hf : ∀ a b, f a b = a + s * b) :
    ∀ (L : List Entry) (x : Entry) (L' : List Entry), mergeOne f L x = .ok L' → slope db x.unit ≠ 0 →
      mag db L' = mag db L * slope db x.unit ^ (s * x.exp) := by
  intro L
  induction L with
  | nil =>
    intro x L' h _
    simp only [mergeOne] at h
    cases h
    simp [mag, hf]
  | cons e L ih =>
    intro x L' h hx
    simp only [mergeOne] at h
    split at h
    · split at h
      · rename_i hu
        have hu' : e.unit = x.unit := by simpa using hu
        cases h
        simp only [mag, hf, hu']
        rw [zpow_add₀ hx]
        ring
      · cases h
    · split at h
      · cases h
      · rename_i rest hr
        cases h
        simp only [mag, ih x rest hr hx]
        ring

theorem mergeOne_mem (f : Int → Int → Int) :
    ∀ (L : List Entry) (x : Entry) (L' : List Entry), mergeOne f L x = .ok L' →
      ∀ e' ∈ L', ∃ e0 ∈ x :: L, e0.cat = e'.cat ∧ e0.unit = e'.unit := by
  intro L
  induction L with
  | nil =>
    intro x L' h e' he'
    simp only [mergeOne] at h
    cases h
    simp only [List.mem_singleton] at he'
    subst he'
    exact ⟨x, List.mem_cons_self .., rfl, rfl⟩
  | cons e L ih =>
    intro x L' h e' he'
    simp only [mergeOne] at h
    split at h
    · split at h
      · cases h
        rcases List.mem_cons.mp he' with h1 | h1
        · subst h1
          exact ⟨e, List.mem_cons_of_mem _ (List.mem_cons_self ..), rfl, rfl⟩
        · exact ⟨e', List.mem_cons_of_mem _ (List.mem_cons_of_mem _ h1), rfl, rfl⟩
      · cases h
    · split at h
      · cases h
      · rename_i rest hr
        cases h
        rcases List.mem_cons.mp he' with h1 | h1
        · subst h1
          exact ⟨e', List.mem_cons_of_mem _ (List.mem_cons_self ..), rfl, rfl⟩
        · obtain ⟨e0, h0, hc⟩ := ih x rest hr e' h1
          refine ⟨e0, ?_, hc⟩
          rcases List.mem_cons.mp h0 with h2 | h2
          · subst h2; exact List.mem_cons_self ..
          · exact List.mem_cons_of_mem _ (List.mem_cons_of_mem _ h2)

/-- `Π slope(unit) ^ (s·exp)` -/
def magS (db : Db) (s : Int) : List Entry → Rat
  | [] => 1
  | e :: es => slope db e.unit ^ (s * e.exp) * magS db s es

theorem magS_one (db : Db) (L : List Entry) : magS db 1 L = mag db L := by
  induction L with
  | nil => rfl
  | cons e L ih => simp [magS, mag, ih]

theorem magS_neg_one (db : Db) (L : List Entry) : magS db (-1) L = (mag db L)⁻¹ := by
  induction L with
  | nil => simp [magS, mag]
  | cons e L ih => simp only [magS, mag, ih, mul_inv, neg_one_mul, zpow_neg]

theorem mergeAll_dim {db : Db} {qt : Sym} (s : Int) (f : Int → Int → Int) (hf : ∀ a b, f a b = a + s * b) :
    ∀ (X L m : List Entry), mergeAll f L X = .ok m → dim db qt m = dim db qt L + s * dim db qt X := by
  intro X
  induction X with
  | nil => intro L m h; simp only [mergeAll] at h; cases h; simp [dim]
  | cons x X ih =>
    intro L m h
    simp only [mergeAll] at h
    split at h
    · cases h
    · rename_i L1 h1
      rw [ih L1 m h, mergeOne_dim s f hf L x L1 h1]
      simp only [dim]
      split <;> ring

theorem mergeAll_mag {db : Db} (s : Int) (f : Int → Int → Int) (hf : ∀ a b, f a b = a + s * b) :
    ∀ (X L m : List Entry), mergeAll f L X = .ok m → (∀ x ∈ X, slope db x.unit ≠ 0) →
      mag db m = mag db L * magS db s X := by
  intro X
  induction X with
  | nil => intro L m h _; simp only [mergeAll] at h; cases h; simp [magS]
  | cons x X ih =>
    intro L m h hs
    simp only [mergeAll] at h
    split at h
    · cases h
    · rename_i L1 h1
      rw [ih L1 m h (fun y hy => hs y (List.mem_cons_of_mem _ hy)),
        mergeOne_mag s f hf L x L1 h1 (hs x (List.mem_cons_self ..))]
      simp only [magS]
      ring

theorem mergeAll_mem (f : Int → Int → Int) :
    ∀ (X L m : List Entry), mergeAll f L X = .ok m →
      ∀ e' ∈ m, ∃ e0 ∈ L ++ X, e0.cat = e'.cat ∧ e0.unit = e'.unit := by
  intro X
  induction X with
  | nil => intro L m h e' he'; simp only [mergeAll] at h; cases h; exact ⟨e', by simpa using he', rfl, rfl⟩
  | cons x X ih =>
    intro L m h e' he'
    simp only [mergeAll] at h
    split at h
    · cases h
    · rename_i L1 h1
      obtain ⟨e0, h0, hc⟩ := ih L1 m h e' he'
      rcases List.mem_append.mp h0 with h2 | h2
      · obtain ⟨e1, h3, hc1⟩ := mergeOne_mem f L x L1 h1 e0 h2
        refine ⟨e1, ?_, by rw [hc1.1, hc.1], by rw [hc1.2, hc.2]⟩
        rcases List.mem_cons.mp h3 with h4 | h4
        · subst h4; simp
        · simp [h4]
      · exact ⟨e0, by simp [h2], hc⟩

/-! ### `CreateDerived` returns the dict it was given -/

theorem checkCats_of_validate {db : Db} : ∀ (es : List Entry), validateEntries db es = .ok () → checkCats db es = .ok () := by
  intro es
  induction es with
  | nil => intro _; rfl
  | cons e es ih =>
    intro h
    simp only [validateEntries] at h
    split at h
    · cases h
    · rename_i ci hci
      split at h
      · cases h
      · simp only [checkCats, catQType, hci]
        exact ih h

theorem createDerived_entries {db : Db} {es : List Entry} {q : Quantity} (h : createDerived db es = .ok q) :
    q.entries = es ∧ q.caption = 0 := by
  unfold createDerived at h
  split at h
  · cases h
  · rename_i hv
    have hcc := checkCats_of_validate es hv
    unfold obtainFromDict at h
    split at h
    · rename_i e
      split at h
      · rename_i hexp
        have hexp' : e.exp = 1 := by simpa using hexp
        simp only [validateEntries] at hv
        split at hv
        · cases hv
        · rename_i ci hci
          split at hv
          · cases hv
          · rename_i hq
            have hvalid : db.categoryUnitValid e.cat e.unit = true := by
              unfold Db.categoryUnitValid; simp only [hci, hq]
            unfold simpleQuantity at h
            simp only [hci, hvalid, ↓reduceIte] at h
            cases h
            refine ⟨?_, rfl⟩
            cases e; simp_all
      · unfold derivedQuantity at h
        rw [hcc] at h
        cases h; exact ⟨rfl, rfl⟩
    · unfold derivedQuantity at h
      rw [hcc] at h
      cases h; exact ⟨rfl, rfl⟩


/-! ### the two passes together -/

theorem hasType_iff {db : Db} {qt : Sym} {e : Entry} : hasType db qt e = true ↔ catQType db e.cat = .ok qt := by
  unfold hasType catQType
  cases db.catByName e.cat with
  | none => simp
  | some ci => simp

theorem dim_of_catExp {db : Db} {qt : Sym} : ∀ (L L' : List Entry), L'.map catExp = L.map catExp →
    dim db qt L' = dim db qt L := by
  intro L
  induction L with
  | nil => intro L' h; simp at h; subst h; rfl
  | cons e L ih =>
    intro L' h
    cases L' with
    | nil => simp at h
    | cons e' L' =>
      simp only [List.map_cons, List.cons.injEq, catExp, Prod.mk.injEq] at h
      simp only [dim]
      rw [ih L' h.2, hasType_cat (db := db) (qt := qt) h.1.1, h.1.2]

theorem Good.mono {db : Db} {used used' : List (Sym × Sym)} {e : Entry}
    (hm : ∀ qt w, lookupU qt used = some w → lookupU qt used' = some w) (h : Good db used e) : Good db used' e := by
  obtain ⟨r, h1, h2, h3⟩ := h
  exact ⟨r, h1, h2, hm _ _ h3⟩

theorem Good.of_eq {db : Db} {used : List (Sym × Sym)} {e e' : Entry} (hc : e.cat = e'.cat) (hu : e.unit = e'.unit)
    (h : Good db used e) : Good db used e' := by
  obtain ⟨r, h1, h2, h3⟩ := h
  exact ⟨r, by rw [← hu]; exact h1, by rw [← hc]; exact h2, by rw [← hu]; exact h3⟩

theorem Good.entryOK {db : Db} {used : List (Sym × Sym)} {e : Entry} (h : Good db used e) : EntryOK db e := by
  obtain ⟨r, h1, h2, _⟩ := h
  exact ⟨r, h1, h2⟩

theorem unified_of_good {db : Db} {used : List (Sym × Sym)} {L : List Entry} (h : ∀ e ∈ L, Good db used e) :
    Unified db L := by
  intro e he e' he' qt ht
  obtain ⟨r, h1, h2, h3⟩ := h e he
  obtain ⟨r', h1', h2', h3'⟩ := h e' he'
  have hq : r.qtype = qt := by
    have := hasType_iff.mp ht; rw [h2] at this; injection this
  constructor
  · intro ht'
    have hq' : r'.qtype = qt := by
      have := hasType_iff.mp ht'; rw [h2'] at this; injection this
    rw [hq'] at h3'; rw [hq] at h3
    rw [h3] at h3'; injection h3' with h; exact h.symm
  · intro hu
    have : r' = r := by
      have a := h1'.row; rw [hu, h1.row] at a; injection a with a; exact a.symm
    apply hasType_iff.mpr
    rw [h2', this, hq]

theorem slope_ne_zero {db : Db} (hdb : ∀ r ∈ db.units, r.WF) {u : Sym} {r : UnitRow} (h : UnitOK db u r) :
    slope db u ≠ 0 := by
  rw [slope_of h.row]; exact ne_of_gt (rowSlope_pos (hdb _ (unitBySym_mem h.row)))

/-- **the invariant of `_MatchQuantities`** (both passes): on operands whose units are known the matching
never fails, keeps categories and exponents, leaves one unit per quantity type across BOTH operands; the left
operand's base magnitude is always kept (in the first pass only a dict with several entries is ever
converted, and that is scaled), the right operand's when it is not of the simple shape or no unit involved has
an offset -/
theorem matchQuantities_spec {db : Db} (hdb : ∀ r ∈ db.units, r.WF) (P : Sym → Prop) (e1 e2 : List Entry) (v1 v2 : Rat)
    (h1 : ∀ e ∈ e1, EntryOK db e) (h2 : ∀ e ∈ e2, EntryOK db e)
    (p1 : ∀ e ∈ e1, P e.unit) (p2 : ∀ e ∈ e2, P e.unit) :
    ∃ used e1' e2' w1 w2, matchQuantities db e1 e2 v1 v2 = .ok (e1', e2', w1, w2)
      ∧ e1'.map catExp = e1.map catExp ∧ e2'.map catExp = e2.map catExp
      ∧ (∀ e ∈ e1' ++ e2', Good db used e)
      ∧ (∀ e ∈ e1' ++ e2', P e.unit)
      ∧ w1 * mag db e1' = v1 * mag db e1
      ∧ ((isSimpleShape e2 = false ∨ (∀ u, P u → ScaleOnly db u)) → w2 * mag db e2' = v2 * mag db e2) := by
  obtain ⟨used1, e1', w1, hm1, hu1, _, hce1, hg1, hp1, hpu1, hmag1⟩ :=
    matchOne_spec hdb P (isDerivedDict e1) e1 [] v1 h1 (by intro qt w h; simp [lookupU] at h) p1
      (by intro qt w h; simp [lookupU] at h)
  obtain ⟨used2, e2', w2, hm2, _, hmono2, hce2, hg2, hp2, _, hmag2⟩ :=
    matchOne_spec hdb P (isDerivedDict e2) e2 used1 v2 h2 hu1 p2 hpu1
  have hfirst : w1 * mag db e1' = v1 * mag db e1 := by
    match e1, h1, hm1, hmag1 with
    | [], _, hm1, _ => simp only [matchOne] at hm1; injection hm1 with hm1; simp only [Prod.mk.injEq] at hm1; obtain ⟨_, rfl, rfl⟩ := hm1; rfl
    | [e], h1, hm1, _ =>
      obtain ⟨r, _, hc⟩ := h1 e (by simp)
      simp only [matchOne, hc, lookupU] at hm1
      injection hm1 with hm1; simp only [Prod.mk.injEq] at hm1; obtain ⟨_, rfl, rfl⟩ := hm1; rfl
    | _ :: _ :: _, _, _, hmag1 => exact hmag1 (Or.inl (fun _ _ => Or.inl (by simp [isDerivedDict])))
  refine ⟨used2, e1', e2', w1, w2, ?_, hce1, hce2, ?_, ?_, hfirst, ?_⟩
  · simp only [matchQuantities, hm1, hm2]
  · intro e he
    rcases List.mem_append.mp he with h | h
    · exact (hg1 e h).mono hmono2
    · exact hg2 e h
  · intro e he
    rcases List.mem_append.mp he with h | h
    · exact hp1 e h
    · exact hp2 e h
  · intro hs; exact hmag2 (hs.imp scaled_of_not_simple id)

/-- what a successful `opNew` went through -/
theorem opNew_inv {db : Db} {op : NewOp} {q1 q2 q : Quantity} {v1 v2 v : Rat}
    (h : opNew db op q1 q2 v1 v2 = .ok (q, v)) :
    ∃ e1 e2 w1 w2 m, matchQuantities db q1.entries q2.entries v1 v2 = .ok (e1, e2, w1, w2)
      ∧ mergeAll (expOp op) e1 e2 = .ok m ∧ createDerived db (dropZero m) = .ok q ∧ applyNew op w1 w2 = .ok v := by
  unfold opNew at h
  split at h
  · cases h
  · rename_i e1 e2 w1 w2 hm
    split at h
    · cases h
    · rename_i m hmerge
      split at h
      · cases h
      · rename_i q' hq
        split at h
        · cases h
        · rename_i v' hv
          cases h
          exact ⟨e1, e2, w1, w2, m, hm, hmerge, hq, hv⟩

theorem magS_sgn (db : Db) (op : NewOp) (L : List Entry) : magS db (sgn op) L = mag db L ^ (sgn op) := by
  cases op
  · simp [sgn, magS_one]
  · simp [sgn, magS_neg_one]
  · simp [sgn, magS_neg_one]

theorem mag_ne_zero {db : Db} (L : List Entry) (h : ∀ e ∈ L, slope db e.unit ≠ 0) : mag db L ≠ 0 := by
  induction L with
  | nil => simp [mag]
  | cons e L ih =>
    simp only [mag]
    exact mul_ne_zero (zpow_ne_zero _ (h e (List.mem_cons_self ..))) (ih (fun x hx => h x (List.mem_cons_of_mem _ hx)))

/-- **the specification of `opNew`** on operands whose units are known (see the corollaries in Props/C04):
dimension exponents add/subtract; the result again has known units, one unit per quantity type, no zero
exponent, no caption; and, when the right operand is not of the simple shape (it is then scaled entry by entry)
or no unit has an offset, the two matched values `w1 w2` that are combined carry the operands' base magnitudes (`M1 M2` are the magnitudes of the matched unit lists) -/
theorem opNew_spec {db : Db} (hdb : ∀ r ∈ db.units, r.WF) (P : Sym → Prop) {op : NewOp} {q1 q2 q : Quantity}
    {v1 v2 v : Rat} (h1 : ∀ e ∈ q1.entries, EntryOK db e) (h2 : ∀ e ∈ q2.entries, EntryOK db e)
    (p1 : ∀ e ∈ q1.entries, P e.unit) (p2 : ∀ e ∈ q2.entries, P e.unit)
    (h : opNew db op q1 q2 v1 v2 = .ok (q, v)) :
    (∀ qt, dim db qt q.entries = dim db qt q1.entries + sgn op * dim db qt q2.entries)
    ∧ (∀ e ∈ q.entries, EntryOK db e) ∧ (∀ e ∈ q.entries, P e.unit) ∧ Unified db q.entries
    ∧ (∀ e ∈ q.entries, e.exp ≠ 0 ∧ unitTotal e.unit q.entries ≠ 0) ∧ q.caption = 0
    ∧ ((isSimpleShape q2.entries = false ∨ (∀ u, P u → ScaleOnly db u)) →
        ∃ w1 w2 M1 M2, applyNew op w1 w2 = .ok v ∧ M1 ≠ 0 ∧ M2 ≠ 0
        ∧ w1 * M1 = v1 * mag db q1.entries ∧ w2 * M2 = v2 * mag db q2.entries
        ∧ mag db q.entries = M1 * M2 ^ (sgn op)) := by
  obtain ⟨e1, e2, w1, w2, m, hm, hmerge, hq, hv⟩ := opNew_inv h
  obtain ⟨used, e1', e2', w1', w2', hm', hce1, hce2, hgood, hp, hm1, hmag⟩ :=
    matchQuantities_spec hdb P q1.entries q2.entries v1 v2 h1 h2 p1 p2
  rw [hm] at hm'
  injection hm' with hm'
  simp only [Prod.mk.injEq] at hm'
  obtain ⟨rfl, rfl, rfl, rfl⟩ := hm'
  obtain ⟨hqe, hcap⟩ := createDerived_entries hq
  have hmem := mergeAll_mem (expOp op) e2 e1 m hmerge
  have hgm : ∀ e ∈ m, Good db used e := by
    intro e he
    obtain ⟨e0, h0, hc, hu⟩ := hmem e he
    exact (hgood e0 h0).of_eq hc hu
  have hpm : ∀ e ∈ m, P e.unit := by
    intro e he
    obtain ⟨e0, h0, _, hu⟩ := hmem e he
    rw [← hu]; exact hp e0 h0
  have hUm : Unified db m := unified_of_good hgm
  have hsl : ∀ (L : List Entry), (∀ e ∈ L, Good db used e) → ∀ e ∈ L, slope db e.unit ≠ 0 := by
    intro L hL e he
    obtain ⟨r, hr, _, _⟩ := hL e he
    exact slope_ne_zero hdb hr
  refine ⟨?_, ?_, ?_, ?_, ?_, hcap, ?_⟩
  · intro qt
    rw [hqe, dim_dropZero hUm, mergeAll_dim (sgn op) (expOp op) (expOp_eq op) e2 e1 m hmerge,
      dim_of_catExp _ _ hce1, dim_of_catExp _ _ hce2]
  · intro e he
    rw [hqe] at he
    exact (hgm e (mem_dropZero he).1).entryOK
  · intro e he
    rw [hqe] at he
    exact hpm e (mem_dropZero he).1
  · rw [hqe]
    exact unified_of_good (fun e he => hgm e (mem_dropZero he).1)
  · intro e he
    rw [hqe] at he ⊢
    have := mem_dropZero he
    exact ⟨this.2.1, by rw [unitTotal_dropZero]; exact this.2.2⟩
  · intro hs
    have hm2 := hmag hs
    have g1 : ∀ e ∈ e1, Good db used e := fun e he => hgood e (List.mem_append_left _ he)
    have g2 : ∀ e ∈ e2, Good db used e := fun e he => hgood e (List.mem_append_right _ he)
    refine ⟨w1, w2, mag db e1, mag db e2, hv, mag_ne_zero _ (hsl e1 g1), mag_ne_zero _ (hsl e2 g2), hm1, hm2, ?_⟩
    rw [hqe, mag_dropZero m (hsl m hgm),
      mergeAll_mag (sgn op) (expOp op) (expOp_eq op) e2 e1 m hmerge (hsl e2 g2), magS_sgn]


/-! ### success: on known units nothing in `opNew` can fail except a zero divisor -/

theorem mergeOne_ok (f : Int → Int → Int) : ∀ (L : List Entry) (x : Entry),
    (∀ e ∈ L, e.cat = x.cat → e.unit = x.unit) → ∃ L', mergeOne f L x = .ok L' := by
  intro L
  induction L with
  | nil => intro x _; exact ⟨_, rfl⟩
  | cons e L ih =>
    intro x h
    simp only [mergeOne]
    by_cases hc : e.cat = x.cat
    · have hu := h e (List.mem_cons_self ..) hc
      simp [hc, hu]
    · have : (e.cat == x.cat) = false := by simpa using hc
      obtain ⟨L', hL'⟩ := ih x (fun y hy => h y (List.mem_cons_of_mem _ hy))
      simp [this, hL']

theorem good_same_cat {db : Db} {used : List (Sym × Sym)} {e x : Entry} (he : Good db used e) (hx : Good db used x)
    (hc : e.cat = x.cat) : e.unit = x.unit := by
  obtain ⟨r, _, h2, h3⟩ := he
  obtain ⟨r', _, h2', h3'⟩ := hx
  rw [hc, h2'] at h2
  injection h2 with h2
  rw [← h2, h3'] at h3
  injection h3 with h3
  exact h3.symm

theorem mergeAll_ok {db : Db} {used : List (Sym × Sym)} (f : Int → Int → Int) : ∀ (X L : List Entry),
    (∀ e ∈ L ++ X, Good db used e) → ∃ m, mergeAll f L X = .ok m := by
  intro X
  induction X with
  | nil => intro L _; exact ⟨L, rfl⟩
  | cons x X ih =>
    intro L h
    have hx : Good db used x := h x (by simp)
    obtain ⟨L1, h1⟩ := mergeOne_ok f L x (fun e he hc => good_same_cat (h e (by simp [he])) hx hc)
    have hg : ∀ e ∈ L1 ++ X, Good db used e := by
      intro e he
      rcases List.mem_append.mp he with h2 | h2
      · obtain ⟨e0, h0, hc, hu⟩ := mergeOne_mem f L x L1 h1 e h2
        have : Good db used e0 := by
          rcases List.mem_cons.mp h0 with h3 | h3
          · subst h3; exact hx
          · exact h e0 (by simp [h3])
        exact this.of_eq hc hu
      · exact h e (by simp [h2])
    obtain ⟨m, hm⟩ := ih L1 hg
    exact ⟨m, by simp only [mergeAll, h1, hm]⟩

theorem catByName_of_catQType {db : Db} {c qt : Sym} (h : catQType db c = .ok qt) :
    ∃ ci, db.catByName c = some ci ∧ ci.qtype = qt := by
  unfold catQType at h
  cases hc : db.catByName c with
  | none => rw [hc] at h; cases h
  | some ci => rw [hc] at h; injection h with h; exact ⟨ci, rfl, h⟩

theorem checkQTU_of_row {db : Db} {u : Sym} {r : UnitRow} (h : db.unitBySym u = some r) :
    db.checkQuantityTypeUnit r.qtype u = .ok () := by
  unfold Db.checkQuantityTypeUnit; rw [getInfo_of_row h]

theorem validateEntries_ok {db : Db} : ∀ (es : List Entry), (∀ e ∈ es, EntryOK db e) → validateEntries db es = .ok () := by
  intro es
  induction es with
  | nil => intro _; rfl
  | cons e es ih =>
    intro h
    obtain ⟨r, hr, hc⟩ := h e (List.mem_cons_self ..)
    obtain ⟨ci, hci, hq⟩ := catByName_of_catQType hc
    simp only [validateEntries, hci, hq, checkQTU_of_row hr.row]
    exact ih (fun x hx => h x (List.mem_cons_of_mem _ hx))

theorem obtainFromDict_ok {db : Db} (es : List Entry) (cap : Sym) (h : ∀ e ∈ es, EntryOK db e) :
    ∃ q, obtainFromDict db es cap = .ok q ∧ q.entries = es ∧ q.caption = cap := by
  have hcc := checkCats_of_validate es (validateEntries_ok es h)
  have hder : derivedQuantity db es cap = .ok ⟨es, cap, true⟩ := by unfold derivedQuantity; rw [hcc]
  unfold obtainFromDict
  split
  · rename_i e
    split
    · rename_i hexp
      have hexp' : e.exp = 1 := by simpa using hexp
      obtain ⟨r, hr, hc⟩ := h e (by simp)
      obtain ⟨ci, hci, hq⟩ := catByName_of_catQType hc
      have hvalid : db.categoryUnitValid e.cat e.unit = true := by
        unfold Db.categoryUnitValid; simp only [hci, hq, checkQTU_of_row hr.row]
      refine ⟨⟨[⟨e.cat, e.unit, 1⟩], cap, false⟩, ?_, ?_, rfl⟩
      · unfold simpleQuantity; simp only [hci, hvalid, ↓reduceIte]
      · cases e; simp_all
    · exact ⟨_, hder, rfl, rfl⟩
  · exact ⟨_, hder, rfl, rfl⟩

theorem createDerived_ok {db : Db} (es : List Entry) (h : ∀ e ∈ es, EntryOK db e) :
    ∃ q, createDerived db es = .ok q := by
  obtain ⟨q, hq, _⟩ := obtainFromDict_ok es 0 h
  exact ⟨q, by unfold createDerived; rw [validateEntries_ok es h]; exact hq⟩

/-- on operands with known units `opNew` fails only by a zero divisor: the `RuntimeError` branch of the merge
and the validation of `CreateDerived` are unreachable -/
theorem opNew_ok {db : Db} (hdb : ∀ r ∈ db.units, r.WF) (op : NewOp) (q1 q2 : Quantity) (v1 v2 : Rat)
    (h1 : ∀ e ∈ q1.entries, EntryOK db e) (h2 : ∀ e ∈ q2.entries, EntryOK db e) :
    (∃ q v, opNew db op q1 q2 v1 v2 = .ok (q, v)) ∨ (op ≠ .mul ∧ opNew db op q1 q2 v1 v2 = .error .other) := by
  obtain ⟨used, e1, e2, w1, w2, hm, _, _, hgood, _, _, _⟩ :=
    matchQuantities_spec hdb (fun _ => True) q1.entries q2.entries v1 v2 h1 h2 (fun _ _ => trivial) (fun _ _ => trivial)
  obtain ⟨m, hmerge⟩ := mergeAll_ok (expOp op) e2 e1 hgood
  have hgm : ∀ e ∈ dropZero m, EntryOK db e := by
    intro e he
    obtain ⟨e0, h0, hc, hu⟩ := mergeAll_mem (expOp op) e2 e1 m hmerge e (mem_dropZero he).1
    exact ((hgood e0 h0).of_eq hc hu).entryOK
  obtain ⟨q, hq⟩ := createDerived_ok (dropZero m) hgm
  unfold opNew
  simp only [hm, hmerge, hq]
  cases op with
  | mul => left; exact ⟨q, w1 * w2, by simp [applyNew]⟩
  | div =>
    by_cases hw : w2 = 0
    · right; exact ⟨by simp, by simp [applyNew, hw]⟩
    · left; exact ⟨q, w1 / w2, by simp [applyNew, hw]⟩
  | floordiv =>
    by_cases hw : w2 = 0
    · right; exact ⟨by simp, by simp [applyNew, hw]⟩
    · left; exact ⟨q, ((w1 / w2).floor : Int), by simp [applyNew, hw]⟩


/-! ### vocabulary of the property theorems -/

/-- the amount in base units (for units without offset): `value · Π slope(unit)^exp` -/
def baseMag (db : Db) (q : Quantity) (v : Rat) : Rat := v * mag db q.entries

/-- every unit of the quantity is a table unit (found by its symbol) of the quantity type of its category -/
def Known (db : Db) (q : Quantity) : Prop := ∀ e ∈ q.entries, EntryOK db e

/-- no unit of the quantity has an offset -/
def ScaleOnlyQ (db : Db) (q : Quantity) : Prop := ∀ e ∈ q.entries, ScaleOnly db e.unit

theorem Known.mag_ne_zero {db : Db} (hdb : ∀ r ∈ db.units, r.WF) {q : Quantity} (h : Known db q) :
    mag db q.entries ≠ 0 :=
  Alg.mag_ne_zero _ (fun e he => by obtain ⟨r, hr, _⟩ := h e he; exact slope_ne_zero hdb hr)

/-- the loop of `Scalar.__pow__`: after `k` more multiplications by `(q, v)` the exponents grew by `k` times
those of `q` and the base magnitude by the `k`-th power (`q` not of the simple shape, or units `P` without
offset) -/
theorem powLoop_spec {db : Db} (hdb : ∀ r ∈ db.units, r.WF) (P : Sym → Prop) {q : Quantity} {v : Rat} (hq : Known db q)
    (pq : ∀ e ∈ q.entries, P e.unit) (hs : isSimpleShape q.entries = false ∨ (∀ u, P u → ScaleOnly db u)) :
    ∀ (k : Nat) (rq : Quantity) (rv : Rat) (q' : Quantity) (v' : Rat),
      Known db rq → (∀ e ∈ rq.entries, P e.unit) → powLoop db q v k rq rv = .ok (q', v') →
      (∀ qt, dim db qt q'.entries = dim db qt rq.entries + k * dim db qt q.entries)
      ∧ baseMag db q' v' = baseMag db rq rv * baseMag db q v ^ k
      ∧ Known db q' ∧ (∀ e ∈ q'.entries, P e.unit) := by
  intro k
  induction k with
  | zero =>
    intro rq rv q' v' hk hsr h
    simp only [powLoop] at h
    cases h
    exact ⟨fun qt => by simp, by simp, hk, hsr⟩
  | succ k ih =>
    intro rq rv q' v' hk hsr h
    simp only [powLoop] at h
    split at h
    · cases h
    · rename_i rq1 rv1 hop
      obtain ⟨hdim, hk1, hp1, _, _, _, hmag⟩ := opNew_spec hdb P hk hq hsr pq hop
      obtain ⟨hd, hm, hk', hs'⟩ := ih rq1 rv1 q' v' hk1 hp1 h
      obtain ⟨w1, w2, M1, M2, hv, _, _, e1, e2, em⟩ := hmag hs
      simp only [applyNew] at hv
      injection hv with hv
      refine ⟨?_, ?_, hk', hs'⟩
      · intro qt
        rw [hd qt, hdim qt]
        simp only [sgn]
        push_cast
        ring
      · rw [hm]
        unfold baseMag at *
        rw [← hv, em]
        simp only [sgn, zpow_one]
        rw [pow_succ]
        calc w1 * w2 * (M1 * M2) * (v * mag db q.entries) ^ k
            = (w1 * M1) * (w2 * M2) * (v * mag db q.entries) ^ k := by ring
          _ = rv * mag db rq.entries * ((v * mag db q.entries) ^ k * (v * mag db q.entries)) := by
              rw [e1, e2]; ring

/-- when does the matching scale the right operand: it is not of the simple shape, or neither operand has a
unit with an offset -/
def Scales (db : Db) (q1 q2 : Quantity) : Prop :=
  isSimpleShape q2.entries = false ∨ (ScaleOnlyQ db q1 ∧ ScaleOnlyQ db q2)

/-- the magnitude clause of `opNew_spec` in the vocabulary of the property theorems -/
theorem opNew_mag {db : Db} (hdb : ∀ r ∈ db.units, r.WF) {op : NewOp} {q1 q2 q : Quantity} {v1 v2 v : Rat}
    (h1 : Known db q1) (h2 : Known db q2) (hs : Scales db q1 q2) (h : opNew db op q1 q2 v1 v2 = .ok (q, v)) :
    ∃ w1 w2 M1 M2, applyNew op w1 w2 = .ok v ∧ M1 ≠ 0 ∧ M2 ≠ 0
      ∧ w1 * M1 = v1 * mag db q1.entries ∧ w2 * M2 = v2 * mag db q2.entries
      ∧ mag db q.entries = M1 * M2 ^ (sgn op) := by
  rcases hs with hs | ⟨s1, s2⟩
  · exact (opNew_spec hdb (fun _ => True) h1 h2 (fun _ _ => trivial) (fun _ _ => trivial) h).2.2.2.2.2.2 (Or.inl hs)
  · exact (opNew_spec hdb (ScaleOnly db) h1 h2 s1 s2 h).2.2.2.2.2.2 (Or.inr (fun _ hu => hu))

/-! ### decidable forms of the hypotheses (for the non-vacuity examples) -/

def entryOKb (db : Db) (e : Entry) : Bool :=
  match db.unitBySym e.unit with
  | none => false
  | some r =>
    (match catQType db e.cat with
     | .ok qt => qt == r.qtype
     | .error _ => false)
    && (match db.typeOf r.qtype with
        | .ok qt => qt == r.qtype
        | .error _ => false)

theorem entryOK_of_b {db : Db} {e : Entry} (h : entryOKb db e = true) : EntryOK db e := by
  unfold entryOKb at h
  split at h
  · cases h
  · rename_i r hr
    simp only [Bool.and_eq_true] at h
    obtain ⟨h1, h2⟩ := h
    refine ⟨r, ⟨hr, ?_⟩, ?_⟩
    · split at h2
      · rename_i qt hq; rw [hq]; simp at h2; rw [h2]
      · cases h2
    · split at h1
      · rename_i qt hq; rw [hq]; simp at h1; rw [h1]
      · cases h1

def scaleOnlyB (db : Db) (u : Sym) : Bool :=
  match db.unitBySym u with
  | none => true
  | some r => r.toBase.p == 0

theorem scaleOnly_of_b {db : Db} {u : Sym} (h : scaleOnlyB db u = true) : ScaleOnly db u := by
  intro r hr
  unfold scaleOnlyB at h
  rw [hr] at h
  simpa using h

theorem known_of_b {db : Db} {q : Quantity} (h : q.entries.all (entryOKb db) = true) : Known db q :=
  fun e he => entryOK_of_b (List.all_eq_true.mp h e he)

theorem scaleOnlyQ_of_b {db : Db} {q : Quantity} (h : q.entries.all (fun e => scaleOnlyB db e.unit) = true) :
    ScaleOnlyQ db q :=
  fun e he => scaleOnly_of_b (List.all_eq_true.mp h e he)

/-! ### canonical quantities and operands that are already matched -/

/-- what `ObtainQuantity` returns for a dict of known units: the dict itself, flagged simple or derived -/
theorem obtainFromDict_known {db : Db} (es : List Entry) (cap : Sym) (h : ∀ e ∈ es, EntryOK db e) :
    obtainFromDict db es cap = .ok ⟨es, cap, !isSimpleShape es⟩ := by
  have hcc := checkCats_of_validate es (validateEntries_ok es h)
  have hder : derivedQuantity db es cap = .ok ⟨es, cap, true⟩ := by unfold derivedQuantity; rw [hcc]
  unfold obtainFromDict
  split
  · rename_i e
    split
    · rename_i hexp
      have hexp' : e.exp = 1 := by simpa using hexp
      obtain ⟨r, hr, hc⟩ := h e (by simp)
      obtain ⟨ci, hci, hq⟩ := catByName_of_catQType hc
      have hvalid : db.categoryUnitValid e.cat e.unit = true := by
        unfold Db.categoryUnitValid; simp only [hci, hq, checkQTU_of_row hr.row]
      unfold simpleQuantity; simp only [hci, hvalid, ↓reduceIte, isSimpleShape, hexp]
      cases e; simp_all
    · rename_i hexp
      rw [hder]; simp [isSimpleShape, hexp]
  · rename_i hne
    rw [hder]
    have : isSimpleShape es = false := by
      unfold isSimpleShape
      split
      · rename_i e; exact absurd rfl (hne e)
      · rfl
    simp [this]

/-- an operand as the operators produce it: known units, one unit per quantity type, flag as `ObtainQuantity`
sets it -/
structure Operand (db : Db) (q : Quantity) : Prop where
  known : Known db q
  unified : Unified db q.entries
  canon : q.derived = !isSimpleShape q.entries

theorem Operand.obtain {db : Db} {q : Quantity} (h : Operand db q) : obtainFromDict db q.entries q.caption = .ok q := by
  rw [obtainFromDict_known q.entries q.caption h.known]
  have := h.canon
  cases q
  simp only at this
  simp [this]

/-- the recorded unit of every quantity type agrees with the entries that are still to come -/
def Consistent (db : Db) (used : List (Sym × Sym)) (L : List Entry) : Prop :=
  ∀ e ∈ L, ∀ qt, catQType db e.cat = .ok qt → ∀ w, lookupU qt used = some w → w = e.unit

/-- **the matching pass is the identity on an operand that has one unit per quantity type** (as long as the
units recorded so far agree with it): no entry and not the value changes -/
theorem matchOne_id {db : Db} (inD : Bool) : ∀ (es : List Entry) (used : List (Sym × Sym)),
    (∀ e ∈ es, EntryOK db e) → Unified db es → Consistent db used es →
    ∃ used', (∀ v, matchOne db inD used es v = .ok (used', es, v))
      ∧ (∀ qt w, lookupU qt used = some w → lookupU qt used' = some w)
      ∧ (∀ qt w, lookupU qt used' = some w → lookupU qt used = some w ∨ ∃ e ∈ es, e.unit = w ∧ catQType db e.cat = .ok qt) := by
  intro es
  induction es with
  | nil => intro used _ _ _; exact ⟨used, fun _ => rfl, fun _ _ h => h, fun _ _ h => Or.inl h⟩
  | cons e es ih =>
    intro used hk hU hC
    obtain ⟨r, hr, hcat⟩ := hk e (List.mem_cons_self ..)
    have hk' : ∀ x ∈ es, EntryOK db x := fun x hx => hk x (List.mem_cons_of_mem _ hx)
    have hU' : Unified db es := fun a ha b hb => hU a (List.mem_cons_of_mem _ ha) b (List.mem_cons_of_mem _ hb)
    cases hl : lookupU r.qtype used with
    | none =>
      have hC1 : Consistent db ((r.qtype, e.unit) :: used) es := by
        intro x hx qt hq w hw
        by_cases hqq : r.qtype = qt
        · subst hqq
          rw [lookupU_cons_self] at hw; injection hw with hw; subst hw
          exact ((hU e (List.mem_cons_self ..) x (List.mem_cons_of_mem _ hx) r.qtype (hasType_iff.mpr hcat)).mp
            (hasType_iff.mpr hq)).symm
        · rw [lookupU_cons_ne _ hqq] at hw
          exact hC x (List.mem_cons_of_mem _ hx) qt hq w hw
      obtain ⟨used', hm, hmono, hback⟩ := ih ((r.qtype, e.unit) :: used) hk' hU' hC1
      refine ⟨used', fun v => by simp only [matchOne, hcat, hl, hm v], ?_, ?_⟩
      · intro qt w hw
        apply hmono
        have : r.qtype ≠ qt := by intro h; subst h; rw [hl] at hw; cases hw
        rw [lookupU_cons_ne _ this]; exact hw
      · intro qt w hw
        rcases hback qt w hw with h | ⟨x, hx, hxu, hxc⟩
        · by_cases hqq : r.qtype = qt
          · subst hqq
            rw [lookupU_cons_self] at h; injection h with h
            exact Or.inr ⟨e, List.mem_cons_self .., h, hcat⟩
          · rw [lookupU_cons_ne _ hqq] at h; exact Or.inl h
        · exact Or.inr ⟨x, List.mem_cons_of_mem _ hx, hxu, hxc⟩
    | some w =>
      have hw : w = e.unit := hC e (List.mem_cons_self ..) r.qtype hcat w hl
      subst hw
      have hconv : ∀ v, convertMatchingExp db r.qtype e.unit e.unit e.exp v inD = .ok v := by
        intro v
        unfold convertMatchingExp Db.convert
        simp
      have hC' : Consistent db used es := fun x hx => hC x (List.mem_cons_of_mem _ hx)
      obtain ⟨used', hm, hmono, hback⟩ := ih used hk' hU' hC'
      refine ⟨used', ?_, hmono, ?_⟩
      · intro v; simp only [matchOne, hcat, hl, hconv v, hm v]
      · intro qt w hw
        rcases hback qt w hw with h | ⟨x, hx, hxu, hxc⟩
        · exact Or.inl h
        · exact Or.inr ⟨x, List.mem_cons_of_mem _ hx, hxu, hxc⟩

/-- `Except.map` on the quantity of a result -/
def withValue (r : Except ErrKind Quantity) (x : Rat) : Except ErrKind (Quantity × Rat) :=
  match r with
  | .error e => .error e
  | .ok q => .ok (q, x)

/-- **the shape of `opSame` on a left operand with one unit per quantity type**: the left operand is not
touched by the matching, the right operand is re-expressed in the left operand's units ONCE, independently of
the operator and of the left value: whether the operation succeeds, the resulting quantity and the matched
right value `w2` are the same for `+` and `-` and for every left value -/
theorem opSame_shape {db : Db} (hdb : ∀ r ∈ db.units, r.WF) (P : Sym → Prop) {q1 q2 : Quantity} (v2 : Rat)
    (h1 : Operand db q1) (h2 : Known db q2) (p1 : ∀ e ∈ q1.entries, P e.unit) (p2 : ∀ e ∈ q2.entries, P e.unit) :
    ∃ used e2' w2, e2'.map catExp = q2.entries.map catExp
      ∧ (∀ e ∈ q1.entries ++ e2', Good db used e) ∧ (∀ e ∈ e2', P e.unit)
      ∧ ((isSimpleShape q2.entries = false ∨ (∀ u, P u → ScaleOnly db u)) →
          w2 * mag db e2' = v2 * mag db q2.entries)
      ∧ ∀ op x, opSame db op q1 q2 x v2 =
          if q1.eqv q2 then .ok (q1, applySame op x v2)
          else withValue (pickSame q1 ⟨e2', q2.caption, !isSimpleShape e2'⟩) (applySame op x w2) := by
  obtain ⟨used1, hm1, _, hback⟩ := matchOne_id (isDerivedDict q1.entries) q1.entries [] h1.known h1.unified
    (by intro e _ qt _ w hw; simp [lookupU] at hw)
  have hu1 : UsedOK db used1 := by
    intro qt w hw
    rcases hback qt w hw with h | ⟨e, he, heu, hec⟩
    · simp [lookupU] at h
    · obtain ⟨r, hr, hc⟩ := h1.known e he
      rw [hc] at hec; injection hec with hec
      exact ⟨r, heu ▸ hr, hec⟩
  have hpu1 : ∀ qt w, lookupU qt used1 = some w → P w := by
    intro qt w hw
    rcases hback qt w hw with h | ⟨e, he, heu, _⟩
    · simp [lookupU] at h
    · rw [← heu]; exact p1 e he
  have hg1 : ∀ e ∈ q1.entries, Good db used1 e := by
    intro e he
    obtain ⟨used', es', v', hm', _, _, _, hgood, _⟩ :=
      matchOne_spec hdb (fun _ => True) (isDerivedDict q1.entries) q1.entries [] 0 h1.known
        (by intro qt w h; simp [lookupU] at h) (fun _ _ => trivial) (fun _ _ _ => trivial)
    rw [hm1 0] at hm'
    injection hm' with hm'
    simp only [Prod.mk.injEq] at hm'
    obtain ⟨rfl, rfl, _⟩ := hm'
    exact hgood e he
  obtain ⟨used2, e2', w2, hm2, _, hmono2, hce2, hg2, hp2, _, hmag2⟩ :=
    matchOne_spec hdb P (isDerivedDict q2.entries) q2.entries used1 v2 h2 hu1 p2 hpu1
  refine ⟨used2, e2', w2, hce2, ?_, hp2, fun hs => hmag2 (hs.imp scaled_of_not_simple id), ?_⟩
  · intro e he
    rcases List.mem_append.mp he with h | h
    · exact (hg1 e h).mono hmono2
    · exact hg2 e h
  · intro op x
    unfold opSame
    split
    · rfl
    · have hk2 : ∀ e ∈ e2', EntryOK db e := fun e he => (hg2 e he).entryOK
      simp only [matchQuantities, hm1 x, hm2, h1.obtain, obtainFromDict_known e2' q2.caption hk2]
      cases pickSame q1 ⟨e2', q2.caption, !isSimpleShape e2'⟩ with
      | error e => rfl
      | ok q => rfl


/-! ### equal dimensions ⇒ equal joined exponents ⇒ equal magnitudes -/

theorem unitTotal_zero_of_notin (u : Sym) (L : List Entry) (h : ∀ e ∈ L, e.unit ≠ u) : unitTotal u L = 0 := by
  induction L with
  | nil => rfl
  | cons e L ih =>
    simp only [unitTotal]
    have : (e.unit == u) = false := by simpa using h e (List.mem_cons_self ..)
    rw [this, ih (fun x hx => h x (List.mem_cons_of_mem _ hx))]
    simp

theorem unitTotal_eq_of_dims {db : Db} {used : List (Sym × Sym)} {L1 L2 : List Entry}
    (hg : ∀ e ∈ L1 ++ L2, Good db used e) (hd : ∀ qt, dim db qt L1 = dim db qt L2) (u : Sym) :
    unitTotal u L1 = unitTotal u L2 := by
  by_cases hex : ∃ e ∈ L1 ++ L2, e.unit = u
  · obtain ⟨e, he, heu⟩ := hex
    obtain ⟨r, _, hc, _⟩ := hg e he
    have ht : hasType db r.qtype e = true := hasType_iff.mpr hc
    have hU := unified_of_good hg
    have hiff : ∀ x ∈ L1 ++ L2, hasType db r.qtype x = (x.unit == u) := by
      intro x hx
      have := hU e he x hx r.qtype ht
      rw [heu] at this
      by_cases hh : hasType db r.qtype x = true
      · rw [hh]; have := this.mp hh; simp [this]
      · have hne : x.unit ≠ u := fun h => hh (this.mpr h)
        have : (x.unit == u) = false := by simpa using hne
        rw [this]; simpa using hh
    rw [← dim_eq_unitTotal L1 (fun x hx => hiff x (List.mem_append_left _ hx)),
      ← dim_eq_unitTotal L2 (fun x hx => hiff x (List.mem_append_right _ hx))]
    exact hd r.qtype
  · have h1 : ∀ e ∈ L1, e.unit ≠ u := fun e he h => hex ⟨e, List.mem_append_left _ he, h⟩
    have h2 : ∀ e ∈ L2, e.unit ≠ u := fun e he h => hex ⟨e, List.mem_append_right _ he, h⟩
    rw [unitTotal_zero_of_notin u L1 h1, unitTotal_zero_of_notin u L2 h2]

/-- two lists with the same accumulated exponents have the same magnitude (no inclusion needed) -/
theorem mag_congr_totals' {db : Db} (L L' : List Entry) (hs : ∀ e ∈ L ++ L', slope db e.unit ≠ 0)
    (ht : ∀ u, unitTotal u L' = unitTotal u L) : mag db L' = mag db L := by
  obtain ⟨U, hn, hc, hb⟩ := exists_nodup_units (L ++ L')
  have hsU : ∀ u ∈ U, slope db u ≠ 0 := by
    intro u hu; obtain ⟨x, hx, hxu⟩ := hb u hu; rw [← hxu]; exact hs x hx
  rw [mag_eq_magBy L U hn (fun e he => hc e (List.mem_append_left _ he)) hsU,
    mag_eq_magBy L' U hn (fun e he => hc e (List.mem_append_right _ he)) hsU]
  exact magBy_congr U (fun u _ => ht u)

theorem joinedFrom_ne_nil (acc : List (Sym × Int)) (L : List Entry) (h : acc ≠ [] ∨ L ≠ []) : joinedFrom acc L ≠ [] := by
  induction L generalizing acc with
  | nil =>
    rcases h with h | h
    · exact h
    · exact absurd rfl h
  | cons e L ih =>
    simp only [joinedFrom]
    apply ih
    left
    cases acc with
    | nil => simp [addJoined]
    | cons p acc => obtain ⟨w, t⟩ := p; simp only [addJoined]; split <;> simp

theorem joined_isEmpty_iff (L : List Entry) : (joined L).isEmpty = true ↔ L = [] := by
  constructor
  · intro h
    by_contra hne
    have := joinedFrom_ne_nil [] L (Or.inr hne)
    unfold joined at h
    simp at h
    exact this h
  · intro h; subst h; rfl


theorem unified_of_single (db : Db) (e : Entry) : Unified db [e] := by
  intro a ha b hb qt h
  simp only [List.mem_singleton] at ha hb; subst ha; subst hb
  exact ⟨fun _ => rfl, fun _ => h⟩

/-! ### the fold `joined` lists every unit once, with its accumulated exponent -/

def lookupJ (u : Sym) : List (Sym × Int) → Option Int
  | [] => none
  | (w, t) :: rest => if w == u then some t else lookupJ u rest

theorem lookupJ_addJoined (u w : Sym) (x : Int) (acc : List (Sym × Int)) :
    lookupJ u (addJoined w x acc) = if w = u then some ((lookupJ u acc).getD 0 + x) else lookupJ u acc := by
  induction acc with
  | nil =>
    by_cases h : w = u
    · subst h; simp [addJoined, lookupJ]
    · have : (w == u) = false := by simpa using h
      simp [addJoined, lookupJ, h, this]
  | cons p acc ih =>
    obtain ⟨k, t⟩ := p
    simp only [addJoined]
    by_cases hk : k = w
    · subst hk
      simp only [beq_self_eq_true, ↓reduceIte, lookupJ]
      by_cases h : k = u
      · subst h; simp
      · have : (k == u) = false := by simpa using h
        simp [this, h]
    · have hkw : (k == w) = false := by simpa using hk
      simp only [hkw, Bool.false_eq_true, ↓reduceIte, lookupJ, ih]
      by_cases h : k = u
      · subst h
        have : ¬ w = k := fun e => hk e.symm
        simp [this]
      · have : (k == u) = false := by simpa using h
        simp [this]

theorem lookupJ_joinedFrom (u : Sym) : ∀ (L : List Entry) (acc : List (Sym × Int)),
    lookupJ u (joinedFrom acc L) =
      if (∃ e ∈ L, e.unit = u) ∨ (lookupJ u acc).isSome then some ((lookupJ u acc).getD 0 + unitTotal u L)
      else none := by
  intro L
  induction L with
  | nil =>
    intro acc
    simp only [joinedFrom, unitTotal, List.not_mem_nil, false_and, exists_false, false_or, add_zero]
    cases h : lookupJ u acc <;> simp
  | cons e L ih =>
    intro acc
    simp only [joinedFrom, ih, lookupJ_addJoined, unitTotal]
    by_cases he : e.unit = u
    · subst he
      simp only [↓reduceIte, Option.isSome_some, or_true, Option.getD_some, List.mem_cons, exists_eq_or_imp, true_or,
        beq_self_eq_true]
      congr 1; ring
    · have hb : (e.unit == u) = false := by simpa using he
      simp only [he, ↓reduceIte, List.mem_cons, exists_eq_or_imp, false_or, hb, Bool.false_eq_true, zero_add]

/-- keys of an accumulator are pairwise different -/
def KeysNodup (acc : List (Sym × Int)) : Prop := (acc.map Prod.fst).Nodup

theorem keys_addJoined (w : Sym) (x : Int) (acc : List (Sym × Int)) (k : Sym) :
    k ∈ (addJoined w x acc).map Prod.fst ↔ k ∈ acc.map Prod.fst ∨ k = w := by
  induction acc with
  | nil => simp [addJoined]
  | cons p acc ih =>
    obtain ⟨a, t⟩ := p
    simp only [addJoined]
    by_cases ha : a = w
    · subst ha
      simp only [beq_self_eq_true, ↓reduceIte, List.map_cons, List.mem_cons]
      tauto
    · have : (a == w) = false := by simpa using ha
      simp only [this, Bool.false_eq_true, ↓reduceIte, List.map_cons, List.mem_cons, ih]
      tauto

theorem keysNodup_addJoined (w : Sym) (x : Int) (acc : List (Sym × Int)) (h : KeysNodup acc) :
    KeysNodup (addJoined w x acc) := by
  unfold KeysNodup at *
  induction acc with
  | nil => simp [addJoined]
  | cons p acc ih =>
    obtain ⟨a, t⟩ := p
    simp only [addJoined]
    have hn := List.nodup_cons.mp h
    by_cases ha : a = w
    · subst ha; simpa using h
    · have hb : (a == w) = false := by simpa using ha
      simp only [hb, Bool.false_eq_true, ↓reduceIte, List.map_cons]
      apply List.nodup_cons.mpr
      refine ⟨?_, ih hn.2⟩
      intro hmem
      rcases (keys_addJoined w x acc a).mp hmem with h1 | h1
      · exact hn.1 h1
      · exact ha h1

theorem keysNodup_joinedFrom : ∀ (L : List Entry) (acc : List (Sym × Int)), KeysNodup acc → KeysNodup (joinedFrom acc L) := by
  intro L
  induction L with
  | nil => intro acc h; exact h
  | cons e L ih => intro acc h; exact ih _ (keysNodup_addJoined _ _ _ h)

theorem mem_iff_lookupJ {acc : List (Sym × Int)} (h : KeysNodup acc) (u : Sym) (t : Int) :
    (u, t) ∈ acc ↔ lookupJ u acc = some t := by
  unfold KeysNodup at h
  induction acc with
  | nil => simp [lookupJ]
  | cons p acc ih =>
    obtain ⟨a, s⟩ := p
    have hn := List.nodup_cons.mp h
    simp only [List.mem_cons, Prod.mk.injEq, lookupJ]
    by_cases ha : a = u
    · subst ha
      simp only [beq_self_eq_true, ↓reduceIte, Option.some.injEq, true_and]
      constructor
      · rintro (h1 | h1)
        · exact h1.symm
        · exact absurd (List.mem_map.mpr ⟨(a, t), h1, rfl⟩) hn.1
      · intro h1; left; exact h1.symm
    · have hb : (a == u) = false := by simpa using ha
      simp only [hb, Bool.false_eq_true, ↓reduceIte, ← ih hn.2]
      constructor
      · rintro (h1 | h1)
        · exact absurd h1.1.symm ha
        · exact h1
      · intro h1; right; exact h1

/-- **`GetComposingUnitsJoiningExponents`**: the pairs (unit, accumulated exponent) of the units that occur -/
theorem mem_joined (L : List Entry) (u : Sym) (t : Int) :
    (u, t) ∈ joined L ↔ (∃ e ∈ L, e.unit = u) ∧ t = unitTotal u L := by
  have hn : KeysNodup (joined L) := keysNodup_joinedFrom L [] (by simp [KeysNodup])
  rw [mem_iff_lookupJ hn, joined, lookupJ_joinedFrom]
  simp only [lookupJ, Option.isSome_none, Bool.false_eq_true, or_false, Option.getD_none, zero_add]
  constructor
  · intro h
    split at h
    · rename_i hex; injection h with h; exact ⟨hex, h.symm⟩
    · cases h
  · rintro ⟨hex, ht⟩
    simp [hex, ht]


theorem sameSet_of_totals (L1 L2 : List Entry) (hu : ∀ u, (∃ e ∈ L1, e.unit = u) ↔ (∃ e ∈ L2, e.unit = u))
    (ht : ∀ u, unitTotal u L1 = unitTotal u L2) : sameSet (joined L1) (joined L2) = true := by
  unfold sameSet
  simp only [Bool.and_eq_true, List.all_eq_true, List.contains_iff_mem]
  constructor
  · rintro ⟨u, t⟩ hp
    have := (mem_joined L1 u t).mp hp
    exact (mem_joined L2 u t).mpr ⟨(hu u).mp this.1, by rw [this.2, ht u]⟩
  · rintro ⟨u, t⟩ hp
    have := (mem_joined L2 u t).mp hp
    exact (mem_joined L1 u t).mpr ⟨(hu u).mpr this.1, by rw [this.2, ht u]⟩

/-- every quantity type that occurs in the quantity has a non-zero exponent (what `C04.no_zero_dimension`
proves of every product/quotient/power; trivially true of a simple quantity) -/
def NonZeroDims (db : Db) (q : Quantity) : Prop :=
  ∀ e ∈ q.entries, ∀ qt, hasType db qt e = true → dim db qt q.entries ≠ 0

theorem exists_hasType_of_dim_ne {db : Db} {qt : Sym} (L : List Entry) (h : dim db qt L ≠ 0) :
    ∃ e ∈ L, hasType db qt e = true := by
  by_contra hn
  apply h
  apply dim_zero_of_none
  intro e he
  by_cases hh : hasType db qt e = true
  · exact absurd ⟨e, he, hh⟩ hn
  · simpa using hh

/-- **equal dimensions ⇒ the comparison of the joined composing units succeeds** -/
theorem sameSet_of_dims {db : Db} {used : List (Sym × Sym)} {L1 L2 L2o : List Entry}
    (hg : ∀ e ∈ L1 ++ L2, Good db used e) (hce : L2.map catExp = L2o.map catExp)
    (hd : ∀ qt, dim db qt L1 = dim db qt L2o)
    (n1 : ∀ e ∈ L1, ∀ qt, hasType db qt e = true → dim db qt L1 ≠ 0)
    (n2 : ∀ e ∈ L2o, ∀ qt, hasType db qt e = true → dim db qt L2o ≠ 0) :
    sameSet (joined L1) (joined L2) = true := by
  have hd' : ∀ qt, dim db qt L1 = dim db qt L2 := fun qt => by rw [hd qt, dim_of_catExp _ _ hce]
  have hU := unified_of_good hg
  apply sameSet_of_totals L1 L2 _ (unitTotal_eq_of_dims hg hd')
  intro u
  constructor
  · rintro ⟨e, he, heu⟩
    obtain ⟨r, _, hc, _⟩ := hg e (List.mem_append_left _ he)
    have ht : hasType db r.qtype e = true := hasType_iff.mpr hc
    have hne : dim db r.qtype L2 ≠ 0 := by rw [← hd']; exact n1 e he _ ht
    obtain ⟨e', he', ht'⟩ := exists_hasType_of_dim_ne L2 hne
    refine ⟨e', he', ?_⟩
    rw [← heu]
    exact (hU e (List.mem_append_left _ he) e' (List.mem_append_right _ he') _ ht).mp ht'
  · rintro ⟨e', he', heu⟩
    obtain ⟨r, _, hc, _⟩ := hg e' (List.mem_append_right _ he')
    have ht' : hasType db r.qtype e' = true := hasType_iff.mpr hc
    have hmem : catExp e' ∈ L2o.map catExp := by rw [← hce]; exact List.mem_map.mpr ⟨e', he', rfl⟩
    obtain ⟨e0, he0, hce0⟩ := List.mem_map.mp hmem
    have hcat : e0.cat = e'.cat := by simp only [catExp, Prod.mk.injEq] at hce0; exact hce0.1
    have ht0 : hasType db r.qtype e0 = true := by rw [hasType_cat (db := db) (qt := r.qtype) hcat]; exact ht'
    have hne : dim db r.qtype L1 ≠ 0 := by rw [hd]; exact n2 e0 he0 _ ht0
    obtain ⟨e, he, ht⟩ := exists_hasType_of_dim_ne L1 hne
    refine ⟨e, he, ?_⟩
    rw [← heu]
    exact ((hU e' (List.mem_append_right _ he') e (List.mem_append_left _ he) _ ht').mp ht)


/-- converse of `unitTotal_eq_of_dims`: on matched lists equal joined exponents mean equal dimensions -/
theorem dim_eq_of_totals {db : Db} {used : List (Sym × Sym)} {L1 L2 : List Entry}
    (hg : ∀ e ∈ L1 ++ L2, Good db used e) (ht : ∀ u, unitTotal u L1 = unitTotal u L2) (qt : Sym) :
    dim db qt L1 = dim db qt L2 := by
  by_cases hex : ∃ e ∈ L1 ++ L2, hasType db qt e = true
  · obtain ⟨e, he, hte⟩ := hex
    have hU := unified_of_good hg
    have hiff : ∀ x ∈ L1 ++ L2, hasType db qt x = (x.unit == e.unit) := by
      intro x hx
      have := hU e he x hx qt hte
      by_cases hh : hasType db qt x = true
      · rw [hh]; have := this.mp hh; simp [this]
      · have hne : x.unit ≠ e.unit := fun h => hh (this.mpr h)
        have : (x.unit == e.unit) = false := by simpa using hne
        rw [this]; simpa using hh
    rw [dim_eq_unitTotal L1 (fun x hx => hiff x (List.mem_append_left _ hx)),
      dim_eq_unitTotal L2 (fun x hx => hiff x (List.mem_append_right _ hx))]
    exact ht e.unit
  · have hn : ∀ e ∈ L1 ++ L2, hasType db qt e = false := by
      intro e he
      by_cases hh : hasType db qt e = true
      · exact absurd ⟨e, he, hh⟩ hex
      · simpa using hh
    rw [dim_zero_of_none L1 (fun e he => hn e (List.mem_append_left _ he)),
      dim_zero_of_none L2 (fun e he => hn e (List.mem_append_right _ he))]


/-- `opSame_shape` when the matching scales the right operand (`Scales`): the matched right value carries the
right operand's base magnitude -/
theorem opSame_scaled {db : Db} (hdb : ∀ r ∈ db.units, r.WF) {q1 q2 : Quantity} (v2 : Rat)
    (h1 : Operand db q1) (h2 : Known db q2) (hs : Scales db q1 q2) :
    ∃ used e2' w2, e2'.map catExp = q2.entries.map catExp
      ∧ (∀ e ∈ q1.entries ++ e2', Good db used e)
      ∧ w2 * mag db e2' = v2 * mag db q2.entries
      ∧ ∀ op x, opSame db op q1 q2 x v2 =
          if q1.eqv q2 then .ok (q1, applySame op x v2)
          else withValue (pickSame q1 ⟨e2', q2.caption, !isSimpleShape e2'⟩) (applySame op x w2) := by
  rcases hs with hs | ⟨s1, s2⟩
  · obtain ⟨used, e2', w2, a, b, _, c, d⟩ :=
      opSame_shape hdb (fun _ => True) v2 h1 h2 (fun _ _ => trivial) (fun _ _ => trivial)
    exact ⟨used, e2', w2, a, b, c (Or.inl hs), d⟩
  · obtain ⟨used, e2', w2, a, b, _, c, d⟩ := opSame_shape hdb (ScaleOnly db) v2 h1 h2 s1 s2
    exact ⟨used, e2', w2, a, b, c (Or.inr (fun _ hu => hu)), d⟩

end Barril.Alg
