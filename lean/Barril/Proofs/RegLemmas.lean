/- Helper lemmas for C14 (model `Barril/Model/Reg.lean`): dictionary primitives and the registry invariant. -/
import Barril.Model.Reg

namespace Barril.Reg
open Barril

instance {ε α : Type} [DecidableEq ε] [DecidableEq α] : DecidableEq (Except ε α)
  | .ok a, .ok b => if h : a = b then isTrue (by rw [h]) else isFalse (fun e => h (by cases e; rfl))
  | .error a, .error b => if h : a = b then isTrue (by rw [h]) else isFalse (fun e => h (by cases e; rfl))
  | .ok _, .error _ => isFalse (fun e => by cases e)
  | .error _, .ok _ => isFalse (fun e => by cases e)

/-! ### dictionary primitives -/

theorem tlGet_setDefault (ts : List (Sym × List UnitRow)) (q k : Sym) :
    tlGet (tlSetDefault ts q) k = if k = q then some ((tlGet ts q).getD []) else tlGet ts k := by
  unfold tlSetDefault
  cases h : tlGet ts q with
  | some l =>
    simp only [Option.getD_some]
    split
    · rename_i hk; subst hk; exact h
    · rfl
  | none =>
    simp only [Option.getD_none]
    induction ts with
    | nil =>
      simp only [List.nil_append, tlGet]
      split
      · rename_i hk; simp [hk]
      · rename_i hk; have : ¬ k = q := fun e => hk e.symm
        simp [this]
    | cons t ts ih =>
      obtain ⟨k0, l0⟩ := t
      simp only [tlGet] at h ⊢
      simp only [List.cons_append, tlGet]
      by_cases h0 : k0 = q
      · simp [h0] at h
      · simp only [h0, ↓reduceIte] at h
        by_cases hk : k0 = k
        · have : k ≠ q := fun e => h0 (hk.trans e)
          simp [hk, this]
        · simp only [hk, ↓reduceIte]
          exact ih h

theorem tlGet_modify (f : List UnitRow → List UnitRow) (ts : List (Sym × List UnitRow)) (q k : Sym) :
    tlGet (tlModify f ts q) k = if k = q then (tlGet ts q).map f else tlGet ts k := by
  induction ts with
  | nil => simp [tlModify, tlGet]
  | cons t ts ih =>
    obtain ⟨k0, l0⟩ := t
    simp only [tlModify]
    by_cases h0 : k0 = q
    · simp only [h0, ↓reduceIte, tlGet]
      by_cases hk : q = k
      · simp [hk]
      · have : ¬ k = q := fun e => hk e.symm
        simp [hk, this]
    · simp only [h0, ↓reduceIte, tlGet]
      by_cases hk : k0 = k
      · have : k ≠ q := fun e => h0 (hk.trans e)
        simp [hk, this]
      · simp only [hk, ↓reduceIte]; exact ih

theorem ixGet_append (ix : List (Sym × UnitRow)) (u : Sym) (w : UnitRow) (v : Sym) :
    ixGet (ix ++ [(u, w)]) v = match ixGet ix v with
      | some x => some x
      | none => if u = v then some w else none := by
  induction ix with
  | nil => simp [ixGet]
  | cons e ix ih =>
    obtain ⟨k, x⟩ := e
    simp only [List.cons_append, ixGet]
    by_cases hk : k = v
    · simp [hk]
    · simp only [hk, ↓reduceIte]; exact ih

theorem catGet_set (cs : List CatRow) (info : CatRow) (c : Sym) :
    catGet (catSet cs info) c = if info.name = c then some info else catGet cs c := by
  induction cs with
  | nil => simp [catSet, catGet]
  | cons ci cs ih =>
    simp only [catSet]
    by_cases h0 : ci.name = info.name
    · simp only [h0, ↓reduceIte, catGet]
      by_cases hk : info.name = c
      · simp [hk]
      · simp [hk]
    · simp only [h0, ↓reduceIte, catGet]
      by_cases hk : ci.name = c
      · have : info.name ≠ c := fun e => h0 (hk.trans e.symm)
        simp [hk, this]
      · simp only [hk, ↓reduceIte]; exact ih

theorem catGet_name {cs : List CatRow} {c : Sym} {ci : CatRow} (h : catGet cs c = some ci) : ci.name = c := by
  induction cs with
  | nil => simp [catGet] at h
  | cons c0 cs ih =>
    simp only [catGet] at h
    split at h
    · rename_i hk; cases h; exact hk
    · exact ih h

theorem moveLastToFront_append (l : List UnitRow) (w : UnitRow) : moveLastToFront (l ++ [w]) = w :: l := by
  unfold moveLastToFront
  simp

/-! ### the registry invariant -/

/-- a category that is well-formed against a registry -/
structure CatOk (r : Registry) (ci : CatRow) : Prop where
  /-- it refers to an existing quantity type … -/
  typeExists : ∃ l, tlGet r.types ci.qtype = some l
    /- … its default unit is drawn from that type … -/
    ∧ ci.defaultUnit ∈ l.map (·.sym)
    /- … and so are its valid units -/
    ∧ ∀ vu, ci.validUnits = some vu → ∀ u ∈ vu, u ∈ l.map (·.sym)
  /-- the default value lies inside the limits -/
  defaultInLimits : minOk ci.minV ci.minExcl ci.defaultValue = true ∧ maxOk ci.maxV ci.maxExcl ci.defaultValue = true

/-- a list of rows of one quantity type whose base rows (registered by `AddUnitBase`) come first -/
def BaseFirst (l : List UnitRow) : Prop := l.any isBaseRow = true → ∃ b t, l = b :: t ∧ isBaseRow b = true

/-- the first-listed row of the list is an identity -/
def HeadIdent (l : List UnitRow) : Prop := ∃ b t, l = b :: t ∧ isIdent b = true

/-- the registry invariant, in the form that survives the known finding (AddUnit into a quantity
type that has no base unit): the identity-base clause is "the rows registered as base units are
identities and precede every other row of their type" -/
structure RegInv (r : Registry) : Prop where
  rowsTyped : ∀ qt l, tlGet r.types qt = some l → ∀ w ∈ l, w.qtype = qt
  nonEmpty : ∀ qt l, tlGet r.types qt = some l → l ≠ []
  symsNodup : ∀ qt l, tlGet r.types qt = some l → (l.map (·.sym)).Nodup
  /-- the symbol index holds exactly the listed rows, under their own symbol -/
  indexSync : ∀ u w, ixGet r.index u = some w ↔ (w.sym = u ∧ ∃ l, tlGet r.types w.qtype = some l ∧ w ∈ l)
  baseIdent : ∀ qt l, tlGet r.types qt = some l → ∀ w ∈ l, isBaseRow w = true → isIdent w = true
  baseFirst : ∀ qt l, tlGet r.types qt = some l → BaseFirst l
  catsOk : ∀ c ci, catGet r.cats c = some ci → CatOk r ci

theorem regInv_empty : RegInv Registry.empty where
  rowsTyped := by intro qt l h; simp [Registry.empty, tlGet] at h
  nonEmpty := by intro qt l h; simp [Registry.empty, tlGet] at h
  symsNodup := by intro qt l h; simp [Registry.empty, tlGet] at h
  indexSync := by
    intro u w
    simp [Registry.empty, tlGet, ixGet]
  baseIdent := by intro qt l h; simp [Registry.empty, tlGet] at h
  baseFirst := by intro qt l h; simp [Registry.empty, tlGet] at h
  catsOk := by intro c ci h; simp [Registry.empty, catGet] at h

/-- **every unit symbol belongs to exactly one quantity type** -/
theorem RegInv.sym_one_type {r : Registry} (h : RegInv r) {q1 q2 : Sym} {l1 l2 : List UnitRow}
    (h1 : tlGet r.types q1 = some l1) (h2 : tlGet r.types q2 = some l2) {w1 w2 : UnitRow}
    (m1 : w1 ∈ l1) (m2 : w2 ∈ l2) (hs : w1.sym = w2.sym) : q1 = q2 ∧ w1 = w2 := by
  have t1 := h.rowsTyped _ _ h1 _ m1
  have t2 := h.rowsTyped _ _ h2 _ m2
  have i1 : ixGet r.index w1.sym = some w1 := (h.indexSync _ _).mpr ⟨rfl, l1, by rw [t1]; exact h1, m1⟩
  have i2 : ixGet r.index w1.sym = some w2 := (h.indexSync _ _).mpr ⟨hs.symm, l2, by rw [t2]; exact h2, m2⟩
  rw [i1] at i2
  cases i2
  exact ⟨t1.symm.trans t2, rfl⟩

/-- the generic step: one row `info` (symbol `u`, not in the index) is put into the list of `q`,
which becomes `newList` -/
theorem regInv_insert {r : Registry} (h : RegInv r) {q u : Sym} {info : UnitRow}
    (hq : info.qtype = q) (hu : info.sym = u) (hfree : ixGet r.index u = none)
    (hbase : isBaseRow info = true → isIdent info = true)
    {ts' : List (Sym × List UnitRow)} {newList : List UnitRow}
    (hget : ∀ k, tlGet ts' k = if k = q then some newList else tlGet r.types k)
    (hmem : ∀ w, w ∈ newList ↔ w ∈ (tlGet r.types q).getD [] ∨ w = info)
    (hnd : (newList.map (·.sym)).Nodup)
    (hbf : BaseFirst newList) :
    RegInv ⟨ts', r.index ++ [(u, info)], r.cats⟩ := by
  have hold : ∀ w, w ∈ (tlGet r.types q).getD [] → ∃ l, tlGet r.types q = some l ∧ w ∈ l := by
    intro w hw
    cases hg : tlGet r.types q with
    | none => rw [hg] at hw; simp at hw
    | some l => rw [hg] at hw; exact ⟨l, rfl, by simpa using hw⟩
  refine ⟨?_, ?_, ?_, ?_, ?_, ?_, ?_⟩
  · intro qt l hl w hw
    rw [hget] at hl
    split at hl
    · rename_i hk; subst hk
      cases hl
      rcases (hmem w).mp hw with ho | ho
      · obtain ⟨l0, hl0, hw0⟩ := hold w ho
        exact h.rowsTyped _ _ hl0 _ hw0
      · rw [ho]; exact hq
    · exact h.rowsTyped _ _ hl _ hw
  · intro qt l hl
    rw [hget] at hl
    split at hl
    · cases hl
      intro he
      have : info ∈ newList := (hmem info).mpr (Or.inr rfl)
      rw [he] at this; cases this
    · exact h.nonEmpty _ _ hl
  · intro qt l hl
    rw [hget] at hl
    split at hl
    · cases hl; exact hnd
    · exact h.symsNodup _ _ hl
  · intro v w
    show ixGet (r.index ++ [(u, info)]) v = some w ↔ _
    rw [ixGet_append]
    constructor
    · intro hi
      cases ho : ixGet r.index v with
      | some x =>
        rw [ho] at hi
        simp only [Option.some.injEq] at hi
        subst hi
        obtain ⟨hs, l, hl, hw⟩ := (h.indexSync v x).mp ho
        refine ⟨hs, ?_⟩
        show ∃ l, tlGet ts' x.qtype = some l ∧ x ∈ l
        rw [hget]
        split
        · rename_i hk
          refine ⟨newList, rfl, (hmem x).mpr (Or.inl ?_)⟩
          rw [← hk, hl]; simpa using hw
        · exact ⟨l, hl, hw⟩
      | none =>
        rw [ho] at hi
        simp only at hi
        split at hi
        · rename_i huv
          cases hi
          refine ⟨hu.trans huv, ?_⟩
          show ∃ l, tlGet ts' info.qtype = some l ∧ info ∈ l
          rw [hget, if_pos hq]
          exact ⟨newList, rfl, (hmem info).mpr (Or.inr rfl)⟩
        · cases hi
    · rintro ⟨hs, l, hl, hw⟩
      have hl' : tlGet ts' w.qtype = some l := hl
      rw [hget] at hl'
      split at hl'
      · rename_i hk
        cases hl'
        rcases (hmem w).mp hw with ho | ho
        · obtain ⟨l0, hl0, hw0⟩ := hold w ho
          have : ixGet r.index v = some w := (h.indexSync v w).mpr ⟨hs, l0, by rw [hk]; exact hl0, hw0⟩
          rw [this]
        · subst ho
          have hv : u = v := hu.symm.trans hs
          subst hv
          rw [hfree]; simp
      · have : ixGet r.index v = some w := (h.indexSync v w).mpr ⟨hs, l, hl', hw⟩
        rw [this]
  · intro qt l hl w hw hb
    rw [hget] at hl
    split at hl
    · cases hl
      rcases (hmem w).mp hw with ho | ho
      · obtain ⟨l0, hl0, hw0⟩ := hold w ho
        exact h.baseIdent _ _ hl0 _ hw0 hb
      · rw [ho] at hb ⊢; exact hbase hb
    · exact h.baseIdent _ _ hl _ hw hb
  · intro qt l hl
    rw [hget] at hl
    split at hl
    · cases hl; exact hbf
    · exact h.baseFirst _ _ hl
  · intro c ci hc
    obtain ⟨⟨l, hl, hdu, hvu⟩, hlim⟩ := h.catsOk c ci hc
    refine ⟨?_, hlim⟩
    show ∃ l, tlGet ts' ci.qtype = some l ∧ _
    rw [hget]
    split
    · rename_i hk
      have hsub : ∀ s, s ∈ l.map (·.sym) → s ∈ newList.map (·.sym) := by
        intro s hs
        obtain ⟨w, hw, rfl⟩ := List.mem_map.mp hs
        exact List.mem_map.mpr ⟨w, (hmem w).mpr (Or.inl (by rw [← hk, hl]; simpa using hw)), rfl⟩
      exact ⟨newList, rfl, hsub _ hdu, fun vu hv s hs => hsub _ (hvu vu hv s hs)⟩
    · exact ⟨l, hl, hdu, hvu⟩

/-! ### AddUnit / AddUnitBase -/

theorem mkInfo_ok {fb tb : Formula} {dc name q u : Sym} {info : UnitRow} (h : mkInfo fb tb dc name q u = .ok info) :
    info.qtype = q ∧ info.sym = u ∧ isBaseRow info = false := by
  unfold mkInfo at h
  split at h
  · cases h
  · split at h
    · cases h
    · cases h; exact ⟨rfl, rfl, rfl⟩

theorem baseInfo_ok {name q u : Sym} {info : UnitRow} (h : baseInfo name q u = .ok info) :
    info.qtype = q ∧ info.sym = u ∧ isBaseRow info = true ∧ isIdent info = true := by
  unfold baseInfo at h
  cases h
  exact ⟨rfl, rfl, rfl, by simp [isIdent]⟩

/-- in a well-formed registry a symbol that is not in the index is in no list: the second
duplicate check of `AddUnit` (the one placed after the index write) cannot fire -/
theorem second_check_false {r : Registry} (h : RegInv r) {q u : Sym} (hfree : ixGet r.index u = none) :
    ((tlGet (tlSetDefault r.types q) q).getD []).any (·.sym == u) = false := by
  rw [tlGet_setDefault]
  simp only [↓reduceIte, Option.getD_some]
  cases hg : tlGet r.types q with
  | none => simp
  | some l =>
    simp only [Option.getD_some]
    rw [List.any_eq_false]
    intro w hw hs
    simp only [beq_iff_eq] at hs
    have hq := h.rowsTyped _ _ hg _ hw
    have : ixGet r.index u = some w := (h.indexSync u w).mpr ⟨hs, l, by rw [hq]; exact hg, hw⟩
    rw [hfree] at this; cases this

theorem addInfo_spec {r : Registry} (h : RegInv r) (qt unit : SArg) (mk : Sym → Sym → Except ErrKind UnitRow) :
    (∃ e, addInfo r qt unit mk = (r, .error e)) ∨
    (∃ q u info, qt = .str q ∧ unit = .str u ∧ mk q u = .ok info ∧ ixGet r.index u = none ∧
      addInfo r qt unit mk =
        (⟨tlModify (· ++ [info]) (tlSetDefault r.types q) q, r.index ++ [(u, info)], r.cats⟩, .ok ())) := by
  unfold addInfo
  cases qt with
  | none => exact Or.inl ⟨_, rfl⟩
  | bad => exact Or.inl ⟨_, rfl⟩
  | str q =>
    cases unit with
    | none => exact Or.inl ⟨_, rfl⟩
    | bad => exact Or.inl ⟨_, rfl⟩
    | str u =>
      simp only
      cases hm : mk q u with
      | error e => exact Or.inl ⟨_, rfl⟩
      | ok info =>
        simp only
        cases hi : ixGet r.index u with
        | some w => exact Or.inl ⟨_, rfl⟩
        | none =>
          simp only [second_check_false h hi, Bool.false_eq_true, ↓reduceIte]
          exact Or.inr ⟨q, u, info, rfl, rfl, hm, hi, rfl⟩

theorem tlGet_after_add (ts : List (Sym × List UnitRow)) (f : List UnitRow → List UnitRow) (q k : Sym) :
    tlGet (tlModify f (tlSetDefault ts q) q) k
      = if k = q then some (f ((tlGet ts q).getD [])) else tlGet ts k := by
  rw [tlGet_modify]
  split
  · rw [tlGet_setDefault]; simp
  · rename_i hk
    rw [tlGet_setDefault]; simp [hk]

theorem old_nodup {r : Registry} (h : RegInv r) (q : Sym) : (((tlGet r.types q).getD []).map (·.sym)).Nodup := by
  cases hg : tlGet r.types q with
  | none => simp
  | some l => simpa using h.symsNodup _ _ hg

theorem old_free {r : Registry} (h : RegInv r) {q u : Sym} (hfree : ixGet r.index u = none) :
    u ∉ ((tlGet r.types q).getD []).map (·.sym) := by
  intro hu
  obtain ⟨w, hw, hs⟩ := List.mem_map.mp hu
  cases hg : tlGet r.types q with
  | none => rw [hg] at hw; simp at hw
  | some l =>
    rw [hg] at hw
    simp only [Option.getD_some] at hw
    have hq := h.rowsTyped _ _ hg _ hw
    have : ixGet r.index u = some w := (h.indexSync u w).mpr ⟨hs, l, by rw [hq]; exact hg, hw⟩
    rw [hfree] at this; cases this

theorem old_baseFirst {r : Registry} (h : RegInv r) (q : Sym) : BaseFirst ((tlGet r.types q).getD []) := by
  cases hg : tlGet r.types q with
  | none => intro ha; simp at ha
  | some l => simpa using h.baseFirst _ _ hg

/-- `AddUnit` keeps the invariant -/
theorem addUnit_inv {r : Registry} (h : RegInv r) (qt : SArg) (name : Sym) (unit : SArg) (fb tb : Formula)
    (dc : Sym) : RegInv (addUnit r qt name unit fb tb dc).1 := by
  unfold addUnit
  rcases addInfo_spec h qt unit (mkInfo fb tb dc name) with ⟨e, he⟩ | ⟨q, u, info, _, _, hm, hfree, he⟩
  · rw [he]; exact h
  · rw [he]
    obtain ⟨hq, hu, hb⟩ := mkInfo_ok hm
    refine regInv_insert h hq hu hfree (by rw [hb]; intro x; cases x)
      (newList := (tlGet r.types q).getD [] ++ [info]) (tlGet_after_add _ _ _) ?_ ?_ ?_
    · intro w; simp
    · rw [List.map_append, List.nodup_append]
      refine ⟨old_nodup h q, by simp, ?_⟩
      intro a ha b hb' hab
      simp only [List.map_cons, List.map_nil, List.mem_singleton] at hb'
      subst hb'
      subst hab
      exact old_free h hfree (hu ▸ ha)
    · intro ha
      rw [List.any_append] at ha
      simp only [List.any_cons, hb, List.any_nil, Bool.or_false] at ha
      obtain ⟨b, t, hl, hbb⟩ := old_baseFirst h q ha
      exact ⟨b, t ++ [info], by rw [hl]; rfl, hbb⟩

/-- `AddUnitBase` keeps the invariant -/
theorem addUnitBase_inv {r : Registry} (h : RegInv r) (qt : SArg) (name : Sym) (unit : SArg) :
    RegInv (addUnitBase r qt name unit).1 := by
  unfold addUnitBase
  rcases addInfo_spec h qt unit (baseInfo name) with ⟨e, he⟩ | ⟨q, u, info, hqt, _, hm, hfree, he⟩
  · rw [he]; exact h
  · rw [he, hqt]
    obtain ⟨hq, hu, hb, hid⟩ := baseInfo_ok hm
    simp only
    refine regInv_insert h hq hu hfree (fun _ => hid)
      (newList := info :: (tlGet r.types q).getD []) ?_ ?_ ?_ ?_
    · intro k
      rw [tlGet_modify]
      split
      · rw [tlGet_after_add]; simp [moveLastToFront_append]
      · rename_i hk
        rw [tlGet_after_add]; simp [hk]
    · intro w; simp [or_comm]
    · rw [List.map_cons, List.nodup_cons]
      exact ⟨hu ▸ old_free h hfree, old_nodup h q⟩
    · intro _; exact ⟨info, _, rfl, hb⟩

/-- a rejected `AddUnit`/`AddUnitBase` leaves a well-formed registry exactly as it was -/
theorem addInfo_rejected {r : Registry} (h : RegInv r) {qt unit : SArg} {mk : Sym → Sym → Except ErrKind UnitRow}
    {r' : Registry} {e : ErrKind} (he : addInfo r qt unit mk = (r', .error e)) : r' = r := by
  rcases addInfo_spec h qt unit mk with ⟨e', he'⟩ | ⟨q, u, info, _, _, _, _, he'⟩
  · rw [he'] at he; cases he; rfl
  · rw [he'] at he; cases he

/-! ### AddCategory -/

theorem fixValid_mem {lg : List (Sym × Sym)} {qunits vu vs : List Sym} (h : fixValid lg qunits vu = .ok vs) :
    ∀ u ∈ vs, u ∈ qunits := by
  induction vu generalizing vs with
  | nil => simp [fixValid] at h; subst h; simp
  | cons u us ih =>
    simp only [fixValid] at h
    split at h
    · rename_i hm
      split at h
      · rename_i vs' hv
        cases h
        intro x hx
        simp only [List.mem_cons] at hx
        rcases hx with hx | hx
        · subst hx; exact hm
        · exact ih hv x hx
      · cases h
    · cases h

theorem resolveValid_ok {lg : List (Sym × Sym)} {r : Registry} {qt : Sym} {vu0 vu : Option (List Sym)}
    (h : resolveValid lg r qt vu0 = .ok vu) :
    ∀ vs, vu = some vs → ∃ l, tlGet r.types qt = some l ∧ ∀ u ∈ vs, u ∈ l.map (·.sym) := by
  intro vs hvs
  subst hvs
  unfold resolveValid at h
  split at h
  · cases h
  · rename_i vu1
    unfold getUnits at h
    cases hg : tlGet r.types qt with
    | none => rw [hg] at h; cases h
    | some l =>
      rw [hg] at h
      simp only at h
      split at h
      · rename_i vs' hf
        cases h
        exact ⟨l, rfl, fixValid_mem hf⟩
      · cases h

theorem resolveDefaultUnit_ok {lg : List (Sym × Sym)} {r : Registry} {qt : Sym} {vu : Option (List Sym)}
    {du0 : Option Sym} {du : Sym} (h : resolveDefaultUnit lg r qt vu du0 = .ok du)
    (hvu : ∀ vs, vu = some vs → ∃ l, tlGet r.types qt = some l ∧ ∀ u ∈ vs, u ∈ l.map (·.sym)) :
    ∃ l, tlGet r.types qt = some l ∧ du ∈ l.map (·.sym) := by
  unfold resolveDefaultUnit at h
  split at h
  · unfold getBaseUnit at h
    cases hg : tlGet r.types qt with
    | none => rw [hg] at h; cases h
    | some l =>
      rw [hg] at h
      cases l with
      | nil => cases h
      | cons b t =>
        simp only at h
        refine ⟨b :: t, rfl, ?_⟩
        split at h
        · rename_i v vs
          obtain ⟨l', hl', hm⟩ := hvu (v :: vs) rfl
          rw [hg] at hl'; cases hl'
          split at h
          · cases h; simp
          · cases h; exact hm _ (by simp)
        · cases h; simp
  · rename_i d
    unfold getUnits at h
    cases hg : tlGet r.types qt with
    | none => rw [hg] at h; cases h
    | some l =>
      rw [hg] at h
      simp only at h
      split at h
      · rename_i hm; cases h; exact ⟨l, rfl, hm⟩
      · cases h

theorem resolveDefaultValue_ok {lo hi : Option Rat} {loX hiX : Bool} {dv0 : Option Rat} {dv : Rat}
    (h : resolveDefaultValue lo hi loX hiX dv0 = .ok dv) (hlim : dv0 = none → limitsInverted lo hi = false) :
    minOk lo loX dv = true ∧ maxOk hi hiX dv = true := by
  unfold resolveDefaultValue at h
  split at h
  · have hl := hlim rfl
    split at h
    · cases h
    · rename_i hx
      simp only [Bool.or_eq_true, not_or, Bool.not_eq_true] at hx
      obtain ⟨hx1, hx2⟩ := hx
      subst hx1; subst hx2
      cases lo with
      | some m =>
        simp only at h
        cases h
        cases hi with
        | none => simp [minOk, maxOk]
        | some hh =>
          simp only [limitsInverted, decide_eq_false_iff_not, Rat.not_lt] at hl
          simp [minOk, maxOk, hl]
      | none =>
        simp only at h
        cases hi with
        | some hh => simp only at h; cases h; simp [minOk, maxOk]
        | none => simp only at h; cases h; simp [minOk, maxOk]
  · rename_i d
    split at h
    · cases h
    · split at h
      · cases h
      · rename_i h1 h2
        cases h
        simp only [Bool.not_eq_true', Bool.not_eq_false] at h1 h2
        exact ⟨by simpa using h1, by simpa using h2⟩

theorem buildInfo_ok {lg : List (Sym × Sym)} {r : Registry} {c qt : Sym} {a : CatArgs} {info : CatRow}
    (h : buildInfo lg r c qt a = .ok info) (hlim : a.defaultValue = none → limitsInverted a.minV a.maxV = false) :
    CatOk r info ∧ info.name = c := by
  unfold buildInfo at h
  split at h
  · cases h
  · rename_i vu hv
    split at h
    · cases h
    · rename_i du hd
      split at h
      · cases h
      · rename_i dv hdv
        cases h
        have hvu := resolveValid_ok hv
        obtain ⟨l, hl, hdu⟩ := resolveDefaultUnit_ok hd hvu
        refine ⟨⟨⟨l, hl, hdu, ?_⟩, resolveDefaultValue_ok hdv hlim⟩, rfl⟩
        intro vs hvs u hu
        obtain ⟨l', hl', hm⟩ := hvu vs hvs
        rw [hl] at hl'; cases hl'
        exact hm u hu

theorem inheritFrom_lim {r : Registry} {a a1 : CatArgs} (h : inheritFrom r a = .ok a1)
    (hl : limitsInverted a.minV a.maxV = false) :
    a1.defaultValue = none → limitsInverted a1.minV a1.maxV = false := by
  unfold inheritFrom at h
  split at h
  · split at h
    · cases h
    · cases h
      intro hn
      simp only at hn
      cases hd : a.defaultValue <;> simp [orElseO, hd] at hn
  · cases h; exact fun _ => hl

theorem addCategory_spec (lg : List (Sym × Sym)) (r : Registry) (a : CatArgs) :
    (∃ e, addCategory lg r a = (r, .error e)) ∨
    (∃ c info, a.category = .str c ∧ CatOk r info ∧ info.name = c ∧
      addCategory lg r a = (⟨r.types, r.index, catSet r.cats info⟩, .ok info)) := by
  unfold addCategory
  cases hc : a.category with
  | none => exact Or.inl ⟨_, rfl⟩
  | bad => exact Or.inl ⟨_, rfl⟩
  | str c =>
    simp only
    split
    · exact Or.inl ⟨_, rfl⟩
    · split
      · exact Or.inl ⟨_, rfl⟩
      · split
        · exact Or.inl ⟨_, rfl⟩
        · rename_i hli
          simp only [Bool.not_eq_true] at hli
          cases hi : inheritFrom r a with
          | error e => exact Or.inl ⟨_, rfl⟩
          | ok a1 =>
            simp only
            cases hq : a1.qtype with
            | none => exact Or.inl ⟨_, rfl⟩
            | some qt =>
              simp only
              cases hb : buildInfo lg r c qt a1 with
              | error e => exact Or.inl ⟨_, rfl⟩
              | ok info =>
                obtain ⟨hok, hn⟩ := buildInfo_ok hb (inheritFrom_lim hi hli)
                exact Or.inr ⟨c, info, rfl, hok, hn, rfl⟩

/-- `AddCategory` keeps the invariant -/
theorem addCategory_inv {lg : List (Sym × Sym)} {r : Registry} (h : RegInv r) (a : CatArgs) :
    RegInv (addCategory lg r a).1 := by
  rcases addCategory_spec lg r a with ⟨e, he⟩ | ⟨c, info, _, hok, hn, he⟩
  · rw [he]; exact h
  · rw [he]
    refine ⟨h.rowsTyped, h.nonEmpty, h.symsNodup, h.indexSync, h.baseIdent, h.baseFirst, ?_⟩
    intro c' ci hc'
    simp only at hc'
    rw [catGet_set] at hc'
    split at hc'
    · cases hc'
      exact ⟨hok.typeExists, hok.defaultInLimits⟩
    · obtain ⟨ht, hl⟩ := h.catsOk c' ci hc'
      exact ⟨ht, hl⟩

/-! ### the identity-base clause at full strength -/

/-- the registry invariant at full strength: additionally the first-listed unit of every
quantity type has identity to-base and from-base functions -/
def FullInv (r : Registry) : Prop := RegInv r ∧ ∀ qt l, tlGet r.types qt = some l → HeadIdent l


section
variable (lg : List (Sym × Sym))

/-- every quantity type has received a base unit -/
def HasBase (r : Registry) : Prop := ∀ qt l, tlGet r.types qt = some l → l.any isBaseRow = true

/-- the registration opens no quantity type with `AddUnit` (the discipline of the shipped fillers:
`AddUnitBase` first) -/
def opensNoType (r : Registry) : RegOp → Bool
  | .addUnit (.str q) _ _ _ _ _ => (tlGet r.types q).isSome
  | _ => true

/-- a history in which every quantity type is opened by `AddUnitBase` -/
def Disciplined : Registry → List RegOp → Prop
  | _, [] => True
  | r, op :: ops => opensNoType r op = true ∧ Disciplined (step lg r op).1 ops

theorem step_preserves_HasBase {r : Registry} (h : RegInv r) (hb : HasBase r) {op : RegOp}
    (hd : opensNoType r op = true) : HasBase (step lg r op).1 := by
  cases op with
  | addUnitBase qt name unit =>
    simp only [step]
    have : (addUnitBase r qt name unit).1 = (step lg r (.addUnitBase qt name unit)).1 := by
      simp only [step]; cases addUnitBase r qt name unit with | mk r1 o => cases o <;> rfl
    simp only [step] at this
    rw [← this]
    unfold addUnitBase
    rcases addInfo_spec h qt unit (baseInfo name) with ⟨e, he⟩ | ⟨q, u, info, hqt, _, hm, _, he⟩
    · rw [he]; exact hb
    · rw [he, hqt]
      obtain ⟨_, _, hbase, _⟩ := baseInfo_ok hm
      intro k l hl
      simp only at hl
      rw [tlGet_modify] at hl
      split at hl
      · rw [tlGet_after_add] at hl
        simp only [↓reduceIte, Option.map_some, moveLastToFront_append, Option.some.injEq] at hl
        subst hl
        simp [hbase]
      · rename_i hk
        rw [tlGet_after_add] at hl
        simp only [hk, ↓reduceIte] at hl
        exact hb _ _ hl
  | addUnit qt name unit fb tb dc =>
    have : (addUnit r qt name unit fb tb dc).1 = (step lg r (.addUnit qt name unit fb tb dc)).1 := by
      simp only [step]; cases addUnit r qt name unit fb tb dc with | mk r1 o => cases o <;> rfl
    rw [← this]
    unfold addUnit
    rcases addInfo_spec h qt unit (mkInfo fb tb dc name) with ⟨e, he⟩ | ⟨q, u, info, hqt, _, _, _, he⟩
    · rw [he]; exact hb
    · rw [he]
      subst hqt
      simp only [opensNoType] at hd
      cases hg : tlGet r.types q with
      | none => rw [hg] at hd; cases hd
      | some old =>
        intro k l hl
        simp only at hl
        rw [tlGet_after_add] at hl
        split at hl
        · rw [hg] at hl
          simp only [Option.getD_some, Option.some.injEq] at hl
          subst hl
          rw [List.any_append, hb _ _ hg]; rfl
        · exact hb _ _ hl
  | addCategory a =>
    have : (addCategory lg r a).1 = (step lg r (.addCategory a)).1 := by
      simp only [step]; cases addCategory lg r a with | mk r1 o => cases o <;> rfl
    rw [← this]
    rcases addCategory_spec lg r a with ⟨e, he⟩ | ⟨c, info, _, _, _, he⟩
    · rw [he]; exact hb
    · rw [he]; exact hb
  | addCategoryN a0 n1 n2 n3 =>
    have : (addCategory lg r (inheritFlags r a0 n1 n2 n3)).1 = (step lg r (.addCategoryN a0 n1 n2 n3)).1 := by
      simp only [step]; cases addCategory lg r (inheritFlags r a0 n1 n2 n3) with | mk r1 o => cases o <;> rfl
    rw [← this]
    rcases addCategory_spec lg r (inheritFlags r a0 n1 n2 n3) with ⟨e, he⟩ | ⟨c, info, _, _, _, he⟩
    · rw [he]; exact hb
    · rw [he]; exact hb

/-- with a base unit in every type the invariant gives the identity-base clause at full strength -/
theorem fullInv_of_hasBase {r : Registry} (h : RegInv r) (hb : HasBase r) : FullInv r := by
  refine ⟨h, ?_⟩
  intro qt l hl
  obtain ⟨b, t, hbt, hbase⟩ := h.baseFirst _ _ hl (hb _ _ hl)
  exact ⟨b, t, hbt, h.baseIdent _ _ hl b (by rw [hbt]; simp) hbase⟩

/-- every registration call keeps the invariant (restated as `step_preserves_RegInv` in Props/C14) -/
theorem step_inv {r : Registry} (h : RegInv r) (op : RegOp) : RegInv (step lg r op).1 := by
  cases op with
  | addUnitBase qt name unit =>
    have := addUnitBase_inv h qt name unit
    simp only [step]
    cases hs : addUnitBase r qt name unit with
    | mk r1 o => rw [hs] at this; cases o <;> exact this
  | addUnit qt name unit fb tb dc =>
    have := addUnit_inv h qt name unit fb tb dc
    simp only [step]
    cases hs : addUnit r qt name unit fb tb dc with
    | mk r1 o => rw [hs] at this; cases o <;> exact this
  | addCategory a =>
    have := addCategory_inv (lg := lg) h a
    simp only [step]
    cases hs : addCategory lg r a with
    | mk r1 o => rw [hs] at this; cases o <;> exact this
  | addCategoryN a0 n1 n2 n3 =>
    have := addCategory_inv (lg := lg) h (inheritFlags r a0 n1 n2 n3)
    simp only [step]
    cases hs : addCategory lg r (inheritFlags r a0 n1 n2 n3) with
    | mk r1 o => rw [hs] at this; cases o <;> exact this

/-- a rejected call leaves a well-formed registry as it was (restated as `rejected_step_id` in Props/C14) -/
theorem rejected_id {r r' : Registry} (h : RegInv r) {op : RegOp} {e : ErrKind}
    (hs : step lg r op = (r', .error e)) : r' = r := by
  cases op with
  | addUnitBase qt name unit =>
    simp only [step] at hs
    unfold addUnitBase at hs
    rcases addInfo_spec h qt unit (baseInfo name) with ⟨e', he⟩ | ⟨q, u, info, hqt, _, _, _, he⟩
    · rw [he] at hs; cases hs; rfl
    · rw [he, hqt] at hs; cases hs
  | addUnit qt name unit fb tb dc =>
    simp only [step] at hs
    unfold addUnit at hs
    rcases addInfo_spec h qt unit (mkInfo fb tb dc name) with ⟨e', he⟩ | ⟨q, u, info, _, _, _, _, he⟩
    · rw [he] at hs; cases hs; rfl
    · rw [he] at hs; cases hs
  | addCategory a =>
    simp only [step] at hs
    rcases addCategory_spec lg r a with ⟨e', he⟩ | ⟨c, info, _, _, _, he⟩
    · rw [he] at hs; cases hs; rfl
    · rw [he] at hs; cases hs
  | addCategoryN a0 n1 n2 n3 =>
    simp only [step] at hs
    rcases addCategory_spec lg r (inheritFlags r a0 n1 n2 n3) with ⟨e', he⟩ | ⟨c, info, _, _, _, he⟩
    · rw [he] at hs; cases hs; rfl
    · rw [he] at hs; cases hs

/-! ### the exclusivity flags of an accepted category are the ones `AddCategory` was (effectively) called with -/

theorem inheritFrom_flags {r : Registry} {a a1 : CatArgs} (h : inheritFrom r a = .ok a1) :
    a1.minExcl = a.minExcl ∧ a1.maxExcl = a.maxExcl ∧ a1.caption = a.caption := by
  unfold inheritFrom at h
  split at h
  · split at h
    · cases h
    · cases h; exact ⟨rfl, rfl, rfl⟩
  · cases h; exact ⟨rfl, rfl, rfl⟩

theorem buildInfo_flags {lg : List (Sym × Sym)} {r : Registry} {c qt : Sym} {a : CatArgs} {info : CatRow}
    (h : buildInfo lg r c qt a = .ok info) : info.minExcl = a.minExcl ∧ info.maxExcl = a.maxExcl := by
  unfold buildInfo at h
  split at h
  · cases h
  · split at h
    · cases h
    · split at h
      · cases h
      · cases h; exact ⟨rfl, rfl⟩

theorem addCategory_flags {lg : List (Sym × Sym)} {r r' : Registry} {a : CatArgs} {info : CatRow}
    (h : addCategory lg r a = (r', .ok info)) : info.minExcl = a.minExcl ∧ info.maxExcl = a.maxExcl := by
  unfold addCategory at h
  split at h
  · cases h
  · cases h
  · split at h
    · cases h
    · split at h
      · cases h
      · split at h
        · cases h
        · split at h
          · cases h
          · rename_i a1 ha1
            split at h
            · cases h
            · split at h
              · cases h
              · rename_i info' hb
                cases h
                obtain ⟨f1, f2, _⟩ := inheritFrom_flags ha1
                obtain ⟨g1, g2⟩ := buildInfo_flags hb
                exact ⟨g1.trans f1, g2.trans f2⟩

end

end Barril.Reg
