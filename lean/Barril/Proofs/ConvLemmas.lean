/-
Helper lemmas for C01/C08/C12: algebra of well-formed conversion rows.
-/
import Barril.Model.Conv
import Mathlib.Algebra.Order.Field.Rat
import Mathlib.Tactic.Ring
import Mathlib.Tactic.FieldSimp
import Mathlib.Tactic.Linarith
import Mathlib.Tactic.Positivity

namespace Barril

/-- the content of `UnitRow.wf`, as propositions -/
structure UnitRow.WF (w : UnitRow) : Prop where
  ok : w.ok = true
  ts : w.toBase.s = 0
  fs : w.fromBase.s = 0
  tr : w.toBase.r ≠ 0
  fr : w.fromBase.r ≠ 0
  pos : 0 < w.toBase.q * w.toBase.r
  inv0 : w.fromBase.p * w.toBase.r + w.fromBase.q * w.toBase.p = 0
  inv1 : w.fromBase.q * w.toBase.q = w.toBase.r * w.fromBase.r

theorem UnitRow.wf_iff (w : UnitRow) : w.wf = true ↔ w.WF := by
  unfold UnitRow.wf
  simp only [Bool.and_eq_true, beq_iff_eq, bne_iff_ne, ne_eq, decide_eq_true_eq]
  constructor
  · rintro ⟨⟨⟨⟨⟨⟨⟨h1, h2⟩, h3⟩, h4⟩, h5⟩, h6⟩, h7⟩, h8⟩
    exact ⟨h1, h2, h3, h4, h5, h6, h7, h8⟩
  · rintro ⟨h1, h2, h3, h4, h5, h6, h7, h8⟩
    exact ⟨⟨⟨⟨⟨⟨⟨h1, h2⟩, h3⟩, h4⟩, h5⟩, h6⟩, h7⟩, h8⟩

namespace UnitRow.WF
variable {w : UnitRow} (h : w.WF)
include h

theorem tq : w.toBase.q ≠ 0 := by
  intro hq; have := h.pos; rw [hq] at this; simp at this

theorem fq : w.fromBase.q ≠ 0 := by
  intro hq
  have := h.inv1
  rw [hq] at this
  simp at this
  rcases this with h1 | h1
  · exact h.tr h1
  · exact h.fr h1

theorem to_apply (x : Rat) : w.toBase.apply x = .ok ((w.toBase.p + w.toBase.q * x) / w.toBase.r) := by
  unfold Mob.apply Mob.eval
  simp [h.ts, h.tr]

theorem from_apply (y : Rat) :
    w.fromBase.apply y = .ok ((w.fromBase.p + w.fromBase.q * y) / w.fromBase.r) := by
  unfold Mob.apply Mob.eval
  simp [h.fs, h.fr]

/-- from-base ∘ to-base = id -/
theorem from_to (x : Rat) :
    (w.fromBase.p + w.fromBase.q * ((w.toBase.p + w.toBase.q * x) / w.toBase.r)) / w.fromBase.r = x := by
  have h0 := h.inv0
  have h1 := h.inv1
  have tr := h.tr
  have fr := h.fr
  field_simp
  have : w.fromBase.p * w.toBase.r + w.fromBase.q * (w.toBase.p + w.toBase.q * x)
      = (w.fromBase.p * w.toBase.r + w.fromBase.q * w.toBase.p) + (w.fromBase.q * w.toBase.q) * x := by ring
  rw [this, h0, h1]; ring

/-- the mirrored coefficient identity -/
theorem inv0' : w.toBase.p * w.fromBase.r + w.toBase.q * w.fromBase.p = 0 := by
  have h0 := h.inv0
  have h1 := h.inv1
  have tr := h.tr
  have : w.toBase.r * (w.toBase.p * w.fromBase.r + w.toBase.q * w.fromBase.p) = 0 := by
    have e : w.toBase.r * (w.toBase.p * w.fromBase.r + w.toBase.q * w.fromBase.p)
        = w.toBase.p * (w.toBase.r * w.fromBase.r) + w.toBase.q * (w.fromBase.p * w.toBase.r) := by ring
    rw [e, ← h1]
    have : w.fromBase.p * w.toBase.r = - (w.fromBase.q * w.toBase.p) := by linarith
    rw [this]; ring
  rcases mul_eq_zero.mp this with h2 | h2
  · exact absurd h2 tr
  · exact h2

/-- to-base ∘ from-base = id -/
theorem to_from (y : Rat) :
    (w.toBase.p + w.toBase.q * ((w.fromBase.p + w.fromBase.q * y) / w.fromBase.r)) / w.toBase.r = y := by
  have h0 := h.inv0'
  have h1 := h.inv1
  have tr := h.tr
  have fr := h.fr
  field_simp
  have : w.toBase.p * w.fromBase.r + w.toBase.q * (w.fromBase.p + w.fromBase.q * y)
      = (w.toBase.p * w.fromBase.r + w.toBase.q * w.fromBase.p) + (w.fromBase.q * w.toBase.q) * y := by ring
  rw [this, h0, h1]; ring

/-- slope of to-base is positive -/
theorem to_slope_pos : 0 < w.toBase.q / w.toBase.r := by
  have := h.pos
  have tr := h.tr
  have : w.toBase.q / w.toBase.r = (w.toBase.q * w.toBase.r) / (w.toBase.r * w.toBase.r) := by
    field_simp
  rw [this]
  apply div_pos h.pos
  exact mul_self_pos.mpr tr

/-- slope of from-base is positive -/
theorem from_slope_pos : 0 < w.fromBase.q / w.fromBase.r := by
  have h1 := h.inv1
  have tr := h.tr
  have fr := h.fr
  have tq := h.tq
  have e : w.fromBase.q / w.fromBase.r = w.toBase.r / w.toBase.q := by
    field_simp; linarith
  rw [e]
  have := h.to_slope_pos
  have e2 : w.toBase.r / w.toBase.q = (w.toBase.q / w.toBase.r)⁻¹ := by field_simp
  rw [e2]; exact inv_pos.mpr this

end UnitRow.WF

/-- for well-formed rows the composition always succeeds, with this value -/
def convVal (u v : UnitRow) (x : Rat) : Rat :=
  (v.fromBase.p + v.fromBase.q * ((u.toBase.p + u.toBase.q * x) / u.toBase.r)) / v.fromBase.r

theorem convRows_eq {u v : UnitRow} (hu : u.WF) (hv : v.WF) (x : Rat) :
    convRows u v x = .ok (convVal u v x) := by
  unfold convRows convVal
  simp [hu.ok, hv.ok, hu.to_apply, hv.from_apply]

theorem convVal_roundtrip {u v : UnitRow} (hu : u.WF) (hv : v.WF) (x : Rat) :
    convVal v u (convVal u v x) = x := by
  unfold convVal
  rw [hv.to_from, hu.from_to]

theorem convVal_trans {u v w : UnitRow} (_hu : u.WF) (hv : v.WF) (_hw : w.WF) (x : Rat) :
    convVal v w (convVal u v x) = convVal u w x := by
  unfold convVal
  rw [hv.to_from]

theorem convVal_self {u : UnitRow} (hu : u.WF) (x : Rat) : convVal u u x = x := by
  unfold convVal; rw [hu.from_to]

theorem convVal_strictMono {u v : UnitRow} (hu : u.WF) (hv : v.WF) {x y : Rat} (hxy : x < y) :
    convVal u v x < convVal u v y := by
  unfold convVal
  have hs := hu.to_slope_pos
  have hf := hv.from_slope_pos
  have tr := hu.tr
  have fr := hv.fr
  have e : ∀ z, (v.fromBase.p + v.fromBase.q * ((u.toBase.p + u.toBase.q * z) / u.toBase.r)) / v.fromBase.r
      = (v.fromBase.p / v.fromBase.r + (v.fromBase.q / v.fromBase.r) * (u.toBase.p / u.toBase.r))
        + ((v.fromBase.q / v.fromBase.r) * (u.toBase.q / u.toBase.r)) * z := by
    intro z; field_simp; ring
  rw [e x, e y]
  have : 0 < (v.fromBase.q / v.fromBase.r) * (u.toBase.q / u.toBase.r) := mul_pos hf hs
  nlinarith

/-! ### `getInfo` only ever returns rows of the table -/

theorem Db.tryInfo_mem {db : Db} {qt u : Sym} {r : UnitRow} (h : db.tryInfo qt u = some r) :
    r ∈ db.units := by
  unfold Db.tryInfo Db.unitBySym at h
  split at h
  · rename_i r' hr
    split at h
    · cases h; exact List.mem_of_find?_eq_some hr
    · cases h
  · cases h

theorem Db.unitsOfType_find_mem {db : Db} {qt : Sym} {p : UnitRow → Bool} {r : UnitRow}
    (h : (db.unitsOfType qt).find? p = some r) : r ∈ db.units := by
  have := List.mem_of_find?_eq_some h
  unfold Db.unitsOfType at this
  exact (List.mem_filter.mp this).1

theorem Db.infoUnknown_mem {db : Db} {qt : Sym} {a : Bool} {r : UnitRow}
    (h : db.infoUnknown qt a = some r) : r ∈ db.units := by
  unfold Db.infoUnknown at h
  split at h
  · exact Db.unitsOfType_find_mem h
  · cases h

theorem Db.infoLegacy_mem {db : Db} {qt u : Sym} {a : Bool} {r : UnitRow}
    (h : db.infoLegacy qt u a = some r) : r ∈ db.units := by
  unfold Db.infoLegacy at h
  split at h
  · exact Db.tryInfo_mem h
  · cases h

theorem Db.getInfo_mem {db : Db} {qt u : Sym} {a b : Bool} {r : UnitRow}
    (h : db.getInfo qt u a b = .ok r) : r ∈ db.units := by
  unfold Db.getInfo at h
  cases h1 : db.tryInfo qt u with
  | some r' => rw [h1] at h; cases h; exact Db.tryInfo_mem h1
  | none =>
    rw [h1] at h
    simp only at h
    split at h
    · cases h
    · cases h2 : (db.unitsOfType (db.resolveQt qt)).find? (·.sym == u) with
      | some r' => rw [h2] at h; cases h; exact Db.unitsOfType_find_mem h2
      | none =>
        rw [h2] at h
        simp only at h
        cases h3 : db.infoUnknown (db.resolveQt qt) a with
        | some r' => rw [h3] at h; cases h; exact Db.infoUnknown_mem h3
        | none =>
          rw [h3] at h
          simp only at h
          cases h4 : db.infoLegacy (db.resolveQt qt) u b with
          | some r' => rw [h4] at h; cases h; exact Db.infoLegacy_mem h4
          | none => rw [h4] at h; cases h

end Barril
