/- Helper lemmas for C05 (model `Barril/Model/Fail.lean`). -/
import Barril.Model.Fail

namespace Barril.Fail
open Barril

/-- every memoised verdict is the verdict the database gives -/
def MemoInv (db : Db) (s : FState) : Prop :=
  ∀ k v, (k, v) ∈ s.memo → v = db.categoryUnitValid k.1 k.2

/-- every cached quantity is what a creation on a fresh session yields for that key -/
def CacheInv (db : Db) (s : FState) : Prop :=
  ∀ k q, (k, q) ∈ s.cache → (newQuantity db FState.empty k.1 k.2).2 = .ok q

def Inv (db : Db) (s : FState) : Prop := MemoInv db s ∧ CacheInv db s

theorem inv_empty (db : Db) : Inv db FState.empty :=
  ⟨fun _ _ h => by simp [FState.empty] at h, fun _ _ h => by simp [FState.empty] at h⟩

theorem lookupMemo_some {m : List ((Sym × Sym) × Bool)} {k : Sym × Sym} {v : Bool}
    (h : lookupMemo m k = some v) : (k, v) ∈ m := by
  unfold lookupMemo at h
  cases hf : m.find? (·.1 == k) with
  | none => rw [hf] at h; cases h
  | some e =>
    rw [hf] at h
    simp only [Option.map_some, Option.some.injEq] at h
    have hm := List.mem_of_find?_eq_some hf
    have hk := List.find?_some hf
    simp only [beq_iff_eq] at hk
    obtain ⟨e1, e2⟩ := e
    simp only at hk h
    subst hk; subst h; exact hm

theorem lookupCache_some {m : List ((Sym × Sym) × Simple)} {k : Sym × Sym} {q : Simple}
    (h : lookupCache m k = some q) : (k, q) ∈ m := by
  unfold lookupCache at h
  cases hf : m.find? (·.1 == k) with
  | none => rw [hf] at h; cases h
  | some e =>
    rw [hf] at h
    simp only [Option.map_some, Option.some.injEq] at h
    have hm := List.mem_of_find?_eq_some hf
    have hk := List.find?_some hf
    simp only [beq_iff_eq] at hk
    obtain ⟨e1, e2⟩ := e
    simp only at hk h
    subst hk; subst h; exact hm

/-- the memo is semantically invisible for `CheckCategoryUnit` -/
theorem check_val {db : Db} {s : FState} (h : MemoInv db s) (c u : Sym) :
    (checkCategoryUnit db s c u).2 = db.categoryUnitValid c u := by
  unfold checkCategoryUnit
  cases hl : lookupMemo s.memo (c, u) with
  | none => simp
  | some v => simpa using h _ _ (lookupMemo_some hl)

theorem check_memoInv {db : Db} {s : FState} (h : MemoInv db s) (c u : Sym) :
    MemoInv db (checkCategoryUnit db s c u).1 := by
  unfold checkCategoryUnit
  cases hl : lookupMemo s.memo (c, u) with
  | some v => simpa using h
  | none =>
    intro k v hm
    simp only [List.mem_cons] at hm
    rcases hm with hm | hm
    · cases hm; rfl
    · exact h k v hm

theorem check_cache (db : Db) (s : FState) (c u : Sym) :
    (checkCategoryUnit db s c u).1.cache = s.cache := by
  unfold checkCategoryUnit
  cases lookupMemo s.memo (c, u) <;> rfl

/-- the creation verdict as a pure function of the database -/
def newQuantityPure (db : Db) (c u : Sym) : Except ErrKind Simple :=
  match db.catByName c with
  | none => .error .units
  | some _ =>
    if db.categoryUnitValid c u then .ok ⟨c, u⟩
    else if isLegacy db.legacy u then
      if db.categoryUnitValid c (fixLegacy db.legacy u) then .ok ⟨c, fixLegacy db.legacy u⟩
      else .error .units
    else .error .units

theorem newQuantity_val {db : Db} {s : FState} (h : MemoInv db s) (c u : Sym) :
    (newQuantity db s c u).2 = newQuantityPure db c u := by
  unfold newQuantity newQuantityPure
  cases db.catByName c with
  | none => rfl
  | some ci =>
    simp only
    have h1 := check_val h c u
    have hm1 := check_memoInv h c u
    rw [show (checkCategoryUnit db s c u) = ((checkCategoryUnit db s c u).1, (checkCategoryUnit db s c u).2) from rfl]
    simp only [h1]
    by_cases hv : db.categoryUnitValid c u = true
    · simp [hv]
    · simp only [hv, Bool.false_eq_true, ↓reduceIte]
      by_cases hl : isLegacy db.legacy u = true
      · simp only [hl, ↓reduceIte]
        have h2 := check_val hm1 c (fixLegacy db.legacy u)
        rw [show (checkCategoryUnit db (checkCategoryUnit db s c u).1 c (fixLegacy db.legacy u))
              = ((checkCategoryUnit db (checkCategoryUnit db s c u).1 c (fixLegacy db.legacy u)).1,
                 (checkCategoryUnit db (checkCategoryUnit db s c u).1 c (fixLegacy db.legacy u)).2) from rfl]
        simp only [h2]
        by_cases hv2 : db.categoryUnitValid c (fixLegacy db.legacy u) = true <;> simp [hv2]
      · simp [hl]

theorem newQuantity_memoInv {db : Db} {s : FState} (h : MemoInv db s) (c u : Sym) :
    MemoInv db (newQuantity db s c u).1 := by
  unfold newQuantity
  cases db.catByName c with
  | none => exact h
  | some ci =>
    simp only
    have hm1 := check_memoInv h c u
    rw [show (checkCategoryUnit db s c u) = ((checkCategoryUnit db s c u).1, (checkCategoryUnit db s c u).2) from rfl]
    simp only
    split
    · exact hm1
    · split
      · have hm2 := check_memoInv hm1 c (fixLegacy db.legacy u)
        rw [show (checkCategoryUnit db (checkCategoryUnit db s c u).1 c (fixLegacy db.legacy u))
              = ((checkCategoryUnit db (checkCategoryUnit db s c u).1 c (fixLegacy db.legacy u)).1,
                 (checkCategoryUnit db (checkCategoryUnit db s c u).1 c (fixLegacy db.legacy u)).2) from rfl]
        simp only
        split <;> exact hm2
      · exact hm1

theorem newQuantity_cache (db : Db) (s : FState) (c u : Sym) :
    (newQuantity db s c u).1.cache = s.cache := by
  unfold newQuantity
  cases db.catByName c with
  | none => rfl
  | some ci =>
    simp only
    rw [show (checkCategoryUnit db s c u) = ((checkCategoryUnit db s c u).1, (checkCategoryUnit db s c u).2) from rfl]
    simp only
    split
    · exact check_cache ..
    · split
      · rw [show (checkCategoryUnit db (checkCategoryUnit db s c u).1 c (fixLegacy db.legacy u))
              = ((checkCategoryUnit db (checkCategoryUnit db s c u).1 c (fixLegacy db.legacy u)).1,
                 (checkCategoryUnit db (checkCategoryUnit db s c u).1 c (fixLegacy db.legacy u)).2) from rfl]
        simp only
        split <;> (rw [check_cache, check_cache])
      · exact check_cache ..

/-- `ObtainQuantity` answers like a creation on a fresh session: the cache is invisible -/
theorem obtain_val {db : Db} {s : FState} (h : Inv db s) (c u : Sym) :
    (obtain db s c u).2 = newQuantityPure db c u := by
  unfold obtain
  cases hl : lookupCache s.cache (c, u) with
  | some q =>
    have := h.2 _ _ (lookupCache_some hl)
    rw [newQuantity_val (inv_empty db).1] at this
    simpa using this.symm
  | none =>
    simp only
    have hv := newQuantity_val h.1 c u
    cases hn : newQuantity db s c u with
    | mk s1 r =>
      rw [hn] at hv
      simp only at hv
      cases r with
      | ok q => simpa using hv
      | error e => simpa using hv

theorem obtain_inv {db : Db} {s : FState} (h : Inv db s) (c u : Sym) :
    Inv db (obtain db s c u).1 := by
  unfold obtain
  cases hl : lookupCache s.cache (c, u) with
  | some q => exact h
  | none =>
    simp only
    have hv := newQuantity_val h.1 c u
    have hm := newQuantity_memoInv h.1 c u
    have hc := newQuantity_cache db s c u
    cases hn : newQuantity db s c u with
    | mk s1 r =>
      rw [hn] at hv hm hc
      simp only at hv hm hc
      cases r with
      | error e => exact ⟨hm, by intro k q hk; rw [hc] at hk; exact h.2 k q hk⟩
      | ok q =>
        refine ⟨hm, ?_⟩
        intro k q' hk
        simp only [List.mem_cons] at hk
        rcases hk with hk | hk
        · cases hk
          rw [newQuantity_val (inv_empty db).1]; exact hv.symm
        · rw [hc] at hk; exact h.2 k q' hk

/-! ## the extended session: alias entries, derived entries, registrations -/

/-- what `ObtainQuantity(unit)` answers on a database object whose memo tables are empty -/
def obtainUPure (db : Db) (u : Sym) : Except ErrKind Simple :=
  match resolveDefault db u with
  | .error e => .error e
  | .ok (c, u') => if c = 0 then .error .type else newQuantityPure db c u'

/-- what `ObtainQuantity(dict)` answers on a database object whose memo tables are empty -/
def obtainDictPure (db : Db) (es : List Ent) : Except ErrKind Quant :=
  match simpleCase es with
  | some (c, u) => exMap (Quant.ofSimple db) (newQuantityPure db c u)
  | none => newDerivedChecked db es

def createDerivedPure (db : Db) (es : List Ent) : Except ErrKind Quant :=
  match validateEntries db es with
  | .error e => .error e
  | .ok _ => obtainDictPure db es

/-- the invariant of the extended session: whatever sits in one of the memo tables is what a database
object with empty tables over the CURRENT registry answers -/
structure XInv (st : XState) : Prop where
  base : Inv st.db st.s
  alias : ∀ u q, (u, q) ∈ st.alias → obtainUPure st.db u = .ok q
  dcache : ∀ es q, (es, q) ∈ st.dcache → newDerivedChecked st.db es = .ok q

theorem xinv_fresh (db : Db) : XInv (XState.fresh db) :=
  ⟨inv_empty db, fun _ _ h => by simp [XState.fresh] at h, fun _ _ h => by simp [XState.fresh] at h⟩

theorem lookupAlias_some {m : List (Sym × Simple)} {u : Sym} {q : Simple}
    (h : lookupAlias m u = some q) : (u, q) ∈ m := by
  unfold lookupAlias at h
  cases hf : m.find? (·.1 == u) with
  | none => rw [hf] at h; cases h
  | some e =>
    rw [hf] at h
    simp only [Option.map_some, Option.some.injEq] at h
    have hm := List.mem_of_find?_eq_some hf
    have hk := List.find?_some hf
    simp only [beq_iff_eq] at hk
    obtain ⟨e1, e2⟩ := e
    simp only at hk h
    subst hk; subst h; exact hm

theorem lookupD_some {m : List (List Ent × Quant)} {k : List Ent} {q : Quant}
    (h : lookupD m k = some q) : (k, q) ∈ m := by
  unfold lookupD at h
  cases hf : m.find? (·.1 == k) with
  | none => rw [hf] at h; cases h
  | some e =>
    rw [hf] at h
    simp only [Option.map_some, Option.some.injEq] at h
    have hm := List.mem_of_find?_eq_some hf
    have hk := List.find?_some hf
    simp only [beq_iff_eq] at hk
    obtain ⟨e1, e2⟩ := e
    simp only at hk h
    subst hk; subst h; exact hm

/-- a hit of the simple cache is the pure answer -/
theorem cache_hit_val {db : Db} {s : FState} (h : Inv db s) {c u : Sym} {q : Simple}
    (hl : lookupCache s.cache (c, u) = some q) : newQuantityPure db c u = .ok q := by
  have := h.2 _ _ (lookupCache_some hl)
  rw [newQuantity_val (inv_empty db).1] at this
  exact this

/-- on a miss of the simple cache the state after a successful creation satisfies the invariant -/
theorem miss_inv {db : Db} {s s1 : FState} (h : Inv db s) {c u : Sym} {q : Simple}
    (hl : lookupCache s.cache (c, u) = none) (hn : newQuantity db s c u = (s1, .ok q)) :
    Inv db { s1 with cache := ((c, u), q) :: s1.cache } := by
  have := obtain_inv h c u
  unfold obtain at this
  rw [hl] at this
  simp only [hn] at this
  exact this

theorem miss_err_inv {db : Db} {s s1 : FState} (h : Inv db s) {c u : Sym} {e : ErrKind}
    (hl : lookupCache s.cache (c, u) = none) (hn : newQuantity db s c u = (s1, .error e)) :
    Inv db s1 := by
  have := obtain_inv h c u
  unfold obtain at this
  rw [hl] at this
  simp only [hn] at this
  exact this

/-- the unit string a second legacy fixing would change again (not the case for any spelling of the
shipped list the checks have met; the code's answer for such a unit depends on the alias entries) -/
def LegacyStable (L : List (Sym × Sym)) (u : Sym) : Prop := isLegacy L (fixLegacy L u) = false

instance (L : List (Sym × Sym)) (u : Sym) : Decidable (LegacyStable L u) := by
  unfold LegacyStable; infer_instance

theorem resolveDefault_zero {db : Db} {u u' : Sym} (h : resolveDefault db u = .ok (0, u')) :
    u' = fixLegacy db.legacy u ∧ getDefaultCategory db u' = .ok 0 := by
  unfold resolveDefault at h
  cases hg : getDefaultCategory db u with
  | error e => rw [hg] at h; cases h
  | ok c =>
    rw [hg] at h
    simp only at h
    by_cases hc : (c != 0) = true
    · simp only [hc, ↓reduceIte] at h
      cases h
      simp at hc
    · simp only [hc, Bool.false_eq_true, ↓reduceIte] at h
      by_cases hl : isLegacy db.legacy u = true
      · simp only [hl, ↓reduceIte] at h
        cases hg2 : getDefaultCategory db (fixLegacy db.legacy u) with
        | error e => rw [hg2] at h; cases h
        | ok c' =>
          rw [hg2] at h
          simp only at h
          cases h
          exact ⟨rfl, hg2⟩
      · simp only [hl, Bool.false_eq_true, ↓reduceIte] at h
        cases h

/-- no alias entry can sit under a unit that has no default category and is not a legacy spelling -/
theorem obtainUPure_no_category {db : Db} {u : Sym} (hg : getDefaultCategory db u = .ok 0)
    (hl : isLegacy db.legacy u = false) (q : Simple) : obtainUPure db u ≠ .ok q := by
  unfold obtainUPure resolveDefault
  rw [hg]
  simp [hl]

/-- `ObtainQuantity(unit)` answers as a database object with empty memo tables does -/
theorem obtainU_val {st : XState} (h : XInv st) (u : Sym) (hs : LegacyStable st.db.legacy u) :
    (obtainU st u).2 = obtainUPure st.db u := by
  unfold obtainU
  cases ha : lookupAlias st.alias u with
  | some q => simp only; exact (h.alias _ _ (lookupAlias_some ha)).symm
  | none =>
    simp only
    unfold obtainUPure
    cases hr : resolveDefault st.db u with
    | error e => rfl
    | ok cu =>
      obtain ⟨c, u'⟩ := cu
      simp only
      by_cases hc : c = 0
      · subst hc
        simp only [↓reduceIte]
        cases ha' : lookupAlias st.alias u' with
        | none => rfl
        | some q =>
          exfalso
          obtain ⟨hu', hg⟩ := resolveDefault_zero hr
          have hq := h.alias _ _ (lookupAlias_some ha')
          subst hu'
          exact obtainUPure_no_category hg hs q hq
      · simp only [hc, ↓reduceIte]
        cases hl : lookupCache st.s.cache (c, u') with
        | some q => simp only; exact (cache_hit_val h.base hl).symm
        | none =>
          simp only
          have hv := newQuantity_val h.base.1 c u'
          cases hn : newQuantity st.db st.s c u' with
          | mk s1 r =>
            rw [hn] at hv
            simp only at hv
            cases r with
            | ok q => simpa using hv
            | error e => simpa using hv

theorem obtainU_db (st : XState) (u : Sym) : (obtainU st u).1.db = st.db := by
  unfold obtainU
  cases lookupAlias st.alias u with
  | some q => rfl
  | none =>
    simp only
    cases resolveDefault st.db u with
    | error e => rfl
    | ok cu =>
      obtain ⟨c, u'⟩ := cu
      simp only
      by_cases hc : c = 0
      · simp only [hc, ↓reduceIte]
        cases lookupAlias st.alias u' <;> rfl
      · simp only [hc, ↓reduceIte]
        cases lookupCache st.s.cache (c, u') with
        | some q => rfl
        | none =>
          simp only
          cases hn : newQuantity st.db st.s c u' with
          | mk s1 r => cases r <;> rfl

theorem obtainU_inv {st : XState} (h : XInv st) (u : Sym) : XInv (obtainU st u).1 := by
  unfold obtainU
  cases ha : lookupAlias st.alias u with
  | some q => exact h
  | none =>
    simp only
    cases hr : resolveDefault st.db u with
    | error e => exact h
    | ok cu =>
      obtain ⟨c, u'⟩ := cu
      simp only
      by_cases hc : c = 0
      · simp only [hc, ↓reduceIte]
        cases lookupAlias st.alias u' <;> exact h
      · simp only [hc, ↓reduceIte]
        cases hl : lookupCache st.s.cache (c, u') with
        | some q => exact h
        | none =>
          simp only
          have hv := newQuantity_val h.base.1 c u'
          cases hn : newQuantity st.db st.s c u' with
          | mk s1 r =>
            rw [hn] at hv
            simp only at hv
            cases r with
            | error e => exact ⟨miss_err_inv h.base hl hn, h.alias, h.dcache⟩
            | ok q =>
              refine ⟨miss_inv h.base hl hn, ?_, h.dcache⟩
              intro v q' hm
              simp only [List.mem_cons] at hm
              rcases hm with hm | hm
              · cases hm
                unfold obtainUPure
                rw [hr]
                simp only [hc, ↓reduceIte]
                exact hv.symm
              · exact h.alias v q' hm

theorem obtainDict_val {st : XState} (h : XInv st) (es : List Ent) :
    (obtainDict st es).2 = obtainDictPure st.db es := by
  unfold obtainDict obtainDictPure
  cases hsc : simpleCase es with
  | some cu =>
    obtain ⟨c, u⟩ := cu
    simp only
    have hv := obtain_val h.base c u
    cases ho : obtain st.db st.s c u with
    | mk s1 r =>
      rw [ho] at hv
      simp only at hv
      subst hv
      cases newQuantityPure st.db c u <;> rfl
  | none =>
    simp only
    cases hl : lookupD st.dcache es with
    | some q => simp only; exact (h.dcache _ _ (lookupD_some hl)).symm
    | none =>
      simp only
      cases newDerivedChecked st.db es <;> rfl

theorem obtainDict_db (st : XState) (es : List Ent) : (obtainDict st es).1.db = st.db := by
  unfold obtainDict
  cases simpleCase es with
  | some cu =>
    obtain ⟨c, u⟩ := cu
    simp only
    cases ho : obtain st.db st.s c u with
    | mk s1 r => cases r <;> rfl
  | none =>
    simp only
    cases lookupD st.dcache es with
    | some q => rfl
    | none =>
      simp only
      cases newDerivedChecked st.db es <;> rfl

theorem obtainDict_inv {st : XState} (h : XInv st) (es : List Ent) : XInv (obtainDict st es).1 := by
  unfold obtainDict
  cases hsc : simpleCase es with
  | some cu =>
    obtain ⟨c, u⟩ := cu
    simp only
    have hi := obtain_inv h.base c u
    cases ho : obtain st.db st.s c u with
    | mk s1 r =>
      rw [ho] at hi
      cases r <;> exact ⟨hi, h.alias, h.dcache⟩
  | none =>
    simp only
    cases hl : lookupD st.dcache es with
    | some q => exact h
    | none =>
      simp only
      cases hn : newDerivedChecked st.db es with
      | error e => exact h
      | ok q =>
        refine ⟨h.base, h.alias, ?_⟩
        intro k q' hm
        simp only [List.mem_cons] at hm
        rcases hm with hm | hm
        · cases hm; exact hn
        · exact h.dcache k q' hm

theorem createDerived_val {st : XState} (h : XInv st) (es : List Ent) :
    (createDerived st es).2 = createDerivedPure st.db es := by
  unfold createDerived createDerivedPure
  cases validateEntries st.db es with
  | error e => rfl
  | ok _ => exact obtainDict_val h es

theorem createDerived_db (st : XState) (es : List Ent) : (createDerived st es).1.db = st.db := by
  unfold createDerived
  cases validateEntries st.db es with
  | error e => rfl
  | ok _ => exact obtainDict_db st es

theorem createDerived_inv {st : XState} (h : XInv st) (es : List Ent) : XInv (createDerived st es).1 := by
  unfold createDerived
  cases validateEntries st.db es with
  | error e => exact h
  | ok _ => exact obtainDict_inv h es

/-- a registration never touches the legacy list -/
theorem applyReg_legacy {db db' : Db} {r : RegOp} (h : applyReg db r = .ok db') : db'.legacy = db.legacy := by
  cases r with
  | addCategory c qt ov =>
    simp only [applyReg] at h
    by_cases h1 : (!ov && (db.catByName c).isSome) = true
    · simp [h1] at h
    · simp only [h1, Bool.false_eq_true, ↓reduceIte] at h
      cases hb : baseUnit db qt with
      | error e => rw [hb] at h; cases h
      | ok base => rw [hb] at h; simp only at h; cases h; rfl
  | addUnit qt name u dc k =>
    simp only [applyReg] at h
    by_cases h1 : (db.unitBySym u).isSome = true
    · simp [h1] at h
    · simp only [h1, Bool.false_eq_true, ↓reduceIte] at h
      cases h; rfl

end Barril.Fail
