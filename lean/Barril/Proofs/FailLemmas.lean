/- Helper lemmas for C05 (model `Barril/Model/Fail.lean`). -/
import Barril.Model.Fail

namespace Barril.Fail
open Barril

/-- every memoised verdict is the verdict the database gives -/
def MemoInv (db : Db) (s : FState) : Prop :=
  ∀ k v, (k, v) ∈ s.memo → v = db.categoryUnitValid k.1 k.2

/-- every cached quantity is what a creation on a fresh session yields for that key -/
def CacheInv (db : Db) (s : FState) : Prop :=
  ∀ k q, (k, q) ∈ s.cache → (newQuantity db FState.empty k.1 k.2).2 = .ok q

def Inv (db : Db) (s : FState) : Prop := MemoInv db s ∧ CacheInv db s

theorem inv_empty (db : Db) : Inv db FState.empty :=
  ⟨fun _ _ h => by simp [FState.empty] at h, fun _ _ h => by simp [FState.empty] at h⟩

theorem lookupMemo_some {m : List ((Sym × Sym) × Bool)} {k : Sym × Sym} {v : Bool}
    (h : lookupMemo m k = some v) : (k, v) ∈ m := by
  unfold lookupMemo at h
  cases hf : m.find? (·.1 == k) with
  | none => rw [hf] at h; cases h
  | some e =>
    rw [hf] at h
    simp only [Option.map_some, Option.some.injEq] at h
    have hm := List.mem_of_find?_eq_some hf
    have hk := List.find?_some hf
    simp only [beq_iff_eq] at hk
    obtain ⟨e1, e2⟩ := e
    simp only at hk h
    subst hk; subst h; exact hm

theorem lookupCache_some {m : List ((Sym × Sym) × Simple)} {k : Sym × Sym} {q : Simple}
    (h : lookupCache m k = some q) : (k, q) ∈ m := by
  unfold lookupCache at h
  cases hf : m.find? (·.1 == k) with
  | none => rw [hf] at h; cases h
  | some e =>
    rw [hf] at h
    simp only [Option.map_some, Option.some.injEq] at h
    have hm := List.mem_of_find?_eq_some hf
    have hk := List.find?_some hf
    simp only [beq_iff_eq] at hk
    obtain ⟨e1, e2⟩ := e
    simp only at hk h
    subst hk; subst h; exact hm

/-- the memo is semantically invisible for `CheckCategoryUnit` -/
theorem check_val {db : Db} {s : FState} (h : MemoInv db s) (c u : Sym) :
    (checkCategoryUnit db s c u).2 = db.categoryUnitValid c u := by
  unfold checkCategoryUnit
  cases hl : lookupMemo s.memo (c, u) with
  | none => simp
  | some v => simpa using h _ _ (lookupMemo_some hl)

theorem check_memoInv {db : Db} {s : FState} (h : MemoInv db s) (c u : Sym) :
    MemoInv db (checkCategoryUnit db s c u).1 := by
  unfold checkCategoryUnit
  cases hl : lookupMemo s.memo (c, u) with
  | some v => simpa using h
  | none =>
    intro k v hm
    simp only [List.mem_cons] at hm
    rcases hm with hm | hm
    · cases hm; rfl
    · exact h k v hm

theorem check_cache (db : Db) (s : FState) (c u : Sym) :
    (checkCategoryUnit db s c u).1.cache = s.cache := by
  unfold checkCategoryUnit
  cases lookupMemo s.memo (c, u) <;> rfl

/-- the creation verdict as a pure function of the database -/
def newQuantityPure (db : Db) (c u : Sym) : Except ErrKind Simple :=
  match db.catByName c with
  | none => .error .units
  | some _ =>
    if db.categoryUnitValid c u then .ok ⟨c, u⟩
    else if isLegacy db.legacy u then
      if db.categoryUnitValid c (fixLegacy db.legacy u) then .ok ⟨c, fixLegacy db.legacy u⟩
      else .error .units
    else .error .units

theorem newQuantity_val {db : Db} {s : FState} (h : MemoInv db s) (c u : Sym) :
    (newQuantity db s c u).2 = newQuantityPure db c u := by
  unfold newQuantity newQuantityPure
  cases db.catByName c with
  | none => rfl
  | some ci =>
    simp only
    have h1 := check_val h c u
    have hm1 := check_memoInv h c u
    rw [show (checkCategoryUnit db s c u) = ((checkCategoryUnit db s c u).1, (checkCategoryUnit db s c u).2) from rfl]
    simp only [h1]
    by_cases hv : db.categoryUnitValid c u = true
    · simp [hv]
    · simp only [hv, Bool.false_eq_true, ↓reduceIte]
      by_cases hl : isLegacy db.legacy u = true
      · simp only [hl, ↓reduceIte]
        have h2 := check_val hm1 c (fixLegacy db.legacy u)
        rw [show (checkCategoryUnit db (checkCategoryUnit db s c u).1 c (fixLegacy db.legacy u))
              = ((checkCategoryUnit db (checkCategoryUnit db s c u).1 c (fixLegacy db.legacy u)).1,
                 (checkCategoryUnit db (checkCategoryUnit db s c u).1 c (fixLegacy db.legacy u)).2) from rfl]
        simp only [h2]
        by_cases hv2 : db.categoryUnitValid c (fixLegacy db.legacy u) = true <;> simp [hv2]
      · simp [hl]

theorem newQuantity_memoInv {db : Db} {s : FState} (h : MemoInv db s) (c u : Sym) :
    MemoInv db (newQuantity db s c u).1 := by
  unfold newQuantity
  cases db.catByName c with
  | none => exact h
  | some ci =>
    simp only
    have hm1 := check_memoInv h c u
    rw [show (checkCategoryUnit db s c u) = ((checkCategoryUnit db s c u).1, (checkCategoryUnit db s c u).2) from rfl]
    simp only
    split
    · exact hm1
    · split
      · have hm2 := check_memoInv hm1 c (fixLegacy db.legacy u)
        rw [show (checkCategoryUnit db (checkCategoryUnit db s c u).1 c (fixLegacy db.legacy u))
              = ((checkCategoryUnit db (checkCategoryUnit db s c u).1 c (fixLegacy db.legacy u)).1,
                 (checkCategoryUnit db (checkCategoryUnit db s c u).1 c (fixLegacy db.legacy u)).2) from rfl]
        simp only
        split <;> exact hm2
      · exact hm1

theorem newQuantity_cache (db : Db) (s : FState) (c u : Sym) :
    (newQuantity db s c u).1.cache = s.cache := by
  unfold newQuantity
  cases db.catByName c with
  | none => rfl
  | some ci =>
    simp only
    rw [show (checkCategoryUnit db s c u) = ((checkCategoryUnit db s c u).1, (checkCategoryUnit db s c u).2) from rfl]
    simp only
    split
    · exact check_cache ..
    · split
      · rw [show (checkCategoryUnit db (checkCategoryUnit db s c u).1 c (fixLegacy db.legacy u))
              = ((checkCategoryUnit db (checkCategoryUnit db s c u).1 c (fixLegacy db.legacy u)).1,
                 (checkCategoryUnit db (checkCategoryUnit db s c u).1 c (fixLegacy db.legacy u)).2) from rfl]
        simp only
        split <;> (rw [check_cache, check_cache])
      · exact check_cache ..

/-- `ObtainQuantity` answers like a creation on a fresh session: the cache is invisible -/
theorem obtain_val {db : Db} {s : FState} (h : Inv db s) (c u : Sym) :
    (obtain db s c u).2 = newQuantityPure db c u := by
  unfold obtain
  cases hl : lookupCache s.cache (c, u) with
  | some q =>
    have := h.2 _ _ (lookupCache_some hl)
    rw [newQuantity_val (inv_empty db).1] at this
    simpa using this.symm
  | none =>
    simp only
    have hv := newQuantity_val h.1 c u
    cases hn : newQuantity db s c u with
    | mk s1 r =>
      rw [hn] at hv
      simp only at hv
      cases r with
      | ok q => simpa using hv
      | error e => simpa using hv

theorem obtain_inv {db : Db} {s : FState} (h : Inv db s) (c u : Sym) :
    Inv db (obtain db s c u).1 := by
  unfold obtain
  cases hl : lookupCache s.cache (c, u) with
  | some q => exact h
  | none =>
    simp only
    have hv := newQuantity_val h.1 c u
    have hm := newQuantity_memoInv h.1 c u
    have hc := newQuantity_cache db s c u
    cases hn : newQuantity db s c u with
    | mk s1 r =>
      rw [hn] at hv hm hc
      simp only at hv hm hc
      cases r with
      | error e => exact ⟨hm, by intro k q hk; rw [hc] at hk; exact h.2 k q hk⟩
      | ok q =>
        refine ⟨hm, ?_⟩
        intro k q' hk
        simp only [List.mem_cons] at hk
        rcases hk with hk | hk
        · cases hk
          rw [newQuantity_val (inv_empty db).1]; exact hv.symm
        · rw [hc] at hk; exact h.2 k q' hk

end Barril.Fail
