/-
The digit handling of `CreateFromFloat` (`str(value)`, `GetFractionalPart`, `GetMaxNumerator`) on
decimals in the range where `repr` uses fixed notation.
-/
import Barril.Proofs.FracCF
import Barril.Proofs.FracText
import Mathlib.Data.Rat.Lemmas

namespace Barril.Frac

/-! ### `decShift`, `stripAll`, digit counts -/

theorem decShift_sound : ∀ (fuel : Nat) (q : Rat) (j0 j : Nat) (n : Int),
    decShift fuel q j0 = some (j, n) → j0 ≤ j ∧ q * 10 ^ (j - j0) = (n : Rat) := by
  intro fuel
  induction fuel with
  | zero =>
    intro q j0 j n h
    unfold decShift at h
    split at h
    · rename_i hden
      cases h
      refine ⟨le_refl _, ?_⟩
      simp only [Nat.sub_self, pow_zero, mul_one]
      exact (Rat.den_eq_one_iff q).mp hden |>.symm
    · cases h
  | succ f ih =>
    intro q j0 j n h
    unfold decShift at h
    split at h
    · rename_i hden
      cases h
      refine ⟨le_refl _, ?_⟩
      simp only [Nat.sub_self, pow_zero, mul_one]
      exact (Rat.den_eq_one_iff q).mp hden |>.symm
    · obtain ⟨h1, h2⟩ := ih (q * 10) (j0 + 1) j n h
      refine ⟨by omega, ?_⟩
      have : j - j0 = (j - (j0 + 1)) + 1 := by omega
      rw [this, pow_succ, ← h2]; ring

theorem decShift_complete : ∀ (k fuel : Nat) (q : Rat) (j0 : Nat), k ≤ fuel → (q * 10 ^ k).den = 1 →
    ∃ j n, decShift fuel q j0 = some (j, n) := by
  intro k
  induction k with
  | zero =>
    intro fuel q j0 _ h
    simp only [pow_zero, mul_one] at h
    cases fuel with
    | zero => exact ⟨j0, q.num, by simp [decShift, h]⟩
    | succ f => exact ⟨j0, q.num, by simp [decShift, h]⟩
  | succ k ih =>
    intro fuel q j0 hf h
    cases fuel with
    | zero => omega
    | succ f =>
      unfold decShift
      by_cases hd : q.den = 1
      · exact ⟨j0, q.num, by simp [hd]⟩
      · rw [if_neg hd]
        apply ih f (q * 10) (j0 + 1) (by omega)
        have : q * 10 * 10 ^ k = q * 10 ^ (k + 1) := by rw [pow_succ]; ring
        rw [this]; exact h

theorem stripAll_spec : ∀ (fuel n z : Nat),
    z ≤ (stripAll fuel n z).2 ∧ (stripAll fuel n z).1 * 10 ^ ((stripAll fuel n z).2 - z) = n
      ∧ (n ≠ 0 → (stripAll fuel n z).1 ≠ 0) := by
  intro fuel
  induction fuel with
  | zero => intro n z; simp [stripAll]
  | succ f ih =>
    intro n z
    unfold stripAll
    by_cases h : n ≠ 0 ∧ n % 10 = 0
    · rw [if_pos h]
      obtain ⟨h1, h2, h3⟩ := ih (n / 10) (z + 1)
      refine ⟨by omega, ?_, ?_⟩
      · have e : (stripAll f (n / 10) (z + 1)).2 - z = ((stripAll f (n / 10) (z + 1)).2 - (z + 1)) + 1 := by omega
        rw [e, pow_succ, ← mul_assoc, h2]
        omega
      · intro _
        apply h3
        omega
    · rw [if_neg h]
      simp

theorem natDigitsF_bounds : ∀ (fuel n : Nat), n < fuel →
    n < 10 ^ (natDigitsF fuel n).length ∧ (1 ≤ n → 10 ^ ((natDigitsF fuel n).length - 1) ≤ n) := by
  intro fuel
  induction fuel with
  | zero => intro n h; omega
  | succ f ih =>
    intro n h
    unfold natDigitsF
    by_cases h10 : n < 10
    · rw [if_pos h10]
      simp only [List.length_singleton, pow_one, Nat.sub_self, pow_zero]
      exact ⟨h10, fun h => h⟩
    · rw [if_neg h10]
      obtain ⟨h1, h2⟩ := ih (n / 10) (by omega)
      have hn1 : 1 ≤ n / 10 := by omega
      have h2' := h2 hn1
      have hlen : 1 ≤ (natDigitsF f (n / 10)).length := by
        by_contra hc
        have : (natDigitsF f (n / 10)).length = 0 := by omega
        rw [this] at h1; simp at h1; omega
      simp only [List.length_append, List.length_singleton, Nat.add_sub_cancel]
      constructor
      · rw [pow_succ]; omega
      · intro _
        obtain ⟨m, hm⟩ : ∃ m, (natDigitsF f (n / 10)).length = m + 1 := ⟨_, (Nat.sub_add_cancel hlen).symm⟩
        rw [hm] at h2' ⊢
        simp only [Nat.add_sub_cancel] at h2'
        rw [pow_succ]; omega

theorem natDigits_bounds (n : Nat) (hn : 1 ≤ n) :
    n < 10 ^ (natDigits n).length ∧ 10 ^ ((natDigits n).length - 1) ≤ n :=
  ⟨(natDigitsF_bounds (n + 1) n (by omega)).1, (natDigitsF_bounds (n + 1) n (by omega)).2 hn⟩

/-- what `decParts` returns for a positive number: digits `D`, their count `nd` and the position
of the decimal point, with `q · 10^j = D · 10^z` and `decpt = nd + z - j` -/
theorem decParts_spec {q : Rat} (hq : 0 < q) {dp : DecParts} (h : decParts q = some dp) :
    ∃ j z : Nat, q * 10 ^ j = (dp.digits : Rat) * 10 ^ z ∧ dp.decpt = (dp.nd : Int) + z - j
      ∧ 1 ≤ dp.digits ∧ dp.digits < 10 ^ dp.nd ∧ 10 ^ (dp.nd - 1) ≤ dp.digits := by
  unfold decParts at h
  cases hs : decShift 400 q 0 with
  | none => rw [hs] at h; cases h
  | some jn =>
    obtain ⟨j, n⟩ := jn
    rw [hs] at h
    simp only [Option.some.injEq] at h
    obtain ⟨-, hqn⟩ := decShift_sound 400 q 0 j n hs
    simp only [Nat.sub_zero] at hqn
    have hnpos : 0 < n := by
      have : (0 : Rat) < (n : Rat) := by rw [← hqn]; positivity
      exact_mod_cast this
    obtain ⟨-, hst, hne⟩ := stripAll_spec 400 n.toNat 0
    simp only [Nat.sub_zero] at hst
    have hD1 : 1 ≤ (stripAll 400 n.toNat 0).1 := by
      have := hne (by omega)
      omega
    obtain ⟨hb1, hb2⟩ := natDigits_bounds _ hD1
    subst h
    refine ⟨j, (stripAll 400 n.toNat 0).2, ?_, by simp, hD1, hb1, hb2⟩
    rw [hqn]
    have : (n : Rat) = ((n.toNat : Nat) : Rat) := by
      have : n = (n.toNat : Int) := by omega
      conv_lhs => rw [this]
      rw [Int.cast_natCast]
    rw [this]
    exact_mod_cast hst.symm

theorem decParts_exists {q : Rat} {k : Nat} (hk : k ≤ 400) (h : (q * 10 ^ k).den = 1) :
    ∃ dp, decParts q = some dp := by
  obtain ⟨j, n, hs⟩ := decShift_complete k 400 q 0 hk h
  unfold decParts
  rw [hs]
  exact ⟨_, rfl⟩

/-! ### magnitude and the position of the decimal point -/

theorem pow10_mono {a b : Nat} (h : a ≤ b) : (10 : Rat) ^ a ≤ 10 ^ b :=
  pow_le_pow_right₀ (by norm_num) h

/-- in `[1e-4, 1e16)` `repr` does not use exponent notation, and a non-integer has digits after
the point: `GetFractionalPart` returns `v - floor v` -/
theorem getFractionalPart_fixed {v : Rat} (hlo : 1 / 10 ^ 4 ≤ v) (hhi : v < 10 ^ 16) (hni : v.den ≠ 1)
    {dp : DecParts} (h : decParts v = some dp) : getFractionalPart v dp = v - (⌊v⌋ : Rat) := by
  have hv : 0 < v := lt_of_lt_of_le (by norm_num) hlo
  obtain ⟨j, z, hjz, hdec, hD1, hDlt, hDge⟩ := decParts_spec hv h
  have hnd : 1 ≤ dp.nd := by
    by_contra hc
    have : dp.nd = 0 := by omega
    rw [this] at hDlt; simp at hDlt; omega
  have hDltR : (dp.digits : Rat) < 10 ^ dp.nd := by exact_mod_cast hDlt
  have hDgeR : (10 : Rat) ^ (dp.nd - 1) ≤ (dp.digits : Rat) := by exact_mod_cast hDge
  have hpj : (0 : Rat) < 10 ^ j := by positivity
  have hpz : (0 : Rat) < 10 ^ z := by positivity
  -- no exponent notation
  have h1 : ¬ (dp.decpt ≤ -4) := by
    intro hc
    have hle : dp.nd + z + 4 ≤ j := by omega
    have e1 : (10 : Rat) ^ j ≤ 10 ^ 4 * (v * 10 ^ j) := by
      have : (1 : Rat) ≤ 10 ^ 4 * v := by
        have := mul_le_mul_of_nonneg_left hlo (by positivity : (0 : Rat) ≤ 10 ^ 4)
        simpa using this
      nlinarith
    have e2 : v * 10 ^ j < 10 ^ (dp.nd + z) := by
      rw [hjz, pow_add]; exact mul_lt_mul_of_pos_right hDltR hpz
    have e3 : (10 : Rat) ^ 4 * 10 ^ (dp.nd + z) ≤ 10 ^ j := by
      rw [← pow_add]; exact pow10_mono (by omega)
    nlinarith
  have h2 : ¬ (16 < dp.decpt) := by
    intro hc
    have hle : j + 16 ≤ dp.nd - 1 + z := by omega
    have e1 : v * 10 ^ j < 10 ^ (j + 16) := by
      rw [pow_add, mul_comm ((10 : Rat) ^ j)]; exact mul_lt_mul_of_pos_right hhi hpj
    have e2 : (10 : Rat) ^ (dp.nd - 1 + z) ≤ v * 10 ^ j := by
      rw [hjz, pow_add]; exact mul_le_mul_of_nonneg_right hDgeR (le_of_lt hpz)
    have e3 := pow10_mono hle
    linarith
  have h3 : ¬ ((dp.nd : Int) ≤ dp.decpt) := by
    intro hc
    have hle : j ≤ z := by omega
    apply hni
    have : v = ((dp.digits * 10 ^ (z - j) : Nat) : Rat) := by
      have hz : z = (z - j) + j := by omega
      have e : v * 10 ^ j = (dp.digits : Rat) * 10 ^ (z - j) * 10 ^ j := by
        rw [hjz]; conv_lhs => rw [hz]
        rw [pow_add]; ring
      have := mul_right_cancel₀ (ne_of_gt hpj) e
      rw [this]; push_cast; rfl
    rw [this]; exact Rat.den_natCast _
  unfold getFractionalPart DecParts.useExp
  simp [h1, h2, h3, floor_eq]

/-- the numerator of a positive rational whose `10^m`-fold is the natural number `a` is at most `a` -/
theorem num_le_of_mul_pow {q : Rat} (hq : 0 < q) {a m : Nat} (h : q * 10 ^ m = (a : Rat)) : q.num ≤ (a : Int) := by
  have hp : (10 : Rat) ^ m ≠ 0 := by positivity
  have hq' : q = Rat.divInt (a : Int) ((10 ^ m : Nat) : Int) := by
    rw [Rat.divInt_eq_div]
    push_cast
    rw [eq_div_iff hp]; exact h
  have hdvd : q.num ∣ (a : Int) := by
    rw [hq']
    exact Rat.num_dvd _ (by have : (10 : Nat) ^ m ≠ 0 := by positivity
                            exact_mod_cast this)
  have ha : 0 < (a : Int) := by
    have : (0 : Rat) < (a : Rat) := by rw [← h]; positivity
    exact_mod_cast this
  exact Int.le_of_dvd ha hdvd

theorem findNumerator_nonpos (past : Int) (hp : past ≤ 0) (x dv : Rat) : findNumerator 400 past x dv = x := by
  unfold findNumerator
  have : ¬ (0 < past ∧ pyMod x dv = 0) := by intro h; omega
  rw [if_neg this]

/-- for a fractional part `0 < t < 1` the numerator bound is the digit string read as a number, and
the numerator of `t` does not exceed it -/
theorem getMaxNumerator_ge {t : Rat} (h0 : 0 < t) (h1 : t < 1) {fdp : DecParts} (h : decParts t = some fdp) :
    t.num ≤ getMaxNumerator fdp := by
  obtain ⟨j, z, hjz, hdec, hD1, hDlt, hDge⟩ := decParts_spec h0 h
  have hpj : (0 : Rat) < 10 ^ j := by positivity
  have hpz : (0 : Rat) < 10 ^ z := by positivity
  have hDgeR : (10 : Rat) ^ (fdp.nd - 1) ≤ (fdp.digits : Rat) := by exact_mod_cast hDge
  have hnd : 1 ≤ fdp.nd := by
    by_contra hc
    have : fdp.nd = 0 := by omega
    rw [this] at hDlt; simp at hDlt; omega
  -- t < 1 puts the decimal point at or before the first digit
  have hjgt : fdp.nd - 1 + z < j := by
    by_contra hc
    have hle : j ≤ fdp.nd - 1 + z := by omega
    have e1 : t * 10 ^ j < 10 ^ j := by nlinarith
    have e2 : (10 : Rat) ^ (fdp.nd - 1 + z) ≤ t * 10 ^ j := by
      rw [hjz, pow_add]; exact mul_le_mul_of_nonneg_right hDgeR (le_of_lt hpz)
    have e3 := pow10_mono hle
    linarith
  have hdec0 : fdp.decpt ≤ 0 := by omega
  have hzj : z < j := by omega
  -- the numerator divides the digit string read as a number
  have hnum : t.num ≤ (fdp.digits : Int) := by
    apply num_le_of_mul_pow h0 (m := j - z)
    have hj : j = (j - z) + z := by omega
    have e : t * 10 ^ (j - z) * 10 ^ z = (fdp.digits : Rat) * 10 ^ z := by
      rw [← hjz]; conv_rhs => rw [hj]
      rw [pow_add]; ring
    exact mul_right_cancel₀ (ne_of_gt hpz) e
  -- and the bound is that number
  have hmax : getMaxNumerator fdp = (fdp.digits : Int) := by
    unfold getMaxNumerator
    have hpos : ¬ (0 < fdp.decpt) := by omega
    simp only [hpos, decide_false, Bool.and_false, Bool.false_and, Bool.false_eq_true, if_false]
    have hpast : ((if fdp.useExp = true then fdp.nd
        else if fdp.decpt ≤ 0 then 1 + (-fdp.decpt).toNat + fdp.nd
        else if (fdp.nd : Int) ≤ fdp.decpt then fdp.decpt.toNat + 1 else fdp.nd : Nat) : Int)
          - (fdp.reprLen : Int) ≤ 0 := by
      unfold DecParts.reprLen
      by_cases hu : fdp.useExp = true
      · simp only [hu, if_true]
        split <;> omega
      · simp only [hu, Bool.false_eq_true, if_false, hdec0, if_true]
        omega
    rw [findNumerator_nonpos _ hpast, findNumerator_nonpos _ hpast]
    have : ((fdp.digits : Nat) : Rat) = ((fdp.digits : Int) : Rat) := by simp
    rw [this, Rat.floor_intCast]
  rw [hmax]; exact hnum

/-- **`CreateFromFloat(d)` denotes `d`** for every decimal `d` (up to 100 decimal places) with
`1e-4 ≤ |d| < 1e16` -/
theorem createFromFloat_decimal (d : Rat) (k : Nat) (hk : k ≤ 100) (hd : (d * 10 ^ k).den = 1)
    (hlo : 1 / 10 ^ 4 ≤ |d|) (hhi : |d| < 10 ^ 16) : ∃ v, createFromFloat d = .ok v ∧ v.value = d := by
  by_cases hint : d.den = 1
  · exact ⟨_, createFromFloat_of_int hint, by simp [FV.value, Frac.toFloat]⟩
  · have habsden : |d|.den = d.den := by
      rcases abs_choice d with h' | h' <;> rw [h']
      simp
    have hni : |d|.den ≠ 1 := by rw [habsden]; exact hint
    have habs : (|d| * 10 ^ k).den = 1 := by
      rcases abs_choice d with h' | h' <;> rw [h']
      · exact hd
      · have : -d * 10 ^ k = -(d * 10 ^ k) := by ring
        rw [this]; simpa using hd
    obtain ⟨dp, h1⟩ := decParts_exists (q := |d|) (k := k) (by omega) habs
    have h2 := getFractionalPart_fixed hlo hhi hni h1
    have ht0 : 0 < |d| - (⌊|d|⌋ : Rat) := by
      have hle := Int.floor_le |d|
      rcases lt_or_eq_of_le hle with h | h
      · linarith
      · exfalso; apply hni; rw [← h]; simp
    have ht1 : |d| - (⌊|d|⌋ : Rat) < 1 := by
      have := Int.lt_floor_add_one |d|; linarith
    -- the fractional part is a decimal with the same number of places
    obtain ⟨N, hN⟩ : ∃ N : Int, |d| * 10 ^ k = (N : Rat) :=
      ⟨(|d| * 10 ^ k).num, ((Rat.den_eq_one_iff _).mp habs).symm⟩
    have htk : (|d| - (⌊|d|⌋ : Rat)) * 10 ^ k = ((N - ⌊|d|⌋ * 10 ^ k : Int) : Rat) := by
      rw [sub_mul, hN]; push_cast; ring
    have htden : ((|d| - (⌊|d|⌋ : Rat)) * 10 ^ k).den = 1 := by rw [htk]; exact Rat.den_intCast _
    obtain ⟨fdp, h3⟩ := decParts_exists (q := |d| - (⌊|d|⌋ : Rat)) (k := k) (by omega) htden
    have h4 := getMaxNumerator_ge ht0 ht1 h3
    have h5 : (|d| - (⌊|d|⌋ : Rat)).num < 2 ^ 498 := by
      set M := N - ⌊|d|⌋ * 10 ^ k with hM
      have hp : (0 : Rat) < 10 ^ k := by positivity
      have hMpos : 0 < M := by
        have : (0 : Rat) < (M : Rat) := by rw [← htk]; positivity
        exact_mod_cast this
      have hMlt : M < 10 ^ k := by
        have : (M : Rat) < 10 ^ k := by rw [← htk]; nlinarith
        exact_mod_cast this
      have hcast : (|d| - (⌊|d|⌋ : Rat)) * 10 ^ k = ((M.toNat : Nat) : Rat) := by
        rw [htk]
        have : M = (M.toNat : Int) := by omega
        conv_lhs => rw [this]
        rw [Int.cast_natCast]
      have hle := num_le_of_mul_pow ht0 hcast
      have h100 : (10 : Int) ^ k ≤ 10 ^ 100 := pow_le_pow_right₀ (by norm_num) hk
      have hbig : (10 : Int) ^ 100 < 2 ^ 498 := by decide +kernel
      omega
    exact createFromFloat_of_parts hint h1 h2 h3 h4 h5

end Barril.Frac
