import Barril.Model.CompoundIndex
import Barril.Proofs.CompoundLemmas
import Mathlib.Data.List.Nodup
import Mathlib.Data.List.Range

namespace Barril

theorem Nat.blt_false_false {a b : Nat} (h1 : Nat.blt a b = false) (h2 : Nat.blt b a = false) : a = b := by
  have h1' : ¬ a < b := by
    intro h; have := Nat.blt_eq.mpr h; rw [this] at h1; cases h1
  have h2' : ¬ b < a := by
    intro h; have := Nat.blt_eq.mpr h; rw [this] at h2; cases h2
  omega

/-- whatever the tree lookup returns is stored in the tree under the symbol asked for
(no ordering invariant is needed for this direction) -/
theorem CTree.find_some {t : CTree} {x : Sym} {c : CRow} (h : t.find x = some c) : c ∈ t.toList ∧ c.sym = x := by
  induction t with
  | leaf => simp [CTree.find] at h
  | node l d r ihl ihr =>
    unfold CTree.find at h
    split at h
    · obtain ⟨hm, hs⟩ := ihl h
      exact ⟨by simp [CTree.toList, hm], hs⟩
    · rename_i h1
      split at h
      · obtain ⟨hm, hs⟩ := ihr h
        exact ⟨by simp [CTree.toList, hm], hs⟩
      · rename_i h2
        cases h
        exact ⟨by simp [CTree.toList], (Nat.blt_false_false h1 h2).symm⟩

/-- **the index is the table**: if every row of the table is found in the tree and every row stored in the
tree is found in the table, the two lookups agree on every symbol, registered or not -/
theorem tree_find_eq_lookL {t : CTree} {tbl : List CRow}
    (hA : tbl.all (fun c => t.find c.sym == some c) = true)
    (hB : t.toList.all (fun c => lookL c.sym tbl == some c) = true) (x : Sym) :
    t.find x = lookL x tbl := by
  cases hl : lookL x tbl with
  | some c =>
    obtain ⟨hm, hs⟩ := lookL_some hl
    have := List.all_eq_true.mp hA c hm
    rw [← hs]
    simpa using this
  | none =>
    cases hf : t.find x with
    | none => rfl
    | some c =>
      obtain ⟨hm, hs⟩ := CTree.find_some hf
      have := List.all_eq_true.mp hB c hm
      have h2 : lookL c.sym tbl = some c := by simpa using this
      rw [hs, hl] at h2
      cases h2

theorem lookB_some {q : Sym} {bs : List (Sym × CRow)} {b : CRow} (h : lookB q bs = some b) : (q, b) ∈ bs := by
  induction bs with
  | nil => simp [lookB] at h
  | cons p ps ih =>
    unfold lookB at h
    split at h
    · rename_i hb
      cases h
      have : q = p.1 := Nat.beq_true_iff.mp hb
      rw [this]
      exact List.mem_cons_self
    · exact List.mem_cons_of_mem _ (ih h)

/-- the base index answers like the table for every quantity type that occurs in the table -/
theorem lookB_eq_baseL {bs : List (Sym × CRow)} {tbl : List CRow}
    (hC : bs.all (fun p => baseL p.1 tbl == some p.2) = true) {q : Sym} (hq : (lookB q bs).isSome = true) :
    lookB q bs = baseL q tbl := by
  cases hl : lookB q bs with
  | none => rw [hl] at hq; cases hq
  | some b =>
    have := List.all_eq_true.mp hC (q, b) (lookB_some hl)
    have h2 : baseL q tbl = some b := by simpa using this
    exact h2.symm

/-- the row predicate reads `look` as a function and `base` only at the row's own quantity type -/
theorem compoundOk_congr {look look' base base' : Sym → Option CRow} (c : CRow)
    (hl : ∀ x, look x = look' x) (hb : base c.qtype = base' c.qtype) :
    compoundOk look base c = compoundOk look' base' c := by
  have : look = look' := funext hl
  subst this
  unfold compoundOk baseFactor
  rw [hb]

/-- the table theorem through the index gives the table theorem through the lists -/
theorem compoundOkOrKnown_of_index {t : CTree} {bs : List (Sym × CRow)} {tbl : List CRow} {known : List Sym}
    (hA : tbl.all (fun c => t.find c.sym == some c) = true)
    (hB : t.toList.all (fun c => lookL c.sym tbl == some c) = true)
    (hC : bs.all (fun p => baseL p.1 tbl == some p.2) = true)
    (hD : tbl.all (fun c => (lookB c.qtype bs).isSome) = true)
    (hT : tbl.all (compoundOkOrKnownT t bs known) = true) :
    tbl.all (compoundOkOrKnown tbl known) = true := by
  apply List.all_eq_true.mpr
  intro c hc
  have h := List.all_eq_true.mp hT c hc
  have hq := List.all_eq_true.mp hD c hc
  unfold compoundOkOrKnownT at h
  unfold compoundOkOrKnown
  rw [← compoundOk_congr (look := t.find) (base := fun q => lookB q bs) c
    (fun x => tree_find_eq_lookL hA hB x) (lookB_eq_baseL hC hq)]
  exact h

end Barril

namespace Barril

/-- if the index finds every row of the table under its own symbol and the rows carry their positions, then no
symbol is listed twice -/
theorem syms_nodup_of_index {t : CTree} {tbl : List CRow}
    (hA : tbl.all (fun c => t.find c.sym == some c) = true)
    (hP : tbl.map CRow.pos = List.range tbl.length) : (tbl.map (·.sym)).Nodup := by
  have hnd : tbl.Nodup := by
    have : (tbl.map CRow.pos).Nodup := by rw [hP]; exact List.nodup_range
    exact List.Nodup.of_map _ this
  refine List.Nodup.map_on ?_ hnd
  intro c1 h1 c2 h2 hs
  have e1 := List.all_eq_true.mp hA c1 h1
  have e2 := List.all_eq_true.mp hA c2 h2
  simp only [beq_iff_eq] at e1 e2
  rw [hs, e2] at e1
  exact (Option.some.inj e1).symm

/-- in a list without repeated keys, looking a member's key up finds that member -/
theorem find?_of_nodup_key {α : Type} (f : α → Nat) :
    ∀ {l : List α}, (l.map f).Nodup → ∀ {w : α}, w ∈ l → l.find? (fun x => f x == f w) = some w := by
  intro l
  induction l with
  | nil => intro _ w hw; cases hw
  | cons a as ih =>
    intro hnd w hw
    simp only [List.map_cons, List.nodup_cons] at hnd
    rcases List.mem_cons.mp hw with rfl | hw'
    · simp
    · have hne : f a ≠ f w := by
        intro e
        exact hnd.1 (e ▸ List.mem_map.mpr ⟨w, hw', rfl⟩)
      have hb : (f a == f w) = false := by simpa using hne
      simp only [List.find?_cons, hb]
      exact ih hnd.2 hw'

end Barril
