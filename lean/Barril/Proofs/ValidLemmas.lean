/-
Helper lemmas for C12: the order on IEEE values, the NaN-skipping min/max scan, the shape of the
conversion to the default unit, convexity of the limit check.
-/
import Barril.Model.Valid
import Barril.Proofs.ConvLemmas

namespace Barril.Valid
open Barril

/-! ### the order on non-NaN values -/

namespace Val

theorem le_refl' {a : Val} (ha : a.isNan = false) : le a a = true := by
  cases a <;> simp_all [le, isNan]

theorem le_trans' {a b c : Val} (h1 : le a b = true) (h2 : le b c = true) : le a c = true := by
  cases a <;> cases b <;> cases c <;> simp_all [le]
  exact _root_.le_trans h1 h2

theorem le_total' {a b : Val} (ha : a.isNan = false) (hb : b.isNan = false) :
    le a b = true ∨ le b a = true := by
  cases a <;> cases b <;> simp_all [le, isNan]
  exact _root_.le_total _ _

theorem le_antisymm' {a b : Val} (h1 : le a b = true) (h2 : le b a = true) : a = b := by
  cases a <;> cases b <;> simp_all [le]
  exact _root_.le_antisymm h1 h2

theorem not_nan_of_le_left {a b : Val} (h : le a b = true) : a.isNan = false := by
  cases a <;> cases b <;> simp_all [le, isNan]

theorem not_nan_of_le_right {a b : Val} (h : le a b = true) : b.isNan = false := by
  cases a <;> cases b <;> simp_all [le, isNan]

theorem le_of_lt {a b : Val} (h : lt a b = true) : le a b = true := by
  cases a <;> cases b <;> simp_all [lt, le]
  exact _root_.le_of_lt h

/-- on non-NaN values `¬ a < b` is `b ≤ a` -/
theorem le_of_not_lt {a b : Val} (ha : a.isNan = false) (hb : b.isNan = false)
    (h : lt a b = false) : le b a = true := by
  cases a <;> cases b <;> simp_all [lt, le, isNan]

theorem lt_of_lt_of_le {a b c : Val} (h1 : lt a b = true) (h2 : le b c = true) : lt a c = true := by
  cases a <;> cases b <;> cases c <;> simp_all [lt, le]
  exact _root_.lt_of_lt_of_le h1 h2

theorem lt_of_le_of_lt {a b c : Val} (h1 : le a b = true) (h2 : lt b c = true) : lt a c = true := by
  cases a <;> cases b <;> cases c <;> simp_all [lt, le]
  exact _root_.lt_of_le_of_lt h1 h2

theorem fin_le_fin {x y : Rat} : le (fin x) (fin y) = true ↔ x ≤ y := by simp [le]

theorem fin_lt_fin {x y : Rat} : lt (fin x) (fin y) = true ↔ x < y := by simp [lt]

/-- a value between two finite values is finite -/
theorem fin_of_between {a b : Rat} {v : Val} (h1 : le (fin a) v = true) (h2 : le v (fin b) = true) :
    ∃ x, v = fin x := by
  cases v <;> simp_all [le]

end Val

/-! ### the scan -/

theorem scanRest_spec (vs : List Val) : ∀ (mn mx : Val), mn.isNan = false → mx.isNan = false →
    Val.le mn mx = true →
    (scanRest mn mx vs).1.isNan = false ∧ (scanRest mn mx vs).2.isNan = false
    ∧ Val.le (scanRest mn mx vs).1 (scanRest mn mx vs).2 = true
    ∧ Val.le (scanRest mn mx vs).1 mn = true ∧ Val.le mx (scanRest mn mx vs).2 = true
    ∧ (∀ v ∈ vs, v.isNan = false →
        Val.le (scanRest mn mx vs).1 v = true ∧ Val.le v (scanRest mn mx vs).2 = true)
    ∧ ((scanRest mn mx vs).1 = mn ∨ (scanRest mn mx vs).1 ∈ vs)
    ∧ ((scanRest mn mx vs).2 = mx ∨ (scanRest mn mx vs).2 ∈ vs) := by
  induction vs with
  | nil =>
    intro mn mx hmn hmx hle
    simp [scanRest, hmn, hmx, hle, Val.le_refl' hmn, Val.le_refl' hmx]
  | cons v vs ih =>
    intro mn mx hmn hmx hle
    unfold scanRest
    cases hv : v.isNan with
    | true =>
      simp only [↓reduceIte]
      obtain ⟨a, b, c, d, e, f, g, h⟩ := ih mn mx hmn hmx hle
      refine ⟨a, b, c, d, e, ?_, ?_, ?_⟩
      · intro w hw hwn
        rcases List.mem_cons.mp hw with rfl | hw
        · rw [hv] at hwn; cases hwn
        · exact f w hw hwn
      · rcases g with g | g
        · exact Or.inl g
        · exact Or.inr (List.mem_cons_of_mem _ g)
      · rcases h with h | h
        · exact Or.inl h
        · exact Or.inr (List.mem_cons_of_mem _ h)
    | false =>
      simp only [Bool.false_eq_true, ↓reduceIte]
      cases hlt : Val.lt v mn with
      | true =>
        simp only [↓reduceIte]
        have hvm : Val.le v mn = true := Val.le_of_lt hlt
        have hvx : Val.le v mx = true := Val.le_trans' hvm hle
        obtain ⟨a, b, c, d, e, f, g, h⟩ := ih v mx hv hmx hvx
        refine ⟨a, b, c, Val.le_trans' d hvm, e, ?_, ?_, ?_⟩
        · intro w hw hwn
          rcases List.mem_cons.mp hw with rfl | hw
          · exact ⟨d, Val.le_trans' hvx e⟩
          · exact f w hw hwn
        · rcases g with g | g
          · exact Or.inr (by rw [g]; exact List.mem_cons_self)
          · exact Or.inr (List.mem_cons_of_mem _ g)
        · rcases h with h | h
          · exact Or.inl h
          · exact Or.inr (List.mem_cons_of_mem _ h)
      | false =>
        simp only [Bool.false_eq_true, ↓reduceIte]
        have hmv : Val.le mn v = true := Val.le_of_not_lt hv hmn hlt
        cases hgt : Val.gt v mx with
        | true =>
          simp only [↓reduceIte]
          have hxv : Val.le mx v = true := Val.le_of_lt (by simpa [Val.gt] using hgt)
          obtain ⟨a, b, c, d, e, f, g, h⟩ := ih mn v hmn hv hmv
          refine ⟨a, b, c, d, Val.le_trans' hxv e, ?_, ?_, ?_⟩
          · intro w hw hwn
            rcases List.mem_cons.mp hw with rfl | hw
            · exact ⟨Val.le_trans' d hmv, e⟩
            · exact f w hw hwn
          · rcases g with g | g
            · exact Or.inl g
            · exact Or.inr (List.mem_cons_of_mem _ g)
          · rcases h with h | h
            · exact Or.inr (by rw [h]; exact List.mem_cons_self)
            · exact Or.inr (List.mem_cons_of_mem _ h)
        | false =>
          simp only [Bool.false_eq_true, ↓reduceIte]
          have hvx : Val.le v mx = true :=
            Val.le_of_not_lt hmx hv (by simpa [Val.gt] using hgt)
          obtain ⟨a, b, c, d, e, f, g, h⟩ := ih mn mx hmn hmx hle
          refine ⟨a, b, c, d, e, ?_, ?_, ?_⟩
          · intro w hw hwn
            rcases List.mem_cons.mp hw with rfl | hw
            · exact ⟨Val.le_trans' d hmv, Val.le_trans' hvx e⟩
            · exact f w hw hwn
          · rcases g with g | g
            · exact Or.inl g
            · exact Or.inr (List.mem_cons_of_mem _ g)
          · rcases h with h | h
            · exact Or.inl h
            · exact Or.inr (List.mem_cons_of_mem _ h)

/-- what a successful scan returns -/
structure IsMinMax (vs : List Val) (mn mx : Val) : Prop where
  mn_mem : mn ∈ vs
  mx_mem : mx ∈ vs
  mn_num : mn.isNan = false
  mx_num : mx.isNan = false
  bounds : ∀ v ∈ vs, v.isNan = false → Val.le mn v = true ∧ Val.le v mx = true

theorem scan_none_iff (vs : List Val) : scan vs = none ↔ ∀ v ∈ vs, v.isNan = true := by
  induction vs with
  | nil => simp [scan]
  | cons v vs ih =>
    unfold scan
    cases hv : v.isNan with
    | true => simp only [↓reduceIte, ih, List.mem_cons, forall_eq_or_imp, hv, true_and]
    | false => simp [hv]

theorem scan_some_spec {vs : List Val} {mn mx : Val} (h : scan vs = some (mn, mx)) :
    IsMinMax vs mn mx := by
  induction vs with
  | nil => simp [scan] at h
  | cons v vs ih =>
    unfold scan at h
    cases hv : v.isNan with
    | true =>
      rw [hv] at h
      simp only [↓reduceIte] at h
      have r := ih h
      refine ⟨List.mem_cons_of_mem _ r.mn_mem, List.mem_cons_of_mem _ r.mx_mem, r.mn_num, r.mx_num, ?_⟩
      intro w hw hwn
      rcases List.mem_cons.mp hw with rfl | hw
      · rw [hv] at hwn; cases hwn
      · exact r.bounds w hw hwn
    | false =>
      rw [hv] at h
      simp only [Bool.false_eq_true, ↓reduceIte, Option.some.injEq] at h
      obtain ⟨a, b, c, d, e, f, g, k⟩ := scanRest_spec vs v v hv hv (Val.le_refl' hv)
      rw [h] at a b c d e f g k
      simp only at a b c d e f g k
      refine ⟨?_, ?_, a, b, ?_⟩
      · rcases g with g | g
        · rw [g]; exact List.mem_cons_self
        · exact List.mem_cons_of_mem _ g
      · rcases k with k | k
        · rw [k]; exact List.mem_cons_self
        · exact List.mem_cons_of_mem _ k
      · intro w hw hwn
        rcases List.mem_cons.mp hw with rfl | hw
        · exact ⟨d, e⟩
        · exact f w hw hwn

/-- minimum and maximum are unique -/
theorem IsMinMax.unique {vs : List Val} {a b a' b' : Val} (h : IsMinMax vs a b) (h' : IsMinMax vs a' b') :
    a = a' ∧ b = b' := by
  constructor
  · exact Val.le_antisymm' (h.bounds a' h'.mn_mem h'.mn_num).1 (h'.bounds a h.mn_mem h.mn_num).1
  · exact Val.le_antisymm' (h'.bounds b h.mx_mem h.mx_num).2 (h.bounds b' h'.mx_mem h'.mx_num).2

theorem IsMinMax.of_perm {vs ws : List Val} {a b : Val} (p : vs.Perm ws) (h : IsMinMax vs a b) :
    IsMinMax ws a b :=
  ⟨p.mem_iff.mp h.mn_mem, p.mem_iff.mp h.mx_mem, h.mn_num, h.mx_num,
   fun v hv hn => h.bounds v (p.mem_iff.mpr hv) hn⟩

/-! ### the conversion formulas on values -/

theorem applyV_fin (m : Mob) (x : Rat) :
    m.applyV (.fin x) = (match m.apply x with | .ok y => .ok (.fin y) | .error e => .error e) := by
  unfold Mob.applyV Mob.apply Mob.eval
  by_cases hs : m.s = 0
  · simp only [hs, ↓reduceIte, Val.mul, Val.add, Val.div, zero_mul, add_zero]
    split <;> rfl
  · simp only [hs, ↓reduceIte, Val.mul, Val.add, Val.div]
    split <;> rfl

/-- through a formula without a variable term in the denominator (`s = 0`) and with a positive slope
every non-finite value comes out unchanged: an infinity keeps its sign, NaN stays NaN -/
theorem applyV_nonfinite {m : Mob} (hs : m.s = 0) (hpos : 0 < m.q * m.r) {v : Val}
    (hv : ∀ x, v ≠ .fin x) : m.applyV v = .ok v := by
  unfold Mob.applyV
  simp only [hs, ↓reduceIte]
  have hr : m.r ≠ 0 := by intro h; rw [h] at hpos; simp at hpos
  have hq : m.q ≠ 0 := by intro h; rw [h] at hpos; simp at hpos
  rcases pos_and_pos_or_neg_and_neg_of_mul_pos hpos with ⟨h1, h2⟩ | ⟨h1, h2⟩
  · cases v with
    | fin x => exact absurd rfl (hv x)
    | nan => simp [Val.mul, Val.add, Val.div, hr]
    | posInf => simp [Val.mul, Val.add, Val.div, Val.infTimes, hr, hq, h1, h2]
    | negInf => simp [Val.mul, Val.add, Val.div, Val.infTimes, hr, hq, h1, h2]
  · have n1 : ¬ (0 < m.q) := not_lt.mpr (le_of_lt h1)
    have n2 : ¬ (0 < m.r) := not_lt.mpr (le_of_lt h2)
    cases v with
    | fin x => exact absurd rfl (hv x)
    | nan => simp [Val.mul, Val.add, Val.div, hr]
    | posInf => simp [Val.mul, Val.add, Val.div, Val.infTimes, hr, hq, n1, n2]
    | negInf => simp [Val.mul, Val.add, Val.div, Val.infTimes, hr, hq, n1, n2]

theorem _root_.Barril.UnitRow.WF.from_pos {w : UnitRow} (h : w.WF) : 0 < w.fromBase.q * w.fromBase.r :=
  mul_pos_iff.mpr (div_pos_iff.mp h.from_slope_pos)

/-- the hypotheses on a unit table: every row well-formed (`UnitRow.wf`, the C01 table theorem) and
of the modelled shape (`UnitRow.valShape`, the C12 table theorem) -/
def RowsOK (units : List UnitRow) : Prop := ∀ r ∈ units, r.WF ∧ r.valShape = true

theorem valShape_to {r : UnitRow} (h : r.valShape = true) (hc : r.hasConvTo = false) :
    r.toBase = Mob.ident := by
  unfold UnitRow.valShape at h
  simp [hc] at h
  exact h.1

theorem valShape_from {r : UnitRow} (h : r.valShape = true) (hc : r.hasConvFrom = false) :
    r.fromBase = Mob.ident := by
  unfold UnitRow.valShape at h
  simp [hc] at h
  exact h.2

theorem toBaseV_fin {r : UnitRow} (hw : r.WF) (hs : r.valShape = true) (x : Rat) :
    toBaseV r (.fin x) = .ok (.fin ((r.toBase.p + r.toBase.q * x) / r.toBase.r)) := by
  unfold toBaseV
  cases hc : r.hasConvTo with
  | true => simp only [↓reduceIte]; rw [applyV_fin, hw.to_apply]
  | false =>
    simp only [Bool.false_eq_true, ↓reduceIte]
    rw [valShape_to hs hc]; simp [Mob.ident]

theorem fromBaseV_fin {r : UnitRow} (hw : r.WF) (hs : r.valShape = true) (y : Rat) :
    fromBaseV r (.fin y) = .ok (.fin ((r.fromBase.p + r.fromBase.q * y) / r.fromBase.r)) := by
  unfold fromBaseV
  cases hc : r.hasConvFrom with
  | true => simp only [↓reduceIte]; rw [applyV_fin, hw.from_apply]
  | false =>
    simp only [Bool.false_eq_true, ↓reduceIte]
    rw [valShape_from hs hc]; simp [Mob.ident]

/-- on finite values the float model is the exact conversion of C01 -/
theorem convRowsV_fin {a b : UnitRow} (ha : a.WF) (hb : b.WF) (sa : a.valShape = true)
    (sb : b.valShape = true) (x : Rat) : convRowsV a b (.fin x) = .ok (.fin (convVal a b x)) := by
  unfold convRowsV convVal
  simp only [ha.ok, hb.ok, Bool.and_self, Bool.not_true, Bool.false_eq_true, ↓reduceIte]
  rw [toBaseV_fin ha sa]
  simp only
  rw [fromBaseV_fin hb sb]

/-- a non-finite value goes through the conversion of two well-formed rows unchanged -/
theorem convRowsV_nonfinite {a b : UnitRow} (ha : a.WF) (hb : b.WF) {v : Val} (hv : ∀ x, v ≠ .fin x) :
    convRowsV a b v = .ok v := by
  unfold convRowsV toBaseV fromBaseV
  simp only [ha.ok, hb.ok, Bool.and_self, Bool.not_true, Bool.false_eq_true, ↓reduceIte]
  cases h1 : a.hasConvTo <;> cases h2 : b.hasConvFrom <;> simp only [↓reduceIte, Bool.false_eq_true]
  · rw [applyV_nonfinite hb.fs hb.from_pos hv]
  · rw [applyV_nonfinite ha.ts ha.pos hv]
  · rw [applyV_nonfinite ha.ts ha.pos hv]
    simp only
    rw [applyV_nonfinite hb.fs hb.from_pos hv]

/-! ### the limit check is convex and rejects NaN -/

theorem checkLimits_nan {c : CatInfo} (h : c.limited = true) : checkLimits c .nan ≠ .ok () := by
  unfold checkLimits checkMin checkMax CatInfo.limited at *
  cases hm : c.minV with
  | some m => cases c.minExcl <;> simp [Val.gt, Val.ge, Val.lt, Val.le]
  | none =>
    cases hM : c.maxV with
    | some M => cases c.maxExcl <;> simp [Val.gt, Val.ge, Val.lt, Val.le]
    | none => simp [hm, hM] at h

theorem checkMin_ok_iff {c : CatInfo} {v : Val} : checkMin c v = .ok () ↔
    ∀ m, c.minV = some m → (if c.minExcl then Val.lt (.fin m) v else Val.le (.fin m) v) = true := by
  unfold checkMin
  cases c.minV with
  | none => simp
  | some m => cases c.minExcl <;> simp [Val.gt, Val.ge] <;> split_ifs <;> simp_all

theorem checkMax_ok_iff {c : CatInfo} {v : Val} : checkMax c v = .ok () ↔
    ∀ m, c.maxV = some m → (if c.maxExcl then Val.lt v (.fin m) else Val.le v (.fin m)) = true := by
  unfold checkMax
  cases c.maxV with
  | none => simp
  | some m => cases c.maxExcl <;> simp

theorem checkLimits_ok_iff {c : CatInfo} {v : Val} :
    checkLimits c v = .ok () ↔ checkMin c v = .ok () ∧ checkMax c v = .ok () := by
  unfold checkLimits
  cases h : checkMin c v with
  | error e => simp
  | ok u => cases u; simp

theorem checkMin_error {c : CatInfo} {v : Val} {e : VErr} (h : checkMin c v = .error e) :
    ∃ m, c.minV = some m ∧
      ((c.minExcl = true ∧ e = .validation .gt m v ∧ Val.lt (.fin m) v = false)
       ∨ (c.minExcl = false ∧ e = .validation .ge m v ∧ Val.le (.fin m) v = false)) := by
  unfold checkMin at h
  cases hm : c.minV with
  | none => rw [hm] at h; cases h
  | some m =>
    rw [hm] at h
    refine ⟨m, rfl, ?_⟩
    cases hx : c.minExcl with
    | true =>
      cases hc : Val.lt (.fin m) v with
      | true => simp [hx, Val.gt, hc] at h
      | false => simp [hx, Val.gt, hc] at h; exact Or.inl ⟨rfl, h.symm, rfl⟩
    | false =>
      cases hc : Val.le (.fin m) v with
      | true => simp [hx, Val.ge, hc] at h
      | false => simp [hx, Val.ge, hc] at h; exact Or.inr ⟨rfl, h.symm, rfl⟩

theorem checkMax_error {c : CatInfo} {v : Val} {e : VErr} (h : checkMax c v = .error e) :
    ∃ m, c.maxV = some m ∧
      ((c.maxExcl = true ∧ e = .validation .lt m v ∧ Val.lt v (.fin m) = false)
       ∨ (c.maxExcl = false ∧ e = .validation .le m v ∧ Val.le v (.fin m) = false)) := by
  unfold checkMax at h
  cases hm : c.maxV with
  | none => rw [hm] at h; cases h
  | some m =>
    rw [hm] at h
    refine ⟨m, rfl, ?_⟩
    cases hx : c.maxExcl with
    | true =>
      cases hc : Val.lt v (.fin m) with
      | true => simp [hx, hc] at h
      | false => simp [hx, hc] at h; exact Or.inl ⟨rfl, h.symm, rfl⟩
    | false =>
      cases hc : Val.le v (.fin m) with
      | true => simp [hx, hc] at h
      | false => simp [hx, hc] at h; exact Or.inr ⟨rfl, h.symm, rfl⟩

/-- the accepted set is order-convex -/
theorem checkLimits_convex {c : CatInfo} {a v b : Val} (ha : checkLimits c a = .ok ())
    (hb : checkLimits c b = .ok ()) (hav : Val.le a v = true) (hvb : Val.le v b = true) :
    checkLimits c v = .ok () := by
  rw [checkLimits_ok_iff] at ha hb ⊢
  constructor
  · rw [checkMin_ok_iff] at ha ⊢
    intro m hm
    have := ha.1 m hm
    cases hx : c.minExcl
    · simp only [hx, Bool.false_eq_true, ↓reduceIte] at this ⊢; exact Val.le_trans' this hav
    · simp only [hx, ↓reduceIte] at this ⊢; exact Val.lt_of_lt_of_le this hav
  · rw [checkMax_ok_iff] at hb ⊢
    intro m hm
    have := hb.2 m hm
    cases hx : c.maxExcl
    · simp only [hx, Bool.false_eq_true, ↓reduceIte] at this ⊢; exact Val.le_trans' hvb this
    · simp only [hx, ↓reduceIte] at this ⊢; exact Val.lt_of_le_of_lt hvb this

/-! ### the conversion to the default unit: it fails for every value, or it is a strictly increasing
map on the finite values which leaves the non-finite ones as they are -/

inductive ConvShape (g : Reg) (c : CatInfo) (unit : Sym) (this : UnitRow) : Prop
  | fails (e : ErrKind) (h : ∀ v, convToDefault g c unit this v = .error e)
  | works (f : Rat → Rat) (mono : ∀ x y, x < y → f x < f y)
      (hfin : ∀ x, convToDefault g c unit this (.fin x) = .ok (.fin (f x)))
      (hnf : ∀ v, (∀ x, v ≠ .fin x) → convToDefault g c unit this v = .ok v)

theorem convShape {g : Reg} (hg : RowsOK g.units) (c : CatInfo) (unit : Sym) {this : UnitRow}
    (ht : this ∈ g.units) : ConvShape g c unit this := by
  cases hu : unit == c.defaultUnit with
  | true =>
    refine .works id (fun _ _ h => h) ?_ ?_ <;> intros <;> simp [convToDefault, hu]
  | false =>
    cases hi : g.db.getInfo c.qtype c.defaultUnit true with
    | error e => exact .fails e (by intro v; simp [convToDefault, hu, hi])
    | ok other =>
      have ho : other ∈ g.units := Db.getInfo_mem hi
      obtain ⟨wt, st⟩ := hg this ht
      obtain ⟨wo, so⟩ := hg other ho
      refine .works (convVal this other) (fun _ _ h => convVal_strictMono wt wo h) ?_ ?_
      · intro x; simp [convToDefault, hu, hi, convRowsV_fin wt wo st so]
      · intro v hv
        simp [convToDefault, hu, hi, convRowsV_nonfinite wt wo hv]

theorem checkValue_simple {g : Reg} {c : CatInfo} {unit : Sym} {this : UnitRow} (hl : c.limited = true)
    (v : Val) : checkValue g (.simple c unit this) v =
      (match convToDefault g c unit this v with
       | .error e => .error (.other e)
       | .ok v' => checkLimits c v') := by
  simp only [checkValue, hl, Bool.not_true, Bool.false_eq_true, ↓reduceIte]
  cases convToDefault g c unit this v <;> rfl

/-- a map that is `f` on the finite values and the identity elsewhere -/
def liftV (f : Rat → Rat) : Val → Val
  | .fin x => .fin (f x)
  | w => w

theorem liftV_mono {f : Rat → Rat} (hf : ∀ x y, x < y → f x < f y) {a b : Val}
    (h : Val.le a b = true) : Val.le (liftV f a) (liftV f b) = true := by
  cases a <;> cases b <;> simp_all [liftV, Val.le]
  rename_i x y
  rcases lt_or_eq_of_le h with h | h
  · exact _root_.le_of_lt (hf _ _ h)
  · rw [h]

/-- **interval convexity + monotone conversion**: between two accepted values every value is
accepted -/
theorem checkValue_between {g : Reg} (hg : RowsOK g.units) {c : CatInfo} {unit : Sym} {this : UnitRow}
    (ht : this ∈ g.units) (hl : c.limited = true) {a v b : Val}
    (ha : checkValue g (.simple c unit this) a = .ok ())
    (hb : checkValue g (.simple c unit this) b = .ok ())
    (hav : Val.le a v = true) (hvb : Val.le v b = true) :
    checkValue g (.simple c unit this) v = .ok () := by
  rw [checkValue_simple hl] at ha hb ⊢
  rcases convShape hg c unit ht with ⟨e, h⟩ | ⟨f, mono, hfin, hnf⟩
  · rw [h a] at ha; cases ha
  · -- the conversion is `liftV f`
    have key : ∀ w, convToDefault g c unit this w = .ok (liftV f w) := by
      intro w
      cases w with
      | fin x => exact hfin x
      | posInf => exact hnf _ (by intro x h; cases h)
      | negInf => exact hnf _ (by intro x h; cases h)
      | nan => exact hnf _ (by intro x h; cases h)
    rw [key] at ha hb ⊢
    exact checkLimits_convex ha hb (liftV_mono mono hav) (liftV_mono mono hvb)

theorem fixValidUnits_mem {g : Reg} {qunits : List Sym} : ∀ {vs r : List Sym},
    fixValidUnits g qunits vs = .ok r → ∀ u ∈ r, u ∈ qunits := by
  intro vs
  induction vs with
  | nil => intro r h u hu; simp [fixValidUnits] at h; subst h; cases hu
  | cons v vs ih =>
    intro r h u hu
    unfold fixValidUnits at h
    simp only at h
    split at h
    · rename_i hc
      cases hr : fixValidUnits g qunits vs with
      | error e => rw [hr] at h; cases h
      | ok r' =>
        rw [hr] at h
        simp only [Except.ok.injEq] at h
        subst h
        rcases List.mem_cons.mp hu with rfl | hu
        · simpa using hc
        · exact ih hr u hu
    · cases h


/-! ### produced quantities are the quantities of the direct constructor -/

/-- a quantity that is exactly what `Quantity(category, unit)` gives for its own category name and unit
(a derived one carries nothing) -/
def Canon (g : Reg) (q : Quant) : Prop :=
  ∀ c u r, q = .simple c u r → mkQuant g c.name u = .ok (.simple c u r)

theorem canon_derived (g : Reg) : Canon g .derived := by
  intro c u r h; cases h

theorem settleUnit_idem {g : Reg} {c u u' : Sym} (h : settleUnit g c u = some u') :
    settleUnit g c u' = some u' := by
  unfold settleUnit at h
  split at h
  · cases h; rename_i hv; unfold settleUnit; rw [if_pos hv]
  · split at h
    · cases h
      rename_i hv
      have hv2 := (Bool.and_eq_true _ _).mp hv
      unfold settleUnit; rw [if_pos hv2.2]
    · cases h

theorem mkQuant_canon {g : Reg} {cn u : Sym} {q : Quant} (h : mkQuant g cn u = .ok q) : Canon g q := by
  intro c u' r hq
  subst hq
  unfold mkQuant at h
  cases hc : g.cat? cn with
  | none => rw [hc] at h; cases h
  | some ci =>
    rw [hc] at h
    simp only at h
    cases hs : settleUnit g cn u with
    | none => rw [hs] at h; cases h
    | some u1 =>
      rw [hs] at h
      simp only at h
      cases hi : g.db.getInfo ci.qtype u1 true with
      | error e => rw [hi] at h; cases h
      | ok r1 =>
        rw [hi] at h
        cases h
        have hn : c.name = cn := by
          have := List.find?_some hc
          simpa using this
        unfold mkQuant
        rw [hn, hc]
        simp only
        rw [settleUnit_idem hs]
        simp only
        rw [hi]

theorem mkQuantNoCat_canon {g : Reg} {u : Sym} {q : Quant} (h : mkQuantNoCat g u = .ok q) : Canon g q := by
  unfold mkQuantNoCat at h
  split at h
  · cases h
  · exact mkQuant_canon h
  · split at h
    · split at h
      · cases h
      · exact mkQuant_canon h
      · cases h
    · cases h

theorem obtainComposing_canon {g : Reg} {es : List Entry} {q : Quant} (h : obtainComposing g es = .ok q) :
    Canon g q := by
  unfold obtainComposing at h
  split at h
  · cases h
  · cases h; exact canon_derived g

theorem obtainMapping_canon {g : Reg} {es : List Entry} {q : Quant} (h : obtainMapping g es = .ok q) :
    Canon g q := by
  unfold obtainMapping at h
  split at h
  · split at h
    · exact mkQuant_canon h
    · exact obtainComposing_canon h
  · exact obtainComposing_canon h

theorem createDerived_canon {g : Reg} {es : List Entry} {q : Quant} (h : createDerived g es = .ok q) :
    Canon g q := by
  unfold createDerived at h
  split at h
  · cases h
  · exact obtainMapping_canon h

theorem obtainList_canon {g : Reg} {units : List (Sym × Int)} {cat : CatArg} {q : Quant}
    (h : obtainList g units cat = .ok q) : Canon g q := by
  unfold obtainList at h
  simp only at h
  have comp : ∀ {q}, (match cat with
      | .many cs => obtainMapping g (zipEntries cs units)
      | _ => (.error .assertion : Except ErrKind Quant)) = .ok q → Canon g q := by
    intro q hq
    split at hq
    · exact obtainMapping_canon hq
    · cases hq
  split at h
  · split at h
    · split at h
      · exact mkQuantNoCat_canon h
      · exact mkQuant_canon h
      · cases h
      · exact mkQuant_canon h
    · exact comp h
  · exact comp h

theorem opNumberQuant_canon {g : Reg} {q q' : Quant} {op : BinOp} {nl : Bool}
    (h : opNumberQuant g q op nl = .ok q') : Canon g q' := by
  unfold opNumberQuant at h
  split at h
  · cases h
  · split at h
    · exact obtainMapping_canon h
    · exact obtainMapping_canon h
    · exact createDerived_canon h
    · exact createDerived_canon h

theorem opNumber_canon {g : Reg} {q q' : Quant} {s s' : Shape} {op : BinOp} {x : Val} {nl : Bool}
    (hq : Canon g q) (h : opNumber g q s op x nl = .ok (q', s')) : Canon g q' := by
  unfold opNumber at h
  split at h
  · cases h
  · cases h
  · cases h1 : opNumberQuant g q op nl with
    | error e => rw [h1] at h; cases h
    | ok q1 =>
      rw [h1] at h
      simp only at h
      split at h
      · cases h
      · cases h; exact opNumberQuant_canon h1
  · split at h
    · cases h1 : opNumberQuant g q .div true with
      | error e => rw [h1] at h; cases h
      | ok q1 =>
        rw [h1] at h
        simp only at h
        split at h
        · cases h
        · cases h; exact opNumberQuant_canon h1
    · split at h
      · cases h
      · cases h; exact hq

theorem reobtainPair_canon {g : Reg} {e1 e2 : Entry} {q : Quant} (h : reobtainPair g e1 e2 = .ok q) :
    Canon g q := by
  unfold reobtainPair at h
  split at h
  · cases h
  · split at h
    · cases h
    · cases h; exact obtainMapping_canon (by assumption)

theorem sameQuantityOp_canon {g : Reg} {q1 q2 q : Quant} {conv : Option (UnitRow × UnitRow)}
    (hq : Canon g q1) (h : sameQuantityOp g q1 q2 = .ok (q, conv)) : Canon g q := by
  unfold sameQuantityOp at h
  split at h
  · split at h
    · cases h; exact hq
    · split at h
      · split at h
        · split at h
          · cases h
          · split at h
            · cases h
            · cases h; exact reobtainPair_canon (by assumption)
        · split at h
          · cases h
          · split at h
            · cases h; exact reobtainPair_canon (by assumption)
            · cases h
      · cases h
  · cases h

theorem opObjects_canon {g : Reg} {q1 q2 q : Quant} {s1 s2 s : Shape} {op : BinOp}
    (hq : Canon g q1) (h : opObjects g q1 s1 q2 s2 op = .ok (q, s)) : Canon g q := by
  unfold opObjects at h
  split at h
  · cases h
  · split at h
    · cases h1 : sameQuantityOp g q1 q2 with
      | error e => rw [h1] at h; cases h
      | ok r =>
        obtain ⟨q', conv⟩ := r
        rw [h1] at h
        simp only at h
        split at h
        · cases h; exact sameQuantityOp_canon hq h1
        · cases h
        · cases h
    · split at h
      · cases h
      · cases h1 : sameQuantityOp g q1 q2 with
        | error e => rw [h1] at h; cases h
        | ok r =>
          obtain ⟨q', conv⟩ := r
          rw [h1] at h
          simp only at h
          split at h
          · cases h
          · cases h; exact sameQuantityOp_canon hq h1
    · cases h

theorem pickled_canon {g : Reg} {q q' : Quant} {s s' : Shape} (h : pickled g q s = .ok (q', s')) :
    Canon g q' := by
  unfold pickled at h
  split at h
  · cases h
  · split at h
    · cases h
    · cases h; rename_i h1; exact obtainMapping_canon h1

theorem createCopy_canon {g : Reg} {q q' : Quant} {a : ArrVal} {k : Cache} {unit cat : Option Sym} {o : Obj}
    (hq : Canon g q) (h : createCopy g q a k unit cat = .ok (q', o)) : Canon g q' := by
  unfold createCopy at h
  split at h
  · cases h
  · split at h
    · cases h
    · split at h
      · cases h; exact hq
      · cases h
      · split at h
        · cases h
        · cases h; rename_i h1; exact mkQuant_canon h1
      · split at h
        · cases h
        · split at h
          · cases h
          · cases h; rename_i h1; exact mkQuant_canon h1

theorem createCopyScalar_canon {g : Reg} {q q' : Quant} {v v' : Val} {unit cat : Option Sym}
    (hq : Canon g q) (h : createCopyScalar g q v unit cat = .ok (q', v')) : Canon g q' := by
  unfold createCopyScalar at h
  split at h
  · cases h
  · simp only at h
    split at h
    · cases h
    · split at h
      · cases h; exact hq
      · cases h
      · split at h
        · cases h
        · cases h; exact mkQuant_canon (by assumption)
      · split at h
        · cases h
        · split at h
          · cases h
          · cases h; exact mkQuant_canon (by assumption)

/-- **every production path ends in a quantity of the direct constructor** -/
theorem build_canon {g : Reg} : ∀ {p : Prov} {q : Quant} {s : Shape}, build g p = .ok (q, s) → Canon g q := by
  intro p
  induction p with
  | direct c u s0 =>
    intro q s h
    unfold build at h
    split at h
    · cases h
    · cases h; rename_i h1; exact mkQuant_canon h1
  | viaMapping es s0 =>
    intro q s h
    unfold build at h
    split at h
    · cases h
    · cases h; rename_i h1; exact obtainMapping_canon h1
  | viaList units cat s0 =>
    intro q s h
    unfold build at h
    split at h
    · cases h
    · cases h; rename_i h1; exact obtainList_canon h1
  | opNumber p op x nl ih =>
    intro q s h
    unfold build at h
    split at h
    · cases h
    · rename_i h1; exact opNumber_canon (ih h1) h
  | opObjects p1 p2 op ih1 ih2 =>
    intro q s h
    unfold build at h
    split at h
    · cases h
    · rename_i h1
      split at h
      · cases h
      · exact opObjects_canon (ih1 h1) h
  | pickle p ih =>
    intro q s h
    unfold build at h
    split at h
    · cases h
    · exact pickled_canon h
  | copy p unit cat ih =>
    intro q s h
    unfold build at h
    split at h
    · cases h
    · rename_i h1
      split at h
      · cases h; rename_i h2; exact createCopy_canon (ih h1) h2
      · cases h
      · cases h
    · rename_i h1
      split at h
      · cases h; rename_i h2; exact createCopyScalar_canon (ih h1) h2
      · cases h
    · cases h
  | validated p cs ih =>
    intro q s h
    unfold build at h
    exact ih h


/-! ### what `AddCategory` stores of the flags and the caption -/

theorem addCategoryCore_flags {g : Reg} {a : AddArgs} {info : CatInfo} (h : addCategoryCore g a = .ok info) :
    info.minExcl = a.minExcl ∧ info.maxExcl = a.maxExcl ∧ info.caption = a.caption := by
  unfold addCategoryCore at h
  split at h
  · cases h
  · split at h
    · cases h
    · split at h
      · cases h
      · split at h
        · cases h
        · cases h; exact ⟨rfl, rfl, rfl⟩

theorem mergeArgs_flags {g : Reg} {a a' : AddArgs} (h : mergeArgs g a = .ok a') :
    a'.minExcl = a.minExcl ∧ a'.maxExcl = a.maxExcl ∧ a'.caption = a.caption := by
  unfold mergeArgs at h
  split at h
  · split at h
    · cases h
    · cases h; exact ⟨rfl, rfl, rfl⟩
  · cases h; exact ⟨rfl, rfl, rfl⟩

theorem addCategory_flags {g g' : Reg} {a : AddArgs} {info : CatInfo} (h : addCategory g a = .ok (g', info)) :
    info.minExcl = a.minExcl ∧ info.maxExcl = a.maxExcl ∧ info.caption = a.caption := by
  unfold addCategory at h
  split at h
  · cases h
  · split at h
    · cases h
    · split at h
      · cases h
      · split at h
        · cases h
        · split at h
          · cases h
          · cases h
            rename_i h1 _ h2
            obtain ⟨a1, a2, a3⟩ := addCategoryCore_flags h2
            obtain ⟨b1, b2, b3⟩ := mergeArgs_flags h1
            exact ⟨a1.trans b1, a2.trans b2, a3.trans b3⟩

end Barril.Valid
