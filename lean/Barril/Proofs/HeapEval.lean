/-
Helper lemmas for C13, second part: what a `Frame` step preserves (lookups, snapshots) and how the
read-only parts of the model evaluate on a state whose snapshots are known.
-/
import Barril.Proofs.HeapLemmas

namespace Barril.Heap
open Barril

theorem Frame.mono {n n' : Nat} {s s' : St} (h : Frame n' s s') (hn : n ≤ n') : Frame n s s' :=
  ⟨h.len, fun r hr => h.cells r (Nat.lt_of_lt_of_le hr hn), h.quants, h.objs⟩

theorem getElem?_append_some {α : Type} {l t : List α} {i : Nat} {a : α} (h : l[i]? = some a) :
    (l ++ t)[i]? = some a := by
  have hi : i < l.length := by
    rcases Nat.lt_or_ge i l.length with h' | h'
    · exact h'
    · rw [List.getElem?_eq_none h'] at h; cases h
  rw [List.getElem?_append_left hi]; exact h

/-- a full frame step (relative to the whole old heap) keeps every cell that existed -/
theorem Frame.cell {s s' : St} (h : Frame s.heap.length s s') {r : Nat} {c : Cell} (hc : s.heap[r]? = some c) :
    s'.heap[r]? = some c := by
  have hr : r < s.heap.length := by
    rcases Nat.lt_or_ge r s.heap.length with h' | h'
    · exact h'
    · rw [List.getElem?_eq_none h'] at hc; cases hc
  rw [h.cells r hr]; exact hc

theorem Frame.quant {n : Nat} {s s' : St} (h : Frame n s s') {q : Nat} {o : QObj} (hq : s.quants[q]? = some o) :
    s'.quants[q]? = some o := by
  obtain ⟨t, ht⟩ := h.quants
  rw [ht]; exact getElem?_append_some hq

theorem Frame.obj {n : Nat} {s s' : St} (h : Frame n s s') {i : Nat} {o : Obj} (hi : s.objs[i]? = some o) :
    s'.objs[i]? = some o := by
  obtain ⟨t, ht⟩ := h.objs
  rw [ht]; exact getElem?_append_some hi

theorem itemsOf_mono {h h' : List Cell} (hc : ∀ (r : Nat) (c : Cell), h[r]? = some c → h'[r]? = some c) (es : List (Sym × Ref))
    {l : List (Sym × Sym × Int)} (hl : itemsOf h es = some l) : itemsOf h' es = some l := by
  induction es generalizing l with
  | nil => simpa [itemsOf] using hl
  | cons e es ih =>
    obtain ⟨c, r⟩ := e
    unfold itemsOf at hl ⊢
    cases hr : h[r]? with
    | none => rw [hr] at hl; simp at hl
    | some cell =>
      rw [hr] at hl
      cases hrest : itemsOf h es with
      | none => rw [hrest] at hl; cases cell <;> simp at hl
      | some rest =>
        rw [hrest] at hl
        rw [hc r cell hr, ih hrest]
        exact hl

theorem qsnap_stable {s s' : St} (h : Frame s.heap.length s s') {q : Nat} {qs : QSnap} (hq : qsnap s q = some qs) :
    qsnap s' q = some qs := by
  unfold qsnap at hq ⊢
  cases ho : s.quants[q]? with
  | none => rw [ho] at hq; cases hq
  | some o =>
    rw [ho] at hq
    rw [h.quant ho]
    simp only at hq ⊢
    cases hi : itemsOf s.heap o.entries with
    | none => rw [hi] at hq; cases hq
    | some items =>
      rw [hi] at hq
      rw [itemsOf_mono (fun r c => h.cell) o.entries hi]
      simp only at hq ⊢
      exact hq

/-- the snapshot of a pool member survives every full frame step -/
theorem snap_stable {s s' : St} (h : Frame s.heap.length s s') {i : Nat} {v : Snap} (hv : snap s i = some v) :
    snap s' i = some v := by
  unfold snap at hv ⊢
  cases ho : s.objs[i]? with
  | none => rw [ho] at hv; cases hv
  | some o =>
    rw [ho] at hv
    rw [h.obj ho]
    cases o with
    | scalar q x =>
      simp only at hv ⊢
      cases hq : qsnap s q with
      | none => rw [hq] at hv; cases hv
      | some qs => rw [hq] at hv; rw [qsnap_stable h hq]; exact hv
    | array q c =>
      simp only at hv ⊢
      cases hq : qsnap s q with
      | none => rw [hq] at hv; simp at hv
      | some qs =>
        cases hc : s.heap[c]? with
        | none => rw [hq, hc] at hv; simp at hv
        | some cell => rw [hq, hc] at hv; rw [qsnap_stable h hq, h.cell hc]; exact hv
    | fixed d q c =>
      simp only at hv ⊢
      cases hq : qsnap s q with
      | none => rw [hq] at hv; simp at hv
      | some qs =>
        cases hc : s.heap[c]? with
        | none => rw [hq, hc] at hv; simp at hv
        | some cell => rw [hq, hc] at hv; rw [qsnap_stable h hq, h.cell hc]; exact hv
    | fscalar q c =>
      simp only at hv ⊢
      cases hq : qsnap s q with
      | none => rw [hq] at hv; simp at hv
      | some qs =>
        cases hc : s.heap[c]? with
        | none => rw [hq, hc] at hv; simp at hv
        | some cell =>
          rw [hq, hc] at hv; rw [qsnap_stable h hq, h.cell hc]
          cases cell with
          | fv n f =>
            simp only at hv ⊢
            cases hf : s.heap[f]? with
            | none => rw [hf] at hv; simp at hv
            | some fc => rw [hf] at hv; rw [h.cell hf]; exact hv
          | _ => simp at hv

/-! ### evaluation of the read-only parts on a known state -/

theorem bind_eval {α β : Type} (m : M α) (f : α → M β) (s : St) :
    (m >>= f) s = (match m s with
      | .ok (a, s') => f a s'
      | .error e => .error e) := rfl

theorem pure_eval {α : Type} (a : α) (s : St) : (Pure.pure a : M α) s = .ok (a, s) := rfl

theorem getObj_of {s : St} {i : Nat} {o : Obj} (h : s.objs[i]? = some o) : getObj i s = .ok (o, s) := by
  unfold getObj; rw [h]

theorem getQ_of {s : St} {q : Nat} {o : QObj} (h : s.quants[q]? = some o) : getQ q s = .ok (o, s) := by
  unfold getQ; rw [h]

theorem readM_of {s : St} {r : Ref} {c : Cell} (h : s.heap[r]? = some c) : readM r s = .ok (c, s) := by
  unfold readM; rw [h]

theorem readSeq_of {s : St} {r : Ref} {k : Kind} {xs : List Rat} (h : s.heap[r]? = some (.seq k xs)) :
    readSeq r s = .ok ((k, xs), s) := by
  unfold readSeq; rw [bind_eval, readM_of h]; rfl

theorem readPair_of {s : St} {r : Ref} {u : Sym} {e : Int} (h : s.heap[r]? = some (.pair u e)) :
    readPair r s = .ok ((u, e), s) := by
  unfold readPair; rw [bind_eval, readM_of h]; rfl

theorem readFv_of {s : St} {r : Ref} {n : Rat} {f : Ref} (h : s.heap[r]? = some (.fv n f)) :
    readFv r s = .ok ((n, f), s) := by
  unfold readFv; rw [bind_eval, readM_of h]; rfl

theorem readFrac_of {s : St} {r : Ref} {x : Rat} (h : s.heap[r]? = some (.frac x)) :
    readFrac r s = .ok (x, s) := by
  unfold readFrac; rw [bind_eval, readM_of h]; rfl

theorem readItems_of {s : St} (es : List (Sym × Ref)) {l : List (Sym × Sym × Int)}
    (h : itemsOf s.heap es = some l) : readItems es s = .ok (l, s) := by
  induction es generalizing l with
  | nil => unfold itemsOf at h; cases h; rfl
  | cons e es ih =>
    obtain ⟨c, r⟩ := e
    unfold itemsOf at h
    cases hr : s.heap[r]? with
    | none => rw [hr] at h; simp at h
    | some cell =>
      rw [hr] at h
      cases hrest : itemsOf s.heap es with
      | none => rw [hrest] at h; cases cell <;> simp at h
      | some rest =>
        rw [hrest] at h
        cases cell with
        | pair u e =>
          simp only [Option.some.injEq] at h
          subst h
          unfold readItems
          rw [bind_eval, readPair_of hr]
          simp only
          rw [bind_eval, ih hrest]
          rfl
        | _ => simp at h

theorem qsnap_parts {s : St} {q : Nat} {qs : QSnap} (h : qsnap s q = some qs) :
    ∃ o, s.quants[q]? = some o ∧ itemsOf s.heap o.entries = some qs.items ∧ o.caption = qs.caption ∧
      o.derived = qs.derived ∧ o.comp = qs.comp := by
  unfold qsnap at h
  cases ho : s.quants[q]? with
  | none => rw [ho] at h; cases h
  | some o =>
    rw [ho] at h
    simp only at h
    cases hi : itemsOf s.heap o.entries with
    | none => rw [hi] at h; cases h
    | some items =>
      rw [hi] at h
      simp only [Option.some.injEq] at h
      subst h
      exact ⟨o, rfl, hi, rfl, rfl, rfl⟩

/-- `Quantity.__eq__` on two quantities whose dicts and captions are known -/
theorem qEq_of {s : St} {a b : Nat} {qa qb : QSnap} (ha : qsnap s a = some qa) (hb : qsnap s b = some qb) :
    qEq a b s = .ok (qa.items == qb.items && qa.caption == qb.caption, s) := by
  obtain ⟨oa, hoa, hia, hca, _, _⟩ := qsnap_parts ha
  obtain ⟨ob, hob, hib, hcb, _, _⟩ := qsnap_parts hb
  unfold qEq
  rw [bind_eval, getQ_of hoa]; simp only
  rw [bind_eval, getQ_of hob]; simp only
  rw [bind_eval, readItems_of _ hia]; simp only
  rw [bind_eval, readItems_of _ hib]; simp only
  rw [hca, hcb]; rfl

/-- what a snapshot says about the state -/
def SnapFacts (s : St) (i : Nat) : Snap → Prop
  | .scalar qs v => ∃ q, s.objs[i]? = some (.scalar q v) ∧ qsnap s q = some qs
  | .array qs c k xs => ∃ q, s.objs[i]? = some (.array q c) ∧ qsnap s q = some qs ∧ s.heap[c]? = some (.seq k xs)
  | .fixed d qs c k xs =>
    ∃ q, s.objs[i]? = some (.fixed d q c) ∧ qsnap s q = some qs ∧ s.heap[c]? = some (.seq k xs)
  | .fscalar qs v n f x =>
    ∃ q, s.objs[i]? = some (.fscalar q v) ∧ qsnap s q = some qs ∧ s.heap[v]? = some (.fv n f) ∧
      s.heap[f]? = some (.frac x)

theorem snap_inv {s : St} {i : Nat} {a : Snap} (h : snap s i = some a) : SnapFacts s i a := by
  unfold snap at h
  cases ho : s.objs[i]? with
  | none => rw [ho] at h; cases h
  | some o =>
    rw [ho] at h
    cases o with
    | scalar q x =>
      simp only at h
      cases hq : qsnap s q with
      | none => rw [hq] at h; cases h
      | some qs =>
        rw [hq] at h; simp only [Option.map_some, Option.some.injEq] at h; subst h
        exact ⟨q, ho, hq⟩
    | array q c =>
      simp only at h
      cases hq : qsnap s q with
      | none => rw [hq] at h; simp at h
      | some qs =>
        cases hc : s.heap[c]? with
        | none => rw [hq, hc] at h; simp at h
        | some cell =>
          rw [hq, hc] at h
          cases cell with
          | seq k xs => simp only [Option.some.injEq] at h; subst h; exact ⟨q, ho, hq, hc⟩
          | _ => simp at h
    | fixed d q c =>
      simp only at h
      cases hq : qsnap s q with
      | none => rw [hq] at h; simp at h
      | some qs =>
        cases hc : s.heap[c]? with
        | none => rw [hq, hc] at h; simp at h
        | some cell =>
          rw [hq, hc] at h
          cases cell with
          | seq k xs => simp only [Option.some.injEq] at h; subst h; exact ⟨q, ho, hq, hc⟩
          | _ => simp at h
    | fscalar q v =>
      simp only at h
      cases hq : qsnap s q with
      | none => rw [hq] at h; simp at h
      | some qs =>
        cases hc : s.heap[v]? with
        | none => rw [hq, hc] at h; simp at h
        | some cell =>
          rw [hq, hc] at h
          cases cell with
          | fv n f =>
            simp only at h
            cases hf : s.heap[f]? with
            | none => rw [hf] at h; simp at h
            | some fc =>
              rw [hf] at h
              cases fc with
              | frac x => simp only [Option.some.injEq] at h; subst h; exact ⟨q, ho, hq, hc, hf⟩
              | _ => simp at h
          | _ => simp at h

/-- two pool members with the same snapshot compare equal (`__eq__` of all four classes) -/
theorem objEq_of_same_snap {s : St} {i j : Nat} {a : Snap} (hi : snap s i = some a) (hj : snap s j = some a) :
    objEq i j s = .ok (true, s) := by
  have fi := snap_inv hi
  have fj := snap_inv hj
  unfold objEq
  cases a with
  | scalar qs v =>
    obtain ⟨q1, ho1, hq1⟩ := fi
    obtain ⟨q2, ho2, hq2⟩ := fj
    rw [bind_eval, getObj_of ho1]; simp only
    rw [bind_eval, getObj_of ho2]; simp only
    rw [bind_eval, qEq_of hq1 hq2]
    simp [pure_eval]
  | array qs c k xs =>
    obtain ⟨q1, ho1, hq1, hc1⟩ := fi
    obtain ⟨q2, ho2, hq2, _⟩ := fj
    obtain ⟨o1, hoq1, _, _, hd1, hp1⟩ := qsnap_parts hq1
    obtain ⟨o2, hoq2, _, _, hd2, hp2⟩ := qsnap_parts hq2
    rw [bind_eval, getObj_of ho1]; simp only
    rw [bind_eval, getObj_of ho2]; simp only
    rw [bind_eval, readSeq_of hc1]; simp only
    rw [bind_eval, readSeq_of hc1]; simp only
    rw [bind_eval, qEq_of hq1 hq2]; simp only
    rw [bind_eval, getQ_of hoq1]; simp only
    rw [bind_eval, getQ_of hoq2]; simp only
    simp [pure_eval, hd1, hd2, hp1, hp2]
  | fixed d qs c k xs =>
    obtain ⟨q1, ho1, hq1, hc1⟩ := fi
    obtain ⟨q2, ho2, hq2, _⟩ := fj
    obtain ⟨o1, hoq1, _, _, hd1, hp1⟩ := qsnap_parts hq1
    obtain ⟨o2, hoq2, _, _, hd2, hp2⟩ := qsnap_parts hq2
    rw [bind_eval, getObj_of ho1]; simp only
    rw [bind_eval, getObj_of ho2]; simp only
    rw [bind_eval, readSeq_of hc1]; simp only
    rw [bind_eval, readSeq_of hc1]; simp only
    rw [bind_eval, qEq_of hq1 hq2]; simp only
    rw [bind_eval, getQ_of hoq1]; simp only
    rw [bind_eval, getQ_of hoq2]; simp only
    simp [pure_eval, hd1, hd2, hp1, hp2]
  | fscalar qs v n f x =>
    obtain ⟨q1, ho1, hq1, hv1, hf1⟩ := fi
    obtain ⟨q2, ho2, hq2, _, _⟩ := fj
    rw [bind_eval, getObj_of ho1]; simp only
    rw [bind_eval, getObj_of ho2]; simp only
    rw [bind_eval, readFv_of hv1]; simp only
    rw [bind_eval, readFv_of hv1]; simp only
    rw [bind_eval, readFrac_of hf1]; simp only
    rw [bind_eval, readFrac_of hf1]; simp only
    rw [bind_eval, qEq_of hq1 hq2]
    simp [pure_eval]

theorem qsnap_congr {s s' : St} (hh : s'.heap = s.heap) (hq : s'.quants = s.quants) (q : Nat) :
    qsnap s' q = qsnap s q := by
  unfold qsnap; rw [hh, hq]

/-- the snapshot of a pool member depends on its object record, the heap and the quantities only -/
theorem snap_congr {s s' : St} (hh : s'.heap = s.heap) (hq : s'.quants = s.quants) {i j : Nat}
    (ho : s'.objs[j]? = s.objs[i]?) : snap s' j = snap s i := by
  unfold snap
  rw [ho]
  cases s.objs[i]? with
  | none => rfl
  | some o => cases o <;> simp only [qsnap_congr hh hq, hh]

theorem exec_createCopy (db : Db) (i : Nat) (u c : Option Sym) :
    exec db (.createCopy i u c) = fresh (createCopy db i u c) := rfl

theorem exec_pickle (db : Db) (i : Nat) : exec db (.pickle i) = fresh (pickleObj db i) := rfl

theorem exec_copy (db : Db) (i : Nat) :
    exec db (.copy i) = (do let _ ← getObj i; pure (.obj i false)) := rfl

/-- `CreateCopy()` (no unit, no category): the new object refers to the SAME quantity and the SAME
container / FractionValue / number as the original; nothing else changes -/
theorem createCopy_plain {db : Db} {s s' : St} {i : Nat} {out : Out} {a : Snap} (ha : snap s i = some a)
    (h : exec db (.createCopy i none none) s = .ok (out, s')) :
    ∃ o, s.objs[i]? = some o ∧ out = .obj s.objs.length true ∧ s' = { s with objs := s.objs ++ [o] } := by
  have f := snap_inv ha
  rw [exec_createCopy] at h
  unfold fresh createCopy at h
  cases a with
  | scalar qs v =>
    obtain ⟨q, ho, hq⟩ := f
    refine ⟨_, ho, ?_⟩
    rw [bind_eval, bind_eval, getObj_of ho] at h
    simp only [copyQuantity, bind_eval, pure_eval, newObj] at h
    cases h; exact ⟨rfl, rfl⟩
  | array qs c k xs =>
    obtain ⟨q, ho, hq, hc⟩ := f
    obtain ⟨oq, hoq, _⟩ := qsnap_parts hq
    refine ⟨_, ho, ?_⟩
    rw [bind_eval, bind_eval, getObj_of ho] at h
    simp only [arrayValues, copyQuantity, bind_eval, pure_eval, newObj, getQ_of hoq] at h
    cases h; exact ⟨rfl, rfl⟩
  | fixed d qs c k xs =>
    obtain ⟨q, ho, hq, hc⟩ := f
    obtain ⟨oq, hoq, _⟩ := qsnap_parts hq
    refine ⟨_, ho, ?_⟩
    rw [bind_eval, bind_eval, getObj_of ho] at h
    simp only [arrayValues, copyQuantity, mkFixedWith, bind_eval, pure_eval, getQ_of hoq, readSeq_of hc] at h
    split at h
    · rename_i heq
      cases h
      split at heq
      · cases heq
      · split at heq
        · cases heq
        · simp only [newObj] at heq; cases heq; exact ⟨rfl, rfl⟩
    · cases h
  | fscalar qs v n f x =>
    obtain ⟨q, ho, hq, hv, hf⟩ := f
    refine ⟨_, ho, ?_⟩
    rw [bind_eval, bind_eval, getObj_of ho] at h
    simp only [copyQuantity, bind_eval, pure_eval, newObj] at h
    cases h; exact ⟨rfl, rfl⟩

theorem readSeq_inv {s s' : St} {r : Ref} {p : Kind × List Rat} (h : readSeq r s = .ok (p, s')) :
    s' = s ∧ s.heap[r]? = some (.seq p.1 p.2) := by
  unfold readSeq at h
  rw [bind_eval] at h
  unfold readM at h
  cases hc : s.heap[r]? with
  | none => rw [hc] at h; cases h
  | some c =>
    rw [hc] at h
    cases c with
    | seq k xs => simp only [pure_eval] at h; cases h; exact ⟨rfl, rfl⟩
    | _ => simp only [failM] at h; cases h

/-- unpickling a Scalar: `Scalar(quantity', value, None)` with the SAME number and the re-obtained quantity -/
theorem pickle_scalar_parts {db : Db} {s s' : St} {i q : Nat} {x : Rat} {out : Out}
    (ho : s.objs[i]? = some (.scalar q x)) (h : exec db (.pickle i) s = .ok (out, s')) :
    ∃ q' s1, pickleQuantity db q s = .ok (q', s1) ∧ out = .obj s1.objs.length true ∧
      s' = { s1 with objs := s1.objs ++ [.scalar q' x] } := by
  rw [exec_pickle] at h
  unfold fresh pickleObj at h
  rw [bind_eval, bind_eval, getObj_of ho] at h
  simp only [bind_eval] at h
  cases hp : pickleQuantity db q s with
  | error e => rw [hp] at h; cases h
  | ok p =>
    obtain ⟨q', s1⟩ := p
    rw [hp] at h
    simp only [newObj, pure_eval] at h
    cases h
    exact ⟨q', s1, rfl, rfl, rfl⟩

/-- unpickling a FixedArray: same dimension, a NEW container of the same kind with the same contents, the
re-obtained quantity -/
theorem pickle_fixed_parts {db : Db} {s s' : St} {i d q : Nat} {c : Ref} {out : Out}
    (ho : s.objs[i]? = some (.fixed d q c)) (h : exec db (.pickle i) s = .ok (out, s')) :
    ∃ q' s1 k xs, pickleQuantity db q s = .ok (q', s1) ∧ s1.heap[c]? = some (.seq k xs) ∧
      out = .obj s1.objs.length true ∧
      s' = { s1 with heap := s1.heap ++ [.seq k xs], objs := s1.objs ++ [.fixed d q' s1.heap.length] } := by
  rw [exec_pickle] at h
  unfold fresh pickleObj at h
  rw [bind_eval, bind_eval, getObj_of ho] at h
  simp only [bind_eval] at h
  cases hp : pickleQuantity db q s with
  | error e => rw [hp] at h; cases h
  | ok p =>
    obtain ⟨q', s1⟩ := p
    rw [hp] at h
    simp only at h
    cases hr : readSeq c s1 with
    | error e => rw [hr] at h; cases h
    | ok p2 =>
      obtain ⟨kx, s2⟩ := p2
      obtain ⟨hs2, hc⟩ := readSeq_inv hr
      subst hs2
      rw [hr] at h
      simp only [allocM] at h
      split at h
      · rename_i heq
        split at heq
        · cases heq
        · split at heq
          · cases heq
          · simp only [newObj] at heq; cases heq
            simp only [pure_eval] at h; cases h
            exact ⟨q', s2, kx.1, kx.2, rfl, hc, rfl, rfl⟩
      · cases h

/-! ### a three-unit database and helpers for the non-vacuity examples of `Props/C13.lean` -/

def exLength : Sym := 114849160783212   -- "length"
def exTime : Sym := 1701669236          -- "time"
def exM : Sym := 109                    -- "m"
def exCm : Sym := 28003                 -- "cm"
def exS : Sym := 115                    -- "s"
def exCap : Sym := 7364963              -- "cap"

def exRow (qt sym : Sym) (toB fromB : Mob) : UnitRow :=
  { qtype := qt, name := sym, sym := sym, ok := true, toBase := toB, fromBase := fromB, hasConvTo := true,
    hasConvFrom := true, annTo := none, annFrom := none, defaultCat := qt, digits := 0 }

def exCat (c qt u : Sym) : CatRow :=
  { name := c, qtype := qt, validUnits := none, defaultUnit := u, defaultValue := 0, minV := none, maxV := none,
    minExcl := false, maxExcl := false, caption := c }

/-- length: m (base), cm; time: s -/
def exDb : Db :=
  { units := [exRow exLength exM Mob.ident Mob.ident, exRow exLength exCm ⟨0, 1 / 100, 1, 0⟩ ⟨0, 100, 1, 0⟩,
              exRow exTime exS Mob.ident Mob.ident],
    cats := [exCat exLength exLength exM, exCat exTime exTime exS] }

def errIs (r : Option (Except ErrKind Out)) (e : ErrKind) : Bool :=
  match r with
  | some (.error x) => x == e
  | _ => false

def exLim : Sym := 7170412              -- "lim": a length category with limits 0 ≤ x ≤ 100 m

/-- `exDb` plus a category with limits -/
def exDbLim : Db :=
  { exDb with cats := exDb.cats ++ [{ exCat exLim exLength exM with minV := some 0, maxV := some 100 }] }

def outputs (db : Db) (s : St) : List Op → List (Except ErrKind Out)
  | [] => []
  | op :: ops => (step db s op).2 :: outputs db (step db s op).1 ops

def outIs (r : Option (Except ErrKind Out)) (o : Out) : Bool :=
  match r with
  | some (.ok x) => x == o
  | _ => false

end Barril.Heap
