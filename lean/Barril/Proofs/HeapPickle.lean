/-
C13, pickle round trips at full strength: the interning invariant of the heap model (`Barril/Model/Heap.lean`)
and what `pickle.loads(pickle.dumps(quantity))` returns on a state that satisfies it.

`CInv db s` is the heap-model counterpart of C07's `Inv` (`Barril/Proofs/InternLemmas.lean`, over
`Barril/Model/Intern.lean`): every quantity object is "as constructed" (its cached strings agree with its dict; a
simple quantity is one `[unit, 1]` list of a unit that is valid for its category; a derived one is not of the
collapsing shape), and every entry of `quantities_cache` points to a quantity with exactly the content its key
names.  The two models have different state types (`Intern.State` keeps frozen/unfrozen cells and request
forms, `Heap.St` keeps value objects and containers), so C07's theorem cannot be applied to a `Heap.St`
directly; the invariant is restated here for `Heap.St` and the round trip is proved from it.
-/
import Barril.Proofs.HeapEval

namespace Barril.Heap
open Barril

/-! ### small evaluation tools -/

theorem bind_ok {α β : Type} {m : M α} {f : α → M β} {s s' : St} {b : β} (h : (m >>= f) s = .ok (b, s')) :
    ∃ a s1, m s = .ok (a, s1) ∧ f a s1 = .ok (b, s') := by
  rw [bind_eval] at h
  cases hm : m s with
  | error e => rw [hm] at h; cases h
  | ok p => obtain ⟨a, s1⟩ := p; rw [hm] at h; exact ⟨a, s1, rfl, h⟩

theorem liftE_ok {α : Type} {x : Except ErrKind α} {s s' : St} {a : α} (h : liftE x s = .ok (a, s')) :
    s = s' ∧ x = .ok a := by
  unfold liftE at h
  cases x with
  | error e => cases h
  | ok v => cases h; exact ⟨rfl, rfl⟩

theorem cacheGet_ok {k : QKey} {s s' : St} {r : Option Nat} (h : cacheGet k s = .ok (r, s')) :
    s = s' ∧ ∀ q, r = some q → (k, q) ∈ s.cache := by
  unfold cacheGet at h
  cases h
  refine ⟨rfl, fun q hq => ?_⟩
  cases hf : s.cache.find? (fun x => x.1 == k) with
  | none => rw [hf] at hq; cases hq
  | some p =>
    rw [hf] at hq
    simp only [Option.map_some, Option.some.injEq] at hq
    have hm := List.mem_of_find?_eq_some hf
    have hk := List.find?_some hf
    have hk' : p.1 = k := by simpa using hk
    obtain ⟨k', q'⟩ := p
    simp only at hk' hq
    subst hk' hq
    exact hm

/-- `copy.deepcopy` of a dict: the copy reads like the original; nothing but new cells -/
theorem copyPairs_spec (es0 : List (Sym × Ref)) {s sa : St} {es : List (Sym × Ref)} {items : List (Sym × Sym × Int)}
    (h : copyPairs es0 s = .ok (es, sa)) (hi : itemsOf s.heap es0 = some items) :
    itemsOf sa.heap es = some items ∧ sa.cache = s.cache ∧ sa.quants = s.quants ∧ ∃ t, sa.heap = s.heap ++ t := by
  induction es0 generalizing s sa es items with
  | nil =>
    unfold copyPairs at h
    cases h
    exact ⟨hi, rfl, rfl, [], by simp⟩
  | cons e rest ih =>
    obtain ⟨c, r⟩ := e
    unfold itemsOf at hi
    cases hr : s.heap[r]? with
    | none => rw [hr] at hi; simp at hi
    | some cell =>
      rw [hr] at hi
      cases hrest : itemsOf s.heap rest with
      | none => rw [hrest] at hi; cases cell <;> simp at hi
      | some ritems =>
        rw [hrest] at hi
        cases cell with
        | pair u x =>
          simp only [Option.some.injEq] at hi
          subst hi
          unfold copyPairs at h
          obtain ⟨p, s1, h1, h⟩ := bind_ok h
          rw [readPair_of hr] at h1
          cases h1
          obtain ⟨r', s2, h2, h⟩ := bind_ok h
          unfold allocM at h2
          cases h2
          obtain ⟨es', s3, h3, h⟩ := bind_ok h
          rw [pure_eval] at h
          cases h
          have hmono : itemsOf (s.heap ++ [Cell.pair u x]) rest = some ritems :=
            itemsOf_mono (fun r c hc => getElem?_append_some hc) rest hrest
          obtain ⟨g1, g2, g3, t, g4⟩ := ih (s := { s with heap := s.heap ++ [Cell.pair u x] }) h3 hmono
          refine ⟨?_, g2, g3, Cell.pair u x :: t, by rw [g4]; simp⟩
          unfold itemsOf
          have hcell : sa.heap[s.heap.length]? = some (Cell.pair u x) := by
            rw [g4]; simp
          rw [hcell, g1]
        | _ => simp at hi

/-! ### the invariant -/

/-- a quantity object as `Quantity.__init__` leaves it -/
structure QShape (db : Db) (qs : QSnap) : Prop where
  comp : qs.comp = qs.items
  simple : qs.derived = false → ∃ c u, qs.items = [(c, u, 1)] ∧ db.categoryUnitValid c u = true
  derived : qs.derived = true → ∀ c u, qs.items ≠ [(c, u, 1)]

/-- what an entry of `quantities_cache` promises (a key with category `None` / an unregistered category, or a
legacy spelling of the unit, promises nothing here: such keys are never looked up by an unpickle) -/
def KeyOK (db : Db) (s : St) : QKey → Nat → Prop
  | .simple c u cap, q => db.categoryUnitValid c u = true →
      qsnap s q = some ⟨[(c, u, 1)], cap, false, [(c, u, 1)]⟩
  | .derived items cap, q => qsnap s q = some ⟨items, cap, true, items⟩

structure CInv (db : Db) (s : St) : Prop where
  quants : ∀ q o, s.quants[q]? = some o → ∃ qs, qsnap s q = some qs ∧ QShape db qs
  cache : ∀ k q, (k, q) ∈ s.cache → KeyOK db s k q

theorem CInv.empty (db : Db) : CInv db St.empty :=
  ⟨fun q o h => by simp [St.empty] at h, fun k q h => by simp [St.empty] at h⟩

theorem valid_cat_ne_zero {db : Db} (hz : db.catByName 0 = none) {c u : Sym} (h : db.categoryUnitValid c u = true) :
    c ≠ 0 := by
  intro hc
  subst hc
  unfold Db.categoryUnitValid at h
  rw [hz] at h
  cases h

theorem valid_cat_some {db : Db} {c u : Sym} (h : db.categoryUnitValid c u = true) : ∃ ci, db.catByName c = some ci := by
  unfold Db.categoryUnitValid at h
  cases hc : db.catByName c with
  | none => rw [hc] at h; cases h
  | some ci => exact ⟨ci, rfl⟩

theorem qsnap_new {s : St} {o : QObj} {items : List (Sym × Sym × Int)} (hi : itemsOf s.heap o.entries = some items) :
    qsnap { s with quants := s.quants ++ [o] } s.quants.length = some ⟨items, o.caption, o.derived, o.comp⟩ := by
  unfold qsnap
  simp [hi]

/-! ### the round trip of a quantity -/

/-- `pickle.loads(pickle.dumps(q))` on a state with the interning invariant: the quantity that comes back has the
SAME snapshot as `q` (dict contents, caption, derived flag, cached strings) -/
theorem pickleQuantity_same {db : Db} (hz : db.catByName 0 = none) {s s1 : St} (inv : CInv db s) {q q' : Nat}
    {qs : QSnap} (hq : qsnap s q = some qs) (h : pickleQuantity db q s = .ok (q', s1)) :
    qsnap s1 q' = some qs := by
  obtain ⟨po, hpo, hitems, hcap, hder, hcomp⟩ := qsnap_parts hq
  have sh : QShape db qs := by
    obtain ⟨qs0, hqs0, sh⟩ := inv.quants q po hpo
    rw [hq] at hqs0
    cases hqs0
    exact sh
  unfold pickleQuantity at h
  obtain ⟨o, s0, h1, h⟩ := bind_ok h
  rw [getQ_of hpo] at h1
  cases h1
  obtain ⟨es, sa, h2, h⟩ := bind_ok h
  obtain ⟨hes, hcache, hquants, t, hheap⟩ := copyPairs_spec _ h2 hitems
  have fr : Frame s.heap.length s sa := ((copyPairs_safe _).run s es sa (Nat.le_refl _) h2).1
  unfold obtainDict at h
  obtain ⟨items', s3, h3, h⟩ := bind_ok h
  rw [readItems_of _ hes] at h3
  cases h3
  obtain ⟨items, cap, der, comp⟩ := qs
  simp only at hitems hcap hder hcomp hes h sh
  have hcompI : comp = items := sh.comp
  subst hcap
  split at h
  · -- one entry with exponent 1: `ObtainQuantity(unit, category, caption)`
    rename_i c u
    have hd : der = false := by
      cases der with
      | false => rfl
      | true => exact absurd rfl (sh.derived rfl c u)
    obtain ⟨c', u', hcu, hvalid⟩ := sh.simple hd
    simp only [List.cons.injEq, Prod.mk.injEq, and_true] at hcu
    obtain ⟨rfl, rfl, _⟩ := hcu
    have hc0 : c ≠ 0 := valid_cat_ne_zero hz hvalid
    subst hd hcompI
    unfold obtainSimple at h
    obtain ⟨r, s4, h4, h⟩ := bind_ok h
    obtain ⟨hs4, hmem⟩ := cacheGet_ok h4
    subst hs4
    cases r with
    | some q0 =>
      simp only [pure_eval] at h
      cases h
      have hk := inv.cache _ _ (hcache ▸ hmem _ rfl)
      exact qsnap_stable fr (hk hvalid)
    | none =>
      simp only [hc0, if_false] at h
      obtain ⟨q1, s5, h5, h⟩ := bind_ok h
      unfold newSimpleQuantity at h5
      obtain ⟨ci, hci⟩ := valid_cat_some hvalid
      rw [hci] at h5
      simp only [hvalid, if_true] at h5
      obtain ⟨u1, s6, h6, h5⟩ := bind_ok h5
      rw [pure_eval] at h6
      cases h6
      obtain ⟨r1, s7, h7, h5⟩ := bind_ok h5
      unfold allocM at h7
      cases h7
      unfold newQuant at h5
      cases h5
      obtain ⟨_, s8, h8, h⟩ := bind_ok h
      unfold cachePut at h8
      cases h8
      rw [pure_eval] at h
      cases h
      have := qsnap_new (s := { sa with heap := sa.heap ++ [Cell.pair u 1] })
        (o := ⟨[(c, sa.heap.length)], po.caption, false, [(c, u, 1)]⟩) (items := [(c, u, 1)])
        (by simp [itemsOf])
      exact this
  · -- any other dict: interned under `(items, caption)`
    rename_i hne
    have hd : der = true := by
      cases der with
      | true => rfl
      | false =>
        obtain ⟨c', u', hcu, _⟩ := sh.simple rfl
        exact absurd hcu (hne c' u')
    subst hd hcompI
    obtain ⟨r, s4, h4, h⟩ := bind_ok h
    obtain ⟨hs4, hmem⟩ := cacheGet_ok h4
    subst hs4
    cases r with
    | some q0 =>
      simp only [pure_eval] at h
      cases h
      have hk := inv.cache _ _ (hcache ▸ hmem _ rfl)
      exact qsnap_stable fr hk
    | none =>
      simp only at h
      obtain ⟨_, s5, h5, h⟩ := bind_ok h
      obtain ⟨hs5, _⟩ := liftE_ok h5
      subst hs5
      obtain ⟨own, sb, h6, h⟩ := bind_ok h
      obtain ⟨hown, _, hq6, _, _⟩ := copyPairs_spec _ h6 hes
      obtain ⟨_, s7, h7, h⟩ := bind_ok h
      obtain ⟨hs7, _⟩ := liftE_ok h7
      subst hs7
      obtain ⟨q1, s8, h8, h⟩ := bind_ok h
      unfold newQuant at h8
      cases h8
      obtain ⟨_, s9, h9, h⟩ := bind_ok h
      unfold cachePut at h9
      cases h9
      rw [pure_eval] at h
      cases h
      have := qsnap_new (s := sb) (o := ⟨own, po.caption, true, comp⟩) (items := comp) hown
      exact this

end Barril.Heap
