/-
The `Alg` engine: arithmetic on quantities (C03, C04), written after the Python function by function.

  `UnitDatabase._MatchQuantities`, `_ConvertMatchingExp`            → `matchOne`, `matchQuantities`,
                                                                      `Db.convertMatchingExp`
  `UnitDatabase._DoOperationWithSameQuantity` (Sum / Subtract)      → `opSame` (+ `pickSame`)
  `UnitDatabase._DoOperationResultingInNewQuantity` (Multiply,      → `opNew` (+ `mergeOne`, `mergeAll`,
      Divide, FloorDivide)                                             `dropZero`, `applyNew`)
  `Quantity.GetComposingUnitsJoiningExponents`                      → `joined`, `unitTotal`
  `Quantity.__eq__`                                                 → `Quantity.eqv`
  `Quantity.__init__` (simple and derived branch), `ObtainQuantity`
      called with a dict, `Quantity.CreateCopyInstance/MakeCopy`,
      `Quantity.CreateDerived`                                      → `simpleQuantity`, `derivedQuantity`,
                                                                      `obtainFromDict`, `createDerived`
  `Scalar.__pow__`                                                  → `pow`

A quantity is what the code stores: the ordered dict `category -> [unit, exp]` (an association list in
insertion order; a Python dict has no duplicate keys), the unknown-unit caption ('' and None are the code 0)
and the `_is_derived` flag.  The memo tables (`quantities_cache`, `_category_unit_valid`) are not part of
this engine: on a fixed registry they only return what would be recomputed (that is C07/C15).
Core Lean only.
-/
import Barril.Model.Conv

namespace Barril.Alg
open Barril

structure Entry where
  cat : Sym
  unit : Sym
  exp : Int
deriving DecidableEq, Repr

structure Quantity where
  entries : List Entry
  caption : Sym
  derived : Bool
deriving DecidableEq, Repr

/-- `Quantity.__eq__`: the items of the dict and the caption (not the derived flag) -/
def Quantity.eqv (a b : Quantity) : Bool := a.entries == b.entries && a.caption == b.caption

/-- `float ** int` on exact numbers -/
def zpowR (q : Rat) : Int → Rat
  | .ofNat n => q ^ n
  | .negSucc n => (q ^ (n + 1))⁻¹

/-- `dict.get(key)` on the `quantity type -> used unit` dict -/
def lookupU (k : Sym) : List (Sym × Sym) → Option Sym
  | [] => none
  | (a, b) :: t => if a == k then some b else lookupU k t

/-- `GetCategoryQuantityType`: `InvalidQuantityTypeError` for an unregistered category -/
def catQType (db : Db) (c : Sym) : Except ErrKind Sym :=
  match db.catByName c with
  | some ci => .ok ci.qtype
  | none => .error .units

/-- `value * ratio ** exp`; `0.0 ** negative` is Python's `ZeroDivisionError` -/
def scaleByPow (ratio : Rat) (exp : Int) (v : Rat) : Except ErrKind Rat :=
  if ratio = 0 ∧ exp < 0 then .error .other else .ok (v * zpowR ratio exp)

/-- `tobase(1.0) - tobase(0.0)` of a row: the increment one step of the unit has in the base unit -/
def baseIncrement (r : UnitRow) : Except ErrKind Rat :=
  if !r.ok then .error .other else
  match r.toBase.apply 1 with
  | .error e => .error e
  | .ok b1 =>
    match r.toBase.apply 0 with
    | .error e => .error e
    | .ok b0 => .ok (b1 - b0)

/-- the unit ratio when `zero != 0.0`: `GetInfo` of both units (without `fix_unknown`), then the quotient of
their base increments; a zero denominator is Python's `ZeroDivisionError` -/
def ratioByIncrements (db : Db) (qt u w : Sym) : Except ErrKind Rat :=
  match db.getInfo qt u with
  | .error e => .error e
  | .ok ru =>
    match db.getInfo qt w with
    | .error e => .error e
    | .ok rw =>
      match baseIncrement ru with
      | .error e => .error e
      | .ok du =>
        match baseIncrement rw with
        | .error e => .error e
        | .ok dw => if dw = 0 then .error .other else .ok (du / dw)

/-- `_ConvertMatchingExp(quantity_type, from_unit, to_unit, exp, value, in_derived)`: the same unit, or
exponent 1 outside a derived operand, is the plain conversion; otherwise `zero = Convert(0.0)` is computed
first: exponent 1 without offset (`zero == 0.0`) is again the plain conversion, everything else scales the
value by `ratio ** exp`, where `ratio = Convert(1.0)` when `zero == 0.0` and otherwise (an offset would swallow a
small ratio in floats) the quotient of the increments the two units have in the base unit -/
def convertMatchingExp (db : Db) (qt u w : Sym) (exp : Int) (v : Rat) (inDerived : Bool) : Except ErrKind Rat :=
  if u == w || (exp == 1 && !inDerived) then db.convert qt u w v
  else
    match db.convert qt u w 0 with
    | .error e => .error e
    | .ok c0 =>
      if exp == 1 && c0 == 0 then db.convert qt u w v
      else if c0 == 0 then
        match db.convert qt u w 1 with
        | .error e => .error e
        | .ok c1 => scaleByPow c1 exp v
      else
        match ratioByIncrements db qt u w with
        | .error e => .error e
        | .ok ratio => scaleByPow ratio exp v

/-- one operand's pass of the loop in `_MatchQuantities`: the first unit seen for a quantity type is
kept, every later entry of that type gets that unit and the value is converted accordingly;
`inDerived` is `len(c) > 1` of the operand's dict (it does not change during the pass) -/
def matchOne (db : Db) (inDerived : Bool) : List (Sym × Sym) → List Entry → Rat →
    Except ErrKind (List (Sym × Sym) × List Entry × Rat)
  | used, [], v => .ok (used, [], v)
  | used, e :: es, v =>
    match catQType db e.cat with
    | .error err => .error err
    | .ok qt =>
      match lookupU qt used with
      | none =>
        match matchOne db inDerived ((qt, e.unit) :: used) es v with
        | .error err => .error err
        | .ok (u', es', v') => .ok (u', e :: es', v')
      | some w =>
        match convertMatchingExp db qt e.unit w e.exp v inDerived with
        | .error err => .error err
        | .ok v1 =>
          match matchOne db inDerived used es v1 with
          | .error err => .error err
          | .ok (u', es', v') => .ok (u', { e with unit := w } :: es', v')

/-- `len(c) > 1` -/
def isDerivedDict (es : List Entry) : Bool := decide (1 < es.length)

/-- `_MatchQuantities`: the left operand first, then the right one, one shared `used` dict -/
def matchQuantities (db : Db) (e1 e2 : List Entry) (v1 v2 : Rat) :
    Except ErrKind (List Entry × List Entry × Rat × Rat) :=
  match matchOne db (isDerivedDict e1) [] e1 v1 with
  | .error err => .error err
  | .ok (used, e1', v1') =>
    match matchOne db (isDerivedDict e2) used e2 v2 with
    | .error err => .error err
    | .ok (_, e2', v2') => .ok (e1', e2', v1', v2')

/-- the accumulated exponent of a unit symbol over all categories
(`only_units_expoents[unit]`, the values of `GetComposingUnitsJoiningExponents`) -/
def unitTotal (u : Sym) : List Entry → Int
  | [] => 0
  | e :: es => (if e.unit == u then e.exp else 0) + unitTotal u es

/-- `existing = ret.get(unit, 0); ret[unit] = existing + exp` -/
def addJoined (u : Sym) (x : Int) : List (Sym × Int) → List (Sym × Int)
  | [] => [(u, x)]
  | (w, t) :: rest => if w == u then (w, t + x) :: rest else (w, t) :: addJoined u x rest

def joinedFrom (acc : List (Sym × Int)) : List Entry → List (Sym × Int)
  | [] => acc
  | e :: es => joinedFrom (addJoined e.unit e.exp acc) es

/-- `GetComposingUnitsJoiningExponents` -/
def joined (es : List Entry) : List (Sym × Int) := joinedFrom [] es

/-- `set(a) == set(b)` -/
def sameSet (a b : List (Sym × Int)) : Bool := a.all (b.contains ·) && b.all (a.contains ·)

/-! ### building quantities -/

/-- simple branch of `Quantity.__init__(category, unit, caption)`: the category must exist, the unit must
belong to its quantity type (`CheckCategoryUnit`), a legacy spelling is retried once -/
def simpleQuantity (db : Db) (c u cap : Sym) : Except ErrKind Quantity :=
  match db.catByName c with
  | none => .error .units
  | some _ =>
    if db.categoryUnitValid c u then .ok ⟨[⟨c, u, 1⟩], cap, false⟩
    else if isLegacy db.legacy u then
      if db.categoryUnitValid c (fixLegacy db.legacy u) then .ok ⟨[⟨c, fixLegacy db.legacy u, 1⟩], cap, false⟩
      else .error .units
    else .error .units

/-- the loop over the dict in the derived branch of `Quantity.__init__` (`GetCategoryQuantityType`) -/
def checkCats (db : Db) : List Entry → Except ErrKind Unit
  | [] => .ok ()
  | e :: es =>
    match catQType db e.cat with
    | .error err => .error err
    | .ok _ => checkCats db es

/-- derived branch of `Quantity.__init__(OrderedDict, None, caption)` -/
def derivedQuantity (db : Db) (es : List Entry) (cap : Sym) : Except ErrKind Quantity :=
  match checkCats db es with
  | .error err => .error err
  | .ok _ => .ok ⟨es, cap, true⟩

/-- `ObtainQuantity(dict, unknown_unit_caption=caption)`: a single entry with exponent 1 is the simple
case, everything else (the empty dict included) a derived quantity -/
def obtainFromDict (db : Db) (es : List Entry) (cap : Sym) : Except ErrKind Quantity :=
  match es with
  | [e] => if e.exp == 1 then simpleQuantity db e.cat e.unit cap else derivedQuantity db es cap
  | _ => derivedQuantity db es cap

/-- the validation loop of `Quantity._CreateDerived`: `GetCategoryInfo`, `CheckQuantityTypeUnit` -/
def validateEntries (db : Db) : List Entry → Except ErrKind Unit
  | [] => .ok ()
  | e :: es =>
    match db.catByName e.cat with
    | none => .error .units
    | some ci =>
      match db.checkQuantityTypeUnit ci.qtype e.unit with
      | .error err => .error err
      | .ok _ => validateEntries db es

/-- `Quantity.CreateDerived(dict)` -/
def createDerived (db : Db) (es : List Entry) : Except ErrKind Quantity :=
  match validateEntries db es with
  | .error err => .error err
  | .ok _ => obtainFromDict db es 0

/-! ### Sum / Subtract -/

inductive SameOp | add | sub
deriving DecidableEq, Repr

def applySame : SameOp → Rat → Rat → Rat
  | .add, a, b => a + b
  | .sub, a, b => a - b

/-- the comparison of the joined composing units at the end of `_DoOperationWithSameQuantity` -/
def pickSame (c1 c2 : Quantity) : Except ErrKind Quantity :=
  if sameSet (joined c1.entries) (joined c2.entries) then .ok c1
  else if (joined c1.entries).isEmpty then .ok c2
  else if (joined c2.entries).isEmpty then .ok c1
  else .error .units

/-- `_DoOperationWithSameQuantity(quantity1, quantity2, value1, value2, operation)` -/
def opSame (db : Db) (op : SameOp) (q1 q2 : Quantity) (v1 v2 : Rat) : Except ErrKind (Quantity × Rat) :=
  if q1.eqv q2 then .ok (q1, applySame op v1 v2)
  else
    match matchQuantities db q1.entries q2.entries v1 v2 with
    | .error err => .error err
    | .ok (e1, e2, w1, w2) =>
      match obtainFromDict db e1 q1.caption with
      | .error err => .error err
      | .ok c1 =>
        match obtainFromDict db e2 q2.caption with
        | .error err => .error err
        | .ok c2 =>
          match pickSame c1 c2 with
          | .error err => .error err
          | .ok q => .ok (q, applySame op w1 w2)

/-! ### Multiply / Divide / FloorDivide -/

inductive NewOp | mul | div | floordiv
deriving DecidableEq, Repr

/-- `operation_exp` -/
def expOp : NewOp → Int → Int → Int
  | .mul, a, b => a + b
  | .div, a, b => a - b
  | .floordiv, a, b => a - b

/-- `operation`; a zero divisor is Python's `ZeroDivisionError` -/
def applyNew : NewOp → Rat → Rat → Except ErrKind Rat
  | .mul, a, b => .ok (a * b)
  | .div, a, b => if b = 0 then .error .other else .ok (a / b)
  | .floordiv, a, b => if b = 0 then .error .other else .ok ((a / b).floor : Int)

/-- one iteration of "add the categories to the resulting one": a new category is appended with
`operation_exp(0, exp2)`, an existing one (same unit, otherwise `RuntimeError`) gets the combined exponent -/
def mergeOne (f : Int → Int → Int) : List Entry → Entry → Except ErrKind (List Entry)
  | [], x => .ok [⟨x.cat, x.unit, f 0 x.exp⟩]
  | e :: rest, x =>
    if e.cat == x.cat then
      if e.unit == x.unit then .ok ({ e with exp := f e.exp x.exp } :: rest) else .error .runtime
    else
      match mergeOne f rest x with
      | .error err => .error err
      | .ok rest' => .ok (e :: rest')

def mergeAll (f : Int → Int → Int) : List Entry → List Entry → Except ErrKind (List Entry)
  | e1, [] => .ok e1
  | e1, x :: xs =>
    match mergeOne f e1 x with
    | .error err => .error err
    | .ok e1' => mergeAll f e1' xs

/-- "remove the ones that have exponent = 0": own exponent 0 or accumulated exponent of the unit 0 -/
def keepEntry (all : List Entry) (e : Entry) : Bool := !(e.exp == 0 || unitTotal e.unit all == 0)

def dropZero (es : List Entry) : List Entry := es.filter (keepEntry es)

/-- `_DoOperationResultingInNewQuantity`; the quantity is created before the values are combined -/
def opNew (db : Db) (op : NewOp) (q1 q2 : Quantity) (v1 v2 : Rat) : Except ErrKind (Quantity × Rat) :=
  match matchQuantities db q1.entries q2.entries v1 v2 with
  | .error err => .error err
  | .ok (e1, e2, w1, w2) =>
    match mergeAll (expOp op) e1 e2 with
    | .error err => .error err
    | .ok m =>
      match createDerived db (dropZero m) with
      | .error err => .error err
      | .ok q =>
        match applyNew op w1 w2 with
        | .error err => .error err
        | .ok v => .ok (q, v)

/-- the loop of `Scalar.__pow__`: `result = result * self`, `k` times -/
def powLoop (db : Db) (q : Quantity) (v : Rat) : Nat → Quantity → Rat → Except ErrKind (Quantity × Rat)
  | 0, rq, rv => .ok (rq, rv)
  | k + 1, rq, rv =>
    match opNew db .mul rq q rv v with
    | .error err => .error err
    | .ok (rq', rv') => powLoop db q v k rq' rv'

/-- `Scalar.__pow__(exponent)`: `range(exponent - 1)` is empty for exponents below 2 -/
def pow (db : Db) (q : Quantity) (v : Rat) (n : Int) : Except ErrKind (Quantity × Rat) :=
  powLoop db q v (n - 1).toNat q v

end Barril.Alg
