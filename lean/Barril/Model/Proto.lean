/-
Line protocol helpers shared by the drivers (`Drivers/*.lean`): one JSON object per line in, one
JSON object per line out.  Rationals travel as "n/d", symbols as the decimal string of their code.
-/
import Lean.Data.Json
import Barril.Model.Basic

namespace Barril.Proto
open Lean

def parseRat? (s : String) : Option Rat :=
  match s.splitOn "/" with
  | [n, d] => match n.toInt?, d.toNat? with
    | some n, some d => if d = 0 then none else some (mkRat n d)
    | _, _ => none
  | [n] => n.toInt?.map (fun n => (n : Rat))
  | _ => none

def ratStr (q : Rat) : String := s!"{q.num}/{q.den}"

def getStr (j : Json) (k : String) : Except String String :=
  match j.getObjVal? k with
  | .ok (.str s) => .ok s
  | _ => .error s!"missing string field {k}"

def getSym (j : Json) (k : String) : Except String Sym := do
  let s ← getStr j k
  match s.toNat? with
  | some n => .ok n
  | none => .error s!"field {k} is not a symbol code"

def getRat (j : Json) (k : String) : Except String Rat := do
  let s ← getStr j k
  match parseRat? s with
  | some q => .ok q
  | none => .error s!"field {k} is not a rational"

def getBool (j : Json) (k : String) : Except String Bool :=
  match j.getObjVal? k with
  | .ok (.bool b) => .ok b
  | _ => .error s!"missing bool field {k}"

def getInt (j : Json) (k : String) : Except String Int :=
  match j.getObjVal? k with
  | .ok (.num n) => if n.exponent = 0 then .ok n.mantissa else .error s!"field {k} not an integer"
  | .ok (.str s) => match s.toInt? with
    | some n => .ok n
    | none => .error s!"field {k} not an integer"
  | _ => .error s!"missing int field {k}"

def getArr (j : Json) (k : String) : Except String (Array Json) :=
  match j.getObjVal? k with
  | .ok (.arr a) => .ok a
  | _ => .error s!"missing array field {k}"

def symJ (s : Sym) : Json := .str (toString s)
def ratJ (q : Rat) : Json := .str (ratStr q)
def errJ (e : ErrKind) : Json := Json.mkObj [("err", .str e.name)]

/-- the read-eval-print loop of every driver -/
partial def loop (h : IO.FS.Stream) (out : IO.FS.Stream) (step : Json → Json) : IO Unit := do
  let line ← h.getLine
  if line.isEmpty then return ()
  let line := line.trimAscii.toString
  if line.isEmpty then
    loop h out step
  else
    let res := match Json.parse line with
      | .ok j => step j
      | .error e => Json.mkObj [("bad", .str e)]
    out.putStrLn res.compress
    loop h out step

/-- the loop for stateful engines -/
partial def loopS {σ : Type} (h : IO.FS.Stream) (out : IO.FS.Stream) (step : σ → Json → σ × Json) (s : σ) :
    IO Unit := do
  let line ← h.getLine
  if line.isEmpty then return ()
  let line := line.trimAscii.toString
  if line.isEmpty then
    loopS h out step s
  else
    match Json.parse line with
    | .ok j =>
      let (s', res) := step s j
      out.putStrLn res.compress
      loopS h out step s'
    | .error e =>
      out.putStrLn (Json.mkObj [("bad", .str e)]).compress
      loopS h out step s

end Barril.Proto
