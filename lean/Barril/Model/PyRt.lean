/-
Python run-time operations used by the definitions that `harness/pycode.py` generates from the source text of
/repo (`Barril/Gen/Code*.lean`): the operators that can raise.  Core Lean only.
-/
import Barril.Model.Conv

namespace Barril.PyRt
open Barril

/-- `x / y` on numbers: a zero divisor is Python's `ZeroDivisionError` -/
def div (x y : Rat) : Except ErrKind Rat :=
  if y = 0 then .error .other else .ok (x / y)

/-- exact `q ** n` for an integer `n` -/
def zpow (q : Rat) : Int → Rat
  | .ofNat n => q ^ n
  | .negSucc n => (q ^ (n + 1))⁻¹

/-- `x ** n` (`float ** int`): `0.0 ** negative` is Python's `ZeroDivisionError` -/
def pow (x : Rat) (n : Int) : Except ErrKind Rat :=
  if x = 0 ∧ n < 0 then .error .other else .ok (zpow x n)

/-- `unit_info.tobase`: the stored to-base callable of a row, applied to an exact number (a row whose callables
the translator could not execute is opaque: any call fails) -/
def tobaseOf (r : UnitRow) (x : Rat) : Except ErrKind Rat :=
  if !r.ok then .error .other else r.toBase.apply x

/-- `unit_info.frombase`, as `tobaseOf` -/
def frombaseOf (r : UnitRow) (x : Rat) : Except ErrKind Rat :=
  if !r.ok then .error .other else r.fromBase.apply x

/-- an attribute of `self` that a translated method reads and writes, carried as state: not there at all (reading it
is `AttributeError`), `None`, or a value -/
inductive Attr (α : Type)
  | absent
  | none
  | val (a : α)
deriving DecidableEq, Repr

/-- `self.x` -/
def Attr.get {α : Type} : Attr α → Except ErrKind (Option α)
  | .absent => .error .other
  | .none => .ok Option.none
  | .val a => .ok (some a)

/-- `hasattr(self, "x")` -/
def Attr.has {α : Type} : Attr α → Bool
  | .absent => false
  | _ => true

/-- `self.x = e` for an `e` that may be `None` -/
def Attr.ofOption {α : Type} : Option α → Attr α
  | Option.none => .none
  | some a => .val a

/-- a number where `None` is a `TypeError` (`None < 2`) -/
def unNone {α : Type} : Option α → Except ErrKind α
  | Option.none => .error .type
  | some a => .ok a

/-- `set(a).issuperset(set(b))` on lists of names -/
def isSuperset {α : Type} [BEq α] (a b : List α) : Bool := b.all (fun k => a.contains k)

/-- `xs[i]` for a constant index `i ≥ 0`: `IndexError` past the end -/
def index {α : Type} (xs : List α) (i : Nat) : Except ErrKind α :=
  match xs[i]? with
  | some x => .ok x
  | Option.none => .error .index

/-- `range(n)` as the list a `for` loop runs over: empty for `n ≤ 0` -/
def pyRange (n : Int) : List Nat := List.range n.toNat

/-- read of an attribute that is either absent (`AttributeError`) or holds a value -/
def slotGet {α : Type} : Option α → Except ErrKind α
  | Option.none => .error .other
  | some a => .ok a

/-- `d.get(k, default)` on an insertion-ordered dict (association list) -/
def adGet {κ ν : Type} [BEq κ] : List (κ × ν) → κ → ν → ν
  | [], _, d => d
  | (k', v) :: r, k, d => if k' == k then v else adGet r k d

/-- `d[k] = v`: an existing key keeps its place, a new key goes to the end -/
def adSet {κ ν : Type} [BEq κ] : List (κ × ν) → κ → ν → List (κ × ν)
  | [], k, v => [(k, v)]
  | (k', v') :: r, k, v => if k' == k then (k', v) :: r else (k', v') :: adSet r k v

/-- the position a Python index denotes in a sequence of length `n` (negative: from the end) -/
def normIndex (n : Nat) (i : Int) : Option Nat :=
  if 0 ≤ i then (if i.toNat < n then some i.toNat else Option.none)
  else (if i.natAbs ≤ n then some (n - i.natAbs) else Option.none)

/-- `xs[i]` for any int `i`: `IndexError` outside -/
def pyIndex {α : Type} (xs : List α) (i : Int) : Except ErrKind α :=
  match normIndex xs.length i with
  | Option.none => .error .index
  | some j =>
    match xs[j]? with
    | some x => .ok x
    | Option.none => .error .index

/-- `del xs[i]` (for an index in range; otherwise unchanged) -/
def pyDel {α : Type} (xs : List α) (i : Int) : List α :=
  match normIndex xs.length i with
  | Option.none => xs
  | some j => xs.eraseIdx j

/-- `xs.insert(i, x)` for `i ≥ 0` (past the end: appended) -/
def pyInsert {α : Type} (xs : List α) (i : Int) (x : α) : List α :=
  xs.take i.toNat ++ x :: xs.drop i.toNat

end Barril.PyRt
