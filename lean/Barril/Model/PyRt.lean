/-
Python run-time operations used by the definitions that `harness/pycode.py` generates from the source text of
/repo (`Barril/Gen/Code*.lean`): the operators that can raise.  Core Lean only.
-/
import Barril.Model.Conv

namespace Barril.PyRt
open Barril

/-- `x / y` on numbers: a zero divisor is Python's `ZeroDivisionError` -/
def div (x y : Rat) : Except ErrKind Rat :=
  if y = 0 then .error .other else .ok (x / y)

/-- exact `q ** n` for an integer `n` -/
def zpow (q : Rat) : Int → Rat
  | .ofNat n => q ^ n
  | .negSucc n => (q ^ (n + 1))⁻¹

/-- `x ** n` (`float ** int`): `0.0 ** negative` is Python's `ZeroDivisionError` -/
def pow (x : Rat) (n : Int) : Except ErrKind Rat :=
  if x = 0 ∧ n < 0 then .error .other else .ok (zpow x n)

/-- `unit_info.tobase`: the stored to-base callable of a row, applied to an exact number (a row whose callables
the translator could not execute is opaque: any call fails) -/
def tobaseOf (r : UnitRow) (x : Rat) : Except ErrKind Rat :=
  if !r.ok then .error .other else r.toBase.apply x

end Barril.PyRt
