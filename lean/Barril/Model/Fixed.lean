/-
C11: `FixedArray` (src/barril/units/_fixedarray.py) on top of `Array` (_array.py) and
`AbstractValueWithQuantityObject` (_abstractvaluewithquantity.py), and `Curve` (curve/curve.py).

Modelled function by function, as the code is NOW:
* the internal constructor `FixedArray._InternalCreateWithQuantity` as an automaton over the class
  attribute `_dimension` (absent / `None` / pinned by a subclass), the instance attribute, the
  `dimension` keyword and `len(values)`; `CheckValues`;
* every entry route: `FixedArray.__init__` (all positional forms of the shared constructor),
  `CreateWithQuantity` (the stub object), `CreateEmptyArray`, the bare internal constructor;
* `CreateCopy`, `copy`/`deepcopy`/`Copy`, `__reduce__` (pickle), `Array._DoOperation` with
  `_ValueGenerator` (the result is built by `self.__class__.CreateWithQuantity(q, values)`),
  `ChangingIndex`, `IndexAsScalar`;
* the quantities they need: `ObtainQuantity(unit, category)`, `Quantity.__init__` (simple branch),
  `GetDefaultCategory`, `Quantity.Convert` / `ConvertScalarValue`, `Scalar.CreateCopy`;
* `Curve.__init__`, `_CheckImageAndDomainLength`, `SetImage`, `SetDomain`, `GetLength`, `__getitem__` (index and
  slice, with Python's `slice.indices`), `__repr__` (which pairs are shown, the ellipsis; not the digits);
* the rest of the public surface of a FixedArray: `__len__`, `__iter__`, `__getitem__` (index and slice), the public
  `CheckValues`, `__eq__`, extra keywords of `CreateCopy`, `CreateCopyInstance`, and the inherited classmethod
  `FromScalars` (which cannot build a FixedArray).

Objects are immutable values here (no method of the modelled classes assigns to `self` after
construction); that the real operations do not write into their source is checked by the
correspondence on every case.  Numbers are exact rationals.  Core Lean only.
-/
import Barril.Model.Conv
import Barril.Model.Fail

namespace Barril.Fixed
open Barril

/-! ### values -/

/-- the container types the library distinguishes (`list`, `tuple`, `numpy.ndarray`) -/
inductive Kind | list | tuple | ndarray
deriving DecidableEq, Repr

/-- a 1-D container of numbers -/
structure Vals where
  kind : Kind
  xs : List Rat
deriving DecidableEq, Repr

/-- a Python object passed in a `values` slot: a container or an object without `__len__` -/
inductive ValArg
  | sized (v : Vals)
  | unsized
deriving DecidableEq, Repr

/-- `len(values)`; `TypeError` for an object without `__len__` -/
def pyLen : ValArg → Except ErrKind Int
  | .sized v => .ok (v.xs.length : Int)
  | .unsized => .error .type

/-! ### quantities (empty or simple) -/

inductive Qty
  | empty
  | simple (cat unit : Sym)
deriving DecidableEq, Repr

/-- `Quantity.GetUnit()` (the empty quantity has unit `''`) -/
def Qty.unit : Qty → Sym
  | .empty => 0
  | .simple _ u => u

/-- `Quantity.GetCategory()` -/
def Qty.cat : Qty → Sym
  | .empty => 0
  | .simple c _ => c

/-- the row `unit_to_unit_info[unit]` used by `GetDefaultCategory`: `KeyError` is retried with the
legacy spelling fixed (a second `KeyError` propagates), a non-legacy unknown unit gives `None` -/
def defaultCatRow (db : Db) (u : Sym) : Except ErrKind (Option UnitRow) :=
  match db.unitBySym u with
  | some r => .ok (some r)
  | none =>
    if isLegacy db.legacy u then
      match db.unitBySym (fixLegacy db.legacy u) with
      | some r => .ok (some r)
      | none => .error .key
    else .ok none

/-- the tail of `GetDefaultCategory`: the row's default category when truthy, else the quantity type
when that is a category, else `None` -/
def rowDefaultCategory (db : Db) (r : UnitRow) : Option Sym :=
  if r.defaultCat != 0 then some r.defaultCat
  else match db.catByName r.qtype with
    | some _ => some r.qtype
    | none => none

/-- `UnitDatabase.GetDefaultCategory(unit)` -/
def getDefaultCategory (db : Db) (u : Sym) : Except ErrKind (Option Sym) :=
  match defaultCatRow db u with
  | .error e => .error e
  | .ok none => .ok none
  | .ok (some r) => .ok (rowDefaultCategory db r)

/-- the unit check of `Quantity.__init__`: `CheckCategoryUnit`, retried once with the legacy
spelling fixed -/
def checkedUnit (db : Db) (c u : Sym) : Except ErrKind Sym :=
  if db.categoryUnitValid c u then .ok u
  else if isLegacy db.legacy u then
    (if db.categoryUnitValid c (fixLegacy db.legacy u) then .ok (fixLegacy db.legacy u) else .error .units)
  else .error .units

/-- simple branch of `Quantity.__init__(category, unit)` with a string unit; `category = None` is
`TypeError("Only str is accepted")` -/
def newQuantity (db : Db) (c : Option Sym) (u : Sym) : Except ErrKind Qty :=
  match c with
  | none => .error .type
  | some c =>
    match db.catByName c with
    | none => .error .units                         -- GetCategoryInfo: InvalidQuantityTypeError
    | some _ =>
      match checkedUnit db c u with
      | .error e => .error e
      | .ok u' => .ok (.simple c u')

/-- a Python string is truthy iff it is not empty -/
def truthy (c : Option Sym) : Bool :=
  match c with
  | none => false
  | some s => s != 0

/-- `ObtainQuantity(unit)` (no category): the default category of the unit, of its fixed legacy
spelling, or `UnitsError` -/
def obtainNoCategory (db : Db) (u : Sym) : Except ErrKind Qty :=
  match getDefaultCategory db u with
  | .error e => .error e
  | .ok c =>
    if truthy c then newQuantity db c u
    else if isLegacy db.legacy u then
      match getDefaultCategory db (fixLegacy db.legacy u) with
      | .error e => .error e
      | .ok c' => newQuantity db c' (fixLegacy db.legacy u)
    else .error .units

/-- `ObtainQuantity(unit, category)` for a string unit (the cache is transparent: C07) -/
def obtainQuantity (db : Db) (u : Sym) (c : Option Sym) : Except ErrKind Qty :=
  match c with
  | none => obtainNoCategory db u
  | some c => newQuantity db (some c) u

/-- a function that may raise, applied to the elements in order (a comprehension / a numpy elementwise call) -/
def mapE {α β : Type} (f : α → Except ErrKind β) : List α → Except ErrKind (List β)
  | [] => .ok []
  | x :: xs =>
    match f x with
    | .error e => .error e
    | .ok y =>
      match mapE f xs with
      | .error e => .error e
      | .ok ys => .ok (y :: ys)

/-- `UnitDatabase.Convert(category, from_unit, to_unit, values)` for a list / tuple / ndarray: the
two rows are looked up once, then every element goes through `frombase(tobase(v))` -/
def convertAll (db : Db) (cq fromU toU : Sym) (xs : List Rat) : Except ErrKind (List Rat) :=
  if fromU == toU then .ok xs else
  match db.typeOf cq with
  | .error e => .error e
  | .ok qt =>
    match db.getInfo qt fromU true with
    | .error e => .error e
    | .ok this =>
      match db.getInfo qt toU true with
      | .error e => .error e
      | .ok other => mapE (convRows this other) xs

/-- `Quantity.Convert(values, to_unit)`: the empty quantity has no composing unit and
`_ConvertWithExp` then returns the value as it is -/
def Qty.convertAll (db : Db) (q : Qty) (xs : List Rat) (toU : Sym) : Except ErrKind (List Rat) :=
  match q with
  | .empty => .ok xs
  | .simple c u => Fixed.convertAll db c u toU xs

/-- `Quantity.ConvertScalarValue(value, to_unit)` -/
def Qty.convertScalarValue (db : Db) (q : Qty) (x : Rat) (toU : Sym) : Except ErrKind Rat :=
  if q.unit == toU then .ok x else
  match q with
  | .empty => .ok x
  | .simple c u => db.convert c u toU x

/-! ### the internal constructor -/

/-- the class attribute `_dimension`: absent (a class outside the hierarchy), `None` (FixedArray
itself) or pinned by a subclass -/
inductive ClsAttr
  | missing
  | none
  | val (n : Int)
deriving DecidableEq, Repr

/-- the state of a FixedArray: `_dimension`, `_value`, `_quantity` -/
structure FixedArr where
  dim : Int
  vals : Vals
  q : Qty
deriving DecidableEq, Repr

/-- an object: its class (through the class attribute) and its state -/
structure Obj where
  cls : ClsAttr
  st : FixedArr
deriving DecidableEq, Repr

/-- what `self._dimension` evaluates to -/
inductive Attr
  | absent
  | none
  | val (n : Int)
deriving DecidableEq, Repr

/-- attribute lookup: the instance attribute (set by `__init__` or by hand) hides the class one -/
def lookupDim (cls : ClsAttr) (inst : Option Int) : Attr :=
  match inst with
  | some n => .val n
  | none =>
    match cls with
    | .missing => .absent
    | .none => .none
    | .val n => .val n

/-- `value` / `values` keywords: both given is `ValueError`, none is the failed `assert` -/
def mergeValue (values value : Option ValArg) : Except ErrKind ValArg :=
  match value, values with
  | some _, some _ => .error .value
  | some v, none => .ok v
  | none, some v => .ok v
  | none, none => .error .assertion

/-- the dimension the constructor settles on.  Without the keyword: `self._dimension`, which is
first set to `len(values)` when it is `None`; an absent attribute survives the `try` and raises
`AttributeError` at `dimension = self._dimension`.  With the keyword: it must agree with a
non-`None` `self._dimension` when the attribute exists -/
def resolveDim (cls : ClsAttr) (inst : Option Int) (dimension : Option Int) (values : ValArg) :
    Except ErrKind Int :=
  match dimension with
  | none =>
    match lookupDim cls inst with
    | .none => pyLen values
    | .val n => .ok n
    | .absent => .error .other
  | some d =>
    match lookupDim cls inst with
    | .val n => if d ≠ n then .error .value else .ok d
    | _ => .ok d

/-- `CheckValues(values, dimension)`; returns the container whose length was checked -/
def checkValues (values : ValArg) (dimension : Int) : Except ErrKind Vals :=
  match values with
  | .unsized => .error .type
  | .sized v => if (v.xs.length : Int) ≠ dimension then .error .value else .ok v

/-- `FixedArray._InternalCreateWithQuantity(self, quantity, values, unit_database, dimension, value)`
followed by `Array._InternalCreateWithQuantity(self, quantity, values)` -/
def internalCreate (cls : ClsAttr) (inst : Option Int) (q : Qty) (values : Option ValArg)
    (dimension : Option Int) (value : Option ValArg) : Except ErrKind FixedArr :=
  match mergeValue values value with
  | .error e => .error e
  | .ok vs =>
    match resolveDim cls inst dimension vs with
    | .error e => .error e
    | .ok d =>
      if d < 2 then .error .value else
      match checkValues vs d with
      | .error e => .error e
      | .ok v => .ok ⟨d, v, q⟩

/-- `cls.CreateWithQuantity(quantity, *args, **kwargs)`: a stub object of class `cls` without
instance attributes -/
def createWithQuantity (cls : ClsAttr) (q : Qty) (values : Option ValArg) (dimension : Option Int)
    (value : Option ValArg) : Except ErrKind Obj :=
  match internalCreate cls none q values dimension value with
  | .error e => .error e
  | .ok st => .ok ⟨cls, st⟩

/-! ### `FixedArray.__init__` -/

/-- the first positional argument after `dimension` when it is a `str` or a `Quantity` -/
inductive CatArg
  | str (s : Sym)
  | qty (q : Qty)
deriving DecidableEq, Repr

/-- the positional forms of `FixedArray(dimension, category, values, unit)`: when the first argument
is neither a `Quantity` nor a `str` the three rotate (`value, unit, category = category, value, unit`) -/
inductive InitArgs
  | catFirst (c : CatArg) (values : Option ValArg) (unit : Option Sym)
  | valFirst (values : Option ValArg) (unit : Option Sym) (category : Option Sym)
deriving DecidableEq, Repr

/-- `FixedArray._GetDefaultValue`: `[0.0] * self._dimension` -/
def defaultValue (dim : Int) : ValArg := .sized ⟨.list, List.replicate dim.toNat 0⟩

/-- the string branch of `AbstractValueWithQuantityObject.__init__` (after the rotation) -/
def initStr (db : Db) (dim : Int) (category : Option Sym) (value : Option ValArg) (unit : Option Sym) :
    Except ErrKind (Qty × ValArg) :=
  match value with
  | none =>
    -- `GetCategoryInfo(category)`; a `None` category is a `KeyError` there too
    match category with
    | none => .error .units
    | some c =>
      match db.catByName c with
      | none => .error .units
      | some ci =>
        match obtainQuantity db (unit.getD ci.defaultUnit) (some c) with
        | .error e => .error e
        | .ok q => .ok (q, defaultValue dim)
  | some v =>
    match unit with
    | none => .error .assertion     -- "If category and value are given, the unit must be specified too."
    | some u =>
      match obtainQuantity db u category with
      | .error e => .error e
      | .ok q => .ok (q, v)

/-- `AbstractValueWithQuantityObject.__init__(category, value, unit)` up to the call of the internal
constructor: the quantity and the value handed over -/
def initQuantity (db : Db) (dim : Int) : InitArgs → Except ErrKind (Qty × ValArg)
  | .catFirst (.qty q) values unit =>
    match unit with
    | some _ => .error .assertion   -- "If quantity is given, the unit must not!"
    | none => .ok (q, values.getD (defaultValue dim))
  | .catFirst (.str c) values unit => initStr db dim (some c) values unit
  | .valFirst values unit category => initStr db dim category values unit

/-- `FixedArray.__init__(self, dimension, category, values, unit)` on an object of class `cls` -/
def init (db : Db) (cls : ClsAttr) (dim : Int) (args : InitArgs) : Except ErrKind Obj :=
  if dim < 2 then .error .value else
  match initQuantity db dim args with
  | .error e => .error e
  | .ok (q, v) =>
    match internalCreate cls (some dim) q (some v) none none with
    | .error e => .error e
    | .ok st => .ok ⟨cls, st⟩

/-- `cls.CreateEmptyArray(dimension, values)` -/
def createEmptyArray (cls : ClsAttr) (dimension : Int) (values : Option ValArg) : Except ErrKind Obj :=
  createWithQuantity cls .empty (some (values.getD (defaultValue dimension))) (some dimension) none

/-- every way of obtaining a FixedArray from scratch -/
inductive Route
  | init (cls : ClsAttr) (dim : Int) (args : InitArgs)
  | cwq (cls : ClsAttr) (q : Qty) (values : Option ValArg) (dimension : Option Int) (value : Option ValArg)
  | cea (cls : ClsAttr) (dimension : Int) (values : Option ValArg)
  /-- the internal constructor on a fresh object (instance attribute possibly set by hand) -/
  | internal (cls : ClsAttr) (inst : Option Int) (q : Qty) (values : Option ValArg)
      (dimension : Option Int) (value : Option ValArg)
deriving DecidableEq, Repr

def runRoute (db : Db) : Route → Except ErrKind Obj
  | .init cls dim args => init db cls dim args
  | .cwq cls q values dimension value => createWithQuantity cls q values dimension value
  | .cea cls dimension values => createEmptyArray cls dimension values
  | .internal cls inst q values dimension value =>
    match internalCreate cls inst q values dimension value with
    | .error e => .error e
    | .ok st => .ok ⟨cls, st⟩

/-! ### copies -/

/-- `Array.GetAbstractValue(unit)` (flat values) -/
def getValues (db : Db) (fa : FixedArr) (unit : Option Sym) : Except ErrKind Vals :=
  match unit with
  | none => .ok fa.vals
  | some u =>
    if u == fa.q.unit then .ok fa.vals else
    match fa.q.convertAll db fa.vals.xs u with
    | .error e => .error e
    | .ok ys => .ok ⟨fa.vals.kind, ys⟩

/-- the quantity of a `CreateCopy(value, unit, category)` -/
def copyQuantity (db : Db) (q : Qty) (unit category : Option Sym) : Except ErrKind Qty :=
  match unit, category with
  | none, none => .ok q
  | none, some _ => .error .type    -- "If category is given, the unit must be specified too."
  | some u, some c => obtainQuantity db u (some c)
  | some u, none => if q.cat != 0 then obtainQuantity db u (some q.cat) else obtainQuantity db u none

/-- `FixedArray.CreateCopy(values, unit, category)`: forwards `dimension=self._dimension` -/
def createCopy (db : Db) (o : Obj) (values : Option ValArg) (unit category : Option Sym) :
    Except ErrKind Obj :=
  let value : Except ErrKind ValArg :=
    match values with
    | some v => .ok v
    | none =>
      match getValues db o.st unit with
      | .error e => .error e
      | .ok v => .ok (.sized v)
  match value with
  | .error e => .error e
  | .ok v =>
    match copyQuantity db o.st.q unit category with
    | .error e => .error e
    | .ok q => createWithQuantity o.cls q none (some o.st.dim) (some v)

/-- `pickle.loads(pickle.dumps(self))`: `__reduce__` gives
`FixedArray(self._dimension, self._quantity, self.values, None)` -/
def reduce (db : Db) (o : Obj) : Except ErrKind Obj :=
  init db .none o.st.dim (.catFirst (.qty o.st.q) (some (.sized o.st.vals)) none)

/-! ### arithmetic (`Array._DoOperation`) -/

inductive AOp | sum | sub | mul | div | floordiv
deriving DecidableEq, Repr

/-- the other operand of an arithmetic operator -/
inductive Operand
  | num (x : Rat)
  | nd (xs : List Rat)              -- a bare numpy array
  | arr (v : Vals) (q : Qty)        -- an `Array` (or `FixedArray`)
deriving DecidableEq, Repr

/-- `UnitDatabase.Sum/Subtract/Multiply/Divide` applied to one pair of numbers -/
abbrev OpFunc := AOp → Qty → Qty → Rat → Rat → Except ErrKind (Qty × Rat)

/-- what `_ValueGenerator` sees -/
inductive PyVal
  | num (x : Rat)
  | seq (v : Vals)
deriving DecidableEq, Repr

def Operand.val : Operand → PyVal
  | .num x => .num x
  | .nd xs => .seq ⟨.ndarray, xs⟩
  | .arr v _ => .seq v

def Operand.qty : Operand → Qty
  | .arr _ q => q
  | _ => .empty

def PyVal.isNumpy : PyVal → Bool
  | .seq ⟨.ndarray, _⟩ => true
  | _ => false

def PyVal.isTuple : PyVal → Bool
  | .seq ⟨.tuple, _⟩ => true
  | _ => false

/-- numpy's rule for two 1-D operands: equal lengths pair up, a length-1 operand stretches -/
def broadcast (xs ys : List Rat) : Except ErrKind (List (Rat × Rat)) :=
  if xs.length = ys.length then .ok (xs.zip ys) else
  match xs, ys with
  | [x], _ => .ok (ys.map (fun y => (x, y)))
  | _, [y] => .ok (xs.map (fun x => (x, y)))
  | _, _ => .error .value

/-- the pairs `operation_func` is applied to and the container of the result
(`_ValueGenerator.__iter__`, `IsNumpy`, `IsTuple`) -/
def pairs (a b : PyVal) : Except ErrKind (Kind × List (Rat × Rat)) :=
  match a, b with
  | .num x, .num y => .ok (.list, [(x, y)])        -- not reachable from an Array operator
  | .num x, .seq w =>
    .ok (if w.kind = .ndarray then .ndarray else if w.kind = .tuple then .tuple else .list,
      w.xs.map (fun y => (x, y)))
  | .seq v, .num y =>
    .ok (if v.kind = .ndarray then .ndarray else if v.kind = .tuple then .tuple else .list,
      v.xs.map (fun x => (x, y)))
  | .seq v, .seq w =>
    if v.kind = .ndarray ∨ w.kind = .ndarray then
      match broadcast v.xs w.xs with
      | .error e => .error e
      | .ok ps => .ok (.ndarray, ps)
    else .ok (if v.kind = .tuple ∧ w.kind = .tuple then .tuple else .list, v.xs.zip w.xs)

/-- the loop `for v0, v1 in values_iteration: q, v = operation_func(q1, q2, v0, v1)`: the values and
the quantity of the last call -/
def opLoop (F : OpFunc) (op : AOp) (q1 q2 : Qty) : Qty → List (Rat × Rat) → Except ErrKind (Qty × List Rat)
  | q, [] => .ok (q, [])
  | _, (a, b) :: rest =>
    match F op q1 q2 a b with
    | .error e => .error e
    | .ok (q', v) =>
      match opLoop F op q1 q2 q' rest with
      | .error e => .error e
      | .ok (q'', vs) => .ok (q'', v :: vs)

/-- the length check of `_DoOperation` when both operands are Arrays -/
def lengthsAgree (n : Nat) : Operand → Bool
  | .arr v _ => n == v.xs.length
  | _ => true

/-- quantity and values of the result: `operation_func` over the pairs of `_ValueGenerator`.  numpy
applies `operation_func` to whole arrays: modelled as the same quantity computation and elementwise
values. -/
def operationValues (F : OpFunc) (op : AOp) (q1 q2 : Qty) (a b : PyVal) : Except ErrKind (Qty × Vals) :=
  match pairs a b with
  | .error e => .error e
  | .ok (kind, ps) =>
    match F op q1 q2 1 1 with
    | .error e => .error e
    | .ok (q0, _) =>
      match opLoop F op q1 q2 q0 ps with
      | .error e => .error e
      | .ok (q, vs) => .ok (q, ⟨kind, vs⟩)

/-- `Array._DoOperation(p1, p2, operation)` where one of `p1`, `p2` is `self` (a number or a bare
ndarray counts with the empty quantity); the result is built by
`self.__class__.CreateWithQuantity(q, values)` -/
def doOperation (F : OpFunc) (self : Obj) (op : AOp) (other : Operand) (selfLeft : Bool) :
    Except ErrKind Obj :=
  if lengthsAgree self.st.vals.xs.length other = false then .error .value else   -- "Arrays must have the same length"
  match (if selfLeft then operationValues F op self.st.q other.qty (.seq self.st.vals) other.val
         else operationValues F op other.qty self.st.q other.val (.seq self.st.vals)) with
  | .error e => .error e
  | .ok (q, v) => createWithQuantity self.cls q (some (.sized v)) none none

/-- the quantities for which `opFuncSimple` below is the code's `operation_func` (a product or
quotient of two non-empty quantities, or a number divided by an array, is a derived quantity:
engine `Alg`) -/
def opInDomain : AOp → Qty → Qty → Bool
  | .sum, _, _ => true
  | .sub, _, _ => true
  | .mul, .simple _ _, .simple _ _ => false
  | .mul, _, _ => true
  | .div, _, .empty => true
  | .div, _, _ => false
  | .floordiv, _, .empty => true
  | .floordiv, _, _ => false

/-- the validation `Quantity.CreateDerived` runs on the single category of a product / quotient
with a number -/
def validated (db : Db) (q : Qty) : Except ErrKind Qty :=
  match q with
  | .empty => .ok .empty
  | .simple c u => if db.categoryUnitValid c u then .ok q else .error .units

def arithFn : Fail.ArithOp → Rat → Rat → Rat
  | .add, a, b => a + b
  | .sub, a, b => a - b

/-- `_DoOperationWithSameQuantity` on empty / simple quantities (the simple-simple case is
`Fail.addSub`, shared with C05) -/
def addSubQ (db : Db) (op : Fail.ArithOp) (q1 q2 : Qty) (a b : Rat) : Except ErrKind (Qty × Rat) :=
  if q1 = q2 then .ok (q1, arithFn op a b) else
  match q1, q2 with
  | .empty, _ => .ok (q2, arithFn op a b)          -- no unit in the 1st part: take the 2nd
  | _, .empty => .ok (q1, arithFn op a b)
  | .simple c1 u1, .simple c2 u2 =>
    match Fail.addSub db op ⟨c1, u1⟩ ⟨c2, u2⟩ a b with
    | .error e => .error e
    | .ok (s, z) => .ok (.simple s.cat s.unit, z)

/-- `UnitDatabase.Sum/Subtract/Multiply/Divide` on the quantities of `opInDomain` -/
def opFuncSimple (db : Db) : OpFunc
  | .sum, q1, q2, a, b => addSubQ db .add q1 q2 a b
  | .sub, q1, q2, a, b => addSubQ db .sub q1 q2 a b
  | .mul, q1, q2, a, b =>
    match validated db (if q1 = .empty then q2 else q1) with
    | .error e => .error e
    | .ok q => .ok (q, a * b)
  | .div, q1, _, a, b =>
    match validated db q1 with
    | .error e => .error e
    | .ok q => if b = 0 then .error .other else .ok (q, a / b)   -- ZeroDivisionError (list / tuple)
  | .floordiv, q1, _, a, b =>                                     -- `//`: FloorDivide, the exponents of Divide
    match validated db q1 with
    | .error e => .error e
    | .ok q => if b = 0 then .error .other else .ok (q, ((a / b).floor : Int))

/-- an `operation_func` that keeps track of sizes only: every pair gives the number 0 in the empty
quantity.  `doOperation` does with it what it does with the real one — length check, pairing, container of
the result, final constructor — so it predicts class, dimension, length and container of a result whose
quantity is derived (array * array, array / array, number / array: numbers and quantity are engine `Alg`'s) -/
def opFuncShape : OpFunc := fun _ _ _ _ _ => .ok (.empty, 0)

/-! ### Python indexing -/

/-- position meant by a Python index into a sequence of length `n` -/
def normIndex (n : Nat) (i : Int) : Option Nat :=
  if 0 ≤ i then (if i.toNat < n then some i.toNat else none)
  else if (-i).toNat ≤ n then some (n - (-i).toNat) else none

/-- `seq[index]` -/
def pyGet (xs : List Rat) (i : Int) : Except ErrKind Rat :=
  match normIndex xs.length i with
  | none => .error .index
  | some j =>
    match xs[j]? with
    | some x => .ok x
    | none => .error .index

/-- `seq[index] = v` on a list -/
def pySet (xs : List Rat) (i : Int) (v : Rat) : Except ErrKind (List Rat) :=
  match normIndex xs.length i with
  | none => .error .index
  | some j => .ok (xs.set j v)

/-- `seq[index]` for a sequence of anything (numbers, points) -/
def pyIndex {α : Type} (xs : List α) (i : Int) : Except ErrKind α :=
  match normIndex xs.length i with
  | none => .error .index
  | some j =>
    match xs[j]? with
    | some x => .ok x
    | none => .error .index

/-- a Python `slice(start, stop, step)`; each part may be `None` -/
structure PySlice where
  start : Option Int
  stop : Option Int
  step : Option Int
deriving DecidableEq, Repr

/-- one bound of `slice.indices(len)` (`PySlice_Unpack` + `PySlice_AdjustIndices`): `None` is the end the
walk starts from / runs to; a negative bound counts from the end; everything is clamped to
`[0, len]` for a positive step and to `[-1, len - 1]` for a negative one -/
def sliceBound (len step : Int) (b : Option Int) (isStart : Bool) : Int :=
  let lower : Int := if step < 0 then -1 else 0
  let upper : Int := if step < 0 then len - 1 else len
  match b with
  | none => if isStart then (if step < 0 then upper else lower) else (if step < 0 then lower else upper)
  | some v =>
    if v < 0 then (if v + len < lower then lower else v + len)
    else (if upper < v then upper else v)

/-- the positions a slice visits: from `cur` in steps of `step` while `stop` is not reached (`fuel`
bounds the walk; `len` is enough because the positions are distinct and within the sequence) -/
def sliceIdx (step : Int) : Nat → Int → Int → List Int
  | 0, _, _ => []
  | fuel + 1, cur, stop =>
    if (if step < 0 then stop < cur else cur < stop) then cur :: sliceIdx step fuel (cur + step) stop
    else []

/-- `range(*slice.indices(len))`; a zero step is `ValueError` -/
def sliceIndices (len : Nat) (s : PySlice) : Except ErrKind (List Int) :=
  let step := s.step.getD 1
  if step = 0 then .error .value else
  .ok (sliceIdx step len (sliceBound len step s.start true) (sliceBound len step s.stop false))

/-- the element at a position computed by `sliceIndices` (a position outside the sequence would be an
`IndexError`; `slice_in_range` shows there is none) -/
def atPos {α : Type} (xs : List α) (i : Int) : Except ErrKind α :=
  if i < 0 then .error .index else
  match xs[i.toNat]? with
  | some x => .ok x
  | none => .error .index

/-- `seq[start:stop:step]` -/
def pySlice {α : Type} (xs : List α) (s : PySlice) : Except ErrKind (List α) :=
  match sliceIndices xs.length s with
  | .error e => .error e
  | .ok idx => mapE (atPos xs) idx

/-! ### `ChangingIndex`, `IndexAsScalar` -/

structure Scalar where
  q : Qty
  v : Rat
deriving DecidableEq, Repr

/-- `Scalar.GetValue(unit)` -/
def Scalar.getValue (db : Db) (s : Scalar) (unit : Option Sym) : Except ErrKind Rat :=
  match unit with
  | none => .ok s.v
  | some u => s.q.convertScalarValue db s.v u

/-- `Scalar.CreateCopy(value, unit, category)` (`AbstractValueWithQuantityObject.CreateCopy`) -/
def Scalar.createCopy (db : Db) (s : Scalar) (value : Option Rat) (unit category : Option Sym) :
    Except ErrKind Scalar :=
  let val : Except ErrKind Rat :=
    match value with
    | some v => .ok v
    | none => s.getValue db unit
  match val with
  | .error e => .error e
  | .ok v =>
    match copyQuantity db s.q unit category with
    | .error e => .error e
    | .ok q => .ok ⟨q, v⟩

/-- the `value` argument of `ChangingIndex` -/
inductive CIValue
  | num (x : Rat)
  | scalar (s : Scalar)
  | tup (value : Option Rat) (unit category : Option Sym)     -- `(value, unit, category)`, padded with `None`
deriving DecidableEq, Repr

/-- the Scalar `ChangingIndex` works with -/
def ciScalar (db : Db) (o : Obj) (index : Int) : CIValue → Except ErrKind Scalar
  | .tup v u c =>
    match pyGet o.st.vals.xs index with
    | .error e => .error e
    | .ok x => Scalar.createCopy db ⟨o.st.q, x⟩ v u c
  | .num x => .ok ⟨o.st.q, x⟩
  | .scalar s => .ok s

/-- `FixedArray.ChangingIndex(index, value, use_value_unit)` -/
def changingIndex (db : Db) (o : Obj) (index : Int) (value : CIValue) (useValueUnit : Bool) :
    Except ErrKind Obj :=
  match ciScalar db o index value with
  | .error e => .error e
  | .ok sc =>
    let quantity := if useValueUnit then sc.q else o.st.q
    match getValues db o.st (some quantity.unit) with
    | .error e => .error e
    | .ok vals =>
      match sc.getValue db (some quantity.unit) with
      | .error e => .error e
      | .ok amount =>
        match pySet vals.xs index amount with
        | .error e => .error e
        | .ok ys => init db .none o.st.dim (.catFirst (.qty quantity) (some (.sized ⟨.tuple, ys⟩)) none)

/-- `FixedArray.IndexAsScalar(index, quantity)` -/
def indexAsScalar (db : Db) (o : Obj) (index : Int) (quantity : Option Qty) : Except ErrKind Scalar :=
  let q := quantity.getD o.st.q
  match getValues db o.st (some q.unit) with
  | .error e => .error e
  | .ok vals =>
    match pyGet vals.xs index with
    | .error e => .error e
    | .ok x => .ok ⟨q, x⟩

/-! ### chains of operations over a store of arrays -/

inductive Rhs
  | other (idx : Nat)                              -- another array of the store (on the right)
  | operand (p : Operand) (selfLeft : Bool)
deriving DecidableEq, Repr

/-- the attributes of a FixedArray that are properties without a setter (`dimension`, `values`, `unit`,
`category`, `quantity_type`): assigning to them is `AttributeError` and assigns nothing -/
inductive ReadOnlyAttr | dimension | values | unit | category | quantityType
deriving DecidableEq, Repr

/-- keywords a caller can add to `CreateCopy(values, unit, category, **kwargs)` -/
inductive ExtraKw
  | dimension        -- collides with the `dimension=self._dimension` FixedArray.CreateCopy adds itself: `TypeError`
  | value            -- collides with the `value=values` Array.CreateCopy passes on: `TypeError`
  | unitDatabase     -- reaches the internal constructor, which ignores it
deriving DecidableEq, Repr

/-- what a FixedArray is compared with by `==` -/
inductive EqOther
  | store (idx : Nat)                              -- another array of the store
  | foreign                                        -- anything that is not a FixedArray (an Array, a number, …)
deriving DecidableEq, Repr

inductive Op
  | copy                                           -- `copy.copy`, `copy.deepcopy`, `Copy()`, `CreateCopyInstance()`: the object itself
  | createCopy (values : Option ValArg) (unit category : Option Sym)
  | pickle
  | arith (op : AOp) (rhs : Rhs)
  | changingIndex (index : Int) (value : CIValue) (useValueUnit : Bool)
  | indexAsScalar (index : Int) (quantity : Option Qty)
  | assign (attr : ReadOnlyAttr)                   -- `array.<attr> = anything`: there is no mutator
  | createCopyKw (values : Option ValArg) (unit category : Option Sym) (extra : ExtraKw)
  | len                                            -- `len(array)`
  | iter                                           -- `list(iter(array))`
  | getItem (index : Int)                          -- `array[index]`
  | getSlice (s : PySlice)                         -- `array[start:stop:step]`
  | checkValues (values : ValArg) (dimension : Option Int)   -- the public `CheckValues(values, dimension=None)`
  | eq (other : EqOther)                           -- `array == other`
deriving DecidableEq, Repr

inductive Cmd
  | make (r : Route)
  | op (src : Nat) (o : Op)
  /-- the classmethod `Array.FromScalars` called on a FixedArray class -/
  | fromScalars (cls : ClsAttr) (scalars : List Scalar) (unit category : Option Sym)
deriving DecidableEq, Repr

inductive Out
  | obj (o : Obj)
  | scalar (s : Scalar)
  | int (n : Int)
  | num (x : Rat)
  | vals (v : Vals)
  | bool (b : Bool)
  | unit                                           -- `None`
deriving DecidableEq, Repr

def outObj : Except ErrKind Obj → Except ErrKind Out
  | .ok o => .ok (.obj o)
  | .error e => .error e

/-- `CreateCopy(values, unit, category, **extra)` -/
def createCopyKw (db : Db) (o : Obj) (values : Option ValArg) (unit category : Option Sym) :
    ExtraKw → Except ErrKind Obj
  | .dimension => .error .type
  | .value => .error .type
  | .unitDatabase => createCopy db o values unit category

/-- the public `FixedArray.CheckValues(values, dimension=None)`: without the keyword it is `self.dimension`
the length is compared with -/
def checkValuesPublic (o : Obj) (values : ValArg) (dimension : Option Int) : Except ErrKind Unit :=
  match checkValues values (dimension.getD o.st.dim) with
  | .error e => .error e
  | .ok _ => .ok ()

/-- `FixedArray.__eq__`: a FixedArray with equal values (as tuples: the container does not count), an equal
quantity and an equal dimension -/
def fixedEq (a b : FixedArr) : Bool :=
  a.vals.xs == b.vals.xs && a.q == b.q && a.dim == b.dim

/-- `unit or first_scalar.unit`: `None` and the empty string give way -/
def orElse (x : Option Sym) (d : Sym) : Sym :=
  match x with
  | none => d
  | some s => if s != 0 then s else d

/-- `cls.FromScalars(scalars, unit=…, category=…)` on a FixedArray class.  The method is inherited from
`Array` and ends in `cls(values=…, unit=…, category=…)` (or `cls.CreateEmptyArray()`), i.e. in a call of
`FixedArray.__init__` / `FixedArray.CreateEmptyArray` WITHOUT their required `dimension`: `TypeError`,
after the values have been read in the chosen unit (which may fail first). -/
def fromScalars (db : Db) (_cls : ClsAttr) (scalars : List Scalar) (unit category : Option Sym) :
    Except ErrKind Obj :=
  match scalars with
  | [] =>
    match unit, category with
    | none, none => .error .type
    | some u, none =>
      match getDefaultCategory db u with
      | .error e => .error e
      | .ok _ => .error .type
    | none, some _ => .error .type
    | some _, some _ => .error .assertion          -- `assert unit is None`
  | first :: rest =>
    match mapE (fun s => s.getValue db (some (orElse unit first.q.unit))) (first :: rest) with
    | .error e => .error e
    | .ok _ => .error .type

/-- one operation on a source object; `store` is consulted only for the other operand -/
def runOp (db : Db) (F : OpFunc) (store : List Obj) (src : Obj) : Op → Except ErrKind Out
  | .copy => .ok (.obj src)
  | .createCopy values unit category => outObj (createCopy db src values unit category)
  | .pickle => outObj (reduce db src)
  | .arith op (.other idx) =>
    match store[idx]? with
    | none => .error .index                        -- no such array: not a request the harness makes
    | some b => outObj (doOperation F src op (.arr b.st.vals b.st.q) true)
  | .arith op (.operand p selfLeft) => outObj (doOperation F src op p selfLeft)
  | .changingIndex index value uvu => outObj (changingIndex db src index value uvu)
  | .indexAsScalar index quantity =>
    match indexAsScalar db src index quantity with
    | .ok s => .ok (.scalar s)
    | .error e => .error e
  | .assign _ => .error .other                     -- AttributeError: property without a setter
  | .createCopyKw values unit category extra => outObj (createCopyKw db src values unit category extra)
  | .len => .ok (.int src.st.vals.xs.length)
  | .iter => .ok (.vals ⟨.list, src.st.vals.xs⟩)
  | .getItem index =>
    match pyIndex src.st.vals.xs index with
    | .ok x => .ok (.num x)
    | .error e => .error e
  | .getSlice s =>
    match pySlice src.st.vals.xs s with
    | .ok xs => .ok (.vals ⟨src.st.vals.kind, xs⟩)
    | .error e => .error e
  | .checkValues values dimension =>
    match checkValuesPublic src values dimension with
    | .ok _ => .ok .unit
    | .error e => .error e
  | .eq (.store idx) =>
    match store[idx]? with
    | none => .error .index
    | some b => .ok (.bool (fixedEq src.st b.st))
  | .eq .foreign => .ok (.bool false)

def runCmd (db : Db) (F : OpFunc) (store : List Obj) : Cmd → Except ErrKind Out
  | .make r => outObj (runRoute db r)
  | .op src o =>
    match store[src]? with
    | none => .error .index
    | some s => runOp db F store s o
  | .fromScalars cls scalars unit category => outObj (fromScalars db cls scalars unit category)

/-- every array obtained is appended to the store; nothing else ever changes it -/
def push (store : List Obj) : Except ErrKind Out → List Obj
  | .ok (.obj o) => store ++ [o]
  | _ => store

def step (db : Db) (F : OpFunc) (store : List Obj) (c : Cmd) : List Obj × Except ErrKind Out :=
  (push store (runCmd db F store c), runCmd db F store c)

def run (db : Db) (F : OpFunc) (store : List Obj) : List Cmd → List Obj
  | [] => store
  | c :: cs => run db F (step db F store c).1 cs

def outputs (db : Db) (F : OpFunc) (store : List Obj) : List Cmd → List (Except ErrKind Out)
  | [] => []
  | c :: cs => (step db F store c).2 :: outputs db F (step db F store c).1 cs

/-! ### Curve -/

/-- the container `GetValues()` of an array returns, as far as its sizes go: a flat sequence of
numbers (list, tuple, 1-D ndarray) or a sequence of points, each a tuple / row of `width` numbers
(a list of tuples, a 2-D ndarray) -/
inductive Shape
  | flat (n : Nat)
  | points (rows width : Nat)
deriving DecidableEq, Repr

/-- Python's `len(values)`: the number of elements of the OUTER sequence, i.e. the number of points -/
def Shape.len : Shape → Nat
  | .flat n => n
  | .points rows _ => rows

/-- `numpy.size(values)`: the number of scalars.  NOT what the code compares; here so that theorems
can say that agreeing in `size` is neither needed nor enough. -/
def Shape.size : Shape → Nat
  | .flat n => n
  | .points rows width => rows * width

/-- what a Curve sees of an array: its identity and the shape of `GetValues()` -/
structure ArrRef where
  id : Nat
  shape : Shape
deriving DecidableEq, Repr

/-- `len(array.GetValues())` -/
def ArrRef.len (a : ArrRef) : Nat := a.shape.len

structure Curve where
  image : ArrRef
  domain : ArrRef
deriving DecidableEq, Repr

/-- `Curve._CheckImageAndDomainLength`: `len(image.GetValues()) != len(domain.GetValues())` -/
def checkLen (image domain : ArrRef) : Except ErrKind Unit :=
  if image.len ≠ domain.len then .error .value else .ok ()

/-- `Curve.__init__` -/
def Curve.new (image domain : ArrRef) : Except ErrKind Curve :=
  match checkLen image domain with
  | .error e => .error e
  | .ok _ => .ok ⟨image, domain⟩

def Curve.setImage (c : Curve) (image : ArrRef) : Except ErrKind Curve :=
  match checkLen image c.domain with
  | .error e => .error e
  | .ok _ => .ok { c with image := image }

def Curve.setDomain (c : Curve) (domain : ArrRef) : Except ErrKind Curve :=
  match checkLen c.image domain with
  | .error e => .error e
  | .ok _ => .ok { c with domain := domain }

inductive Setter
  | image (a : ArrRef)
  | domain (a : ArrRef)
deriving DecidableEq, Repr

def Curve.apply (c : Curve) : Setter → Except ErrKind Curve
  | .image a => c.setImage a
  | .domain a => c.setDomain a

/-- a setter that raises does so before its assignment: the curve stays as it was -/
def Curve.after (c : Curve) (s : Setter) : Curve :=
  match c.apply s with
  | .ok c' => c'
  | .error _ => c

def Curve.runSetters (c : Curve) : List Setter → Curve
  | [] => c
  | s :: ss => (c.after s).runSetters ss

/-! ### reading a Curve: `curve[i]`, `curve[a:b:c]`, `GetLength()`, `repr(curve)` -/

/-- an element of the outer container of `array.GetValues()`: a number, or a point (a tuple / a row of a
2-D ndarray) -/
inductive Elem
  | num (x : Rat)
  | point (xs : List Rat)
deriving DecidableEq, Repr

/-- what an array shows to a Curve that reads it: the container `GetValues()` returns and its unit -/
structure ArrData where
  kind : Kind
  elems : List Elem
  unit : Sym
deriving DecidableEq, Repr

/-- the arrays behind the references a Curve holds -/
abbrev Content := ArrRef → ArrData

/-- `Curve.__getitem__(index)` for an `int`: `d = self.GetDomain().GetValues()[index]`, then
`i = self.GetImage().GetValues()[index]`, returned as `(d, i)` — the DOMAIN element first -/
def Curve.getItem (h : Content) (c : Curve) (i : Int) : Except ErrKind (Elem × Elem) :=
  match pyIndex (h c.domain).elems i with
  | .error e => .error e
  | .ok d =>
    match pyIndex (h c.image).elems i with
    | .error e => .error e
    | .ok im => .ok (d, im)

/-- `Curve.__getitem__(slice)`: the two containers are sliced on their own (a list gives a list, a tuple a
tuple, an ndarray an ndarray); no Curve is built -/
def Curve.getSlice (h : Content) (c : Curve) (s : PySlice) :
    Except ErrKind ((Kind × List Elem) × (Kind × List Elem)) :=
  match pySlice (h c.domain).elems s with
  | .error e => .error e
  | .ok d =>
    match pySlice (h c.image).elems s with
    | .error e => .error e
    | .ok im => .ok (((h c.domain).kind, d), ((h c.image).kind, im))

/-- `Curve.GetLength()`: `len(self._image.GetValues())` -/
def Curve.length (c : Curve) : Nat := c.image.len

/-- what `repr(curve)` is made of: `Curve(<image.unit>, <domain.unit>)[(x, y) (x, y) …]` -/
structure CurveRepr where
  imageUnit : Sym
  domainUnit : Sym
  items : List (Elem × Elem)
  ellipsis : Bool
deriving DecidableEq, Repr

/-- the loop of `Curve.__repr__`: `for i, (x, y) in enumerate(zip(image, domain))`: an index above 20
appends the ellipsis and stops -/
def reprLoop : Nat → List (Elem × Elem) → List (Elem × Elem) × Bool
  | _, [] => ([], false)
  | i, p :: rest =>
    if 20 < i then ([], true)
    else ((p :: (reprLoop (i + 1) rest).1), (reprLoop (i + 1) rest).2)

/-- `Curve.__repr__`: the pairs are `(image[k], domain[k])` — the IMAGE element first, the other way
round than `curve[k]` -/
def Curve.repr (h : Content) (c : Curve) : CurveRepr :=
  let r := reprLoop 0 ((h c.image).elems.zip (h c.domain).elems)
  ⟨(h c.image).unit, (h c.domain).unit, r.1, r.2⟩

/-- everything a caller can do with a Curve -/
inductive CurveOp
  | set (s : Setter)
  | getItem (i : Int)
  | getSlice (s : PySlice)
  | length
  | repr
deriving DecidableEq, Repr

inductive CurveOut
  | done
  | item (d im : Elem)
  | slices (d im : Kind × List Elem)
  | length (n : Nat)
  | repr (r : CurveRepr)
deriving DecidableEq, Repr

/-- the value (or exception) of one call -/
def Curve.answer (h : Content) (c : Curve) : CurveOp → Except ErrKind CurveOut
  | .set s =>
    match c.apply s with
    | .ok _ => .ok .done
    | .error e => .error e
  | .getItem i =>
    match c.getItem h i with
    | .ok (d, im) => .ok (.item d im)
    | .error e => .error e
  | .getSlice s =>
    match c.getSlice h s with
    | .ok (d, im) => .ok (.slices d im)
    | .error e => .error e
  | .length => .ok (.length c.length)
  | .repr => .ok (.repr (c.repr h))

/-- the curve after one call: only an accepted setter changes it -/
def Curve.next (c : Curve) : CurveOp → Curve
  | .set s => c.after s
  | _ => c

def Curve.runOps (c : Curve) : List CurveOp → Curve
  | [] => c
  | o :: os => (c.next o).runOps os

def Curve.answers (h : Content) (c : Curve) : List CurveOp → List (Except ErrKind CurveOut)
  | [] => []
  | o :: os => c.answer h o :: (c.next o).answers h os

end Barril.Fixed
