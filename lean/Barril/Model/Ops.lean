/-
Engine `Ops` (C09, C10): arithmetic of `Scalar` and `Array` objects with plain numbers, numpy arrays
and each other, written after the Python function by function.

Modelled code (as it is in /repo now, repairs 82f5449, bbf2089, 12bb4de, 1e63d4c, e246554, 4829052 included):
* `barril/_util/types_.py`      `IsNumber`
* `barril/units/_scalar.py`     `Scalar._DoOperation`, the ten operator methods
* `barril/units/_array.py`      `Array._DoOperation` (number / ndarray branches, length check, vectorised
                                branch, per-element branch with the `(1.0, 1.0)` probe for value-less operands,
                                result container), the ten operator methods and the legacy `__rdiv__`,
                                `FromScalars` (every keyword form; Scalars of simple, derived and empty
                                quantities), `CreateEmptyArray`, `GetAbstractValue` (flat containers and
                                lists / tuples of tuples), `__str__`; Arrays whose `values` is a bare number
* `barril/units/_value_generator.py`  `_ValueGenerator.IsNumpy/IsTuple/__iter__`
* `barril/units/unit_database.py`     `Sum/Subtract/Multiply/Divide/FloorDivide`, `_DoOperationWithSameQuantity`,
                                `_DoOperationResultingInNewQuantity`, `_MatchQuantities`, `_ConvertMatchingExp`
* `barril/units/_quantity.py`   `CreateEmpty`, `CreateDerived` (validation loop), `__eq__` (without caption),
                                `GetComposingUnitsJoiningExponents`
* Python's binary-operator dispatch (`a op b`: `type(a).__op__`, then the reflected method of `b`);
  whether a numpy scalar / ndarray on the left hands the operation over to the barril object is numpy's
  protocol (`__array_priority__`) and is a PARAMETER of `binop` (`numpyDefers`).

One deliberate factoring: a database operation `operation_func(q1, q2, v1, v2)` is modelled as
`opFunc env op q1 q2 = (q, t1, t2)` — the resulting quantity and the conversions applied to the first
and to the second value — followed by `applyOp op t1 t2 v1 v2`.  The Python code threads the values
through `_MatchQuantities`; which conversions are applied does not depend on the values, and every
conversion acts elementwise on numbers, lists, tuples and ndarrays alike.

The database is a parameter `Env` (category → quantity type, `Convert` on a number, the validation of
`CreateDerived`); `Env.ofDb` instantiates it with the `Conv` engine over a generated table.
Quantities are the ordered dict `category → [unit, exponent]` (`unknown_unit_caption` is not part of it; what
`Scalar._DoOperation` with a plain number does to the caption of a captioned unknown unit is `scalarNumCaption`;
every other modelled quantity has the empty caption).
-/
import Barril.Model.Conv
import Barril.Model.StrRender

namespace Barril.Ops
open Barril

/-- the five database operations behind the ten operator methods -/
inductive Op | sum | sub | mul | div | floordiv
deriving DecidableEq, Repr

/-- one item of `Quantity._category_to_unit_and_exps` -/
structure Entry where
  cat : Sym
  unit : Sym
  exp : Int
deriving DecidableEq, Repr

/-- `Quantity` = its ordered dict; `Quantity.__eq__` compares exactly the item tuples -/
abbrev Quantity := List Entry

/-- `Quantity.CreateEmpty()` -/
def emptyQ : Quantity := []

/-- what the operations read from the unit database -/
structure Env where
  /-- `GetCategoryQuantityType(category)` -/
  qtype : Sym → Except ErrKind Sym
  /-- `Convert(quantity_type, from_unit, to_unit, number)` -/
  convert : Sym → Sym → Sym → Rat → Except ErrKind Rat
  /-- the body of the validation loop of `Quantity._CreateDerived` for one item, and
  `CheckCategoryUnit` for a simple quantity -/
  checkCatUnit : Sym → Sym → Except ErrKind Unit
  /-- the lookups `Convert(category, from_unit, to_unit, container)` makes before it touches the values -/
  convertLookup : Sym → Sym → Sym → Except ErrKind Unit
  /-- `GetInfo(quantity_type, unit).tobase` -/
  toBase : Sym → Sym → Except ErrKind (Rat → Except ErrKind Rat)
  /-- `GetDefaultCategory(unit)` (`None` = no default category; a `KeyError` of the legacy retry is an error) -/
  defaultCategory : Sym → Except ErrKind (Option Sym)
  /-- `ObtainQuantity(unit, category)` with two strings → `Quantity(category, unit)`: `GetCategoryInfo`, then
  `CheckCategoryUnit`, retried once with the legacy spelling fixed; answers the unit the quantity stores -/
  obtainSimple : Sym → Sym → Except ErrKind Sym

/-- the row `unit_to_unit_info[unit]` used by `GetDefaultCategory`: `KeyError` is retried with the legacy
spelling fixed (a second `KeyError` propagates), a non-legacy unknown unit gives `None` -/
def defaultCatRow (db : Db) (u : Sym) : Except ErrKind (Option UnitRow) :=
  match db.unitBySym u with
  | some r => .ok (some r)
  | none =>
    if isLegacy db.legacy u then
      match db.unitBySym (fixLegacy db.legacy u) with
      | some r => .ok (some r)
      | none => .error .key
    else .ok none

/-- `UnitDatabase.GetDefaultCategory(unit)`: the row's default category when truthy, else the quantity type
when that is a category, else `None` -/
def getDefaultCategory (db : Db) (u : Sym) : Except ErrKind (Option Sym) :=
  match defaultCatRow db u with
  | .error e => .error e
  | .ok none => .ok none
  | .ok (some r) =>
    if r.defaultCat != 0 then .ok (some r.defaultCat)
    else match db.catByName r.qtype with
      | some _ => .ok (some r.qtype)
      | none => .ok none

/-- simple branch of `Quantity.__init__(category, unit)` for two strings: `GetCategoryInfo(category)`
(`InvalidQuantityTypeError`), `CheckCategoryUnit`, retried once with the legacy spelling fixed -/
def newSimpleQuantity (db : Db) (c u : Sym) : Except ErrKind Sym :=
  match db.catByName c with
  | none => .error .units
  | some _ =>
    if db.categoryUnitValid c u then .ok u
    else if isLegacy db.legacy u then
      (if db.categoryUnitValid c (fixLegacy db.legacy u) then .ok (fixLegacy db.legacy u) else .error .units)
    else .error .units

/-- the database of the `Conv` engine as an `Env` -/
def Env.ofDb (db : Db) : Env where
  defaultCategory := getDefaultCategory db
  obtainSimple := newSimpleQuantity db
  qtype c := match db.catByName c with
    | some ci => .ok ci.qtype
    | none => .error .units
  convert := db.convert
  checkCatUnit c u := match db.catByName c with
    | none => .error .units
    | some ci => db.checkQuantityTypeUnit ci.qtype u
  convertLookup cq fromU toU :=
    if fromU == toU then .ok () else
    match db.typeOf cq with
    | .error e => .error e
    | .ok qt =>
      match db.getInfo qt fromU true with
      | .error e => .error e
      | .ok _ =>
        match db.getInfo qt toU true with
        | .error e => .error e
        | .ok _ => .ok ()
  toBase qt u :=
    match db.getInfo qt u with
    | .error e => .error e
    | .ok r => .ok (fun x => if !r.ok then .error .other else r.toBase.apply x)

/-- conversions applied to one operand (elementwise) -/
abbrev Tr := Rat → Except ErrKind Rat

def Tr.ident : Tr := fun x => .ok x

def Tr.andThen (f g : Tr) : Tr := fun x =>
  match f x with
  | .ok y => g y
  | .error e => .error e

/-! ### values -/

def natPow (r : Rat) : Nat → Rat
  | 0 => 1
  | n + 1 => natPow r n * r

/-- Python `float ** int` -/
def powInt (r : Rat) (e : Int) : Except ErrKind Rat :=
  if 0 ≤ e then .ok (natPow r e.toNat)
  else if r = 0 then .error .other       -- ZeroDivisionError
  else .ok (natPow (1 / r) (-e).toNat)

/-- the value lambdas of `Sum`, `Subtract`, `Multiply`, `Divide`, `FloorDivide` and the callbacks of
the `Scalar` operators; `ZeroDivisionError` is `.other` -/
def vop : Op → Rat → Rat → Except ErrKind Rat
  | .sum, a, b => .ok (a + b)
  | .sub, a, b => .ok (a - b)
  | .mul, a, b => .ok (a * b)
  | .div, a, b => if b = 0 then .error .other else .ok (a / b)
  | .floordiv, a, b => if b = 0 then .error .other else .ok (((a / b).floor : Int) : Rat)

/-- `operation(value1, value2)` after the conversions of `_MatchQuantities` -/
def applyOp (op : Op) (t1 t2 : Tr) (x y : Rat) : Except ErrKind Rat :=
  match t1 x with
  | .error e => .error e
  | .ok a =>
    match t2 y with
    | .error e => .error e
    | .ok b => vop op a b

def mapE {α β : Type} (f : α → Except ErrKind β) : List α → Except ErrKind (List β)
  | [] => .ok []
  | a :: as =>
    match f a with
    | .error e => .error e
    | .ok b =>
      match mapE f as with
      | .error e => .error e
      | .ok bs => .ok (b :: bs)

/-! ### `_MatchQuantities` -/

/-- the unit ratio of `_ConvertMatchingExp` (repair e246554): without an offset between the two units
(`zero = 0`) it is `Convert(1.0)`; with one it is the quotient of the increments the two units have in
the base unit, `(from.tobase(1) - from.tobase(0)) / (to.tobase(1) - to.tobase(0))` (both `GetInfo`
lookups first; a zero denominator is Python's `ZeroDivisionError`) -/
def unitRatio (env : Env) (qt fromU toU : Sym) (zero : Rat) : Except ErrKind Rat :=
  if zero == 0 then env.convert qt fromU toU 1
  else
    match env.toBase qt fromU with
    | .error e => .error e
    | .ok ft =>
      match env.toBase qt toU with
      | .error e => .error e
      | .ok tt =>
        match ft 1 with
        | .error e => .error e
        | .ok f1 =>
          match ft 0 with
          | .error e => .error e
          | .ok f0 =>
            match tt 1 with
            | .error e => .error e
            | .ok t1 =>
              match tt 0 with
              | .error e => .error e
              | .ok t0 => if t1 - t0 = 0 then .error .other else .ok ((f1 - f0) / (t1 - t0))

/-- `_ConvertMatchingExp(quantity_type, from_unit, to_unit, exp, ·, in_derived)` (repairs 1e63d4c,
e246554): the plain conversion for the same unit and for exponent 1 outside a derived quantity; inside
a derived quantity, or with another exponent, a unit is a factor of a product and the value is scaled
by the unit ratio raised to the exponent (exponent 1 without an offset: the plain conversion is that
scaling) -/
def convertMatchingExp (env : Env) (qt fromU toU : Sym) (exp : Int) (inDerived : Bool) : Except ErrKind Tr :=
  if fromU == toU || (exp == 1 && !inDerived) then .ok (env.convert qt fromU toU)
  else
    match env.convert qt fromU toU 0 with
    | .error e => .error e
    | .ok zero =>
      if exp == 1 && zero == 0 then .ok (env.convert qt fromU toU)
      else
        match unitRatio env qt fromU toU zero with
        | .error e => .error e
        | .ok ratio =>
          match powInt ratio exp with
          | .error e => .error e
          | .ok factor => .ok (fun v => .ok (v * factor))

/-- `quantity_types_found_to_used_unit` -/
abbrev Found := List (Sym × Sym)

def Found.get (f : Found) (qt : Sym) : Option Sym :=
  match f with
  | [] => none
  | (k, u) :: rest => if k == qt then some u else Found.get rest qt

/-- the inner loop of `_MatchQuantities` over one dict `c`; `inDerived` is `len(c) > 1` -/
def matchDict (env : Env) (inDerived : Bool) : Found → List Entry → Tr → Except ErrKind (Found × List Entry × Tr)
  | found, [], tr => .ok (found, [], tr)
  | found, e :: es, tr =>
    match env.qtype e.cat with
    | .error err => .error err
    | .ok qt =>
      match found.get qt with
      | none =>
        match matchDict env inDerived ((qt, e.unit) :: found) es tr with
        | .error err => .error err
        | .ok (f', es', tr') => .ok (f', e :: es', tr')
      | some used =>
        match convertMatchingExp env qt e.unit used e.exp inDerived with
        | .error err => .error err
        | .ok step =>
          match matchDict env inDerived found es (tr.andThen step) with
          | .error err => .error err
          | .ok (f', es', tr') => .ok (f', { e with unit := used } :: es', tr')

/-- `_MatchQuantities(c1, c2, value1, value2)` -/
def matchQuantities (env : Env) (c1 c2 : List Entry) :
    Except ErrKind (List Entry × List Entry × Tr × Tr) :=
  match matchDict env (decide (1 < c1.length)) [] c1 Tr.ident with
  | .error e => .error e
  | .ok (f1, c1', t1) =>
    match matchDict env (decide (1 < c2.length)) f1 c2 Tr.ident with
    | .error e => .error e
    | .ok (_, c2', t2) => .ok (c1', c2', t1, t2)

/-! ### `_DoOperationWithSameQuantity` -/

/-- `only_units_expoents[unit]` / one value of `GetComposingUnitsJoiningExponents` -/
def unitTotal (c : List Entry) (u : Sym) : Int :=
  match c with
  | [] => 0
  | e :: es => (if e.unit == u then e.exp else 0) + unitTotal es u

/-- `set(quantity.GetComposingUnitsJoiningExponents())` as a list of `(unit, total exponent)` -/
def composingUnits (c : List Entry) : List (Sym × Int) := c.map (fun e => (e.unit, unitTotal c e.unit))

def sameSet (a b : List (Sym × Int)) : Bool := a.all (b.contains ·) && b.all (a.contains ·)

def opSame (env : Env) (q1 q2 : Quantity) : Except ErrKind (Quantity × Tr × Tr) :=
  if q1 == q2 then .ok (q1, Tr.ident, Tr.ident)
  else
    match matchQuantities env q1 q2 with
    | .error e => .error e
    | .ok (c1, c2, t1, t2) =>
      if sameSet (composingUnits c1) (composingUnits c2) then .ok (c1, t1, t2)
      else if (composingUnits c1).isEmpty then .ok (c2, t1, t2)
      else if (composingUnits c2).isEmpty then .ok (c1, t1, t2)
      else .error .units                       -- InvalidOperationError

/-! ### `_DoOperationResultingInNewQuantity` -/

/-- one round of the loop "add the categories to the resulting one" -/
def mergeEntry (opExp : Int → Int → Int) : List Entry → Entry → Except ErrKind (List Entry)
  | [], e2 => .ok [{ e2 with exp := opExp 0 e2.exp }]
  | e1 :: rest, e2 =>
    if e1.cat == e2.cat then
      if e1.unit == e2.unit then .ok ({ e1 with exp := opExp e1.exp e2.exp } :: rest)
      else .error .runtime                     -- "This should've been covered already"
    else
      match mergeEntry opExp rest e2 with
      | .error err => .error err
      | .ok r => .ok (e1 :: r)

def mergeAll (opExp : Int → Int → Int) : List Entry → List Entry → Except ErrKind (List Entry)
  | c1, [] => .ok c1
  | c1, e2 :: es =>
    match mergeEntry opExp c1 e2 with
    | .error err => .error err
    | .ok c1' => mergeAll opExp c1' es

/-- "remove the ones that have exponent = 0" -/
def dropZeros (c : List Entry) : List Entry :=
  c.filter (fun e => !(e.exp == 0 || unitTotal c e.unit == 0))

/-- `Quantity.CreateDerived(dict)`: validates every item, keeps the dict -/
def createDerived (env : Env) : List Entry → Except ErrKind Quantity
  | [] => .ok []
  | e :: es =>
    match env.checkCatUnit e.cat e.unit with
    | .error err => .error err
    | .ok _ =>
      match createDerived env es with
      | .error err => .error err
      | .ok r => .ok (e :: r)

def opNew (env : Env) (opExp : Int → Int → Int) (q1 q2 : Quantity) : Except ErrKind (Quantity × Tr × Tr) :=
  match matchQuantities env q1 q2 with
  | .error e => .error e
  | .ok (c1, c2, t1, t2) =>
    match mergeAll opExp c1 c2 with
    | .error e => .error e
    | .ok merged =>
      match createDerived env (dropZeros merged) with
      | .error e => .error e
      | .ok q => .ok (q, t1, t2)

/-- `getattr(unit_database, operation)(q1, q2, ·, ·)`: the resulting quantity and the conversions
applied to the two values before the value lambda -/
def opFunc (env : Env) (op : Op) (q1 q2 : Quantity) : Except ErrKind (Quantity × Tr × Tr) :=
  match op with
  | .sum | .sub => opSame env q1 q2
  | .mul => opNew env (· + ·) q1 q2
  | .div | .floordiv => opNew env (· - ·) q1 q2

/-! ### operands and results -/

/-- container kind of the values of an `Array` -/
inductive Kind | list | tuple | nd
deriving DecidableEq, Repr

inductive Operand
  /-- `IsNumber` is true: int, float, bool, numpy.number (`np` = a numpy scalar type) -/
  | num (np : Bool) (k : Rat)
  /-- a one-dimensional `numpy.ndarray` -/
  | ndarr (ks : List Rat)
  | scalar (q : Quantity) (v : Rat)
  | array (q : Quantity) (kind : Kind) (vs : List Rat)
  /-- anything else (str, None, list, …): no `GetQuantity`, no `values` -/
  | junk
  /-- an Array whose `values` attribute is a bare number (`Array.CreateWithQuantity(q, 3.0)`: nothing checks
  the container): `_ValueGenerator` neither iterates it nor treats it as numpy, `len()` of it is a `TypeError` -/
  | array0 (q : Quantity) (v : Rat)
deriving DecidableEq, Repr

inductive Out
  | scalar (q : Quantity) (v : Rat)
  | array (q : Quantity) (kind : Kind) (vs : List Rat)
  /-- not a barril object: what numpy computes when it does not hand the operation over -/
  | bare
deriving DecidableEq, Repr

def Operand.isBarril : Operand → Bool
  | .scalar .. | .array .. | .array0 .. => true
  | _ => false

def Out.quantity? : Out → Option Quantity
  | .scalar q _ | .array q _ _ => some q
  | .bare => none

def Out.values? : Out → Option (List Rat)
  | .scalar _ v => some [v]
  | .array _ _ vs => some vs
  | .bare => none

/-- `IsNumber(p)` -/
def isNumber : Operand → Option Rat
  | .num _ k => some k
  | _ => none

/-- `p.GetQuantity()`; `AttributeError` is `.other` -/
def quantityOf : Operand → Except ErrKind Quantity
  | .scalar q _ | .array q _ _ | .array0 q _ => .ok q
  | _ => .error .other

/-- `p.value` -/
def valueOf : Operand → Except ErrKind Rat
  | .scalar _ v => .ok v
  | _ => .error .other

def isDivision : Op → Bool
  | .div | .floordiv => true
  | _ => false

/-! ### `Scalar._DoOperation` -/

/-- `self = Scalar(q, v)`; `p1`, `p2` are the operands in operator order (one of them is `self`) -/
def scalarDoOp (env : Env) (q : Quantity) (v : Rat) (p1 p2 : Operand) (op : Op) : Except ErrKind Out :=
  match isNumber p1, isDivision op with
  | some k, false =>
    match vop op k v with                       -- callback_operation(p1, self._value)
    | .ok r => .ok (.scalar q r)
    | .error e => .error e
  | p1num, _ =>
    match isNumber p2 with
    | some k =>
      match vop op v k with                     -- callback_operation(self._value, p2)
      | .ok r => .ok (.scalar q r)
      | .error e => .error e
    | none =>
      match p1num with
      | some k =>                               -- number / scalar through the empty quantity
        match quantityOf p2 with
        | .error e => .error e
        | .ok q2 =>
          match valueOf p2 with
          | .error e => .error e
          | .ok v2 =>
            match opFunc env op emptyQ q2 with
            | .error e => .error e
            | .ok (qr, t1, t2) =>
              match applyOp op t1 t2 k v2 with
              | .error e => .error e
              | .ok r => .ok (.scalar qr r)
      | none =>
        match quantityOf p1 with
        | .error e => .error e
        | .ok q1 =>
          match quantityOf p2 with
          | .error e => .error e
          | .ok q2 =>
            match valueOf p2 with
            | .error e => .error e
            | .ok v2 =>
              match opFunc env op q1 q2 with
              | .error e => .error e
              | .ok (qr, t1, t2) =>
                match applyOp op t1 t2 v v2 with   -- value1 is self._value
                | .error e => .error e
                | .ok r => .ok (.scalar qr r)

/-- `unknown_unit_caption` of the quantity of the result of `Scalar._DoOperation` when the other operand is a plain
number (`cap` = the caption of `self._quantity`, e.g. `ObtainQuantity('<unknown>', None, 'furlongs')`; 0 = none; the
ordered dict `Quantity` does not hold it): the two number branches hand `self._quantity` ITSELF to
`CreateWithQuantity`, caption included; `number / scalar` and `number // scalar` go through `Divide` / `FloorDivide`,
whose `Quantity.CreateDerived(dict)` builds a quantity without a caption.  Same branch structure as `scalarDoOp`. -/
def scalarNumCaption (cap : Sym) (p1 p2 : Operand) (op : Op) : Sym :=
  match isNumber p1, isDivision op with
  | some _, false => cap
  | _, _ =>
    match isNumber p2 with
    | some _ => cap
    | none => 0

/-! ### `_ValueGenerator` -/

/-- what `_ValueGenerator` is given on one side: a number, or a list / tuple / ndarray -/
inductive Raw
  | num (k : Rat)
  | seq (kind : Kind) (vs : List Rat)
deriving DecidableEq, Repr

def Raw.isNumpy : Raw → Bool
  | .seq .nd _ => true
  | _ => false

/-- `isinstance(p, (tuple, list))` -/
def Raw.iterates : Raw → Bool
  | .seq .list _ | .seq .tuple _ => true
  | _ => false

def Raw.isTuple : Raw → Bool
  | .seq .tuple _ => true
  | _ => false

/-- `_ValueGenerator.IsNumpy` -/
def genIsNumpy (p1 p2 : Raw) : Bool := p1.isNumpy || p2.isNumpy

/-- `_ValueGenerator.IsTuple` -/
def genIsTuple (p1 p2 : Raw) : Bool :=
  if p1.iterates && p2.iterates then p1.isTuple && p2.isTuple
  else if p1.iterates then p1.isTuple
  else if p2.iterates then p2.isTuple
  else false

/-- `_ValueGenerator.__iter__` when no side is a numpy array -/
def genPairs : Raw → Raw → List (Rat × Rat)
  | .seq _ xs, .num k => xs.map (fun x => (x, k))
  | .num k, .seq _ ys => ys.map (fun y => (k, y))
  | .num a, .num b => [(a, b)]
  | .seq _ xs, .seq _ ys => xs.zip ys           -- zip: stops at the shorter one

/-! ### the vectorised branch: one call on whole containers, numpy broadcasting of 1-D operands -/

def rawValues : Raw → List Rat
  | .num k => [k]
  | .seq _ vs => vs

/-- shapes `()`/`(n,)`: a number or a length-1 container is repeated -/
def broadcastPairs (r1 r2 : Raw) : Except ErrKind (List (Rat × Rat)) :=
  match r1, r2 with
  | .num a, .num b => .ok [(a, b)]
  | .num a, .seq _ ys => .ok (ys.map (fun y => (a, y)))
  | .seq _ xs, .num b => .ok (xs.map (fun x => (x, b)))
  | .seq _ xs, .seq _ ys =>
    if xs.length == ys.length then .ok (xs.zip ys)
    else match xs, ys with
      | [a], _ => .ok (ys.map (fun y => (a, y)))
      | _, [b] => .ok (xs.map (fun x => (x, b)))
      | _, _ => .error .value                  -- "operands could not be broadcast together"

/-! ### `Array._DoOperation` -/

/-- `IsNumber(p) or isinstance(p, numpy.ndarray)` -/
def rawOf : Operand → Option Raw
  | .num _ k => some (.num k)
  | .ndarr ks => some (.seq .nd ks)
  | _ => none

/-- `p.values` -/
def valuesOf : Operand → Except ErrKind Raw
  | .array _ kind vs => .ok (.seq kind vs)
  | .array0 _ v => .ok (.num v)
  | _ => .error .other

/-- `len(p.values)`: a bare number has no `len()` (`TypeError`) -/
def rawLen : Raw → Except ErrKind Nat
  | .seq _ vs => .ok vs.length
  | .num _ => .error .type

/-- from "unit_database = self.GetUnitDatabase()" to the end of `Array._DoOperation` -/
def arrayCompute (env : Env) (op : Op) (q1 q2 : Quantity) (r1 r2 : Raw) : Except ErrKind Out :=
  match opFunc env op q1 q2 with
  | .error e => .error e
  | .ok (q, t1, t2) =>
    if genIsNumpy r1 r2 then
      match broadcastPairs r1 r2 with
      | .error e => .error e
      | .ok ps =>
        match mapE (fun p => applyOp op t1 t2 p.1 p.2) ps with
        | .error e => .error e
        | .ok vs => .ok (.array q .nd vs)
    else
      -- the element loop first (repair 4829052); only when it produced no quantity (no values):
      -- q, _ = operation_func(q1, q2, 1.0, 1.0)
      match mapE (fun p => applyOp op t1 t2 p.1 p.2) (genPairs r1 r2) with
      | .error e => .error e
      | .ok vs =>
        if (genPairs r1 r2).isEmpty then
          match applyOp op t1 t2 1 1 with
          | .error e => .error e
          | .ok _ => .ok (.array q (if genIsTuple r1 r2 then .tuple else .list) vs)
        else .ok (.array q (if genIsTuple r1 r2 then .tuple else .list) vs)

def arrayDoOp (env : Env) (p1 p2 : Operand) (op : Op) : Except ErrKind Out :=
  match rawOf p1 with
  | some r1 =>
    match valuesOf p2 with
    | .error e => .error e
    | .ok r2 =>
      match quantityOf p2 with
      | .error e => .error e
      | .ok q2 => arrayCompute env op emptyQ q2 r1 r2
  | none =>
    match rawOf p2 with
    | some r2 =>
      match valuesOf p1 with
      | .error e => .error e
      | .ok r1 =>
        match quantityOf p1 with
        | .error e => .error e
        | .ok q1 => arrayCompute env op q1 emptyQ r1 r2
    | none =>
      match valuesOf p1 with
      | .error e => .error e
      | .ok r1 =>
        match rawLen r1 with                    -- len(p1.values)
        | .error e => .error e
        | .ok n1 =>
          match valuesOf p2 with
          | .error e => .error e
          | .ok r2 =>
            match rawLen r2 with                -- len(p2.values)
            | .error e => .error e
            | .ok n2 =>
              if n1 != n2 then .error .value
              else
                match quantityOf p1 with
                | .error e => .error e
                | .ok q1 =>
                  match quantityOf p2 with
                  | .error e => .error e
                  | .ok q2 => arrayCompute env op q1 q2 r1 r2

/-! ### Python's operator dispatch for `lhs op rhs` -/

/-- `lhs op rhs`.  A barril object on the left runs its own operator method.  A Python number on the
left returns `NotImplemented` and the reflected method of `rhs` runs; a numpy scalar or ndarray on
the left does the same exactly when it defers (`numpyDefers`, numpy's `__array_priority__` protocol),
otherwise numpy computes a bare result itself.  Two non-barril operands are not barril's business. -/
def binop (env : Env) (numpyDefers : Bool) (op : Op) (lhs rhs : Operand) : Except ErrKind Out :=
  match lhs with
  | .scalar q v => scalarDoOp env q v lhs rhs op
  | .array .. => arrayDoOp env lhs rhs op
  | .array0 .. => arrayDoOp env lhs rhs op
  | _ =>
    let fromNumpy := match lhs with
      | .num np _ => np
      | .ndarr _ => true
      | _ => false
    match rhs with
    | .scalar q v => if fromNumpy && !numpyDefers then .ok .bare else scalarDoOp env q v lhs rhs op
    | .array .. => if fromNumpy && !numpyDefers then .ok .bare else arrayDoOp env lhs rhs op
    | .array0 .. => if fromNumpy && !numpyDefers then .ok .bare else arrayDoOp env lhs rhs op
    | _ => .ok .bare

/-- the legacy reflected operator `Array.__rdiv__(self, other)` (Python 2's `other / self`; Python 3 never calls
it, a caller can): `self._DoOperation(other, self, "Divide")`, the body of `__rtruediv__` -/
def arrayRDiv (env : Env) (self other : Operand) : Except ErrKind Out := arrayDoOp env other self .div

/-! ### `Array.FromScalars`, `Array.GetAbstractValue`, `Scalar.GetAbstractValue` (simple quantities) -/

/-- a Scalar with a simple (not derived) quantity -/
structure SimpleScalar where
  cat : Sym
  unit : Sym
  v : Rat
deriving DecidableEq, Repr

/-- `Scalar.GetValue(unit)` → `Quantity.ConvertScalarValue` of a simple quantity -/
def SimpleScalar.getValue (env : Env) (s : SimpleScalar) (u : Sym) : Except ErrKind Rat :=
  if s.unit == u then .ok s.v
  else
    match env.qtype s.cat with
    | .error e => .error e
    | .ok qt => env.convert qt s.unit u s.v

/-- `Array.FromScalars(scalars)` without the `unit`/`category` keywords: the empty sequence gives
`CreateEmptyArray()`, otherwise unit and category of the first Scalar and `Array(values, unit, category)` -/
def fromScalars (env : Env) : List SimpleScalar → Except ErrKind Out
  | [] => .ok (.array emptyQ .list [])
  | s0 :: ss =>
    match mapE (fun s => s.getValue env s0.unit) (s0 :: ss) with
    | .error e => .error e
    | .ok vs =>
      match env.checkCatUnit s0.cat s0.unit with    -- ObtainQuantity(unit, category)
      | .error e => .error e
      | .ok _ => .ok (.array [⟨s0.cat, s0.unit, 1⟩] .list vs)

/-- `Array.__getitem__(i)` for `0 ≤ i` -/
def Out.index (o : Out) (i : Nat) : Except ErrKind Rat :=
  match o with
  | .array _ _ vs => match vs[i]? with
    | some v => .ok v
    | none => .error .index
  | _ => .error .type

/-- `Array.GetValues(unit)` of a simple quantity: `Quantity.Convert` on the whole container; the
container kind is kept -/
def arrayGetValues (env : Env) (cat unit : Sym) (kind : Kind) (vs : List Rat) (u : Sym) :
    Except ErrKind (Kind × List Rat) :=
  if unit == u then .ok (kind, vs)
  else
    match env.convertLookup cat unit u with
    | .error e => .error e
    | .ok _ =>
      match mapE (env.convert cat unit u) vs with
      | .error e => .error e
      | .ok ws => .ok (kind, ws)

/-! ### `Array.FromScalars(scalars, *, unit=None, category=None)`: every argument form, any quantity -/

/-- a `Scalar`: its quantity (simple, derived or empty) and its value -/
structure QScalar where
  q : Quantity
  v : Rat
deriving DecidableEq, Repr

/-- `ObtainQuantity(dict)` hands a dict of one item with exponent 1 over to the simple branch -/
def isSimpleQ : Quantity → Bool
  | [e] => e.exp == 1
  | _ => false

def unitPairs (q : Quantity) : List (Str.Str × Int) := q.map (fun e => (Sym.bytes e.unit, e.exp))
def catPairs (q : Quantity) : List (Str.Str × Int) := q.map (fun e => (Sym.bytes e.cat, e.exp))

/-- `Quantity.GetUnit()`: the unit of a simple quantity; for a derived one
`_CreateUnitsWithJoinedExponentsString()` over `GetComposingUnitsJoiningExponents()` (`''` for the empty one) -/
def quantityUnit : Quantity → Sym
  | [e] => if e.exp == 1 then e.unit else Sym.ofBytes (Str.renderUnit (Str.joinExps (unitPairs [e])))
  | q => Sym.ofBytes (Str.renderUnit (Str.joinExps (unitPairs q)))

/-- `Quantity.GetCategory()`: the category, or `_MakeStr` of the (category, exponent) items -/
def quantityCategory : Quantity → Sym
  | [e] => if e.exp == 1 then e.cat else Sym.ofBytes (Str.makeStr (catPairs [e]))
  | q => Sym.ofBytes (Str.makeStr (catPairs q))

/-- `Scalar.GetValue(unit)` = `Quantity.ConvertScalarValue(value, unit)`: the same unit string returns the value;
a simple quantity converts through the two `UnitInfo`s; a derived one calls `UnitDatabase.Convert` with its
composing units, which `_ConvertWithExp` answers: no composing unit → the value as it is, one composing unit
(its exponent is not 1, the target's is) → `ValueError`, several → `ComposedUnitError` -/
def QScalar.getValue (env : Env) (s : QScalar) (u : Sym) : Except ErrKind Rat :=
  if quantityUnit s.q == u then .ok s.v
  else
    match s.q with
    | [] => .ok s.v
    | [e] =>
      if e.exp == 1 then
        match env.qtype e.cat with
        | .error err => .error err
        | .ok qt => env.convert qt e.unit u s.v
      else .error .value
    | _ :: _ :: _ => .error .units

/-- `x or default` for an optional string argument: `None` and `''` are falsy -/
def pyOr (o : Option Sym) (d : Sym) : Sym :=
  match o with
  | some s => if s == 0 then d else s
  | none => d

/-- `cls(values=values, unit=unit, category=category)` with two strings and a list:
`ObtainQuantity(unit, category)` and the values kept as they are -/
def newArray (env : Env) (vs : List Rat) (u c : Sym) : Except ErrKind Out :=
  match env.obtainSimple c u with
  | .error e => .error e
  | .ok u' => .ok (.array [⟨c, u', 1⟩] .list vs)

/-- the `StopIteration` branch of `FromScalars` (no Scalar given) -/
def fromScalarsNone (env : Env) (unit category : Option Sym) : Except ErrKind Out :=
  match unit, category with
  | none, none => .ok (.array emptyQ .list [])                 -- CreateEmptyArray()
  | some u, none =>
    match env.defaultCategory u with                           -- GetDefaultCategory(unit)
    | .error e => .error e
    | .ok (some c) => newArray env [] u c
    | .ok none =>
      -- cls(values=[], unit=unit, category=None): the shared constructor takes a non-string first argument for
      -- the value, so `unit` lands in the category slot: GetCategoryInfo(unit), and when that is a category,
      -- ObtainQuantity([], unit) asserts that the category is a list
      match env.qtype u with
      | .error e => .error e
      | .ok _ => .error .assertion
  | _, some _ => .error .assertion                             -- assert unit is None / "the unit must be specified too"

/-- `Array.FromScalars(scalars, unit=…, category=…)` -/
def fromScalarsKw (env : Env) (ss : List QScalar) (unit category : Option Sym) : Except ErrKind Out :=
  match ss with
  | [] => fromScalarsNone env unit category
  | s0 :: rest =>
    let u := pyOr unit (quantityUnit s0.q)
    let c := pyOr category (quantityCategory s0.q)
    match mapE (fun s => s.getValue env u) (s0 :: rest) with
    | .error e => .error e
    | .ok vs => newArray env vs u c

/-! ### `Array.GetValues(unit)` over a list / tuple of tuples, `Array.__str__` -/

/-- `Array.GetValues(unit)` when the first element is a tuple (`IsListOfTuples`), simple quantity: every element
of every row through `Quantity.Convert`; rows come back as tuples in a container of the same type -/
def arrayGetValuesRows (env : Env) (cat unit : Sym) (rows : List (List Rat)) (u : Sym) :
    Except ErrKind (List (List Rat)) :=
  if unit == u then .ok rows
  else mapE (fun row => mapE (fun v =>
    match env.convertLookup cat unit u with
    | .error e => .error e
    | .ok _ => env.convert cat unit u v) row) rows

/-- `" ".join(texts)` -/
def joinSpace : List Str.Str → Str.Str
  | [] => []
  | [t] => t
  | t :: rest => t ++ [32] ++ joinSpace rest

/-- one element of the values of an Array as `__str__` sees it: the two texts Python would produce for it -/
structure ElemText where
  /-- `isinstance(v, tuple)` -/
  isTuple : Bool
  /-- `str(v)` -/
  str : Str.Str
  /-- `FormatFloat("%g", v)` -/
  g : Str.Str

/-- `Array.__str__`: `str(v)` of every element when the FIRST one is a tuple, `FormatFloat("%g", v)` otherwise,
joined by blanks, followed by `GetFormattedSuffix()` = `" [%s]" % unit` -/
def arrayStr (q : Quantity) (elems : List ElemText) : Str.Str :=
  let texts := match elems with
    | e :: _ => if e.isTuple then elems.map (·.str) else elems.map (·.g)
    | [] => []
  joinSpace texts ++ [32, 91] ++ Sym.bytes (quantityUnit q) ++ [93]

end Barril.Ops
