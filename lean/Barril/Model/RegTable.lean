/-
C14 on the shipped tables: the registry invariant as decidable per-row predicates over a `Db` (the
flat view of a registry the translator reads: rows in the iteration order of `quantity_types`,
categories in registration order).  `harness/tablepreds.py` turns them into one `decide +kernel`
theorem per 100-row chunk of the regenerated tables.
-/
import Barril.Model.Reg

namespace Barril
open Barril.Reg

/-- the row is THE row listed under its symbol (so no symbol is listed twice, in one quantity type
or in two), and the first-listed row of its quantity type has identity to-base and from-base
functions -/
def UnitRow.regOk (db : Db) (w : UnitRow) : Bool :=
  db.unitBySym w.sym == some w
  && (match db.units.find? (·.qtype == w.qtype) with
      | some b => b.ok && isIdent b
      | none => false)

def symInType (db : Db) (qt u : Sym) : Bool := db.units.any (fun w => w.qtype == qt && w.sym == u)

/-- the category is THE one stored under its name, its quantity type exists, its default unit and
its valid units are units of that type, its default value lies inside its limits -/
def CatRow.regOk (db : Db) (c : CatRow) : Bool :=
  db.catByName c.name == some c
  && db.hasType c.qtype
  && symInType db c.qtype c.defaultUnit
  && (match c.validUnits with
      | none => true
      | some vu => vu.all (symInType db c.qtype))
  && minOk c.minV c.minExcl c.defaultValue
  && maxOk c.maxV c.maxExcl c.defaultValue

/-- both families of predicates, evaluated (used by the driver for the native cross-check) -/
def Db.regOk (db : Db) : Bool := db.units.all (UnitRow.regOk db) && db.cats.all (CatRow.regOk db)

end Barril
