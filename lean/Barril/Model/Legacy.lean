/-
`FixUnitIfIsLegacy`: a chain of `str.replace` calls over the ordered substitution list.
Core `String.replace` does not reduce in the kernel, so the replacement is an own, fuel-structured
function over byte lists (Python semantics: left to right, non-overlapping, all occurrences).
-/
import Barril.Model.Basic

namespace Barril

def isPrefixB : List Nat → List Nat → Bool
  | [], _ => true
  | _ :: _, [] => false
  | a :: as, b :: bs => a == b && isPrefixB as bs

/-- `s.replace(pat, rep)` for a non-empty `pat`; `fuel ≥ s.length + 1` -/
def replaceAllFuel : Nat → List Nat → List Nat → List Nat → List Nat
  | 0, s, _, _ => s
  | _ + 1, [], _, _ => []
  | f + 1, c :: cs, pat, rep =>
    if isPrefixB pat (c :: cs) then rep ++ replaceAllFuel f ((c :: cs).drop pat.length) pat rep
    else c :: replaceAllFuel f cs pat rep

def replaceAll (s pat rep : List Nat) : List Nat :=
  if pat.isEmpty then s else replaceAllFuel (s.length + 1) s pat rep

/-- the chain of replacements, on bytes -/
def fixLegacyBytes (legacy : List (Sym × Sym)) (s : List Nat) : List Nat :=
  legacy.foldl (fun acc lc => replaceAll acc (Sym.bytes lc.1) (Sym.bytes lc.2)) s

/-- `FixUnitIfIsLegacy(unit)[1]` -/
def fixLegacy (legacy : List (Sym × Sym)) (u : Sym) : Sym :=
  Sym.ofBytes (fixLegacyBytes legacy (Sym.bytes u))

/-- `FixUnitIfIsLegacy(unit)[0]` -/
def isLegacy (legacy : List (Sym × Sym)) (u : Sym) : Bool := fixLegacy legacy u != u

end Barril
